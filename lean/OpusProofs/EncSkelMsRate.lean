import OpusModel.EncSkel
import OpusProofs.EncSkelCbr
import Mathlib.Tactic.Linarith
import Mathlib.Tactic.Ring
/-
  OpusProofs.EncSkelMsRate — the multistream bit-rate allocation (`OpusModel/EncSkel/MsRate.lean`,
  src/opus_multistream_encoder.c:668-798): what the integer arithmetic guarantees.

  * surround / plain layouts (`surround_rate_allocation`): every coupled stream gets ≥ 2·channel_offset ≥ 4000 b/s,
    every other non-LFE stream ≥ channel_offset ≥ 2000 b/s, the LFE stream ≥ 500 b/s (the floor of :794 is only ever
    active for the LFE stream); if the total covers the offsets (`bitrate ≥ channel_offset·nb_normal + lfe_offset·nb_lfe`)
    then `bitrate − nb_normal − 1 ≤ Σ rates ≤ bitrate`, otherwise the offsets win:
    `channel_offset·nb_normal + 500·nb_lfe ≤ Σ rates ≤ channel_offset·nb_normal + lfe_offset·nb_lfe` (> bitrate);
  * ambisonics: all streams get `max(total/nb_streams, 500)`; `total − nb_streams < Σ ≤ total` for every setting the
    ctl admits;
  * no 32-bit overflow (`msFits`) for every layout, frame size and bit-rate setting the API admits — with the products
    `channel_rate*coupled_ratio` / `channel_rate*lfe_ratio` of :729/:733 computed in 64 bits (/repo 69d56905; the
    32-bit product overflowed for `opus_multistream_encoder_create` layouts with many more input channels than coded
    channels, see the example in OpusProps/C05.lean), the shifted values cast back satisfy
    `−8178000 ≤ channel_rate*512>>8 ≤ bitrate ≤ 76500000` and `|channel_rate*32>>8| ≤ 9562500`;
  * with OPUS_AUTO the allocated sum is always worth `smallest_packet` bytes, which discharges the hypothesis of
    `ms_encode_ret_le_out` for CBR.
-/
namespace Opus.EncSkel.Proofs
open Opus Opus.EncSkel Opus.EncDecide

theorem tdiv_spec (a b : Int) (hb : 0 < b) :
    (0 ≤ a → 0 ≤ Int.tdiv a b ∧ Int.tdiv a b * b ≤ a ∧ a < (Int.tdiv a b + 1) * b) ∧
    (a < 0 → Int.tdiv a b ≤ 0 ∧ a ≤ Int.tdiv a b * b ∧ (Int.tdiv a b - 1) * b < a) := by
  constructor
  · intro ha
    rw [Int.tdiv_eq_ediv_of_nonneg ha]
    exact ⟨Int.ediv_nonneg ha (by omega), Int.ediv_mul_le a (by omega), Int.lt_ediv_add_one_mul_self a hb⟩
  · intro ha
    have h : Int.tdiv a b = -((-a) / b) := by
      have := Int.neg_tdiv (a := -a) (b := b)
      rw [Int.neg_neg] at this
      rw [this, Int.tdiv_eq_ediv_of_nonneg (by omega)]
    have h1 := Int.ediv_mul_le (-a) (show b ≠ 0 by omega)
    have h2 := Int.lt_ediv_add_one_mul_self (-a) hb
    have h3 : 0 ≤ (-a) / b := Int.ediv_nonneg (by omega) (by omega)
    rw [h]
    refine ⟨by omega, by nlinarith, by nlinarith⟩

/-- What `opus_multistream_encoder_init_impl` (:441-444) and the surround / ambisonics create functions guarantee
    of the layout: 1 ≤ streams, 0 ≤ coupled ≤ streams, streams + coupled ≤ 255; an LFE stream exists only for
    mapping family 1 with ≥ 6 channels, is the last stream, is not coupled, and is never the only stream. -/
structure MsLayoutOk (l : MsLayout) : Prop where
  n1 : 1 ≤ l.nbStreams
  c0 : 0 ≤ l.nbCoupled
  cn : l.nbCoupled ≤ l.nbStreams
  tot : l.nbStreams + l.nbCoupled ≤ 255
  lfe : l.lfeStream = -1 ∨ (l.nbCoupled ≤ l.lfeStream ∧ l.lfeStream < l.nbStreams ∧ 2 ≤ l.nbStreams)
  amb : l.ambisonics = true → l.lfeStream = -1

/-- `st->bitrate_bps` as `opus_multistream_encoder_ctl(OPUS_SET_BITRATE)` leaves it for `nch` input channels. -/
def MsBrOk (nch br : Int) : Prop :=
  br = OPUS_AUTO ∨ br = OPUS_BITRATE_MAX ∨ (500 * nch ≤ br ∧ br ≤ 300000 * nch)

theorem msCtlBitrate_ok (nch v b : Int) (_hn : 1 ≤ nch) (h : msCtlBitrate nch v = some b) : MsBrOk nch b := by
  unfold msCtlBitrate at h
  unfold MsBrOk
  simp only [OPUS_AUTO, OPUS_BITRATE_MAX] at *
  split at h
  · split at h
    · cases h
    · simp only [Option.some.injEq] at h; omega
  · simp only [Option.some.injEq] at h; omega

/-- Frame rates of the legal frame sizes (2.5 … 120 ms). -/
theorem legal_rate (fs fsz : Int) (hfs : fs = 8000 ∨ fs = 12000 ∨ fs = 16000 ∨ fs = 24000 ∨ fs = 48000)
    (hl : legalFrame fs fsz = true) :
    0 < fsz ∧ 8 ≤ fs / fsz ∧ fs / fsz ≤ 400 ∧ 0 < 3 * 8 * fs / fsz ∧ 3 * 8 * fs / fsz ≤ 9600 ∧
    0 ≤ 60 * fs / fsz ∧ 60 * fs / fsz ≤ 24000 := by
  have h := legal_fsz fs fsz hl
  have hf : 0 < fsz := by omega
  have a1 : 8 ≤ fs / fsz := (Int.le_ediv_iff_mul_le hf).mpr (by omega)
  have a2 : fs / fsz < 401 := (Int.ediv_lt_iff_lt_mul hf).mpr (by omega)
  have a3 : 1 ≤ 3 * 8 * fs / fsz := (Int.le_ediv_iff_mul_le hf).mpr (by omega)
  have a4 : 3 * 8 * fs / fsz < 9601 := (Int.ediv_lt_iff_lt_mul hf).mpr (by omega)
  have a5 : 0 ≤ 60 * fs / fsz := (Int.le_ediv_iff_mul_le hf).mpr (by omega)
  have a6 : 60 * fs / fsz < 24001 := (Int.ediv_lt_iff_lt_mul hf).mpr (by omega)
  omega

/-! ### surround / plain layouts -/

theorem sur_core_hi (c u L co lo B so cr e S nn total num : Int)
    (hc : 0 ≤ c) (hu : 0 ≤ u) (hL : L = 0 ∨ L = 1) (hnn : nn = 2 * c + u)
    (hso0 : 0 ≤ so)
    (hnum : num = B - lo * L - so * (c + u) - co * nn)
    (htot : total = u * 256 + 512 * c + L * 32)
    (hcr1 : cr * total ≤ 256 * num) (hcr2 : 256 * num < (cr + 1) * total)
    (he1 : 8 * e ≤ cr) (he2 : cr < 8 * e + 8)
    (hS : S = c * (2 * co + (so + 2 * cr)) + u * (co + (so + cr)) + L * (lo + e)) :
    B - nn - 1 ≤ S ∧ S ≤ B := by
  have h1 : 0 ≤ so * c := Int.mul_nonneg hso0 hc
  have h2 : 0 ≤ so * u := Int.mul_nonneg hso0 hu
  subst hnn htot hnum
  rcases hL with rfl | rfl
  · have a : 256 * S ≤ 256 * B := by nlinarith
    have b : 256 * B - 256 * (2 * c + u) - 287 ≤ 256 * S := by nlinarith
    constructor <;> omega
  · have a : 256 * S ≤ 256 * B := by nlinarith
    have b : 256 * B - 256 * (2 * c + u) - 287 ≤ 256 * S := by nlinarith
    constructor <;> omega

/-- Layout counts of the surround branch. -/
theorem sur_counts (l : MsLayout) (hl : MsLayoutOk l) (fs fsz br : Int) :
    let v := msSurVals l fs fsz br
    (v.nbLfe = 0 ∨ v.nbLfe = 1) ∧ v.nbLfe = msNbLfe l ∧ 0 ≤ v.nbUncoupled ∧ v.nbUncoupled = l.nbStreams - l.nbCoupled - v.nbLfe ∧
    v.nbNormal = 2 * l.nbCoupled + v.nbUncoupled ∧ 1 ≤ v.nbNormal ∧ v.nbNormal ≤ 255 ∧
    v.total = v.nbUncoupled * 256 + 512 * l.nbCoupled + v.nbLfe * 32 := by
  obtain ⟨h1, h2, h3, h4, h5, _⟩ := hl
  simp only [msSurVals, msNbLfe]
  refine ⟨by split <;> simp, trivial, ?_, trivial, trivial, ?_, ?_, trivial⟩ <;> split <;> omega

/-- Ranges of everything the API lets reach `surround_rate_allocation`. -/
structure SurIn (l : MsLayout) (fs fsz nch br : Int) : Prop where
  lay : MsLayoutOk l
  fs1 : 8000 ≤ fs
  fs2 : fs ≤ 48000
  r1 : 8 ≤ fs / fsz
  r2 : fs / fsz ≤ 400
  nch1 : l.nbStreams + l.nbCoupled ≤ nch
  nch2 : nch ≤ 255
  br : MsBrOk nch br

/-- The locals of `surround_rate_allocation`, related to one another (each equation is the source line). -/
theorem sur_eqs (l : MsLayout) (fs fsz br : Int) :
    let v := msSurVals l fs fsz br
    v.channelOffset = 40 * max 50 (fs / fsz) ∧
    v.bitrate = msSurBitrate l fs v.channelOffset br ∧
    v.lfeOffset = min (Int.tdiv v.bitrate 20) 3000 + 15 * max 50 (fs / fsz) ∧
    v.streamOffset0 = Int.tdiv (Int.tdiv (v.bitrate - v.channelOffset * v.nbNormal - v.lfeOffset * v.nbLfe) v.nbNormal) 2 ∧
    v.streamOffset = max 0 (min 20000 v.streamOffset0) ∧
    v.num = v.bitrate - v.lfeOffset * v.nbLfe - v.streamOffset * (l.nbCoupled + v.nbUncoupled) - v.channelOffset * v.nbNormal ∧
    v.channelRate = Int.tdiv (256 * v.num) v.total :=
  ⟨rfl, rfl, rfl, rfl, rfl, rfl, rfl⟩

/-- Value facts of the locals. -/
structure SurFacts (l : MsLayout) (v : SurVals) : Prop where
  L01 : v.nbLfe = 0 ∨ v.nbLfe = 1
  Leq : v.nbLfe = msNbLfe l
  u0 : 0 ≤ v.nbUncoupled
  ueq : v.nbUncoupled = l.nbStreams - l.nbCoupled - v.nbLfe
  nneq : v.nbNormal = 2 * l.nbCoupled + v.nbUncoupled
  nn1 : 1 ≤ v.nbNormal
  nn2 : v.nbNormal ≤ 255
  toteq : v.total = v.nbUncoupled * 256 + 512 * l.nbCoupled + v.nbLfe * 32
  co1 : 2000 ≤ v.channelOffset
  co2 : v.channelOffset ≤ 16000
  b1 : 500 ≤ v.bitrate
  b2 : v.bitrate ≤ 76500000
  lo1 : 775 ≤ v.lfeOffset
  lo2 : v.lfeOffset ≤ 9000
  so1 : 0 ≤ v.streamOffset
  so2 : v.streamOffset ≤ 20000
  soHi : 0 ≤ v.bitrate - v.channelOffset * v.nbNormal - v.lfeOffset * v.nbLfe →
          2 * v.streamOffset * v.nbNormal ≤ v.bitrate - v.channelOffset * v.nbNormal - v.lfeOffset * v.nbLfe
  soLo : v.bitrate - v.channelOffset * v.nbNormal - v.lfeOffset * v.nbLfe < 0 → v.streamOffset = 0
  numeq : v.num = v.bitrate - v.lfeOffset * v.nbLfe - v.streamOffset * (l.nbCoupled + v.nbUncoupled) - v.channelOffset * v.nbNormal
  crHi : 0 ≤ v.num → 0 ≤ v.channelRate ∧ v.channelRate * v.total ≤ 256 * v.num ∧ 256 * v.num < (v.channelRate + 1) * v.total
  crLo : v.num < 0 → v.channelRate ≤ 0 ∧ 256 * v.num ≤ v.channelRate * v.total ∧ (v.channelRate - 1) * v.total < 256 * v.num

theorem sur_bitrate_range (l : MsLayout) (fs co nch br nn : Int) (L : Int)
    (hL : L = msNbLfe l) (hnn : nn = 2 * l.nbCoupled + (l.nbStreams - l.nbCoupled - L)) (hnn1 : 1 ≤ nn) (hnn2 : l.nbStreams + l.nbCoupled ≤ 255)
    (hfs1 : 8000 ≤ fs) (hfs2 : fs ≤ 48000) (hco1 : 2000 ≤ co) (hco2 : co ≤ 16000) (hn1 : 1 ≤ nch) (hn2 : nch ≤ 255)
    (hbr : MsBrOk nch br) :
    500 ≤ msSurBitrate l fs co br ∧ msSurBitrate l fs co br ≤ 76500000 ∧
    (br = OPUS_AUTO → msSurBitrate l fs co br = nn * (co + fs + 10000) + 8000 * L) ∧
    (br ≠ OPUS_AUTO → br ≠ OPUS_BITRATE_MAX → msSurBitrate l fs co br = br) ∧
    msSurBitrate l fs co br ≤ max (300000 * nch) (nn * 300000 + 128000) := by
  have hL01 : L = 0 ∨ L = 1 := by rw [hL]; unfold msNbLfe; split <;> simp
  unfold msSurBitrate
  dsimp only
  rw [← hL, ← hnn]
  unfold MsBrOk at hbr
  have hA : OPUS_AUTO = -1000 := rfl
  have hM : OPUS_BITRATE_MAX = -1 := rfl
  by_cases ha : br = OPUS_AUTO
  · rw [if_pos ha]
    have h1 : nn * 20000 ≤ nn * (co + fs + 10000) := Int.mul_le_mul_of_nonneg_left (by omega) (by omega)
    have h2 : nn * (co + fs + 10000) ≤ nn * 74000 := Int.mul_le_mul_of_nonneg_left (by omega) (by omega)
    exact ⟨by omega, by omega, fun _ => rfl, fun h => absurd ha h, by omega⟩
  · rw [if_neg ha]
    by_cases hm : br = OPUS_BITRATE_MAX
    · rw [if_pos hm]
      exact ⟨by omega, by omega, fun h => absurd h ha, fun _ h => absurd hm h, by omega⟩
    · rw [if_neg hm]
      exact ⟨by omega, by omega, fun h => absurd h ha, fun _ _ => rfl, by omega⟩

theorem sur_facts (l : MsLayout) (fs fsz nch br : Int) (h : SurIn l fs fsz nch br) : SurFacts l (msSurVals l fs fsz br) := by
  obtain ⟨hl, hfs1, hfs2, hr1, hr2, hn1, hn2, hbr⟩ := h
  obtain ⟨c1, c2, c3, c4, c5, c6, c7, c8⟩ := sur_counts l hl fs fsz br
  obtain ⟨e1, e2, e3, e4, e5, e6, e7⟩ := sur_eqs l fs fsz br
  have hn0 : 1 ≤ nch := by have := hl.n1; have := hl.c0; omega
  generalize msSurVals l fs fsz br = v at *
  have hco1 : 2000 ≤ v.channelOffset := by omega
  have hco2 : v.channelOffset ≤ 16000 := by omega
  obtain ⟨hb1, hb2, -, -, -⟩ := sur_bitrate_range l fs v.channelOffset nch br v.nbNormal v.nbLfe c2 (by omega) c6 hl.tot hfs1 hfs2 hco1 hco2 hn0 hn2 hbr
  rw [← e2] at hb1 hb2
  have hB20 := (tdiv_spec v.bitrate 20 (by omega)).1 (by omega)
  have hlo1 : 775 ≤ v.lfeOffset := by omega
  have hlo2 : v.lfeOffset ≤ 9000 := by omega
  have hso1 : 0 ≤ v.streamOffset := by omega
  have hso2 : v.streamOffset ≤ 20000 := by omega
  refine ⟨c1, c2, c3, c4, c5, c6, c7, c8, hco1, hco2, hb1, hb2, hlo1, hlo2, hso1, hso2, ?_, ?_, e6, ?_, ?_⟩
  · intro hX
    generalize v.bitrate - v.channelOffset * v.nbNormal - v.lfeOffset * v.nbLfe = X at *
    obtain ⟨t1, t2, -⟩ := (tdiv_spec X v.nbNormal (by omega)).1 hX
    obtain ⟨t3, t4, -⟩ := (tdiv_spec (Int.tdiv X v.nbNormal) 2 (by omega)).1 t1
    rw [← e4] at t3 t4
    have : v.streamOffset ≤ v.streamOffset0 := by omega
    have hp : 0 ≤ (Int.tdiv X v.nbNormal - 2 * v.streamOffset) * v.nbNormal := Int.mul_nonneg (by omega) (by omega)
    nlinarith
  · intro hX
    generalize v.bitrate - v.channelOffset * v.nbNormal - v.lfeOffset * v.nbLfe = X at *
    obtain ⟨t1, -, -⟩ := (tdiv_spec X v.nbNormal (by omega)).2 hX
    have : v.streamOffset0 ≤ 0 := by
      rw [e4]
      rcases Int.lt_or_le (Int.tdiv X v.nbNormal) 0 with hneg | hpos
      · exact ((tdiv_spec _ 2 (by omega)).2 hneg).1
      · have : Int.tdiv X v.nbNormal = 0 := by omega
        rw [this]; decide
    omega
  · intro hnum
    have ht : 0 < v.total := by omega
    have := (tdiv_spec (256 * v.num) v.total ht).1 (by omega)
    rw [← e7] at this
    exact this
  · intro hnum
    have ht : 0 < v.total := by omega
    have := (tdiv_spec (256 * v.num) v.total ht).2 (by omega)
    rw [← e7] at this
    exact this

/-- The three per-stream rates of the surround branch (after the floor of :794). -/
def surRC (v : SurVals) : Int := max (2 * v.channelOffset + max 0 (v.streamOffset + v.channelRate * 512 / 256)) 500
def surRU (v : SurVals) : Int := max (v.channelOffset + max 0 (v.streamOffset + v.channelRate)) 500
def surRL (v : SurVals) : Int := max (max 0 (v.lfeOffset + v.channelRate * 32 / 256)) 500

theorem msRate_class (l : MsLayout) (fs fsz br i : Int) (ha : l.ambisonics = false) :
    msRate l fs fsz br i =
      if i < l.nbCoupled then surRC (msSurVals l fs fsz br)
      else if i ≠ l.lfeStream then surRU (msSurVals l fs fsz br) else surRL (msSurVals l fs fsz br) := by
  unfold msRate msRateRaw msSurRate surRC surRU surRL
  rw [ha]
  simp only [Bool.false_eq_true, if_false]
  split
  · rfl
  · split <;> rfl

/-- `rate_sum` in closed form: coupled streams, then the uncoupled ones with the LFE stream among them. -/
theorem sur_sum_closed (l : MsLayout) (hl : MsLayoutOk l) (fs fsz br : Int) (ha : l.ambisonics = false) :
    ∀ k : Nat, (k : Int) ≤ l.nbStreams →
      msRateSumTo l fs fsz br k =
        if (k : Int) ≤ l.nbCoupled then k * surRC (msSurVals l fs fsz br)
        else l.nbCoupled * surRC (msSurVals l fs fsz br) +
             ((k : Int) - l.nbCoupled - (if l.lfeStream ≠ -1 ∧ l.lfeStream < k then 1 else 0)) * surRU (msSurVals l fs fsz br) +
             (if l.lfeStream ≠ -1 ∧ l.lfeStream < k then 1 else 0) * surRL (msSurVals l fs fsz br) := by
  obtain ⟨h1, h2, h3, h4, h5, _⟩ := hl
  generalize hRC : surRC (msSurVals l fs fsz br) = RC
  generalize hRU : surRU (msSurVals l fs fsz br) = RU
  generalize hRL : surRL (msSurVals l fs fsz br) = RL
  intro k
  induction k with
  | zero => intro _; simp [msRateSumTo, h2]
  | succ k ih =>
    intro hk
    have ih := ih (by push_cast at hk; omega)
    rw [msRateSumTo, ih, msRate_class l fs fsz br k ha, hRC, hRU, hRL]
    push_cast at hk ⊢
    split_ifs <;> first
      | omega
      | ring1
      | (have hkeq : (k : Int) = l.nbCoupled := by omega
         rw [hkeq]; ring1)

theorem sur_sum_eq (l : MsLayout) (hl : MsLayoutOk l) (fs fsz br : Int) (ha : l.ambisonics = false) :
    msRateSum l fs fsz br =
      l.nbCoupled * surRC (msSurVals l fs fsz br) + (l.nbStreams - l.nbCoupled - msNbLfe l) * surRU (msSurVals l fs fsz br) +
      msNbLfe l * surRL (msSurVals l fs fsz br) := by
  unfold msRateSum
  have hn : ((l.nbStreams.toNat : Nat) : Int) = l.nbStreams := Int.toNat_of_nonneg (by have := hl.n1; omega)
  rw [sur_sum_closed l hl fs fsz br ha l.nbStreams.toNat (by omega), hn]
  obtain ⟨h1, h2, h3, h4, h5, _⟩ := hl
  unfold msNbLfe
  by_cases hlf : l.lfeStream ≠ -1
  · rw [if_pos hlf]
    rcases h5 with h5 | h5
    · exact absurd h5 hlf
    · rw [if_neg (by omega), if_pos ⟨hlf, h5.2.1⟩]
  · rw [if_neg hlf]
    have : ¬ (l.lfeStream ≠ -1 ∧ l.lfeStream < l.nbStreams) := fun h => hlf h.1
    rw [if_neg this]
    by_cases hc : l.nbStreams ≤ l.nbCoupled
    · rw [if_pos hc]
      have : l.nbStreams = l.nbCoupled := by omega
      rw [this]; ring
    · rw [if_neg hc]

theorem sur_core_lo (c u L co lo RL S nn : Int) (hL : L = 0 ∨ L = 1) (hnn : nn = 2 * c + u)
    (hRL1 : 500 ≤ RL) (hRL2 : RL ≤ lo) (hS : S = c * (2 * co) + u * co + L * RL) :
    co * nn + 500 * L ≤ S ∧ S ≤ co * nn + lo * L := by
  subst hnn hS
  rcases hL with rfl | rfl <;> constructor <;> nlinarith

/-- **Sum of the allocated rates, surround / plain layouts.**  If the total covers the per-channel and LFE offsets the
    allocation hands out the total up to rounding: `bitrate − nb_normal − 1 ≤ Σ ≤ bitrate`; otherwise every stream
    keeps its offset and the sum EXCEEDS the requested total:
    `channel_offset·nb_normal + 500·nb_lfe ≤ Σ ≤ channel_offset·nb_normal + lfe_offset·nb_lfe`. -/
theorem msSur_sum (l : MsLayout) (fs fsz nch br : Int) (h : SurIn l fs fsz nch br) (ha : l.ambisonics = false) :
    let v := msSurVals l fs fsz br
    (v.channelOffset * v.nbNormal + v.lfeOffset * v.nbLfe ≤ v.bitrate →
       v.bitrate - v.nbNormal - 1 ≤ msRateSum l fs fsz br ∧ msRateSum l fs fsz br ≤ v.bitrate) ∧
    (v.bitrate < v.channelOffset * v.nbNormal + v.lfeOffset * v.nbLfe →
       v.channelOffset * v.nbNormal + 500 * v.nbLfe ≤ msRateSum l fs fsz br ∧
       msRateSum l fs fsz br ≤ v.channelOffset * v.nbNormal + v.lfeOffset * v.nbLfe) := by
  intro v
  have F := sur_facts l fs fsz nch br h
  have hsum := sur_sum_eq l h.lay fs fsz br ha
  have hc0 := h.lay.c0
  change SurFacts l v at F
  rw [show msSurVals l fs fsz br = v from rfl, ← F.Leq, ← F.ueq] at hsum
  obtain ⟨L01, -, u0, -, nneq, nn1, -, toteq, co1, -, -, -, lo1, -, so1, -, soHi, soLo, numeq, crHi, crLo⟩ := F
  constructor
  · intro hX
    have hX' : 0 ≤ v.bitrate - v.channelOffset * v.nbNormal - v.lfeOffset * v.nbLfe := by omega
    have hso := soHi hX'
    have hnum : 0 ≤ v.num := by
      have a1 : v.streamOffset * (l.nbCoupled + v.nbUncoupled) ≤ v.streamOffset * v.nbNormal :=
        Int.mul_le_mul_of_nonneg_left (by omega) so1
      have a2 : 0 ≤ v.streamOffset * v.nbNormal := Int.mul_nonneg so1 (by omega)
      rw [numeq]; nlinarith
    obtain ⟨cr0, cr1, cr2⟩ := crHi hnum
    have hRC : surRC v = 2 * v.channelOffset + (v.streamOffset + 2 * v.channelRate) := by unfold surRC; omega
    have hRU : surRU v = v.channelOffset + (v.streamOffset + v.channelRate) := by unfold surRU; omega
    have hRL : surRL v = v.lfeOffset + v.channelRate * 32 / 256 := by unfold surRL; omega
    rw [hRC, hRU, hRL] at hsum
    exact sur_core_hi l.nbCoupled v.nbUncoupled v.nbLfe v.channelOffset v.lfeOffset v.bitrate v.streamOffset v.channelRate
      (v.channelRate * 32 / 256) _ v.nbNormal v.total v.num hc0 u0 L01 nneq so1 numeq toteq cr1 cr2 (by omega) (by omega) hsum
  · intro hX
    have hso := soLo (by omega)
    have hnum : v.num < 0 := by rw [numeq, hso]; omega
    obtain ⟨cr0, -, -⟩ := crLo hnum
    have hRC : surRC v = 2 * v.channelOffset := by unfold surRC; omega
    have hRU : surRU v = v.channelOffset := by unfold surRU; omega
    have hRL1 : 500 ≤ surRL v := by unfold surRL; omega
    have hRL2 : surRL v ≤ v.lfeOffset := by unfold surRL; omega
    rw [hRC, hRU] at hsum
    exact sur_core_lo l.nbCoupled v.nbUncoupled v.nbLfe v.channelOffset v.lfeOffset (surRL v) _ v.nbNormal L01 nneq hRL1 hRL2 hsum

/-- **Per-stream floors, surround / plain layouts**: a coupled stream gets at least `2·channel_offset` (≥ 4000 b/s), any
    other non-LFE stream at least `channel_offset` (≥ 2000 b/s), the LFE stream at least 500 b/s — so the floor of
    :794 can only ever act on the LFE stream. -/
theorem msSur_floor (l : MsLayout) (fs fsz nch br : Int) (h : SurIn l fs fsz nch br) (ha : l.ambisonics = false) (i : Int) :
    500 ≤ msRate l fs fsz br i ∧
    (i < l.nbCoupled → 2 * (msSurVals l fs fsz br).channelOffset ≤ msRate l fs fsz br i ∧ 4000 ≤ msRate l fs fsz br i) ∧
    (l.nbCoupled ≤ i → i ≠ l.lfeStream →
       (msSurVals l fs fsz br).channelOffset ≤ msRate l fs fsz br i ∧ 2000 ≤ msRate l fs fsz br i) := by
  have F := sur_facts l fs fsz nch br h
  rw [msRate_class l fs fsz br i ha]
  generalize msSurVals l fs fsz br = v at *
  have := F.co1
  refine ⟨?_, ?_, ?_⟩
  · split
    · unfold surRC; omega
    · split
      · unfold surRU; omega
      · unfold surRL; omega
  · intro hi; rw [if_pos hi]; unfold surRC; omega
  · intro hi hl; rw [if_neg (by omega), if_pos hl]; unfold surRU; omega

/-! ### ambisonics -/

theorem msRate_ambi (l : MsLayout) (fs fsz br i : Int) (ha : l.ambisonics = true) :
    msRate l fs fsz br i = max (Int.tdiv (msAmbiTotal l fs fsz br) l.nbStreams) 500 := by
  unfold msRate msRateRaw
  rw [ha]; rfl

theorem ambi_sum_closed (l : MsLayout) (fs fsz br : Int) (ha : l.ambisonics = true) :
    ∀ k : Nat, msRateSumTo l fs fsz br k = k * max (Int.tdiv (msAmbiTotal l fs fsz br) l.nbStreams) 500 := by
  intro k
  induction k with
  | zero => simp [msRateSumTo]
  | succ k ih => rw [msRateSumTo, ih, msRate_ambi l fs fsz br k ha]; push_cast; ring

theorem ambi_total_range (l : MsLayout) (hl : MsLayoutOk l) (fs fsz nch br : Int) (hfs1 : 8000 ≤ fs) (hfs2 : fs ≤ 48000)
    (hq1 : 0 ≤ 60 * fs / fsz) (hq2 : 60 * fs / fsz ≤ 24000) (hn1 : l.nbStreams + l.nbCoupled ≤ nch) (hn2 : nch ≤ 255)
    (hbr : MsBrOk nch br) :
    500 * l.nbStreams ≤ msAmbiTotal l fs fsz br ∧ msAmbiTotal l fs fsz br ≤ 81600000 ∧
    (br = OPUS_AUTO → 23000 * l.nbStreams ≤ msAmbiTotal l fs fsz br) := by
  obtain ⟨h1, h2, h3, h4, -, -⟩ := hl
  unfold msAmbiTotal
  unfold MsBrOk at hbr
  have hA : OPUS_AUTO = -1000 := rfl
  have hM : OPUS_BITRATE_MAX = -1 := rfl
  by_cases hba : br = OPUS_AUTO
  · rw [if_pos hba]
    have a1 : (l.nbCoupled + l.nbStreams) * 8000 ≤ (l.nbCoupled + l.nbStreams) * (fs + 60 * fs / fsz) :=
      Int.mul_le_mul_of_nonneg_left (by omega) (by omega)
    have a2 : (l.nbCoupled + l.nbStreams) * (fs + 60 * fs / fsz) ≤ (l.nbCoupled + l.nbStreams) * 72000 :=
      Int.mul_le_mul_of_nonneg_left (by omega) (by omega)
    exact ⟨by omega, by omega, fun _ => by omega⟩
  · rw [if_neg hba]
    by_cases hbm : br = OPUS_BITRATE_MAX
    · rw [if_pos hbm]; exact ⟨by omega, by omega, fun h => absurd h hba⟩
    · rw [if_neg hbm]; exact ⟨by omega, by omega, fun h => absurd h hba⟩

/-- **Ambisonics allocation**: every stream gets the same rate `R = total / nb_streams ≥ 500` (the floor of :794 is
    never active for a setting the ctl admits), and `total − nb_streams < Σ = nb_streams·R ≤ total`. -/
theorem msAmbi_sum (l : MsLayout) (hl : MsLayoutOk l) (fs fsz nch br : Int) (ha : l.ambisonics = true)
    (hfs1 : 8000 ≤ fs) (hfs2 : fs ≤ 48000) (hq1 : 0 ≤ 60 * fs / fsz) (hq2 : 60 * fs / fsz ≤ 24000)
    (hn1 : l.nbStreams + l.nbCoupled ≤ nch) (hn2 : nch ≤ 255) (hbr : MsBrOk nch br) :
    ∃ R : Int, (∀ i, msRate l fs fsz br i = R) ∧ 500 ≤ R ∧ msRateSum l fs fsz br = l.nbStreams * R ∧
      msAmbiTotal l fs fsz br - l.nbStreams < msRateSum l fs fsz br ∧ msRateSum l fs fsz br ≤ msAmbiTotal l fs fsz br ∧
      (br = OPUS_AUTO → 23000 ≤ R) := by
  obtain ⟨t1, t2, t3⟩ := ambi_total_range l hl fs fsz nch br hfs1 hfs2 hq1 hq2 hn1 hn2 hbr
  have hn := hl.n1
  obtain ⟨q0, q1, q2⟩ := (tdiv_spec (msAmbiTotal l fs fsz br) l.nbStreams (by omega)).1 (by omega)
  have hq500 : 500 ≤ Int.tdiv (msAmbiTotal l fs fsz br) l.nbStreams := by
    by_contra hlt
    have : (Int.tdiv (msAmbiTotal l fs fsz br) l.nbStreams + 1) * l.nbStreams ≤ 500 * l.nbStreams :=
      Int.mul_le_mul_of_nonneg_right (by omega) (by omega)
    omega
  have hmax : max (Int.tdiv (msAmbiTotal l fs fsz br) l.nbStreams) 500 = Int.tdiv (msAmbiTotal l fs fsz br) l.nbStreams := by omega
  have hsum : msRateSum l fs fsz br = l.nbStreams * Int.tdiv (msAmbiTotal l fs fsz br) l.nbStreams := by
    unfold msRateSum
    rw [ambi_sum_closed l fs fsz br ha, hmax, Int.toNat_of_nonneg (by omega)]
  refine ⟨Int.tdiv (msAmbiTotal l fs fsz br) l.nbStreams, fun i => by rw [msRate_ambi l fs fsz br i ha, hmax], hq500, hsum, ?_, ?_, ?_⟩
  · rw [hsum]; nlinarith
  · rw [hsum]; nlinarith
  · intro hb
    have := t3 hb
    by_contra hlt
    have : (Int.tdiv (msAmbiTotal l fs fsz br) l.nbStreams + 1) * l.nbStreams ≤ 23000 * l.nbStreams :=
      Int.mul_le_mul_of_nonneg_right (by omega) (by omega)
    omega

theorem msAmbi_floor_inactive (l : MsLayout) (hl : MsLayoutOk l) (fs fsz nch br : Int) (ha : l.ambisonics = true)
    (hfs1 : 8000 ≤ fs) (hfs2 : fs ≤ 48000) (hq1 : 0 ≤ 60 * fs / fsz) (hq2 : 60 * fs / fsz ≤ 24000)
    (hn1 : l.nbStreams + l.nbCoupled ≤ nch) (hn2 : nch ≤ 255) (hbr : MsBrOk nch br) (i : Int) :
    msRate l fs fsz br i = msRateRaw l fs fsz br i := by
  obtain ⟨t1, -, -⟩ := ambi_total_range l hl fs fsz nch br hfs1 hfs2 hq1 hq2 hn1 hn2 hbr
  have hn := hl.n1
  obtain ⟨q0, q1, q2⟩ := (tdiv_spec (msAmbiTotal l fs fsz br) l.nbStreams (by omega)).1 (by omega)
  have hq500 : 500 ≤ Int.tdiv (msAmbiTotal l fs fsz br) l.nbStreams := by
    by_contra hlt
    have : (Int.tdiv (msAmbiTotal l fs fsz br) l.nbStreams + 1) * l.nbStreams ≤ 500 * l.nbStreams :=
      Int.mul_le_mul_of_nonneg_right (by omega) (by omega)
    omega
  unfold msRate msRateRaw
  rw [ha]
  simp only [if_true]
  omega

/-! ### OPUS_AUTO in CBR: the allocated sum is always worth `smallest_packet` bytes -/

theorem surIn_of (l : MsLayout) (hl : MsLayoutOk l) (fs fsz nch br : Int)
    (hfs : fs = 8000 ∨ fs = 12000 ∨ fs = 16000 ∨ fs = 24000 ∨ fs = 48000) (hleg : legalFrame fs fsz = true)
    (hn1 : l.nbStreams + l.nbCoupled ≤ nch) (hn2 : nch ≤ 255) (hbr : MsBrOk nch br) : SurIn l fs fsz nch br := by
  obtain ⟨-, r1, r2, -, -, -, -⟩ := legal_rate fs fsz hfs hleg
  exact ⟨hl, by omega, by omega, r1, r2, hn1, hn2, hbr⟩

theorem ms_auto_sum_ge (l : MsLayout) (hl : MsLayoutOk l) (fs fsz : Int)
    (hfs : fs = 8000 ∨ fs = 12000 ∨ fs = 16000 ∨ fs = 24000 ∨ fs = 48000) (hleg : legalFrame fs fsz = true) :
    9600 * l.nbStreams ≤ msRateSum l fs fsz OPUS_AUTO := by
  obtain ⟨hfz, r1, r2, d1, d2, q1, q2⟩ := legal_rate fs fsz hfs hleg
  have hbr : MsBrOk (l.nbStreams + l.nbCoupled) OPUS_AUTO := Or.inl rfl
  by_cases ha : l.ambisonics = true
  · obtain ⟨R, -, -, hs, -, -, hR⟩ := msAmbi_sum l hl fs fsz _ OPUS_AUTO ha (by omega) (by omega) q1 q2 (Int.le_refl _) hl.tot hbr
    have := hR rfl
    have hn := hl.n1
    have : l.nbStreams * 23000 ≤ l.nbStreams * R := Int.mul_le_mul_of_nonneg_left (by omega) (by omega)
    omega
  · have ha' : l.ambisonics = false := by cases h : l.ambisonics <;> simp_all
    have hin := surIn_of l hl fs fsz _ OPUS_AUTO hfs hleg (Int.le_refl _) hl.tot hbr
    have F := sur_facts l fs fsz _ OPUS_AUTO hin
    obtain ⟨hhi, -⟩ := msSur_sum l fs fsz _ OPUS_AUTO hin ha'
    obtain ⟨e1, e2, -⟩ := sur_eqs l fs fsz OPUS_AUTO
    obtain ⟨-, -, hB, -, -⟩ := sur_bitrate_range l fs (msSurVals l fs fsz OPUS_AUTO).channelOffset _ OPUS_AUTO
      (msSurVals l fs fsz OPUS_AUTO).nbNormal (msSurVals l fs fsz OPUS_AUTO).nbLfe F.Leq (by rw [F.nneq, F.ueq]) F.nn1 hl.tot
      (by omega) (by omega) F.co1 F.co2 (by have := hl.n1; have := hl.c0; omega) hl.tot hbr
    have hB := hB rfl
    rw [← e2] at hB
    generalize msSurVals l fs fsz OPUS_AUTO = v at *
    obtain ⟨L01, -, u0, ueq, nneq, nn1, -, -, co1, -, -, -, -, lo2, -⟩ := F
    have hc0 := hl.c0
    have hfs1 : 8000 ≤ fs := by omega
    have hp : v.nbNormal * 18000 ≤ v.nbNormal * (fs + 10000) := Int.mul_le_mul_of_nonneg_left (by omega) (by omega)
    have hcov : v.channelOffset * v.nbNormal + v.lfeOffset * v.nbLfe ≤ v.bitrate := by
      rw [hB]
      rcases L01 with h0 | h0 <;> rw [h0] <;> nlinarith
    obtain ⟨hlo, -⟩ := hhi hcov
    have hn : l.nbStreams ≤ v.nbNormal + v.nbLfe := by omega
    have : v.nbNormal * 20000 ≤ v.nbNormal * (v.channelOffset + fs + 10000) := Int.mul_le_mul_of_nonneg_left (by omega) (by omega)
    rcases L01 with h0 | h0 <;> rw [h0] at hB hn <;> omega

/-- The hypothesis `hauto` of `ms_encode_ret_le_out`, discharged: with OPUS_AUTO the CBR clamp
    `3*rate_sum/(3*8*Fs/frame_size)` of :882 is never below `smallest_packet`. -/
theorem ms_auto_enough (l : MsLayout) (hl : MsLayoutOk l) (fs fsz : Int)
    (hfs : fs = 8000 ∨ fs = 12000 ∨ fs = 16000 ∨ fs = 24000 ∨ fs = 48000) (hleg : legalFrame fs fsz = true) :
    msSmallest l.nbStreams fs fsz ≤ 3 * msRateSum l fs fsz OPUS_AUTO / (3 * 8 * fs / fsz) := by
  obtain ⟨hfz, r1, r2, d1, d2, q1, q2⟩ := legal_rate fs fsz hfs hleg
  have hs := ms_auto_sum_ge l hl fs fsz hfs hleg
  have hn := hl.n1
  rw [Int.le_ediv_iff_mul_le d1]
  have hS0 : 0 ≤ msSmallest l.nbStreams fs fsz := by unfold msSmallest; dsimp only; split <;> omega
  have hS1 : msSmallest l.nbStreams fs fsz ≤ 3 * l.nbStreams := by unfold msSmallest; dsimp only; split <;> omega
  have : msSmallest l.nbStreams fs fsz * (3 * 8 * fs / fsz) ≤ msSmallest l.nbStreams fs fsz * 9600 :=
    Int.mul_le_mul_of_nonneg_left d2 hS0
  omega

/-! ### the floor of :794 is dead code -/

theorem lfe_core (nn m q co lo B cr total : Int) (hnn : 1 ≤ nn) (hm : 50 ≤ m) (hq : 25 ≤ q) (hco : co = 40 * m)
    (hlo : lo = q + 15 * m) (hB : 500 ≤ B) (htot : total = 256 * nn + 32)
    (hcr : 256 * (B - co * nn - lo) ≤ cr * total) : 4000 - 8 * lo ≤ cr := by
  by_contra hlt
  have h1 : cr ≤ 3999 - 8 * lo := by omega
  have h2 : cr * total ≤ (3999 - 8 * lo) * total := Int.mul_le_mul_of_nonneg_right h1 (by omega)
  subst hco hlo htot
  nlinarith [Int.mul_nonneg (show (0:Int) ≤ nn - 1 by omega) (show (0:Int) ≤ m - 50 by omega),
             Int.mul_nonneg (show (0:Int) ≤ nn - 1 by omega) (show (0:Int) ≤ q - 25 by omega)]

/-- **`rate[i] = IMAX(rate[i], 500)` (:794) never changes anything**: for every setting the API admits, every stream's
    rate is already ≥ 500 b/s when `surround_rate_allocation` returns (the LFE stream, the only candidate, keeps at
    least `lfe_offset − (channel_offset + …)/8 ≥ 500`). -/
theorem msSur_floor_inactive (l : MsLayout) (fs fsz nch br : Int) (h : SurIn l fs fsz nch br) (ha : l.ambisonics = false)
    (i : Int) (hi : 0 ≤ i) : msRate l fs fsz br i = msRateRaw l fs fsz br i := by
  have F := sur_facts l fs fsz nch br h
  obtain ⟨e1, -, e3, -⟩ := sur_eqs l fs fsz br
  have hR := msRate_class l fs fsz br i ha
  unfold msRate at hR ⊢
  unfold msRateRaw msSurRate at hR ⊢
  rw [ha] at hR ⊢
  simp only [Bool.false_eq_true, if_false] at hR ⊢
  generalize msSurVals l fs fsz br = v at *
  obtain ⟨L01, Leq, u0, ueq, nneq, nn1, nn2, toteq, co1, co2, b1, b2, lo1, lo2, so1, so2, soHi, soLo, numeq, crHi, crLo⟩ := F
  have hc0 := h.lay.c0
  by_cases hic : i < l.nbCoupled
  · rw [if_pos hic]; omega
  · rw [if_neg hic]
    by_cases hil : i ≠ l.lfeStream
    · rw [if_pos hil]; omega
    · rw [if_neg hil]
      have hL1 : v.nbLfe = 1 := by
        rw [Leq]; unfold msNbLfe; rw [if_pos (by omega)]
      rcases Int.lt_or_le v.num 0 with hnum | hnum
      · obtain ⟨c0, c1, -⟩ := crLo hnum
        have hX : v.bitrate - v.channelOffset * v.nbNormal - v.lfeOffset * v.nbLfe < 0 := by
          by_contra hge
          have hso := soHi (by omega)
          have a1 : v.streamOffset * (l.nbCoupled + v.nbUncoupled) ≤ v.streamOffset * v.nbNormal :=
            Int.mul_le_mul_of_nonneg_left (by omega) so1
          have a2 : 0 ≤ v.streamOffset * v.nbNormal := Int.mul_nonneg so1 (by omega)
          rw [numeq] at hnum; nlinarith
        have hso := soLo hX
        have hq := (tdiv_spec v.bitrate 20 (by omega)).1 (by omega)
        have hnum' : v.num = v.bitrate - v.channelOffset * v.nbNormal - v.lfeOffset := by
          rw [numeq, hso, hL1]; omega
        rw [hnum'] at c1
        have := lfe_core v.nbNormal (max 50 (fs / fsz)) (min (Int.tdiv v.bitrate 20) 3000) v.channelOffset v.lfeOffset v.bitrate
          v.channelRate v.total nn1 (by omega) (by omega) e1 e3 b1 (by omega) c1
        omega
      · obtain ⟨c0, -, -⟩ := crHi hnum
        omega

/-! ### no 32-bit overflow -/

theorem fits_of (x : Int) (h1 : -2147483648 ≤ x) (h2 : x ≤ 2147483647) : fitsI32 x = true := by
  unfold fitsI32; simp only [decide_eq_true_eq]; exact ⟨h1, h2⟩

theorem mul_range (a b A B : Int) (ha0 : 0 ≤ a) (ha : a ≤ A) (hb0 : 0 ≤ b) (hb : b ≤ B) : 0 ≤ a * b ∧ a * b ≤ A * B :=
  ⟨Int.mul_nonneg ha0 hb0, Int.mul_le_mul ha hb hb0 (by omega)⟩

/-- **No 32-bit overflow, surround / plain layouts.**  For every layout, frame size and bit-rate setting the API
    admits (any `nb_channels ≤ 255`, so also explicit mappings with muted / shared input channels), every
    `int`/`opus_int32` intermediate of `surround_rate_allocation` and the sum of `rate_allocation` fit 32 bits and no
    division is by zero; in particular the values `(opus_int32)(((opus_int64)channel_rate*ratio)>>8)` cast back at
    :729/:733: `2·channel_rate ≤ bitrate` for a coupled stream (then `nb_normal ≥ 2`), and `channel_rate ≥ −4089000`. -/
theorem msFits_sur (l : MsLayout) (fs fsz nch br : Int) (h : SurIn l fs fsz nch br) (ha : l.ambisonics = false) :
    msFits l fs fsz br = true := by
  have F := sur_facts l fs fsz nch br h
  obtain ⟨hhi, hlo⟩ := msSur_sum l fs fsz nch br h ha
  obtain ⟨e1, e2, -⟩ := sur_eqs l fs fsz br
  have hl := h.lay
  obtain ⟨-, -, -, -, hBmax⟩ := sur_bitrate_range l fs (msSurVals l fs fsz br).channelOffset nch br
      (msSurVals l fs fsz br).nbNormal (msSurVals l fs fsz br).nbLfe F.Leq (by rw [F.nneq, F.ueq]) F.nn1 hl.tot
      h.fs1 h.fs2 F.co1 F.co2 (by have := hl.n1; have := hl.c0; have := h.nch1; omega) h.nch2 h.br
  rw [← e2] at hBmax
  unfold msFits
  rw [ha]
  simp only [Bool.false_eq_true, if_false, Bool.and_eq_true, Bool.or_eq_true, decide_eq_true_eq, and_assoc]
  generalize hS : msRateSum l fs fsz br = S at *
  generalize msSurVals l fs fsz br = v at *
  obtain ⟨L01, Leq, u0, ueq, nneq, nn1, nn2, toteq, co1, co2, b1, b2, lo1, lo2, so1, so2, soHi, soLo, numeq, crHi, crLo⟩ := F
  have hc0 := hl.c0
  have hfs1 := h.fs1
  have hfs2 := h.fs2
  have hcu : l.nbCoupled + v.nbUncoupled ≤ 255 := by have := hl.tot; omega
  obtain ⟨p1a, p1b⟩ := mul_range v.nbNormal (v.channelOffset + fs + 10000) 255 74000 (by omega) nn2 (by omega) (by omega)
  obtain ⟨p2a, p2b⟩ := mul_range v.channelOffset v.nbNormal 16000 255 (by omega) co2 (by omega) nn2
  obtain ⟨p3a, p3b⟩ := mul_range v.lfeOffset v.nbLfe 9000 1 (by omega) lo2 (by omega) (by omega)
  obtain ⟨p4a, p4b⟩ := mul_range v.streamOffset (l.nbCoupled + v.nbUncoupled) 20000 255 so1 so2 (by omega) hcu
  have ht256 : 256 * v.nbNormal ≤ v.total := by omega
  -- the sign of `num` follows the sign of the covered amount
  have hnumcase : (0 ≤ v.num ∧ 0 ≤ v.channelRate ∧ v.channelRate * v.nbNormal ≤ v.bitrate) ∨
      (v.num < 0 ∧ v.channelRate ≤ 0 ∧ -4089000 ≤ v.channelRate) := by
    rcases Int.lt_or_le (v.bitrate - v.channelOffset * v.nbNormal - v.lfeOffset * v.nbLfe) 0 with hX | hX
    · right
      have hso := soLo hX
      have hnum : v.num < 0 := by rw [numeq, hso]; omega
      obtain ⟨c0, c1, -⟩ := crLo hnum
      have hn2 : -4089000 ≤ v.num := by rw [numeq, hso]; omega
      have : v.channelRate * v.total ≤ v.channelRate * 256 :=
        Int.mul_le_mul_of_nonpos_left c0 (by omega : (256 : Int) ≤ v.total)
      exact ⟨hnum, c0, by omega⟩
    · left
      have hso := soHi hX
      have hnum : 0 ≤ v.num := by
        have a1 : v.streamOffset * (l.nbCoupled + v.nbUncoupled) ≤ v.streamOffset * v.nbNormal :=
          Int.mul_le_mul_of_nonneg_left (by omega) so1
        have a2 : 0 ≤ v.streamOffset * v.nbNormal := Int.mul_nonneg so1 (by omega)
        rw [numeq]; nlinarith
      obtain ⟨c0, c1, -⟩ := crHi hnum
      have : v.channelRate * (256 * v.nbNormal) ≤ v.channelRate * v.total := Int.mul_le_mul_of_nonneg_left ht256 c0
      have hnb : v.num ≤ v.bitrate := by rw [numeq]; omega
      exact ⟨hnum, c0, by nlinarith⟩
  have hcr1 : -4089000 ≤ v.channelRate := by rcases hnumcase with h | h <;> omega
  have hcr2 : v.channelRate ≤ v.bitrate := by
    rcases hnumcase with ⟨-, c0, c1⟩ | h
    · have : v.channelRate * 1 ≤ v.channelRate * v.nbNormal := Int.mul_le_mul_of_nonneg_left nn1 c0
      omega
    · omega
  have hcr3 : 0 < l.nbCoupled → 2 * v.channelRate ≤ v.bitrate := by
    intro hc
    rcases hnumcase with ⟨-, c0, c1⟩ | h
    · have : v.channelRate * 2 ≤ v.channelRate * v.nbNormal := Int.mul_le_mul_of_nonneg_left (by omega) c0
      omega
    · omega
  have hS0 : 0 ≤ S ∧ S ≤ 76500000 := by
    rcases Int.lt_or_le v.bitrate (v.channelOffset * v.nbNormal + v.lfeOffset * v.nbLfe) with hX | hX
    · have := hlo hX; omega
    · have := hhi hX; omega
  refine ⟨by omega, by omega, ?_, ?_, ?_, ?_, ?_, ?_, ?_, ?_, ?_, ?_, ?_, ?_, ?_, ?_, ?_, ?_, ?_, ?_⟩
  all_goals first
    | (apply fits_of <;> omega)
    | skip
  · by_cases hc : l.nbCoupled ≤ 0
    · left; exact hc
    · right
      have := hcr3 (by omega)
      exact ⟨by apply fits_of <;> omega, by apply fits_of <;> omega, by apply fits_of <;> omega⟩
  · rcases L01 with h0 | h0
    · left; exact h0
    · right
      exact ⟨by apply fits_of <;> omega, by apply fits_of <;> omega⟩

/-- No 32-bit overflow, ambisonics: unconditional. -/
theorem msFits_ambi (l : MsLayout) (hl : MsLayoutOk l) (fs fsz nch br : Int) (ha : l.ambisonics = true)
    (hfs1 : 8000 ≤ fs) (hfs2 : fs ≤ 48000) (hq1 : 0 ≤ 60 * fs / fsz) (hq2 : 60 * fs / fsz ≤ 24000)
    (hn1 : l.nbStreams + l.nbCoupled ≤ nch) (hn2 : nch ≤ 255) (hbr : MsBrOk nch br) :
    msFits l fs fsz br = true := by
  obtain ⟨t1, t2, -⟩ := ambi_total_range l hl fs fsz nch br hfs1 hfs2 hq1 hq2 hn1 hn2 hbr
  obtain ⟨R, -, -, -, s1, s2, -⟩ := msAmbi_sum l hl fs fsz nch br ha hfs1 hfs2 hq1 hq2 hn1 hn2 hbr
  obtain ⟨h1, h2, h3, h4, -, -⟩ := hl
  unfold msFits
  rw [ha]
  simp only [if_true, Bool.and_eq_true, decide_eq_true_eq, and_assoc]
  obtain ⟨p1a, p1b⟩ := mul_range (l.nbCoupled + l.nbStreams) (fs + 60 * fs / fsz) 255 72000 (by omega) (by omega) (by omega) (by omega)
  refine ⟨?_, ?_, ?_, ?_, ?_, by omega, ?_⟩ <;> apply fits_of <;> omega

/-- **No 32-bit overflow in `rate_allocation`**, all layouts (`nb_streams + nb_coupled ≤ nb_channels ≤ 255`), all legal
    frame sizes, all bit-rate settings. -/
theorem msFits_all (l : MsLayout) (hl : MsLayoutOk l) (fs fsz nch br : Int)
    (hfs : fs = 8000 ∨ fs = 12000 ∨ fs = 16000 ∨ fs = 24000 ∨ fs = 48000) (hleg : legalFrame fs fsz = true)
    (hn1 : l.nbStreams + l.nbCoupled ≤ nch) (hn2 : nch ≤ 255) (hbr : MsBrOk nch br) : msFits l fs fsz br = true := by
  obtain ⟨-, r1, r2, -, -, q1, q2⟩ := legal_rate fs fsz hfs hleg
  by_cases ha : l.ambisonics = true
  · exact msFits_ambi l hl fs fsz nch br ha (by omega) (by omega) q1 q2 hn1 hn2 hbr
  · have ha' : l.ambisonics = false := by cases h : l.ambisonics <;> simp_all
    exact msFits_sur l fs fsz nch br (surIn_of l hl fs fsz nch br hfs hleg hn1 hn2 hbr) ha'

/-- The clamp arithmetic of `opus_multistream_encode_native` (:882-886) and the per-stream `OPUS_SET_BITRATE`:
    `3*rate_sum`, `3*bitrate_bps`, `3*8*Fs` fit 32 bits, the divisor is positive; every stream's encoder accepts its
    rate (it is > 0) and stores a value inside its own ctl range 500 … 300000·channels. -/
theorem msStream_ctl (l : MsLayout) (fs fsz br i : Int) (hr : 500 ≤ msRate l fs fsz br i) :
    ∃ v, msStreamUserBitrate l fs fsz br i = some v ∧ 500 ≤ v ∧
      v ≤ 300000 * (if i < l.nbCoupled then 2 else 1) ∧ v ≤ msRate l fs fsz br i := by
  unfold msStreamUserBitrate
  dsimp only
  rw [if_neg (by omega)]
  refine ⟨_, rfl, ?_, ?_, ?_⟩ <;> split <;> omega

theorem msRateSum_range (l : MsLayout) (hl : MsLayoutOk l) (fs fsz nch br : Int)
    (hfs : fs = 8000 ∨ fs = 12000 ∨ fs = 16000 ∨ fs = 24000 ∨ fs = 48000) (hleg : legalFrame fs fsz = true)
    (hn1 : l.nbStreams + l.nbCoupled ≤ nch) (hn2 : nch ≤ 255) (hbr : MsBrOk nch br) :
    500 * l.nbStreams ≤ msRateSum l fs fsz br ∧ msRateSum l fs fsz br ≤ 81600000 := by
  obtain ⟨-, r1, r2, -, -, q1, q2⟩ := legal_rate fs fsz hfs hleg
  have hn := hl.n1
  by_cases ha : l.ambisonics = true
  · obtain ⟨t1, t2, -⟩ := ambi_total_range l hl fs fsz nch br (by omega) (by omega) q1 q2 hn1 hn2 hbr
    obtain ⟨R, -, hR, hs, -, s2, -⟩ := msAmbi_sum l hl fs fsz nch br ha (by omega) (by omega) q1 q2 hn1 hn2 hbr
    have : l.nbStreams * 500 ≤ l.nbStreams * R := Int.mul_le_mul_of_nonneg_left hR (by omega)
    omega
  · have ha' : l.ambisonics = false := by cases h : l.ambisonics <;> simp_all
    have hin := surIn_of l hl fs fsz nch br hfs hleg hn1 hn2 hbr
    have F := sur_facts l fs fsz nch br hin
    obtain ⟨hhi, hlo⟩ := msSur_sum l fs fsz nch br hin ha'
    generalize msSurVals l fs fsz br = v at *
    obtain ⟨L01, -, u0, ueq, nneq, nn1, nn2, -, co1, co2, b1, b2, lo1, lo2, -⟩ := F
    obtain ⟨p2a, p2b⟩ := mul_range v.channelOffset v.nbNormal 16000 255 (by omega) co2 (by omega) nn2
    obtain ⟨p3a, p3b⟩ := mul_range v.lfeOffset v.nbLfe 9000 1 (by omega) lo2 (by omega) (by omega)
    have p4 : 2000 * v.nbNormal ≤ v.channelOffset * v.nbNormal := Int.mul_le_mul_of_nonneg_right co1 (by omega)
    have hc0 := hl.c0
    rcases Int.lt_or_le v.bitrate (v.channelOffset * v.nbNormal + v.lfeOffset * v.nbLfe) with hX | hX
    · have := hlo hX; omega
    · have := hhi hX; omega

/-- The clamp arithmetic of `opus_multistream_encode_native` (:882-886) stays inside 32 bits. -/
theorem msClamp_fits (l : MsLayout) (hl : MsLayoutOk l) (fs fsz nch br : Int)
    (hfs : fs = 8000 ∨ fs = 12000 ∨ fs = 16000 ∨ fs = 24000 ∨ fs = 48000) (hleg : legalFrame fs fsz = true)
    (hn1 : l.nbStreams + l.nbCoupled ≤ nch) (hn2 : nch ≤ 255) (hbr : MsBrOk nch br) :
    fitsI32 (3 * msRateSum l fs fsz br) = true ∧ fitsI32 (3 * br) = true ∧ fitsI32 (3 * 8 * fs) = true ∧
    0 < 3 * 8 * fs / fsz := by
  obtain ⟨s1, s2⟩ := msRateSum_range l hl fs fsz nch br hfs hleg hn1 hn2 hbr
  obtain ⟨-, -, -, d1, -, -, -⟩ := legal_rate fs fsz hfs hleg
  have hn := hl.n1
  have hc := hl.c0
  have hA : OPUS_AUTO = -1000 := rfl
  have hM : OPUS_BITRATE_MAX = -1 := rfl
  unfold MsBrOk at hbr
  refine ⟨?_, ?_, ?_, d1⟩ <;> apply fits_of <;> omega

end Opus.EncSkel.Proofs
