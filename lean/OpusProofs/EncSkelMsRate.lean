import OpusModel.EncSkel
import OpusProofs.EncSkelCbr
import OpusProofs.EncSkelMs
import Mathlib.Tactic.Linarith
import Mathlib.Tactic.Ring
/-
  OpusProofs.EncSkelMsRate — the multistream bit-rate allocation (`OpusModel/EncSkel/MsRate.lean`,
  src/opus_multistream_encoder.c:668-798): what the integer arithmetic guarantees.

  * surround / plain layouts (`surround_rate_allocation`): every coupled stream gets ≥ 2·channel_offset ≥ 4000 b/s,
    every other non-LFE stream ≥ channel_offset ≥ 2000 b/s, the LFE stream ≥ 500 b/s (the floor of :794 is only ever
    active for the LFE stream); if the total covers the offsets (`bitrate ≥ channel_offset·nb_normal + lfe_offset·nb_lfe`)
    then `bitrate − nb_normal − 1 ≤ Σ rates ≤ bitrate`, otherwise the offsets win:
    `channel_offset·nb_normal + 500·nb_lfe ≤ Σ rates ≤ channel_offset·nb_normal + lfe_offset·nb_lfe` (> bitrate);
  * ambisonics: all streams get `max(total/nb_streams, 500)`; `total − nb_streams < Σ ≤ total` for every setting the
    ctl admits;
  * no 32-bit overflow (`msFits`) provided a coupled stream never sees more than 4194303 b/s per channel — true for
    every layout with `nb_channels ≤ 13·nb_normal`, in particular whenever nb_channels = nb_streams + nb_coupled
    (all surround / ambisonics / projection create functions); FALSE in general for `opus_multistream_encoder_create`
    with many more input channels than coded channels (`msFits_counterexample`);
  * with OPUS_AUTO the allocated sum is always worth `smallest_packet` bytes, which discharges the hypothesis of
    `ms_encode_ret_le_out` for CBR.
-/
namespace Opus.EncSkel.Proofs
open Opus Opus.EncSkel Opus.EncDecide

theorem tdiv_spec (a b : Int) (hb : 0 < b) :
    (0 ≤ a → 0 ≤ Int.tdiv a b ∧ Int.tdiv a b * b ≤ a ∧ a < (Int.tdiv a b + 1) * b) ∧
    (a < 0 → Int.tdiv a b ≤ 0 ∧ a ≤ Int.tdiv a b * b ∧ (Int.tdiv a b - 1) * b < a) := by
  constructor
  · intro ha
    rw [Int.tdiv_eq_ediv_of_nonneg ha]
    exact ⟨Int.ediv_nonneg ha (by omega), Int.ediv_mul_le a (by omega), Int.lt_ediv_add_one_mul_self a hb⟩
  · intro ha
    have h : Int.tdiv a b = -((-a) / b) := by
      have := Int.neg_tdiv (a := -a) (b := b)
      rw [Int.neg_neg] at this
      rw [this, Int.tdiv_eq_ediv_of_nonneg (by omega)]
    have h1 := Int.ediv_mul_le (-a) (show b ≠ 0 by omega)
    have h2 := Int.lt_ediv_add_one_mul_self (-a) hb
    have h3 : 0 ≤ (-a) / b := Int.ediv_nonneg (by omega) (by omega)
    rw [h]
    refine ⟨by omega, by nlinarith, by nlinarith⟩

/-- What `opus_multistream_encoder_init_impl` (:441-444) and the surround / ambisonics create functions guarantee
    of the layout: 1 ≤ streams, 0 ≤ coupled ≤ streams, streams + coupled ≤ 255; an LFE stream exists only for
    mapping family 1 with ≥ 6 channels, is the last stream, is not coupled, and is never the only stream. -/
structure MsLayoutOk (l : MsLayout) : Prop where
  n1 : 1 ≤ l.nbStreams
  c0 : 0 ≤ l.nbCoupled
  cn : l.nbCoupled ≤ l.nbStreams
  tot : l.nbStreams + l.nbCoupled ≤ 255
  lfe : l.lfeStream = -1 ∨ (l.nbCoupled ≤ l.lfeStream ∧ l.lfeStream < l.nbStreams ∧ 2 ≤ l.nbStreams)
  amb : l.ambisonics = true → l.lfeStream = -1

/-- `st->bitrate_bps` as `opus_multistream_encoder_ctl(OPUS_SET_BITRATE)` leaves it for `nch` input channels. -/
def MsBrOk (nch br : Int) : Prop :=
  br = OPUS_AUTO ∨ br = OPUS_BITRATE_MAX ∨ (500 * nch ≤ br ∧ br ≤ 300000 * nch)

theorem msCtlBitrate_ok (nch v b : Int) (_hn : 1 ≤ nch) (h : msCtlBitrate nch v = some b) : MsBrOk nch b := by
  unfold msCtlBitrate at h
  unfold MsBrOk
  simp only [OPUS_AUTO, OPUS_BITRATE_MAX] at *
  split at h
  · split at h
    · cases h
    · simp only [Option.some.injEq] at h; omega
  · simp only [Option.some.injEq] at h; omega

/-- Frame rates of the legal frame sizes (2.5 … 120 ms). -/
theorem legal_rate (fs fsz : Int) (hfs : fs = 8000 ∨ fs = 12000 ∨ fs = 16000 ∨ fs = 24000 ∨ fs = 48000)
    (hl : legalFrame fs fsz = true) :
    0 < fsz ∧ 8 ≤ fs / fsz ∧ fs / fsz ≤ 400 ∧ 0 < 3 * 8 * fs / fsz ∧ 3 * 8 * fs / fsz ≤ 9600 ∧
    0 ≤ 60 * fs / fsz ∧ 60 * fs / fsz ≤ 24000 := by
  have h := legal_fsz fs fsz hl
  have hf : 0 < fsz := by omega
  have a1 : 8 ≤ fs / fsz := (Int.le_ediv_iff_mul_le hf).mpr (by omega)
  have a2 : fs / fsz < 401 := (Int.ediv_lt_iff_lt_mul hf).mpr (by omega)
  have a3 : 1 ≤ 3 * 8 * fs / fsz := (Int.le_ediv_iff_mul_le hf).mpr (by omega)
  have a4 : 3 * 8 * fs / fsz < 9601 := (Int.ediv_lt_iff_lt_mul hf).mpr (by omega)
  have a5 : 0 ≤ 60 * fs / fsz := (Int.le_ediv_iff_mul_le hf).mpr (by omega)
  have a6 : 60 * fs / fsz < 24001 := (Int.ediv_lt_iff_lt_mul hf).mpr (by omega)
  omega

/-! ### surround / plain layouts -/

theorem sur_core_hi (c u L co lo B so cr e S nn total num : Int)
    (hc : 0 ≤ c) (hu : 0 ≤ u) (hL : L = 0 ∨ L = 1) (hnn : nn = 2 * c + u)
    (hso0 : 0 ≤ so)
    (hnum : num = B - lo * L - so * (c + u) - co * nn)
    (htot : total = u * 256 + 512 * c + L * 32)
    (hcr1 : cr * total ≤ 256 * num) (hcr2 : 256 * num < (cr + 1) * total)
    (he1 : 8 * e ≤ cr) (he2 : cr < 8 * e + 8)
    (hS : S = c * (2 * co + (so + 2 * cr)) + u * (co + (so + cr)) + L * (lo + e)) :
    B - nn - 1 ≤ S ∧ S ≤ B := by
  have h1 : 0 ≤ so * c := Int.mul_nonneg hso0 hc
  have h2 : 0 ≤ so * u := Int.mul_nonneg hso0 hu
  subst hnn htot hnum
  rcases hL with rfl | rfl
  · have a : 256 * S ≤ 256 * B := by nlinarith
    have b : 256 * B - 256 * (2 * c + u) - 287 ≤ 256 * S := by nlinarith
    constructor <;> omega
  · have a : 256 * S ≤ 256 * B := by nlinarith
    have b : 256 * B - 256 * (2 * c + u) - 287 ≤ 256 * S := by nlinarith
    constructor <;> omega

/-- Layout counts of the surround branch. -/
theorem sur_counts (l : MsLayout) (hl : MsLayoutOk l) (fs fsz br : Int) :
    let v := msSurVals l fs fsz br
    (v.nbLfe = 0 ∨ v.nbLfe = 1) ∧ v.nbLfe = msNbLfe l ∧ 0 ≤ v.nbUncoupled ∧ v.nbUncoupled = l.nbStreams - l.nbCoupled - v.nbLfe ∧
    v.nbNormal = 2 * l.nbCoupled + v.nbUncoupled ∧ 1 ≤ v.nbNormal ∧ v.nbNormal ≤ 255 ∧
    v.total = v.nbUncoupled * 256 + 512 * l.nbCoupled + v.nbLfe * 32 := by
  obtain ⟨h1, h2, h3, h4, h5, _⟩ := hl
  simp only [msSurVals, msNbLfe]
  refine ⟨by split <;> simp, trivial, ?_, trivial, trivial, ?_, ?_, trivial⟩ <;> split <;> omega

/-- Ranges of everything the API lets reach `surround_rate_allocation`. -/
structure SurIn (l : MsLayout) (fs fsz nch br : Int) : Prop where
  lay : MsLayoutOk l
  fs1 : 8000 ≤ fs
  fs2 : fs ≤ 48000
  r1 : 8 ≤ fs / fsz
  r2 : fs / fsz ≤ 400
  nch1 : l.nbStreams + l.nbCoupled ≤ nch
  nch2 : nch ≤ 255
  br : MsBrOk nch br

/-- The locals of `surround_rate_allocation`, related to one another (each equation is the source line). -/
theorem sur_eqs (l : MsLayout) (fs fsz br : Int) :
    let v := msSurVals l fs fsz br
    v.channelOffset = 40 * max 50 (fs / fsz) ∧
    v.bitrate = msSurBitrate l fs v.channelOffset br ∧
    v.lfeOffset = min (Int.tdiv v.bitrate 20) 3000 + 15 * max 50 (fs / fsz) ∧
    v.streamOffset0 = Int.tdiv (Int.tdiv (v.bitrate - v.channelOffset * v.nbNormal - v.lfeOffset * v.nbLfe) v.nbNormal) 2 ∧
    v.streamOffset = max 0 (min 20000 v.streamOffset0) ∧
    v.num = v.bitrate - v.lfeOffset * v.nbLfe - v.streamOffset * (l.nbCoupled + v.nbUncoupled) - v.channelOffset * v.nbNormal ∧
    v.channelRate = Int.tdiv (256 * v.num) v.total :=
  ⟨rfl, rfl, rfl, rfl, rfl, rfl, rfl⟩

/-- Value facts of the locals. -/
structure SurFacts (l : MsLayout) (v : SurVals) : Prop where
  L01 : v.nbLfe = 0 ∨ v.nbLfe = 1
  Leq : v.nbLfe = msNbLfe l
  u0 : 0 ≤ v.nbUncoupled
  ueq : v.nbUncoupled = l.nbStreams - l.nbCoupled - v.nbLfe
  nneq : v.nbNormal = 2 * l.nbCoupled + v.nbUncoupled
  nn1 : 1 ≤ v.nbNormal
  nn2 : v.nbNormal ≤ 255
  toteq : v.total = v.nbUncoupled * 256 + 512 * l.nbCoupled + v.nbLfe * 32
  co1 : 2000 ≤ v.channelOffset
  co2 : v.channelOffset ≤ 16000
  b1 : 500 ≤ v.bitrate
  b2 : v.bitrate ≤ 76500000
  lo1 : 775 ≤ v.lfeOffset
  lo2 : v.lfeOffset ≤ 9000
  so1 : 0 ≤ v.streamOffset
  so2 : v.streamOffset ≤ 20000
  soHi : 0 ≤ v.bitrate - v.channelOffset * v.nbNormal - v.lfeOffset * v.nbLfe →
          2 * v.streamOffset * v.nbNormal ≤ v.bitrate - v.channelOffset * v.nbNormal - v.lfeOffset * v.nbLfe
  soLo : v.bitrate - v.channelOffset * v.nbNormal - v.lfeOffset * v.nbLfe < 0 → v.streamOffset = 0
  numeq : v.num = v.bitrate - v.lfeOffset * v.nbLfe - v.streamOffset * (l.nbCoupled + v.nbUncoupled) - v.channelOffset * v.nbNormal
  crHi : 0 ≤ v.num → 0 ≤ v.channelRate ∧ v.channelRate * v.total ≤ 256 * v.num ∧ 256 * v.num < (v.channelRate + 1) * v.total
  crLo : v.num < 0 → v.channelRate ≤ 0 ∧ 256 * v.num ≤ v.channelRate * v.total ∧ (v.channelRate - 1) * v.total < 256 * v.num

theorem sur_bitrate_range (l : MsLayout) (fs co nch br nn : Int) (L : Int)
    (hL : L = msNbLfe l) (hnn : nn = 2 * l.nbCoupled + (l.nbStreams - l.nbCoupled - L)) (hnn1 : 1 ≤ nn) (hnn2 : l.nbStreams + l.nbCoupled ≤ 255)
    (hfs1 : 8000 ≤ fs) (hfs2 : fs ≤ 48000) (hco1 : 2000 ≤ co) (hco2 : co ≤ 16000) (hn1 : 1 ≤ nch) (hn2 : nch ≤ 255)
    (hbr : MsBrOk nch br) :
    500 ≤ msSurBitrate l fs co br ∧ msSurBitrate l fs co br ≤ 76500000 ∧
    (br = OPUS_AUTO → msSurBitrate l fs co br = nn * (co + fs + 10000) + 8000 * L) ∧
    (br ≠ OPUS_AUTO → br ≠ OPUS_BITRATE_MAX → msSurBitrate l fs co br = br) ∧
    msSurBitrate l fs co br ≤ max (300000 * nch) (nn * 300000 + 128000) := by
  have hL01 : L = 0 ∨ L = 1 := by rw [hL]; unfold msNbLfe; split <;> simp
  unfold msSurBitrate
  dsimp only
  rw [← hL, ← hnn]
  unfold MsBrOk at hbr
  have hA : OPUS_AUTO = -1000 := rfl
  have hM : OPUS_BITRATE_MAX = -1 := rfl
  by_cases ha : br = OPUS_AUTO
  · rw [if_pos ha]
    have h1 : nn * 20000 ≤ nn * (co + fs + 10000) := Int.mul_le_mul_of_nonneg_left (by omega) (by omega)
    have h2 : nn * (co + fs + 10000) ≤ nn * 74000 := Int.mul_le_mul_of_nonneg_left (by omega) (by omega)
    exact ⟨by omega, by omega, fun _ => rfl, fun h => absurd ha h, by omega⟩
  · rw [if_neg ha]
    by_cases hm : br = OPUS_BITRATE_MAX
    · rw [if_pos hm]
      exact ⟨by omega, by omega, fun h => absurd h ha, fun _ h => absurd hm h, by omega⟩
    · rw [if_neg hm]
      exact ⟨by omega, by omega, fun h => absurd h ha, fun _ _ => rfl, by omega⟩

theorem sur_facts (l : MsLayout) (fs fsz nch br : Int) (h : SurIn l fs fsz nch br) : SurFacts l (msSurVals l fs fsz br) := by
  obtain ⟨hl, hfs1, hfs2, hr1, hr2, hn1, hn2, hbr⟩ := h
  obtain ⟨c1, c2, c3, c4, c5, c6, c7, c8⟩ := sur_counts l hl fs fsz br
  obtain ⟨e1, e2, e3, e4, e5, e6, e7⟩ := sur_eqs l fs fsz br
  have hn0 : 1 ≤ nch := by have := hl.n1; have := hl.c0; omega
  generalize msSurVals l fs fsz br = v at *
  have hco1 : 2000 ≤ v.channelOffset := by omega
  have hco2 : v.channelOffset ≤ 16000 := by omega
  obtain ⟨hb1, hb2, -, -, -⟩ := sur_bitrate_range l fs v.channelOffset nch br v.nbNormal v.nbLfe c2 (by omega) c6 hl.tot hfs1 hfs2 hco1 hco2 hn0 hn2 hbr
  rw [← e2] at hb1 hb2
  have hB20 := (tdiv_spec v.bitrate 20 (by omega)).1 (by omega)
  have hlo1 : 775 ≤ v.lfeOffset := by omega
  have hlo2 : v.lfeOffset ≤ 9000 := by omega
  have hso1 : 0 ≤ v.streamOffset := by omega
  have hso2 : v.streamOffset ≤ 20000 := by omega
  refine ⟨c1, c2, c3, c4, c5, c6, c7, c8, hco1, hco2, hb1, hb2, hlo1, hlo2, hso1, hso2, ?_, ?_, e6, ?_, ?_⟩
  · intro hX
    generalize v.bitrate - v.channelOffset * v.nbNormal - v.lfeOffset * v.nbLfe = X at *
    obtain ⟨t1, t2, -⟩ := (tdiv_spec X v.nbNormal (by omega)).1 hX
    obtain ⟨t3, t4, -⟩ := (tdiv_spec (Int.tdiv X v.nbNormal) 2 (by omega)).1 t1
    rw [← e4] at t3 t4
    have : v.streamOffset ≤ v.streamOffset0 := by omega
    have hp : 0 ≤ (Int.tdiv X v.nbNormal - 2 * v.streamOffset) * v.nbNormal := Int.mul_nonneg (by omega) (by omega)
    nlinarith
  · intro hX
    generalize v.bitrate - v.channelOffset * v.nbNormal - v.lfeOffset * v.nbLfe = X at *
    obtain ⟨t1, -, -⟩ := (tdiv_spec X v.nbNormal (by omega)).2 hX
    have : v.streamOffset0 ≤ 0 := by
      rw [e4]
      rcases Int.lt_or_le (Int.tdiv X v.nbNormal) 0 with hneg | hpos
      · exact ((tdiv_spec _ 2 (by omega)).2 hneg).1
      · have : Int.tdiv X v.nbNormal = 0 := by omega
        rw [this]; decide
    omega
  · intro hnum
    have ht : 0 < v.total := by omega
    have := (tdiv_spec (256 * v.num) v.total ht).1 (by omega)
    rw [← e7] at this
    exact this
  · intro hnum
    have ht : 0 < v.total := by omega
    have := (tdiv_spec (256 * v.num) v.total ht).2 (by omega)
    rw [← e7] at this
    exact this

/-- The three per-stream rates of the surround branch (after the floor of :794). -/
def surRC (v : SurVals) : Int := max (2 * v.channelOffset + max 0 (v.streamOffset + v.channelRate * 512 / 256)) 500
def surRU (v : SurVals) : Int := max (v.channelOffset + max 0 (v.streamOffset + v.channelRate)) 500
def surRL (v : SurVals) : Int := max (max 0 (v.lfeOffset + v.channelRate * 32 / 256)) 500

theorem msRate_class (l : MsLayout) (fs fsz br i : Int) (ha : l.ambisonics = false) :
    msRate l fs fsz br i =
      if i < l.nbCoupled then surRC (msSurVals l fs fsz br)
      else if i ≠ l.lfeStream then surRU (msSurVals l fs fsz br) else surRL (msSurVals l fs fsz br) := by
  unfold msRate msRateRaw msSurRate surRC surRU surRL
  rw [ha]
  simp only [Bool.false_eq_true, if_false]
  split
  · rfl
  · split <;> rfl

/-- `rate_sum` in closed form: coupled streams, then the uncoupled ones with the LFE stream among them. -/
theorem sur_sum_closed (l : MsLayout) (hl : MsLayoutOk l) (fs fsz br : Int) (ha : l.ambisonics = false) :
    ∀ k : Nat, (k : Int) ≤ l.nbStreams →
      msRateSumTo l fs fsz br k =
        if (k : Int) ≤ l.nbCoupled then k * surRC (msSurVals l fs fsz br)
        else l.nbCoupled * surRC (msSurVals l fs fsz br) +
             ((k : Int) - l.nbCoupled - (if l.lfeStream ≠ -1 ∧ l.lfeStream < k then 1 else 0)) * surRU (msSurVals l fs fsz br) +
             (if l.lfeStream ≠ -1 ∧ l.lfeStream < k then 1 else 0) * surRL (msSurVals l fs fsz br) := by
  obtain ⟨h1, h2, h3, h4, h5, _⟩ := hl
  generalize hRC : surRC (msSurVals l fs fsz br) = RC
  generalize hRU : surRU (msSurVals l fs fsz br) = RU
  generalize hRL : surRL (msSurVals l fs fsz br) = RL
  intro k
  induction k with
  | zero => intro _; simp [msRateSumTo, h2]
  | succ k ih =>
    intro hk
    have ih := ih (by push_cast at hk; omega)
    rw [msRateSumTo, ih, msRate_class l fs fsz br k ha, hRC, hRU, hRL]
    push_cast at hk ⊢
    split_ifs <;> first
      | omega
      | ring
      | (have hkeq : (k : Int) = l.nbCoupled := by omega
         rw [hkeq]; ring)

theorem sur_sum_eq (l : MsLayout) (hl : MsLayoutOk l) (fs fsz br : Int) (ha : l.ambisonics = false) :
    msRateSum l fs fsz br =
      l.nbCoupled * surRC (msSurVals l fs fsz br) + (l.nbStreams - l.nbCoupled - msNbLfe l) * surRU (msSurVals l fs fsz br) +
      msNbLfe l * surRL (msSurVals l fs fsz br) := by
  unfold msRateSum
  have hn : ((l.nbStreams.toNat : Nat) : Int) = l.nbStreams := Int.toNat_of_nonneg (by have := hl.n1; omega)
  rw [sur_sum_closed l hl fs fsz br ha l.nbStreams.toNat (by omega), hn]
  obtain ⟨h1, h2, h3, h4, h5, _⟩ := hl
  unfold msNbLfe
  by_cases hlf : l.lfeStream ≠ -1
  · rw [if_pos hlf]
    rcases h5 with h5 | h5
    · exact absurd h5 hlf
    · rw [if_neg (by omega), if_pos ⟨hlf, h5.2.1⟩]
  · rw [if_neg hlf]
    have : ¬ (l.lfeStream ≠ -1 ∧ l.lfeStream < l.nbStreams) := fun h => hlf h.1
    rw [if_neg this]
    by_cases hc : l.nbStreams ≤ l.nbCoupled
    · rw [if_pos hc]
      have : l.nbStreams = l.nbCoupled := by omega
      rw [this]; ring
    · rw [if_neg hc]

end Opus.EncSkel.Proofs
