import OpusProofs.EncSkelInv
import OpusProofs.Ctl
/-
  OpusProofs.EncSkelCtl — bridge between the encoder skeleton's state (`Opus.EncSkel.St`) and property
  C11's ctl model (`Opus.Ctl.EncSt`, invariant `EncInv = CtlInv ∧ DInv`, read-only):
    * `Refines e s` is the explicit refinement map (which `St` fields an `EncSt` determines);
    * `EncInv e ∧ Refines e s → stOk s`;
    * after ANY `opus_encode_native` call of the skeleton the observed fields satisfy C11's `obsRange`, so
      `EncInv` is carried across the call without a monitored assumption on the fields the skeleton models;
    * hence along every history (create, any ctl requests, any encode calls, any oracle values)
      `EncInv`, the refinement and `stOk` hold.
-/
namespace Opus.EncSkel.Proofs
open Opus Opus.EncDecide Opus.EncSkel Opus.Ctl

/-- The refinement map: the fields of the skeleton state that C11's `EncSt` determines.  (`St` also has
    running fields `EncSt` does not carry — autoBandwidth, silkBwSwitch, detectedBandwidth, bitrateBps, … —
    and `EncSt` has ctl-only fields — lsbDepth, vbrConstraint, … — that the skeleton does not read.) -/
structure Refines (e : EncSt) (s : St) : Prop where
  fs : s.fs = e.fs
  channels : s.channels = e.channels
  application : s.application = e.application
  useVbr : s.useVbr = e.useVbr
  userBitrate : s.userBitrate = e.userBitrate
  forceChannels : s.forceChannels = e.forceChannels
  signalType : s.signalType = e.signalType
  userBandwidth : s.userBandwidth = e.userBandwidth
  maxBandwidth : s.maxBandwidth = e.maxBandwidth
  userForcedMode : s.userForcedMode = e.userForcedMode
  lfe : s.lfe = e.lfe
  useDtx : s.useDtx = e.useDtx
  fecConfig : s.fecConfig = e.fecConfig
  variableDuration : s.variableDuration = e.variableDuration
  complexity : s.complexity = e.complexity
  lossPerc : s.lossPerc = e.packetLoss
  useInBandFEC : s.useInBandFEC = e.useInBandFEC
  energyMasking : s.energyMasking = (if e.energyMasking then 1 else 0)
  streamChannels : s.streamChannels = e.streamChannels
  mode : s.mode = e.mode
  prevMode : s.prevMode = e.prevMode
  prevChannels : s.prevChannels = e.prevChannels
  prevFramesize : s.prevFramesize = e.prevFramesize
  bandwidth : s.bandwidth = e.bandwidth
  first : s.first ≠ 0 ↔ e.first = true
  toMono : s.toMono = e.toMono
  silkUseDtx : s.silkUseDtx = e.silkUseDTX
  nbNoActivity : s.nbNoActivity = e.noActivityQ1
  voiceRatio : s.voiceRatio = e.voiceRatio

/-- C11's invariant implies the skeleton's `stOk` through the refinement map. -/
theorem stOk_of_encInv (e : EncSt) (s : St) (hi : EncInv e) (hr : Refines e s) : StOk s := by
  obtain ⟨hc, hd⟩ := hi
  refine ⟨?_, by rw [hr.channels]; exact hc.ch, ?_, ?_, ?_, ?_, ?_, ?_, ?_, ?_, ?_, ?_, ?_, ?_, ?_, ?_, ?_⟩
  all_goals (try simp only [OPUS_AUTO, OPUS_BITRATE_MAX, MODE_SILK_ONLY, MODE_CELT_ONLY, BW_NB, BW_FB, APP_RESTRICTED_LOWDELAY])
  · have hfs : validFs e.fs = true := hc.fs
    simp only [validFs, Bool.or_eq_true, decide_eq_true_eq] at hfs
    rw [hr.fs]; clear hc hd hr; omega
  · have h := hc.bitrate; have h1 := hc.ch
    rw [hr.userBitrate, hr.channels]; clear hc hd hr; omega
  · rw [hr.userForcedMode]; exact hc.forcedMode
  · rw [hr.userBandwidth]; exact hc.userBw
  · rw [hr.maxBandwidth]; exact hc.maxBw
  · rw [hr.forceChannels, hr.channels]; exact hc.force
  · rw [hr.streamChannels, hr.channels]; exact hd.streamCh
  · rw [hr.bandwidth]; exact hd.bw
  · rw [hr.prevMode]; exact hd.prevMode
  · rw [hr.complexity]; exact ⟨hc.complexity.1, hc.complexity.2.1⟩
  · rw [hr.lossPerc]; exact ⟨hc.loss.1, hc.loss.2.1⟩
  · rw [hr.mode]; exact hd.mode
  · rw [hr.prevChannels, hr.channels]; exact hd.prevCh
  · rw [hr.toMono]; exact hd.toMono
  · intro hf; rw [hr.prevMode]; exact hd.firstPrev (hr.first.mp hf)
  · intro ha; rw [hr.prevMode]; rw [hr.application] at ha; exact hd.lowdelay ha

/-- `o` reports, for the fields the skeleton models, what the skeleton's post-state holds. -/
structure ObsOf (s' : St) (o : EncObs) : Prop where
  first : o.first = true ↔ s'.first ≠ 0
  bandwidth : o.bandwidth = s'.bandwidth
  prevFramesize : o.prevFramesize = s'.prevFramesize
  voiceRatio : o.voiceRatio = s'.voiceRatio
  forceChannels : o.forceChannels = s'.forceChannels
  silkUseDTX : o.silkUseDTX = s'.silkUseDtx
  prevMode : o.prevMode = s'.prevMode
  noActivityQ1 : o.noActivityQ1 = s'.nbNoActivity
  streamChannels : o.streamChannels = s'.streamChannels
  mode : o.mode = s'.mode
  prevChannels : o.prevChannels = s'.prevChannels
  toMono : o.toMono = s'.toMono

/-- The observation fields the skeleton does not model (plus `voice_ratio`, which comes from the float
    analysis): what C11's `obsRange` asks of them. -/
structure FreeOk (e : EncSt) (o : EncObs) : Prop where
  voice : -1 ≤ o.voiceRatio ∧ o.voiceRatio ≤ 100
  rate : o.maxInternalSampleRate = 8000 ∨ o.maxInternalSampleRate = 12000 ∨ o.maxInternalSampleRate = 16000
  cbr : o.useCBR = 0 ∨ o.useCBR = 1
  mask : o.celtEnergyMask = true → e.celtEnergyMask = true

/-- **EncInv across an encode call.**  For ANY arguments and oracle values, the skeleton's post-state
    satisfies C11's `obsRange` on every field it models, the adopted state again refines to it, and
    both invariants hold afterwards. -/
theorem encode_keeps_inv (e : EncSt) (s : St) (fuzz : Bool) (fsz out : Int) (or : NatOr) (o : EncObs)
    (hi : EncInv e) (hr : Refines e s) (ho : ObsOf (encodeNative s fuzz fsz out or).st o) (hf : FreeOk e o) :
    obsRange e o = none ∧ EncInv (encAdopt e o) ∧ Refines (encAdopt e o) (encodeNative s fuzz fsz out or).st ∧
    StOk (encodeNative s fuzz fsz out or).st := by
  have hs := stOk_of_encInv e s hi hr
  obtain ⟨hs', hconf, hfirst⟩ := encodeNative_stOk s fuzz fsz out or hs
  generalize (encodeNative s fuzz fsz out or).st = s' at *
  unfold Conf at hconf
  obtain ⟨c1, c2, c3, c4, c5, c6, c7, c8, c9, c10, c11, c12, c13, c14, c15, c16, c17, c18⟩ := hconf
  have hobs : obsRange e o = none := by
    obtain ⟨a1, a2, a3, a4, a5, a6, a7, a8, a9, a10, a11, a12, a13, a14, a15, a16, a17⟩ := hs'
    simp only [OPUS_AUTO, OPUS_BITRATE_MAX, MODE_SILK_ONLY, MODE_CELT_ONLY, BW_NB, BW_FB, APP_RESTRICTED_LOWDELAY] at *
    unfold obsRange
    simp only [MODE_SILK_ONLY, MODE_CELT_ONLY, BW_NB, BW_FB, APP_RESTRICTED_LOWDELAY]
    rw [ho.forceChannels, ho.bandwidth, ho.mode, ho.prevMode, ho.streamChannels, ho.prevChannels, ho.toMono]
    rw [if_neg (by rw [c6, hr.forceChannels]; simp)]
    rw [if_neg (by have := hf.voice; omega)]
    rw [if_neg (by omega), if_neg (by omega), if_neg (by omega)]
    rw [if_neg (by rw [← hr.channels, ← c2]; omega), if_neg (by rw [← hr.channels, ← c2]; omega), if_neg (by omega)]
    rw [if_neg (by
      intro ⟨h1, h2⟩
      have h3 := ho.first.mp h1
      have : s.first ≠ 0 := by rcases hfirst with h | h <;> [rw [← h]; exact absurd h h3] <;> exact h3
      have := hr.first.mp this
      simp [this] at h2)]
    rw [if_neg (by intro ⟨h1, h2⟩; exact h2 (a16 (ho.first.mp h1)))]
    rw [if_neg (by
      intro ⟨h1, h2, h3⟩
      have := a17 (by rw [c3, hr.application]; exact h1)
      omega)]
    rw [if_neg (by have := hf.rate; omega), if_neg (by have := hf.cbr; omega)]
    rw [if_neg (by
      intro ⟨h1, h2⟩
      have := hf.mask h1
      simp [this] at h2)]
  refine ⟨hobs, encAdopt_inv_of_range hi hobs, ?_, hs'⟩
  unfold encAdopt
  exact ⟨by rw [c1]; exact hr.fs, by rw [c2]; exact hr.channels, by rw [c3]; exact hr.application,
    by rw [c4]; exact hr.useVbr, by rw [c5]; exact hr.userBitrate, ho.forceChannels.symm,
    by rw [c7]; exact hr.signalType, by rw [c8]; exact hr.userBandwidth, by rw [c9]; exact hr.maxBandwidth,
    by rw [c10]; exact hr.userForcedMode, by rw [c11]; exact hr.lfe, by rw [c12]; exact hr.useDtx,
    by rw [c13]; exact hr.fecConfig, by rw [c14]; exact hr.variableDuration, by rw [c15]; exact hr.complexity,
    by rw [c16]; exact hr.lossPerc, by rw [c17]; exact hr.useInBandFEC, by rw [c18]; exact hr.energyMasking,
    ho.streamChannels.symm, ho.mode.symm, ho.prevMode.symm, ho.prevChannels.symm, ho.prevFramesize.symm,
    ho.bandwidth.symm, ho.first.symm, ho.toMono.symm, ho.silkUseDTX.symm, ho.noActivityQ1.symm, ho.voiceRatio.symm⟩

/-- Histories of one encoder object: `opus_encoder_create`, then any ctl requests (C11's `encCtl`,
    accepted or refused) and any encode calls (the skeleton, any arguments, any oracle values).  After a
    ctl request the skeleton state is any state the new ctl state refines to (the fields the ctl layer
    does not determine are unconstrained). -/
inductive Reach : EncSt → St → Prop
  | init (fs ch app : Int) (s : St) : encArgsOk fs ch app = true → Refines (encInit fs ch app) s →
      Reach (encInit fs ch app) s
  | ctl {e : EncSt} {s : St} (r : EncReq) (s' : St) : Reach e s → Refines (encCtl e r).1 s' →
      Reach (encCtl e r).1 s'
  | encode {e : EncSt} {s : St} (fuzz : Bool) (fsz out : Int) (or : NatOr) (o : EncObs) : Reach e s →
      ObsOf (encodeNative s fuzz fsz out or).st o → FreeOk e o →
      Reach (encAdopt e o) (encodeNative s fuzz fsz out or).st

/-- **`stOk` along every history** (and C11's `EncInv`, and the refinement). -/
theorem reach_inv {e : EncSt} {s : St} (h : Reach e s) : EncInv e ∧ Refines e s ∧ stOk s = true := by
  induction h with
  | init fs ch app s ha hr =>
    have hi := encInit_inv ha
    exact ⟨hi, hr, (stOk_iff s).mpr (stOk_of_encInv _ s hi hr)⟩
  | ctl r s' _ hr ih =>
    have hi := encCtl_inv ih.1 r
    exact ⟨hi, hr, (stOk_iff s').mpr (stOk_of_encInv _ s' hi hr)⟩
  | encode fuzz fsz out or o _ ho hf ih =>
    obtain ⟨_, h2, h3, h4⟩ := encode_keeps_inv _ _ fuzz fsz out or o ih.1 ih.2.1 ho hf
    exact ⟨h2, h3, (stOk_iff _).mpr h4⟩

/-! ### witnesses: the refinement map is total, observations exist -/

/-- A skeleton state the ctl state `e` refines to (the fields the ctl layer does not determine set to 0). -/
def stOfEnc (e : EncSt) : St :=
  { fs := e.fs, channels := e.channels, application := e.application, useVbr := e.useVbr, userBitrate := e.userBitrate,
    forceChannels := e.forceChannels, signalType := e.signalType, userBandwidth := e.userBandwidth,
    maxBandwidth := e.maxBandwidth, userForcedMode := e.userForcedMode, lfe := e.lfe, useDtx := e.useDtx,
    fecConfig := e.fecConfig, variableDuration := e.variableDuration, complexity := e.complexity, lossPerc := e.packetLoss,
    useInBandFEC := e.useInBandFEC, energyMasking := if e.energyMasking then 1 else 0, streamChannels := e.streamChannels,
    mode := e.mode, prevMode := e.prevMode, prevChannels := e.prevChannels, prevFramesize := e.prevFramesize,
    bandwidth := e.bandwidth, autoBandwidth := 0, silkBwSwitch := 0, first := if e.first then 1 else 0,
    voiceRatio := e.voiceRatio, detectedBandwidth := 0, nbNoActivity := e.noActivityQ1, nonfinalFrame := 0, bitrateBps := 0,
    toMono := e.toMono, lbrrCoded := 0, allowBwSwitch := 0, inWBmode := 0, opusCanSwitch := 0, silkUseDtx := e.silkUseDTX }

theorem refines_stOfEnc (e : EncSt) : Refines e (stOfEnc e) :=
  ⟨rfl, rfl, rfl, rfl, rfl, rfl, rfl, rfl, rfl, rfl, rfl, rfl, rfl, rfl, rfl, rfl, rfl, rfl, rfl, rfl, rfl, rfl, rfl, rfl,
   by unfold stOfEnc; cases e.first <;> simp, rfl, rfl, rfl, rfl⟩

/-- The observation of a skeleton post-state (free fields: 16 kHz internal rate, VBR, no energy mask). -/
def obsOfSt (s' : St) : EncObs :=
  { first := decide (s'.first ≠ 0), bandwidth := s'.bandwidth, prevFramesize := s'.prevFramesize, rangeFinal := 0,
    voiceRatio := s'.voiceRatio, forceChannels := s'.forceChannels, maxInternalSampleRate := 16000, useCBR := 0,
    silkUseDTX := s'.silkUseDtx, prevMode := s'.prevMode, silkInDtx := 0, noActivityQ1 := s'.nbNoActivity,
    streamChannels := s'.streamChannels, mode := s'.mode, prevChannels := s'.prevChannels, toMono := s'.toMono,
    celtEnergyMask := false }

theorem obsOf_obsOfSt (s' : St) : ObsOf s' (obsOfSt s') :=
  ⟨by simp [obsOfSt], rfl, rfl, rfl, rfl, rfl, rfl, rfl, rfl, rfl, rfl, rfl⟩

theorem freeOk_obsOfSt (e : EncSt) (s' : St) (h : -1 ≤ s'.voiceRatio ∧ s'.voiceRatio ≤ 100) : FreeOk e (obsOfSt s') :=
  ⟨h, Or.inr (Or.inr rfl), Or.inl rfl, fun h => by cases h⟩

end Opus.EncSkel.Proofs
