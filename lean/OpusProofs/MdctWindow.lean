import OpusModel.Gen.Window
import OpusProofs.MdctTdac
import Mathlib.Data.Real.Basic
import Mathlib.Tactic.Ring
import Mathlib.Tactic.Linarith
import Mathlib.Tactic.FieldSimp
import Mathlib.Tactic.Positivity
/-
  OpusProofs.MdctWindow — the regenerated CELT window (`Opus.Gen.Window.windowME`, the 120 single-precision
  values of celt/static_modes_float.h: window120, each as m·2^e) as exact numbers:

    * `window_pc_int`     : integer form of the Princen–Bradley defect bound, by kernel evaluation on the table;
    * `window_pc_real`    : |w[i]² + w[119−i]² − 1| ≤ 2⁻²³ over ℝ;
    * `window_increasing`, `window_range` : 0 < w[0] < … < w[119] ≤ 1;
    * `extWindow`         : the 2M-sample low-overlap window (zero / rise / one / fall / zero) the code's short
                            window stands for, its symmetry and its power-complementarity defect;
    * `celt_tdac`         : TDAC with the real table for any frame size M ≥ overlap of the same parity:
                            reconstruction error ≤ M/2 · 2⁻²³ · |x| in exact arithmetic.
-/
namespace Opus.MdctWindow
open Opus.Gen.Window

/-- `window[i]·2^windowDen` as an integer. -/
def windowNum : List Int := windowME.map fun p => p.1 * 2 ^ (p.2 + (windowDen : Int)).toNat

def num (i : Nat) : Int := windowNum.getD i 0

theorem windowME_length : windowME.length = overlap := by decide

/-- Every exponent is ≥ −windowDen, so `windowNum` loses nothing. -/
theorem windowME_exp_ok : ∀ p ∈ windowME, 0 ≤ p.2 + (windowDen : Int) := by decide +kernel

/-- The exponent of the bound below is meaningful. -/
theorem den_ge : 23 ≤ 2 * windowDen := by decide

/-- Princen–Bradley defect of the table, cleared of denominators. -/
theorem window_pc_int :
    ∀ i < overlap, |num i ^ 2 + num (overlap - 1 - i) ^ 2 - 2 ^ (2 * windowDen)| ≤ 2 ^ (2 * windowDen - 23) := by
  decide +kernel

/-- The bound 2⁻²³ is the tightest power of two: 2⁻²⁴ fails somewhere. -/
theorem window_pc_int_tight :
    ∃ i < overlap, ¬ |num i ^ 2 + num (overlap - 1 - i) ^ 2 - 2 ^ (2 * windowDen)| ≤ 2 ^ (2 * windowDen - 24) := by
  decide +kernel

theorem window_increasing_int : ∀ i < overlap - 1, num i < num (i + 1) := by decide +kernel

theorem window_range_int : 0 < num 0 ∧ num (overlap - 1) ≤ 2 ^ windowDen := by decide +kernel

/-- The window as real numbers: `windowR i` is exactly the single-precision table entry. -/
noncomputable def windowR (i : ℕ) : ℝ := (num i : ℝ) / 2 ^ windowDen

/-- `num i / 2^windowDen = m·2^e`: the integer form denotes the (m, e) pair printed by the extractor. -/
theorem num_spec (i : ℕ) (hi : i < overlap) :
    windowR i = ((windowME.getD i (0, 0)).1 : ℝ) * (2 : ℝ) ^ ((windowME.getD i (0, 0)).2) := by
  have hlen : i < windowME.length := by rw [windowME_length]; exact hi
  have hg : windowME.getD i (0, 0) = windowME[i] := (List.getElem_eq_getD (h := hlen) (0, 0)).symm
  have hlen' : i < windowNum.length := by unfold windowNum; simpa using hlen
  have hn : num i = windowME[i].1 * 2 ^ (windowME[i].2 + (windowDen : Int)).toNat := by
    unfold num; rw [← List.getElem_eq_getD (h := hlen') 0]; simp only [windowNum, List.getElem_map]; rfl
  have hexp := windowME_exp_ok _ (List.getElem_mem hlen)
  rw [hg]; unfold windowR; rw [hn]
  generalize windowME[i] = p at hexp ⊢
  have h2 : (2 : ℝ) ≠ 0 := two_ne_zero
  have hz : p.2 = ((p.2 + (windowDen : Int)).toNat : Int) - (windowDen : Int) := by
    rw [Int.toNat_of_nonneg hexp]; ring
  push_cast
  conv_rhs => rw [hz, zpow_sub₀ h2, zpow_natCast, zpow_natCast]
  ring

theorem window_pc_real (i : ℕ) (hi : i < overlap) :
    |windowR i ^ 2 + windowR (overlap - 1 - i) ^ 2 - 1| ≤ 1 / 2 ^ 23 := by
  have hint := window_pc_int i hi
  have hR : |((num i ^ 2 + num (overlap - 1 - i) ^ 2 - 2 ^ (2 * windowDen) : Int) : ℝ)|
      ≤ (2 : ℝ) ^ (2 * windowDen - 23) := by
    rw [← Int.cast_abs]; exact_mod_cast hint
  have hpos : (0 : ℝ) < 2 ^ (2 * windowDen) := by positivity
  have hsplit : (2 : ℝ) ^ (2 * windowDen) = 2 ^ (2 * windowDen - 23) * 2 ^ 23 := by
    rw [← pow_add, Nat.sub_add_cancel den_ge]
  have heq : windowR i ^ 2 + windowR (overlap - 1 - i) ^ 2 - 1
      = ((num i ^ 2 + num (overlap - 1 - i) ^ 2 - 2 ^ (2 * windowDen) : Int) : ℝ) / 2 ^ (2 * windowDen) := by
    have hp : (2 : ℝ) ^ (2 * windowDen) = (2 ^ windowDen) ^ 2 := by rw [← pow_mul, Nat.mul_comm]
    unfold windowR
    push_cast
    rw [hp]
    field_simp
  rw [heq, abs_div, abs_of_pos hpos, div_le_div_iff₀ hpos (by positivity)]
  calc _ ≤ (2 : ℝ) ^ (2 * windowDen - 23) * 2 ^ 23 := by
        exact mul_le_mul_of_nonneg_right hR (by positivity)
    _ = 1 * 2 ^ (2 * windowDen) := by rw [hsplit]; ring

theorem window_increasing (i : ℕ) (hi : i < overlap - 1) : windowR i < windowR (i + 1) := by
  unfold windowR
  have := window_increasing_int i hi
  have h : (num i : ℝ) < (num (i + 1) : ℝ) := by exact_mod_cast this
  exact div_lt_div_of_pos_right h (by positivity)

theorem window_range : 0 < windowR 0 ∧ windowR (overlap - 1) ≤ 1 := by
  obtain ⟨h0, h1⟩ := window_range_int
  unfold windowR
  refine ⟨div_pos (by exact_mod_cast h0) (by positivity), ?_⟩
  rw [div_le_one (by positivity)]
  exact_mod_cast h1

/-! ### The low-overlap window over a 2M block -/

open Opus.MdctR

/-- The 2M-sample window the short window `w` (length `ov`) stands for, `z = (M − ov)/2`
    (same definition as `Opus.Mdct.extWindow` in the executable model). -/
noncomputable def extWindow (M ov : ℕ) (w : ℕ → ℝ) (n : ℕ) : ℝ :=
  if n < (M - ov) / 2 then 0
  else if n < (M - ov) / 2 + ov then w (n - (M - ov) / 2)
  else if n < 2 * M - (M - ov) / 2 - ov then 1
  else if n < 2 * M - (M - ov) / 2 then w (2 * M - (M - ov) / 2 - 1 - n)
  else 0

theorem extWindow_symm (M ov : ℕ) (w : ℕ → ℝ) (hov : ov ≤ M) (hpar : 2 ∣ (M - ov)) (n : ℕ) (hn : n < 2 * M) :
    extWindow M ov w (2 * M - 1 - n) = extWindow M ov w n := by
  obtain ⟨z, hz⟩ := hpar
  have hzz : (M - ov) / 2 = z := by omega
  unfold extWindow
  rw [hzz]
  split_ifs <;> first | rfl | omega | (congr 1; omega)

/-- Power-complementarity defect of the extended window: zero outside the cross-fade, the short window's
    defect inside. -/
theorem extWindow_pc (M ov : ℕ) (w : ℕ → ℝ) (hov : ov ≤ M) (hpar : 2 ∣ (M - ov)) (n : ℕ) (hn : n < M) :
    extWindow M ov w n ^ 2 + extWindow M ov w (n + M) ^ 2 - 1
      = if (M - ov) / 2 ≤ n ∧ n < (M - ov) / 2 + ov
        then w (n - (M - ov) / 2) ^ 2 + w (ov - 1 - (n - (M - ov) / 2)) ^ 2 - 1 else 0 := by
  obtain ⟨z, hz⟩ := hpar
  have hzz : (M - ov) / 2 = z := by omega
  unfold extWindow
  rw [hzz]
  by_cases h1 : n < z
  · have a1 : ¬ (n + M < z) := by omega
    have a2 : ¬ (n + M < z + ov) := by omega
    have a3 : n + M < 2 * M - z - ov := by omega
    have c : ¬ (z ≤ n ∧ n < z + ov) := by omega
    rw [if_neg c]; simp only [h1, a1, a2, a3, if_true, if_false]; ring
  · by_cases h2 : n < z + ov
    · have a1 : ¬ (n + M < z) := by omega
      have a2 : ¬ (n + M < z + ov) := by omega
      have a3 : ¬ (n + M < 2 * M - z - ov) := by omega
      have a4 : n + M < 2 * M - z := by omega
      have c : z ≤ n ∧ n < z + ov := by omega
      have e : 2 * M - z - 1 - (n + M) = ov - 1 - (n - z) := by omega
      rw [if_pos c]; simp only [h1, h2, a1, a2, a3, a4, e, if_true, if_false]
    · have b3 : n < 2 * M - z - ov := by omega
      have a1 : ¬ (n + M < z) := by omega
      have a2 : ¬ (n + M < z + ov) := by omega
      have a3 : ¬ (n + M < 2 * M - z - ov) := by omega
      have a4 : ¬ (n + M < 2 * M - z) := by omega
      have c : ¬ (z ≤ n ∧ n < z + ov) := by omega
      rw [if_neg c]; simp only [h1, h2, b3, a1, a2, a3, a4, if_true, if_false]; ring

/-- TDAC for any short window extended to a low-overlap window: the error of overlap-add reconstruction is
    bounded by the short window's power-complementarity defect `ε`. -/
theorem ext_tdac_approx (M ov : ℕ) (w x : ℕ → ℝ) (ε : ℝ) (hε : 0 ≤ ε) (hov : ov ≤ M) (hpar : 2 ∣ (M - ov))
    (hpb : ∀ i, i < ov → |w i ^ 2 + w (ov - 1 - i) ^ 2 - 1| ≤ ε) (t n : ℕ) (hn : n < M) :
    |wola M (extWindow M ov w) x ((t + 1) * M) n + wola M (extWindow M ov w) x (t * M) (n + M)
        - (M : ℝ) / 2 * x ((t + 1) * M + n)|
      ≤ (M : ℝ) / 2 * ε * |x ((t + 1) * M + n)| := by
  apply tdac_approx M (extWindow M ov w) x ε (extWindow_symm M ov w hov hpar) _ t n hn
  intro k hk
  rw [extWindow_pc M ov w hov hpar k hk]
  split
  · next h => exact hpb _ (by omega)
  · simpa using hε

/-- TDAC with the regenerated CELT window for every frame size `M ≥ overlap` of the same parity
    (120, 240, 480, 960 in the static mode). -/
theorem celt_tdac (M : ℕ) (hov : overlap ≤ M) (hpar : 2 ∣ (M - overlap)) (x : ℕ → ℝ) (t n : ℕ) (hn : n < M) :
    |wola M (extWindow M overlap windowR) x ((t + 1) * M) n + wola M (extWindow M overlap windowR) x (t * M) (n + M)
        - (M : ℝ) / 2 * x ((t + 1) * M + n)|
      ≤ (M : ℝ) / 2 * (1 / 2 ^ 23) * |x ((t + 1) * M + n)| :=
  ext_tdac_approx M overlap windowR x (1 / 2 ^ 23) (by positivity) hov hpar
    (fun i hi => window_pc_real i hi) t n hn

end Opus.MdctWindow
