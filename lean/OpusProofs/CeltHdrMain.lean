import OpusProofs.CeltHdrTail
import OpusProofs.CeltAllocBits
/-
  OpusProofs.CeltHdrMain — the header round trip assembled: part 1 (flags, coarse energy), part 2 (tf, spread,
  dynalloc, trim), the VBR shrink, the `bits` / anti-collapse computation and the allocation's coder calls; the
  decoder side of the allocation then follows from `alloc_agree`.
-/
namespace OpusProofs.CeltHdr
open Opus Opus.RangeCoder Opus.CeltSymsEnc

/-- Lock-step of `rng` at a prefix (C08 `lockstep_rng`). -/
theorem World.sync_rng (w : World) (P : List Op) (h : w.IsPrefix P) : (w.decAt P).rng = (w.encAt P).rng := by
  obtain ⟨Q, hQ⟩ := h
  have hl := w.hl; have hn := w.hn; have herr := w.herr
  rw [hQ] at hl hn herr
  have h6 := (decode_encode_prefix w.buf w.size P Q w.hs w.hb hl hn herr).2
  have := h6.rc.rng_eq
  unfold World.decAt World.encAt World.d0 World.bytes World.len
  rw [hQ]; exact this

/-- plain extension of the call list (an `ec_enc_shrink` may be among the new calls) -/
def Ext0 (s s' : St) : Prop := ∃ δ, s'.ops = s.ops ++ δ

theorem Ext.ext0 {s s' : St} (h : Ext s s') : Ext0 s s' := by obtain ⟨δ, hδ, _⟩ := h; exact ⟨δ, hδ⟩
theorem Ext0.trans {a b c : St} (h1 : Ext0 a b) (h2 : Ext0 b c) : Ext0 a c := by
  obtain ⟨x, hx⟩ := h1; obtain ⟨y, hy⟩ := h2
  exact ⟨x ++ y, by rw [hy, hx, List.append_assoc]⟩

theorem prefix_of_ext0 {w : World} {P0 : List Op} {s s' : St} (h : Ext0 s s') (hp : w.IsPrefix (P0 ++ s'.ops)) :
    w.IsPrefix (P0 ++ s.ops) := by
  obtain ⟨δ, hδ⟩ := h
  rw [hδ, ← List.append_assoc] at hp
  exact World.isPrefix_of_append hp

theorem budOk_of_margin0 {w : World} {P0 : List Op} {s' sEnd : St} {d' : Dec} (size1 : Nat)
    (h : Here w P0 s' d') (hx : Ext0 s' sEnd) (hp : w.IsPrefix (P0 ++ sEnd.ops)) (hlen : w.len ≤ size1)
    (hmargin : w.len = size1 ∨ tell (w.encAt (P0 ++ sEnd.ops)) + 16 ≤ ((w.len * 8 : Nat) : Int)) :
    BudOk ((size1 * 8 : Nat) : Int) ((w.len * 8 : Nat) : Int) (tell s'.e) := by
  intro k hk0 hk16
  obtain ⟨δ, hδ⟩ := hx
  have hm := (w.tell_mono δ (P0 ++ s'.ops) (by rw [List.append_assoc, ← hδ]; exact hp)).1
  rw [List.append_assoc, ← hδ, ← h.enc] at hm
  constructor
  · intro hE
    rcases hmargin with e | e
    · rw [e]; exact hE
    · omega
  · intro hD; omega

theorem fracOk_of_margin0 {w : World} {P0 : List Op} {s' sEnd : St} {d' : Dec} (size1 tb tbMax : Nat)
    (h : Here w P0 s' d') (hx : Ext0 s' sEnd) (hp : w.IsPrefix (P0 ++ sEnd.ops)) (hlen : w.len ≤ size1) (htb : tb ≤ tbMax)
    (hmargin : w.len = size1 ∨
      (tellFrac (w.encAt (P0 ++ sEnd.ops)) : Int) + tbMax + 48 < ((w.len * 8 * 8 : Nat) : Int)) :
    FracOk (((size1 * 8 : Nat) : Int) * 8) ((w.len * 8 * 8 : Nat) : Int) (tellFrac s'.e) tb := by
  intro k hk0 hk48
  obtain ⟨δ, hδ⟩ := hx
  have hm := (w.tell_mono δ (P0 ++ s'.ops) (by rw [List.append_assoc, ← hδ]; exact hp)).2
  rw [List.append_assoc, ← hδ, ← h.enc] at hm
  constructor
  · intro hE
    rcases hmargin with e | e
    · rw [e]; omega
    · omega
  · intro hD; omega

/-! ### The allocation's coder calls -/

theorem allocOps_decode {w : World} {P0 : List Op} : ∀ (aops : List CeltAlloc.Op) (s : St) (d : Dec), Here w P0 s d →
    OpusProofs.CeltAlloc.BitsOk aops → w.IsPrefix (P0 ++ (s.ops ++ aops.map allocOp)) →
    (decRun d (aops.map allocOp)).1 = aops.map OpusProofs.CeltAlloc.opVal ∧
    (decRun d (aops.map allocOp)).2 = w.decAt (P0 ++ (s.ops ++ aops.map allocOp)) := by
  intro aops
  induction aops with
  | nil =>
    intro s d h _ _
    simp only [List.map_nil, decRun, List.append_nil]
    exact ⟨trivial, h.dec⟩
  | cons a rest ih =>
    intro s d h hb hp
    have hl : P0 ++ (s.ops ++ (a :: rest).map allocOp) = (P0 ++ (s.ops ++ [allocOp a])) ++ rest.map allocOp := by simp
    have hl2 : s.ops ++ (a :: rest).map allocOp = (s.emit (allocOp a)).ops ++ rest.map allocOp := by simp [emit_ops]
    have hp1 : w.IsPrefix (P0 ++ (s.emit (allocOp a)).ops) := by
      rw [emit_ops]; rw [hl] at hp; exact World.isPrefix_of_append hp
    obtain ⟨m, hn⟩ := h.emit (allocOp a) hp1
    obtain ⟨r1, r2⟩ := ih (s.emit (allocOp a)) _ hn (fun o ho => hb o (List.mem_cons_of_mem _ ho)) (by rw [← hl2]; exact hp)
    have hv : (decOp d (allocOp a)).1 = OpusProofs.CeltAlloc.opVal a := by
      cases a with
      | bit v =>
        have hv1 : v ≤ 1 := hb (.bit v) (List.mem_cons_self ..)
        have m' : (decOp d (.bitLogp v 1)).1 = if v ≠ 0 then 1 else 0 := m
        show (decOp d (.bitLogp v 1)).1 = v
        rw [m']; split <;> omega
      | uint v ft => exact m
    simp only [List.map_cons, decRun]
    rw [show s.ops ++ allocOp a :: List.map allocOp rest = (s.emit (allocOp a)).ops ++ rest.map allocOp from hl2]
    exact ⟨by rw [hv, r1], r2⟩

theorem getD_nonneg (l : List Int) (h : ∀ x ∈ l, 0 ≤ x) (j : Nat) : 0 ≤ l.getD j 0 := by
  rw [List.getD_eq_getElem?_getD]
  cases hj : l[j]? with
  | none => simp
  | some x => simp only [Option.getD_some]; exact h x (List.mem_of_getElem? hj)

theorem bits_bound (v s tf a : Nat) (h1 : v ≤ s) (h2 : s ≤ 1275) :
    ((v * 8 * 8 : Nat) : Int) - (tf : Int) - 1 - (a : Int) ≤ 16777216 := by
  omega

/-- the decoder's arguments for `clt_compute_allocation`, from its header -/
def decAllocInp (cfg : EncCfg) (dh : Opus.CeltSyms.CeltHdr) (i d pv sb : Int) : CeltAlloc.Inp :=
  CeltAlloc.Inp.mk cfg.start cfg.end_ ((List.replicate cfg.start 0) ++ dh.offsets.map (fun (x : Nat) => (x : Int)))
    (CeltAlloc.initCaps cfg.LM cfg.C) dh.trim i d dh.bits cfg.C cfg.LM pv sb

theorem encVbrShrink_facts {w : World} {P0 : List Op} (cfg : EncCfg) (size1 : Nat) (s : St) (d : Dec) (h : Here w P0 s d)
    (hp : w.IsPrefix (P0 ++ (encVbrShrink cfg size1 s).2.ops)) :
    Ext0 s (encVbrShrink cfg size1 s).2 ∧ (encVbrShrink cfg size1 s).1 ≤ size1 ∧ Here w P0 (encVbrShrink cfg size1 s).2 d := by
  unfold encVbrShrink at hp ⊢
  by_cases hv : cfg.vbr = true
  · simp only [hv, if_true] at hp ⊢
    refine ⟨⟨[_], rfl⟩, ?_, ?_⟩
    · exact Nat.le_trans (Nat.min_le_left _ _) (Nat.min_le_left _ _)
    · exact (h.pop.emit _ hp).2
  · simp only [hv] at hp ⊢
    exact ⟨⟨[], by simp⟩, Nat.le_refl _, h⟩

/-- **Round trip, part 2**: everything behind the coarse energies, including the allocation. -/
theorem tail_roundtrip (w : World) (P0 : List Op) (cfg : EncCfg) (sil size1 : Nat) (pf : PfOut) (opsPf : List Op) (isT intra : Nat)
    (qs qds : List Int) (s4 : St) (d4 : Dec) (h4 : Here w P0 s4 d4) (hst : s4.e.storage = size1)
    (hdr : EncHdr) (hrun : encTail cfg sil size1 pf opsPf isT intra qs qds s4 = .ok hdr)
    (hp : w.IsPrefix (P0 ++ hdr.ops))
    (hcfg : cfg.start < cfg.end_ ∧ cfg.end_ ≤ 21 ∧ (cfg.C = 1 ∨ cfg.C = 2) ∧ cfg.LM ≤ 3)
    (hsz : size1 ≤ 1275) (hlen : w.len = hdr.size)
    (hmargin : w.len = size1 ∨ (tell (w.encAt (P0 ++ hdr.opsHdr)) + 16 ≤ ((w.len * 8 : Nat) : Int) ∧
       (tellFrac (w.encAt (P0 ++ hdr.opsHdr)) : Int) + hdr.totalBoost + 48 < ((w.len * 8 * 8 : Nat) : Int)))
    (hint : (cfg.start : Int) ≤ hdr.allocInp.intensity)
    (hdual : hdr.allocInp.dualStereo = 0 ∨ hdr.allocInp.dualStereo = 1)
    (flags : Nat × Opus.CeltSyms.PostFilter × Nat × Nat) (hfl : flags.2.2.1 = isT) (coarse : List Int)
    (tr0 : List Opus.CeltSyms.CEv) :
    (Opus.CeltSyms.readTail (cfgD cfg) w.len flags coarse tr0 d4).silence = flags.1 ∧
    (Opus.CeltSyms.readTail (cfgD cfg) w.len flags coarse tr0 d4).pf = flags.2.1 ∧
    (Opus.CeltSyms.readTail (cfgD cfg) w.len flags coarse tr0 d4).isTransient = flags.2.2.1 ∧
    (Opus.CeltSyms.readTail (cfgD cfg) w.len flags coarse tr0 d4).intra = flags.2.2.2 ∧
    (Opus.CeltSyms.readTail (cfgD cfg) w.len flags coarse tr0 d4).coarse = coarse ∧
    (Opus.CeltSyms.readTail (cfgD cfg) w.len flags coarse tr0 d4).tfRes = hdr.tfRes ∧
    (Opus.CeltSyms.readTail (cfgD cfg) w.len flags coarse tr0 d4).tfSelect = hdr.tfSelect ∧
    (Opus.CeltSyms.readTail (cfgD cfg) w.len flags coarse tr0 d4).spread = hdr.spread ∧
    (Opus.CeltSyms.readTail (cfgD cfg) w.len flags coarse tr0 d4).offsets = hdr.offsets ∧
    (Opus.CeltSyms.readTail (cfgD cfg) w.len flags coarse tr0 d4).trim = hdr.trim ∧
    (Opus.CeltSyms.readTail (cfgD cfg) w.len flags coarse tr0 d4).bits = hdr.bits ∧
    (Opus.CeltSyms.readTail (cfgD cfg) w.len flags coarse tr0 d4).antiCollapseRsv = hdr.antiCollapseRsv ∧
    hdr.encHdr = w.encAt (P0 ++ hdr.opsHdr) ∧
    (Opus.CeltSyms.readTail (cfgD cfg) w.len flags coarse tr0 d4).dec = w.decAt (P0 ++ hdr.opsHdr) ∧
    w.IsPrefix (P0 ++ hdr.opsHdr) ∧
    hdr.ops = hdr.opsHdr ++ hdr.alloc.ops.map allocOp ∧
    hdr.enc = w.encAt (P0 ++ hdr.ops) ∧
    (decRun (w.decAt (P0 ++ hdr.opsHdr)) (hdr.alloc.ops.map allocOp)).1 = hdr.alloc.ops.map OpusProofs.CeltAlloc.opVal ∧
    (decRun (w.decAt (P0 ++ hdr.opsHdr)) (hdr.alloc.ops.map allocOp)).2 = w.decAt (P0 ++ hdr.ops) ∧
    ∀ (i d pv sb : Int) (rest : List Nat),
      CeltAlloc.computeAllocation (decAllocInp cfg (Opus.CeltSyms.readTail (cfgD cfg) w.len flags coarse tr0 d4) i d pv sb)
        { encode := false, oracle := hdr.alloc.ops.map OpusProofs.CeltAlloc.opVal ++ rest, ops := [] } = .ok hdr.alloc := by
  generalize htotD : ((w.len * 8 : Nat) : Int) = totD at *
  generalize htotFD : ((w.len * 8 * 8 : Nat) : Int) = totFD at *
  unfold encTail at hrun
  simp only [] at hrun
  generalize htotE : ((size1 * 8 : Nat) : Int) = totE at *
  generalize hT : encTf cfg isT s4 = T at hrun
  generalize hSP : encSpread totE T.2.2.2 = SP at hrun
  generalize hDY : encDynalloc cfg (totE * 8) (cfg.end_ - cfg.start) cfg.start 6 0 SP.2 = DY at hrun
  generalize hTR : encTrim (totE * 8) DY.2.1 DY.2.2 = TR at hrun
  generalize hVB : encVbrShrink cfg size1 TR.2 = VB at hrun
  cases hA : CeltAlloc.computeAllocation
      (allocInpOf cfg DY.1 TR.1 (bitsOf VB.1 VB.2.e - acrOf cfg isT (bitsOf VB.1 VB.2.e)) VB.2) { encode := true } with
  | ok o =>
    rw [hA] at hrun
    simp only [] at hrun
    injection hrun with hrun
    subst hrun
    simp only [] at hp hlen hmargin hint hdual ⊢
    -- the chain of states
    have x45 : Ext s4 T.2.2.2 := by rw [← hT]; exact encTf_ext cfg isT s4
    have x56 : Ext T.2.2.2 SP.2 := by rw [← hSP]; exact encSpread_ext _ _
    have x67 := encDynalloc_ext cfg (totE * 8) (cfg.end_ - cfg.start) cfg.start 6 0 SP.2
    rw [hDY] at x67
    have x78 : Ext DY.2.2 TR.2 := by rw [← hTR]; exact encTrim_ext _ _ _
    have hops9 : VB.2.pop.2.pop.2.pop.2.pop.2.ops = VB.2.ops := rfl
    rw [hops9] at hp
    have p9 : w.IsPrefix (P0 ++ VB.2.ops) := by
      rw [← List.append_assoc] at hp; exact World.isPrefix_of_append hp
    -- a provisional decoder state for the VBR step: established below
    have hvb0 : Ext0 TR.2 VB.2 := by
      rw [← hVB]; unfold encVbrShrink
      by_cases hv : cfg.vbr = true
      · simp only [hv, if_true]; exact ⟨[_], rfl⟩
      · simp only [hv]; exact ⟨[], by simp⟩
    have hvb1 : VB.1 ≤ size1 := by
      rw [← hVB]; unfold encVbrShrink
      by_cases hv : cfg.vbr = true
      · simp only [hv, if_true]; exact Nat.le_trans (Nat.min_le_left _ _) (Nat.min_le_left _ _)
      · simp only [hv]; exact Nat.le_refl _
    have p8 := prefix_of_ext0 hvb0 p9
    have p7 := prefix_of_ext x78 p8
    have p6 := prefix_of_ext x67.1 p7
    have p5 := prefix_of_ext x56 p6
    have hlenle : w.len ≤ size1 := by rw [hlen]; exact hvb1
    have bud : ∀ (s' : St) (d' : Dec), Here w P0 s' d' → Ext s' TR.2 → BudOk totE totD (tell s'.e) := by
      intro s' d' h hx
      have := budOk_of_margin0 size1 h (hx.ext0.trans hvb0) p9 hlenle
        (by rcases hmargin with e | e
            · exact Or.inl e
            · right; rw [htotD]; exact e.1)
      rw [htotE, htotD] at this; exact this
    have frac : ∀ (s' : St) (d' : Dec) (tb : Nat), Here w P0 s' d' → Ext s' TR.2 → tb ≤ DY.2.1 →
        FracOk (totE * 8) totFD (tellFrac s'.e) tb := by
      intro s' d' tb h hx htb
      have := fracOk_of_margin0 size1 tb DY.2.1 h (hx.ext0.trans hvb0) p9 hlenle htb
        (by rcases hmargin with e | e
            · exact Or.inl e
            · right; rw [htotFD]; exact e.2)
      rw [htotE, htotFD] at this; exact this
    -- tf
    have a := tf_sync h4 cfg isT size1 TR.2 hst (by rw [htotE, htotD]; exact bud) (by rw [hT]; exact p5)
      (by rw [hT]; exact (x56.trans x67.1).trans x78)
    rw [hT] at a
    obtain ⟨a1, a2, a3⟩ := a
    generalize hDT : Opus.CeltSyms.tfDecode (cfgD cfg) isT d4 = DT at a1 a2 a3
    -- spread
    have b := spread_sync a3 totE totD (by rw [hSP]; exact p6) (bud T.2.2.2 _ a3 ((x56.trans x67.1).trans x78) 4 (by omega) (by omega))
    rw [hSP] at b
    obtain ⟨b1, b2⟩ := b
    generalize hDS : Opus.CeltSyms.readSpread totD DT.2.2.1 = DS at b1 b2
    -- dynalloc
    have c := dynalloc_sync cfg (totE * 8) totFD TR.2 DY.2.1 frac (cfg.end_ - cfg.start) cfg.start 6 0 SP.2 DS.2.1
      (by omega) b2 (by rw [hDY]; exact p7) (by rw [hDY]; exact x78) (by rw [hDY]; exact Nat.le_refl _)
    rw [hDY] at c
    have h0 : totFD - ((0 : Nat) : Int) = totFD := by omega
    rw [h0] at c
    obtain ⟨c1, c2, c3⟩ := c
    generalize hDD : Opus.CeltSyms.dynalloc (cfgD cfg) (cfg.end_ - cfg.start) cfg.start 6 totFD DS.2.1 = DD at c1 c2 c3
    -- trim
    have e := trim_sync c3 (totE * 8) totFD DY.2.1 (by rw [hTR]; exact p8) (frac DY.2.2 _ DY.2.1 c3 x78 (Nat.le_refl _))
    rw [hTR, ← c2] at e
    obtain ⟨e1, e2⟩ := e
    generalize hDR : Opus.CeltSyms.readTrim DD.2.1 DD.2.2.1 = DR at e1 e2
    -- the VBR shrink is invisible to the decoder
    have f := encVbrShrink_facts cfg size1 TR.2 DR.2.1 e2 (by rw [hVB]; exact p9)
    rw [hVB] at f
    obtain ⟨_, _, f3⟩ := f
    obtain ⟨_, ftf, _, _⟩ := f3.tells p9
    -- the decoder's header
    have hrt : Opus.CeltSyms.readTail (cfgD cfg) w.len flags coarse tr0 d4 =
        { silence := flags.1, pf := flags.2.1, isTransient := flags.2.2.1, intra := flags.2.2.2, coarse := coarse, tfRes := DT.1,
          tfSelect := DT.2.1, spread := DS.1, offsets := DD.1, trim := DR.1,
          bits := totFD - tellFrac DR.2.1 - 1 -
            (if flags.2.2.1 ≠ 0 ∧ cfg.LM ≥ 2 ∧ totFD - tellFrac DR.2.1 - 1 ≥ (cfg.LM + 2) * 8 then 8 else 0),
          antiCollapseRsv :=
            if flags.2.2.1 ≠ 0 ∧ cfg.LM ≥ 2 ∧ totFD - tellFrac DR.2.1 - 1 ≥ (cfg.LM + 2) * 8 then 8 else 0,
          caps := (List.range Opus.CeltSymsFrozen.nbEBands).map (Opus.CeltSyms.capOf (cfgD cfg)), dec := DR.2.1,
          trace := tr0 ++ DT.2.2.2 ++ DS.2.2 ++ DD.2.2.2 ++ DR.2.2 } := by
      unfold Opus.CeltSyms.readTail
      rw [hfl, hDT]
      simp only [htotD, hDS, htotFD, hDD, hDR]
    rw [hrt]
    simp only []
    have hbits0 : totFD - (tellFrac DR.2.1 : Int) - 1 = bitsOf VB.1 VB.2.e := by
      unfold bitsOf; rw [ftf, ← htotFD, hlen]
    rw [hbits0, hfl]
    have hacr : (if isT ≠ 0 ∧ cfg.LM ≥ 2 ∧ bitsOf VB.1 VB.2.e ≥ (cfg.LM + 2) * 8 then 8 else 0 : Nat) =
        acrOf cfg isT (bitsOf VB.1 VB.2.e) := rfl
    have hacrI : (if isT ≠ 0 ∧ cfg.LM ≥ 2 ∧ bitsOf VB.1 VB.2.e ≥ (cfg.LM + 2) * 8 then 8 else 0 : Int) =
        ((acrOf cfg isT (bitsOf VB.1 VB.2.e) : Nat) : Int) := by
      unfold acrOf; split <;> rfl
    rw [hacr, hacrI]
    -- the allocation's calls
    have hse : Here w P0 VB.2.pop.2.pop.2.pop.2.pop.2 DR.2.1 := f3.pop.pop.pop.pop
    have hbitsok := OpusProofs.CeltAlloc.alloc_bits _ _ o rfl hA
    obtain ⟨g1, g2⟩ := allocOps_decode o.ops _ _ hse hbitsok (by rw [hops9]; exact hp)
    rw [hops9] at g2
    rw [f3.dec] at g1 g2
    -- the decoder side of the allocation
    have hdom : OpusProofs.CeltAlloc.Dom
        (allocInpOf cfg DY.1 TR.1 (bitsOf VB.1 VB.2.e - acrOf cfg isT (bitsOf VB.1 VB.2.e)) VB.2) := by
      refine ⟨hcfg.1, hcfg.2.1, hcfg.2.2.1, hcfg.2.2.2, ?_, ?_, ?_⟩
      · intro j
        apply getD_nonneg
        intro x hx
        rcases List.mem_append.mp hx with hx | hx
        · rw [List.eq_of_mem_replicate hx]; exact Int.le_refl _
        · obtain ⟨y, _, hy⟩ := List.mem_map.mp hx
          rw [← hy]; exact Int.natCast_nonneg y
      · intro j
        exact OpusProofs.CeltAlloc.initCaps_bounds cfg.LM cfg.C hcfg.2.2.2 hcfg.2.2.1 j
      · show bitsOf VB.1 VB.2.e - acrOf cfg isT (bitsOf VB.1 VB.2.e) ≤ 16777216
        exact bits_bound VB.1 size1 (tellFrac VB.2.e) _ hvb1 hsz
    refine ⟨trivial, trivial, trivial, trivial, trivial, a1, a2, b1, c1, e1, rfl, rfl, f3.enc, f3.dec, p9, rfl, ?_, g1, g2, ?_⟩
    · show encRun VB.2.e (o.ops.map allocOp) = w.encAt (P0 ++ (VB.2.ops ++ o.ops.map allocOp))
      rw [f3.enc, ← List.append_assoc]
      unfold World.encAt
      rw [encRun_append (P0 ++ VB.2.ops)]
    · intro i d pv sb rest
      have := OpusProofs.CeltAlloc.alloc_agree _ hdom [] o hint hdual hA i d pv sb rest
      rw [← this]
      unfold decAllocInp
      simp only [c1, e1]
      rfl
  | err e => rw [hA] at hrun; cases hrun
  | oob => rw [hA] at hrun; cases hrun
  | abort => rw [hA] at hrun; cases hrun

theorem encVbrShrink_ext0 (cfg : EncCfg) (size1 : Nat) (s : St) :
    Ext0 s (encVbrShrink cfg size1 s).2 ∧ (encVbrShrink cfg size1 s).1 ≤ size1 := by
  unfold encVbrShrink
  by_cases hv : cfg.vbr = true
  · simp only [hv, if_true]
    exact ⟨⟨[_], rfl⟩, Nat.le_trans (Nat.min_le_left _ _) (Nat.min_le_left _ _)⟩
  · simp only [hv]
    exact ⟨⟨[], by simp⟩, Nat.le_refl _⟩

/-- what `encTail` passes through, and that it only appends calls -/
theorem encTail_facts (cfg : EncCfg) (sil size1 : Nat) (pf : PfOut) (opsPf : List Op) (isT intra : Nat)
    (qs qds : List Int) (s4 : St) (hdr : EncHdr) (hrun : encTail cfg sil size1 pf opsPf isT intra qs qds s4 = .ok hdr) :
    hdr.silence = sil ∧ hdr.pf = pf ∧ hdr.opsPf = opsPf ∧ hdr.isTransient = isT ∧ hdr.intra = intra ∧ hdr.coarse = qs ∧
    hdr.coarseDec = qds ∧ (∃ δ, hdr.opsHdr = s4.ops ++ δ) ∧ (∃ δ, hdr.ops = hdr.opsHdr ++ δ) ∧ hdr.size ≤ size1 := by
  unfold encTail at hrun
  simp only [] at hrun
  generalize hT : encTf cfg isT s4 = T at hrun
  generalize hSP : encSpread ((size1 * 8 : Nat) : Int) T.2.2.2 = SP at hrun
  generalize hDY : encDynalloc cfg (((size1 * 8 : Nat) : Int) * 8) (cfg.end_ - cfg.start) cfg.start 6 0 SP.2 = DY at hrun
  generalize hTR : encTrim (((size1 * 8 : Nat) : Int) * 8) DY.2.1 DY.2.2 = TR at hrun
  generalize hVB : encVbrShrink cfg size1 TR.2 = VB at hrun
  cases hA : CeltAlloc.computeAllocation
      (allocInpOf cfg DY.1 TR.1 (bitsOf VB.1 VB.2.e - acrOf cfg isT (bitsOf VB.1 VB.2.e)) VB.2) { encode := true } with
  | ok o =>
    rw [hA] at hrun
    simp only [] at hrun
    injection hrun with hrun
    subst hrun
    have x45 : Ext s4 T.2.2.2 := by rw [← hT]; exact encTf_ext cfg isT s4
    have x56 : Ext T.2.2.2 SP.2 := by rw [← hSP]; exact encSpread_ext _ _
    have x67 := encDynalloc_ext cfg (((size1 * 8 : Nat) : Int) * 8) (cfg.end_ - cfg.start) cfg.start 6 0 SP.2
    rw [hDY] at x67
    have x78 : Ext DY.2.2 TR.2 := by rw [← hTR]; exact encTrim_ext _ _ _
    have x89 := encVbrShrink_ext0 cfg size1 TR.2
    rw [hVB] at x89
    exact ⟨rfl, rfl, rfl, rfl, rfl, rfl, rfl, (((x45.trans x56).trans x67.1).trans x78).ext0.trans x89.1, ⟨_, rfl⟩, x89.2⟩
  | err e => rw [hA] at hrun; cases hrun
  | oob => rw [hA] at hrun; cases hrun
  | abort => rw [hA] at hrun; cases hrun

theorem encSilence_size (cfg : EncCfg) (s : St) (h : (encSilence cfg s).1 = 0) : (encSilence cfg s).2.1 = cfg.size := by
  unfold encSilence at h ⊢
  split
  · rename_i h1
    rw [if_pos h1] at h
    split
    · rename_i hv; rw [if_pos hv] at h; simp at h
    · rfl
  · rfl

theorem part1_ext {cfg : EncCfg} {s0 : St} (p : Part1 cfg s0) : Ext s0 p.s4 := by
  have x01 : Ext s0 p.s1 := by have := encSilence_ext cfg s0 (by rw [p.h1]); rw [p.h1] at this; exact this
  have x12 : Ext p.s1 p.s2 := by have := encPostFilter_ext cfg ((p.size1 * 8 : Nat) : Int) p.tv p.s1; rw [p.h2] at this; exact this
  have x23 : Ext p.s2 p.s3 := by have := encTransient_ext cfg ((p.size1 * 8 : Nat) : Int) p.s2; rw [p.h3] at this; exact this
  have x34 : Ext p.s3 p.s4 := encCoarse_ext cfg _ p.s3 p.intra p.qs p.qds p.s4 p.h4
  exact ((x01.trans x12).trans x23).trans x34

/-- What the round trip establishes between the encoder's header `hdr` and the decoder's `dh`. -/
structure HdrAgree (w : World) (P0 : List Op) (cfg : EncCfg) (hdr : EncHdr) (dh : Opus.CeltSyms.CeltHdr) : Prop where
  silence : dh.silence = hdr.silence
  pfOn : dh.pf.on = hdr.pf.on
  pfOctave : dh.pf.octave = hdr.pf.octave
  pfPitch : dh.pf.pitch = hdr.pf.pitch
  pfGain : dh.pf.qg = hdr.pf.qg
  pfTapset : dh.pf.tapset = hdr.pf.tapset
  isTransient : dh.isTransient = hdr.isTransient
  intra : dh.intra = hdr.intra
  /-- the decoder gets what the written symbols mean -/
  coarse : dh.coarse = hdr.coarseDec
  tfRes : dh.tfRes = hdr.tfRes
  tfSelect : dh.tfSelect = hdr.tfSelect
  spread : dh.spread = hdr.spread
  offsets : dh.offsets = hdr.offsets
  trim : dh.trim = hdr.trim
  bits : dh.bits = hdr.bits
  antiCollapseRsv : dh.antiCollapseRsv = hdr.antiCollapseRsv
  /-- coder states when `clt_compute_allocation` is entered -/
  encAtAlloc : hdr.encHdr = w.encAt (P0 ++ hdr.opsHdr)
  decAtAlloc : dh.dec = w.decAt (P0 ++ hdr.opsHdr)
  rngAtAlloc : dh.dec.rng = hdr.encHdr.rng
  tellAtAlloc : tell dh.dec = tell hdr.encHdr
  tellFracAtAlloc : tellFrac dh.dec = tellFrac hdr.encHdr
  /-- the allocation: the range decoder returns the encoder's values, and the decoder-side run on them gives the
      encoder's result -/
  opsSplit : hdr.ops = hdr.opsHdr ++ hdr.alloc.ops.map allocOp
  allocVals : (decRun dh.dec (hdr.alloc.ops.map allocOp)).1 = hdr.alloc.ops.map OpusProofs.CeltAlloc.opVal
  allocAgree : ∀ (i d pv sb : Int) (rest : List Nat),
    CeltAlloc.computeAllocation (decAllocInp cfg dh i d pv sb)
      { encode := false, oracle := (decRun dh.dec (hdr.alloc.ops.map allocOp)).1 ++ rest, ops := [] } = .ok hdr.alloc
  /-- coder states at the hand-over to the band data -/
  encAtBands : hdr.enc = w.encAt (P0 ++ hdr.ops)
  decAtBands : (decRun dh.dec (hdr.alloc.ops.map allocOp)).2 = w.decAt (P0 ++ hdr.ops)
  rngAtBands : (decRun dh.dec (hdr.alloc.ops.map allocOp)).2.rng = hdr.enc.rng
  tellAtBands : tell (decRun dh.dec (hdr.alloc.ops.map allocOp)).2 = tell hdr.enc
  tellFracAtBands : tellFrac (decRun dh.dec (hdr.alloc.ops.map allocOp)).2 = tellFrac hdr.enc

/-- **The CELT header round trip** (non-silent frame). -/
theorem header_roundtrip (w : World) (P0 : List Op) (cfg : EncCfg) (s0 : St) (hs0 : s0.ops = [])
    (he0 : s0.e = w.encAt P0) (hst0 : s0.e.storage = cfg.size)
    (hdr : EncHdr) (hrun : encHeader cfg s0 = .ok hdr) (hsil : hdr.silence = 0)
    (hp : w.IsPrefix (P0 ++ hdr.ops))
    (hcfg : cfg.start < cfg.end_ ∧ cfg.end_ ≤ 21 ∧ (cfg.C = 1 ∨ cfg.C = 2) ∧ cfg.LM ≤ 3)
    (hsz : cfg.size ≤ 1275) (hlen : w.len = hdr.size)
    (hmargin : w.len = cfg.size ∨ (tell (w.encAt (P0 ++ hdr.opsHdr)) + 16 ≤ ((w.len * 8 : Nat) : Int) ∧
       (tellFrac (w.encAt (P0 ++ hdr.opsHdr)) : Int) + hdr.totalBoost + 48 < ((w.len * 8 * 8 : Nat) : Int)))
    (hroom : tell s0.e < ((w.len * 8 : Nat) : Int))
    (htap : hdr.pf.on ≠ 0 → tell (w.encAt (P0 ++ hdr.opsPf.dropLast)) + 2 ≤ ((w.len * 8 : Nat) : Int))
    (hint : (cfg.start : Int) ≤ hdr.allocInp.intensity)
    (hdual : hdr.allocInp.dualStereo = 0 ∨ hdr.allocInp.dualStereo = 1) :
    ∃ dh, Opus.CeltSyms.celtHeader (cfgD cfg) w.len (w.decAt P0) = .ok dh ∧ HdrAgree w P0 cfg hdr dh := by
  unfold encHeader at hrun
  simp only [] at hrun
  generalize hR1 : encSilence cfg s0 = R1 at hrun
  generalize hR2 : encPostFilter cfg ((R1.2.1 * 8 : Nat) : Int) R1.2.2.1 R1.2.2.2 = R2 at hrun
  generalize hR3 : encTransient cfg ((R1.2.1 * 8 : Nat) : Int) R2.2 = R3 at hrun
  cases hC : encCoarse cfg ((R1.2.1 * 8 : Nat) : Int) R3.2 with
  | ok v =>
    obtain ⟨intra, qs, qds, s4⟩ := v
    rw [hC] at hrun
    simp only [] at hrun
    obtain ⟨k1, k2, k3, k4, k5, k6, k7, ⟨δ1, k8⟩, ⟨δ2, k9⟩, k10⟩ := encTail_facts _ _ _ _ _ _ _ _ _ _ _ hrun
    have hsil0 : R1.1 = 0 := by rw [← k1]; exact hsil
    have hsize : R1.2.1 = cfg.size := by
      have := encSilence_size cfg s0 (by rw [hR1]; exact hsil0)
      rw [hR1] at this; exact this
    let p : Part1 cfg s0 :=
      { s1 := R1.2.2.2, s2 := R2.2, s3 := R3.2, s4 := s4, size1 := R1.2.1, tv := R1.2.2.1, pf := R2.1, isT := R3.1,
        intra := intra, qs := qs, qds := qds,
        h1 := by rw [hR1]; exact Prod.ext hsil0 rfl
        h2 := by rw [hR2], h3 := by rw [hR3], h4 := hC }
    have pH : w.IsPrefix (P0 ++ hdr.opsHdr) := by
      rw [k9, ← List.append_assoc] at hp; exact World.isPrefix_of_append hp
    have p4 : w.IsPrefix (P0 ++ s4.ops) := by
      rw [k8, ← List.append_assoc] at pH; exact World.isPrefix_of_append pH
    have hlenle : w.len ≤ R1.2.1 := by rw [hlen]; exact k10
    have hmono := (w.tell_mono δ1 (P0 ++ s4.ops) (by rw [List.append_assoc, ← k8]; exact pH)).1
    rw [List.append_assoc, ← k8] at hmono
    obtain ⟨pfD, c5, tr, c6, tr', q1, q2, q3, q4, q5, q6, q7, q8⟩ := part1_roundtrip w P0 cfg s0 hs0 he0 p p4
      (by have := hcfg.2.2.2; omega) hlenle
      (by rcases hmargin with e | e
          · left; rw [e]; exact hsize.symm
          · right; show tell (w.encAt (P0 ++ s4.ops)) + 16 ≤ _; have := e.1; omega)
      hroom
      (by intro hon
          have hon' : hdr.pf.on ≠ 0 := by rw [k2]; exact hon
          have := htap hon'
          rw [k3] at this; exact this)
    -- the encoder's storage has not changed since entry
    have hH0 : Here w P0 s0 (w.decAt P0) := ⟨by rw [hs0, List.append_nil]; exact he0, by rw [hs0, List.append_nil]⟩
    have hst4 : s4.e.storage = R1.2.1 := by
      rw [storage_of_ext (part1_ext p) hH0 q8, hst0, hsize]
    obtain ⟨t1, t2, t3, t4, t5, t6, t7, t8, t9, t10, t11, t12, t13, t14, t15, t16, t17, t18, t19, t20⟩ :=
      tail_roundtrip w P0 cfg R1.1 R1.2.1 R2.1 R2.2.ops R3.1 intra qs qds s4 c6 q8 hst4 hdr hrun hp hcfg
        (by rw [hsize]; exact hsz) hlen (by rw [hsize]; exact hmargin) hint hdual (0, pfD, R3.1, intra) rfl qds (tr ++ tr')
    refine ⟨Opus.CeltSyms.readTail (cfgD cfg) w.len (0, pfD, R3.1, intra) qds (tr ++ tr') c6, ?_, ?_⟩
    · unfold Opus.CeltSyms.celtHeader
      rw [q1]
      simp only []
      have q7' : Opus.CeltSyms.coarseEnergy (cfgD cfg) intra c5 = .ok (qds, c6, tr') := q7
      rw [q7']
    · obtain ⟨s1, s2, _, _⟩ := w.sync _ pH
      obtain ⟨u1, u2, _, _⟩ := w.sync _ hp
      exact
        { silence := by rw [t1, k1, hsil0]
          pfOn := by rw [t2, k2]; exact q2
          pfOctave := by rw [t2, k2]; exact q3
          pfPitch := by rw [t2, k2]; exact q4
          pfGain := by rw [t2, k2]; exact q5
          pfTapset := by rw [t2, k2]; exact q6
          isTransient := by rw [t3, k4]
          intra := by rw [t4, k5]
          coarse := by rw [t5, k7]
          tfRes := t6, tfSelect := t7, spread := t8, offsets := t9, trim := t10, bits := t11, antiCollapseRsv := t12
          encAtAlloc := t13, decAtAlloc := t14
          rngAtAlloc := by rw [t13, t14]; exact w.sync_rng _ pH
          tellAtAlloc := by rw [t13, t14]; exact s1
          tellFracAtAlloc := by rw [t13, t14]; exact s2
          opsSplit := t16
          allocVals := by rw [t14]; exact t18
          allocAgree := by intro i d pv sb rest; rw [t14, t18]; exact t20 i d pv sb rest
          encAtBands := t17
          decAtBands := by rw [t14]; exact t19
          rngAtBands := by rw [t14, t19, t17]; exact w.sync_rng _ hp
          tellAtBands := by rw [t14, t19, t17]; exact u1
          tellFracAtBands := by rw [t14, t19, t17]; exact u2 }
  | err e => rw [hC] at hrun; cases hrun
  | oob => rw [hC] at hrun; cases hrun
  | abort => rw [hC] at hrun; cases hrun

end OpusProofs.CeltHdr
