import OpusModel.MsDecEq
import OpusProofs.MsDecEqSplit
/-
  OpusProofs.MsDecEqRoute — shape of the stream loop for ANY machine (who was called with what, who advanced, what is
  returned when a stream fails midway), and the bridge to C10's routing model (`Opus.Layout.decodeNative`): a successful
  `msDecode` is `Layout.decodeNative` on the answers the streams gave, so C10's `routing` theorem applies to its copy-out
  calls.  Core tactics only.
-/
namespace Opus.MsDecEq
open Opus Opus.Layout

variable {σ π : Type}

/-- What C10's routing model keeps of a per-stream call. -/
def Rec.toRet (r : Rec σ π) : StreamRet := { ret := r.out.ret, packetOffset := r.out.po }

/-- **The shape of the stream loop, for every machine and every input.** -/
theorem msLoop_shape (m : Machine σ π) (l : ChannelLayout) (fec : Int) (sc doPlc : Bool) :
    ∀ (todo : List σ) (s : Nat) (bs : Bytes) (off len fsz : Int),
      -- the streams called are `s, s+1, …` in order, each from the state it had, each with the loop's arguments
      (msLoop m l fec sc doPlc todo s bs off len fsz).recs.map (·.s) =
        List.range' s (msLoop m l fec sc doPlc todo s bs off len fsz).recs.length ∧
      (msLoop m l fec sc doPlc todo s bs off len fsz).recs.map (·.pre) =
        todo.take (msLoop m l fec sc doPlc todo s bs off len fsz).recs.length ∧
      (∀ r ∈ (msLoop m l fec sc doPlc todo s bs off len fsz).recs,
        r.out = m.run r.pre r.args ∧ r.args.fec = fec ∧ r.args.sc = sc ∧ r.args.sd = decide (r.s ≠ l.nbStreams - 1) ∧
        (doPlc = true → r.args.pkt = none) ∧ (doPlc = false → 0 < r.len ∧ ∃ b, r.args.pkt = some b)) ∧
      -- the called streams have the state their call left, the others are untouched
      (msLoop m l fec sc doPlc todo s bs off len fsz).sts =
        (msLoop m l fec sc doPlc todo s bs off len fsz).recs.map (·.out.st) ++
          todo.drop (msLoop m l fec sc doPlc todo s bs off len fsz).recs.length ∧
      -- a stream that returns ≤ 0 is the last one called and its value is the call's return value
      (∀ r ∈ (msLoop m l fec sc doPlc todo s bs off len fsz).recs, r.out.ret ≤ 0 →
        (msLoop m l fec sc doPlc todo s bs off len fsz).ret = r.out.ret ∧
        (msLoop m l fec sc doPlc todo s bs off len fsz).recs.getLast? = some r) ∧
      -- a positive return value means every stream was called and returned > 0
      (0 < (msLoop m l fec sc doPlc todo s bs off len fsz).ret →
        (msLoop m l fec sc doPlc todo s bs off len fsz).recs.length = todo.length ∧
        ∀ r ∈ (msLoop m l fec sc doPlc todo s bs off len fsz).recs, 0 < r.out.ret)
  | [], s, bs, off, len, fsz => by simp [msLoop]
  | st :: rest, s, bs, off, len, fsz => by
    unfold msLoop
    by_cases h1 : ¬ doPlc = true ∧ len ≤ 0
    · rw [if_pos h1]; simp [INTERNAL_ERROR]
    · rw [if_neg h1]
      dsimp only
      have hargs : (streamArgs l.nbStreams doPlc s bs len fsz fec sc).fec = fec ∧
          (streamArgs l.nbStreams doPlc s bs len fsz fec sc).sc = sc ∧
          (streamArgs l.nbStreams doPlc s bs len fsz fec sc).sd = decide (s ≠ l.nbStreams - 1) ∧
          (doPlc = true → (streamArgs l.nbStreams doPlc s bs len fsz fec sc).pkt = none) ∧
          (doPlc = false → 0 < len ∧ ∃ b, (streamArgs l.nbStreams doPlc s bs len fsz fec sc).pkt = some b) := by
        refine ⟨rfl, rfl, rfl, ?_, ?_⟩
        · intro h; simp [streamArgs, h]
        · intro h; refine ⟨by simp [h] at h1; omega, ?_⟩; simp [streamArgs, h]
      by_cases h2 : (m.run st (streamArgs l.nbStreams doPlc s bs len fsz fec sc)).ret ≤ 0
      · rw [if_pos h2]
        refine ⟨by simp, by simp, ?_, by simp, ?_, ?_⟩
        · intro r hr; simp only [List.mem_singleton] at hr; subst hr; exact ⟨rfl, hargs⟩
        · intro r hr _; simp only [List.mem_singleton] at hr; subst hr; simp
        · intro hpos; simp only at hpos; omega
      · rw [if_neg h2]
        obtain ⟨i1, i2, i3, i4, i5, i6⟩ := msLoop_shape m l fec sc doPlc rest (s + 1)
          (if doPlc = true then bs else bs.drop (m.run st (streamArgs l.nbStreams doPlc s bs len fsz fec sc)).po.toNat)
          (if doPlc = true then off else off + (m.run st (streamArgs l.nbStreams doPlc s bs len fsz fec sc)).po)
          (if doPlc = true then len else len - (m.run st (streamArgs l.nbStreams doPlc s bs len fsz fec sc)).po)
          (m.run st (streamArgs l.nbStreams doPlc s bs len fsz fec sc)).ret
        refine ⟨?_, ?_, ?_, ?_, ?_, ?_⟩
        · simp only [List.map_cons, List.length_cons, List.range'_succ]; rw [i1]
        · simp only [List.map_cons, List.length_cons, List.take_succ_cons]; rw [i2]
        · intro r hr
          rcases List.mem_cons.mp hr with rfl | hr
          · exact ⟨rfl, hargs⟩
          · exact i3 r hr
        · simp only [List.map_cons, List.length_cons, List.drop_succ_cons, List.cons_append]; rw [← i4]
        · intro r hr hneg
          rcases List.mem_cons.mp hr with rfl | hr
          · exact absurd hneg h2
          · obtain ⟨a, b⟩ := i5 r hr hneg
            refine ⟨a, ?_⟩
            rw [List.getLast?_cons, b]; rfl
        · intro hpos
          obtain ⟨a, b⟩ := i6 hpos
          refine ⟨by simp only [List.length_cons]; omega, ?_⟩
          intro r hr
          rcases List.mem_cons.mp hr with rfl | hr
          · exact Int.not_le.mp h2
          · exact b r hr

/-- A successful stream loop is C10's routing loop on the answers the streams gave. -/
theorem msLoop_route (m : Machine σ π) (l : ChannelLayout) (fec : Int) (sc doPlc : Bool) :
    ∀ (todo : List σ) (s : Nat) (bs : Bytes) (off len fsz : Int) (acc : List Layout.Call),
      0 < (msLoop m l fec sc doPlc todo s bs off len fsz).ret →
      routeLoop l doPlc ((msLoop m l fec sc doPlc todo s bs off len fsz).recs.map Rec.toRet) s len fsz acc =
        { ret := (msLoop m l fec sc doPlc todo s bs off len fsz).ret,
          calls := acc ++ (msLoop m l fec sc doPlc todo s bs off len fsz).copies }
  | [], s, bs, off, len, fsz, acc => by simp [msLoop, routeLoop]
  | st :: rest, s, bs, off, len, fsz, acc => by
    unfold msLoop
    by_cases h1 : ¬ doPlc = true ∧ len ≤ 0
    · rw [if_pos h1]; intro h; simp [INTERNAL_ERROR] at h
    · rw [if_neg h1]
      dsimp only
      by_cases h2 : (m.run st (streamArgs l.nbStreams doPlc s bs len fsz fec sc)).ret ≤ 0
      · rw [if_pos h2]; intro h; simp only at h; omega
      · rw [if_neg h2]
        intro hpos
        have ih := msLoop_route m l fec sc doPlc rest (s + 1) _ _ _ _
          (acc ++ streamCalls l s (m.run st (streamArgs l.nbStreams doPlc s bs len fsz fec sc)).ret) hpos
        simp only [List.map_cons, routeLoop, Rec.toRet]
        have h1' : ¬ ((!doPlc) = true ∧ len ≤ 0) := by
          intro h; apply h1; refine ⟨?_, h.2⟩; cases doPlc <;> simp_all
        rw [if_neg h1', if_neg h2]
        cases doPlc
        · simp only [Bool.false_eq_true, if_false] at ih ⊢
          rw [ih, List.append_assoc]
        · simp only [if_true] at ih ⊢
          rw [ih, List.append_assoc]

/-- **A successful multistream decode is `Opus.Layout.decodeNative` (C10's routing model) fed the answers of the streams**,
    so everything C10 proves about routing holds for its copy-out calls. -/
theorem msDecode_route (m : Machine σ π) (l : ChannelLayout) (Fs : Nat) (sts : List σ) (hsts : sts.length = l.nbStreams)
    (bs : Bytes) (len frame_size fec : Int) (sc : Bool) (hpos : 0 < (msDecode m l Fs sts bs len frame_size fec sc).ret) :
    (msDecode m l Fs sts bs len frame_size fec sc).recs.length = l.nbStreams ∧
    (∀ r ∈ (msDecode m l Fs sts bs len frame_size fec sc).recs, 0 < r.out.ret) ∧
    Layout.decodeNative l Fs frame_size len (msPacketValidate (bs.take len.toNat) l.nbStreams Fs)
      ((msDecode m l Fs sts bs len frame_size fec sc).recs.map Rec.toRet) =
      .ok { ret := (msDecode m l Fs sts bs len frame_size fec sc).ret,
            calls := (msDecode m l Fs sts bs len frame_size fec sc).copies } := by
  unfold msDecode at hpos ⊢
  cases hE : msEarly l Fs bs len frame_size with
  | some e =>
    rw [hE] at hpos; simp only at hpos
    have := msEarly_neg l Fs bs len frame_size e hE
    omega
  | none =>
    rw [hE] at hpos
    simp only at hpos ⊢
    obtain ⟨_, _, _, _, _, h6⟩ := msLoop_shape m l fec sc (decide (len = 0)) sts 0 bs 0 len (clampFs Fs frame_size)
    obtain ⟨hl, hall⟩ := h6 hpos
    refine ⟨by omega, hall, ?_⟩
    have hroute := msLoop_route m l fec sc (decide (len = 0)) sts 0 bs 0 len (clampFs Fs frame_size) [] hpos
    have htake : ((msLoop m l fec sc (decide (len = 0)) sts 0 bs 0 len (clampFs Fs frame_size)).recs.map Rec.toRet).take l.nbStreams =
        (msLoop m l fec sc (decide (len = 0)) sts 0 bs 0 len (clampFs Fs frame_size)).recs.map Rec.toRet :=
      List.take_of_length_le (by simp; omega)
    unfold msEarly at hE
    unfold Layout.decodeNative
    by_cases h1 : frame_size ≤ 0
    · rw [if_pos h1] at hE; cases hE
    rw [if_neg h1] at hE ⊢
    by_cases h2 : len < 0
    · rw [if_pos h2] at hE; cases hE
    rw [if_neg h2] at hE
    by_cases h3 : len ≠ 0 ∧ len < 2 * (l.nbStreams : Int) - 1
    · rw [if_pos h3] at hE; cases hE
    rw [if_neg h3] at hE
    dsimp only
    rw [show (if frame_size < ((Fs / 25 * 3 : Nat) : Int) then frame_size else ((Fs / 25 * 3 : Nat) : Int)) = clampFs Fs frame_size from rfl]
    rw [if_neg h2]
    have h3' : ¬ ((!decide (len = 0)) = true ∧ len < 2 * (l.nbStreams : Int) - 1) := by
      intro h; apply h3; refine ⟨?_, h.2⟩; have := h.1; simp at this; exact this
    rw [if_neg h3', htake]
    by_cases h4 : len = 0
    · rw [if_pos (by simp [h4])]
      rw [hroute]; simp
    · rw [if_neg h4] at hE
      rw [if_neg (by simp [h4])]
      unfold msCheck at hE
      split at hE
      · rename_i n hv
        rw [hv]
        simp only
        split at hE
        · cases hE
        · rename_i hk
          rw [if_neg hk, hroute]; simp
      · cases hE
      · cases hE

/-- `msLoop_shape` for the whole call (early exits make no call at all). -/
theorem msDecode_shape (m : Machine σ π) (l : ChannelLayout) (Fs : Nat) (sts : List σ) (bs : Bytes) (len frame_size fec : Int)
    (sc : Bool) :
    (msDecode m l Fs sts bs len frame_size fec sc).recs.map (·.s) =
      List.range' 0 (msDecode m l Fs sts bs len frame_size fec sc).recs.length ∧
    (msDecode m l Fs sts bs len frame_size fec sc).recs.map (·.pre) =
      sts.take (msDecode m l Fs sts bs len frame_size fec sc).recs.length ∧
    (∀ r ∈ (msDecode m l Fs sts bs len frame_size fec sc).recs,
      r.out = m.run r.pre r.args ∧ r.args.fec = fec ∧ r.args.sc = sc ∧ r.args.sd = decide (r.s ≠ l.nbStreams - 1) ∧
      (len = 0 → r.args.pkt = none) ∧ (len ≠ 0 → 0 < r.len ∧ ∃ b, r.args.pkt = some b)) ∧
    (msDecode m l Fs sts bs len frame_size fec sc).sts =
      (msDecode m l Fs sts bs len frame_size fec sc).recs.map (·.out.st) ++
        sts.drop (msDecode m l Fs sts bs len frame_size fec sc).recs.length ∧
    (∀ r ∈ (msDecode m l Fs sts bs len frame_size fec sc).recs, r.out.ret ≤ 0 →
      (msDecode m l Fs sts bs len frame_size fec sc).ret = r.out.ret ∧
      (msDecode m l Fs sts bs len frame_size fec sc).recs.getLast? = some r) ∧
    (0 < (msDecode m l Fs sts bs len frame_size fec sc).ret →
      (msDecode m l Fs sts bs len frame_size fec sc).recs.length = sts.length ∧
      ∀ r ∈ (msDecode m l Fs sts bs len frame_size fec sc).recs, 0 < r.out.ret) := by
  unfold msDecode
  cases hE : msEarly l Fs bs len frame_size with
  | some e =>
    have := msEarly_neg l Fs bs len frame_size e hE
    simp only [List.map_nil, List.length_nil, List.range'_zero, List.take_zero, List.not_mem_nil, false_imp_iff,
      implies_true, List.drop_zero, List.nil_append, true_and]
    intro h; omega
  | none =>
    obtain ⟨h1, h2, h3, h4, h5, h6⟩ := msLoop_shape m l fec sc (decide (len = 0)) sts 0 bs 0 len (clampFs Fs frame_size)
    refine ⟨h1, h2, ?_, h4, h5, h6⟩
    intro r hr
    obtain ⟨a, b, c, d, e, f⟩ := h3 r hr
    exact ⟨a, b, c, d, fun h => e (by simp [h]), fun h => f (by simp [h])⟩

end Opus.MsDecEq
