import OpusModel.EncSkelRanges
import Mathlib.Tactic.Linarith
/-
  OpusProofs.EncSkelRanges — "no 32-bit overflow" for the budget arithmetic of `opus_encode_native`
  (C05 / C02).  The skeleton computes with unbounded `Int`; the C code computes the same expressions in
  `int` / `opus_int32`.  For each function of the sizing stage this file lists EVERY intermediate value the
  C expression forms (in evaluation order, file:line cited) as a *trace*, shows that the last entry of the
  trace is the model function's value, and proves that all entries lie in [-2^31, 2^31) on the domain the
  API admits (`stOk`: Fs in the five rates, 1-2 channels, user bit-rate AUTO / MAX / 500..750000·channels — the ctl
  really clamps to 300000·channels, which `budget_rate_frame` (EncSkelRanges3) needs as an extra hypothesis;
  legal frame size; `max_data_bytes = IMIN(1276, out_data_bytes) ≥ 1`).  Hence the unbounded reading and
  the C reading coincide there: no wrap, no signed-overflow UB.
-/
namespace Opus.EncSkel.Proofs
open Opus Opus.EncDecide Opus.EncSkel

/-! ### the API domain -/

/-- The (Fs, frame_size) pairs `frame_size_select` lets through, as an explicit finite set. -/
theorem legalFrame_cases (fs fsz : Int)
    (hfs : fs = 8000 ∨ fs = 12000 ∨ fs = 16000 ∨ fs = 24000 ∨ fs = 48000) (hl : legalFrame fs fsz = true) :
    0 < fsz ∧ fsz * 25 ≤ 3 * fs ∧ (fs = 400 * fsz ∨ fs = 200 * fsz ∨ fs = 100 * fsz ∨ fs = 50 * fsz ∨ fs = 25 * fsz ∨
      3 * fs = 50 * fsz ∨ 4 * fs = 50 * fsz ∨ 5 * fs = 50 * fsz ∨ 6 * fs = 50 * fsz) := by
  simp only [legalFrame, decide_eq_true_eq] at hl
  omega

/-- A legal frame size is one of nine quotients of `Fs` (no hypothesis on `Fs`). -/
theorem legalFrame_div (fs fsz : Int) (hl : legalFrame fs fsz = true) :
    fsz = fs / 400 ∨ fsz = fs / 200 ∨ fsz = fs / 100 ∨ fsz = fs / 50 ∨ fsz = fs / 25 ∨ fsz = 3 * fs / 50 ∨
    fsz = 4 * fs / 50 ∨ fsz = 5 * fs / 50 ∨ fsz = 6 * fs / 50 := by
  simp only [legalFrame, decide_eq_true_eq] at hl
  rcases hl with h | h | h | h | h | h | h | h | h
  · left; omega
  · right; left; omega
  · right; right; left; omega
  · right; right; right; left; omega
  · right; right; right; right; left; omega
  · right; right; right; right; right; left; omega
  · right; right; right; right; right; right; left; omega
  · right; right; right; right; right; right; right; left; omega
  · right; right; right; right; right; right; right; right; omega

/-- `Fs / frame_size` and `12·Fs / frame_size` for a legal frame. -/
theorem frameRate_range (fs fsz : Int)
    (hfs : fs = 8000 ∨ fs = 12000 ∨ fs = 16000 ∨ fs = 24000 ∨ fs = 48000) (hl : legalFrame fs fsz = true) :
    8 ≤ fs / fsz ∧ fs / fsz ≤ 400 ∧ 100 ≤ 12 * fs / fsz ∧ 12 * fs / fsz ≤ 4800 ∧ 20 ≤ fsz ∧ fsz ≤ 5760 := by
  obtain ⟨hpos, hle, hc⟩ := legalFrame_cases fs fsz hfs hl
  have h1 : fs / fsz ≤ 400 := by
    apply Int.ediv_le_of_le_mul hpos; omega
  have h2 : 8 ≤ fs / fsz := by
    apply Int.le_ediv_of_mul_le hpos; omega
  have h3 : 12 * fs / fsz ≤ 4800 := by
    apply Int.ediv_le_of_le_mul hpos; omega
  have h4 : 100 ≤ 12 * fs / fsz := by
    apply Int.le_ediv_of_mul_le hpos; omega
  refine ⟨h2, h1, h4, h3, ?_, ?_⟩ <;> omega

/-! ### helpers -/

theorem cdiv_bounds (a b : Int) (hb : 0 < b) :
    (0 ≤ a → 0 ≤ cdiv a b ∧ cdiv a b ≤ a) ∧ (a ≤ 0 → a ≤ cdiv a b ∧ cdiv a b ≤ 0) := by
  unfold cdiv
  constructor
  · intro ha
    exact ⟨Int.tdiv_nonneg ha (Int.le_of_lt hb), Int.tdiv_le_self _ ha⟩
  · intro ha
    obtain ⟨c, rfl⟩ : ∃ c, a = -c := ⟨-a, by omega⟩
    have hc : 0 ≤ c := by omega
    rw [Int.neg_tdiv]
    have h1 := Int.tdiv_nonneg hc (Int.le_of_lt hb)
    have h2 := Int.tdiv_le_self b hc
    omega

theorem cdiv_abs_le (a b A : Int) (hb : 0 < b) (h : -A ≤ a ∧ a ≤ A) : -A ≤ cdiv a b ∧ cdiv a b ≤ A := by
  obtain ⟨h1, h2⟩ := cdiv_bounds a b hb
  rcases Int.le_total 0 a with ha | ha
  · have := h1 ha; omega
  · have := h2 ha; omega

theorem mul_abs_le (x y A B : Int) (hx : -A ≤ x ∧ x ≤ A) (hy : 0 ≤ y ∧ y ≤ B) :
    -(A * B) ≤ x * y ∧ x * y ≤ A * B := by
  obtain ⟨hx1, hx2⟩ := hx
  obtain ⟨hy1, hy2⟩ := hy
  constructor <;> nlinarith

/-- `cdiv` by a positive literal-free divisor on a non-negative dividend is `/`. -/
theorem cdiv_eq_ediv (a b : Int) (ha : 0 ≤ a) : cdiv a b = a / b := by
  unfold cdiv; exact Int.tdiv_eq_ediv_of_nonneg ha

/-! ### `user_bitrate_to_bitrate` -/

/-- opus_encoder.c:686-695 on the API domain: every intermediate fits 32 bits, and the returned bit-rate is
    between 500 and 4 083 200 b/s (`OPUS_BITRATE_MAX` with 1276 bytes per 2.5 ms). -/
theorem ubTrace_fits (s : St) (fsz m : Int) (h : stOk s = true) (hl : legalFrame s.fs fsz = true)
    (hm : 1 ≤ m ∧ m ≤ 1276) :
    (∀ x ∈ ubTrace s fsz m, Fits32 x) ∧
    1 ≤ userBitrateToBitrate s fsz m ∧ userBitrateToBitrate s fsz m ≤ 4083200 := by
  simp only [stOk, decide_eq_true_eq] at h
  obtain ⟨hfs, hch, hub, -⟩ := h
  obtain ⟨hpos, -, hc⟩ := legalFrame_cases s.fs fsz hfs hl
  have hne : fsz ≠ 0 := by omega
  have hub' : userBitrateToBitrate s fsz m =
      if s.userBitrate = OPUS_AUTO then 60 * s.fs / fsz + s.fs * s.channels
      else if s.userBitrate = OPUS_BITRATE_MAX then m * 8 * s.fs / fsz else s.userBitrate := by
    simp [userBitrateToBitrate, hne]
  have hAUTO : (OPUS_AUTO : Int) = -1000 := rfl
  have hMAX : (OPUS_BITRATE_MAX : Int) = -1 := rfl
  -- the five rates × nine durations: `fsz` becomes a literal, everything is linear in `m`
  have key : (Fits32 (60 * s.fs) ∧ Fits32 (60 * s.fs / fsz) ∧ Fits32 (s.fs * s.channels) ∧
      Fits32 (60 * s.fs / fsz + s.fs * s.channels) ∧ Fits32 (m * 8) ∧ Fits32 (m * 8 * s.fs) ∧
      Fits32 (m * 8 * s.fs / fsz)) ∧
      1 ≤ 60 * s.fs / fsz + s.fs * s.channels ∧ 60 * s.fs / fsz + s.fs * s.channels ≤ 4083200 ∧
      1 ≤ m * 8 * s.fs / fsz ∧ m * 8 * s.fs / fsz ≤ 4083200 := by
    unfold Fits32
    rcases legalFrame_div s.fs fsz hl with h | h | h | h | h | h | h | h | h <;>
    rcases hfs with hfs | hfs | hfs | hfs | hfs <;> rw [hfs] at h ⊢ <;>
    simp only [Int.reduceDiv, Int.reduceMul] at h <;> subst h <;>
    rcases hch with hch | hch <;> rw [hch] <;> omega
  obtain ⟨⟨k1, k2, k3, k4, k5, k6, k7⟩, k8, k9, k10, k11⟩ := key
  have hret : 1 ≤ userBitrateToBitrate s fsz m ∧ userBitrateToBitrate s fsz m ≤ 4083200 := by
    rw [hub']; split
    · omega
    · split
      · omega
      · rcases hch with hch | hch <;> omega
  refine ⟨?_, hret⟩
  intro x hx
  simp only [ubTrace, hne, if_false, List.mem_cons, List.mem_nil_iff, or_false] at hx
  rcases hx with rfl | rfl | rfl | rfl | rfl | rfl | rfl | rfl <;> first | assumption | (unfold Fits32; omega)

end Opus.EncSkel.Proofs
