import OpusProofs.RepackMsBytes
import OpusProofs.RepackDecode
import OpusProofs.RepackInPlace
import OpusProofs.LayoutMs
import OpusProofs.DecSkelShift
/-
  C07 helper lemmas, part 20: decoder-facing consequences of multistream unpad: the unpadded packet
  still passes `opus_multistream_packet_validate` (C10's model) with the same duration, and stream by
  stream the decoder skeleton (C01's model) behaves the same on it.
-/
namespace Opus.RepackProofs
open Opus Opus.Framing Opus.FramingSpec Opus.FramingProofs Opus.Repack Opus.Ext Opus.DecSkel

theorem canon_duration (fs : Nat) (p : Packet) :
    Opus.LayoutSpec.duration fs (canonPacket p.toc p.frames) = Opus.LayoutSpec.duration fs p := by
  unfold Opus.LayoutSpec.duration
  have hfr : (canonPacket p.toc p.frames).frames = p.frames := outPacket_frames _ _ _ _ _
  have ht : (canonPacket p.toc p.frames).toc / 4 = p.toc / 4 := outPacket_toc _ _ _ _ _
  rw [hfr, (toc_helpers_congr _ _ ht fs).1]

/-- A packet accepted by `opus_multistream_packet_validate` (C10) is accepted by
    `opus_multistream_packet_unpad`, and the result is accepted again with the same duration. -/
theorem msUnpad_validated (bs : Bytes) (hb : BytesOk bs) (n fs k : Nat) (hn : 1 ≤ n) (hfs : Opus.LayoutSpec.Rate fs)
    (h : Opus.Layout.msPacketValidate bs n fs = .ok k) :
    ∃ out, msUnpad bs n = .ok out ∧ out.length ≤ bs.length ∧ Opus.Layout.msPacketValidate out n fs = .ok k := by
  rcases Opus.Layout.validateLoop_sound fs n true 0 bs k hb h with ⟨h0, _⟩ | ⟨_, ps, hlen, hval, hser, hdur, _⟩
  · omega
  · have hne : ps ≠ [] := by intro h0; rw [h0] at hlen; simp at hlen; omega
    rw [← msSerialize_eq_layout] at hser
    have hun := (msUnpad_bytes bs hb n hn).1 ps hlen hval hser
    refine ⟨_, hun, ?_, ?_⟩
    · obtain ⟨out, X, h1, _, h3⟩ := msUnpadInPlace_eq ps hne hval
      rw [hlen, ← hser, hun] at h1; cases h1
      rw [hser, ← h3]; simp
    · have hval' : ∀ q ∈ ps.map (fun p => canonPacket p.toc p.frames), Valid q := by
        intro q hq
        simp only [List.mem_map] at hq
        obtain ⟨p, hp, rfl⟩ := hq
        exact canonPacket_valid p (hval p hp)
      have hdur' : ∀ q ∈ ps.map (fun p => canonPacket p.toc p.frames), Opus.LayoutSpec.duration fs q = k := by
        intro q hq
        simp only [List.mem_map] at hq
        obtain ⟨p, hp, rfl⟩ := hq
        rw [canon_duration]
        have h1 := hdur p hp
        rw [Opus.Layout.getNbSamples_serialize false p (hval p hp) fs hfs] at h1
        cases h1; rfl
      have := Opus.Layout.validateLoop_complete fs hfs (ps.map fun p => canonPacket p.toc p.frames) true 0 k
        (by simpa using hne) hval' hdur' (fun h => by cases h)
      rw [List.length_map, hlen, ← msSerialize_eq_layout] at this
      exact this

/-- Stream by stream, the decoder skeleton behaves on the unpadded multistream packet as on the original:
    stream `s` of `opus_multistream_decode_native` is handed the remaining bytes `msSerialize (ps.drop s)`
    (resp. the canonical ones); on those `opus_decode_native` gives the same return value and the same run up
    to the shift of the frame offsets, for DSP oracles that behave the same on the same frame bytes. -/
theorem ms_unpad_stream_decode (ps : List Packet) (hv : ∀ p ∈ ps, Valid p) (s : Nat) (hs : s < ps.length) :
    ∃ (p1 p2 : Parsed),
      parseImpl (decide (s ≠ ps.length - 1)) (msSerialize (ps.drop s)) = .ok p1 ∧
      parseImpl (decide (s ≠ ps.length - 1)) (msSerialize ((ps.map fun p => canonPacket p.toc p.frames).drop s)) = .ok p2 ∧
      p1.sizes = p2.sizes ∧
      ∀ (o1 o2 : Oracle), OracleShift o1 o2 ((p2.payloadOffset : Int) - (p1.payloadOffset : Int)) →
      ∀ (pcm : Ptr) (frame_size fec : Int) (sc : Bool) (run : Run),
        (decodeNative o2 (some (msSerialize ((ps.map fun p => canonPacket p.toc p.frames).drop s)))
            (msSerialize ((ps.map fun p => canonPacket p.toc p.frames).drop s)).length pcm frame_size fec
            (decide (s ≠ ps.length - 1)) sc (shiftRun ((p2.payloadOffset : Int) - (p1.payloadOffset : Int)) run)).ret =
          (decodeNative o1 (some (msSerialize (ps.drop s))) (msSerialize (ps.drop s)).length pcm frame_size fec
            (decide (s ≠ ps.length - 1)) sc run).ret ∧
        (decodeNative o2 (some (msSerialize ((ps.map fun p => canonPacket p.toc p.frames).drop s)))
            (msSerialize ((ps.map fun p => canonPacket p.toc p.frames).drop s)).length pcm frame_size fec
            (decide (s ≠ ps.length - 1)) sc (shiftRun ((p2.payloadOffset : Int) - (p1.payloadOffset : Int)) run)).run =
          shiftRun ((p2.payloadOffset : Int) - (p1.payloadOffset : Int))
            (decodeNative o1 (some (msSerialize (ps.drop s))) (msSerialize (ps.drop s)).length pcm frame_size fec
              (decide (s ≠ ps.length - 1)) sc run).run := by
  -- the remaining packets: p :: rest
  obtain ⟨p, rest, hdrop⟩ : ∃ p rest, ps.drop s = p :: rest := by
    cases h : ps.drop s with
    | nil => have := congrArg List.length h; simp at this; omega
    | cons p rest => exact ⟨p, rest, rfl⟩
  have hrl : rest.length = ps.length - s - 1 := by
    have := congrArg List.length hdrop; simp at this; omega
  have hsd : decide (s ≠ ps.length - 1) = decide (rest ≠ []) := by
    by_cases hr : rest = []
    · have : s = ps.length - 1 := by rw [hr] at hrl; simp at hrl; omega
      simp [hr, this]
    · have : s ≠ ps.length - 1 := by
        intro h; apply hr; apply List.length_eq_zero_iff.mp; omega
      simp [hr, this]
  have hpv : Valid p := hv p (List.mem_of_mem_drop (by rw [hdrop]; simp))
  have hdrop' : (ps.map fun p => canonPacket p.toc p.frames).drop s =
      canonPacket p.toc p.frames :: rest.map (fun p => canonPacket p.toc p.frames) := by
    rw [← List.map_drop, hdrop]; rfl
  rw [hdrop, hdrop', msSerialize_cons, msSerialize_cons, hsd]
  have hsd2 : decide (rest.map (fun p => canonPacket p.toc p.frames) ≠ []) = decide (rest ≠ []) := by simp
  rw [hsd2]
  have hr1 : decide (rest ≠ []) = false → msSerialize rest = [] := by
    intro h; have : rest = [] := by simpa using h
    rw [this]; rfl
  have hr2 : decide (rest ≠ []) = false → msSerialize (rest.map fun p => canonPacket p.toc p.frames) = [] := by
    intro h; have : rest = [] := by simpa using h
    rw [this]; rfl
  generalize decide (rest ≠ []) = sd at hr1 hr2 ⊢
  have hcv := canonPacket_valid p hpv
  have hp1 := parse_complete sd p hpv _ hr1
  have hp2 := parse_complete sd _ hcv _ hr2
  have hfr : (canonPacket p.toc p.frames).frames = p.frames := outPacket_frames _ _ _ _ _
  have ht : (canonPacket p.toc p.frames).toc / 4 = p.toc / 4 := outPacket_toc _ _ _ _ _
  refine ⟨_, _, hp1, hp2, by simp only [view, Packet.lens, hfr], ?_⟩
  intro o1 o2 hos pcm frame_size fec sc run
  obtain ⟨t1, ht1⟩ := serialize_cons sd p (msSerialize rest)
  obtain ⟨t2, ht2⟩ := serialize_cons sd (canonPacket p.toc p.frames) (msSerialize (rest.map fun p => canonPacket p.toc p.frames))
  exact decodeNative_shift _ _ sd sd _ _ hp1 hp2 (by simp only [view, Packet.lens, hfr])
    (by simp only [view, hfr]) (by rw [ht1, ht2]; simp only [List.headD_cons]; exact ht.symm) hos pcm frame_size fec sc run

end Opus.RepackProofs
