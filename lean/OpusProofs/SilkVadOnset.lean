import OpusProofs.SilkVadSilence
/-
  OpusProofs.SilkVadOnset — digital silence at the VAD input becomes inactive after at most 7 frames,
  from any state satisfying the invariant with bounded filter memories, for every frame length of at
  least 80 samples (all SILK configurations: 8/12/16 kHz x 10/20 ms), and stays inactive.
-/
namespace Opus.SilkVad
open Opus Opus.SilkParams

/-- The invariant together with bounds on the three filter memories. -/
structure Lvl (st : VadState) (a0 a1 a2 : Nat) : Prop where
  inv : VadInv st
  b0 : AbsLe st.ana0 a0
  b1 : AbsLe st.ana1 a1
  b2 : AbsLe st.ana2 a2

/-- One call of `silk_VAD_GetSA_Q8_c` on an all-zero frame of `8·j` samples. -/
def stepZ (st : VadState) (fs j : Nat) : VadOut :=
  decision (getNoiseLevels (bands st (8 * j) (zeros (8 * j))).2 (bands st (8 * j) (zeros (8 * j))).1)
    (bands st (8 * j) (zeros (8 * j))).2 fs (8 * j)

theorem getSA_zero (st : VadState) (fs j : Nat) (hj : j ≤ 64) :
    getSA st fs (8 * j) (zeros (8 * j)) = .ok (stepZ st fs j) := by
  unfold getSA
  rw [if_neg (by omega), if_neg (by simp)]
  rfl

theorem take_zeros (n : Nat) : (zeros n).take n = zeros n := by simp [zeros]

theorem absLe_mono (s : Int × Int) (a b : Nat) (h : AbsLe s a) (hab : a ≤ b) : AbsLe s b := by
  unfold AbsLe at *; omega

set_option maxRecDepth 4000 in
/-- What an all-zero frame does to the filter memories, `HPstate`, `XnrgSubfr` and the activity. -/
theorem zero_frame (st : VadState) (fs j : Nat) (hj : 10 ≤ j ∧ j ≤ 64) (a0 a1 a2 : Nat)
    (h0 : a0 ≤ stBn) (h1 : a1 ≤ stBn) (h2 : a2 ≤ stBn) (h : Lvl st a0 a1 a2) :
    Lvl (stepZ st fs j).st (decN (4 * j) a0) (if a0 ≤ 800 then decN (2 * j) a1 else stBn)
      (if a0 ≤ 800 ∧ a1 ≤ 800 then decN j a2 else stBn) ∧
    (a0 ≤ 800 ∧ a1 ≤ 800 ∧ a2 ≤ 800 →
      (stepZ st fs j).st.hp = 0 ∧ (stepZ st fs j).st.xnrgSubfr = ⟨0, 0, 0, 0⟩ ∧
      (st.hp = 0 ∧ st.xnrgSubfr = ⟨0, 0, 0, 0⟩ → (stepZ st fs j).speechActivityQ8 = 2)) := by
  have hB : ∀ a : Nat, a ≤ stBn → (a : Int) ≤ stB := fun a ha => by unfold stB; unfold stBn at ha; omega
  -- the invariant after the call
  have hok := getSA_ok st h.inv fs (8 * j) ⟨by omega, by omega⟩ (zeros (8 * j)) (by simp)
  rw [getSA_zero st fs j hj.2] at hok
  obtain ⟨o, ho, hinv', _, _⟩ := hok
  cases ho
  -- stage 1
  have e8 : 8 * j = 2 * (4 * j) := by omega
  have e4 : 8 * j / 2 = 4 * j := by omega
  have e2 : 8 * j / 4 = 2 * j := by omega
  have e1 : 8 * j / 8 = j := by omega
  have f0 := anaFilt_zero (4 * j) st.ana0 a0 (hB a0 h0) h.b0
  have hA0 : AbsLe (stepZ st fs j).st.ana0 (decN (4 * j) a0 : Nat) := by
    show AbsLe (bands st (8 * j) (zeros (8 * j))).1.ana0 _
    rw [bands_ana0, take_zeros, e8]; exact f0.1
  -- stage 2
  have hA1 : AbsLe (stepZ st fs j).st.ana1 ((if a0 ≤ 800 then decN (2 * j) a1 else stBn : Nat)) := by
    show AbsLe (bands st (8 * j) (zeros (8 * j))).1.ana1 _
    rw [bands_ana1, take_zeros, e4]
    by_cases c0 : a0 ≤ 800
    · rw [if_pos c0, e8, f0.2 c0]
      simp only
      rw [take_zeros, show 4 * j = 2 * (2 * j) by omega]
      exact (anaFilt_zero (2 * j) st.ana1 a1 (hB a1 h1) h.b1).1
    · rw [if_neg c0, stBn_cast]
      exact anaFilt_bnd _ _ (absLe_mono _ _ _ h.b1 h1 |> fun x => by rw [stBn_cast] at x; exact x)
        (fun x hx => (anaFilt_i16 _ _).1 x (List.mem_of_mem_take hx))
  -- stage 3
  have hA2 : AbsLe (stepZ st fs j).st.ana2 ((if a0 ≤ 800 ∧ a1 ≤ 800 then decN j a2 else stBn : Nat)) := by
    show AbsLe (bands st (8 * j) (zeros (8 * j))).1.ana2 _
    rw [bands_ana2, take_zeros, e4, e2]
    by_cases c : a0 ≤ 800 ∧ a1 ≤ 800
    · rw [if_pos c, e8, f0.2 c.1]
      simp only
      rw [take_zeros, show 4 * j = 2 * (2 * j) by omega, (anaFilt_zero (2 * j) st.ana1 a1 (hB a1 h1) h.b1).2 c.2]
      simp only
      rw [take_zeros, show 2 * j = 2 * j by rfl]
      exact (anaFilt_zero j st.ana2 a2 (hB a2 h2) h.b2).1
    · rw [if_neg c, stBn_cast]
      exact anaFilt_bnd _ _ (absLe_mono _ _ _ h.b2 h2 |> fun x => by rw [stBn_cast] at x; exact x)
        (fun x hx => (anaFilt_i16 _ _).1 x (List.mem_of_mem_take hx))
  refine ⟨⟨hinv', hA0, hA1, hA2⟩, ?_⟩
  -- all three stages quiet: every band signal is zero (band 0 up to its first sample)
  rintro ⟨c0, c1, c2⟩
  have g0 := f0.2 c0
  have g1 := (anaFilt_zero (2 * j) st.ana1 a1 (hB a1 h1) h.b1).2 c1
  have g2 := (anaFilt_zero j st.ana2 a2 (hB a2 h2) h.b2).2 c2
  have hx := h.inv.xnrgSubfr
  unfold Q4.all at hx
  obtain ⟨m, hm⟩ : ∃ m, j = m + 1 := ⟨j - 1, by omega⟩
  -- the result of `bands` on this frame
  have hb : bands st (8 * j) (zeros (8 * j)) =
      ({ st with ana0 := (anaFilt st.ana0 (zeros (8 * j))).1, ana1 := (anaFilt st.ana1 (zeros (4 * j))).1,
                 ana2 := (anaFilt st.ana2 (zeros (2 * j))).1, hp := 0,
                 xnrgSubfr := ⟨0, 0, 0, 0⟩ },
       ⟨(bandEnergy st.xnrgSubfr.b0 (hpDiff st.hp (zeros j)) j).1, st.xnrgSubfr.b1, st.xnrgSubfr.b2, st.xnrgSubfr.b3⟩) := by
    unfold bands
    simp only [take_zeros, e4, e2, e1]
    rw [e8, g0]
    simp only [take_zeros]
    rw [show 4 * j = 2 * (2 * j) by omega, g1]
    simp only [take_zeros]
    rw [g2]
    simp only [take_zeros]
    rw [bandEnergy_zeros _ _ _ hx.2.1, bandEnergy_zeros _ _ _ hx.2.2.1, bandEnergy_zeros _ _ _ hx.2.2.2]
    have hl : hpLast st.hp (zeros j) = 0 := by rw [hm]; exact hpLast_zeros _ _
    have he : (bandEnergy st.xnrgSubfr.b0 (hpDiff st.hp (zeros j)) j).2 = 0 := by
      rw [hm, hpDiff_zeros_hp, ← hm]; exact bandEnergy_head _ _ _ _ (by omega)
    rw [hl, he]
  refine ⟨?_, ?_, ?_⟩
  · show (bands st (8 * j) (zeros (8 * j))).1.hp = 0
    rw [hb]
  · show (bands st (8 * j) (zeros (8 * j))).1.xnrgSubfr = ⟨0, 0, 0, 0⟩
    rw [hb]
  · rintro ⟨hhp, hxs⟩
    have hxn : (bands st (8 * j) (zeros (8 * j))).2 = ⟨0, 0, 0, 0⟩ := by
      rw [hb]
      simp only [hhp, hxs, hpDiff_zeros]
      rw [bandEnergy_zeros 0 j j (by unfold NonNeg32; omega)]
    unfold stepZ
    rw [hxn]
    apply decision_zero
    have hbi := bands_inv st h.inv (8 * j) (by omega) (zeros (8 * j))
    have := getNoiseLevels_inv (bands st (8 * j) (zeros (8 * j))).2 (bands st (8 * j) (zeros (8 * j))).1 hbi.1 hbi.2.1
    rw [hxn] at this
    exact this.2.1

/-! ### the chain of at most seven frames -/

theorem lvl_mono (st : VadState) (a0 a1 a2 b0 b1 b2 : Nat) (h : Lvl st a0 a1 a2) (h0 : a0 ≤ b0) (h1 : a1 ≤ b1) (h2 : a2 ≤ b2) :
    Lvl st b0 b1 b2 :=
  ⟨h.inv, absLe_mono _ _ _ h.b0 h0, absLe_mono _ _ _ h.b1 h1, absLe_mono _ _ _ h.b2 h2⟩

theorem dec_facts : decN 40 stBn ≤ 800 ∧ decN 20 stBn ≤ 15000 ∧ decN 20 15000 ≤ 800 ∧ decN 10 stBn ≤ 1500000 ∧
    decN 10 1500000 ≤ 15000 ∧ decN 10 15000 ≤ 800 := by decide +kernel

/-- `n ≥ m` contractions from `x` end below `c` when `m` contractions do (`c ≥ 3`). -/
theorem decN_le_of (m n x c : Nat) (hmn : m ≤ n) (hc : 3 ≤ c) (h : decN m x ≤ c) : decN n x ≤ c := by
  have := decN_ge m n x hmn; omega

theorem decN_small (n a : Nat) (h : a ≤ 800) : decN n a ≤ 800 := by
  have := decN_le_max n a; omega

/-- State after `n` all-zero frames, and the speech activity (Q8) reported for zero frame number `n`. -/
def stZ (st : VadState) (fs j : Nat) : Nat → VadState
  | 0 => st
  | n + 1 => stZ (stepZ st fs j).st fs j n

def saZ (st : VadState) (fs j n : Nat) : Int := (stepZ (stZ st fs j n) fs j).speechActivityQ8

theorem stZ_succ (st : VadState) (fs j n : Nat) : stZ st fs j (n + 1) = (stepZ (stZ st fs j n) fs j).st := by
  induction n generalizing st with
  | zero => rfl
  | succ n ih => simp only [stZ]; rw [← ih]; rfl

/-- Quiet state: all three filter memories small, no carry-over. -/
def Quiet (st : VadState) : Prop := Lvl st 800 800 800 ∧ st.hp = 0 ∧ st.xnrgSubfr = ⟨0, 0, 0, 0⟩

theorem step_from (st : VadState) (fs j : Nat) (hj : 10 ≤ j ∧ j ≤ 64) (a0 a1 a2 b0 b1 b2 : Nat)
    (h0 : a0 ≤ stBn) (h1 : a1 ≤ stBn) (h2 : a2 ≤ stBn) (h : Lvl st a0 a1 a2)
    (e0 : decN (4 * j) a0 ≤ b0) (e1 : (if a0 ≤ 800 then decN (2 * j) a1 else stBn) ≤ b1)
    (e2 : (if a0 ≤ 800 ∧ a1 ≤ 800 then decN j a2 else stBn) ≤ b2) : Lvl (stepZ st fs j).st b0 b1 b2 :=
  lvl_mono _ _ _ _ _ _ _ (zero_frame st fs j hj a0 a1 a2 h0 h1 h2 h).1 e0 e1 e2

theorem quiet_step (st : VadState) (fs j : Nat) (hj : 10 ≤ j ∧ j ≤ 64) (h : Quiet st) :
    Quiet (stepZ st fs j).st ∧ (stepZ st fs j).speechActivityQ8 = 2 := by
  have hs : (800 : Nat) ≤ stBn := by decide
  have z := zero_frame st fs j hj 800 800 800 hs hs hs h.1
  have q := z.2 ⟨by omega, by omega, by omega⟩
  refine ⟨⟨lvl_mono _ _ _ _ _ _ _ z.1 (decN_small _ _ (by omega)) ?_ ?_, q.1, q.2.1⟩, q.2.2 ⟨h.2.1, h.2.2⟩⟩
  · rw [if_pos (by omega)]; exact decN_small _ _ (by omega)
  · rw [if_pos ⟨by omega, by omega⟩]; exact decN_small _ _ (by omega)

/-- Seven all-zero frames take any state with bounded filter memories to a quiet state. -/
theorem seven_frames (st : VadState) (fs j : Nat) (hj : 10 ≤ j ∧ j ≤ 64) (h : Lvl st stBn stBn stBn) :
    Quiet (stZ st fs j 7) := by
  obtain ⟨d40, d20a, d20b, d10a, d10b, d10c⟩ := dec_facts
  have hB : stBn ≤ stBn := Nat.le_refl _
  have h8 : (800 : Nat) ≤ stBn := by decide
  have h15 : (15000 : Nat) ≤ stBn := by decide
  have h15k : (1500000 : Nat) ≤ stBn := by decide
  have nB : ¬ stBn ≤ 800 := by decide
  have n15 : ¬ (15000 : Nat) ≤ 800 := by decide
  -- frame 1: stage 1 settles
  have s1 : Lvl (stZ st fs j 1) 800 stBn stBn := by
    rw [stZ_succ]
    refine step_from _ fs j hj _ _ _ _ _ _ hB hB hB h (decN_le_of 40 _ _ _ (by omega) (by omega) d40) ?_ ?_
    · rw [if_neg nB]; exact hB
    · rw [if_neg (by intro c; exact nB c.1)]; exact hB
  -- frames 2, 3: stage 2 settles
  have s2 : Lvl (stZ st fs j 2) 800 15000 stBn := by
    rw [stZ_succ]
    refine step_from _ fs j hj _ _ _ _ _ _ h8 hB hB s1 (decN_small _ _ (by omega)) ?_ ?_
    · rw [if_pos (by omega)]; exact decN_le_of 20 _ _ _ (by omega) (by omega) d20a
    · rw [if_neg (by intro c; exact nB c.2)]; exact hB
  have s3 : Lvl (stZ st fs j 3) 800 800 stBn := by
    rw [stZ_succ]
    refine step_from _ fs j hj _ _ _ _ _ _ h8 h15 hB s2 (decN_small _ _ (by omega)) ?_ ?_
    · rw [if_pos (by omega)]; exact decN_le_of 20 _ _ _ (by omega) (by omega) d20b
    · rw [if_neg (by intro c; exact n15 c.2)]; exact hB
  -- frames 4, 5, 6: stage 3 settles
  have s4 : Lvl (stZ st fs j 4) 800 800 1500000 := by
    rw [stZ_succ]
    refine step_from _ fs j hj _ _ _ _ _ _ h8 h8 hB s3 (decN_small _ _ (by omega)) ?_ ?_
    · rw [if_pos (by omega)]; exact decN_small _ _ (by omega)
    · rw [if_pos ⟨by omega, by omega⟩]; exact decN_le_of 10 _ _ _ (by omega) (by omega) d10a
  have s5 : Lvl (stZ st fs j 5) 800 800 15000 := by
    rw [stZ_succ]
    refine step_from _ fs j hj _ _ _ _ _ _ h8 h8 h15k s4 (decN_small _ _ (by omega)) ?_ ?_
    · rw [if_pos (by omega)]; exact decN_small _ _ (by omega)
    · rw [if_pos ⟨by omega, by omega⟩]; exact decN_le_of 10 _ _ _ (by omega) (by omega) d10b
  have s6 : Lvl (stZ st fs j 6) 800 800 800 := by
    rw [stZ_succ]
    refine step_from _ fs j hj _ _ _ _ _ _ h8 h8 h15 s5 (decN_small _ _ (by omega)) ?_ ?_
    · rw [if_pos (by omega)]; exact decN_small _ _ (by omega)
    · rw [if_pos ⟨by omega, by omega⟩]; exact decN_le_of 10 _ _ _ (by omega) (by omega) d10c
  -- frame 7: no signal left in any band; the carry-over is flushed
  rw [stZ_succ]
  have z := zero_frame (stZ st fs j 6) fs j hj 800 800 800 h8 h8 h8 s6
  have q := z.2 ⟨by omega, by omega, by omega⟩
  refine ⟨lvl_mono _ _ _ _ _ _ _ z.1 (decN_small _ _ (by omega)) ?_ ?_, q.1, q.2.1⟩
  · rw [if_pos (by omega)]; exact decN_small _ _ (by omega)
  · rw [if_pos ⟨by omega, by omega⟩]; exact decN_small _ _ (by omega)

theorem quiet_forever (st : VadState) (fs j : Nat) (hj : 10 ≤ j ∧ j ≤ 64) (h : Quiet st) (n : Nat) :
    Quiet (stZ st fs j n) ∧ saZ st fs j n = 2 := by
  induction n generalizing st with
  | zero => exact ⟨h, (quiet_step st fs j hj h).2⟩
  | succ n ih =>
    have := ih (stepZ st fs j).st (quiet_step st fs j hj h).1
    exact ⟨this.1, this.2⟩

theorem stZ_add (st : VadState) (fs j m n : Nat) : stZ st fs j (m + n) = stZ (stZ st fs j m) fs j n := by
  induction m generalizing st with
  | zero => simp [stZ]
  | succ m ih => rw [Nat.succ_add]; simp only [stZ]; exact ih _

/-- **Digital silence is inactive after at most seven frames**, and stays inactive: from any state
    satisfying the invariant with filter memories inside their bound, zero frame number `n ≥ 7` (0-based)
    reports `speech_activity_Q8 = 2`. -/
theorem silence_inactive (st : VadState) (fs j : Nat) (hj : 10 ≤ j ∧ j ≤ 64) (h : Lvl st stBn stBn stBn) (n : Nat)
    (hn : 7 ≤ n) : saZ st fs j n = 2 := by
  obtain ⟨m, rfl⟩ : ∃ m, n = 7 + m := ⟨n - 7, by omega⟩
  have q := seven_frames st fs j hj h
  have := (quiet_forever (stZ st fs j 7) fs j hj q m).2
  unfold saZ at *
  rw [stZ_add]; exact this

end Opus.SilkVad
