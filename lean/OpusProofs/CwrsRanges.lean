import OpusProofs.CwrsB2p
import OpusProofs.LaplaceDomain
/-
  OpusProofs.CwrsRanges — (1) `bits2pulses` on the regenerated cache rows; (2) `cache.caps` recomputed; (3) 32-bit
  range facts: the accumulator of `icwrs` and the running index of `cwrsi` never exceed `V(N,K)`, no subtraction of
  `cwrsi` underflows; the `unsigned` intermediates of `ec_laplace_*` stay far below 2^32.
-/
namespace OpusProofs.CwrsRanges
open Opus Opus.Cwrs Opus.Rate OpusProofs.CwrsU OpusProofs.CwrsBij OpusProofs.CwrsModel OpusProofs.CwrsCache OpusProofs.CwrsB2p
open Opus.Gen.CeltTables

/-! ## bits2pulses / pulses2bits on the shipped cache -/

/-- the cache row at `ci` as `bits2pulses` indexes it -/
def rowAt (ci : Nat) : Nat → Nat := fun j => cacheBits.getD (ci + j) 0

theorem rowAt_mono {lm1 band ci : Nat} (hl : lm1 ≤ maxLM + 1) (hb : band < nbEBands)
    (hci : cacheIndex[lm1 * nbEBands + band]? = some (Int.ofNat ci)) :
    ∀ d q, 1 ≤ q → q + d ≤ rowAt ci 0 → rowAt ci q ≤ rowAt ci (q + d) := by
  intro d
  induction d with
  | zero => intro q _ _; exact Nat.le_refl _
  | succ d ih =>
    intro q h1 h2
    have hstep := (rows_monotone hl hb hci (q := q + d) (by omega) (by simp only [rowAt, Nat.add_zero] at h2; omega)).2
      (by simp only [rowAt, Nat.add_zero] at h2; omega)
    have := ih q h1 (by omega)
    simp only [rowAt] at *
    rw [show ci + (q + (d + 1)) = ci + (q + d) + 1 by omega]
    omega

/-- `bits2pulses(m, band, LM, bits)` for every band and frame size of the static mode. -/
theorem b2p_cache {lm1 band ci : Nat} (hl : lm1 ≤ maxLM + 1) (hb : band < nbEBands)
    (hci : cacheIndex[lm1 * nbEBands + band]? = some (Int.ofNat ci)) (bits : Int) :
    let K := cacheBits.getD ci 0
    bits2pulsesRow (rowAt ci) bits ≤ K ∧
    ((∀ p, 1 ≤ p → p ≤ K → (rowAt ci p : Int) < bits - 1) → bits2pulsesRow (rowAt ci) bits = K) ∧
    (∀ h, 1 ≤ h → h ≤ K → bits - 1 ≤ (rowAt ci h : Int) → (∀ p, 1 ≤ p → p < h → (rowAt ci p : Int) < bits - 1) →
      bits2pulsesRow (rowAt ci) bits =
        if (bits - 1) - (if h = 1 then -1 else (rowAt ci (h - 1) : Int)) ≤ (rowAt ci h : Int) - (bits - 1)
        then h - 1 else h) := by
  obtain ⟨hp, _, _⟩ := pos_of_band hl hb
  have hK : cacheBits.getD ci 0 ≤ MAX_PSEUDO := (pos_facts2 (q := 0) hp hci).1
  have hM : MAX_PSEUDO = 40 := by decide
  have h0 : rowAt ci 0 = cacheBits.getD ci 0 := by simp [rowAt]
  exact bits2pulsesRow_spec (rowAt ci) (cacheBits.getD ci 0) h0 (by omega)
    (fun q q' h1 h2 h3 => by
      have := rowAt_mono hl hb hci (q' - q) q h1 (by rw [h0]; omega)
      rwa [show q + (q' - q) = q' by omega] at this) bits

/-- `pulses2bits` reads the cache word and adds one; it is strictly increasing in the pseudo-pulse index for every
    band of size ≥ 3, and non-decreasing (strictly from 0 to 1) for sizes 1 and 2. -/
theorem p2b_cache {lm1 band ci : Nat} (hl : lm1 ≤ maxLM + 1) (hb : band < nbEBands)
    (hci : cacheIndex[lm1 * nbEBands + band]? = some (Int.ofNat ci)) :
    pulses2bits cacheIndex cacheBits nbEBands band lm1 0 = .ok 0 ∧
    (∀ q, 1 ≤ q → q ≤ cacheBits.getD ci 0 →
      pulses2bits cacheIndex cacheBits nbEBands band lm1 q = .ok (cacheBits.getD (ci + q) 0 + 1)) ∧
    (∀ q, 1 ≤ q → q < cacheBits.getD ci 0 → cacheBits.getD (ci + q) 0 ≤ cacheBits.getD (ci + q + 1) 0) ∧
    (3 ≤ bandN eBands lm1 band → ∀ q, 1 ≤ q → q < cacheBits.getD ci 0 →
      cacheBits.getD (ci + q) 0 < cacheBits.getD (ci + q + 1) 0) := by
  obtain ⟨hp, hdiv, hmod⟩ := pos_of_band hl hb
  refine ⟨by simp [pulses2bits, hci], ?_, ?_, ?_⟩
  · intro q h1 h2
    have hlen := (rows_monotone hl hb hci h1 h2).1
    have : cacheBits[ci + q]? = some (cacheBits.getD (ci + q) 0) := by
      rw [List.getD, List.getElem?_eq_getElem hlen]; rfl
    have e1 : ¬ (Int.ofNat ci < 0) := Int.not_lt.mpr (Int.natCast_nonneg ci)
    have e2 : (Int.ofNat ci).toNat = ci := rfl
    simp only [pulses2bits, hci]
    rw [if_neg (show ¬ q = 0 by omega), if_neg e1, e2, this]
  · intro q h1 h2
    exact (rows_monotone hl hb hci h1 (by omega)).2 h2
  · intro hN q h1 h2
    have := (pos_facts2 (q := q) hp hci).2
    rw [hdiv, hmod] at this
    exact this hN h1 h2

/-! ## cache.caps -/

theorem caps_eq : computeCaps cacheIndex cacheBits eBands logN nbEBands maxLM = cacheCaps.map Int.ofNat := by
  decide +kernel

/-! ## 32-bit ranges in cwrs.c -/

theorem V_mono_n (n k : Nat) : V n k ≤ V (n + 1) k := by
  cases k with
  | zero =>
    rw [V_zero]
    cases n with
    | zero => decide
    | succ n => rw [V_zero]; exact Nat.le_refl _
  | succ k => rw [V_rec]; omega

theorem V_mono_k (n k : Nat) : V (n + 1) k ≤ V (n + 1) (k + 1) := by
  unfold V
  have := U_mono_step n k
  have := U_mono_step n (k + 1)
  omega

theorem V_le {n n' k k' : Nat} (h1 : 1 ≤ n) (hn : n ≤ n') (hk : k ≤ k') : V n k ≤ V n' k' := by
  have a : V n k ≤ V n k' := by
    induction hk with
    | refl => exact Nat.le_refl _
    | step _ ih =>
      obtain ⟨m, rfl⟩ : ∃ m, n = m + 1 := ⟨n - 1, by omega⟩
      exact Nat.le_trans ih (V_mono_k m _)
  have b : V n k' ≤ V n' k' := by
    induction hn with
    | refl => exact Nat.le_refl _
    | step _ ih => exact Nat.le_trans ih (V_mono_n _ _)
  exact Nat.le_trans a b

theorem sumAbs_drop_le : ∀ (y : List Int) (j : Nat), sumAbs (y.drop j) ≤ sumAbs y := by
  intro y
  induction y with
  | nil => intro j; simp [sumAbs]
  | cons a t ih =>
    intro j
    cases j with
    | zero => exact Nat.le_refl _
    | succ j => simp only [List.drop_succ_cons, sumAbs]; have := ih j; omega

/-- The accumulator `i` of `icwrs` after the loop has processed the coordinates `j, …, n-1` is `encS (y.drop j)`
    (`icwrsAux_agree`); it is below `V(n, K)`. -/
theorem icwrs_partial_lt (y : List Int) (j : Nat) (hj : j < y.length) :
    encS (y.drop j) < V y.length (sumAbs y) := by
  have h := (encS_spec (y.drop j)).1
  have hl : (y.drop j).length = y.length - j := by simp
  rw [hl] at h
  exact Nat.lt_of_lt_of_le h (V_le (by omega) (by omega) (sumAbs_drop_le y j))

/-- One step of `cwrsi` (`cwrsiStep_agree`: the C loop body computes `stepS`): the pulse count does not grow, both
    subtractions `_i -= p&s`, `_i -= p` are of values ≤ `_i` (no unsigned wrap), and the new index is below
    `V(n-1, k') ≤ V(n, k)`. -/
theorem cwrsi_step_range (m k i : Nat) (hm : 1 ≤ m) (hi : i < V (m + 1) k) :
    (stepS (m + 1) k i).2.1 ≤ k ∧
    (stepS (m + 1) k i).2.2 < V m (stepS (m + 1) k i).2.1 ∧
    V m (stepS (m + 1) k i).2.1 ≤ V (m + 1) k ∧
    U (m + 1) (stepS (m + 1) k i).2.1 ≤ (if U (m + 1) (k + 1) ≤ i then i - U (m + 1) (k + 1) else i) := by
  obtain ⟨h1, h2, h3, _, _⟩ := step_bounds m k i hi _ _ _ rfl rfl rfl
  exact ⟨h1, h3, V_le hm (by omega) h1, h2⟩


/-! ## `opus_int16 val` and the float accumulator `yy` -/

theorem getPulses_le : ∀ q, q < 41 → getPulses q ≤ 128 := by decide

/-- every reachable pulse count is at most CELT_MAX_PULSES = 128 -/
theorem reach_K_le {N K b : Nat} (h : Reach N K b) : K ≤ 128 := by
  obtain ⟨lm1, band, ci, q, hl, hb, hci, _, hq, _, rfl, _⟩ := h
  obtain ⟨hp, _, _⟩ := pos_of_band hl hb
  have hK : cacheBits.getD ci 0 ≤ MAX_PSEUDO := (pos_facts2 (q := 0) hp hci).1
  have hM : MAX_PSEUDO = 40 := by decide
  exact getPulses_le q (by omega)

theorem coord_le : ∀ (y : List Int), ∀ v ∈ y, v.natAbs ≤ sumAbs y := by
  intro y
  induction y with
  | nil => intro v hv; simp at hv
  | cons a t ih =>
    intro v hv
    simp only [List.mem_cons] at hv
    simp only [sumAbs]
    rcases hv with rfl | hv
    · omega
    · have := ih v hv; omega

theorem sumSq_le : ∀ (y : List Int), sumSq y ≤ sumAbs y * sumAbs y := by
  intro y
  induction y with
  | nil => simp [sumSq, sumAbs]
  | cons a t ih =>
    simp only [sumSq, sumAbs]
    have e : (a.natAbs + sumAbs t) * (a.natAbs + sumAbs t) =
        a.natAbs * a.natAbs + a.natAbs * sumAbs t + (sumAbs t * a.natAbs + sumAbs t * sumAbs t) := by
      rw [Nat.add_mul, Nat.mul_add, Nat.mul_add]
    omega

/-! ## ranges in laplace.c -/

open OpusProofs.Laplace in
/-- Every value the two search loops of laplace.c can hold (`encLoop_eq`, `decLoop_eq`: they only visit indices
    `j ≤ T`): `fl = L j ≤ 32766`, `fs = F j ≤ 16383`, and the product `fs*2*decay` is below 2^32. -/
theorem laplace_ranges {fs decay T : Nat} (hp : Par fs decay T) (hd : decay < 65536) (j : Nat) (hj : j ≤ T) :
    L fs decay j ≤ 32766 ∧ F fs decay j ≤ 16383 ∧ F fs decay j * 2 * decay < 4294967296 := by
  have h1 : L fs decay j ≤ 32766 := Nat.le_trans (L_mono fs decay hj) hp.room
  have h2 : F fs decay j ≤ 16383 := by
    by_cases e : j = T
    · subst e; rw [hp.zero]; omega
    · have := L_succ_le fs decay (show j < T by omega)
      have := hp.room
      omega
  refine ⟨h1, h2, ?_⟩
  have : F fs decay j * 2 * decay ≤ 32766 * 65535 := Nat.mul_le_mul (by omega) (by omega)
  omega

end OpusProofs.CwrsRanges
