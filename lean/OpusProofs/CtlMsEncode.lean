import OpusProofs.CtlMs
/-
  OpusProofs.CtlMsEncode — `MsInv` is preserved by `opus_multistream_encode*`: the per-stream
  settings the multistream layer writes go through `opus_encoder_ctl`, so they stay legal; the
  streams keep one application and their channel counts (helper lemmas of property C11).
-/
namespace Opus.Ctl
open Opus Opus.EncDecide

/-- A single-stream request keeps the application unless it is OPUS_SET_APPLICATION, and keeps `first`
    unless it is OPUS_RESET_STATE. -/
theorem encCtl_set_app_first (e : EncSt) (k : EncSetK) (v : Int) (hk : k ≠ .application) :
    (encCtl e (.set k v)).1.application = e.application ∧ (encCtl e (.set k v)).1.first = e.first := by
  simp only [encCtl]
  cases hs : encSet e k v with
  | none => exact ⟨rfl, rfl⟩
  | some s' =>
    have := encSet_first_app hs
    rw [if_neg hk] at this
    exact ⟨this.2, this.1⟩

/-- What one stream goes through before its encode call keeps `EncInv`, the application, the
    channel count and `first`. -/
theorem msPrep_keeps (s : MsEncSt) (i : Nat) (e : EncSt) (rate bw : Int) (hi : EncInv e) :
    EncInv (msPrep s i e rate bw) ∧ (msPrep s i e rate bw).application = e.application ∧
    (msPrep s i e rate bw).channels = e.channels ∧ (msPrep s i e rate bw).first = e.first := by
  have step : ∀ (e' : EncSt) (k : EncSetK) (v : Int), k ≠ .application →
      (EncInv e' ∧ e'.application = e.application ∧ e'.channels = e.channels ∧ e'.first = e.first) →
      (EncInv (encCtl e' (.set k v)).1 ∧ (encCtl e' (.set k v)).1.application = e.application ∧
       (encCtl e' (.set k v)).1.channels = e.channels ∧ (encCtl e' (.set k v)).1.first = e.first) := by
    intro e' k v hk ⟨h1, h2, h3, h4⟩
    have := encCtl_set_app_first e' k v hk
    exact ⟨encCtl_inv h1 _, by rw [this.1, h2], by rw [encCtl_channels, h3], by rw [this.2, h4]⟩
  have h0 := step e .bitrate rate (by decide) ⟨hi, rfl, rfl, rfl⟩
  unfold msPrep
  simp only []
  split
  · have h1 := step _ .bandwidth bw (by decide) h0
    split
    · exact step _ .forceChannels 2 (by decide) (step _ .forceMode MODE_CELT_ONLY (by decide) h1)
    · exact h1
  · split
    · exact step _ .forceMode MODE_CELT_ONLY (by decide) h0
    · exact h0

theorem msPre2_keeps (s : MsEncSt) (i : Nat) (e : EncSt) (lastRate : Option Int) (hi : EncInv e) :
    EncInv (msPre2 s i e lastRate) ∧ (msPre2 s i e lastRate).application = e.application ∧
    (msPre2 s i e lastRate).channels = e.channels ∧ (msPre2 s i e lastRate).first = e.first := by
  have hm : EncInv (if s.surround then (encCtl e (.setEnergyMask true)).1 else e) ∧
      (if s.surround then (encCtl e (.setEnergyMask true)).1 else e).application = e.application ∧
      (if s.surround then (encCtl e (.setEnergyMask true)).1 else e).channels = e.channels ∧
      (if s.surround then (encCtl e (.setEnergyMask true)).1 else e).first = e.first := by
    split
    · exact ⟨encCtl_inv hi _, rfl, rfl, rfl⟩
    · exact ⟨hi, rfl, rfl, rfl⟩
  unfold msPre2
  simp only []
  generalize (if s.surround then (encCtl e (.setEnergyMask true)).1 else e) = e1 at *
  obtain ⟨h1, h2, h3, h4⟩ := hm
  cases lastRate with
  | none => exact ⟨h1, h2, h3, h4⟩
  | some r =>
    simp only []
    split
    · have := encCtl_set_app_first e1 .bitrate r (by decide)
      exact ⟨encCtl_inv h1 _, by rw [this.1, h2], by rw [encCtl_channels, h3], by rw [this.2, h4]⟩
    · exact ⟨h1, h2, h3, h4⟩

/-- The new state of stream `i` after a multistream encode call. -/
def msStreamAfter (s : MsEncSt) (o : MsOracle) (i : Nat) (e : EncSt) : EncSt :=
  let e1 := msPrep s i e (o.rates.getD i 0) o.bw
  if i < o.reached then
    match o.obs[i]? with
    | some ob => encAdopt (msPre2 s i e1 o.lastRate) ob
    | none => msPre2 s i e1 o.lastRate
  else e1

theorem msEncode_streams (s : MsEncSt) (f b : Int) (o : MsOracle) (h : msEncodeEarly s f b = none) :
    (msEncode s f b o).streams = s.streams.mapIdx (msStreamAfter s o) ∧
    (msEncode s f b o).nbCoupled = s.nbCoupled ∧ (msEncode s f b o).nbStreams = s.nbStreams := by
  unfold msEncode; rw [h]; exact ⟨rfl, rfl, rfl⟩

/-- **`MsInv` is kept by a multistream encode call** whose streams' encode calls stay inside the
    monitored ranges (`msEncodeContract`, checked after every call by suites `ctl-rand` /
    `ctl-msstarve`): every per-stream setting the multistream layer writes is legal and the streams
    keep their channel layout (and their application). -/
theorem msEncode_inv {s : MsEncSt} (hi : MsInv s) (f b : Int) (o : MsOracle) (hc : msEncodeContract s f b o = true) :
    MsInv (msEncode s f b o) := by
  cases hearly : msEncodeEarly s f b with
  | some e => unfold msEncode; rw [hearly]; exact hi
  | none =>
    obtain ⟨hst, hcp, hns⟩ := msEncode_streams s f b o hearly
    unfold msEncodeContract at hc
    rw [hearly] at hc
    simp only [Bool.and_eq_true, List.all_eq_true, List.mem_range] at hc
    obtain ⟨hobs, _⟩ := hc
    -- per-stream facts
    have hper : ∀ (i : Nat) (e : EncSt), s.streams[i]? = some e →
        EncInv (msStreamAfter s o i e) ∧ (msStreamAfter s o i e).application = e.application ∧
        (msStreamAfter s o i e).channels = e.channels := by
      intro i e hie
      have hmem : e ∈ s.streams := List.mem_of_getElem? hie
      have hilt : i < s.streams.length := by
        rcases List.getElem?_eq_some_iff.mp hie with ⟨h, _⟩; exact h
      have h1 := msPrep_keeps s i e (o.rates.getD i 0) o.bw (hi.streams e hmem)
      have h2 := msPre2_keeps s i (msPrep s i e (o.rates.getD i 0) o.bw) o.lastRate h1.1
      unfold msStreamAfter
      simp only []
      split
      · rename_i hr
        cases hob : o.obs[i]? with
        | none => simp only []; exact ⟨h2.1, by rw [h2.2.1, h1.2.1], by rw [h2.2.2.1, h1.2.2.1]⟩
        | some ob =>
          simp only []
          have hrange := hobs i hilt
          rw [hie, hob] at hrange
          simp only [hr, decide_true, Bool.not_true, Bool.false_or, Option.isNone_iff_eq_none] at hrange
          refine ⟨encAdopt_inv_of_range h2.1 hrange, ?_, ?_⟩
          · show (msPre2 s i _ o.lastRate).application = e.application
            rw [h2.2.1, h1.2.1]
          · show (msPre2 s i _ o.lastRate).channels = e.channels
            rw [h2.2.2.1, h1.2.2.1]
      · exact ⟨h1.1, h1.2.1, h1.2.2.1⟩
    have hmemAfter : ∀ e' ∈ (msEncode s f b o).streams, ∃ i e, s.streams[i]? = some e ∧ e' = msStreamAfter s o i e := by
      intro e' he'
      rw [hst] at he'
      obtain ⟨i, hlt, rfl⟩ := List.mem_mapIdx.mp he'
      exact ⟨i, s.streams[i], List.getElem?_eq_getElem hlt, rfl⟩
    refine ⟨?_, ?_⟩
    · intro e' he'
      obtain ⟨i, e, hie, rfl⟩ := hmemAfter e' he'
      exact (hper i e hie).1
    · rw [hcp, hns]
      rcases hi.layout with h | h
      · exact Or.inl h
      · right
        intro e' he'
        obtain ⟨i, e, hie, rfl⟩ := hmemAfter e' he'
        rw [(hper i e hie).2.2]; exact h e (List.mem_of_getElem? hie)

/-! ### Histories of a multistream encoder -/

inductive MsEv
  | ctl (r : MsEncReq)
  | encode (frameSize maxDataBytes : Int) (o : MsOracle)

def msApply (s : MsEncSt) : MsEv → MsEncSt
  | .ctl r => (msEncCtl s r).1
  | .encode f b o => msEncode s f b o

/-- The encode calls of the history meet the monitored contract `msEncodeContract`. -/
def msRunOk : MsEncSt → List MsEv → Prop
  | _, [] => True
  | s, e :: es =>
    (match e with
     | .ctl _ => True
     | .encode f b o => msEncodeContract s f b o = true) ∧ msRunOk (msApply s e) es

def msRun : MsEncSt → List MsEv → MsEncSt
  | s, [] => s
  | s, e :: es => msRun (msApply s e) es

theorem msRun_inv {s : MsEncSt} (hi : MsInv s) (evs : List MsEv) (hok : msRunOk s evs) : MsInv (msRun s evs) := by
  induction evs generalizing s with
  | nil => exact hi
  | cons e es ih =>
    obtain ⟨h1, h2⟩ := hok
    apply ih _ h2
    cases e with
    | ctl r => exact msEncCtl_inv hi r
    | encode f b o => exact msEncode_inv hi f b o h1

end Opus.Ctl
