import OpusProofs.SilkPipeBasic
import OpusProofs.SilkCoreHist
import OpusProofs.SilkResampCall
/-
  OpusProofs.SilkPipeTotal — totality, sample count, int16 range and invariant preservation of the synthesis → buffering →
  resampling part of the pipeline, for one `silk_Decode` call and for any list of them (property C03, slice SilkPipe).
-/
namespace Opus.SilkPipeProofs
open Opus Opus.SilkCore Opus.SilkPipe Opus.SilkCoreProofs

/-- Combined invariant of the pipeline state (without the symbol-layer part, which has no invariant of its own: every field
    of `SilkSt` is overwritten by the header of the next packet before it is read, `OpusProps.C03.silkSyms_symbols_history_free`). -/
structure PipeInv (S : PipeSt) : Prop where
  dec : StateOk S.dec
  rs : OpusProofs.SilkResamp.Inv S.rs
  rate : S.rs.cfg.fsIn = S.dec.fsKHz
  midLen : S.sMid.length = 2
  mid16 : ∀ x ∈ S.sMid, I16 x

theorem stateOk_setNb (s : DecState) (nb : Nat) (h : StateOk s) (hnb : nb = 2 ∨ nb = 4) : StateOk { s with nbSubfr := nb } :=
  { cfg := ⟨h.cfg.1, hnb⟩, slpc := h.slpc, outLen := h.outLen, outI16 := h.outI16, excLen := h.excLen, nlsfLen := h.nlsfLen,
    nlsfRange := h.nlsfRange, lgi := h.lgi, lag := h.lag }

theorem monoBuffer_spec (sMid xq : List Int) (hm : sMid.length = 2) (hm16 : ∀ x ∈ sMid, I16 x) (hx : ∀ x ∈ xq, I16 x) :
    (monoBuffer sMid xq).1.length = 2 ∧ (∀ x ∈ (monoBuffer sMid xq).1, I16 x) ∧
    (monoBuffer sMid xq).2.length = xq.length ∧ ∀ x ∈ (monoBuffer sMid xq).2, I16 x := by
  have hall : ∀ x ∈ sMid ++ xq, I16 x := by
    intro x h; rcases List.mem_append.mp h with h | h
    · exact hm16 x h
    · exact hx x h
  unfold monoBuffer
  refine ⟨?_, ?_, ?_, ?_⟩
  · simp only [List.length_take, List.length_drop, List.length_append, hm]; omega
  · intro x h; exact hall x (List.mem_of_mem_drop (List.mem_of_mem_take h))
  · simp only [List.length_take, List.length_drop, List.length_append, hm]; omega
  · intro x h; exact hall x (List.mem_of_mem_drop (List.mem_of_mem_take h))

/-- One `silk_Decode` call of the pipeline (symbols given): total, `outLen` samples, all int16, invariant preserved. -/
theorem silkFrameStep_total (nb : Nat) (S : PipeSt) (fr : Nat × SilkSyms.Indices × List Int) (hI : PipeInv S)
    (hnb : nb = 2 ∨ nb = 4) (hf : FrameOk S.dec.fsKHz nb (frameIn fr.1 fr.2.1 fr.2.2)) :
    ∃ S' pcm, silkFrameStep nb S fr = .ok (S', pcm) ∧ PipeInv S' ∧ S'.dec.fsKHz = S.dec.fsKHz ∧ S'.rs.cfg = S.rs.cfg ∧
      S'.syms = S.syms ∧
      pcm.length = OpusProofs.SilkResamp.outLen S.rs.cfg (frameLen S.dec.fsKHz nb) ∧ ∀ x ∈ pcm, -32768 ≤ x ∧ x ≤ 32767 := by
  obtain ⟨o, ho, hso, e1, e2, xl, xi⟩ := frameGood_total { S.dec with nbSubfr := nb } (frameIn fr.1 fr.2.1 fr.2.2)
    (stateOk_setNb S.dec nb hI.dec hnb) hf
  have xl' : o.core.xq.length = frameLen S.dec.fsKHz nb := xl
  obtain ⟨b1, b2, b3, b4⟩ := monoBuffer_spec S.sMid o.core.xq hI.midLen hI.mid16 xi
  have hfs : S.dec.fsKHz ≤ frameLen S.dec.fsKHz nb := by
    have := (cfg_nums (show CfgOk S.dec.fsKHz nb from ⟨hI.dec.cfg.1, hnb⟩)).2.2.1
    rw [this]
    rcases hnb with h | h <;> subst h <;> omega
  obtain ⟨R, out, hr, hRi, hRc, hol, ho16⟩ := OpusProofs.SilkResamp.resampler_ok S.rs (monoBuffer S.sMid o.core.xq).2 hI.rs
    (by rw [b3, xl', hI.rate]; exact hfs) (fun v hv => b4 v hv)
  rw [silkFrameStep_eq, ho]
  simp only [Res.bind, hr]
  have e1' : o.st.fsKHz = S.dec.fsKHz := e1
  refine ⟨_, _, rfl, ?_, e1', hRc, rfl, by rw [hol, b3, xl'], fun x hx => ho16 x hx⟩
  exact { dec := hso, rs := hRi, rate := by show R.cfg.fsIn = o.st.fsKHz; rw [hRc, e1', hI.rate], midLen := b1, mid16 := b2 }

/-- Any number of `silk_Decode` calls (the frames of one Opus frame): total, the sample counts add up, all int16, invariant preserved. -/
theorem silkFrames_total (nb : Nat) (hnb : nb = 2 ∨ nb = 4) : ∀ (frs : List (Nat × SilkSyms.Indices × List Int)) (S : PipeSt),
    PipeInv S → (∀ fr ∈ frs, FrameOk S.dec.fsKHz nb (frameIn fr.1 fr.2.1 fr.2.2)) →
    ∃ S' pcm, silkFrames nb S frs = .ok (S', pcm) ∧ PipeInv S' ∧ S'.dec.fsKHz = S.dec.fsKHz ∧ S'.rs.cfg = S.rs.cfg ∧
      pcm.length = frs.length * OpusProofs.SilkResamp.outLen S.rs.cfg (frameLen S.dec.fsKHz nb) ∧
      ∀ x ∈ pcm, -32768 ≤ x ∧ x ≤ 32767 := by
  intro frs
  induction frs with
  | nil => intro S hI _; exact ⟨S, [], rfl, hI, rfl, rfl, by simp, by simp⟩
  | cons fr rest ih =>
    intro S hI hf
    obtain ⟨S1, p1, h1, I1, f1, c1, _, l1, x1⟩ := silkFrameStep_total nb S fr hI hnb (hf fr List.mem_cons_self)
    obtain ⟨S2, p2, h2, I2, f2, c2, l2, x2⟩ := ih S1 I1 (by intro g hg; rw [f1]; exact hf g (List.mem_cons_of_mem _ hg))
    refine ⟨S2, p1 ++ p2, ?_, I2, by rw [f2, f1], by rw [c2, c1], ?_, ?_⟩
    · simp only [silkFrames, h1, h2, Res.bind_ok, Res.pure_eq]
    · rw [List.length_append, l1, l2, c1, f1, List.length_cons, Nat.add_mul, Nat.one_mul, Nat.add_comm]
    · intro x hx
      rcases List.mem_append.mp hx with h | h
      · exact x1 x h
      · exact x2 x h

end Opus.SilkPipeProofs
