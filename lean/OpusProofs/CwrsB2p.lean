import OpusProofs.CwrsCache
/-
  OpusProofs.CwrsB2p — what the binary search of `bits2pulses` (rate.h:53-78) returns, for ANY cache row that is
  non-decreasing and has at most 63 entries; and the facts about the regenerated rows that make it applicable
  (row length ≤ MAX_PSEUDO, rows with N ≥ 3 strictly increasing).
-/
namespace OpusProofs.CwrsB2p
open Opus Opus.Cwrs Opus.Rate OpusProofs.CwrsCache
open Opus.Gen.CeltTables

/-! ## The binary search -/

/-- one iteration of the `for (i=0;i<LOG_MAX_PSEUDO;i++)` loop -/
def b2pStep (row : Nat → Nat) (b : Int) (lo hi : Nat) : Nat × Nat :=
  if (row ((lo + hi + 1) / 2) : Int) ≥ b then (lo, (lo + hi + 1) / 2) else ((lo + hi + 1) / 2, hi)

theorem b2pLoop_succ (row : Nat → Nat) (b : Int) (it lo hi : Nat) :
    b2pLoop row b (it + 1) lo hi = b2pLoop row b it (b2pStep row b lo hi).1 (b2pStep row b lo hi).2 := by
  simp only [b2pLoop, b2pStep]
  split <;> rfl

/-- loop invariant: everything up to `lo` is below the budget; `hi` is either still the initial `K` or has been
    tested to reach the budget -/
structure Inv (row : Nat → Nat) (b : Int) (K lo hi : Nat) : Prop where
  le : lo ≤ hi
  hiK : hi ≤ K
  below : ∀ q, 1 ≤ q → q ≤ lo → (row q : Int) < b
  above : hi = K ∨ (1 ≤ hi ∧ b ≤ (row hi : Int))

/-- width of the bracket, plus one while `hi` has not been shown to reach the budget -/
def mu (row : Nat → Nat) (b : Int) (lo hi : Nat) : Nat := hi - lo + (if b ≤ (row hi : Int) then 0 else 1)

theorem step_inv {row : Nat → Nat} {b : Int} {K lo hi : Nat}
    (hm : ∀ q q', 1 ≤ q → q ≤ q' → q' ≤ K → row q ≤ row q') (h : Inv row b K lo hi) :
    Inv row b K (b2pStep row b lo hi).1 (b2pStep row b lo hi).2 ∧
    mu row b (b2pStep row b lo hi).1 (b2pStep row b lo hi).2 * 2 ≤ mu row b lo hi + 1 := by
  obtain ⟨hle, hK, hbelow, habove⟩ := h
  unfold b2pStep
  generalize hmid : (lo + hi + 1) / 2 = mid
  by_cases hc : (row mid : Int) ≥ b
  · rw [if_pos hc]
    refine ⟨⟨by omega, by omega, hbelow, ?_⟩, ?_⟩
    · by_cases h0 : hi = 0
      · left; rcases habove with h | h <;> omega
      · right; exact ⟨by omega, hc⟩
    · simp only [mu, if_pos hc]
      split <;> omega
  · rw [if_neg hc]
    refine ⟨⟨by omega, hK, ?_, habove⟩, ?_⟩
    · intro q h1 h2
      have := hm q mid h1 h2 (by omega)
      omega
    · simp only [mu]
      split <;> omega

theorem loop_inv {row : Nat → Nat} {b : Int} {K : Nat}
    (hm : ∀ q q', 1 ≤ q → q ≤ q' → q' ≤ K → row q ≤ row q') : ∀ n lo hi, Inv row b K lo hi →
    Inv row b K (b2pLoop row b n lo hi).1 (b2pLoop row b n lo hi).2 ∧
    mu row b (b2pLoop row b n lo hi).1 (b2pLoop row b n lo hi).2 * 2 ^ n ≤ mu row b lo hi + 2 ^ n - 1 := by
  intro n
  induction n with
  | zero => intro lo hi h; exact ⟨h, by simp [b2pLoop]⟩
  | succ n ih =>
    intro lo hi h
    obtain ⟨h1, h2⟩ := step_inv hm h
    obtain ⟨h3, h4⟩ := ih _ _ h1
    rw [b2pLoop_succ]
    refine ⟨h3, ?_⟩
    have hp : 0 < 2 ^ n := Nat.pow_pos (by omega)
    rw [Nat.pow_succ, ← Nat.mul_assoc]
    generalize mu row b (b2pLoop row b n (b2pStep row b lo hi).1 (b2pStep row b lo hi).2).1
      (b2pLoop row b n (b2pStep row b lo hi).1 (b2pStep row b lo hi).2).2 * 2 ^ n = A at *
    omega

/-- **What `bits2pulses` returns** on a cache row `row` (`row 0 = K ≤ 63` entries, non-decreasing on `1..K`), with
    `c(0) = -1`, `c(p) = row p` (so `pulses2bits(p) = c(p) + 1`) and `b = bits - 1`:
    * never more than `K`;
    * `K` when every entry is below `b`;
    * otherwise, with `h` the least index whose entry reaches `b`: `h-1` if `b - c(h-1) ≤ c(h) - b`, else `h` —
      the nearer of the two neighbours of the budget, the LOWER one on a tie. -/
theorem bits2pulsesRow_spec (row : Nat → Nat) (K : Nat) (hK : row 0 = K) (hK63 : K ≤ 63)
    (hm : ∀ q q', 1 ≤ q → q ≤ q' → q' ≤ K → row q ≤ row q') (bits : Int) :
    bits2pulsesRow row bits ≤ K ∧
    ((∀ p, 1 ≤ p → p ≤ K → (row p : Int) < bits - 1) → bits2pulsesRow row bits = K) ∧
    (∀ h, 1 ≤ h → h ≤ K → bits - 1 ≤ (row h : Int) → (∀ p, 1 ≤ p → p < h → (row p : Int) < bits - 1) →
      bits2pulsesRow row bits =
        if (bits - 1) - (if h = 1 then -1 else (row (h - 1) : Int)) ≤ (row h : Int) - (bits - 1) then h - 1 else h) := by
  have h0 : Inv row (bits - 1) K 0 K := ⟨Nat.zero_le _, Nat.le_refl _, fun q h1 h2 => by omega, Or.inl rfl⟩
  obtain ⟨hinv, hmu⟩ := loop_inv hm 6 0 K h0
  have hL : LOG_MAX_PSEUDO = 6 := by decide
  unfold bits2pulsesRow
  simp only [hL, hK]
  generalize (b2pLoop row (bits - 1) 6 0 K).1 = lo at *
  generalize (b2pLoop row (bits - 1) 6 0 K).2 = hi at *
  obtain ⟨hle, hhiK, hbelow, habove⟩ := hinv
  have hmu1 : mu row (bits - 1) lo hi ≤ 1 := by
    have : mu row (bits - 1) 0 K ≤ 64 := by simp only [mu]; split <;> omega
    have e : (2 : Nat) ^ 6 = 64 := by decide
    rw [e] at hmu
    omega
  have hgap : hi ≤ lo + 1 := by simp only [mu] at hmu1; split at hmu1 <;> omega
  have htested : hi = lo + 1 → bits - 1 ≤ (row hi : Int) := by
    intro e; simp only [mu] at hmu1; split at hmu1
    · assumption
    · omega
  have hq : (if bits - 1 - (if lo = 0 then -1 else (row lo : Int)) ≤ (row hi : Int) - (bits - 1) then lo else hi) = lo ∨
      (if bits - 1 - (if lo = 0 then -1 else (row lo : Int)) ≤ (row hi : Int) - (bits - 1) then lo else hi) = hi := by
    by_cases h : bits - 1 - (if lo = 0 then -1 else (row lo : Int)) ≤ (row hi : Int) - (bits - 1) <;> simp [h]
  refine ⟨by rcases hq with e | e <;> rw [e] <;> omega, ?_, ?_⟩
  · intro hall
    have hhi : hi = K := by
      rcases habove with h | ⟨h1, h2⟩
      · exact h
      · have := hall hi h1 hhiK; omega
    have hlo : lo = hi := by
      apply Decidable.byContradiction; intro hne
      have h1 := htested (by omega)
      have := hall hi (by omega) hhiK
      omega
    rcases hq with e | e <;> rw [e] <;> omega
  · intro h h1 hhK hreach hmin
    have hlo : lo < h := by
      apply Decidable.byContradiction; intro hge
      have := hbelow h h1 (by omega); omega
    have hhi : h ≤ hi := by
      apply Decidable.byContradiction; intro hlt
      rcases habove with e | ⟨e1, e2⟩
      · omega
      · have := hmin hi e1 (by omega); omega
    have e1 : lo = h - 1 := by omega
    have e2 : hi = h := by omega
    subst e2
    rw [show hi - 1 = lo from e1.symm]
    by_cases hh : hi = 1
    · have : lo = 0 := by omega
      simp only [this, hh, if_true]
    · have : ¬ lo = 0 := by omega
      simp only [this, hh, if_false]

/-! ## The regenerated rows -/

def strictOk : List Nat → Bool
  | a :: b :: t => Nat.blt a b && strictOk (b :: t)
  | _ => true

theorem strictOk_spec : ∀ (l : List Nat), strictOk l = true → ∀ i, i + 1 < l.length → l.getD i 0 < l.getD (i + 1) 0 := by
  intro l
  induction l with
  | nil => intro _ i hi; simp at hi
  | cons a t ih =>
    intro h i hi
    cases t with
    | nil => simp at hi
    | cons b t =>
      simp only [strictOk, Bool.and_eq_true, Nat.blt_eq] at h
      cases i with
      | zero => simpa using h.1
      | succ i => have := ih h.2 i (by simpa using hi); simpa using this

/-- row length ≤ MAX_PSEUDO, and strictly increasing words when the band size is at least 3 -/
def posOk2 (p : Nat) : Bool :=
  match cacheIndex.getD p (-1) with
  | .ofNat ci =>
    let kp := cacheBits.getD ci 0
    Nat.ble kp MAX_PSEUDO &&
      (Nat.ble (bandN eBands (p / nbEBands) (p % nbEBands)) 2 || strictOk ((cacheBits.drop (ci + 1)).take kp))
  | .negSucc _ => true

theorem allPosOk2_true : ((List.range ((maxLM + 2) * nbEBands)).all posOk2) = true := by decide +kernel

theorem pos_facts2 {p ci q : Nat} (hp : p < (maxLM + 2) * nbEBands) (hci : cacheIndex[p]? = some (Int.ofNat ci)) :
    cacheBits.getD ci 0 ≤ MAX_PSEUDO ∧
    (3 ≤ bandN eBands (p / nbEBands) (p % nbEBands) → 1 ≤ q → q < cacheBits.getD ci 0 →
      cacheBits.getD (ci + q) 0 < cacheBits.getD (ci + q + 1) 0) := by
  have h := allPosOk2_true
  simp only [List.all_eq_true, List.mem_range] at h
  have hpos := h p hp
  have hg : cacheIndex.getD p (-1) = Int.ofNat ci := by simp [List.getD, hci]
  simp only [posOk2, hg, Bool.and_eq_true, Bool.or_eq_true, Nat.ble_eq] at hpos
  refine ⟨hpos.1, fun hN hq1 hq => ?_⟩
  rcases hpos.2 with h2 | h2
  · omega
  · obtain ⟨q', rfl⟩ : ∃ q', q = q' + 1 := ⟨q - 1, by omega⟩
    have hlen : ci + 1 + cacheBits.getD ci 0 ≤ cacheBits.length := by
      have := (pos_facts hp hci (q := cacheBits.getD ci 0) (by omega) (Nat.le_refl _)).1
      omega
    have hl : ((cacheBits.drop (ci + 1)).take (cacheBits.getD ci 0)).length = cacheBits.getD ci 0 := by
      rw [List.length_take, List.length_drop]; omega
    have := strictOk_spec _ h2 q' (by rw [hl]; omega)
    have g : ∀ i, i < cacheBits.getD ci 0 →
        ((cacheBits.drop (ci + 1)).take (cacheBits.getD ci 0)).getD i 0 = cacheBits.getD (ci + 1 + i) 0 := by
      intro i hi
      have hi' : i < cacheBits[ci]?.getD 0 := by simpa [List.getD] using hi
      simp [List.getD, List.getElem?_take, List.getElem?_drop, hi']
    rw [g q' (by omega), g (q' + 1) (by omega)] at this
    have e1 : ci + 1 + q' = ci + (q' + 1) := by omega
    have e2 : ci + 1 + (q' + 1) = ci + (q' + 1) + 1 := by omega
    rw [e1, e2] at this
    exact this

end OpusProofs.CwrsB2p
