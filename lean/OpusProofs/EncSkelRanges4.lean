import OpusProofs.EncSkelRanges3
/-
  OpusProofs.EncSkelRanges4 — "no 32-bit overflow", part 4: `frame_size_select` for EVERY `int` frame_size (after fix
  212cbc41 the products `400*new_size` … are formed only below the 120 ms guard) and the multistream budget split.
-/
namespace Opus.EncSkel.Proofs
open Opus Opus.EncDecide Opus.EncSkel

theorem fss_ret_fits (f vd fs : Int) (hfs : 8000 ≤ fs ∧ fs ≤ 48000) :
    -1 ≤ frameSizeSelect f vd fs ∧ frameSizeSelect f vd fs ≤ 5760 := by
  unfold frameSizeSelect
  dsimp only
  split
  · omega
  · split
    · omega
    · split
      · omega
      · split
        · omega
        · split
          · omega
          · omega

theorem fssTrace_last (f vd fs : Int) : (fssTrace f vd fs).getLast? = some (frameSizeSelect f vd fs) := by
  unfold fssTrace
  dsimp only
  repeat' split
  all_goals simp

theorem fssTrace_fits (f vd fs : Int) (hf : Fits32 f) (hvd : Fits32 vd) (hfs : 8000 ≤ fs ∧ fs ≤ 48000) :
    ∀ x ∈ fssTrace f vd fs, Fits32 x := by
  have hr := fss_ret_fits f vd fs hfs
  intro x hx
  unfold Fits32 at *
  by_cases hv : 5001 ≤ vd ∧ vd ≤ 5009
  · have h5 : vd = 5001 ∨ vd = 5002 ∨ vd = 5003 ∨ vd = 5004 ∨ vd = 5005 ∨ vd = 5006 ∨ vd = 5007 ∨ vd = 5008 ∨ vd = 5009 := by
      omega
    rcases h5 with rfl | rfl | rfl | rfl | rfl | rfl | rfl | rfl | rfl <;>
    · simp only [fssTrace, FRAMESIZE_ARG, FRAMESIZE_2_5_MS, FRAMESIZE_40_MS, FRAMESIZE_120_MS, Int.reduceSub, Int.reduceToNat,
        Int.reducePow, Int.reduceEq, Int.reduceLE, if_false, if_true, and_self, le_refl] at hx
      repeat' split at hx
      all_goals simp only [List.mem_cons, List.mem_append, List.mem_nil_iff, or_false, List.cons_append, List.nil_append] at hx
      all_goals omega
  · unfold fssTrace at hx
    simp only [FRAMESIZE_ARG, FRAMESIZE_2_5_MS, FRAMESIZE_40_MS, FRAMESIZE_120_MS] at hx
    repeat' split at hx
    all_goals simp only [List.mem_cons, List.mem_append, List.mem_nil_iff, or_false, List.cons_append, List.nil_append] at hx
    all_goals omega

/-! ### multistream: CBR clamp and per-stream `curr_max` -/

theorem msTrace_last (vbr br rs nb fs fsz m tot s : Int) :
    (msTrace vbr br rs nb fs fsz m tot s).getLast? =
      some (msCurrMax nb fs fsz (msMaxBytes vbr br rs nb fs fsz m) tot s) := by
  simp [msTrace]

/-- opus_multistream_encoder.c:856-859, :878-888, :976-986: 1..255 streams, bit-rate AUTO / MAX / 500..300000·255, a rate
    sum with `3*rate_sum ≤ INT_MAX` (`ms_rate_no_overflow`), ANY `max_data_bytes` in 1..INT_MAX, `0 ≤ tot_size ≤` the clamped
    budget, stream index `0 ≤ s < nb_streams`: every intermediate fits; `curr_max ≤ MS_FRAME_TMP = 7662`. -/
theorem msTrace_fits (vbr br rs nb fs fsz m tot s : Int) (hfs : 8000 ≤ fs ∧ fs ≤ 48000)
    (hz : 0 < fsz ∧ fsz ≤ fs ∧ fs ≤ 400 * fsz) (hnb : 1 ≤ nb ∧ nb ≤ 255) (hs : 0 ≤ s ∧ s < nb)
    (hbr : br = OPUS_AUTO ∨ br = OPUS_BITRATE_MAX ∨ (500 ≤ br ∧ br ≤ 76500000)) (hrs : 0 ≤ rs ∧ 3 * rs ≤ 2147483647)
    (hm : 1 ≤ m ∧ m ≤ 2147483647) (ht : 0 ≤ tot ∧ tot ≤ msMaxBytes vbr br rs nb fs fsz m) :
    (∀ x ∈ msTrace vbr br rs nb fs fsz m tot s, Fits32 x) ∧
    msCurrMax nb fs fsz (msMaxBytes vbr br rs nb fs fsz m) tot s ≤ 7662 := by
  have hAUTO : (OPUS_AUTO : Int) = -1000 := rfl
  have hMAX : (OPUS_BITRATE_MAX : Int) = -1 := rfl
  have hr0 : 0 ≤ fs / fsz := Int.ediv_nonneg (by omega) (by omega)
  have hr1 : fs / fsz ≤ 400 := Int.ediv_le_of_le_mul hz.1 hz.2.2
  have hd0 : 24 ≤ 3 * 8 * fs / fsz := Int.le_ediv_of_mul_le hz.1 (by omega)
  have hd1 : 3 * 8 * fs / fsz ≤ 3 * 8 * fs := Int.ediv_le_self _ (by omega)
  have h80 : 0 ≤ 8 * fs / fsz := Int.ediv_nonneg (by omega) (by omega)
  have h81 : 8 * fs / fsz ≤ 3200 := Int.ediv_le_of_le_mul hz.1 (by omega)
  have hq1 := cdiv_abs_le (3 * rs) (3 * 8 * fs / fsz) 2147483647 (by omega) ⟨by omega, by omega⟩
  have hq2 := cdiv_abs_le (3 * br) (3 * 8 * fs / fsz) 229500000 (by omega) ⟨by omega, by omega⟩
  have hsm : 1 ≤ msSmallest nb fs fsz ∧ msSmallest nb fs fsz ≤ 764 := by
    unfold msSmallest; dsimp only; split <;> omega
  have hrq : 0 ≤ 3 * rs / (3 * 8 * fs / fsz) := Int.ediv_nonneg (by omega) (by omega)
  have hmm : 0 ≤ msMaxBytes vbr br rs nb fs fsz m ∧ msMaxBytes vbr br rs nb fs fsz m ≤ m := by
    unfold msMaxBytes
    split
    · split
      · omega
      · split <;> omega
    · omega
  generalize hmdef : msMaxBytes vbr br rs nb fs fsz m = m' at *
  have hcm : -800 ≤ msCurrMax nb fs fsz m' tot s ∧ msCurrMax nb fs fsz m' tot s ≤ 7662 := by
    unfold msCurrMax
    dsimp only
    repeat' split
    all_goals omega
  have hp := mul_abs_le (msCurrMax nb fs fsz m' tot s) (8 * fs / fsz) 7662 3200 ⟨by omega, by omega⟩ ⟨h80, h81⟩
  refine ⟨?_, hcm.2⟩
  intro x hx
  simp only [msTrace, List.mem_cons, List.mem_nil_iff, or_false] at hx
  rw [hmdef] at hx
  unfold Fits32
  rcases hx with rfl | rfl | rfl | rfl | rfl | rfl | rfl | rfl | rfl | rfl | rfl | rfl | rfl | rfl | rfl | rfl | rfl |
    rfl | rfl | rfl | rfl <;> omega

end Opus.EncSkel.Proofs
