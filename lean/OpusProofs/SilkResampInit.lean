import OpusModel.SilkResamp
/-
  OpusProofs.SilkResampInit — silk_resampler_init (silk/resampler.c:79-171) on all arguments: which rate pairs are
  accepted, the complete table of the 30 configurations it can produce, and the facts about those configurations the
  call theorems (OpusProofs/SilkResampCall.lean) need.  Everything over the finite table is `decide +kernel` on the
  whole table.
-/
namespace OpusProofs.SilkResamp
open Opus Opus.SilkResamp Opus.Gen.SilkResampRom

/-- The rate check of silk_resampler_init (:92-93 encoder, :100-101 decoder). -/
def accepted (fsIn fsOut : Int) (forEnc : Bool) : Bool :=
  if forEnc then isRate5 fsIn && isRate3 fsOut else isRate3 fsIn && isRate5 fsOut

/-- The documented pairs: encoder 8/12/16/24/48 kHz → 8/12/16 kHz, decoder 8/12/16 kHz → 8/12/16/24/48 kHz. -/
def pairs : List (Int × Int × Bool) :=
  [(8000, 8000, true), (8000, 12000, true), (8000, 16000, true), (12000, 8000, true), (12000, 12000, true),
   (12000, 16000, true), (16000, 8000, true), (16000, 12000, true), (16000, 16000, true), (24000, 8000, true),
   (24000, 12000, true), (24000, 16000, true), (48000, 8000, true), (48000, 12000, true), (48000, 16000, true),
   (8000, 8000, false), (8000, 12000, false), (8000, 16000, false), (8000, 24000, false), (8000, 48000, false),
   (12000, 8000, false), (12000, 12000, false), (12000, 16000, false), (12000, 24000, false), (12000, 48000, false),
   (16000, 8000, false), (16000, 12000, false), (16000, 16000, false), (16000, 24000, false), (16000, 48000, false)]

/-- The configurations silk_resampler_init computes for `pairs`, in the same order
    (fn, batchSize, invRatio_Q16, FIR_Order, FIR_Fracs, Fs_in_kHz, Fs_out_kHz, inputDelay, Coefs). -/
def cfgTable : List Cfg :=
  [⟨0, 80, 65536, 0, 0, 8, 8, 6, 0⟩, ⟨2, 80, 87382, 0, 0, 8, 12, 0, 0⟩, ⟨1, 80, 32768, 0, 0, 8, 16, 3, 0⟩,
   ⟨3, 120, 98304, 18, 2, 12, 8, 0, 2⟩, ⟨0, 120, 65536, 0, 0, 12, 12, 7, 0⟩, ⟨2, 120, 98304, 0, 0, 12, 16, 3, 0⟩,
   ⟨3, 160, 131072, 24, 1, 16, 8, 0, 3⟩, ⟨3, 160, 87382, 18, 3, 16, 12, 1, 1⟩, ⟨0, 160, 65536, 0, 0, 16, 16, 10, 0⟩,
   ⟨3, 240, 196608, 36, 1, 24, 8, 0, 4⟩, ⟨3, 240, 131072, 24, 1, 24, 12, 2, 3⟩, ⟨3, 240, 98304, 18, 2, 24, 16, 6, 2⟩,
   ⟨3, 480, 393216, 36, 1, 48, 8, 18, 6⟩, ⟨3, 480, 262144, 36, 1, 48, 12, 10, 5⟩, ⟨3, 480, 196608, 36, 1, 48, 16, 12, 4⟩,
   ⟨0, 80, 65536, 0, 0, 8, 8, 4, 0⟩, ⟨2, 80, 87382, 0, 0, 8, 12, 0, 0⟩, ⟨1, 80, 32768, 0, 0, 8, 16, 2, 0⟩,
   ⟨2, 80, 43691, 0, 0, 8, 24, 0, 0⟩, ⟨2, 80, 21846, 0, 0, 8, 48, 0, 0⟩, ⟨3, 120, 98304, 18, 2, 12, 8, 0, 2⟩,
   ⟨0, 120, 65536, 0, 0, 12, 12, 9, 0⟩, ⟨2, 120, 98304, 0, 0, 12, 16, 4, 0⟩, ⟨1, 120, 32768, 0, 0, 12, 24, 7, 0⟩,
   ⟨2, 120, 32768, 0, 0, 12, 48, 4, 0⟩, ⟨3, 160, 131072, 24, 1, 16, 8, 0, 3⟩, ⟨3, 160, 87382, 18, 3, 16, 12, 3, 1⟩,
   ⟨0, 160, 65536, 0, 0, 16, 16, 12, 0⟩, ⟨2, 160, 87382, 0, 0, 16, 24, 7, 0⟩, ⟨2, 160, 43691, 0, 0, 16, 48, 7, 0⟩]

/-- The state right after a successful init: the configuration, everything else zero (memset :89). -/
def fresh (c : Cfg) : RS := { cfg := c, sIIR := IIR.zero, sFIR := zeros szSFIRi32, delayBuf := zeros szDelayBuf }

theorem init_pairs_table :
    pairs.map (fun p => init p.1 p.2.1 p.2.2) = cfgTable.map (fun c => Res.ok (fresh c)) := by decide +kernel

theorem accepted_iff_mem (a b : Int) (e : Bool) : accepted a b e = true ↔ (a, b, e) ∈ pairs := by
  constructor
  · intro h
    cases e
    · simp only [accepted, isRate5, isRate3, Bool.false_eq_true, if_false, Bool.and_eq_true, Bool.or_eq_true,
        decide_eq_true_eq] at h
      rcases h with ⟨((h1 | h1) | h1), ((((h2 | h2) | h2) | h2) | h2)⟩ <;> subst h1 <;> subst h2 <;> decide
    · simp only [accepted, isRate5, isRate3, if_true, Bool.and_eq_true, Bool.or_eq_true,
        decide_eq_true_eq] at h
      rcases h with ⟨((((h1 | h1) | h1) | h1) | h1), ((h2 | h2) | h2)⟩ <;> subst h1 <;> subst h2 <;> decide
  · intro h
    have : ∀ p ∈ pairs, accepted p.1 p.2.1 p.2.2 = true := by decide +kernel
    exact this (a, b, e) h

theorem init_rejected (a b : Int) (e : Bool) (h : accepted a b e = false) : init a b e = .abort := by
  unfold accepted at h
  unfold init
  simp [h]

theorem initRet_rejected (a b : Int) (e : Bool) (h : accepted a b e = false) : initRet a b e = .ok (-1, RS.zero) := by
  unfold accepted at h
  unfold initRet
  simp [h]

theorem init_accepted (a b : Int) (e : Bool) (h : accepted a b e = true) :
    ∃ c ∈ cfgTable, init a b e = .ok (fresh c) := by
  have hm := (accepted_iff_mem a b e).1 h
  have key : ∀ (ps : List (Int × Int × Bool)) (cs : List Cfg),
      ps.map (fun p => init p.1 p.2.1 p.2.2) = cs.map (fun c => Res.ok (fresh c)) →
      ∀ p ∈ ps, ∃ c ∈ cs, init p.1 p.2.1 p.2.2 = .ok (fresh c) := by
    intro ps
    induction ps with
    | nil => intro cs _ p hp; cases hp
    | cons q qs ih =>
      intro cs hc p hp
      cases cs with
      | nil => simp at hc
      | cons c cs' =>
        simp only [List.map_cons, List.cons.injEq] at hc
        rcases List.mem_cons.1 hp with rfl | hp'
        · exact ⟨c, List.mem_cons_self, hc.1⟩
        · obtain ⟨c', hc', he⟩ := ih cs' hc.2 p hp'
          exact ⟨c', List.mem_cons_of_mem _ hc', he⟩
  exact key pairs cfgTable init_pairs_table (a, b, e) hm

/-- `selectFn` finds a kernel for every pair that passed the rate check: the "None available" exit (:151-153) is dead. -/
theorem selectFn_isSome (a b : Int) (e : Bool) (h : accepted a b e = true) : (selectFn a b).isSome = true := by
  have hm := (accepted_iff_mem a b e).1 h
  have : ∀ p ∈ pairs, (selectFn p.1 p.2.1).isSome = true := by decide +kernel
  exact this (a, b, e) hm

/-- Facts about every configuration of the table. -/
def cfgFacts (c : Cfg) : Bool :=
  decide (0 < c.fsIn) && decide (c.fsIn ≤ 48) && decide (c.inputDelay ≤ c.fsIn) && decide (c.batchSize = 10 * c.fsIn) &&
  decide (0 < c.invRatio) && decide (0 < c.fsOut) && decide (c.fsOut ≤ 48) &&
  (c.fn == useCopy && c.fsIn == c.fsOut || c.fn == useUp2HQ && c.fsOut == 2 * c.fsIn || c.fn == useIIRFIR ||
   c.fn == useDownFIR && (c.firOrder == 18 && (coefsOf c.coefId).length == 2 + 9 * c.firFracs.toNat && decide (0 < c.firFracs) && decide (c.firFracs ≤ 3)
                          || c.firOrder == 24 && (coefsOf c.coefId).length == 14
                          || c.firOrder == 36 && (coefsOf c.coefId).length == 20))

theorem cfgTable_facts : ∀ c ∈ cfgTable, cfgFacts c = true := by decide +kernel

end OpusProofs.SilkResamp
