import OpusModel.CeltSymsEnc
import OpusModel.CeltSyms
import OpusProofs.RangeCoderRoundTrip
import OpusProofs.RangeCoderStageA2
import OpusProofs.RangeCoderBudget
import OpusProofs.RangeCoderFlags
/-
  OpusProofs.CeltHdrWorld — the setting of the CELT header round trip: a complete, legal, error-free operation list
  `all` written by the range encoder (C08), the finished packet, and what C08's theorems give at every point of it:
  the decoder run on the finished packet is in lock-step with the encoder (`ec_tell`, `ec_tell_frac`) and returns
  the encoded value of the next operation.
  (OpusProps/C08.lean itself cannot be imported here: its helper OpusProofs/RangeCoderCodes.lean imports OpusProps.C17,
  which would close an import cycle.  `World.sync` below is C08's `lockstep_rng`, re-derived from the same lemma
  `decode_encode_prefix` of OpusProofs/RangeCoderRoundTrip.lean; `tell_monotone` is `encOp_tell_mono`.)
-/
namespace OpusProofs.CeltHdr
open Opus Opus.RangeCoder

/-- One successfully encoded packet. -/
structure World where
  buf : List Nat
  size : Nat
  all : List Op
  hs : size ≤ buf.length
  hb : BytesOk buf
  hl : LegalRun (encInit buf size) all
  hn : (encodeAll buf size all).nbitsTotal < 4294967296
  herr : (encodeAll buf size all).error = 0
  /-- `nbits_total` (a C `int`, shifted left by 3 in `ec_tell_frac`) stays below 2^29: true for every Opus packet -/
  hn29 : (encodeAll buf size all).nbitsTotal < 536870912

/-- final packet length -/
def World.len (w : World) : Nat := (encodeAll w.buf w.size w.all).storage
/-- the packet -/
def World.bytes (w : World) : List Nat := (encodeAll w.buf w.size w.all).buf.take w.len
def World.d0 (w : World) : Dec := decInit w.bytes w.len
def World.encAt (w : World) (P : List Op) : Enc := encRun (encInit w.buf w.size) P
def World.decAt (w : World) (P : List Op) : Dec := (decRun w.d0 P).2

/-- `P` has been written and more follows -/
def World.IsPrefix (w : World) (P : List Op) : Prop := ∃ Q, w.all = P ++ Q

theorem World.isPrefix_of_append {w : World} {P Q : List Op} (h : w.IsPrefix (P ++ Q)) : w.IsPrefix P := by
  obtain ⟨R, hR⟩ := h
  exact ⟨Q ++ R, by rw [hR, List.append_assoc]⟩

/-- Lock-step at a prefix (C08 `lockstep_rng`, `decode_encode_prefix`). -/
theorem World.sync (w : World) (P : List Op) (h : w.IsPrefix P) :
    tell (w.decAt P) = tell (w.encAt P) ∧ tellFrac (w.decAt P) = tellFrac (w.encAt P) ∧
    (w.decAt P).storage = w.len ∧ RngOk (w.encAt P) := by
  obtain ⟨Q, hQ⟩ := h
  have hl := w.hl; have hn := w.hn; have herr := w.herr
  rw [hQ] at hl hn herr
  have h6 := (decode_encode_prefix w.buf w.size P Q w.hs w.hb hl hn herr).2
  have hrE : RngOk (encRun (encInit w.buf w.size) P) := by
    have hl1 := (legalRun_append P Q _ hl).1
    have herrP : (encRun (encInit w.buf w.size) P).error = 0 := by
      apply Classical.byContradiction; intro hne
      have h2 := encRun_error_mono Q _ hne
      rw [← encRun_append] at h2
      exact encDone_error_mono _ h2 herr
    have hnP : (encRun (encInit w.buf w.size) P).nbitsTotal < 4294967296 := by
      have h1 := encRun_nbits_mono Q (encRun (encInit w.buf w.size) P)
      rw [← encRun_append] at h1
      have h2 := encDone_nbitsTotal (encRun (encInit w.buf w.size) (P ++ Q))
      unfold encodeAll at hn
      omega
    have ri := (run_back P _ (runInv_encInit w.buf w.size w.hs w.hb) hl1 hnP herrP).2.1
    exact ⟨ri.inv.rng_lo, ri.inv.rng_hi⟩
  obtain ⟨t1, t2⟩ := tell_eq_of_rn h6.rc.rng_eq h6.rc.nbits_eq
  have hst := h6.rc.storage_eq
  unfold World.decAt World.encAt World.d0 World.bytes World.len
  rw [hQ]
  exact ⟨t1, t2, hst, hrE⟩

/-- The next operation decodes to its encoded value, and the decoder moves on with it. -/
theorem World.next (w : World) (P : List Op) (op : Op) (h : w.IsPrefix (P ++ [op])) :
    op.Matches (decOp (w.decAt P) op).1 ∧ w.decAt (P ++ [op]) = (decOp (w.decAt P) op).2 := by
  obtain ⟨Q, hQ⟩ := h
  have hl := w.hl; have hn := w.hn; have herr := w.herr
  rw [hQ] at hl hn herr
  obtain ⟨hm, _⟩ := decode_encode_prefix w.buf w.size (P ++ [op]) Q w.hs w.hb hl hn herr
  have hd : ∀ d : Dec, decRun d (P ++ [op]) = ((decRun d P).1 ++ [(decOp (decRun d P).2 op).1], (decOp (decRun d P).2 op).2) := by
    intro d
    rw [decRun_append]
    simp only [decRun]
  unfold World.decAt World.d0 World.bytes World.len
  rw [hQ]
  rw [hd] at hm ⊢
  refine ⟨?_, rfl⟩
  -- the last value of a matching run
  have key : ∀ (A : List Op) (xs : List Nat) (o : Op) (x : Nat), MatchAll (A ++ [o]) (xs ++ [x]) → xs.length = A.length → o.Matches x := by
    intro A
    induction A with
    | nil => intro xs o x hmm hlen; cases xs with
      | nil => exact hmm.1
      | cons y ys => simp at hlen
    | cons a A ih => intro xs o x hmm hlen; cases xs with
      | nil => simp at hlen
      | cons y ys => exact ih ys o x hmm.2 (by simpa using hlen)
  have hlen : ∀ (A : List Op) (d : Dec), (decRun d A).1.length = A.length := by
    intro A
    induction A with
    | nil => intro d; rfl
    | cons a A ih => intro d; simp only [decRun, List.length_cons, ih]
  exact key P _ op _ hm (hlen P _)


theorem legalAt_legal {c : Enc} {op : Op} (h : op.LegalAt c) : op.Legal := by
  cases op <;> first | exact h | trivial | exact absurd h (by simp [Op.LegalAt])

theorem World.nbits_bounds (w : World) (P : List Op) (h : w.IsPrefix P) :
    33 ≤ (w.encAt P).nbitsTotal ∧ (w.encAt P).nbitsTotal < 536870912 := by
  obtain ⟨Q, hQ⟩ := h
  have h1 := encRun_nbits_mono P (encInit w.buf w.size)
  have h2 := encRun_nbits_mono Q (w.encAt P)
  have h3 : (encodeAll w.buf w.size w.all).nbitsTotal = (encRun (encInit w.buf w.size) w.all).nbitsTotal := encDone_nbitsTotal _
  have h4 := w.hn29
  rw [h3, hQ, encRun_append] at h4
  have h5 : (encInit w.buf w.size).nbitsTotal = 33 := rfl
  unfold World.encAt at *
  omega

/-- `ec_tell` and `ec_tell_frac` never go down along the packet. -/
theorem World.tell_mono (w : World) : ∀ (Q P : List Op), w.IsPrefix (P ++ Q) →
    tell (w.encAt P) ≤ tell (w.encAt (P ++ Q)) ∧ tellFrac (w.encAt P) ≤ tellFrac (w.encAt (P ++ Q)) := by
  intro Q
  induction Q with
  | nil => intro P _; simp
  | cons op Q ih =>
    intro P h
    have h' : w.IsPrefix ((P ++ [op]) ++ Q) := by simpa [List.append_assoc] using h
    obtain ⟨i1, i2⟩ := ih (P ++ [op]) h'
    have hP : w.IsPrefix P := World.isPrefix_of_append h
    have hP1 : w.IsPrefix (P ++ [op]) := World.isPrefix_of_append h'
    obtain ⟨_, _, _, hr⟩ := w.sync P hP
    obtain ⟨n1, _⟩ := w.nbits_bounds P hP
    obtain ⟨_, n2⟩ := w.nbits_bounds (P ++ [op]) hP1
    -- legality of `op` at this point
    obtain ⟨R, hR⟩ := h
    have hl := w.hl
    rw [hR, List.append_assoc] at hl
    have hla := (legalRun_append P (op :: Q ++ R) _ hl).2
    have hop : op.LegalAt (w.encAt P) := hla.1
    have e : w.encAt (P ++ [op]) = encOp (w.encAt P) op := by
      unfold World.encAt; rw [encRun_append]; rfl
    rw [e] at n2
    obtain ⟨m1, m2⟩ := encOp_tell_mono (w.encAt P) op hr (legalAt_legal hop) n1 n2
    rw [← e] at m1 m2
    have e2 : P ++ op :: Q = P ++ [op] ++ Q := by simp
    rw [e2]
    exact ⟨Int.le_trans m1 i1, Nat.le_trans m2 i2⟩

end OpusProofs.CeltHdr
