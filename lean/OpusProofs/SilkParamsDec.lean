import OpusProofs.SilkParamsNlsf
import OpusProofs.SilkParamsLpc
/-
  OpusProofs.SilkParamsDec — NLSF interpolation and the NLSF part of silk_decode_parameters.
-/
namespace Opus.SilkParams
open Opus.Gen

theorem pow2_2 : ((2 : Int) ^ 2) = 4 := by decide

/-- Interpolated NLSFs stay in `[0, 32767]` (between the two inputs). -/
theorem nlsfInterpDec_range (k : Int) (hk0 : 0 ≤ k) (hk1 : k ≤ 4) : ∀ (p c : List Int),
    p.length = c.length → (∀ e ∈ p, 0 ≤ e ∧ e ≤ 32767) → (∀ e ∈ c, 0 ≤ e ∧ e ≤ 32767) →
    (nlsfInterpDec k p c).length = c.length ∧ ∀ e ∈ nlsfInterpDec k p c, 0 ≤ e ∧ e ≤ 32767 := by
  intro p
  induction p with
  | nil => intro c h _ _; cases c <;> simp_all [nlsfInterpDec]
  | cons p0 ps ih =>
    intro c h hp hc
    match c, h with
    | c0 :: cs, h =>
      have := ih cs (by simpa using h) (fun e he => hp e (by simp [he])) (fun e he => hc e (by simp [he]))
      have hp0 := hp p0 (by simp)
      have hc0 := hc c0 (by simp)
      simp only [nlsfInterpDec, List.length_cons, List.mem_cons, forall_eq_or_imp]
      refine ⟨by omega, ?_, this.2⟩
      unfold shrI
      rw [pow2_2]
      have hb : 0 ≤ p0 + k * (c0 - p0) / 4 ∧ p0 + k * (c0 - p0) / 4 ≤ 32767 := by
        rcases (show k = 0 ∨ k = 1 ∨ k = 2 ∨ k = 3 ∨ k = 4 by omega) with rfl | rfl | rfl | rfl | rfl <;> omega
      rw [wrap16_id ⟨by omega, by omega⟩]
      exact hb

/-- On NLSF-range inputs the encoder's `silk_interpolate` and the decoder's inline
    interpolation compute the same vector. -/
theorem nlsfInterp_enc_eq_dec (k : Int) (hk0 : 0 ≤ k) (hk1 : k ≤ 4) : ∀ (p c : List Int),
    (∀ e ∈ p, 0 ≤ e ∧ e ≤ 32767) → (∀ e ∈ c, 0 ≤ e ∧ e ≤ 32767) →
    nlsfInterpEnc k p c = nlsfInterpDec k p c := by
  intro p
  induction p with
  | nil => intro c _ _; simp [nlsfInterpEnc, nlsfInterpDec]
  | cons p0 ps ih =>
    intro c hp hc
    cases c with
    | nil => simp [nlsfInterpEnc, nlsfInterpDec]
    | cons c0 cs =>
      have := ih cs (fun e he => hp e (by simp [he])) (fun e he => hc e (by simp [he]))
      have hp0 := hp p0 (by simp)
      have hc0 := hc c0 (by simp)
      simp only [nlsfInterpEnc, nlsfInterpDec, this]
      have h1 : wrap16 (c0 - p0) = c0 - p0 := by unfold wrap16; omega
      have h2 : wrap16 k = k := by unfold wrap16; omega
      unfold smulbb
      rw [h1, h2, Int.mul_comm]

/-- The NLSF part of `silk_decode_parameters` for one of the two real codebooks. -/
theorem decodeNlsfParams_spec (cb : NlsfCB) (cb1 : Int) (idx prev : List Int) (coef ffar : Int)
    (hs : stage1Ok cb cb1 = true) (ho : cb.order = 10 ∨ cb.order = 16)
    (hd : DeltaOk 0 cb.order cb.deltaMinQ15) (hpos : ∀ d ∈ cb.deltaMinQ15, 1 ≤ d)
    (hlen : idx.length = cb.order) (hpl : prev.length = cb.order)
    (hpr : ∀ e ∈ prev, 0 ≤ e ∧ e ≤ 32767) (hc0 : 0 ≤ coef) (hc1 : coef ≤ 4) :
    ∃ a0 a1 nlsf, decodeNlsfParams cb (cb1 :: idx) prev coef ffar = .ok (a0, a1, nlsf) ∧
      SpacedFrom 0 nlsf cb.deltaMinQ15 ∧
      a0.length = cb.order ∧ a1.length = cb.order ∧ AllI16 a0 ∧ AllI16 a1 ∧
      lpcInversePredGain a0 ≠ 0 ∧ lpcInversePredGain a1 ≠ 0 := by
  obtain ⟨nlsf, hn, hsp, hnl, _⟩ := nlsfDecode_spec cb cb1 idx hs (by omega) hd hlen
  have hge := spaced_ge nlsf _ 0 hsp (fun e he => by have := hpos e he; omega)
  have hle := spaced_le nlsf _ 0 hsp hpos
  have hrange : ∀ e ∈ nlsf, 0 ≤ e ∧ e ≤ 32767 := fun e he => ⟨hge e he, hle.2 e he⟩
  obtain ⟨a1, ha1, ha1l, ha1I, ha1g⟩ := nlsf2a_spec nlsf (by rw [hnl]; exact ho) hrange
  unfold decodeNlsfParams
  simp only [hn, ha1, bind, Res.bind, pure]
  have hk : 0 ≤ (if ffar = 1 then 4 else coef) ∧ (if ffar = 1 then 4 else coef) ≤ 4 := by
    split <;> omega
  generalize (if ffar = 1 then (4 : Int) else coef) = k at hk ⊢
  by_cases hlt : k < 4
  · simp only [hlt, ↓reduceIte]
    have hi := nlsfInterpDec_range k hk.1 hk.2 prev nlsf (by omega) hpr hrange
    obtain ⟨a0, ha0, ha0l, ha0I, ha0g⟩ := nlsf2a_spec _ (by rw [hi.1, hnl]; exact ho) hi.2
    simp only [ha0]
    exact ⟨a0, a1, nlsf, rfl, hsp, by omega, by omega, ha0I, ha1I, ha0g, ha1g⟩
  · simp only [hlt, ↓reduceIte]
    exact ⟨a1, a1, nlsf, rfl, hsp, by omega, by omega, ha1I, ha1I, ha1g, ha1g⟩

end Opus.SilkParams
