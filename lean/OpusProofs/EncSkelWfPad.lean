import OpusProofs.EncSkelWfTop
/-
  OpusProofs.EncSkelWfPad — `opus_packet_pad` (C07 model `Repack.packetPad`) against the skeleton's contract
  `padSpec`, and the packet of one frame call as a contract output.
-/
namespace Opus.EncSkel.WfProofs
open Opus Opus.Framing Opus.FramingSpec Opus.Repack Opus.RepackProofs Opus.Ext Opus.ExtProofs
open Opus.EncSkel Opus.EncSkel.Proofs

theorem pktBytes_length (cfg : Nat) (lens : List Nat) (maxlen : Nat) (pad : Bool) (r : OutRes) (frames : List Bytes)
    (hfl : frames.map List.length = lens) (h : EncSkel.outRange cfg lens maxlen pad = .ok r) :
    (pktBytes r.hdr frames r.size).length = r.size := by
  have hle := outRange_hdr_le cfg lens maxlen pad r h
  have hfl' : frames.flatten.length = sumN lens := by rw [flatten_length, hfl]
  unfold pktBytes
  simp only [List.length_append, List.length_replicate]
  omega

/-- `opus_packet_pad(data, len, new_len)`, `len < new_len`, on a sub-packet: the model returns what the contract
    `outRange(…, new_len, pad = 1)` announces (same error or the same bytes). -/
theorem packetPad_contract (cfg : Nat) (s : Sub) (h4 : cfg % 4 = 0) (h256 : cfg < 256) (hsub : SubOk cfg s)
    (hle : ∀ f ∈ s.1, f.length ≤ 1275) (hdur : s.1.length * samplesPerFrame cfg 8000 ≤ 960)
    (newLen : Nat) (hlt : (subPkt cfg s).length < newLen) :
    packetPad (subPkt cfg s) newLen = emitOf s.1 (EncSkel.outRange cfg (s.1.map List.length) newLen true) := by
  have hfm : [s].flatMap (·.1) = s.1 := by simp
  have hsub' : ∀ x ∈ [s], SubOk cfg x := by intro x hx; simp at hx; rw [hx]; exact hsub
  have hle' : ∀ f ∈ [s].flatMap (·.1), f.length ≤ 1275 := by rw [hfm]; exact hle
  have hdur' : ([s].flatMap (·.1)).length * samplesPerFrame cfg 8000 ≤ 960 := by rw [hfm]; exact hdur
  obtain ⟨_, rp, hc, hf, _, _⟩ := catAll_subs cfg [s] h4 h256 hsub' (by simp) hle' hdur'
  have h1 : 1 ≤ (subPkt cfg s).length := by
    obtain ⟨hne1, q, hq⟩ := hsub
    obtain ⟨e1, _⟩ := contract_packet cfg s.1 hne1 s.2.1 s.2.2 q h4 ⟨h256, hne1, hle, hdur⟩ hq
    obtain ⟨t, ht⟩ := RepackProofs.serialize_cons false (outPacket cfg s.1 s.2.1 false s.2.2) []
    simp only [List.append_nil] at ht
    unfold subPkt; rw [hq]; simp only []; rw [e1, ht]; simp
  have hrun := packetPad_run (subPkt cfg s) newLen h1 hlt s.1.length (by
    simp only [List.map_cons, List.map_nil] at hc
    rw [hc]; simp only [Rp.nbFrames, hf, hfm])
  have hcon := repackRun_contract cfg [s] h4 h256 hsub' (by simp) hle' hdur' newLen true
  simp only [List.map_cons, List.map_nil] at hcon
  rw [hfm] at hcon
  rw [hrun, hcon]

/-- **`padSpec` is `opus_packet_pad`.**  On the unpadded packet holding `frames` (the frame encoder's code-0
    packet, or the low-budget ToC-only packet of `n` empty frames; `len` = its length), for EVERY `new_len`: the C07
    model `packetPad` and the skeleton's contract `padSpec` return the same code, and when the packet is re-written
    the bytes are `header ++ frames ++ zero padding` with the contract's header and size. -/
theorem padSpec_model (cfg : Nat) (frames : List Bytes) (h4 : cfg % 4 = 0) (h256 : cfg < 256) (hne : frames ≠ [])
    (hle : ∀ f ∈ frames, f.length ≤ 1275) (hdur : frames.length * samplesPerFrame cfg 8000 ≤ 960) (newLen : Int) :
    ((subPkt cfg (frames, baseSize (frames.map List.length), false)).length : Int) = baseSize (frames.map List.length) ∧
    (newLen = baseSize (frames.map List.length) →
      packetPad (subPkt cfg (frames, baseSize (frames.map List.length), false)) newLen =
        .ok (subPkt cfg (frames, baseSize (frames.map List.length), false)) ∧
      padSpec cfg (frames.map List.length) (baseSize (frames.map List.length)) newLen = (OPUS_OK, none)) ∧
    (newLen < baseSize (frames.map List.length) →
      packetPad (subPkt cfg (frames, baseSize (frames.map List.length), false)) newLen = .err .badArg ∧
      padSpec cfg (frames.map List.length) (baseSize (frames.map List.length)) newLen = (OPUS_BAD_ARG, none)) ∧
    ((baseSize (frames.map List.length) : Int) < newLen →
      ∃ r, EncSkel.outRange cfg (frames.map List.length) newLen.toNat true = .ok r ∧ (r.size : Int) = newLen ∧
        padSpec cfg (frames.map List.length) (baseSize (frames.map List.length)) newLen = (OPUS_OK, some r) ∧
        packetPad (subPkt cfg (frames, baseSize (frames.map List.length), false)) newLen =
          .ok (pktBytes r.hdr frames r.size)) := by
  have hlne : frames.map List.length ≠ [] := by simpa using hne
  have hall : ∀ l ∈ frames.map List.length, l ≤ 1275 := by
    intro l hl; obtain ⟨f, hf, rfl⟩ := List.mem_map.mp hl; exact hle f hf
  obtain ⟨q, hq, hqs⟩ := outRange_nopad cfg (frames.map List.length) (baseSize (frames.map List.length)) hlne (Nat.le_refl _)
  have hsub : SubOk cfg (frames, baseSize (frames.map List.length), false) := ⟨hne, q, hq⟩
  have hlen : (subPkt cfg (frames, baseSize (frames.map List.length), false)).length = baseSize (frames.map List.length) := by
    unfold subPkt; simp only []; rw [hq]; simp only []
    rw [pktBytes_length cfg _ _ _ q frames rfl hq, hqs]
  have hb1 := baseSize_pos (frames.map List.length) hlne
  have hp1 : 1 ≤ (subPkt cfg (frames, baseSize (frames.map List.length), false)).length := by rw [hlen]; exact hb1
  refine ⟨by rw [hlen], ?_, ?_, ?_⟩
  · intro he
    refine ⟨?_, ?_⟩
    · have := pad_same _ hp1
      rw [hlen] at this
      rw [he]; exact this
    · unfold padSpec; rw [if_neg (by omega), if_pos he.symm]
  · intro hlt
    refine ⟨pad_bad_arg _ _ (Or.inr (by rw [hlen]; exact hlt)), ?_⟩
    unfold padSpec; rw [if_neg (by omega), if_neg (by omega), if_pos (by omega)]
  · intro hgt
    have hshape := padSpec_shape cfg (frames.map List.length) (baseSize (frames.map List.length)) newLen hlne hall rfl (by omega)
    have hok := (padSpec_ok cfg (frames.map List.length) (baseSize (frames.map List.length)) newLen hlne hall rfl (by omega)).1
    rcases hshape with ⟨heq, _⟩ | ⟨r, hr, hsome, hsz⟩
    · omega
    · refine ⟨r, hr, by omega, ?_, ?_⟩
      · rw [← hok, ← hsome]
      · have hpc := packetPad_contract cfg (frames, baseSize (frames.map List.length), false) h4 h256 hsub hle hdur
          newLen.toNat (by rw [hlen]; omega)
        have hcast : ((newLen.toNat : Nat) : Int) = newLen := by omega
        rw [hcast] at hpc
        rw [hpc]
        simp only []
        rw [hr]; rfl

/-- The packet of one frame call (`opus_encode_frame_native` within its precondition and oracle contracts): a
    contract output for the single frame — code 0 (VBR, DTX) or the CBR packet padded to `max_data_bytes`. -/
theorem frame_sub (s : St) (fi : FrameIn) (r : FrameRes) (hpost : FramePost s fi r) :
    ∃ m pd, EncSkel.outRange r.toc [r.payload.toNat] m pd = .ok { size := r.ret.toNat, hdr := r.hdr } := by
  obtain ⟨p1, p2, p3, p4, p5, p6, p7, _, _⟩ := hpost
  by_cases hd : r.dtx = true
  · obtain ⟨d1, d2, d3⟩ := p5 hd
    refine ⟨1, false, ?_⟩
    rw [d1, d2, d3]
    exact outRange_code0 r.toc 0 false
  · have hd' : r.dtx = false := by simpa using hd
    by_cases hv : s.useVbr = 0
    · obtain ⟨c1, c2, c3⟩ := p6 hv hd'
      rcases padSpec_shape r.toc [r.payload.toNat] (r.payload + 1) fi.maxDataBytes (by simp)
        (by intro l hl; simp at hl; omega) (by simp [baseSize]; omega) c3 with ⟨heq, hnone⟩ | ⟨q, hq, hsome, hsz⟩
      · refine ⟨r.payload.toNat + 1, false, ?_⟩
        rw [c2]
        unfold cbrHdr
        rw [hnone, c1]
        have : fi.maxDataBytes.toNat = r.payload.toNat + 1 := by omega
        rw [this]
        exact outRange_code0 r.toc r.payload.toNat false
      · refine ⟨fi.maxDataBytes.toNat, true, ?_⟩
        rw [c2]
        unfold cbrHdr
        rw [hsome, hq, c1]
        dsimp only
        rw [← hsz]
    · obtain ⟨v1, v2⟩ := p7 hv hd'
      refine ⟨r.payload.toNat + 1, false, ?_⟩
      rw [v2, v1]
      have : (r.payload + 1).toNat = r.payload.toNat + 1 := by omega
      rw [this]
      exact outRange_code0 r.toc r.payload.toNat false

end Opus.EncSkel.WfProofs
