import OpusProofs.SilkApiTail
/-! Proofs for the C01 `SilkApi` slice: the whole silk_Decode call and call histories. -/
namespace Opus.SilkApi

/-- The oracle contract for one call, at the configuration in force after the configuration part of the call. -/
def CallOrcOk (api : Int) (d : Dec) (a : Args) (o : Orc) : Prop :=
  OrcOk (prep d a).d.ch0.frame_length ((prep d a).d.ch0.nb_subfr * (api / 200)) o

theorem silkDecode_ok {api : Int} {d : Dec} {a : Args} {o : Orc} (hI : Inv api d) (hN : d.nChannelsInternal ≤ 2)
    (hA : ArgsOk api d a) (hO : CallOrcOk api d a o) :
    (silkDecode d a o).ok = true ∧ (silkDecode d a o).err = none ∧ (silkDecode d a o).ret = 0 ∧
    (silkDecode d a o).nSamplesOut = (silkDecode d a o).d.ch0.nb_subfr * (api / 200) ∧
    ((silkDecode d a o).d.ch0.nb_subfr = 2 ∨ (silkDecode d a o).d.ch0.nb_subfr = 4) ∧
    Inv api (silkDecode d a o).d ∧ (silkDecode d a o).d.nChannelsInternal ≤ 2 ∧
    (silkDecode d a o).out.length = ((silkDecode d a o).nSamplesOut * a.nChannelsAPI).toNat := by
  obtain ⟨e1, e2, e3, e4⟩ := prep_ok hI hN hA
  rw [silkDecode_eq e2 e1]
  obtain ⟨t1, t2, t3, t4, t5, t6, t7, t8⟩ := tail_ok hA.1 hA.2.1 e2 e3 e4 hO
  refine ⟨t1, t2, t3, by rw [t4, t7], by rw [t7]; exact e4.1.1.2.1, t5, ?_, t8⟩
  rw [t6]; rcases hA.2.2.2.2.2.1 with h | h <;> omega

/-- One step of a history: a silk_Decode call with its oracle answers, or silk_InitDecoder / silk_ResetDecoder. -/
inductive Step where
  | dec (a : Args) (o : Orc)
  | reset

def runHistory : Dec → List Step → Dec
  | d, [] => d
  | d, .dec a o :: rest => runHistory (silkDecode d a o).d rest
  | d, .reset :: rest => runHistory (initDecoder d) rest

/-- Every call of the history has legal arguments for the state it meets and oracles within their contracts. -/
def HistOk (api : Int) : Dec → List Step → Prop
  | _, [] => True
  | d, .dec a o :: rest => ArgsOk api d a ∧ CallOrcOk api d a o ∧ HistOk api (silkDecode d a o).d rest
  | d, .reset :: rest => HistOk api (initDecoder d) rest

/-- Every call of the history returned 0 with nSamplesOut = nb_subfr * 5 ms at the API rate. -/
def HistRet (api : Int) : Dec → List Step → Prop
  | _, [] => True
  | d, .dec a o :: rest => ((silkDecode d a o).ok = true ∧ (silkDecode d a o).ret = 0 ∧
      (silkDecode d a o).nSamplesOut = (silkDecode d a o).d.ch0.nb_subfr * (api / 200) ∧
      (silkDecode d a o).out.length = ((silkDecode d a o).nSamplesOut * a.nChannelsAPI).toNat) ∧
      HistRet api (silkDecode d a o).d rest
  | d, .reset :: rest => HistRet api (initDecoder d) rest

theorem history_ok {api : Int} : ∀ (l : List Step) (d : Dec), Inv api d → d.nChannelsInternal ≤ 2 → HistOk api d l →
    Inv api (runHistory d l) ∧ (runHistory d l).nChannelsInternal ≤ 2 ∧ HistRet api d l
  | [], d, hI, hN, _ => ⟨hI, hN, trivial⟩
  | .dec a o :: rest, d, hI, hN, h => by
    obtain ⟨hA, hO, hr⟩ := h
    obtain ⟨t1, _, t3, t4, _, t6, t7, t8⟩ := silkDecode_ok hI hN hA hO
    obtain ⟨u1, u2, u3⟩ := history_ok rest _ t6 t7 hr
    exact ⟨u1, u2, ⟨t1, t3, t4, t8⟩, u3⟩
  | .reset :: rest, d, _, hN, h => history_ok rest (initDecoder d) (Or.inl ⟨rfl, rfl⟩) hN h

end Opus.SilkApi
