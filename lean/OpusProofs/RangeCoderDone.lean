import OpusProofs.RangeCoderRaw
/-
  OpusProofs.RangeCoderDone — C08 Stages B–D, `ec_enc_done` (entenc.c:267-319): the bits it
  emits pin the code value inside the final interval whatever follows them (invariant F),
  and the raw bits are merged into the tail of the buffer without touching them.
-/
namespace Opus.RangeCoder

/-! ### Helpers -/

theorem clearMiddle_getD (c : Enc) (ho : c.offs + c.endOffs ≤ c.storage) (hs : c.storage ≤ c.buf.length) (i : Nat) :
    (clearMiddle c).buf.getD i 0 =
      if c.offs ≤ i ∧ i < c.storage - c.endOffs then 0 else c.buf.getD i 0 := by
  unfold clearMiddle
  simp only [List.getD_eq_getElem?_getD]
  have e : c.offs + (c.storage - c.offs - c.endOffs) = c.storage - c.endOffs := by omega
  rw [e]
  by_cases h1 : i < c.offs
  · rw [List.append_assoc, List.getElem?_append_left (by simp; omega), if_neg (by omega)]
    simp [List.getElem?_take, h1]
  · by_cases h2 : i < c.storage - c.endOffs
    · rw [if_pos ⟨by omega, h2⟩, List.getElem?_append_left (by simp; omega),
        List.getElem?_append_right (by simp; omega)]
      simp only [List.length_take]
      rw [List.getElem?_replicate]
      split <;> rfl
    · rw [if_neg (by omega), List.getElem?_append_right (by simp; omega)]
      simp only [List.length_append, List.length_take, List.length_replicate, List.getElem?_drop]
      congr 2
      omega

theorem codeVal_eq_bytesVal (B : List Nat) (S : Nat) : ∀ n, n ≤ S → n ≤ B.length →
    codeVal B S n = bytesVal (B.take n)
  | 0, _, _ => by simp [codeVal]
  | n + 1, h1, h2 => by
    have hlt : n < B.length := by omega
    rw [codeVal, codeVal_eq_bytesVal B S n (by omega) (by omega), List.take_add_one]
    simp only [List.getElem?_eq_getElem hlt, Option.toList]
    rw [bytesVal_snoc]
    unfold byteAt
    rw [if_pos (by omega)]
    simp [List.getD_eq_getElem?_getD, hlt]

theorem or_add_of_mod (x w T : Nat) (hx : x % 2 ^ T = 0) (hw : w < 2 ^ T) : x ||| w = x + w := by
  have e : x = (x / 2 ^ T) <<< T := by
    rw [Nat.shiftLeft_eq]
    have := Nat.div_add_mod x (2 ^ T)
    rw [hx, Nat.add_zero, Nat.mul_comm] at this
    exact this.symm
  rw [Nat.or_comm]
  conv => lhs; rw [e]
  rw [or_shift _ _ _ hw, ← Nat.shiftLeft_eq, ← e, Nat.add_comm]

theorem codeVal_congr {B B' : List Nat} {S S' : Nat} : ∀ (n : Nat),
    (∀ i, i < n → byteAt B S i = byteAt B' S' i) → codeVal B S n = codeVal B' S' n
  | 0, _ => rfl
  | n + 1, h => by
    simp only [codeVal]
    rw [codeVal_congr n (fun i hi => h i (by omega)), h n (by omega)]

/-! ### The terminating value `end` and its number of bits `l` (entenc.c:274-282) -/

theorem encDoneEnd_spec (c : Enc) (inv : EncInv c) :
    ∃ l0 : Nat, (encDoneEnd c).1 = (l0 : Int) ∧ l0 ≤ 9 ∧ l0 + ilog c.rng ≤ 33 ∧ 32 ≤ l0 + ilog c.rng ∧
      c.val ≤ (encDoneEnd c).2 ∧ (encDoneEnd c).2 % 2 ^ (31 - l0) = 0 ∧
      (encDoneEnd c).2 + 2 ^ (31 - l0) ≤ c.val + c.rng ∧ (l0 = 0 → (encDoneEnd c).2 = 0) := by
  obtain ⟨⟨wf, rp, rh, sl, cs, eb⟩, rl⟩ := inv
  obtain ⟨i1, i2⟩ := ilog_range rl rh
  have hne : c.rng ≠ 0 := by omega
  obtain ⟨b1, b2⟩ := ilog_bounds hne
  have hcases : ilog c.rng = 24 ∨ ilog c.rng = 25 ∨ ilog c.rng = 26 ∨ ilog c.rng = 27 ∨ ilog c.rng = 28 ∨
      ilog c.rng = 29 ∨ ilog c.rng = 30 ∨ ilog c.rng = 31 ∨ ilog c.rng = 32 := by omega
  have htn : (32 - (ilog c.rng : Int)).toNat = 32 - ilog c.rng := by omega
  unfold encDoneEnd u32
  simp only [htn]
  split
  · rename_i hif
    refine ⟨33 - ilog c.rng, by simp only; omega, by omega, by omega, by omega, ?_⟩
    rcases hcases with h | h | h | h | h | h | h | h | h <;>
      (rw [h] at b1 b2 hif ⊢
       simp only [Nat.reducePow, Nat.reduceDiv, Nat.reduceAdd, Nat.reduceSub] at b1 b2 hif ⊢
       omega)
  · rename_i hif
    refine ⟨32 - ilog c.rng, by simp only; omega, by omega, by omega, by omega, ?_⟩
    rcases hcases with h | h | h | h | h | h | h | h | h <;>
      (rw [h] at b1 b2 hif ⊢
       simp only [Nat.reducePow, Nat.reduceDiv, Nat.reduceAdd, Nat.reduceSub] at b1 b2 hif ⊢
       omega)

/-! ### The output loop and the final flush of the range bytes (entenc.c:283-289) -/

theorem encDoneOut_nonpos (c : Enc) (end_ : Nat) (l : Int) (h : ¬ l > 0) : encDoneOut c end_ l = (c, l) := by
  rw [encDoneOut]; simp [h]

theorem encDoneOut_pos (c : Enc) (end_ : Nat) (l : Int) (h : l > 0) :
    encDoneOut c end_ l =
      encDoneOut (carryOut c (end_ / 8388608)) (end_ * 256 % 2147483648) (l - 8) := by
  rw [encDoneOut]; simp [h]

/-- One iteration of the output loop of `ec_enc_done`. -/
theorem doneOut_step (c : Enc) (end_ : Nat) (wf : EncWf c) (he : end_ < 4294967296)
    (hcarry : 2147483648 ≤ end_ → 0 ≤ c.rem ∧ c.rem ≤ 254) (hext : c.ext < 4294967295)
    (herr : (carryOut c (end_ / 8388608)).error = 0) :
    c.error = 0 ∧ EncWf (carryOut c (end_ / 8388608)) ∧
    digitsVal (carryOut c (end_ / 8388608)) * 2147483648 + end_ * 256 % 2147483648 =
      (digitsVal c * 2147483648 + end_) * 256 ∧
    encM (carryOut c (end_ / 8388608)) = encM c + 1 ∧
    (carryOut c (end_ / 8388608)).buf.drop (carryOut c (end_ / 8388608)).offs =
      c.buf.drop (carryOut c (end_ / 8388608)).offs ∧
    c.offs ≤ (carryOut c (end_ / 8388608)).offs ∧
    ((carryOut c (end_ / 8388608)).rem ≥ 0 ∨ (carryOut c (end_ / 8388608)).ext > 0) ∧
    (carryOut c (end_ / 8388608)).ext ≤ c.ext + 1 := by
  obtain ⟨k0, kwf, kd, km, kdrop, koffs, k255, kne⟩ :=
    carryOut_spec c (end_ / 8388608) (by omega) wf (fun h => hcarry (by omega)) hext herr
  refine ⟨k0, kwf, ?_, km, kdrop, koffs, ?_, ?_⟩
  · rw [kd]
    generalize digitsVal c = D
    omega
  · by_cases h255 : end_ / 8388608 = 255
    · right; rw [(k255 h255).2]; omega
    · left; rw [(kne h255).1]; omega
  · by_cases h255 : end_ / 8388608 = 255
    · rw [(k255 h255).2]; omega
    · rw [(kne h255).2]; omega

/-- The final flush of the carry buffer (entenc.c:289): afterwards every digit is a
    committed byte. -/
theorem doneFlush_spec (c1 : Enc) (wf : EncWf c1) (hext : c1.ext < 4294967295)
    (herr : (if c1.rem ≥ 0 ∨ c1.ext > 0 then carryOut c1 0 else c1).error = 0) :
    c1.error = 0 ∧
    (if c1.rem ≥ 0 ∨ c1.ext > 0 then carryOut c1 0 else c1).offs = encM c1 ∧
    bytesVal ((if c1.rem ≥ 0 ∨ c1.ext > 0 then carryOut c1 0 else c1).buf.take (encM c1)) = digitsVal c1 ∧
    EncWf (if c1.rem ≥ 0 ∨ c1.ext > 0 then carryOut c1 0 else c1) ∧
    (if c1.rem ≥ 0 ∨ c1.ext > 0 then carryOut c1 0 else c1).buf.drop (encM c1) = c1.buf.drop (encM c1) ∧
    c1.offs ≤ encM c1 := by
  by_cases h : c1.rem ≥ 0 ∨ c1.ext > 0
  · rw [if_pos h] at herr ⊢
    obtain ⟨k0, kwf, kd, km, kdrop, koffs, _, kne⟩ :=
      carryOut_spec c1 0 (by omega) wf (fun h => by omega) hext herr
    obtain ⟨kr, ke⟩ := kne (by omega)
    have hp : pendCount (carryOut c1 0) = 1 := by unfold pendCount; rw [ke, kr]; simp
    have hv : pendVal (carryOut c1 0) = 0 := by unfold pendVal; rw [ke, kr]; simp
    have ho : (carryOut c1 0).offs = encM c1 := by
      unfold encM at km; rw [hp] at km; unfold encM; omega
    refine ⟨k0, ho, ?_, kwf, by rw [← ho]; exact kdrop, by unfold encM; omega⟩
    unfold digitsVal at kd
    rw [hp, hv, ho] at kd
    unfold digitsVal
    omega
  · rw [if_neg h] at herr ⊢
    have hr : ¬ c1.rem ≥ 0 := fun hh => h (Or.inl hh)
    have he : c1.ext = 0 := by
      apply Classical.byContradiction; intro hh; exact h (Or.inr (by omega))
    have hp : pendCount c1 = 0 := by unfold pendCount; rw [if_neg hr, he]
    have hv : pendVal c1 = 0 := by unfold pendVal; rw [if_neg hr, he]
    have ho : c1.offs = encM c1 := by unfold encM; rw [hp]; omega
    refine ⟨herr, ho, ?_, wf, rfl, by omega⟩
    unfold digitsVal
    rw [hp, hv, ← ho]; simp

/-- The range-coder half of `ec_enc_done`: context after the final flush, and the `l` left by
    the output loop. -/
def doneRange (c : Enc) : Enc × Int :=
  let r := encDoneOut c (encDoneEnd c).2 (encDoneEnd c).1
  (if r.1.rem ≥ 0 ∨ r.1.ext > 0 then carryOut r.1 0 else r.1, r.2)

theorem encDone_eq (c : Enc) : encDone c =
    encDoneTail (encDoneFlush (doneRange c).1 (doneRange c).1.endWindow (doneRange c).1.nendBits).1
      (doneRange c).2
      (encDoneFlush (doneRange c).1 (doneRange c).1.endWindow (doneRange c).1.nendBits).2.1
      (encDoneFlush (doneRange c).1 (doneRange c).1.endWindow (doneRange c).1.nendBits).2.2 := rfl

theorem doneFlush_error (c1 : Enc)
    (h : (if c1.rem ≥ 0 ∨ c1.ext > 0 then carryOut c1 0 else c1).error = 0) : c1.error = 0 := by
  apply Classical.byContradiction; intro hne
  split at h
  · exact carryOut_error_mono c1 0 hne h
  · exact hne h

/-- Fields that the range-coder half of `ec_enc_done` leaves alone. -/
def SameRaw (a b : Enc) : Prop :=
  a.storage = b.storage ∧ a.endOffs = b.endOffs ∧ a.endWindow = b.endWindow ∧ a.nendBits = b.nendBits ∧
  a.buf.length = b.buf.length ∧ a.nbitsTotal = b.nbitsTotal

theorem sameRaw_carryOut (c : Enc) (cc : Nat) : SameRaw (carryOut c cc) c := by simp [SameRaw]

theorem sameRaw_flush (c : Enc) : SameRaw (if c.rem ≥ 0 ∨ c.ext > 0 then carryOut c 0 else c) c := by
  split
  · exact sameRaw_carryOut c 0
  · simp [SameRaw]

theorem SameRaw.trans {a b c : Enc} (h1 : SameRaw a b) (h2 : SameRaw b c) : SameRaw a c := by
  unfold SameRaw at *; omega

theorem drop_trans {a b c : List Nat} {o1 o2 : Nat} (h1 : a.drop o2 = b.drop o2) (h2 : b.drop o1 = c.drop o1)
    (h : o1 ≤ o2) : a.drop o2 = c.drop o2 := by
  rw [h1]
  have : o2 = o1 + (o2 - o1) := by omega
  rw [this, ← List.drop_drop, ← List.drop_drop, h2]

/-- Invariant F for the range bytes: after the range-coder half of `ec_enc_done` the committed
    bytes, whatever follows them and whatever is OR-ed into the `T` unused low bits of the
    last one, denote a code value inside the final interval. -/
theorem doneRange_spec (c : Enc) (inv : EncInv c) (hn : c.nbitsTotal < 4294967296)
    (herr : (doneRange c).1.error = 0) :
    ∃ l0 T : Nat, (doneRange c).2 = -(T : Int) ∧ T ≤ 7 ∧ (l0 + ilog c.rng ≤ 33 ∧ 32 ≤ l0 + ilog c.rng) ∧
      8 * (doneRange c).1.offs = 8 * encM c + l0 + T ∧
      c.error = 0 ∧ EncWf (doneRange c).1 ∧ c.offs ≤ (doneRange c).1.offs ∧ SameRaw (doneRange c).1 c ∧
      (doneRange c).1.buf.drop (doneRange c).1.offs = c.buf.drop (doneRange c).1.offs ∧
      bytesVal ((doneRange c).1.buf.take (doneRange c).1.offs) % 2 ^ T = 0 ∧
      (∀ B S, (∀ i, byteAt B S i < 256) → ∀ δ, δ < 2 ^ T →
        codeVal B S (doneRange c).1.offs = bytesVal ((doneRange c).1.buf.take (doneRange c).1.offs) + δ →
        Contains B S c) := by
  obtain ⟨l0, hl, h9, hil, hil2, hv, hmod, htop, hz⟩ := encDoneEnd_spec c inv
  obtain ⟨⟨wf, rp, rh, sl, cs, eb⟩, rl⟩ := inv
  have hwl := wf.rem_lo
  have hwh := wf.rem_hi
  unfold doneRange at herr ⊢
  rw [hl] at herr ⊢
  generalize (encDoneEnd c).2 = E at *
  have hP : 0 < 2 ^ (31 - l0) := Nat.pow_pos (by decide)
  have hE32 : E < 4294967296 := by omega
  have hext : c.ext < 4294967295 := by omega
  have hcarry : 2147483648 ≤ E → 0 ≤ c.rem ∧ c.rem ≤ 254 := by
    intro h
    by_cases hx : c.rem < 0 ∨ c.rem = 255
    · have := cs hx; omega
    · omega
  rcases (show l0 = 0 ∨ (1 ≤ l0 ∧ l0 ≤ 8) ∨ l0 = 9 by omega) with h0 | h1 | h2
  · -- no bit to output
    subst h0
    have hE0 := hz rfl
    subst hE0
    rw [encDoneOut_nonpos c 0 _ (by omega)] at herr ⊢
    simp only at herr ⊢
    obtain ⟨f0, f1, f2, f3, f4, f5⟩ := doneFlush_spec c wf hext herr
    have sr := sameRaw_flush c
    generalize (if c.rem ≥ 0 ∨ c.ext > 0 then carryOut c 0 else c) = c2 at *
    refine ⟨0, 0, by simp, by omega, ⟨hil, hil2⟩, by omega, f0, f3, by omega, sr, by rw [f1]; exact f4,
      by rw [Nat.pow_zero, Nat.mod_one], ?_⟩
    · intro B S hB δ hδ hcv
      rw [f1, f2] at hcv
      unfold Contains encLow
      simp only [Nat.sub_zero, Nat.reducePow] at htop
      have b0 := hB (encM c); have b1 := hB (encM c + 1); have b2 := hB (encM c + 2); have b3 := hB (encM c + 3)
      simp only [codeVal, hcv]
      simp only [Nat.pow_zero] at hδ
      generalize digitsVal c = D at *
      omega
  · -- one byte
    have hpos : (l0 : Int) > 0 := by omega
    rw [encDoneOut_pos c E _ hpos, encDoneOut_nonpos _ _ _ (by omega)] at herr ⊢
    simp only at herr ⊢
    have herr1 := doneFlush_error _ herr
    obtain ⟨s0, s1, s2, s3, s4, s5, s6, s7⟩ := doneOut_step c E wf hE32 hcarry hext herr1
    obtain ⟨f0, f1, f2, f3, f4, f5⟩ := doneFlush_spec (carryOut c (E / 8388608)) s1 (by omega) herr
    have sr := (sameRaw_flush (carryOut c (E / 8388608))).trans (sameRaw_carryOut c (E / 8388608))
    generalize carryOut c (E / 8388608) = c1 at *
    generalize (if c1.rem ≥ 0 ∨ c1.ext > 0 then carryOut c1 0 else c1) = c2 at *
    have hdrop : c2.buf.drop c2.offs = c.buf.drop c2.offs := by
      rw [f1]; exact drop_trans f4 s4 f5
    have hmodT : digitsVal c1 % 2 ^ (8 - l0) = 0 ∧ E * 256 % 2147483648 = 0 := by
      generalize digitsVal c = D at *
      generalize digitsVal c1 = D1 at *
      rcases (show l0 = 1 ∨ l0 = 2 ∨ l0 = 3 ∨ l0 = 4 ∨ l0 = 5 ∨ l0 = 6 ∨ l0 = 7 ∨ l0 = 8 by omega) with
        h | h | h | h | h | h | h | h <;>
        (subst h; simp only [Nat.reduceSub, Nat.reducePow] at hmod ⊢; omega)
    refine ⟨l0, 8 - l0, by omega, by omega, ⟨hil, hil2⟩, by rw [f1, s3]; omega, s0, f3, by omega, sr, hdrop,
      by rw [f1, f2]; exact hmodT.1, ?_⟩
    intro B S hB δ hδ hcv
    rw [f1, f2] at hcv
    rw [s3] at hcv
    unfold Contains encLow
    have e4 : encM c + 4 = encM c + 1 + 3 := by omega
    rw [e4]
    generalize encM c + 1 = n1 at hcv ⊢
    have b1 := hB n1; have b2 := hB (n1 + 1); have b3 := hB (n1 + 2)
    simp only [codeVal]
    rw [hcv]
    rw [hmodT.2] at s2
    generalize digitsVal c = D at *
    generalize digitsVal c1 = D1 at *
    rcases (show l0 = 1 ∨ l0 = 2 ∨ l0 = 3 ∨ l0 = 4 ∨ l0 = 5 ∨ l0 = 6 ∨ l0 = 7 ∨ l0 = 8 by omega) with
      h | h | h | h | h | h | h | h <;>
      (subst h; simp only [Nat.reduceSub, Nat.reducePow] at hmod htop hδ; omega)
  · -- two bytes
    subst h2
    rw [encDoneOut_pos c E _ (by omega), encDoneOut_pos _ _ _ (by omega), encDoneOut_nonpos _ _ _ (by omega)]
      at herr ⊢
    simp only at herr ⊢
    have herr2 := doneFlush_error _ herr
    have herr1 : (carryOut c (E / 8388608)).error = 0 := by
      apply Classical.byContradiction; intro hne
      exact carryOut_error_mono _ _ hne herr2
    obtain ⟨s0, s1, s2, s3, s4, s5, s6, s7⟩ := doneOut_step c E wf hE32 hcarry hext herr1
    obtain ⟨t0, t1, t2, t3, t4, t5, t6, t7⟩ := doneOut_step (carryOut c (E / 8388608)) (E * 256 % 2147483648) s1
      (by omega) (fun h => by omega) (by omega) herr2
    obtain ⟨f0, f1, f2, f3, f4, f5⟩ := doneFlush_spec _ t1 (by omega) herr
    have sr := ((sameRaw_flush (carryOut (carryOut c (E / 8388608)) (E * 256 % 2147483648 / 8388608))).trans
      (sameRaw_carryOut _ _)).trans (sameRaw_carryOut c (E / 8388608))
    generalize carryOut c (E / 8388608) = c1 at *
    generalize carryOut c1 (E * 256 % 2147483648 / 8388608) = c1' at *
    generalize (if c1'.rem ≥ 0 ∨ c1'.ext > 0 then carryOut c1' 0 else c1') = c2 at *
    have hdrop : c2.buf.drop c2.offs = c.buf.drop c2.offs := by
      rw [f1]
      have h12 : c1'.buf.drop (encM c1') = c.buf.drop (encM c1') := drop_trans
        (drop_trans (a := c1'.buf) (b := c1'.buf) rfl t4 f5) s4 (by omega)
      rw [f4, h12]
    simp only [Nat.reduceSub, Nat.reducePow] at hmod htop
    have hmodT : digitsVal c1' % 128 = 0 ∧ E * 256 % 2147483648 * 256 % 2147483648 = 0 := by
      generalize digitsVal c = D at *
      generalize digitsVal c1 = D1 at *
      generalize digitsVal c1' = D2 at *
      omega
    refine ⟨9, 7, by omega, by omega, ⟨hil, hil2⟩, by rw [f1, t3, s3]; omega, s0, f3, by omega, sr, hdrop,
      by rw [f1, f2]; exact hmodT.1, ?_⟩
    intro B S hB δ hδ hcv
    rw [f1, f2] at hcv
    rw [t3, s3] at hcv
    unfold Contains encLow
    have e4 : encM c + 4 = encM c + 1 + 1 + 2 := by omega
    rw [e4]
    generalize encM c + 1 + 1 = n2 at hcv ⊢
    have b2 := hB n2; have b3 := hB (n2 + 1)
    simp only [codeVal]
    rw [hcv]
    rw [hmodT.2] at t2
    simp only [Nat.reducePow] at hδ
    generalize digitsVal c = D at *
    generalize digitsVal c1 = D1 at *
    generalize digitsVal c1' = D2 at *
    omega

/-! ### The raw-bit half and the final buffer -/

/-- The raw-bit half of `ec_enc_done` (entenc.c:290-318). -/
def doneRaw (c2 : Enc) (l1 : Int) : Enc :=
  encDoneTail (encDoneFlush c2 c2.endWindow c2.nendBits).1 l1
    (encDoneFlush c2 c2.endWindow c2.nendBits).2.1 (encDoneFlush c2 c2.endWindow c2.nendBits).2.2

theorem encDone_eq' (c : Enc) : encDone c = doneRaw (doneRange c).1 (doneRange c).2 := rfl

theorem bytesOk_clearMiddle {c : Enc} (h : BytesOk c.buf) : BytesOk (clearMiddle c).buf := by
  intro b hb
  unfold clearMiddle at hb
  simp only [List.mem_append, List.mem_replicate] at hb
  rcases hb with (h1 | h1) | h1
  · exact h b (List.mem_of_mem_take h1)
  · omega
  · exact h b (List.mem_of_mem_drop h1)

theorem or_lt_256 {a b : Nat} (ha : a < 256) (hb : b < 256) : a ||| b < 256 :=
  Nat.or_lt_two_pow (n := 8) ha hb

theorem mod_pow_of_le {x T u : Nat} (hx : x % 2 ^ T = 0) (hu : u ≤ T) : x % 2 ^ u = 0 := by
  have h1 : 2 ^ u ∣ 2 ^ T := Nat.pow_dvd_pow 2 hu
  exact Nat.mod_eq_zero_of_dvd (Nat.dvd_trans h1 (Nat.dvd_of_mod_eq_zero hx))

theorem low_byte_mod {A x T : Nat} (hT : T ≤ 7) (h : (A * 256 + x) % 2 ^ T = 0) : x % 2 ^ T = 0 := by
  rcases (show T = 0 ∨ T = 1 ∨ T = 2 ∨ T = 3 ∨ T = 4 ∨ T = 5 ∨ T = 6 ∨ T = 7 by omega) with
    h' | h' | h' | h' | h' | h' | h' | h' <;> (subst h'; simp only [Nat.reducePow] at h ⊢; omega)

theorem encDoneFlush_bytesOk (c : Enc) (w u : Nat) (h : BytesOk c.buf) : BytesOk (encDoneFlush c w u).1.buf := by
  fun_induction encDoneFlush c w u with
  | case1 c w u hu ih =>
    apply ih
    unfold writeByteAtEnd
    split
    · exact h
    · exact bytesOk_set h _ _ (Nat.mod_lt _ (by decide))
  | case2 c w u hu => exact h

theorem clearMiddle_length (c : Enc) (ho : c.offs + c.endOffs ≤ c.storage) (hs : c.storage ≤ c.buf.length) :
    (clearMiddle c).buf.length = c.buf.length := by
  unfold clearMiddle
  simp only [List.length_append, List.length_take, List.length_replicate, List.length_drop]
  omega

/-- The shape of a successful tail of `ec_enc_done`. -/
theorem encDoneTail_ok (c3 : Enc) (l : Int) (w3 u3 : Nat) (h : (encDoneTail c3 l w3 u3).error = 0) :
    c3.error = 0 ∧ (u3 = 0 → encDoneTail c3 l w3 u3 = clearMiddle c3) ∧
    (u3 > 0 → c3.endOffs < c3.storage ∧ ¬ (c3.offs + c3.endOffs ≥ c3.storage ∧ (-l).toNat < u3) ∧
      encDoneTail c3 l w3 u3 =
        { clearMiddle c3 with
          buf := (clearMiddle c3).buf.set (c3.storage - c3.endOffs - 1) ((clearMiddle c3).buf.getD (c3.storage - c3.endOffs - 1) 0 ||| (w3 % 256)) }) := by
  unfold encDoneTail at h ⊢
  by_cases he : c3.error = 0
  · rw [if_pos he] at h ⊢
    simp only at h ⊢
    have hce : (clearMiddle c3).error = 0 := he
    have hcs : (clearMiddle c3).storage = c3.storage := rfl
    have hco : (clearMiddle c3).offs = c3.offs := rfl
    have hceo : (clearMiddle c3).endOffs = c3.endOffs := rfl
    refine ⟨he, ?_, ?_⟩
    · intro hu; rw [if_neg (by omega)]
    · intro hu
      rw [if_pos hu] at h ⊢
      rw [hcs, hco, hceo] at h ⊢
      by_cases h1 : c3.endOffs ≥ c3.storage
      · rw [if_pos h1] at h; simp at h
      · rw [if_neg h1] at h ⊢
        by_cases h2 : c3.offs + c3.endOffs ≥ c3.storage ∧ (-l).toNat < u3
        · rw [if_pos h2] at h; simp at h
        · rw [if_neg h2]
          exact ⟨by omega, h2, rfl⟩
  · rw [if_neg he] at h; exact absurd h he

/-- Invariant F for the whole buffer: after a successful `ec_enc_done` the committed range bytes
    are in place (up to bits OR-ed into the `T` unused low bits of the last one) and the tail of
    the buffer holds exactly the raw bits. -/
theorem doneRaw_spec (c2 : Enc) (T : Nat) (hT : T ≤ 7) (ho : c2.offs + c2.endOffs ≤ c2.storage)
    (hs : c2.storage ≤ c2.buf.length) (ri : RawInv c2) (hb : BytesOk c2.buf)
    (hz : bytesVal (c2.buf.take c2.offs) % 2 ^ T = 0)
    (herr : (doneRaw c2 (-(T : Int))).error = 0) :
    c2.error = 0 ∧ (doneRaw c2 (-(T : Int))).storage = c2.storage ∧
    (doneRaw c2 (-(T : Int))).buf.length = c2.buf.length ∧ BytesOk (doneRaw c2 (-(T : Int))).buf ∧
    (∃ δ, δ < 2 ^ T ∧
      codeVal (doneRaw c2 (-(T : Int))).buf c2.storage c2.offs = bytesVal (c2.buf.take c2.offs) + δ) ∧
    tailVal (doneRaw c2 (-(T : Int))).buf c2.storage c2.storage % 2 ^ rawN c2 = rawQ c2 c2.endWindow := by
  obtain ⟨rw_, rn⟩ := ri
  unfold doneRaw at herr ⊢
  obtain ⟨herr3, hA, hBc⟩ := encDoneTail_ok _ _ _ _ herr
  obtain ⟨k0, k1, k2, k3, k4, k5, k6, k7, k8⟩ := encDoneFlush_spec c2 c2.endWindow c2.nendBits ho hs herr3
  have hb3 := encDoneFlush_bytesOk c2 c2.endWindow c2.nendBits hb
  generalize encDoneFlush c2 c2.endWindow c2.nendBits = st at *
  obtain ⟨c3, w3, u3⟩ := st
  simp only at k1 k2 k3 k4 k5 k6 k7 k8 herr herr3 hA hBc hb3 ⊢
  have e_offs : c3.offs = c2.offs := by rw [k1]
  have e_sto : c3.storage = c2.storage := by rw [k1]
  have e_eo : c3.endOffs = c2.endOffs + c2.nendBits / 8 := by rw [k1]
  generalize heo : c2.endOffs + c2.nendBits / 8 = eo at *
  have hw3 : w3 < 2 ^ u3 := by
    rw [k2, k3, Nat.div_lt_iff_lt_mul (Nat.pow_pos (by decide)), ← two_pow_8mul]
    have : c2.nendBits % 8 + 8 * (c2.nendBits / 8) = c2.nendBits := by omega
    rw [this]; exact rw_
  have hu3 : u3 < 8 := by omega
  have hrawN : rawN c2 = u3 + 8 * eo := by unfold rawN; omega
  have hcm : ∀ i, (clearMiddle c3).buf.getD i 0 =
      if c2.offs ≤ i ∧ i < c2.storage - eo then 0 else c3.buf.getD i 0 := by
    intro i
    have := clearMiddle_getD c3 (by omega) (by omega) i
    rw [e_offs, e_sto, e_eo] at this; exact this
  have hcml : (clearMiddle c3).buf.length = c2.buf.length := by
    rw [clearMiddle_length c3 (by omega) (by omega), k6]
  have hcmb : BytesOk (clearMiddle c3).buf := bytesOk_clearMiddle hb3
  have hcv2 : ∀ n, n ≤ c2.offs → codeVal c2.buf c2.storage n = bytesVal (c2.buf.take n) := fun n hn =>
    codeVal_eq_bytesVal c2.buf c2.storage n (by omega) (by omega)
  have hq : rawQ c2 c2.endWindow = tailVal c3.buf c2.storage eo + w3 * 256 ^ eo := by
    rw [← k4]; unfold rawQ; rw [e_sto, e_eo]
  rw [hrawN, two_pow_8mul, hq]
  by_cases hu : u3 = 0
  · -- no partial byte
    rw [hA hu]
    have hw0 : w3 = 0 := by rw [hu] at hw3; simpa using hw3
    refine ⟨k0, e_sto, hcml, hcmb, ⟨0, Nat.pow_pos (by decide), ?_⟩, ?_⟩
    · rw [Nat.add_zero, ← hcv2 _ (Nat.le_refl _)]
      apply codeVal_congr
      intro i hi
      unfold byteAt
      rw [if_pos (by omega), if_pos (by omega), hcm i, if_neg (by omega)]
      exact k7 i (by omega)
    · rw [hu, hw0, Nat.pow_zero, Nat.one_mul, Nat.zero_mul, Nat.add_zero]
      have hS : eo + (c2.storage - eo) = c2.storage := by omega
      have hlow := tailVal_low (fun j => endByte_lt hcmb c2.storage j) eo (c2.storage - eo)
      rw [hS] at hlow
      rw [hlow]
      apply tailVal_congr
      intro j hj
      unfold endByte
      rw [if_pos (by omega), if_pos (by omega), hcm, if_neg (by omega)]
  · -- a partial byte is merged
    obtain ⟨b1, b2, b3⟩ := hBc (by omega)
    rw [b3]
    simp only
    simp only [e_sto, e_eo, e_offs] at b1 b2 ⊢
    have hTl : (-(-(T : Int))).toNat = T := by omega
    rw [hTl] at b2
    generalize hi : c2.storage - eo - 1 = i at *
    generalize hx : (clearMiddle c3).buf.getD i 0 = x at *
    have hw256 : w3 % 256 = w3 := by
      have : 2 ^ u3 ≤ 2 ^ 7 := Nat.pow_le_pow_right (by decide) (by omega)
      omega
    rw [hw256]
    have hx256 : x < 256 := by rw [← hx]; exact getD_lt_of_bytesOk hcmb i
    -- the byte under the partial byte
    have hxT : x % 2 ^ u3 = 0 ∧ (c2.offs + eo ≥ c2.storage → x % 2 ^ T = 0 ∧ u3 ≤ T) := by
      by_cases hsh : c2.offs + eo ≥ c2.storage
      · have hiT : i + 1 = c2.offs := by omega
        have hxv : x = c2.buf.getD i 0 := by
          rw [← hx, hcm i, if_neg (by omega)]; exact k7 i (by omega)
        have hcv := hcv2 (i + 1) (by omega)
        rw [codeVal, hiT] at hcv
        unfold byteAt at hcv
        rw [if_pos (by omega), ← hxv] at hcv
        rw [← hcv] at hz
        have hxT := low_byte_mod hT hz
        have huT : u3 ≤ T := by omega
        exact ⟨mod_pow_of_le hxT huT, fun _ => ⟨hxT, huT⟩⟩
      · have hx0 : x = 0 := by rw [← hx, hcm i, if_pos ⟨by omega, by omega⟩]
        refine ⟨by rw [hx0]; simp, fun h => absurd h hsh⟩
    have hor : x ||| w3 = x + w3 := or_add_of_mod x w3 u3 hxT.1 hw3
    rw [hor]
    have hset : ∀ j, ((clearMiddle c3).buf.set i (x + w3)).getD j 0 =
        if j = i then x + w3 else (clearMiddle c3).buf.getD j 0 := by
      intro j
      rw [getD_set]
      by_cases hji : i = j
      · subst hji; rw [if_pos ⟨rfl, by omega⟩, if_pos rfl]
      · rw [if_neg (fun h => hji h.1), if_neg (fun h => hji h.symm)]
    have hxw : x + w3 < 256 := by rw [← hor]; exact or_lt_256 hx256 (by omega)
    refine ⟨k0, e_sto, by rw [List.length_set]; exact hcml, bytesOk_set hcmb _ _ hxw, ?_, ?_⟩
    · by_cases hsh : c2.offs + eo ≥ c2.storage
      · obtain ⟨hxT', huT⟩ := hxT.2 hsh
        have hiT : i + 1 = c2.offs := by omega
        refine ⟨w3, Nat.lt_of_lt_of_le hw3 (Nat.pow_le_pow_right (by decide) huT), ?_⟩
        rw [← hcv2 _ (Nat.le_refl _), ← hiT, codeVal, codeVal]
        have e1 : codeVal ((clearMiddle c3).buf.set i (x + w3)) c2.storage i = codeVal c2.buf c2.storage i := by
          apply codeVal_congr
          intro j hj
          unfold byteAt
          rw [if_pos (by omega), if_pos (by omega), hset, if_neg (by omega), hcm j, if_neg (by omega)]
          exact k7 j (by omega)
        have e2 : byteAt ((clearMiddle c3).buf.set i (x + w3)) c2.storage i = x + w3 := by
          unfold byteAt; rw [if_pos (by omega), hset, if_pos rfl]
        have e3 : byteAt c2.buf c2.storage i = x := by
          unfold byteAt; rw [if_pos (by omega), ← hx, hcm i, if_neg (by omega)]
          exact (k7 i (by omega)).symm
        rw [e1, e2, e3]; omega
      · refine ⟨0, Nat.pow_pos (by decide), ?_⟩
        rw [Nat.add_zero, ← hcv2 _ (Nat.le_refl _)]
        apply codeVal_congr
        intro j hj
        unfold byteAt
        rw [if_pos (by omega), if_pos (by omega), hset, if_neg (by omega), hcm j, if_neg (by omega)]
        exact k7 j (by omega)
    · have hS : eo + 1 + (c2.storage - eo - 1) = c2.storage := by omega
      have hbo : BytesOk ((clearMiddle c3).buf.set i (x + w3)) := bytesOk_set hcmb _ _ hxw
      have hlow := tailVal_succ_mod (fun j => endByte_lt hbo c2.storage j) eo (c2.storage - eo - 1) u3 (by omega)
      rw [hS] at hlow
      rw [hlow]
      have e1 : tailVal ((clearMiddle c3).buf.set i (x + w3)) c2.storage eo = tailVal c3.buf c2.storage eo := by
        apply tailVal_congr
        intro j hj
        unfold endByte
        rw [if_pos (by omega), if_pos (by omega), hset, if_neg (by omega), hcm, if_neg (by omega)]
      have e2 : endByte ((clearMiddle c3).buf.set i (x + w3)) c2.storage eo = x + w3 := by
        unfold endByte
        rw [if_pos (by omega), hset, if_pos (by omega)]
      rw [e1, e2]
      have e3 : (x + w3) % 2 ^ u3 = w3 := by
        rw [Nat.add_mod, hxT.1, Nat.zero_add, Nat.mod_mod, Nat.mod_eq_of_lt hw3]
      rw [e3]

/-! ### `ec_enc_done` as a whole -/

/-- The raw bits written so far are the low bits of the tail of the stream `(B, S)`. -/
def RawC (B : List Nat) (S : Nat) (c : Enc) : Prop := tailVal B S S % 2 ^ rawN c = rawQ c c.endWindow

theorem byteAt_lt_bytesOk {B : List Nat} (hB : BytesOk B) (S i : Nat) : byteAt B S i < 256 := by
  unfold byteAt; split
  · exact getD_lt_of_bytesOk hB _
  · omega

theorem doneRange_bytesOk (c : Enc) (h : BytesOk c.buf) : BytesOk (doneRange c).1.buf := by
  have h1 := encDoneOut_pres (fun c => BytesOk c.buf) writeByte_bytesOk (fun _ _ h => h) (fun _ _ h => h)
    c (encDoneEnd c).2 (encDoneEnd c).1 h
  unfold doneRange
  simp only
  split
  · exact carryOut_bytesOk _ _ h1
  · exact h1

theorem doneRaw_error_mono (c2 : Enc) (l : Int) (h : c2.error ≠ 0) : (doneRaw c2 l).error ≠ 0 := by
  unfold doneRaw encDoneTail
  have := encDoneFlush_error_mono c2 c2.endWindow c2.nendBits h
  rw [if_neg this]; exact this

/-- Invariant F: after a successful `ec_enc_done` the finished buffer denotes a code value inside
    the final interval, and its tail holds exactly the raw bits. -/
theorem encDone_spec (c : Enc) (inv : EncInv c) (ri : RawInv c) (hb : BytesOk c.buf)
    (hn : c.nbitsTotal < 4294967296) (herr : (encDone c).error = 0) :
    c.error = 0 ∧ (encDone c).storage = c.storage ∧ (encDone c).buf.length = c.buf.length ∧
    BytesOk (encDone c).buf ∧ Contains (encDone c).buf c.storage c ∧ RawC (encDone c).buf c.storage c := by
  rw [encDone_eq'] at herr ⊢
  have herr2 : (doneRange c).1.error = 0 := by
    apply Classical.byContradiction; intro hne
    exact doneRaw_error_mono _ _ hne herr
  obtain ⟨l0, T, hl1, hT, hil, hbits, e0, wf2, ho, sr, hdrop, hz, hcont⟩ := doneRange_spec c inv hn herr2
  rw [hl1] at herr ⊢
  have hb2 := doneRange_bytesOk c hb
  generalize (doneRange c).1 = c2 at *
  obtain ⟨s1, s2, s3, s4, s5, s6⟩ := sr
  obtain ⟨_, d1, d2, d3, ⟨δ, hδ, hcv⟩, d5⟩ := doneRaw_spec c2 T hT wf2.offs_le wf2.storage_le
    ⟨by rw [s3, s4]; exact ri.win_lt, by rw [s4]; exact ri.nend_le⟩ hb2 hz herr
  rw [s1] at d1 hcv d5
  refine ⟨e0, d1, by rw [d2, s5], d3, ?_, ?_⟩
  · exact hcont _ _ (fun i => byteAt_lt_bytesOk d3 _ i) δ hδ hcv
  · unfold RawC
    have e1 : rawN c2 = rawN c := by unfold rawN; rw [s2, s4]
    have e2 : rawQ c2 c2.endWindow = rawQ c c.endWindow := by
      unfold rawQ
      rw [s1, s2, s3]
      congr 1
      apply tailVal_congr
      intro j hj
      have := wf2.offs_le
      unfold endByte
      rw [if_pos (by omega), if_pos (by omega)]
      exact getD_of_drop_eq hdrop _ (by omega)
    rw [← e1, ← e2]; exact d5

/-- A successful `ec_enc_done` has written at least as many bytes as there are digits, and at
    least one byte unless the interval is still the whole code space. -/
theorem encDone_storage_pos (c : Enc) (inv : EncInv c) (hn : c.nbitsTotal < 4294967296)
    (herr : (encDone c).error = 0) (h : 1 ≤ encM c ∨ c.rng < 2147483648) : 0 < c.storage := by
  rw [encDone_eq'] at herr
  have herr2 : (doneRange c).1.error = 0 := by
    apply Classical.byContradiction; intro hne
    exact doneRaw_error_mono _ _ hne herr
  obtain ⟨l0, T, _, _, hil, hbits, _, wf2, _, sr, _, _, _⟩ := doneRange_spec c inv hn herr2
  have h1 := wf2.offs_le
  rw [sr.1] at h1
  have hl : 1 ≤ encM c ∨ 1 ≤ l0 := by
    rcases h with h | h
    · exact Or.inl h
    · right
      have : ilog c.rng ≤ 31 := by rw [ilog_lt_iff]; exact h
      omega
  omega

end Opus.RangeCoder
