import OpusModel.SilkSynthIdxFrame
import OpusProofs.SilkSynthIdxFrame
import OpusProofs.SilkSynthIdxHist
/-
  OpusProofs.SilkSynthIdxInit — initialised-before-read for the two LTP state arrays that are fresh stack arrays in every
  call: `sLTP_Q15` of silk_decode_core and `sLTP_Q14` of silk_PLC_conceal.  Both are written from
  `sLTP_buf_idx - lag₀ - LTP_ORDER/2` upwards before the sub-frame loop (re-whitening) and then read at
  `sLTP_buf_idx - lag_k - LTP_ORDER/2 …` with the lag of LATER sub-frames: safe because the lags of one frame differ by
  less than one sub-frame (contour codebooks: spread ≤ 18 < 40 samples; PLC pitch drift ≤ 1% per sub-frame).
-/
namespace Opus.SilkSynthIdx
open Opus Opus.Gen Opus.SilkParams

theorem voicedAt_zero (x : CoreIn) (k : Nat) (h : voicedAt x k = true) : voicedAt x 0 = true := by
  unfold voicedAt transition at *
  simp only [Bool.or_eq_true, Bool.and_eq_true, decide_eq_true_eq] at *
  rcases h with h | h
  · exact Or.inl ⟨h.1, by rw [consts.2.1]; decide⟩
  · exact Or.inr h

theorem initLoop_ok (x : CoreIn) (h : CoreOk x) (hc : CfgNum x.cfg)
    (hsp : ∀ k, k < x.nbSubfr → voicedAt x k = true → lagOf x k ≤ lagOf x 0 + x.cfg.subfr) :
    ∀ (n k : Nat) (pos wlo : Int), k + n = x.nbSubfr → (k = 0 → pos = x.cfg.ltpMem) →
      (1 ≤ k → voicedAt x 0 = true → x.cfg.ltpMem + x.cfg.subfr ≤ pos ∧ wlo ≤ x.cfg.ltpMem - lagOf x 0 - 2) →
      initLoop x n k pos wlo = true := by
  have hS := subfr_pos x.cfg hc
  have hhalf : SilkSynth.ltpOrder / 2 = 2 := by rw [consts.2.2.1]; decide
  have hfs8 : 8 ≤ x.fsKHz := by rcases h.fs with h' | h' | h' <;> omega
  intro n
  induction n with
  | zero => intro k pos wlo _ _ _; rfl
  | succ n ih =>
    intro k pos wlo hkn hk0 hk1
    unfold initLoop
    by_cases hv : voicedAt x k = true
    · rw [if_pos hv]
      simp only [hhalf]
      have hv0 := voicedAt_zero x k hv
      have hl := lag_bounds x h k (by omega) hv
      have hs := hsp k (by omega) hv
      have h3 : 3 ≤ lagOf x k := by omega
      -- the written range after the (possible) re-whitening of this sub-frame: it only grows downwards
      generalize hw : (if (decide (k = 0 ∨ (k = 2 ∧ x.interp = true)) = true) ∧ pos - (lagOf x k + 2) < pos
        then min wlo (pos - (lagOf x k + 2)) else wlo) = wlo1
      have hw1 : wlo1 ≤ wlo := by
        rw [← hw]; split
        · exact Int.min_le_left _ _
        · exact Int.le_refl _
      have hlo : wlo1 ≤ pos - (lagOf x k + 2) := by
        by_cases hkz : k = 0
        · rw [← hw, if_pos ⟨by simp [hkz], by omega⟩]; exact Int.min_le_right _ _
        · have hk := hk1 (by omega) hv0; omega
      simp only [hlo, h3, decide_true, Bool.or_true, Bool.true_and]
      apply ih (k + 1) _ _ (by omega) (by omega)
      intro _ _
      by_cases hkz : k = 0
      · have hp := hk0 hkz
        subst hkz
        exact ⟨by omega, by omega⟩
      · have hk := hk1 (by omega) hv0
        exact ⟨by omega, by omega⟩
    · rw [if_neg hv]
      apply ih (k + 1) _ _ (by omega) (by omega)
      intro _ hv0
      by_cases hkz : k = 0
      · subst hkz; exact absurd hv0 hv
      · exact hk1 (by omega) hv0

/-- silk_decode_core reads no element of `sLTP_Q15` before writing it, when the decoded lags of a voiced frame lie within
    one sub-frame of the first one (what `silk_decode_pitch` delivers, see `decodePitch_spread`). -/
theorem coreInitOk_of_spread (x : CoreIn) (h : CoreOk x) (hc : CfgNum x.cfg)
    (hsp : x.signalType = 2 → ∀ k, k < x.nbSubfr → x.pitchL.getD k 0 ≤ x.pitchL.getD 0 0 + x.cfg.subfr) :
    coreInitOk x = true := by
  unfold coreInitOk
  apply initLoop_ok x h hc ?_ x.nbSubfr 0 _ _ (by omega) (fun _ => rfl) (by intro h0; omega)
  intro k hk hv
  have hS := subfr_pos x.cfg hc
  unfold lagOf
  by_cases ht : transition x k = true
  · have ht0 : transition x 0 = true := by
      unfold transition at *
      simp only [Bool.and_eq_true, decide_eq_true_eq] at *
      exact ⟨ht.1, by rw [consts.2.1]; decide⟩
    rw [if_pos ht, if_pos ht0]; omega
  · have hsig : x.signalType = 2 := by
      unfold voicedAt at hv
      simp only [Bool.or_eq_true, decide_eq_true_eq] at hv
      rcases hv with hv | hv
      · exact absurd hv ht
      · rw [consts.1] at hv; exact hv
    have ht0 : ¬ transition x 0 = true := by
      unfold transition
      simp only [Bool.and_eq_true, decide_eq_true_eq]
      intro hh; rw [consts.1] at hh; exact hh.1.2 hsig
    rw [if_neg ht, if_neg ht0]
    exact hsp hsig k hk

/-! ### silk_PLC_conceal -/

theorem concealInitLoop_ok (c : Cfg) (hc : CfgNum c) (wlo : Int) :
    ∀ (n : Nat) (pos p : Int), 2 * c.fsKHz * 256 ≤ p → p ≤ 18 * c.fsKHz * 256 →
      wlo ≤ pos - (rshiftRound p 8 + 2) → concealInitLoop c wlo n pos p = true := by
  obtain ⟨hcase, _, _⟩ := hc
  obtain ⟨d1, d2, d3, _⟩ := consts2
  have hhalf : SilkSynth.ltpOrder / 2 = 2 := by rw [consts.2.2.1]; decide
  have hfs : 8 ≤ c.fsKHz ∧ c.fsKHz ≤ 16 := by rcases hcase with ⟨h, _⟩ | ⟨h, _⟩ | ⟨h, _⟩ <;> omega
  have hS : 40 ≤ c.subfr := by rcases hcase with ⟨_, h, _⟩ | ⟨_, h, _⟩ | ⟨_, h, _⟩ <;> omega
  intro n
  induction n with
  | zero => intro pos p _ _ _; rfl
  | succ n ih =>
    intro pos p h0 h1 hw
    have hlag := lag_of_q8 c.fsKHz p h0 h1
    have hdr := drift_range c.fsKHz p hfs h0 h1
    unfold concealInitLoop
    simp only [hhalf, d2, d3]
    have h3 : 3 ≤ rshiftRound p 8 := by omega
    simp only [hw, h3, decide_true, Bool.true_and]
    apply ih _ _ hdr.1 hdr.2
    -- the lag grows by at most 1% (+ rounding) per sub-frame, far less than a sub-frame
    have hstep : rshiftRound (min (smlawb p p 655) (18 * c.fsKHz * 256)) 8 ≤ rshiftRound p 8 + 4 := by
      have hle : min (smlawb p p 655) (18 * c.fsKHz * 256) ≤ p + 737 := by
        have hw16 : wrap16 655 = 655 := by decide
        have : smlawb p p 655 = p + p * 655 / 65536 := by
          unfold smlawb; rw [hw16]; unfold wrap32; omega
        have h2 := Int.min_le_left (smlawb p p 655) (18 * c.fsKHz * 256)
        omega
      generalize min (smlawb p p 655) (18 * c.fsKHz * 256) = q at *
      unfold rshiftRound
      rw [if_neg (by decide)]
      show (q / (2 : Int) ^ 7 + 1) / 2 ≤ (p / (2 : Int) ^ 7 + 1) / 2 + 4
      rw [pow2_7']; omega
    omega

/-- silk_PLC_conceal reads no element of `sLTP_Q14` before writing it. -/
theorem concealInitOk_of_inv (s : DecSt) (hcfg : Configured s) (hp : 2 * s.fsKHz * 256 ≤ s.pitchLQ8 ∧ s.pitchLQ8 ≤ 18 * s.fsKHz * 256) :
    concealInitOk s = true := by
  unfold concealInitOk
  have hc : CfgNum s.cfg := cfgOf_num s.fsKHz s.nbSubfr hcfg.1 hcfg.2
  have hhalf : SilkSynth.ltpOrder / 2 = 2 := by rw [consts.2.2.1]; decide
  simp only [hhalf]
  exact concealInitLoop_ok s.cfg hc _ _ _ _ hp.1 hp.2 (by omega)

/-- One silk_decode_frame call on a state satisfying the invariant: no uninitialised LTP state is read. -/
theorem frameInitOk_ok (s : DecSt) (f : FrameIn) (hcfg : Configured s) (hinv : Inv s) (hf : FrameOk s f)
    (hsp : f.lost = false → f.signalType = 2 → ∀ k, k < s.nbSubfr →
      f.pitchL.getD k 0 ≤ f.pitchL.getD 0 0 + s.cfg.subfr) :
    frameInitOk s f = true := by
  unfold frameInitOk
  cases hlost : f.lost
  · simp only [Bool.false_eq_true, if_false]
    have hx : CoreOk (coreInOf s f) :=
      { fs := hcfg.1, nb := hcfg.2, sig := hf.sig, qoff := hf.qoff, lags := hf.lags hlost,
        lagPrev := fun h1 h2 _ => hinv.lagPrev h2 h1 }
    exact coreInitOk_of_spread _ hx (cfgOf_num s.fsKHz s.nbSubfr hcfg.1 hcfg.2) (hsp hlost)
  · simp only [if_true]
    obtain ⟨_, hrfs, hrnb, _, _, _, _, hrpitch, _, _⟩ := plcReset_ok s hcfg hinv
    apply concealInitOk_of_inv
    · unfold Configured; rw [hrfs, hrnb]; exact hcfg
    · rw [hrfs]; exact hrpitch

end Opus.SilkSynthIdx
