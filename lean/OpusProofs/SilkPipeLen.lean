import OpusProofs.SilkPipeTotal
import OpusProofs.SilkResampLen
/-
  OpusProofs.SilkPipeLen — the sample count of the pipeline at the API rate: frame_count * frame_duration * Fs_API.
-/
namespace Opus.SilkPipeProofs
open Opus Opus.SilkCore Opus.SilkPipe Opus.SilkCoreProofs

theorem silkFrames_total_ms (nb : Nat) (hnb : nb = 2 ∨ nb = 4) (frs : List (Nat × SilkSyms.Indices × List Int)) (S : PipeSt)
    (hI : PipeInv S) (hf : ∀ fr ∈ frs, FrameOk S.dec.fsKHz nb (frameIn fr.1 fr.2.1 fr.2.2)) :
    ∃ S' pcm, silkFrames nb S frs = .ok (S', pcm) ∧ PipeInv S' ∧ S'.dec.fsKHz = S.dec.fsKHz ∧ S'.rs.cfg = S.rs.cfg ∧
      pcm.length = frs.length * ((5 * nb) * S.rs.cfg.fsOut) ∧ ∀ x ∈ pcm, -32768 ≤ x ∧ x ≤ 32767 := by
  obtain ⟨S', pcm, h, I', f, c, l, x⟩ := silkFrames_total nb hnb frs S hI hf
  refine ⟨S', pcm, h, I', f, c, ?_, x⟩
  have hfl : frameLen S.dec.fsKHz nb = (5 * nb) * S.rs.cfg.fsIn := by
    rw [(cfg_nums (show CfgOk S.dec.fsKHz nb from ⟨hI.dec.cfg.1, hnb⟩)).2.2.1, hI.rate]
    rw [Nat.mul_comm 5 nb, Nat.mul_assoc]
  rw [l, hfl, OpusProofs.SilkResamp.outLen_ms S.rs.cfg hI.rs.cfg (5 * nb) (by omega)]

end Opus.SilkPipeProofs
