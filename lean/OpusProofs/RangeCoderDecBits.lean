import OpusProofs.RangeCoderRun
/-
  OpusProofs.RangeCoderDecBits — C08 Stage C, decoder side of the raw bits (`ec_dec_bits`,
  entdec.c:248-269) and of `ec_dec_uint`; the full decoder invariant `DecAll`.
-/
namespace Opus.RangeCoder

/-- Byte `j` from the end is digit `j` of the tail value (zero past the front of the buffer). -/
theorem endByte_eq_digit {B : List Nat} (hB : BytesOk B) (S j : Nat) :
    endByte B S j = tailVal B S S / 256 ^ j % 256 := by
  have hlt : ∀ k, endByte B S k < 256 := fun k => endByte_lt hB S k
  by_cases hj : j < S
  · obtain ⟨K, hK⟩ := tailVal_split B S (j + 1) (S - (j + 1))
    have e : j + 1 + (S - (j + 1)) = S := by omega
    rw [e] at hK
    rw [hK, tailVal]
    have h1 : tailVal B S j < 256 ^ j := tailVal_lt j (fun k _ => hlt k)
    have hp : 0 < 256 ^ j := Nat.pow_pos (by decide)
    have e2 : tailVal B S j + endByte B S j * 256 ^ j + 256 ^ (j + 1) * K =
        tailVal B S j + (endByte B S j + 256 * K) * 256 ^ j := by
      rw [Nat.pow_succ]
      generalize 256 ^ j = P
      simp only [Nat.add_mul, Nat.mul_add, Nat.mul_assoc, Nat.mul_comm, Nat.mul_left_comm, Nat.add_assoc]
    rw [e2, Nat.add_mul_div_right _ _ hp, Nat.div_eq_of_lt h1, Nat.zero_add, Nat.add_mul_mod_self_left,
      Nat.mod_eq_of_lt (hlt j)]
  · have h0 : endByte B S j = 0 := by unfold endByte; rw [if_neg hj]
    have h1 : tailVal B S S < 256 ^ S := tailVal_lt S (fun k _ => hlt k)
    have h2 : 256 ^ S ≤ 256 ^ j := Nat.pow_le_pow_right (by decide) (by omega)
    rw [h0, Nat.div_eq_of_lt (by omega)]

/-- Invariant D for the raw bits, and the complete decoder invariant. -/
structure DecAll (B : List Nat) (S : Nat) (e : Enc) (d : Dec) (Bt : List Nat) : Prop where
  rc : DecInv B S e d Bt
  err : d.error = 0
  nend : d.nendBits ≤ 32
  win : ∃ nb, d.endOffs = min nb S ∧ 8 * nb = rawN e + d.nendBits ∧
    d.endWindow = tailVal B S S / 2 ^ rawN e % 2 ^ d.nendBits

theorem readByteFromEnd_spec (B : List Nat) (hB : BytesOk B) (S : Nat) (d : Dec) (nb : Nat) (hb : d.buf = B)
    (hs : d.storage = S) (ho : d.endOffs = min nb S) :
    (readByteFromEnd d).1 = tailVal B S S / 256 ^ nb % 256 ∧
    (readByteFromEnd d).2 = { d with endOffs := min (nb + 1) S } := by
  rw [← endByte_eq_digit hB]
  unfold readByteFromEnd endByte
  by_cases h : d.endOffs < d.storage
  · have h1 : nb < S := by omega
    have e : d.endOffs = nb := by omega
    rw [if_pos h, if_pos h1]
    have e' : S - (nb + 1) = S - 1 - nb := by omega
    refine ⟨by rw [hb, hs, e, e'], ?_⟩
    simp only
    congr 1
    omega
  · have h1 : ¬ nb < S := by omega
    rw [if_neg h, if_neg h1]
    refine ⟨rfl, ?_⟩
    simp only
    have : min (nb + 1) S = d.endOffs := by omega
    rw [this]

/-- The refill loop of `ec_dec_bits`. -/
theorem decBitsFill_spec (B : List Nat) (hB : BytesOk B) (S : Nat) (R pos : Nat) (hR : R = tailVal B S S)
    (d : Dec) (w a : Nat) (nb : Nat) (hb : d.buf = B) (hs : d.storage = S) (ho : d.endOffs = min nb S)
    (ha : a ≤ 24) (hpa : pos + a = 8 * nb) (hw : w = R / 2 ^ pos % 2 ^ a) :
    ∃ nb' a', (decBitsFill d w a).1 = { d with endOffs := min nb' S } ∧ (decBitsFill d w a).2.2 = a' ∧
      24 < a' ∧ a' ≤ 32 ∧ pos + a' = 8 * nb' ∧ (decBitsFill d w a).2.1 = R / 2 ^ pos % 2 ^ a' := by
  induction hm : 32 - a using Nat.strongRecOn generalizing d w a nb with
  | _ m ih =>
    rw [decBitsFill]
    obtain ⟨r1, r2⟩ := readByteFromEnd_spec B hB S d nb hb hs ho
    generalize readByteFromEnd d = rb at *
    obtain ⟨b, c1⟩ := rb
    simp only at r1 r2 ⊢
    have hw' : w ||| u32 (b <<< a) = R / 2 ^ pos % 2 ^ (a + 8) := by
      have hb256 : b < 256 := by rw [r1]; exact Nat.mod_lt _ (by decide)
      have hsh : b <<< a < 4294967296 := by
        rw [Nat.shiftLeft_eq]
        have : 2 ^ a ≤ 2 ^ 24 := Nat.pow_le_pow_right (by decide) ha
        have : b * 2 ^ a ≤ 255 * 2 ^ 24 := Nat.mul_le_mul (by omega) this
        omega
      have hwlt : w < 2 ^ a := by rw [hw]; exact Nat.mod_lt _ (Nat.pow_pos (by decide))
      rw [u32_of_lt hsh, or_shift _ _ _ hwlt, hw, r1, Nat.pow_add, Nat.mod_mul, Nat.div_div_eq_div_mul,
        ← Nat.pow_add, hpa, ← hR]
      have : (2:Nat) ^ (8 * nb) = 256 ^ nb := by rw [Nat.pow_mul]
      rw [this]
      have : (2:Nat) ^ 8 = 256 := by decide
      rw [this, Nat.mul_comm (2 ^ a)]
    by_cases h : a + 8 ≤ 24
    · rw [dif_pos h]
      obtain ⟨nb', a', i1, i2, i3, i4, i5, i6⟩ := ih (32 - (a + 8)) (by omega) c1 (w ||| u32 (b <<< a)) (a + 8)
        (nb + 1) (by rw [r2]; exact hb) (by rw [r2]; exact hs) (by rw [r2]) (by omega) (by omega) hw' rfl
      refine ⟨nb', a', ?_, i2, i3, i4, i5, i6⟩
      rw [i1, r2]
    · rw [dif_neg h]
      exact ⟨nb + 1, a + 8, by rw [r2], rfl, by omega, by omega, by omega, hw'⟩

theorem win_take (X a n : Nat) (h : n ≤ a) :
    X % 2 ^ a % 2 ^ n = X % 2 ^ n ∧ X % 2 ^ a / 2 ^ n = X / 2 ^ n % 2 ^ (a - n) := by
  constructor
  · exact Nat.mod_mod_of_dvd _ (Nat.pow_dvd_pow 2 h)
  · have e : 2 ^ a = 2 ^ n * 2 ^ (a - n) := by rw [← Nat.pow_add]; congr 1; omega
    rw [e, Nat.mod_mul_right_div_self]

/-- The value `ec_dec_bits` must return, from the raw-bit containment of the encoder state after
    the matching `ec_enc_bits`. -/
theorem rawC_value {B : List Nat} {S : Nat} {c c' : Enc} (ri : RawInv c) (hb : BytesOk c.buf) (v n : Nat)
    (hv : v < 2 ^ n) (hq : rawQ c' c'.endWindow = rawQ c c.endWindow + v * 2 ^ rawN c)
    (hn : rawN c' = rawN c + n) (h : RawC B S c') : tailVal B S S / 2 ^ rawN c % 2 ^ n = v := by
  unfold RawC at h
  rw [hq, hn, Nat.pow_add] at h
  rw [← Nat.mod_mul_right_div_self, h, Nat.add_mul_div_right _ _ (Nat.pow_pos (by decide)),
    Nat.div_eq_of_lt (rawQ_lt c ri hb), Nat.zero_add]

/-- `ec_dec_bits` returns the next `n` raw bits and keeps the decoder invariant. -/
theorem decBits_spec (B : List Nat) (hB : BytesOk B) (S : Nat) (e e' : Enc) (d : Dec) (v n : Nat) (Bt : List Nat)
    (all : DecAll B S e d Bt) (hn : n ≤ 25)
    (hM : encM e' = encM e) (hL : encLow e' = encLow e) (hr : e'.rng = e.rng)
    (hnb : e'.nbitsTotal = e.nbitsTotal + n) (hN : rawN e' = rawN e + n)
    (hval : tailVal B S S / 2 ^ rawN e % 2 ^ n = v) :
    (decBits d n).1 = v ∧ DecAll B S e' (decBits d n).2 Bt := by
  obtain ⟨⟨ib, is, ir, inb, iv, io, irem⟩, derr, dn, nb, w1, w2, w3⟩ := all
  -- the window after the optional refill
  have key : ∃ nb' a', (if d.nendBits < n then decBitsFill d d.endWindow d.nendBits
        else (d, d.endWindow, d.nendBits)).1 = { d with endOffs := min nb' S } ∧
      (if d.nendBits < n then decBitsFill d d.endWindow d.nendBits else (d, d.endWindow, d.nendBits)).2.2 = a' ∧
      n ≤ a' ∧ a' ≤ 32 ∧ rawN e + a' = 8 * nb' ∧
      (if d.nendBits < n then decBitsFill d d.endWindow d.nendBits else (d, d.endWindow, d.nendBits)).2.1 =
        tailVal B S S / 2 ^ rawN e % 2 ^ a' := by
    by_cases hlt : d.nendBits < n
    · rw [if_pos hlt]
      obtain ⟨nb', a', i1, i2, i3, i4, i5, i6⟩ := decBitsFill_spec B hB S (tailVal B S S) (rawN e) rfl d
        d.endWindow d.nendBits nb ib is w1 (by omega) (by omega) w3
      exact ⟨nb', a', i1, i2, by omega, i4, i5, i6⟩
    · rw [if_neg hlt]
      refine ⟨nb, d.nendBits, ?_, rfl, by omega, dn, by omega, w3⟩
      simp only
      rw [← w1]
  obtain ⟨nb', a', k1, k2, k3, k4, k5, k6⟩ := key
  unfold decBits
  simp only
  generalize (if d.nendBits < n then decBitsFill d d.endWindow d.nendBits
    else (d, d.endWindow, d.nendBits)) = st at *
  obtain ⟨c1, w, a⟩ := st
  simp only at k1 k2 k6 ⊢
  subst k2
  obtain ⟨t1, t2⟩ := win_take (tailVal B S S / 2 ^ rawN e) a n k3
  refine ⟨by rw [k6, t1]; exact hval, ⟨⟨by rw [k1]; exact ib, by rw [k1]; exact is, by rw [k1, hr]; exact ir,
    by rw [k1, hnb]; simp only; omega, ?_, by rw [k1, hM]; exact io, by rw [k1, hM]; exact irem⟩,
    by rw [k1]; exact derr, by simp only; omega, nb', by rw [k1], by simp only; omega, ?_⟩⟩
  · rw [k1, hM, hL, hr]; exact iv
  · simp only
    rw [k6, t2, hN, Nat.pow_add, Nat.div_div_eq_div_mul]

/-! ### Every operation, decoder side -/

/-- A primitive range-coded operation: the decoder returns the encoded symbol and keeps the invariant. -/
theorem decOp_prim_spec (B : List Nat) (hB : BytesOk B) (S : Nat) (e : Enc) (d : Dec) (op : Op) (Bt : List Nat)
    (hag : ∀ i, 1 ≤ i → byteAt Bt S i = byteAt B S i) (hBt : ∀ i, byteAt Bt S i < 256) (ri : RunInv e)
    (hl : op.Legal) {r a b : Nat} {first : Bool} (hsub : op.sub e.rng = some (r, a, b, first))
    (all : DecAll B S e d Bt) (hn : (encOp e op).nbitsTotal < 4294967296) (herr : (encOp e op).error = 0)
    (hc : Contains Bt S (encOp e op)) :
    op.Matches (decOp d op).1 ∧ DecAll B S (encOp e op) (decOp d op).2 Bt := by
  have hBy : ∀ i, byteAt B S i < 256 := fun i => byteAt_lt_bytesOk hB S i
  obtain ⟨inv, raw, bytes⟩ := ri
  obtain ⟨dinv, derr, dn, nb, w1, w2, w3⟩ := all
  obtain ⟨ok, heq⟩ := encOp_sub e op inv hl hsub
  rw [heq] at hn herr hc ⊢
  obtain ⟨pre, _, _⟩ := encSub_spec e r a b first inv ok
  obtain ⟨_, _, n2, _, _, _, n6, _, _, n9⟩ := encNormalize_spec (encSub e r a b first) pre hn herr
  have hc' : Contains Bt S (encSub e r a b first) := n2 Bt S hBt hc
  obtain ⟨hm, x, hx⟩ := decOp_prim_eq B S e d op Bt inv hl hsub dinv hc'
  have dinv' := (decSub_spec B S e { d with ext := x } r a b first Bt inv ok (dinv.set_ext x) hc').1
  have dfin := decNormalize_spec B S hBy (encSub e r a b first) _ Bt hag hBt pre dinv' hn herr hc
  rw [encSub_endOffs] at n6
  rw [encSub_nendBits] at n9
  have eN : rawN (encNormalize (encSub e r a b first)) = rawN e := by unfold rawN; rw [n6, n9]
  refine ⟨hm, ?_⟩
  rw [hx]
  refine ⟨dfin, ?_, ?_, nb, ?_, ?_, ?_⟩
  · rw [decNormalize_error]; exact derr
  · rw [decNormalize_nendBits]; exact dn
  · rw [decNormalize_endOffs]; exact w1
  · rw [decNormalize_nendBits, eN]; exact w2
  · rw [decNormalize_endWindow, decNormalize_nendBits, eN]; exact w3

theorem sub_isSome_bitLogp (rng v logp : Nat) :
    ∃ r a b first, (Op.bitLogp v logp).sub rng = some (r, a, b, first) := by
  simp only [Op.sub]; split <;> exact ⟨_, _, _, _, rfl⟩

/-- Every operation of the round-trip theorems: the decoder returns what was encoded and keeps
    mirroring the encoder. -/
theorem decOp_spec (B : List Nat) (hB : BytesOk B) (S : Nat) (e : Enc) (d : Dec) (op : Op) (Bt : List Nat)
    (hag : ∀ i, 1 ≤ i → byteAt Bt S i = byteAt B S i) (hBt : ∀ i, byteAt Bt S i < 256) (ri : RunInv e)
    (hl : op.LegalAt e) (all : DecAll B S e d Bt) (hn : (encOp e op).nbitsTotal < 4294967296)
    (herr : (encOp e op).error = 0) (hc : Contains Bt S (encOp e op)) (hr : RawC B S (encOp e op)) :
    op.Matches (decOp d op).1 ∧ DecAll B S (encOp e op) (decOp d op).2 Bt := by
  cases op with
  | encode fl fh ft => exact decOp_prim_spec B hB S e d _ Bt hag hBt ri hl rfl all hn herr hc
  | encodeBin fl fh nb => exact decOp_prim_spec B hB S e d _ Bt hag hBt ri hl rfl all hn herr hc
  | bitLogp v logp =>
    obtain ⟨r, a, b, first, hsub⟩ := sub_isSome_bitLogp e.rng v logp
    exact decOp_prim_spec B hB S e d _ Bt hag hBt ri hl hsub all hn herr hc
  | icdf s tbl ftb => exact decOp_prim_spec B hB S e d _ Bt hag hBt ri hl rfl all hn herr hc
  | icdf16 s tbl ftb => exact decOp_prim_spec B hB S e d _ Bt hag hBt ri hl rfl all hn herr hc
  | bits v n =>
    obtain ⟨l1, l2, l3⟩ := hl
    obtain ⟨g1, g2, g3, g4, g5, g6⟩ := encBits_range e v n ri l2 l3 herr
    have hval := rawC_value ri.raw ri.bytes v n l3 g5 g6 hr
    simp only [decOp, Op.Matches, encOp]
    exact decBits_spec B hB S e _ d v n Bt all l2 g1 g2 g3 g4 g6 hval
  | shrink size =>
    obtain ⟨l1, l2⟩ := hl
    obtain ⟨_, g1, g2⟩ := step_shrink e size ri l1 l2 herr
    simp only [decOp, Op.Matches, encOp, true_and]
    obtain ⟨⟨ib, is, ir, inb, iv, io, irem⟩, derr, dn, nb, w1, w2, w3⟩ := all
    exact ⟨⟨ib, is, ir, inb, by rw [g1, g2]; exact iv, by rw [g1]; exact io, by rw [g1]; exact irem⟩, derr, dn,
      nb, w1, w2, w3⟩
  | patchInitial v n => exact absurd hl (by simp [Op.LegalAt])
  | uint v ft =>
    obtain ⟨l1, l2, l3⟩ := hl
    simp only [encOp, encUint] at hn herr hc hr ⊢
    simp only [decOp, decUint, Op.Matches]
    by_cases hb : ilog (ft - 1) > 8
    · rw [if_pos hb] at hn herr hc hr ⊢
      rw [if_pos hb]
      have hleg := uint_hi_legal l1 l2 l3 hb
      generalize hftb : ilog (ft - 1) - 8 = ftb at *
      have hftb24 : ftb ≤ 24 := by
        have : ilog (ft - 1) ≤ 32 := by rw [ilog_lt_iff]; omega
        omega
      have hp : 0 < 2 ^ ftb := Nat.pow_pos (by decide)
      have hlo : v % 2 ^ ftb < 2 ^ ftb := Nat.mod_lt _ hp
      generalize hfl : v / 2 ^ ftb = fl at *
      generalize hft' : (ft - 1) / 2 ^ ftb + 1 = ft' at *
      have hmono : (encode e fl (fl + 1) ft').nbitsTotal ≤
          (encBits (encode e fl (fl + 1) ft') (v % 2 ^ ftb) ftb).nbitsTotal := by
        have := (encBits_rn (encode e fl (fl + 1) ft') (v % 2 ^ ftb) ftb).2; omega
      have herr1 : (encode e fl (fl + 1) ft').error = 0 := by
        apply Classical.byContradiction; intro hne
        exact encBits_error_mono _ _ _ hne herr
      have s1 := step_prim e (.encode fl (fl + 1) ft') ri hleg rfl (by simp only [encOp]; omega) herr1
      simp only [encOp] at s1
      have s2 := step_bits _ _ _ s1.run (by omega) hlo herr
      have hc1 := s2.cont Bt S hBt hc
      have hr1 := s2.rawc B S hr
      obtain ⟨m1, a1⟩ := decOp_prim_spec B hB S e d (.encode fl (fl + 1) ft') Bt hag hBt ri hleg rfl all
        (by simp only [encOp]; omega) herr1 hc1
      simp only [decOp, Op.Matches, encOp] at m1 a1
      have hs : (decode d ft').1 = fl := by omega
      rw [hs]
      obtain ⟨g1, g2, g3, g4, g5, g6⟩ := encBits_range _ (v % 2 ^ ftb) ftb s1.run (by omega) hlo herr
      have hval := rawC_value s1.run.raw s1.run.bytes _ ftb hlo g5 g6 hr
      obtain ⟨b1, b2⟩ := decBits_spec B hB S _ _ _ (v % 2 ^ ftb) ftb Bt a1 (by omega) g1 g2 g3 g4 g6 hval
      rw [b1]
      have hv : u32 (fl <<< ftb) ||| v % 2 ^ ftb = v := by
        have hsh : fl <<< ftb < 4294967296 := by
          rw [Nat.shiftLeft_eq, ← hfl]
          have := Nat.div_mul_le_self v (2 ^ ftb)
          omega
        rw [u32_of_lt hsh, Nat.or_comm, or_shift _ _ _ hlo, ← hfl]
        have := Nat.div_add_mod v (2 ^ ftb)
        rw [Nat.mul_comm] at this
        omega
      rw [hv, if_pos (by omega)]
      exact ⟨rfl, b2⟩
    · rw [if_neg hb] at hn herr hc hr ⊢
      rw [if_neg hb]
      have hleg := uint_lo_legal l1 l3 hb
      obtain ⟨m1, a1⟩ := decOp_prim_spec B hB S e d (.encode v (v + 1) (ft - 1 + 1)) Bt hag hBt ri hleg rfl all hn herr hc
      simp only [decOp, Op.Matches, encOp] at m1 a1
      have hs : (decode d (ft - 1 + 1)).1 = v := by omega
      rw [hs]
      exact ⟨rfl, a1⟩

end Opus.RangeCoder
