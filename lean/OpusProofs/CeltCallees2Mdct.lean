import OpusProofs.CeltCallees2Fft
/-
  OpusProofs.CeltCallees2Mdct — the index model of `clt_mdct_backward_c` (with `opus_fft_impl` and the butterflies
  inside) stays inside the extent contract the CELT index bridge assumes (`Opus.CeltIdx.Call.accs`, `.mdct`) and inside
  the mode's tables, for all four shifts, ALL strides ≥ 0 and ALL overlaps the output block can hold.
-/
namespace Opus.CeltCallees2
open Opus.Gen.CeltFft

/-- Bounds of `clt_mdct_backward_c(l, in, out, window, overlap, shift, stride)` with `N = l->n >> shift`: the bridge's
    contract `in[0 .. stride*(N/2-1)]`, `out[0 .. overlap/2 + N/2)` (the union of `out[ov/2 .. ov/2+N/2)` and
    `out[0 .. ov)`), and `window[0 .. overlap)`, `l->trig[0 .. 1800)`, `bitrev[0 .. N/4)`, `twiddles[0 .. 480)`,
    `factors[0 .. 16)`, local `fstride[8]`. -/
def mdctB (N stride ov : Int) : CArr → Int × Int
  | .inp => (0, stride * (N / 2 - 1)) | .out => (0, ov / 2 + N / 2 - 1) | .win => (0, ov - 1) | .trig => (0, trigLen - 1)
  | .bitrev => (0, N / 4 - 1) | .tw => (0, twiddleLen - 1) | .factors => (0, 2 * MAXFACTORS - 1) | .fstride => (0, MAXFACTORS - 1)
  | _ => (1, 0)

theorem mdctAt_in (N t0 : Int) (nfft : Nat) (st : FftState) (stride ov : Int) (hN : N = 4 * nfft) (hn : 2 ≤ nfft)
    (hperm : isPerm st.bitrev nfft = true) (hfft : All (InB (fftB nfft)) (fftImplHits st))
    (ht0 : 0 ≤ t0) (ht1 : t0 + N / 2 ≤ trigLen) (hs : 0 ≤ stride) (ho0 : 0 ≤ ov) (ho1 : ov - ov / 2 ≤ N / 2) :
    All (InB (mdctB N stride ov)) (mdctHitsAt N t0 st stride ov) := by
  unfold mdctHitsAt
  apply all_append
  apply all_append
  apply all_append
  · -- pre-rotate
    apply all_loop; intro i h0 h1
    have hr := getD_mem_range hperm i h0 (by omega)
    have m1 : stride * (2 * i) ≤ stride * (N / 2 - 1) := mul_mono hs (by omega)
    have m2 : 0 ≤ stride * (2 * i) := Int.mul_nonneg hs (by omega)
    repeat' hits_step
    all_goals (refine ⟨?_, ?_⟩ <;> simp only [mdctB, trigLen] at * <;> omega)
  · -- the FFT, in place in out + overlap/2
    refine all_flatMap hfft ?_
    rintro ⟨a, i⟩ ⟨h1, h2⟩
    cases a <;> simp only [fftB, twiddleLen, MAXFACTORS] at h1 h2 <;> simp only [] <;> repeat' hits_step
    all_goals (refine ⟨?_, ?_⟩ <;> simp only [mdctB, twiddleLen, MAXFACTORS] <;> omega)
  · -- post-rotate
    repeat' hits_step
    all_goals (refine ⟨?_, ?_⟩ <;> simp only [mdctB, trigLen] at * <;> omega)
  · -- TDAC mirror
    repeat' hits_step
    all_goals (refine ⟨?_, ?_⟩ <;> simp only [mdctB] <;> omega)

/-- `clt_mdct_backward_c` on the static mode, every shift `0 .. 3`, every `stride ≥ 0`, every `overlap ≥ 0` with
    `overlap − overlap/2 ≤ N/2` (the decoder: 120, `N/2 ≥ 120`). -/
theorem mdct_in (shift stride ov : Int) (hsh : 0 ≤ shift ∧ shift ≤ 3) (hs : 0 ≤ stride) (ho0 : 0 ≤ ov)
    (ho1 : ov - ov / 2 ≤ mdctNs shift / 2) : All (InB (mdctB (mdctNs shift) stride ov)) (mdctHits shift stride ov) := by
  unfold mdctHits
  have h : shift = 0 ∨ shift = 1 ∨ shift = 2 ∨ shift = 3 := by omega
  rcases h with rfl | rfl | rfl | rfl
  · exact mdctAt_in _ _ 480 _ _ _ (by decide) (by decide) bitrev0_perm fft0_in (by decide) (by decide) hs ho0 ho1
  · exact mdctAt_in _ _ 240 _ _ _ (by decide) (by decide) bitrev1_perm fft1_in (by decide) (by decide) hs ho0 ho1
  · exact mdctAt_in _ _ 120 _ _ _ (by decide) (by decide) bitrev2_perm fft2_in (by decide) (by decide) hs ho0 ho1
  · exact mdctAt_in _ _ 60 _ _ _ (by decide) (by decide) bitrev3_perm fft3_in (by decide) (by decide) hs ho0 ho1

/-- `l` touches element `i` of array `a` (for the non-vacuity examples). -/
def touches (l : List Hit) (a : CArr) (i : Int) : Bool := l.any fun h => h.arr == a && h.idx == i

end Opus.CeltCallees2
