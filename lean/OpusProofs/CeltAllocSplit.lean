import OpusProofs.CeltAllocSkip
/-
  OpusProofs.CeltAllocSplit — the fine-energy / PVQ split of one band (rate.c:437-509) conserves bits and keeps every
  output in range; the same for the loop over the coded bands, for `spread`, and for the skipped bands.
-/
namespace OpusProofs.CeltAlloc
open Opus Opus.CeltAlloc
open Opus.Gen.CeltTables

theorem width_bounds : ∀ j, j < 21 → 1 ≤ width j ∧ width j ≤ 22 := by decide

/-- with a divisor ≥ 2 the quotient of any 32-bit value is below 2^31: no sign trouble in the conversion back -/
theorem udiv_nonneg (n d : Int) (hd : 2 ≤ d) : 0 ≤ udiv n d := by
  unfold udiv
  have h0 : 0 ≤ n % 4294967296 := Int.emod_nonneg _ (by omega)
  have h1 : n % 4294967296 < 4294967296 := Int.emod_lt_of_pos _ (by omega)
  have hq0 : 0 ≤ n % 4294967296 / d := Int.ediv_nonneg h0 (by omega)
  have hq1 : n % 4294967296 / d < 2147483648 := by
    apply Int.ediv_lt_of_lt_mul (by omega)
    omega
  rw [toS32_id hq0 hq1]; exact hq0

theorem fineBits_ok (p : Inp) (hC : p.C = 1 ∨ p.C = 2) (den offset bits : Int) (hd : 2 ≤ den) (hb : 0 ≤ bits) :
    0 ≤ fineBits p den offset bits ∧ fineBits p den offset bits ≤ 8 ∧
    (p.C : Int) * fineBits p den offset bits * 8 ≤ bits := by
  have hB : (2 : Int) ^ BITRES = 8 := by decide
  have hM : (MAX_FINE_BITS : Int) = 8 := by decide
  unfold fineBits
  simp only [hB, hM]
  have hu := udiv_nonneg (max 0 (bits + offset + den * 2 ^ (BITRES - 1))) den hd
  generalize udiv (max 0 (bits + offset + den * 2 ^ (BITRES - 1))) den = u at *
  rcases hC with hC | hC
  · simp only [hC, show ¬ (1 : Nat) > 1 by omega, if_false]
    have e0 : (2 : Int) ^ (0 : Nat) = 1 := by decide
    simp only [e0, Int.ediv_one]
    have : (((1 : Nat) : Int)) = 1 := rfl
    simp only [this, Int.one_mul]
    split <;> omega
  · simp only [hC, show (2 : Nat) > 1 by omega, if_true]
    have e1 : (2 : Int) ^ (1 : Nat) = 2 := by decide
    have : (((2 : Nat) : Int)) = 2 := rfl
    simp only [e1, this]
    split <;> omega

theorem rebal_ok (p : Inp) (hC : p.C = 1 ∨ p.C = 2) (bits e prio excess balance : Int)
    (he : 0 ≤ e ∧ e ≤ 8) (hpr : prio = 0 ∨ prio = 1) (hex : 0 ≤ excess) :
    let r := rebal p bits e prio excess balance
    r.1.pulses = bits ∧ 0 ≤ r.1.ebits ∧ r.1.ebits ≤ 8 ∧ (r.1.prio = 0 ∨ r.1.prio = 1) ∧ 0 ≤ r.2 ∧
    r.1.pulses + (p.C : Int) * r.1.ebits * 8 + r.2 = bits + (p.C : Int) * e * 8 + excess := by
  intro r
  have hM : (MAX_FINE_BITS : Int) = 8 := by decide
  have hB : (2 : Int) ^ BITRES = 8 := by decide
  have hS0 : (2 : Int) ^ (0 + BITRES) = 8 := by decide
  have hS1 : (2 : Int) ^ (1 + BITRES) = 16 := by decide
  simp only [r, rebal, hM, hB]
  by_cases hpos : excess > 0
  · simp only [hpos, if_true]
    rcases hC with hC | hC
    · have : (((1 : Nat) : Int)) = 1 := rfl
      simp only [hC, show ¬ (1 : Nat) > 1 by omega, if_false, hS0, this]
      refine ⟨trivial, ?_, ?_, ?_, ?_, ?_⟩
      · omega
      · omega
      · split
        · exact Or.inr rfl
        · exact Or.inl rfl
      · omega
      · omega
    · have : (((2 : Nat) : Int)) = 2 := rfl
      simp only [hC, show (2 : Nat) > 1 by omega, if_true, hS1, this]
      refine ⟨trivial, ?_, ?_, ?_, ?_, ?_⟩
      · omega
      · omega
      · split
        · exact Or.inr rfl
        · exact Or.inl rfl
      · omega
      · omega
  · simp only [hpos, if_false]
    exact ⟨trivial, he.1, he.2, hpr, hex, trivial⟩

/-- What one band's split guarantees. -/
structure BandOk (Cc capLim : Int) (o : BandOut) (bal' inBits : Int) : Prop where
  pulses_nn : 0 ≤ o.pulses
  pulses_le : o.pulses ≤ capLim
  ebits_nn : 0 ≤ o.ebits
  ebits_le : o.ebits ≤ 8
  prio : o.prio = 0 ∨ o.prio = 1
  bal_nn : 0 ≤ bal'
  conserve : o.pulses + Cc * o.ebits * 8 + bal' = inBits

/-- the limit on `pulses[j]`: the band's cap, or one sign bit per channel for a single-coefficient band -/
def capLimit (p : Inp) (b : Band) : Int := if b.w * 2 ^ p.LM > 1 then b.cap else (p.C : Int) * 8

theorem splitBand_ok (p : Inp) (hp : Dom p) (intensity dual : Int) (b : Band) (bits balance : Int)
    (hw : 1 ≤ b.w) (hcap : 0 ≤ b.cap) (hbits : 0 ≤ bits) (hbal : 0 ≤ balance) :
    BandOk (p.C : Int) (capLimit p b)
      (splitBand p intensity dual b bits balance).1 (splitBand p intensity dual b bits balance).2 (bits + balance) := by
  have hB : (2 : Int) ^ BITRES = 8 := by decide
  have hC := hp.hC
  have hCi : (1 : Int) ≤ (p.C : Int) := by rcases hC with h | h <;> rw [h] <;> decide
  unfold splitBand capLimit
  simp only [hB]
  have hNpos : 1 ≤ b.w * 2 ^ p.LM := Nat.mul_le_mul hw (Nat.pow_pos (by omega))
  generalize hN : ((b.w * 2 ^ p.LM : Nat) : Int) = N
  have hNgt : (b.w * 2 ^ p.LM > 1) ↔ (N > 1) := by omega
  by_cases hgt : N > 1
  · rw [if_pos hgt, if_pos (hNgt.mpr hgt)]
    generalize hex : max (bits + balance - b.cap) 0 = excess
    have hex0 : 0 ≤ excess := by omega
    generalize hb' : bits + balance - excess = bb
    have hbb : 0 ≤ bb ∧ bb ≤ b.cap := by omega
    generalize hden : ((p.C : Int) * N + if p.C = 2 ∧ N > 2 ∧ dual = 0 ∧ (b.j : Int) < intensity then 1 else 0) = den
    have hden2 : 2 ≤ den := by
      have : (p.C : Int) * N ≥ 1 * N := Int.mul_le_mul_of_nonneg_right hCi (by omega)
      rw [← hden]; split <;> omega
    generalize fineOffset p b den N bb = offset
    obtain ⟨he0, he8, heb⟩ := fineBits_ok p hC den offset bb hden2 hbb.1
    generalize fineBits p den offset bb = e at *
    obtain ⟨r1, r2, r3, r4, r5, r6⟩ := rebal_ok p hC (bb - (p.C : Int) * e * 8) e
      (if e * (den * 8) ≥ bb + offset then 1 else 0) excess balance ⟨he0, he8⟩ (by split <;> simp) hex0
    have hce : 0 ≤ (p.C : Int) * e * 8 := by
      have := Int.mul_nonneg (show (0 : Int) ≤ (p.C : Int) by omega) he0; omega
    exact ⟨by rw [r1]; omega, by rw [r1]; omega, r2, r3, r4, r5, by rw [r6]; omega⟩
  · rw [if_neg hgt, if_neg (fun h => hgt (hNgt.mp h))]
    generalize hex : max 0 (bits + balance - (p.C : Int) * 8) = excess
    have hex0 : 0 ≤ excess := by omega
    obtain ⟨r1, r2, r3, r4, r5, r6⟩ := rebal_ok p hC (bits + balance - excess) 0 1 excess balance
      ⟨by omega, by omega⟩ (Or.inr rfl) hex0
    exact ⟨by rw [r1]; omega, by rw [r1]; omega, r2, r3, r4, r5, by rw [r6]; omega⟩

end OpusProofs.CeltAlloc
