import OpusProofs.ExtCount
/-
  C16 helper lemmas, part 8: the canonical serialisation of a frame-ordered extension list without the
  repeat mechanism (`serBytes`), and the fact that iteration over it returns exactly the list.
-/
set_option linter.unusedVariables false
namespace Opus.ExtProofs
open Opus Opus.Ext

/-- The bytes `bs` sit at offset `p` of `d`. -/
def At (d : Array Nat) (p : Nat) (bs : List Nat) : Prop := ∀ i, i < bs.length → d[p + i]? = bs[i]?

theorem At.append {d : Array Nat} {p : Nat} {a b : List Nat} (h : At d p (a ++ b)) :
    At d p a ∧ At d (p + a.length) b := by
  constructor
  · intro i hi
    have := h i (by simp; omega)
    rw [this, List.getElem?_append_left hi]
  · intro i hi
    have := h (a.length + i) (by simp; omega)
    rw [← Nat.add_assoc] at this
    rw [this, List.getElem?_append_right (by omega)]
    congr 1; omega

theorem At.head {d : Array Nat} {p : Nat} {b : Nat} {bs : List Nat} (h : At d p (b :: bs)) :
    d[p]? = some b ∧ At d (p + 1) bs := by
  have h0 := h 0 (by simp)
  refine ⟨by simpa using h0, ?_⟩
  intro i hi
  have := h (i + 1) (by simp; omega)
  rw [show p + 1 + i = p + (i + 1) by omega, this]; simp

theorem At.size_le {d : Array Nat} {p : Nat} {bs : List Nat} (h : At d p bs) : bs = [] ∨ p + bs.length ≤ d.size := by
  cases hb : bs.length with
  | zero => left; exact List.eq_nil_of_length_eq_zero hb
  | succ n =>
    right
    have := h n (by omega)
    rw [List.getElem?_eq_getElem (by omega)] at this
    have hlt : p + n < d.size := by
      apply Decidable.byContradiction; intro hc
      rw [Array.getElem?_eq_none (by omega)] at this; cases this
    omega

/-- The lacing bytes of a payload length: `n / 255` bytes 255, then `n % 255`. -/
def lenBytes (n : Nat) : List Nat := List.replicate (n / 255) 255 ++ [n % 255]

theorem lacing_run (d : Array Nat) (k r : Nat) (hr : r < 255) : ∀ (p : Nat) (L : Int) (b h : Nat),
    At d p (List.replicate k 255 ++ [r]) → 1 ≤ L - 256 * k →
    lacing d p L b h = .ok (some (p + k + 1, L - 256 * k - (r + 1), b + 255 * k + r, h + k + 1)) := by
  induction k with
  | zero =>
    intro p L b h hat hL
    have h0 := (At.head (by simpa using hat)).1
    rw [lacing]
    have : ¬ L < 1 := by omega
    have hne : ¬ r = 255 := by omega
    simp only [this, if_false, h0, hne]
    simp
  | succ k ih =>
    intro p L b h hat hL
    rw [List.replicate_succ, List.cons_append] at hat
    obtain ⟨h0, hrest⟩ := At.head hat
    rw [lacing]
    have : ¬ L < 1 := by omega
    simp only [this, if_false, h0, if_true]
    rw [ih (p + 1) (L - 256) (b + 255) (h + 1) hrest (by push_cast at hL ⊢; omega)]
    simp only [Res.ok.injEq, Option.some.injEq, Prod.mk.injEq]
    refine ⟨by omega, by push_cast; omega, by omega, by omega⟩

/-- Skipping a short extension or separator (ID 1, 3..31) with `l ∈ {0,1}` payload bytes. -/
theorem skip_short (d : Array Nat) (p : Nat) (L : Int) (b : Nat) (h0 : d[p]? = some b)
    (hid : 0 < b / 2 ∧ b / 2 < 32) (hne : b / 2 ≠ 2) (hL : 1 + ((b % 2 : Nat) : Int) ≤ L) :
    skipExtension d p L = .ok (some (p + 1 + b % 2, L - 1 - ((b % 2 : Nat) : Int), 1)) := by
  unfold skipExtension
  have h1 : ¬ L = 0 := by omega
  have h2 : ¬ L < 1 := by omega
  simp only [h1, h2, if_false, h0]
  unfold skipPayload
  have c1 : ¬ ((b / 2 = 0 ∧ b % 2 = 1) ∨ b / 2 = 2) := by omega
  have c3 : ¬ (L - 1 < ((b % 2 : Nat) : Int)) := by omega
  simp only [c1, if_false, hid, and_self, if_true, c3]

/-- Skipping a long extension (ID ≥ 32) coded with `L = 0`: it takes everything that is left. -/
theorem skip_long_last (d : Array Nat) (p : Nat) (L : Int) (b : Nat) (h0 : d[p]? = some b)
    (hid : 32 ≤ b / 2) (hl : b % 2 = 0) (hL : 1 ≤ L) :
    skipExtension d p L = .ok (some (p + 1 + (L - 1).toNat, 0, 1)) := by
  unfold skipExtension
  have h1 : ¬ L = 0 := by omega
  have h2 : ¬ L < 1 := by omega
  simp only [h1, h2, if_false, h0]
  unfold skipPayload
  have c1 : ¬ ((b / 2 = 0 ∧ b % 2 = 1) ∨ b / 2 = 2) := by omega
  have c2 : ¬ (0 < b / 2 ∧ b / 2 < 32) := by omega
  have c3 : ¬ (L - 1 < 0) := by omega
  rw [if_neg c1, if_neg c2, if_pos hl, if_neg c3]
  simp

/-- Skipping a long extension coded with `L = 1`: ID byte, lacing bytes, `n` payload bytes. -/
theorem skip_long (d : Array Nat) (p : Nat) (L : Int) (b n : Nat) (h0 : d[p]? = some b)
    (hid : 32 ≤ b / 2) (hl : b % 2 = 1) (hat : At d (p + 1) (lenBytes n))
    (hL : 1 + ((n / 255 + 1 : Nat) : Int) + n ≤ L) :
    skipExtension d p L = .ok (some (p + 1 + (n / 255 + 1) + n, L - (1 + ((n / 255 + 1 : Nat) : Int) + n), n / 255 + 2)) := by
  unfold skipExtension
  have h1 : ¬ L = 0 := by omega
  have h2 : ¬ L < 1 := by omega
  simp only [h1, h2, if_false, h0]
  unfold skipPayload
  have c1 : ¬ ((b / 2 = 0 ∧ b % 2 = 1) ∨ b / 2 = 2) := by omega
  have c2 : ¬ (0 < b / 2 ∧ b / 2 < 32) := by omega
  have c3 : ¬ (b % 2 = 0) := by omega
  simp only [c1, c2, c3, if_false]
  have hmod : n % 255 < 255 := Nat.mod_lt _ (by omega)
  have hdiv : 255 * (n / 255) + n % 255 = n := Nat.div_add_mod n 255
  rw [lacing_run d (n / 255) (n % 255) hmod (p + 1) (L - 1) 0 0 hat (by omega)]
  simp only
  have c4 : ¬ (L - 1 - 256 * ((n / 255 : Nat) : Int) - (((n % 255 : Nat) : Int) + 1) < 0) := by
    omega
  simp only [c4, if_false, Res.ok.injEq, Option.some.injEq, Prod.mk.injEq]
  refine ⟨by omega, by omega, by omega⟩

/-! ### Canonical serialisation (no repeat mechanism) -/

/-- Payload of an extension as the generator reads it: the first `len` bytes at `ext->data`. -/
def payload (e : Ext) : Bytes := e.data.take e.len.toNat

/-- An extension the API accepts for a packet of `nbF` frames. -/
structure ValidExt (nbF : Nat) (e : Ext) : Prop where
  id_lo : 3 ≤ e.id
  id_hi : e.id ≤ 127
  fr_lo : 0 ≤ e.frame
  fr_hi : e.frame < nbF
  len_lo : 0 ≤ e.len
  short : e.id < 32 → e.len ≤ 1
  data : e.len ≤ e.data.length

theorem payload_length {nbF : Nat} {e : Ext} (h : ValidExt nbF e) : ((payload e).length : Int) = e.len := by
  have := h.data; have := h.len_lo
  simp only [payload, List.length_take]; omega

/-- ID byte: `(id << 1) + L`, with `L = len` for short IDs and `L = !last` for long ones. -/
def idByte (e : Ext) (last : Bool) : Nat :=
  (e.id * 2 + (if e.id < 32 then e.len else if last then 0 else 1)).toNat

/-- Number of length bytes of an extension. -/
def hdrLen (e : Ext) (last : Bool) : Nat := if e.id < 32 ∨ last = true then 0 else e.len.toNat / 255 + 1

/-- One extension: ID byte, lacing bytes (long, not last), payload. -/
def extBytes (e : Ext) (last : Bool) : List Nat :=
  idByte e last :: ((if e.id < 32 ∨ last = true then [] else lenBytes e.len.toNat) ++ payload e)

theorem lenBytes_length (n : Nat) : (lenBytes n).length = n / 255 + 1 := by simp [lenBytes]

theorem extBytes_length {nbF : Nat} {e : Ext} (h : ValidExt nbF e) (last : Bool) :
    (extBytes e last).length = 1 + hdrLen e last + e.len.toNat := by
  have := payload_length h; have := h.len_lo
  simp only [extBytes, hdrLen, List.length_cons, List.length_append]
  split <;> simp [lenBytes_length] <;> omega

/-- Frame separator: nothing, `02` (next frame) or `03 k` (advance `k` frames). -/
def sepBytes (f cur : Nat) : List Nat := if f = cur then [] else if f = cur + 1 then [2] else [3, f - cur]

/-- Frame-ordered list written without repeats; the last extension uses the `L = 0` form. -/
def serBytes (cur : Nat) : List Ext → List Nat
  | [] => []
  | e :: l => sepBytes e.frame.toNat cur ++ extBytes e l.isEmpty ++ serBytes e.frame.toNat l

/-- What iteration must report for `serBytes cur l` placed at offset `p`. -/
def serRefs (p cur : Nat) : List Ext → List ExtRef
  | [] => []
  | e :: l =>
    let q := p + (sepBytes e.frame.toNat cur).length
    { id := e.id.toNat, frame := e.frame.toNat, off := q + 1 + hdrLen e l.isEmpty, len := e.len } ::
      serRefs (q + (extBytes e l.isEmpty).length) e.frame.toNat l

/-- Frames never decrease along the list, starting from `cur`. -/
def FrameSorted : Nat → List Ext → Prop
  | _, [] => True
  | cur, e :: l => cur ≤ e.frame.toNat ∧ FrameSorted e.frame.toNat l

/-- Iterator state "at offset `p` of `d`, in frame `cur`, not repeating, no frame limit". -/
structure St (d : Array Nat) (nbF p cur : Nat) (it : Iter) : Prop where
  data : it.data = d
  len : it.len = d.size
  cd : it.currData = p
  cl : it.currLen = (d.size : Int) - p
  cf : it.currFrame = cur
  rf : it.repeatFrame = 0
  nf : it.nbFrames = nbF
  fm : it.frameMax = nbF

theorem mainLoop_eq (it : Iter) : mainLoop it =
    if 0 < it.currLen then
      match mainBody it with
      | .ok (.cont it1) => mainLoop it1
      | .ok (.ret it1 s) => .ok (it1, s)
      | .ok (.rep it2) =>
        (match repeatPhase it2 with
         | .ok (it3, some s) => .ok (it3, s)
         | .ok (it3, none) => if it3.frameMax ≤ it3.currFrame then .ok (it3, .done) else mainLoop it3
         | .err e => .err e
         | .oob => .oob
         | .abort => .abort)
      | .err e => .err e
      | .oob => .oob
      | .abort => .abort
    else .ok (it, .done) := by
  rw [mainLoop]
  split
  · split <;> simp [*]
    split <;> simp [*]
  · rfl

/-- The main-loop body on a separator. -/
theorem mainBody_sep {d : Array Nat} {nbF p cur f : Nat} {it : Iter} {rest : List Nat} (hs : St d nbF p cur it)
    (hcf : cur < f) (hf : f < nbF) (hat : At d p (sepBytes f cur ++ rest)) (hrest : rest ≠ []) :
    ∃ it1, mainBody it = .ok (.cont it1) ∧ St d nbF (p + (sepBytes f cur).length) f it1 ∧
      it1.repeatData = p + (sepBytes f cur).length ∧ it1.lastLong = none ∧ it1.tsl = 0 := by
  have hsz : p + (sepBytes f cur ++ rest).length ≤ d.size := by
    rcases hat.size_le with h | h
    · simp at h; exact absurd h.2 hrest
    · exact h
  have hrl : 0 < rest.length := List.length_pos_iff.mpr hrest
  simp only [List.length_append] at hsz
  unfold sepBytes at hat hsz ⊢
  have hne : ¬ f = cur := by omega
  simp only [hne, if_false] at hat hsz ⊢
  by_cases h1 : f = cur + 1
  · simp only [h1, if_true] at hat hsz ⊢
    obtain ⟨h0, _⟩ := At.head hat
    simp only [List.length_cons, List.length_nil] at hsz ⊢
    have hsk := skip_short d p ((d.size : Int) - p) 2 h0 (by omega) (by omega) (by omega)
    unfold mainBody
    rw [hs.data, hs.cd, hs.cl, h0, hsk]
    have ha : ¬ (((p + 1 + 2 % 2 : Nat) : Int) ≠ it.len - ((d.size : Int) - p - 1 - ((2 % 2 : Nat) : Int))) := by
      rw [hs.len]; omega
    simp only [ha, if_false]
    have e1 : (2 : Nat) / 2 = 1 := rfl
    have e2 : (2 : Nat) % 2 = 0 := rfl
    have c1 : ¬ ((0 : Nat) = 1 ∧ d[p + 1]? = none) := by omega
    simp only [e1, e2, if_true, c1, if_false]
    have c2 : ¬ ((1 : Nat) = 0) := by omega
    have c3 : ¬ (it.nbFrames ≤ it.currFrame + 1) := by rw [hs.nf, hs.cf]; omega
    have c4 : ¬ (it.frameMax ≤ ((it.currFrame + 1 : Nat) : Int)) := by rw [hs.fm, hs.cf]; omega
    simp only [c2, c3, c4, if_false]
    refine ⟨_, rfl, ⟨rfl, hs.len, by simp, by simp; omega, by simp [hs.cf], hs.rf, hs.nf, hs.fm⟩, by simp, rfl, rfl⟩
  · simp only [h1, if_false] at hat hsz ⊢
    obtain ⟨h0, hat1⟩ := At.head hat
    obtain ⟨h01, _⟩ := At.head hat1
    simp only [List.length_cons, List.length_nil] at hsz ⊢
    have hsk := skip_short d p ((d.size : Int) - p) 3 h0 (by omega) (by omega) (by omega)
    unfold mainBody
    rw [hs.data, hs.cd, hs.cl, h0, hsk]
    have ha : ¬ (((p + 1 + 3 % 2 : Nat) : Int) ≠ it.len - ((d.size : Int) - p - 1 - ((3 % 2 : Nat) : Int))) := by
      rw [hs.len]; omega
    simp only [ha, if_false]
    have e1 : (3 : Nat) / 2 = 1 := rfl
    have e2 : (3 : Nat) % 2 = 1 := rfl
    have c1 : ¬ ((1 : Nat) = 1 ∧ d[p + 1]? = none) := by rw [h01]; simp
    have c0 : ¬ ((1 : Nat) = 0) := by omega
    simp only [e1, e2, if_true, if_false, c0, h01, Option.getD_some, reduceCtorEq, and_false]
    have c2 : ¬ (f - cur = 0) := by omega
    have c3 : ¬ (it.nbFrames ≤ it.currFrame + (f - cur)) := by rw [hs.nf, hs.cf]; omega
    have c4 : ¬ (it.frameMax ≤ ((it.currFrame + (f - cur) : Nat) : Int)) := by rw [hs.fm, hs.cf]; omega
    simp only [c2, c3, c4, if_false]
    refine ⟨_, rfl, ⟨rfl, hs.len, by simp, by simp; omega, by simp [hs.cf]; omega, hs.rf, hs.nf, hs.fm⟩, by simp, rfl, rfl⟩

/-- The main-loop body on an extension written by `extBytes`. -/
theorem mainBody_ext {d : Array Nat} {nbF p f : Nat} {it : Iter} {e : Ext} {last : Bool} {rest : List Nat}
    (hs : St d nbF p f it) (hv : ValidExt nbF e) (hef : e.frame.toNat = f)
    (hat : At d p (extBytes e last ++ rest)) (hend : p + (extBytes e last).length + rest.length = d.size)
    (hlast : last = true → rest = []) :
    ∃ it2, mainBody it = .ok (.ret it2 (.ext { id := e.id.toNat, frame := f, off := p + 1 + hdrLen e last, len := e.len })) ∧
      St d nbF (p + (extBytes e last).length) f it2 ∧ it2.repeatData = it.repeatData ∧
      (if e.id < 32 then it2.lastLong = it.lastLong ∧ it2.tsl = it.tsl + e.len
       else it2.lastLong = some (p + (extBytes e last).length) ∧ it2.tsl = 0) := by
  have hlen := extBytes_length hv last
  have hpl := payload_length hv
  have hl0 := hv.len_lo
  have hid1 := hv.id_lo
  have hid2 := hv.id_hi
  rw [hlen] at hend ⊢
  obtain ⟨hat1, _⟩ := hat.append
  unfold extBytes at hat1
  obtain ⟨h0, hat2⟩ := At.head hat1
  unfold mainBody
  by_cases hshort : e.id < 32
  · -- short extension
    have hl1 := hv.short hshort
    have hb : idByte e last = (e.id * 2 + e.len).toNat := by simp [idByte, hshort]
    have hb2 : idByte e last / 2 = e.id.toNat := by rw [hb]; omega
    have hbm : idByte e last % 2 = e.len.toNat := by rw [hb]; omega
    have hh : hdrLen e last = 0 := by simp [hdrLen, hshort]
    rw [hh] at hend ⊢
    have hsk := skip_short d p ((d.size : Int) - p) (idByte e last) h0 (by omega) (by omega) (by omega)
    rw [hs.data, hs.cd, hs.cl, h0, hsk]
    have ha : ¬ (((p + 1 + idByte e last % 2 : Nat) : Int) ≠
        it.len - ((d.size : Int) - p - 1 - ((idByte e last % 2 : Nat) : Int))) := by rw [hs.len]; omega
    simp only [ha, if_false]
    have c1 : ¬ (idByte e last / 2 = 1) := by omega
    have c2 : ¬ (idByte e last / 2 = 2) := by omega
    have c3 : 2 < idByte e last / 2 := by omega
    have c4 : ¬ (32 ≤ idByte e last / 2) := by omega
    simp only [c1, c2, c3, c4, if_false, if_true]
    apply Exists.intro
    constructor
    · simp only [Res.ok.injEq, MFlow.ret.injEq, Step.ext.injEq, ExtRef.mk.injEq]
      exact ⟨rfl, hb2, hs.cf, by first | trivial | omega, by omega⟩
    · refine ⟨⟨rfl, hs.len, by simp; omega, by simp; omega, hs.cf, hs.rf, hs.nf, hs.fm⟩, rfl, ?_⟩
      simp only [hshort, if_true, true_and]; omega
  · have hb2 : idByte e last / 2 = e.id.toNat := by
      simp only [idByte, hshort, if_false]; split <;> omega
    by_cases hla : last = true
    · -- long extension, last of the list: `L = 0`, takes the rest of the buffer
      have hr := hlast hla
      subst hr
      have hbm : idByte e last % 2 = 0 := by simp only [idByte, hshort, if_false, hla, if_true]; omega
      have hh : hdrLen e last = 0 := by simp [hdrLen, hla]
      rw [hh] at hend ⊢
      simp only [List.length_nil] at hend
      have hsk := skip_long_last d p ((d.size : Int) - p) (idByte e last) h0 (by omega) hbm (by omega)
      rw [hs.data, hs.cd, hs.cl, h0, hsk]
      have ha : ¬ (((p + 1 + ((d.size : Int) - p - 1).toNat : Nat) : Int) ≠ it.len - 0) := by rw [hs.len]; omega
      simp only [ha, if_false]
      have c1 : ¬ (idByte e last / 2 = 1) := by omega
      have c2 : ¬ (idByte e last / 2 = 2) := by omega
      have c3 : 2 < idByte e last / 2 := by omega
      have c4 : 32 ≤ idByte e last / 2 := by omega
      simp only [c1, c2, c3, c4, if_false, if_true]
      apply Exists.intro
      constructor
      · simp only [Res.ok.injEq, MFlow.ret.injEq, Step.ext.injEq, ExtRef.mk.injEq]
        exact ⟨rfl, hb2, hs.cf, by first | trivial | omega, by omega⟩
      · refine ⟨⟨rfl, hs.len, by simp; omega, by simp; omega, hs.cf, hs.rf, hs.nf, hs.fm⟩, rfl, ?_⟩
        simp only [hshort, if_false, and_true, Option.some.injEq]; omega
    · -- long extension followed by more: `L = 1`, lacing bytes
      have hbm : idByte e last % 2 = 1 := by
        have hlf : last = false := by cases last <;> simp_all
        simp only [idByte, hshort, if_false, hlf, Bool.false_eq_true]; omega
      have hh : hdrLen e last = e.len.toNat / 255 + 1 := by simp [hdrLen, hshort, hla]
      rw [hh] at hend ⊢
      have hc : ¬ (e.id < 32 ∨ last = true) := by simp [hshort, hla]
      simp only [hc, if_false] at hat2
      obtain ⟨hat3, _⟩ := hat2.append
      have hsk := skip_long d p ((d.size : Int) - p) (idByte e last) e.len.toNat h0 (by omega) hbm hat3 (by omega)
      rw [hs.data, hs.cd, hs.cl, h0, hsk]
      have ha : ¬ (((p + 1 + (e.len.toNat / 255 + 1) + e.len.toNat : Nat) : Int) ≠
          it.len - ((d.size : Int) - p - (1 + ((e.len.toNat / 255 + 1 : Nat) : Int) + e.len.toNat))) := by
        rw [hs.len]; omega
      simp only [ha, if_false]
      have c1 : ¬ (idByte e last / 2 = 1) := by omega
      have c2 : ¬ (idByte e last / 2 = 2) := by omega
      have c3 : 2 < idByte e last / 2 := by omega
      have c4 : 32 ≤ idByte e last / 2 := by omega
      simp only [c1, c2, c3, c4, if_false, if_true]
      apply Exists.intro
      constructor
      · simp only [Res.ok.injEq, MFlow.ret.injEq, Step.ext.injEq, ExtRef.mk.injEq]
        exact ⟨rfl, hb2, hs.cf, by first | trivial | omega, by omega⟩
      · refine ⟨⟨rfl, hs.len, by simp; omega, by simp; omega, hs.cf, hs.rf, hs.nf, hs.fm⟩, rfl, ?_⟩
        simp only [hshort, if_false, and_true, Option.some.injEq]; omega

theorem serBytes_ne_nil {cur : Nat} {e : Ext} {l : List Ext} : serBytes cur (e :: l) ≠ [] := by
  simp [serBytes, extBytes]

/-- `next` on a state at an extension (possibly preceded by its separator). -/
theorem next_ser {d : Array Nat} {nbF p cur : Nat} {it : Iter} {e : Ext} {l : List Ext}
    (hs : St d nbF p cur it) (hv : ValidExt nbF e) (hcur : cur ≤ e.frame.toNat)
    (hat : At d p (serBytes cur (e :: l))) (hend : p + (serBytes cur (e :: l)).length = d.size) :
    ∃ it2, next it = .ok (it2, .ext ⟨e.id.toNat, e.frame.toNat, p + (sepBytes e.frame.toNat cur).length + 1 + hdrLen e l.isEmpty, e.len⟩) ∧
      St d nbF (p + (sepBytes e.frame.toNat cur).length + (extBytes e l.isEmpty).length) e.frame.toNat it2 := by
  have hf : e.frame.toNat < nbF := by have := hv.fr_hi; have := hv.fr_lo; omega
  have hel := extBytes_length hv l.isEmpty
  simp only [serBytes, List.length_append] at hend
  have hcl : 0 < it.currLen := by rw [hs.cl]; omega
  have hlast : l.isEmpty = true → serBytes e.frame.toNat l = [] := by
    intro h; have : l = [] := List.isEmpty_iff.mp h
    subst this; rfl
  unfold next
  have a1 : ¬ it.currLen < 0 := by omega
  have a2 : ¬ 0 < it.repeatFrame := by rw [hs.rf]; omega
  have a3 : ¬ it.frameMax ≤ (it.currFrame : Int) := by rw [hs.fm, hs.cf]; omega
  simp only [a1, a2, a3, if_false]
  rw [mainLoop_eq]
  simp only [hcl, if_true]
  by_cases hsame : e.frame.toNat = cur
  · -- no separator
    have hsep : sepBytes e.frame.toNat cur = [] := by simp [sepBytes, hsame]
    simp only [serBytes, hsep, List.nil_append, List.length_nil, Nat.add_zero] at hat hend ⊢
    obtain ⟨it2, h1, h2, _⟩ := mainBody_ext (hsame ▸ hs) hv rfl hat (by omega) hlast
    rw [h1]
    exact ⟨it2, rfl, h2⟩
  · have hlt : cur < e.frame.toNat := by omega
    simp only [serBytes, List.append_assoc] at hat
    obtain ⟨it1, h1, h2, _⟩ := mainBody_sep hs hlt hf hat (by simp [extBytes])
    rw [h1]
    simp only
    rw [mainLoop_eq]
    have hcl1 : 0 < it1.currLen := by rw [h2.cl]; omega
    simp only [hcl1, if_true]
    obtain ⟨_, hat'⟩ := hat.append
    obtain ⟨it2, g1, g2, _⟩ := mainBody_ext h2 hv rfl hat' (by omega) hlast
    rw [g1]
    refine ⟨it2, ?_, ?_⟩
    · rfl
    · exact g2

/-- Iterating over the canonical serialisation of a frame-ordered list of valid extensions yields
    exactly that list (IDs, frames, payload slices) and ends normally. -/
theorem iterAll_ser (d : Array Nat) (nbF : Nat) : ∀ (l : List Ext) (p cur : Nat) (it : Iter),
    St d nbF p cur it → (∀ e ∈ l, ValidExt nbF e) → FrameSorted cur l →
    At d p (serBytes cur l) → p + (serBytes cur l).length = d.size →
    iterAll it = .ok (serRefs p cur l, .done) := by
  intro l
  induction l with
  | nil =>
    intro p cur it hs _ _ _ hend
    simp only [serBytes, List.length_nil, Nat.add_zero] at hend
    rw [iterAll_eq]
    have : next it = .ok (it, .done) := by
      unfold next
      have a1 : ¬ it.currLen < 0 := by rw [hs.cl]; omega
      have a2 : ¬ 0 < it.repeatFrame := by rw [hs.rf]; omega
      simp only [a1, a2, if_false]
      split
      · rfl
      · rw [mainLoop_eq]
        have : ¬ 0 < it.currLen := by rw [hs.cl]; omega
        simp only [this, if_false]
    rw [this]
    rfl
  | cons e l ih =>
    intro p cur it hs hv hsort hat hend
    obtain ⟨hcur, hsort'⟩ := hsort
    obtain ⟨it2, h1, h2⟩ := next_ser hs (hv e (List.mem_cons_self ..)) hcur hat hend
    rw [iterAll_eq, h1]
    simp only
    have hat2 : At d (p + (sepBytes e.frame.toNat cur).length + (extBytes e l.isEmpty).length) (serBytes e.frame.toNat l) := by
      simp only [serBytes, List.append_assoc] at hat
      have := (hat.append).2
      have := (this.append).2
      exact this
    rw [ih _ _ it2 h2 (fun x hx => hv x (List.mem_cons_of_mem _ hx)) hsort' hat2
      (by simp only [serBytes, List.length_append] at hend; omega)]
    rfl

theorem serRefs_length (p cur : Nat) (l : List Ext) : (serRefs p cur l).length = l.length := by
  induction l generalizing p cur with
  | nil => rfl
  | cons e l ih => simp [serRefs, ih]

/-- An extension with its payload cut to `len` bytes (what a reader can report). -/
def normExt (e : Ext) : Ext := { e with data := payload e }

theorem hdr_length (e : Ext) (last : Bool) :
    (if e.id < 32 ∨ last = true then ([] : List Nat) else lenBytes e.len.toNat).length = hdrLen e last := by
  unfold hdrLen; split <;> simp [lenBytes_length]

/-- The payload slices reported for `serBytes` are the payloads that were written. -/
theorem serRefs_toExt (nbF : Nat) : ∀ (l : List Ext) (pre : List Nat) (cur : Nat), (∀ e ∈ l, ValidExt nbF e) →
    (serRefs pre.length cur l).map (ExtRef.toExt (pre ++ serBytes cur l)) = l.map normExt := by
  intro l
  induction l with
  | nil => intro _ _ _; rfl
  | cons e l ih =>
    intro pre cur hv
    have hve := hv e (List.mem_cons_self ..)
    have hpl := payload_length hve
    have h1 := hve.id_lo; have h2 := hve.fr_lo; have h3 := hve.len_lo
    simp only [serRefs, serBytes, List.map_cons]
    congr 1
    · simp only [ExtRef.toExt, normExt]
      have hid : ((e.id.toNat : Nat) : Int) = e.id := by omega
      have hfr : ((e.frame.toNat : Nat) : Int) = e.frame := by omega
      rw [hid, hfr]
      congr 1
      -- the slice
      have hsplit : pre ++ (sepBytes e.frame.toNat cur ++ extBytes e l.isEmpty ++ serBytes e.frame.toNat l) =
          (pre ++ sepBytes e.frame.toNat cur ++ [idByte e l.isEmpty] ++
            (if e.id < 32 ∨ l.isEmpty = true then ([] : List Nat) else lenBytes e.len.toNat)) ++
          (payload e ++ serBytes e.frame.toNat l) := by
        simp [extBytes]
      rw [hsplit, List.drop_left' (by
        simp only [List.length_append, List.length_cons, List.length_nil, hdr_length])]
      rw [List.take_left' (by omega)]
    · have := ih (pre ++ sepBytes e.frame.toNat cur ++ extBytes e l.isEmpty) e.frame.toNat
        (fun x hx => hv x (List.mem_cons_of_mem _ hx))
      simp only [List.length_append] at this
      simp only [List.append_assoc] at this ⊢
      exact this

/-- **Reader ∘ canonical writer = identity.**  For every frame-ordered list of valid extensions,
    `parse` on `serBytes 0 l` succeeds, returns one entry per extension in order, and each entry
    has the ID, frame, length and payload bytes of its extension. -/
theorem parse_ser (l : List Ext) (nbF : Nat) (hnf : nbF ≤ 48) (hv : ∀ e ∈ l, ValidExt nbF e) (hs : FrameSorted 0 l)
    (cap : Int) (hcap : (l.length : Int) ≤ cap) :
    parse (serBytes 0 l) (serBytes 0 l).length cap nbF = .ok (serRefs 0 0 l) ∧
    (serRefs 0 0 l).map (ExtRef.toExt (serBytes 0 l)) = l.map normExt := by
  constructor
  · have hinit : ∃ it, iterInit (serBytes 0 l) (serBytes 0 l).length nbF = .ok it ∧
        St (serBytes 0 l).toArray nbF 0 0 it := by
      unfold iterInit
      have h1 : ¬ (((serBytes 0 l).length : Int) < 0) := by omega
      have h2 : ¬ ((nbF : Int) < 0 ∨ (nbF : Int) > 48) := by omega
      simp only [h1, h2, if_false]
      refine ⟨_, rfl, ⟨by simp, by simp, rfl, by simp, rfl, rfl, by simp, rfl⟩⟩
    obtain ⟨it, hit, hst⟩ := hinit
    have hat : At (serBytes 0 l).toArray 0 (serBytes 0 l) := by
      intro i hi; simp
    have hall := iterAll_ser (serBytes 0 l).toArray nbF l 0 0 it hst hv hs hat (by simp)
    unfold parse
    rw [hit]
    simp only
    rw [parseLoop_iterAll it _ _ hall cap #[] (by simp; omega)]
    have : ¬ (cap < ((#[] : Array ExtRef).size : Int) + ((serRefs 0 0 l).length : Int)) := by
      rw [serRefs_length]; simp; omega
    rw [if_neg this]
    simp
  · have := serRefs_toExt nbF l [] 0 hv
    simpa using this

end Opus.ExtProofs
