import OpusModel.Projection
import OpusProofs.MatrixProduct
import OpusProofs.LayoutRoute
/-
  OpusProofs.ProjectionImport — the demixing matrix a projection decoder is created with from the
  bytes the projection encoder exports is the restricted built-in demixing matrix (C10
  `import_export_demix`).  Core tactics only.
-/
namespace Opus.Projection
open Opus Opus.Layout Opus.Matrix

/-- The little-endian two's-complement coding of a cell is inverted by the decoder's parsing, for every
    int16 value. -/
theorem importCell_exportCell (v : Int) (h : InInt16 v) :
    importCell (exportCell v).1 (exportCell v).2 = v := by
  unfold InInt16 at h
  unfold importCell exportCell
  simp only
  omega

theorem exportCell_bytes (v : Int) : (exportCell v).1 < 256 ∧ (exportCell v).2 < 256 := by
  unfold exportCell; simp only; omega

/-- Everything about one `(order_plus_one, channels)` pair as a decidable check: the encoder exports
    `2·ch·ch` bytes; `opus_projection_decoder_create` accepts them for `(ch+1)/2` streams, `ch/2` coupled;
    the decoder's matrix is `ch × ch` with gain 0 and its columns are the first `ch` rows of the first
    `ch` columns of the built-in demixing matrix; the layout is the identity mapping. -/
def importOk (o ch : Nat) : Bool :=
  match demixing o with
  | none => false
  | some d =>
    match exportDemixing d ch ch with
    | .ok bytes =>
      decide (bytes.length = 2 * ch * ch) && bytes.all (· < 256) &&
      (match decoderCreate true ch ((ch + 1) / 2 : Nat) (ch / 2 : Nat) bytes (2 * ch * ch : Nat) with
       | .ok pd =>
         decide (pd.matrix.rows = ch) && decide (pd.matrix.cols = ch) && decide (pd.matrix.gain = 0) &&
         decide (subCols pd.matrix ch ch = subCols d ch ch) &&
         decide (pd.layout = ⟨ch, (ch + 1) / 2, ch / 2, List.range ch⟩) &&
         -- a wrong size is refused
         decide (decoderCreate true ch ((ch + 1) / 2 : Nat) (ch / 2 : Nat) bytes (2 * ch * ch + 2 : Nat) = .err .badArg)
       | _ => false)
    | _ => false

theorem importOk_foa : importOk 2 6 = true ∧ importOk 2 4 = true := by decide +kernel
theorem importOk_soa : importOk 3 11 = true ∧ importOk 3 9 = true := by decide +kernel
theorem importOk_toa : importOk 4 18 = true ∧ importOk 4 16 = true := by decide +kernel
theorem importOk_fourthoa : importOk 5 27 = true ∧ importOk 5 25 = true := by decide +kernel
theorem importOk_fifthoa_nd : importOk 6 38 = true := by decide +kernel
theorem importOk_fifthoa : importOk 6 36 = true := by decide +kernel

theorem importOk_all : ∀ oc ∈ [(2, 6), (2, 4), (3, 11), (3, 9), (4, 18), (4, 16), (5, 27), (5, 25), (6, 38), (6, 36)],
    importOk oc.1 oc.2 = true := by
  intro oc h
  simp only [List.mem_cons, List.not_mem_nil, or_false] at h
  rcases h with h | h | h | h | h | h | h | h | h | h <;> subst h
  · exact importOk_foa.1
  · exact importOk_foa.2
  · exact importOk_soa.1
  · exact importOk_soa.2
  · exact importOk_toa.1
  · exact importOk_toa.2
  · exact importOk_fourthoa.1
  · exact importOk_fourthoa.2
  · exact importOk_fifthoa_nd
  · exact importOk_fifthoa

/-- The product computed with the decoder's own copy of the demixing matrix is the product
    `demix_inverts_mix` speaks about. -/
theorem import_export (o ch : Nat)
    (hoc : (o, ch) ∈ [(2, 6), (2, 4), (3, 11), (3, 9), (4, 18), (4, 16), (5, 27), (5, 25), (6, 38), (6, 36)]) :
    ∃ d mx bytes pd, demixing o = some d ∧ mixing o = some mx ∧ exportDemixing d ch ch = .ok bytes ∧
      bytes.length = 2 * ch * ch ∧
      decoderCreate true ch ((ch + 1) / 2 : Nat) (ch / 2 : Nat) bytes (2 * ch * ch : Nat) = .ok pd ∧
      pd.matrix.rows = ch ∧ pd.matrix.cols = ch ∧ subCols pd.matrix ch ch = subCols d ch ch ∧
      pd.layout = ⟨ch, (ch + 1) / 2, ch / 2, List.range ch⟩ ∧
      productCols pd.matrix mx ch ch = product o ch := by
  have hok := importOk_all (o, ch) hoc
  have ho : o = 2 ∨ o = 3 ∨ o = 4 ∨ o = 5 ∨ o = 6 := by
    simp only [List.mem_cons, Prod.mk.injEq, List.not_mem_nil, or_false] at hoc; omega
  have hmx : ∃ mx, mixing o = some mx := by
    rcases ho with h | h | h | h | h <;> subst h <;> exact ⟨_, rfl⟩
  obtain ⟨mx, hmx⟩ := hmx
  unfold importOk at hok
  simp only at hok
  cases hd : demixing o with
  | none => rw [hd] at hok; cases hok
  | some d =>
    rw [hd] at hok
    simp only at hok
    cases he : exportDemixing d ch ch with
    | ok bytes =>
      rw [he] at hok
      simp only [Bool.and_eq_true, decide_eq_true_eq] at hok
      obtain ⟨⟨hlen, _⟩, hrest⟩ := hok
      cases hc : decoderCreate true ch ((ch + 1) / 2 : Nat) (ch / 2 : Nat) bytes (2 * ch * ch : Nat) with
      | ok pd =>
        rw [hc] at hrest
        simp only [Bool.and_eq_true, decide_eq_true_eq] at hrest
        obtain ⟨⟨⟨⟨⟨h1, h2⟩, _⟩, h4⟩, h5⟩, _⟩ := hrest
        refine ⟨d, mx, bytes, pd, rfl, hmx, he, hlen, hc, h1, h2, h4, h5, ?_⟩
        unfold product
        rw [hmx, hd]
        simp only [productCols, h4]
      | err e => rw [hc] at hrest; cases hrest
      | oob => rw [hc] at hrest; cases hrest
      | abort => rw [hc] at hrest; cases hrest
    | err e => rw [he] at hok; cases hok
    | oob => rw [he] at hok; cases hok
    | abort => rw [he] at hok; cases hok

end Opus.Projection
