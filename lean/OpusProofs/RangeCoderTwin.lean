import OpusProofs.RangeCoderCanon
/-
  C08: `ec_enc_patch_initial_bits` versus coding the true bits.

  A stream whose first `k ≤ 7` bits are coded as a placeholder (symbol 0 of `2^k` equiprobable ones) and patched
  afterwards to `w` is, byte for byte, the stream obtained by coding the bits of `w` in the first place.
  `twin k w c` is the state the second encoder is in when the first is in `c` (before the patch): the first output
  digit — still in `val`, pending in `rem`, or already in `buf[0]` — carries `w` in its top `k` bits.  That the low
  bits never carry into the top ones is the cell invariant of OpusProofs/RangeCoderPatch.lean.
-/
namespace Opus.RangeCoder

/-- the first digit's share of `w` -/
def dlt (k w : Nat) : Nat := w * 2 ^ (8 - k)

/-- first digit committed: in `buf[0]` -/
def setBuf0 (x : Nat) (c : Enc) : Enc := { c with buf := c.buf.set 0 x }
def setRem (r : Int) (c : Enc) : Enc := { c with rem := r }
def setExt (e : Nat) (c : Enc) : Enc := { c with ext := e }
def twinB (f : Nat → Nat) (c : Enc) : Enc := setBuf0 (f (c.buf.getD 0 0)) c
/-- first digit pending in `rem` (a digit 0xFF is counted in `ext` instead) -/
def twinR (δ : Nat) (c : Enc) : Enc :=
  if c.rem.toNat + δ = 255 then setRem (-1) (setExt (u32 (c.ext + 1)) c)
  else setRem ((c.rem.toNat + δ : Nat) : Int) c
/-- first digit still in `val` -/
def twinV (D : Nat) (c : Enc) : Enc := { c with val := c.val + D }

def twin (k w : Nat) (c : Enc) : Enc :=
  if c.offs ≥ 1 then twinB (fun b => patchByte b w k % 256) c
  else if c.rem ≥ 0 then twinR (dlt k w) c
  else twinV (w * 2 ^ (31 - k)) c

theorem pow_ext_one {e : Nat} (h : 256 ^ e < 2) : e = 0 := by
  cases e with
  | zero => rfl
  | succ n =>
    have : 0 < 256 ^ n := Nat.pow_pos (by decide)
    rw [Nat.pow_succ] at h; omega

/-- What the cell invariant says about a state that has not committed a byte yet. -/
theorem cell0_facts (k : Nat) (c : Enc) (hk1 : 1 ≤ k) (hc : Cell k 0 c) (ho : c.offs = 0) (rp : 0 < c.rng) :
    (c.rem < 0 → c.ext = 0 ∧ c.val + c.rng ≤ 2 ^ (31 - k)) ∧
    (c.rem ≥ 0 → c.rem.toNat < 2 ^ (8 - k) ∧ (2147483648 ≤ c.val → c.rem.toNat + 1 < 2 ^ (8 - k))) := by
  have hk8 := hc.n_le
  have hi := hc.hi
  have htk0 : c.buf.take c.offs = [] := by rw [ho]; rfl
  unfold encLow digitsVal at hi
  rw [htk0, bytesVal_nil, Nat.zero_mul, Nat.zero_add, Nat.zero_add, Nat.one_mul] at hi
  unfold cellSz encM at hi
  rw [ho, Nat.zero_add] at hi
  have hX : 0 < 256 ^ c.ext := Nat.pow_pos (by decide)
  constructor
  · intro hr
    have pc : pendCount c = c.ext := by unfold pendCount; rw [if_neg (by omega)]; omega
    have pv : pendVal c = 256 ^ c.ext - 1 := by unfold pendVal; rw [if_neg (by omega)]; omega
    rw [pc, pv] at hi
    have hP : 2 ^ (31 - k) ≤ 1073741824 := by
      have : (1073741824 : Nat) = 2 ^ 30 := by decide
      rw [this]; exact Nat.pow_le_pow_right (by decide) (by omega)
    have h1 : 2 ^ (31 - k) * 256 ^ c.ext ≤ 1073741824 * 256 ^ c.ext := Nat.mul_le_mul_right _ hP
    have hX2 : 256 ^ c.ext < 2 := by
      generalize 256 ^ c.ext = X at *
      have hsub : (X - 1) * 2147483648 = X * 2147483648 - 2147483648 := by rw [Nat.sub_mul]
      omega
    have he0 := pow_ext_one hX2
    rw [he0] at hi
    simp only [Nat.pow_zero, Nat.sub_self, Nat.zero_mul, Nat.zero_add, Nat.mul_one] at hi
    exact ⟨he0, hi⟩
  · intro hr
    have pc : pendCount c = 1 + c.ext := by unfold pendCount; rw [if_pos hr]
    have pv : pendVal c = c.rem.toNat * 256 ^ c.ext + (256 ^ c.ext - 1) := by unfold pendVal; rw [if_pos hr]
    rw [pc, pv] at hi
    have e31 : 2 ^ (31 - k) * 256 = 2 ^ (8 - k) * 2147483648 := by
      have : 31 - k = (8 - k) + 23 := by omega
      rw [this, Nat.pow_add, Nat.mul_assoc]
    have eR : 2 ^ (31 - k) * 256 ^ (1 + c.ext) = (2 ^ (8 - k) * 256 ^ c.ext) * 2147483648 := by
      rw [Nat.add_comm 1 c.ext, Nat.pow_succ, ← Nat.mul_assoc, Nat.mul_right_comm, e31, Nat.mul_right_comm]
    rw [eR] at hi
    have eA : (c.rem.toNat + 1) * 256 ^ c.ext = c.rem.toNat * 256 ^ c.ext + 256 ^ c.ext := by
      rw [Nat.add_mul, Nat.one_mul]
    constructor
    · have h2 : (c.rem.toNat + 1) * 256 ^ c.ext ≤ 2 ^ (8 - k) * 256 ^ c.ext := by
        rw [eA]
        generalize c.rem.toNat * 256 ^ c.ext = A at *
        generalize 2 ^ (8 - k) * 256 ^ c.ext = QX at *
        generalize 256 ^ c.ext = X at *
        omega
      have := Nat.le_of_mul_le_mul_right h2 hX
      omega
    · intro hv
      have h2 : (c.rem.toNat + 1) * 256 ^ c.ext < 2 ^ (8 - k) * 256 ^ c.ext := by
        rw [eA]
        generalize c.rem.toNat * 256 ^ c.ext = A at *
        generalize 2 ^ (8 - k) * 256 ^ c.ext = QX at *
        generalize 256 ^ c.ext = X at *
        omega
      exact Nat.lt_of_mul_lt_mul_right h2

/-! ### Field updates as functions (robust under `rw`) -/

section upd
variable (c : Enc) (x : Nat) (r r' : Int) (e : Nat)
@[simp] theorem setBuf0_offs : (setBuf0 x c).offs = c.offs := rfl
@[simp] theorem setBuf0_rem : (setBuf0 x c).rem = c.rem := rfl
@[simp] theorem setBuf0_ext : (setBuf0 x c).ext = c.ext := rfl
@[simp] theorem setRem_offs : (setRem r c).offs = c.offs := rfl
@[simp] theorem setRem_rem : (setRem r c).rem = r := rfl
@[simp] theorem setRem_ext : (setRem r c).ext = c.ext := rfl
@[simp] theorem setRem_buf : (setRem r c).buf = c.buf := rfl
@[simp] theorem setExt_offs : (setExt e c).offs = c.offs := rfl
@[simp] theorem setExt_rem : (setExt e c).rem = c.rem := rfl
@[simp] theorem setExt_ext : (setExt e c).ext = e := rfl
theorem setRem_setRem : setRem r (setRem r' c) = setRem r c := rfl
theorem setBuf0_setRem : setBuf0 x (setRem r c) = setRem r (setBuf0 x c) := rfl
theorem setExt_self (h : c.ext = e) : setExt e c = c := by subst h; rfl
theorem setExt_setRem : setExt e (setRem r c) = setRem r (setExt e c) := rfl
theorem setExt_setExt (e' : Nat) : setExt e (setExt e' c) = setExt e c := rfl
end upd

theorem writeByte_setRem (c : Enc) (r : Int) (v : Nat) : writeByte (setRem r c) v = setRem r (writeByte c v) := by
  unfold writeByte setRem; split <;> rfl

theorem writeByte_setExt (c : Enc) (e v : Nat) : writeByte (setExt e c) v = setExt e (writeByte c v) := by
  unfold writeByte setExt; split <;> rfl

theorem flushExt_setRem (sym : Nat) (r : Int) : ∀ (n : Nat) (c : Enc),
    flushExt sym n (setRem r c) = setRem r (flushExt sym n c)
  | 0, _ => rfl
  | n + 1, c => by
    have hstep : ∀ d : Enc, flushExt sym (n + 1) d = flushExt sym n (setExt n (writeByte d sym)) := fun _ => rfl
    rw [hstep, hstep, writeByte_setRem, setExt_setRem]
    exact flushExt_setRem sym r n _

theorem carryOut_ne' (c : Enc) (cc : Nat) (h : cc ≠ 255) : carryOut c cc =
    setRem ((cc % 256 : Nat) : Int)
      (if (if c.rem ≥ 0 then writeByte c (c.rem.toNat + cc / 256) else c).ext > 0 then
        flushExt ((255 + cc / 256) % 256) (if c.rem ≥ 0 then writeByte c (c.rem.toNat + cc / 256) else c).ext
          (if c.rem ≥ 0 then writeByte c (c.rem.toNat + cc / 256) else c)
       else (if c.rem ≥ 0 then writeByte c (c.rem.toNat + cc / 256) else c)) := by
  rw [carryOut_ne _ _ h]; rfl

theorem carryOut_255' (c : Enc) : carryOut c 255 = setExt (u32 (c.ext + 1)) c := by rw [carryOut_255]; rfl

/-- pending digit present: everything pending is flushed behind it -/
theorem carryOut_rem (c : Enc) (cc : Nat) (h : cc ≠ 255) (hr : 0 ≤ c.rem) : carryOut c cc =
    setRem ((cc % 256 : Nat) : Int) (flushExt ((255 + cc / 256) % 256) c.ext (writeByte c (c.rem.toNat + cc / 256))) := by
  rw [carryOut_ne' _ _ h, if_pos hr, writeByte_ext]
  by_cases he : c.ext > 0
  · rw [if_pos he]
  · rw [if_neg he]
    have : c.ext = 0 := by omega
    rw [this]; rfl

/-- no pending digit, but buffered 0xFFs -/
theorem carryOut_norem (c : Enc) (cc : Nat) (h : cc ≠ 255) (hr : ¬ 0 ≤ c.rem) : carryOut c cc =
    setRem ((cc % 256 : Nat) : Int) (flushExt ((255 + cc / 256) % 256) c.ext c) := by
  rw [carryOut_ne' _ _ h, if_neg hr]
  by_cases he : c.ext > 0
  · rw [if_pos he]
  · rw [if_neg he]
    have : c.ext = 0 := by omega
    rw [this]; rfl

/-! ### Phase B: the first digit is in the buffer -/

theorem writeByte_set0 (c : Enc) (x v : Nat) (ho : 1 ≤ c.offs) :
    writeByte (setBuf0 x c) v = setBuf0 x (writeByte c v) := by
  unfold writeByte
  by_cases h : c.offs + c.endOffs ≥ c.storage
  · rw [if_pos h, if_pos (show (setBuf0 x c).offs + (setBuf0 x c).endOffs ≥ (setBuf0 x c).storage from h)]
    rfl
  · rw [if_neg h, if_neg (show ¬ ((setBuf0 x c).offs + (setBuf0 x c).endOffs ≥ (setBuf0 x c).storage) from h)]
    show ({ c with buf := (c.buf.set 0 x).set c.offs (v % 256), offs := c.offs + 1 } : Enc) =
      { c with buf := (c.buf.set c.offs (v % 256)).set 0 x, offs := c.offs + 1 }
    rw [List.set_comm _ _ (by omega : (0 : Nat) ≠ c.offs)]

theorem writeByte_get0 (c : Enc) (v : Nat) (ho : 1 ≤ c.offs) :
    (writeByte c v).buf.getD 0 0 = c.buf.getD 0 0 ∧ 1 ≤ (writeByte c v).offs := by
  unfold writeByte
  split
  · exact ⟨rfl, ho⟩
  · refine ⟨?_, by show 1 ≤ c.offs + 1; omega⟩
    show (c.buf.set c.offs (v % 256)).getD 0 0 = c.buf.getD 0 0
    rw [getD_set, if_neg (by omega)]

theorem flushExt_set0 (sym x : Nat) : ∀ (n : Nat) (c : Enc), 1 ≤ c.offs →
    flushExt sym n (setBuf0 x c) = setBuf0 x (flushExt sym n c) ∧
    (flushExt sym n c).buf.getD 0 0 = c.buf.getD 0 0 ∧ 1 ≤ (flushExt sym n c).offs
  | 0, c, ho => ⟨rfl, rfl, ho⟩
  | n + 1, c, ho => by
    have hstep : ∀ d : Enc, flushExt sym (n + 1) d = flushExt sym n (setExt n (writeByte d sym)) := fun _ => rfl
    rw [hstep, hstep, writeByte_set0 c x sym ho]
    obtain ⟨g1, g2⟩ := writeByte_get0 c sym ho
    obtain ⟨a1, a2, a3⟩ := flushExt_set0 sym x n (setExt n (writeByte c sym)) g2
    exact ⟨a1, by rw [a2]; exact g1, a3⟩

theorem carryOut_set0 (c : Enc) (x cc : Nat) (ho : 1 ≤ c.offs) :
    carryOut (setBuf0 x c) cc = setBuf0 x (carryOut c cc) ∧
    (carryOut c cc).buf.getD 0 0 = c.buf.getD 0 0 ∧ 1 ≤ (carryOut c cc).offs := by
  by_cases h : cc = 255
  · subst h
    rw [carryOut_255', carryOut_255']
    exact ⟨rfl, rfl, ho⟩
  · by_cases hr : 0 ≤ c.rem
    · rw [carryOut_rem _ _ h hr, carryOut_rem _ _ h (show 0 ≤ (setBuf0 x c).rem from hr)]
      rw [setBuf0_rem, setBuf0_ext, writeByte_set0 c x _ ho]
      obtain ⟨g1, g2⟩ := writeByte_get0 c (c.rem.toNat + cc / 256) ho
      obtain ⟨a1, a2, a3⟩ := flushExt_set0 ((255 + cc / 256) % 256) x c.ext _ g2
      rw [a1]
      exact ⟨rfl, by show (flushExt _ _ _).buf.getD 0 0 = _; rw [a2, g1], a3⟩
    · rw [carryOut_norem _ _ h hr, carryOut_norem _ _ h (show ¬ 0 ≤ (setBuf0 x c).rem from hr)]
      rw [setBuf0_ext]
      obtain ⟨a1, a2, a3⟩ := flushExt_set0 ((255 + cc / 256) % 256) x c.ext c ho
      rw [a1]
      exact ⟨rfl, a2, a3⟩

theorem carryOut_twinB (f : Nat → Nat) (c : Enc) (cc : Nat) (ho : 1 ≤ c.offs) :
    carryOut (twinB f c) cc = twinB f (carryOut c cc) ∧ 1 ≤ (carryOut c cc).offs := by
  obtain ⟨a1, a2, a3⟩ := carryOut_set0 c (f (c.buf.getD 0 0)) cc ho
  refine ⟨?_, a3⟩
  unfold twinB
  rw [a1, a2]

/-! ### Phase R: the first digit is pending in `rem` -/

theorem carryOut_twinR (δ : Nat) (f : Nat → Nat) (c : Enc) (cc : Nat) (hcc : cc ≠ 255) (ho : c.offs = 0) (hr : 0 ≤ c.rem)
    (hsp : c.offs + c.endOffs < c.storage) (hlen : c.storage ≤ c.buf.length)
    (hδ : c.rem.toNat + cc / 256 + δ ≤ 255) (hf : f (c.rem.toNat + cc / 256) = c.rem.toNat + cc / 256 + δ)
    (hext : c.ext + 1 < 4294967296) :
    carryOut (twinR δ c) cc = twinB f (carryOut c cc) ∧ 1 ≤ (carryOut c cc).offs := by
  have hbl : 0 < c.buf.length := by omega
  have hW : ∀ a : Nat, a ≤ 255 → writeByte c a = { c with buf := c.buf.set 0 a, offs := 1 } := by
    intro a ha
    rw [writeByte_eq a hsp, ho, Nat.mod_eq_of_lt (by omega)]
  have hWW : ∀ a b : Nat, a ≤ 255 → b ≤ 255 → writeByte c b = setBuf0 b (writeByte c a) := by
    intro a b ha hb
    rw [hW a ha, hW b hb]
    show _ = ({ c with buf := (c.buf.set 0 a).set 0 b, offs := 1 } : Enc)
    rw [List.set_set]
  have hW1 : 1 ≤ (writeByte c (c.rem.toNat + cc / 256)).offs := by rw [hW _ (by omega)]; exact Nat.le_refl _
  have hW0 : (writeByte c (c.rem.toNat + cc / 256)).buf.getD 0 0 = c.rem.toNat + cc / 256 := by
    rw [hW _ (by omega)]
    show (c.buf.set 0 (c.rem.toNat + cc / 256)).getD 0 0 = _
    rw [getD_set, if_pos ⟨rfl, hbl⟩]
  obtain ⟨f1, f2, f3⟩ := flushExt_set0 ((255 + cc / 256) % 256) (c.rem.toNat + cc / 256 + δ) c.ext
    (writeByte c (c.rem.toNat + cc / 256)) hW1
  have hF := carryOut_rem c cc hcc hr
  refine ⟨?_, by rw [hF]; exact f3⟩
  have hRHS : twinB f (carryOut c cc) = setRem ((cc % 256 : Nat) : Int)
      (flushExt ((255 + cc / 256) % 256) c.ext (writeByte c (c.rem.toNat + cc / 256 + δ))) := by
    rw [hF]
    unfold twinB
    rw [setRem_buf, f2, hW0, hf, setBuf0_setRem, ← f1, ← hWW _ _ (by omega) (by omega)]
  rw [hRHS]
  by_cases hcor : c.rem.toNat + δ = 255
  · -- the shifted digit is 0xFF: it is counted in `ext`
    have hc0 : cc / 256 = 0 := by omega
    have ht : twinR δ c = setRem (-1) (setExt (c.ext + 1) c) := by
      unfold twinR; rw [if_pos hcor]
      have : u32 (c.ext + 1) = c.ext + 1 := Nat.mod_eq_of_lt hext
      rw [this]
    rw [ht, carryOut_norem _ _ hcc (by show ¬ (0 : Int) ≤ -1; decide)]
    rw [setRem_ext, setExt_ext, hc0]
    have hsym : (255 + 0) % 256 = 255 := by decide
    rw [hsym]
    have hstep : ∀ d : Enc, flushExt 255 (c.ext + 1) d = flushExt 255 c.ext (setExt c.ext (writeByte d 255)) := fun _ => rfl
    rw [hstep, writeByte_setRem, writeByte_setExt, setExt_setRem, setExt_setExt,
      setExt_self _ _ (writeByte_ext c 255), flushExt_setRem, setRem_setRem]
    have e2 : c.rem.toNat + 0 + δ = 255 := by omega
    rw [e2]
  · have ht : twinR δ c = setRem ((c.rem.toNat + δ : Nat) : Int) c := by
      unfold twinR; rw [if_neg hcor]
    rw [ht, carryOut_rem _ _ hcc (by rw [setRem_rem]; omega)]
    rw [setRem_rem, setRem_ext, writeByte_setRem, flushExt_setRem, setRem_setRem]
    have e0 : ((c.rem.toNat + δ : Nat) : Int).toNat + cc / 256 = c.rem.toNat + cc / 256 + δ := by omega
    rw [e0]

/-! ### One normalisation step -/

def nsUpd (v r n : Nat) (x : Enc) : Enc := { x with val := v, rng := r, nbitsTotal := n }

theorem normStep_eq (c : Enc) : normStep c =
    nsUpd (c.val * 256 % 2147483648) (u32 (c.rng * 256)) (c.nbitsTotal + 8) (carryOut c (c.val / 8388608)) := rfl

theorem ctx_ext {a b : Enc} (h1 : a.buf = b.buf) (h2 : a.storage = b.storage) (h3 : a.endOffs = b.endOffs)
    (h4 : a.endWindow = b.endWindow) (h5 : a.nendBits = b.nendBits) (h6 : a.nbitsTotal = b.nbitsTotal)
    (h7 : a.offs = b.offs) (h8 : a.rng = b.rng) (h9 : a.val = b.val) (h10 : a.ext = b.ext) (h11 : a.rem = b.rem)
    (h12 : a.error = b.error) : a = b := by
  cases a; cases b
  simp only at h1 h2 h3 h4 h5 h6 h7 h8 h9 h10 h11 h12
  subst h1 h2 h3 h4 h5 h6 h7 h8 h9 h10 h11 h12
  rfl

theorem twinB_nsUpd (f : Nat → Nat) (v r n : Nat) (x : Enc) : twinB f (nsUpd v r n x) = nsUpd v r n (twinB f x) := rfl
theorem twinR_nsUpd (δ v r n : Nat) (x : Enc) : twinR δ (nsUpd v r n x) = nsUpd v r n (twinR δ x) := by
  unfold twinR
  show (if x.rem.toNat + δ = 255 then _ else _) = _
  split <;> rfl

theorem twinB_fields (f : Nat → Nat) (c : Enc) : (twinB f c).val = c.val ∧ (twinB f c).rng = c.rng ∧
    (twinB f c).nbitsTotal = c.nbitsTotal := ⟨rfl, rfl, rfl⟩
theorem twinR_fields (δ : Nat) (c : Enc) : (twinR δ c).val = c.val ∧ (twinR δ c).rng = c.rng ∧
    (twinR δ c).nbitsTotal = c.nbitsTotal := by
  unfold twinR; split <;> exact ⟨rfl, rfl, rfl⟩

theorem twin_B (k w : Nat) (c : Enc) (ho : 1 ≤ c.offs) : twin k w c = twinB (fun b => patchByte b w k % 256) c := by
  unfold twin; rw [if_pos ho]
theorem twin_R (k w : Nat) (c : Enc) (ho : c.offs = 0) (hr : 0 ≤ c.rem) : twin k w c = twinR (dlt k w) c := by
  unfold twin; rw [if_neg (by omega), if_pos hr]
theorem twin_V (k w : Nat) (c : Enc) (ho : c.offs = 0) (hr : ¬ 0 ≤ c.rem) :
    twin k w c = twinV (w * 2 ^ (31 - k)) c := by
  unfold twin; rw [if_neg (by omega), if_neg hr]

/-- the powers of two involved, with `Q = 2^(8-k)` as the only non-numeral -/
theorem kfacts (k w : Nat) (hk1 : 1 ≤ k) (hk8 : k ≤ 8) (hw : w < 2 ^ k) :
    2 ^ (31 - k) = 2 ^ (8 - k) * 8388608 ∧ w * 2 ^ (31 - k) = dlt k w * 8388608 ∧
    dlt k w + 2 ^ (8 - k) ≤ 256 ∧ 1 ≤ 2 ^ (8 - k) ∧ 2 ^ (8 - k) ≤ 128 := by
  have e1 : 2 ^ (31 - k) = 2 ^ (8 - k) * 8388608 := by
    have : 31 - k = (8 - k) + 23 := by omega
    rw [this, Nat.pow_add]
  have h8 := pow_split8 k hk8
  have h2 : (w + 1) * 2 ^ (8 - k) ≤ 2 ^ k * 2 ^ (8 - k) := Nat.mul_le_mul_right _ hw
  rw [h8, Nat.add_mul, Nat.one_mul] at h2
  have h3 : 2 ^ (8 - k) ≤ 2 ^ 7 := Nat.pow_le_pow_right (by decide) (by omega)
  refine ⟨e1, by unfold dlt; rw [e1, Nat.mul_assoc], by unfold dlt; exact h2, Nat.pow_pos (by decide), h3⟩

theorem twinV_fields (D : Nat) (c : Enc) : (twinV D c).val = c.val + D ∧ (twinV D c).rng = c.rng ∧
    (twinV D c).nbitsTotal = c.nbitsTotal ∧ (twinV D c).ext = c.ext ∧ (twinV D c).rem = c.rem := ⟨rfl, rfl, rfl, rfl, rfl⟩
theorem nsUpd_twinV (D v r n : Nat) (y : Enc) : nsUpd v r n (twinV D y) = nsUpd v r n y := rfl
theorem setExt_twinV (D e : Nat) (y : Enc) : setExt e (twinV D y) = twinV D (setExt e y) := rfl
theorem setRem_twinV (D : Nat) (r : Int) (y : Enc) : setRem r (twinV D y) = twinV D (setRem r y) := rfl
theorem setRem_self (c : Enc) (r : Int) (h : c.rem = r) : setRem r c = c := by subst h; rfl
theorem setRem_setExt (c : Enc) (r : Int) (e : Nat) : setRem r (setExt e c) = setExt e (setRem r c) := rfl

theorem arithA (δ v : Nat) : (v + δ * 8388608) / 8388608 = v / 8388608 + δ := by omega
theorem arithB (δ v : Nat) : (v + δ * 8388608) * 256 % 2147483648 = v * 256 % 2147483648 := by omega

/-- phase V: the first digit leaves `val` -/
theorem twin_normStep_V (δ D : Nat) (c : Enc) (hD : D = δ * 8388608) (hQ : c.val / 8388608 + δ ≤ 255)
    (hQ2 : c.val / 8388608 < 128) (ho0 : c.offs = 0) (hrem : c.rem = -1) (he0 : c.ext = 0) :
    normStep (twinV D c) = twinR δ (normStep c) := by
  have hr : ¬ 0 ≤ c.rem := by omega
  have hcc255 : c.val / 8388608 ≠ 255 := by omega
  have hns : normStep c = nsUpd (c.val * 256 % 2147483648) (u32 (c.rng * 256)) (c.nbitsTotal + 8)
      (setRem ((c.val / 8388608 : Nat) : Int) c) := by
    rw [normStep_eq, carryOut_norem _ _ hcc255 hr, he0, flushExt_zero]
    have : c.val / 8388608 % 256 = c.val / 8388608 := Nat.mod_eq_of_lt (by omega)
    rw [this]
  rw [hns, twinR_nsUpd, normStep_eq]
  obtain ⟨ev, er, en, e0, hr'⟩ := twinV_fields D c
  rw [ev, er, en, hD, arithA, arithB, ← hD]
  unfold twinR
  rw [setRem_rem, setRem_ext, Int.toNat_natCast]
  rw [he0] at e0
  by_cases hcor : c.val / 8388608 + δ = 255
  · rw [if_pos hcor, hcor, carryOut_255', e0, he0, setExt_twinV, nsUpd_twinV, setExt_setRem, setRem_setRem,
      ← setExt_setRem, setRem_self c (-1) hrem]
  · rw [if_neg hcor, carryOut_norem _ _ hcor (by rw [hr']; exact hr), e0, flushExt_zero]
    have : (c.val / 8388608 + δ) % 256 = c.val / 8388608 + δ := Nat.mod_eq_of_lt (by omega)
    rw [this, setRem_twinV, nsUpd_twinV, setRem_setRem]

/-- phase R -/
theorem twin_normStep_R (δ : Nat) (f : Nat → Nat) (c : Enc) (ho0 : c.offs = 0) (hr : 0 ≤ c.rem) (hlen : c.storage ≤ c.buf.length)
    (hδ : c.rem.toNat + c.val / 8388608 / 256 + δ ≤ 255)
    (hf : f (c.rem.toNat + c.val / 8388608 / 256) = c.rem.toNat + c.val / 8388608 / 256 + δ) (hext : c.ext + 1 < 4294967296)
    (herr : (normStep c).error = 0) :
    (c.val / 8388608 = 255 → normStep (twinR δ c) = twinR δ (normStep c) ∧ (normStep c).offs = 0 ∧ 0 ≤ (normStep c).rem) ∧
    (c.val / 8388608 ≠ 255 → normStep (twinR δ c) = twinB f (normStep c) ∧ 1 ≤ (normStep c).offs) := by
  obtain ⟨b1, b2, b3⟩ := twinR_fields δ c
  constructor
  · intro h255
    have hns : normStep c = nsUpd (c.val * 256 % 2147483648) (u32 (c.rng * 256)) (c.nbitsTotal + 8)
        (setExt (u32 (c.ext + 1)) c) := by rw [normStep_eq, h255, carryOut_255']
    refine ⟨?_, by rw [hns]; exact ho0, by rw [hns]; exact hr⟩
    rw [normStep_eq (twinR δ c), b1, b2, b3, hns, twinR_nsUpd, h255, carryOut_255']
    congr 1
    unfold twinR
    show _ = (if c.rem.toNat + δ = 255 then _ else _)
    by_cases hcor : c.rem.toNat + δ = 255
    · rw [if_pos hcor, if_pos hcor]; rfl
    · rw [if_neg hcor, if_neg hcor]; rfl
  · intro h255
    have herr1 : (carryOut c (c.val / 8388608)).error = 0 := by rw [normStep_eq] at herr; exact herr
    have hsp : c.offs + c.endOffs < c.storage := by
      rw [carryOut_rem _ _ h255 hr] at herr1
      have e1 : (flushExt ((255 + c.val / 8388608 / 256) % 256) c.ext
          (writeByte c (c.rem.toNat + c.val / 8388608 / 256))).error = 0 := herr1
      have e2 : (writeByte c (c.rem.toNat + c.val / 8388608 / 256)).error = 0 := by
        apply Classical.byContradiction; intro hne
        exact flushExt_error_mono _ _ _ hne e1
      exact (writeByte_ok e2).2
    obtain ⟨a1, a2⟩ := carryOut_twinR δ f c (c.val / 8388608) h255 ho0 hr hsp hlen hδ hf hext
    refine ⟨?_, by rw [normStep_eq]; exact a2⟩
    rw [normStep_eq (twinR δ c), b1, b2, b3, a1, normStep_eq, twinB_nsUpd]

theorem twin_normStep (k w : Nat) (c : Enc) (hk1 : 1 ≤ k) (hk8 : k ≤ 8) (hw : w < 2 ^ k) (pre : EncPre c)
    (hc : Cell k 0 c) (hn : c.nbitsTotal < 4294967296) (herr : (normStep c).error = 0) :
    normStep (twin k w c) = twin k w (normStep c) := by
  obtain ⟨q1, q2, q3, q4, q5⟩ := kfacts k w hk1 hk8 hw
  have hext : c.ext + 1 < 4294967296 := by have := pre.ext_bound; omega
  have hcc : c.val / 8388608 < 512 := by have := pre.sum_le; have := pre.rng_pos; omega
  by_cases ho : 1 ≤ c.offs
  · -- B
    obtain ⟨a1, a2⟩ := carryOut_twinB (fun b => patchByte b w k % 256) c (c.val / 8388608) ho
    rw [twin_B k w c ho, twin_B k w (normStep c) (by rw [normStep_eq]; exact a2)]
    rw [normStep_eq, normStep_eq]
    obtain ⟨b1, b2, b3⟩ := twinB_fields (fun b => patchByte b w k % 256) c
    rw [b1, b2, b3, a1, twinB_nsUpd]
  · have ho0 : c.offs = 0 := by omega
    obtain ⟨fV, fR⟩ := cell0_facts k c hk1 hc ho0 pre.rng_pos
    by_cases hr : 0 ≤ c.rem
    · -- R
      obtain ⟨r1, r2⟩ := fR hr
      have hδ : c.rem.toNat + c.val / 8388608 / 256 + dlt k w ≤ 255 := by
        by_cases hv : 2147483648 ≤ c.val
        · have := r2 hv; omega
        · have : c.val / 8388608 / 256 = 0 := by omega
          omega
      have ha : c.rem.toNat + c.val / 8388608 / 256 < 2 ^ (8 - k) := by
        by_cases hv : 2147483648 ≤ c.val
        · have := r2 hv; omega
        · have : c.val / 8388608 / 256 = 0 := by omega
          omega
      have hf : (fun b => patchByte b w k % 256) (c.rem.toNat + c.val / 8388608 / 256) =
          c.rem.toNat + c.val / 8388608 / 256 + dlt k w := by
        obtain ⟨p1, p2⟩ := patchByte_eq (c.rem.toNat + c.val / 8388608 / 256) w k hk8 hw
        show patchByte _ w k % 256 = _
        rw [p1, Nat.mod_eq_of_lt p2, Nat.mod_eq_of_lt ha]; rfl
      obtain ⟨t1, t2⟩ := twin_normStep_R (dlt k w) (fun b => patchByte b w k % 256) c ho0 hr pre.wf.storage_le hδ hf hext herr
      rw [twin_R k w c ho0 hr]
      by_cases h255 : c.val / 8388608 = 255
      · obtain ⟨u1, u2, u3⟩ := t1 h255
        rw [u1, twin_R k w (normStep c) u2 u3]
      · obtain ⟨u1, u2⟩ := t2 h255
        rw [u1, twin_B k w (normStep c) u2]
    · -- V
      obtain ⟨he0, hvr⟩ := fV (by omega)
      have hrem : c.rem = -1 := by have := pre.wf.rem_lo; omega
      have hrp := pre.rng_pos
      rw [q1] at hvr
      have hQ : c.val / 8388608 + dlt k w ≤ 255 := by omega
      rw [twin_V k w c ho0 hr, twin_normStep_V (dlt k w) (w * 2 ^ (31 - k)) c q2 hQ (by omega) ho0 hrem he0]
      have hns0 : (normStep c).offs = 0 ∧ 0 ≤ (normStep c).rem := by
        rw [normStep_eq, carryOut_norem _ _ (by omega) hr]
        refine ⟨?_, ?_⟩
        · show (flushExt _ c.ext c).offs = 0
          rw [he0, flushExt_zero]; exact ho0
        · show (0 : Int) ≤ ((c.val / 8388608 % 256 : Nat) : Int)
          omega
      rw [twin_R k w (normStep c) hns0.1 hns0.2]

/-! ### Normalisation, primitive operations, runs -/

theorem twin_fields (k w : Nat) (c : Enc) : (twin k w c).rng = c.rng ∧ (twin k w c).nbitsTotal = c.nbitsTotal ∧
    (twin k w c).error = c.error ∧ (twin k w c).offs = c.offs ∧ (twin k w c).endOffs = c.endOffs ∧
    (twin k w c).storage = c.storage := by
  unfold twin
  split
  · exact ⟨rfl, rfl, rfl, rfl, rfl, rfl⟩
  · split
    · unfold twinR; split <;> exact ⟨rfl, rfl, rfl, rfl, rfl, rfl⟩
    · exact ⟨rfl, rfl, rfl, rfl, rfl, rfl⟩

theorem twinV_encSub (D : Nat) (c : Enc) (r a b : Nat) (first : Bool) :
    encSub (twinV D c) r a b first = twinV D (encSub c r a b first) := by
  unfold encSub
  cases first with
  | true => rfl
  | false =>
    simp only [Bool.false_eq_true, if_false]
    obtain ⟨ev, er, _, _, _⟩ := twinV_fields D c
    apply ctx_ext <;> try rfl
    show c.val + D + (c.rng - r * a) = c.val + (c.rng - r * a) + D
    omega

theorem twin_encSub (k w : Nat) (c : Enc) (r a b : Nat) (first : Bool) :
    encSub (twin k w c) r a b first = twin k w (encSub c r a b first) := by
  have ho : (encSub c r a b first).offs = c.offs := by unfold encSub; split <;> rfl
  have hr : (encSub c r a b first).rem = c.rem := by unfold encSub; split <;> rfl
  by_cases h1 : 1 ≤ c.offs
  · rw [twin_B k w c h1, twin_B k w _ (by rw [ho]; exact h1)]
    unfold encSub; split <;> rfl
  · by_cases h2 : 0 ≤ c.rem
    · rw [twin_R k w c (by omega) h2, twin_R k w _ (by rw [ho]; omega) (by rw [hr]; exact h2)]
      unfold encSub twinR
      cases first with
      | true => simp only [if_true]; split <;> rfl
      | false => simp only [Bool.false_eq_true, if_false]; split <;> rfl
    · rw [twin_V k w c (by omega) h2, twin_V k w _ (by rw [ho]; omega) (by rw [hr]; exact h2)]
      exact twinV_encSub _ c r a b first

theorem twin_encNormalize (k w : Nat) (hk1 : 1 ≤ k) (hk8 : k ≤ 8) (hw : w < 2 ^ k) (c : Enc) (pre : EncPre c)
    (hc : Cell k 0 c) (hn : (encNormalize c).nbitsTotal < 4294967296) (herr : (encNormalize c).error = 0) :
    encNormalize (twin k w c) = twin k w (encNormalize c) := by
  induction hm : 8388609 - c.rng using Nat.strongRecOn generalizing c with
  | _ m ih =>
    have hrng := (twin_fields k w c).1
    by_cases hcond : 0 < c.rng ∧ c.rng ≤ 8388608
    · rw [encNormalize_step c hcond] at hn herr ⊢
      rw [encNormalize_step (twin k w c) (by rw [hrng]; exact hcond)]
      have hnb := encNormalize_nbits_ge (normStep c)
      have hnb2 : (normStep c).nbitsTotal = c.nbitsTotal + 8 := rfl
      have herr1 : (normStep c).error = 0 := by
        apply Classical.byContradiction; intro hne
        exact encNormalize_error_mono _ hne herr
      obtain ⟨_, s1, _, s3, _⟩ := normStep_spec c pre hcond.2 (by omega) herr1
      rw [twin_normStep k w c hk1 hk8 hw pre hc (by omega) herr1]
      exact ih (8388609 - (normStep c).rng) (by rw [s3]; omega) (normStep c) s1
        (cell_normStep k 0 c pre hcond.2 (by omega) herr1 hc) hn herr rfl
    · rw [encNormalize_done c hcond, encNormalize_done (twin k w c) (by rw [hrng]; exact hcond)]

/-- range-coded operations: `ec_encode`, `ec_encode_bin`, `ec_enc_bit_logp`, `ec_enc_icdf(16)` -/
def Op.isPrim : Op → Bool
  | .encode _ _ _ => true
  | .encodeBin _ _ _ => true
  | .bitLogp _ _ => true
  | .icdf _ _ _ => true
  | .icdf16 _ _ _ => true
  | _ => false

theorem Op.isPrim_sub {op : Op} (h : op.isPrim = true) (rng : Nat) : ∃ r a b first, op.sub rng = some (r, a, b, first) := by
  cases op with
  | encode fl fh ft => exact ⟨_, _, _, _, rfl⟩
  | encodeBin fl fh nb => exact ⟨_, _, _, _, rfl⟩
  | bitLogp v logp =>
    by_cases hv : v ≠ 0
    · exact ⟨_, _, _, _, by simp only [Op.sub]; rw [if_pos hv]⟩
    · exact ⟨_, _, _, _, by simp only [Op.sub]; rw [if_neg hv]⟩
  | icdf s tbl ftb => exact ⟨_, _, _, _, rfl⟩
  | icdf16 s tbl ftb => exact ⟨_, _, _, _, rfl⟩
  | uint v ft => simp [Op.isPrim] at h
  | bits v n => simp [Op.isPrim] at h
  | patchInitial v n => simp [Op.isPrim] at h
  | shrink size => simp [Op.isPrim] at h

theorem Op.isPrim_legalAt {op : Op} (h : op.isPrim = true) (c : Enc) : op.LegalAt c ↔ op.Legal := by
  cases op <;> first | rfl | simp [Op.isPrim] at h

theorem twin_encOp (k w : Nat) (hk1 : 1 ≤ k) (hk8 : k ≤ 8) (hw : w < 2 ^ k) (c : Enc) (op : Op) (hp : op.isPrim = true)
    (ri : RunInv c) (ri' : RunInv (twin k w c)) (hc : Cell k 0 c) (hl : op.Legal)
    (hn : (encOp c op).nbitsTotal < 4294967296) (herr : (encOp c op).error = 0) :
    encOp (twin k w c) op = twin k w (encOp c op) ∧ RunInv (encOp c op) ∧ RunInv (encOp (twin k w c) op) ∧
    Cell k 0 (encOp c op) := by
  obtain ⟨r, a, b, first, hsub⟩ := Op.isPrim_sub hp c.rng
  have hrng := (twin_fields k w c).1
  obtain ⟨ok, heq⟩ := encOp_sub c op ri.inv hl hsub
  obtain ⟨_, heq'⟩ := encOp_sub (twin k w c) op ri'.inv hl (by rw [hrng]; exact hsub)
  obtain ⟨pre, _, _⟩ := encSub_spec c r a b first ri.inv ok
  have hcs := cell_encSub k 0 c r a b first ri.inv ok hc
  have key : encOp (twin k w c) op = twin k w (encOp c op) := by
    rw [heq', heq, twin_encSub]
    rw [heq] at hn herr
    exact twin_encNormalize k w hk1 hk8 hw _ pre hcs hn herr
  have s1 := step_prim c op ri hl hsub hn herr
  have f := twin_fields k w (encOp c op)
  have s2 := step_prim (twin k w c) op ri' hl (by rw [hrng]; exact hsub) (by rw [key, f.2.1]; exact hn)
    (by rw [key, f.2.2.1]; exact herr)
  exact ⟨key, s1.run, s2.run, cell_prim k 0 c op ri.inv hl hsub hn herr hc⟩

theorem twin_run (k w : Nat) (hk1 : 1 ≤ k) (hk8 : k ≤ 8) (hw : w < 2 ^ k) (ops : List Op) : ∀ (c : Enc),
    RunInv c → RunInv (twin k w c) → Cell k 0 c → (∀ op ∈ ops, op.isPrim = true ∧ op.Legal) →
    (encRun c ops).nbitsTotal < 4294967296 → (encRun c ops).error = 0 →
    encRun (twin k w c) ops = twin k w (encRun c ops) ∧ RunInv (encRun c ops) ∧ RunInv (encRun (twin k w c) ops) ∧
    Cell k 0 (encRun c ops) := by
  induction ops with
  | nil => intro c ri ri' hc _ _ _; exact ⟨rfl, ri, ri', hc⟩
  | cons op ops ih =>
    intro c ri ri' hc hall hn herr
    have herr1 : (encOp c op).error = 0 := by
      apply Classical.byContradiction; intro hne
      exact encRun_error_mono ops _ hne herr
    have hn1 : (encOp c op).nbitsTotal < 4294967296 := Nat.lt_of_le_of_lt (encRun_nbits_mono ops _) hn
    obtain ⟨hp, hl⟩ := hall op (List.mem_cons_self ..)
    obtain ⟨a1, a2, a3, a4⟩ := twin_encOp k w hk1 hk8 hw c op hp ri ri' hc hl hn1 herr1
    simp only [encRun]
    rw [a1]
    rw [a1] at a3
    exact ih (encOp c op) a2 a3 a4 (fun o ho => hall o (List.mem_cons_of_mem _ ho)) hn herr

/-! ### The patch -/

/-- After the patch the first encoder is in the second one's state, up to the representation of a pending 0xFF. -/
theorem patch_twin (k w : Nat) (hk1 : 1 ≤ k) (hk8 : k ≤ 8) (hw : w < 2 ^ k) (c : Enc) (ri : RunInv c) (hc : Cell k 0 c) :
    canon (encPatchInitialBits c w k) = canon (twin k w c) := by
  obtain ⟨q1, q2, q3, q4, q5⟩ := kfacts k w hk1 hk8 hw
  by_cases ho : c.offs > 0
  · have e : encPatchInitialBits c w k = twinB (fun b => patchByte b w k % 256) c := by
      unfold encPatchInitialBits; simp only [if_pos ho]; rfl
    rw [e, twin_B k w c ho]
  · have ho0 : c.offs = 0 := by omega
    obtain ⟨fV, fR⟩ := cell0_facts k c hk1 hc ho0 ri.inv.rng_pos
    by_cases hr : c.rem ≥ 0
    · obtain ⟨r1, _⟩ := fR hr
      obtain ⟨pb1, pb2⟩ := patchByte_eq c.rem.toNat w k hk8 hw
      have e : encPatchInitialBits c w k = setRem ((c.rem.toNat + dlt k w : Nat) : Int) c := by
        unfold encPatchInitialBits; simp only [if_neg ho, if_pos hr]
        rw [pb1, Nat.mod_eq_of_lt r1]; rfl
      rw [e, twin_R k w c ho0 hr]
      unfold twinR
      by_cases hcor : c.rem.toNat + dlt k w = 255
      · rw [if_pos hcor, hcor]
        have h1 : canon (setRem ((255 : Nat) : Int) c) = setRem (-1) (setExt (u32 (c.ext + 1)) c) := by
          unfold canon; rw [if_pos (by rfl)]; rfl
        rw [h1, canon_of_ne (by show (-1 : Int) ≠ 255; decide)]
      · rw [if_neg hcor]
    · obtain ⟨he0, hvr⟩ := fV (by omega)
      rw [q1] at hvr
      have hrp := ri.inv.rng_pos
      have hpow : 2 ^ k * 2 ^ (31 - k) = 2147483648 := by
        rw [← Nat.pow_add]; have : k + (31 - k) = 31 := by omega
        rw [this]
      have hdiv : 2147483648 / 2 ^ k = 2 ^ (31 - k) :=
        Nat.div_eq_of_eq_mul_right (Nat.pow_pos (by decide)) hpow.symm
      have e31 : 23 + (8 - k) = 31 - k := by omega
      have hvtop : (w + 1) * 2 ^ (31 - k) ≤ 2147483648 := by
        rw [← hpow]; exact Nat.mul_le_mul_right _ hw
      rw [Nat.add_mul, Nat.one_mul] at hvtop
      have hval : c.val < 2 ^ (31 - k) := by rw [q1]; omega
      have e : encPatchInitialBits c w k = twinV (w * 2 ^ (31 - k)) c := by
        unfold encPatchInitialBits
        have hrz : c.rng ≤ 2 ^ (31 - k) := by rw [q1]; omega
        simp only [if_neg ho, if_neg hr, if_neg (show ¬ c.ext > 0 by omega), hdiv, if_pos hrz, e31]
        have h0 : c.val / 2147483648 = 0 := Nat.div_eq_of_lt (by omega)
        have hsh : w <<< (31 - k) < 4294967296 := by rw [Nat.shiftLeft_eq]; omega
        rw [h0, Nat.zero_mul, Nat.add_zero, u32_of_lt hsh, Nat.mod_eq_of_lt hval, or_shift _ _ _ hval]
        rfl
      rw [e, twin_V k w c ho0 hr]

/-! ### The start: `k ≤ 7` single bits from `ec_enc_init` -/

/-- state after `j ≤ 7` equiprobable bits of value `v` (no normalisation has happened yet) -/
def bitsState (buf : List Nat) (size j v : Nat) : Enc := setVR (encInit buf size) (v * 2 ^ (31 - j)) (2 ^ (31 - j))

theorem setVR_setVR (c : Enc) (a b x y : Nat) : setVR (setVR c a b) x y = setVR c x y := rfl
theorem setVR_val (c : Enc) (a b : Nat) : (setVR c a b).val = a := rfl
theorem setVR_rng (c : Enc) (a b : Nat) : (setVR c a b).rng = b := rfl

theorem bit_step (buf : List Nat) (size j v b : Nat) (hj : j ≤ 6) (hv : v < 2 ^ j) :
    encOp (bitsState buf size j v) (.bitLogp b 1) = bitsState buf size (j + 1) (2 * v + (if b ≠ 0 then 1 else 0)) := by
  have e1 : 31 - j = (31 - (j + 1)) + 1 := by omega
  have hR : 2 ^ (31 - j) = 2 * 2 ^ (31 - (j + 1)) := by rw [e1, Nat.pow_succ, Nat.mul_comm]
  have hR'lo : 16777216 ≤ 2 ^ (31 - (j + 1)) := by
    have : (16777216 : Nat) = 2 ^ 24 := by decide
    rw [this]; exact Nat.pow_le_pow_right (by decide) (by omega)
  have hR'hi : 2 ^ (31 - (j + 1)) ≤ 1073741824 := by
    have : (1073741824 : Nat) = 2 ^ 30 := by decide
    rw [this]; exact Nat.pow_le_pow_right (by decide) (by omega)
  have hvR : (v + 1) * 2 ^ (31 - j) ≤ 2147483648 := by
    have h1 : (v + 1) * 2 ^ (31 - j) ≤ 2 ^ j * 2 ^ (31 - j) := Nat.mul_le_mul_right _ hv
    have h2 : 2 ^ j * 2 ^ (31 - j) = 2147483648 := by
      rw [← Nat.pow_add]; have : j + (31 - j) = 31 := by omega
      rw [this]
    omega
  show encBitLogp (bitsState buf size j v) b 1 = _
  rw [encBitLogp_form]
  unfold bitsState
  rw [setVR_val, setVR_rng, setVR_setVR, Nat.pow_one, hR]
  rw [hR, Nat.add_mul, Nat.one_mul] at hvR
  generalize 2 ^ (31 - (j + 1)) = R' at *
  have ed : 2 * R' / 2 = R' := by omega
  rw [ed, sub32_of_le (by omega) (by omega)]
  have es : 2 * R' - R' = R' := by omega
  rw [es]
  have hnd : ¬ (0 < R' ∧ R' ≤ 8388608) := by omega
  by_cases hb : b ≠ 0
  · rw [if_pos hb, if_pos hb, if_pos hb, add32_of_lt (by omega), encNormalize_done _ (by rw [setVR_rng]; exact hnd)]
    have : v * (2 * R') + R' = (2 * v + 1) * R' := by
      rw [Nat.add_mul, Nat.one_mul, Nat.mul_left_comm, Nat.mul_assoc]
    rw [this]
  · rw [if_neg hb, if_neg hb, if_neg hb, encNormalize_done _ (by rw [setVR_rng]; exact hnd)]
    have : v * (2 * R') = (2 * v + 0) * R' := by
      rw [Nat.add_zero, Nat.mul_left_comm, Nat.mul_assoc]
    rw [this]

theorem bits_chain (buf : List Nat) (size : Nat) : ∀ (n j v w : Nat), j + n ≤ 7 → v < 2 ^ j → w < 2 ^ n →
    encRun (bitsState buf size j v) (bitsOps w n) = bitsState buf size (j + n) (v * 2 ^ n + w)
  | 0, j, v, w, _, _, hw => by
    have : w = 0 := by simpa using hw
    subst this
    simp only [bitsOps, encRun, Nat.pow_zero, Nat.mul_one, Nat.add_zero]
  | n + 1, j, v, w, hj, hv, hw => by
    have hP : 0 < 2 ^ n := Nat.pow_pos (by decide)
    have hq : w / 2 ^ n < 2 := by
      rw [Nat.div_lt_iff_lt_mul hP, Nat.mul_comm, ← Nat.pow_succ]; exact hw
    have hb : (if w / 2 ^ n % 2 ≠ 0 then 1 else 0) = w / 2 ^ n := by
      generalize w / 2 ^ n = q at hq ⊢
      by_cases h : q % 2 ≠ 0
      · rw [if_pos h]; omega
      · rw [if_neg h]; omega
    simp only [bitsOps, encRun]
    rw [bit_step buf size j v _ (by omega) hv, hb]
    have hv' : 2 * v + w / 2 ^ n < 2 ^ (j + 1) := by rw [Nat.pow_succ]; omega
    rw [bits_chain buf size n (j + 1) (2 * v + w / 2 ^ n) (w % 2 ^ n) (by omega) hv' (Nat.mod_lt _ hP)]
    have e1 : j + 1 + n = j + (n + 1) := by omega
    have e2 : (2 * v + w / 2 ^ n) * 2 ^ n + w % 2 ^ n = v * 2 ^ (n + 1) + w := by
      have := Nat.div_add_mod w (2 ^ n)
      rw [Nat.add_mul, Nat.pow_succ, Nat.mul_comm 2 v, Nat.mul_assoc, Nat.mul_comm 2 (2 ^ n), Nat.mul_comm (w / 2 ^ n)]
      omega
    rw [e1, e2]

theorem encInit_bitsState (buf : List Nat) (size : Nat) : encInit buf size = bitsState buf size 0 0 := by
  unfold bitsState setVR encInit
  apply ctx_ext <;> first | rfl | (simp only [Nat.zero_mul]) | (show (2147483648 : Nat) = 2 ^ (31 - 0); decide)

theorem prim_legalRun (ops : List Op) (h : ∀ op ∈ ops, op.isPrim = true ∧ op.Legal) : ∀ (c : Enc), LegalRun c ops := by
  induction ops with
  | nil => intro _; trivial
  | cons op ops ih =>
    intro c
    obtain ⟨hp, hl⟩ := h op (List.mem_cons_self ..)
    exact ⟨(Op.isPrim_legalAt hp c).mpr hl, ih (fun o ho => h o (List.mem_cons_of_mem _ ho)) _⟩

theorem bitsOps_prim : ∀ (w n : Nat), ∀ op ∈ bitsOps w n, op.isPrim = true ∧ op.Legal
  | w, 0 => by intro op h; simp [bitsOps] at h
  | w, n + 1 => by
    intro op h
    simp only [bitsOps, List.mem_cons] at h
    rcases h with rfl | h
    · exact ⟨rfl, Nat.le_refl 1, by decide⟩
    · exact bitsOps_prim (w % 2 ^ n) n op h

theorem placeholder_state (buf : List Nat) (size k : Nat) (hk1 : 1 ≤ k) (hk7 : k ≤ 7) :
    encOp (encInit buf size) (.encodeBin 0 1 k) = bitsState buf size k 0 := by
  have hpow : 2 ^ k * 2 ^ (31 - k) = 2147483648 := by
    rw [← Nat.pow_add]; have : k + (31 - k) = 31 := by omega
    rw [this]
  have hdiv : 2147483648 / 2 ^ k = 2 ^ (31 - k) :=
    Nat.div_eq_of_eq_mul_right (Nat.pow_pos (by decide)) hpow.symm
  have hRlo : 16777216 ≤ 2 ^ (31 - k) := by
    have : (16777216 : Nat) = 2 ^ 24 := by decide
    rw [this]; exact Nat.pow_le_pow_right (by decide) (by omega)
  have hk2 : 2 ≤ 2 ^ k := by
    have : (2 : Nat) = 2 ^ 1 := by decide
    conv => lhs; rw [this]
    exact Nat.pow_le_pow_right (by decide) hk1
  have hk128 : 2 ^ k ≤ 128 := by
    have : (128 : Nat) = 2 ^ 7 := by decide
    rw [this]; exact Nat.pow_le_pow_right (by decide) hk7
  show encodeBin (encInit buf size) 0 1 k = _
  rw [encodeBin_form]
  have ev : (encInit buf size).val = 0 := rfl
  have er : (encInit buf size).rng = 2147483648 := rfl
  rw [ev, er, if_neg (by decide), if_neg (by decide), hdiv]
  unfold bitsState
  rw [Nat.zero_mul]
  have hsub : 2 ^ k * 2 ^ (31 - k) - 2 ^ (31 - k) = 2 ^ (31 - k) * (2 ^ k - 1) := by
    rw [Nat.mul_sub, Nat.mul_one, Nat.mul_comm]
  generalize 2 ^ (31 - k) = R at *
  generalize 2 ^ k = K at *
  have hRle : R ≤ 2147483648 := by rw [← hpow]; exact Nat.le_mul_of_pos_left _ (by omega)
  have h1 : u32 K = K := u32_of_lt (by omega)
  have h2 : sub32 K 1 = K - 1 := sub32_of_le (by omega) (by omega)
  have h3 : mul32 R (K - 1) = R * (K - 1) := mul32_of_lt (by rw [← hsub]; omega)
  have h4 : sub32 2147483648 (R * (K - 1)) = 2147483648 - R * (K - 1) := sub32_of_le (by omega) (by rw [← hsub]; omega)
  rw [h1, h2, h3, h4, ← hsub, hpow]
  have : 2147483648 - (2147483648 - R) = R := by omega
  rw [this, encNormalize_done _ (by rw [setVR_rng]; omega)]

/-- coding the true bits from the start: the state is the twin of the placeholder state -/
theorem twin_start (buf : List Nat) (size k w : Nat) (hk1 : 1 ≤ k) (hk7 : k ≤ 7) (hw : w < 2 ^ k) :
    encRun (encInit buf size) (bitsOps w k) = twin k w (encOp (encInit buf size) (.encodeBin 0 1 k)) := by
  rw [placeholder_state buf size k hk1 hk7, encInit_bitsState,
    bits_chain buf size k 0 0 w (by omega) (by decide) hw, Nat.zero_mul, Nat.zero_add, Nat.zero_add]
  have ho : (bitsState buf size k 0).offs = 0 := rfl
  have hr : ¬ 0 ≤ (bitsState buf size k 0).rem := by show ¬ (0 : Int) ≤ -1; decide
  rw [twin_V k w _ ho hr]
  unfold bitsState
  apply ctx_ext <;> first | rfl | (show w * 2 ^ (31 - k) = 0 * 2 ^ (31 - k) + w * 2 ^ (31 - k); omega)

theorem legalRun_append_mk (a b : List Op) : ∀ (c : Enc), LegalRun c a → LegalRun (encRun c a) b → LegalRun c (a ++ b) := by
  induction a with
  | nil => intro c _ h; exact h
  | cons op a ih => intro c h1 h2; exact ⟨h1.1, ih _ h1.2 h2⟩

/-- **Patching the placeholder is coding the true bits.**  For `k ≤ 7` leading bits, range-coded operations `body`
    between the placeholder and the patch, and any legal continuation `suf`: the patched run and the run that codes
    the bits `w` first end in the same state up to the representation of a pending 0xFF (in particular with the same
    `rng`, `nbits_total`, error flag and committed bytes), both satisfy the run invariant, and `ec_enc_done` produces
    identical results. -/
theorem patched_eq_bits (buf : List Nat) (size k w : Nat) (body suf : List Op) (hs : size ≤ buf.length) (hb : BytesOk buf)
    (hk1 : 1 ≤ k) (hk7 : k ≤ 7) (hw : w < 2 ^ k) (hbody : ∀ op ∈ body, op.isPrim = true ∧ op.Legal)
    (hsuf : LegalRun (encRun (encInit buf size) (.icdf 0 (flagTable k) 8 :: (body ++ [.patchInitial w k]))) suf)
    (hn : (encRun (encInit buf size) (.icdf 0 (flagTable k) 8 :: (body ++ [.patchInitial w k] ++ suf))).nbitsTotal < 4294967296)
    (herr : (encRun (encInit buf size) (.icdf 0 (flagTable k) 8 :: (body ++ [.patchInitial w k] ++ suf))).error = 0) :
    canon (encRun (encInit buf size) (.icdf 0 (flagTable k) 8 :: (body ++ [.patchInitial w k] ++ suf))) =
      canon (encRun (encInit buf size) (bitsOps w k ++ body ++ suf)) ∧
    RunInv (encRun (encInit buf size) (bitsOps w k ++ body ++ suf)) ∧
    LegalRun (encInit buf size) (bitsOps w k ++ body ++ suf) ∧
    encDone (encRun (encInit buf size) (.icdf 0 (flagTable k) 8 :: (body ++ [.patchInitial w k] ++ suf))) =
      encDone (encRun (encInit buf size) (bitsOps w k ++ body ++ suf)) := by
  have hk8 : k ≤ 8 := by omega
  simp only [encRun] at hsuf hn herr ⊢
  rw [flag_placeholder_eq buf size k hk1 hk8] at hsuf hn herr ⊢
  rw [encRun_append, encRun_append] at hn herr ⊢
  rw [encRun_append] at hsuf
  simp only [encRun] at hsuf hn herr ⊢
  rw [encRun_append, encRun_append, twin_start buf size k w hk1 hk7 hw]
  generalize hc0 : encOp (encInit buf size) (.encodeBin 0 1 k) = c0 at *
  -- the body
  have herrP : (encPatchInitialBits (encRun c0 body) w k).error = 0 := by
    apply Classical.byContradiction; intro hne
    exact encRun_error_mono suf _ hne herr
  have hnP : (encPatchInitialBits (encRun c0 body) w k).nbitsTotal < 4294967296 :=
    Nat.lt_of_le_of_lt (encRun_nbits_mono suf _) hn
  have ri0 := runInv_encInit buf size hs hb
  have hnB : (encRun c0 body).nbitsTotal < 4294967296 := by rw [(patch_rn _ w k).2] at hnP; exact hnP
  have herrB : (encRun c0 body).error = 0 := by
    apply Classical.byContradiction; intro hne
    exact encOp_error_mono _ (.patchInitial w k) hne herrP
  have herr0 : c0.error = 0 := by
    apply Classical.byContradiction; intro hne
    exact encRun_error_mono body _ hne herrB
  have hn0 : c0.nbitsTotal < 4294967296 := Nat.lt_of_le_of_lt (encRun_nbits_mono body _) hnB
  have hleg0 : (Op.encodeBin 0 (0 + 1) k).LegalAt (encInit buf size) := ⟨by omega, by omega, hk1, by omega⟩
  have ric0 : RunInv c0 := by
    rw [← hc0]; exact (step_op _ _ ri0 hleg0 (by rw [hc0]; exact hn0) (by rw [hc0]; exact herr0)).run
  have hcell0 : Cell k 0 c0 := by
    rw [← hc0]
    exact cell_first buf size k 0 hs hb hk1 hk8 (Nat.pow_pos (by decide)) (by rw [hc0]; exact hn0) (by rw [hc0]; exact herr0)
  -- the twin's start satisfies the run invariant: it is a legal run from `ec_enc_init`
  have ritw0 : RunInv (twin k w c0) := by
    rw [← hc0, ← twin_start buf size k w hk1 hk7 hw]
    have hl := prim_legalRun (bitsOps w k) (bitsOps_prim w k) (encInit buf size)
    have f := twin_fields k w c0
    refine (run_back (bitsOps w k) _ ri0 hl ?_ ?_).2.1
    · rw [twin_start buf size k w hk1 hk7 hw, hc0, f.2.1]; exact hn0
    · rw [twin_start buf size k w hk1 hk7 hw, hc0, f.2.2.1]; exact herr0
  obtain ⟨t1, t2, t3, t4⟩ := twin_run k w hk1 hk8 hw body c0 ric0 ritw0 hcell0 hbody hnB herrB
  rw [t1]
  rw [t1] at t3
  -- the patch
  have hpt := patch_twin k w hk1 hk8 hw (encRun c0 body) t2 t4
  obtain ⟨_, riP, _⟩ := patch_spec (encRun c0 body) k 0 w t2 t4 hw
  -- the continuation
  obtain ⟨r1, r2, r3, r4⟩ := run_canon suf _ _ riP t3 hpt hsuf hn herr
  refine ⟨r1, r3, ?_, encDone_of_canon_eq r2 r3 r1 hn⟩
  rw [List.append_assoc]
  apply legalRun_append_mk _ _ _ (prim_legalRun (bitsOps w k) (bitsOps_prim w k) _)
  rw [twin_start buf size k w hk1 hk7 hw, hc0]
  apply legalRun_append_mk _ _ _ (prim_legalRun body hbody _)
  rw [t1]; exact r4

end Opus.RangeCoder
