import OpusProofs.RepackBasic
/-
  C07 helper lemmas, part 2: without extensions, what `emit` (the code-selection and writing part
  of `opus_repacketizer_out_range_impl`) produces is either BUFFER_TOO_SMALL — exactly when the
  minimal size exceeds `maxlen` — or the RFC serialisation of the packet `outPacket`.
-/
namespace Opus.RepackProofs
open Opus Opus.Framing Opus.FramingSpec Opus.FramingProofs Opus.Repack Opus.Ext

/-- Size of the packet the repacketizer emits without padding: code 0 for one frame, code 1 / 2 for
    two, code 3 CBR / VBR for more. -/
def minSize (sd : Bool) (lens : List Nat) : Int :=
  match lens with
  | [l0] => sdSize sd l0 + l0 + 1
  | [l0, l1] =>
    if l1 = l0 then sdSize sd l1 + 2 * l0 + 1
    else sdSize sd l1 + l0 + l1 + 2 + (if 252 ≤ l0 then 1 else 0)
  | _ => tot3 lens (sdSize sd (lens.getLastD 0))

/-- Frame-count code chosen for one or two frames. -/
def lowCode (lens : List Nat) : Nat :=
  match lens with
  | [_, l1] => if l1 = lens.headD 0 then 1 else 2
  | _ => 0

/-- The padding the repacketizer writes for `pad_amount = amount > 0` bytes in total:
    `(amount-1)/255` length bytes 255, one final length byte, zeros. -/
def padOf (amount : Int) : Option Pad :=
  if amount = 0 then none
  else
    let nb := (amount - 1) / 255
    some { n255 := nb.toNat, last := (amount - 255 * nb - 1).toNat,
           bytes := List.replicate (amount - nb - 1).toNat 0 }

/-- Codes 0/1/2 are used for one or two frames unless padding has to be added. -/
def useLow (frames : List Bytes) (maxlen : Int) (sd pad : Bool) : Prop :=
  frames.length ≤ 2 ∧ ¬ (pad = true ∧ minSize sd (frames.map List.length) < maxlen)

instance (frames : List Bytes) (maxlen : Int) (sd pad : Bool) : Decidable (useLow frames maxlen sd pad) := by
  unfold useLow; infer_instance

def lowPacket (toc : Nat) (frames : List Bytes) : Packet :=
  { toc := toc / 4 * 4 + lowCode (frames.map List.length), frames, vbr := false, pad := none }

def highPacket (toc : Nat) (frames : List Bytes) (maxlen : Int) (sd pad : Bool) : Packet :=
  { toc := toc / 4 * 4 + 3, frames, vbr := isVbr (frames.map List.length),
    pad := if pad then padOf (maxlen - tot3 (frames.map List.length) (sdSize sd ((frames.map List.length).getLastD 0)))
           else none }

/-- The packet emitted for `frames` (extension-free case). -/
def outPacket (toc : Nat) (frames : List Bytes) (maxlen : Int) (sd pad : Bool) : Packet :=
  if useLow frames maxlen sd pad then lowPacket toc frames else highPacket toc frames maxlen sd pad

theorem outPacket_low {toc : Nat} {frames : List Bytes} {maxlen : Int} {sd pad : Bool}
    (h : useLow frames maxlen sd pad) : outPacket toc frames maxlen sd pad = lowPacket toc frames := if_pos h
theorem outPacket_high {toc : Nat} {frames : List Bytes} {maxlen : Int} {sd pad : Bool}
    (h : ¬ useLow frames maxlen sd pad) : outPacket toc frames maxlen sd pad = highPacket toc frames maxlen sd pad := if_neg h

/-- Code 3 without extensions. -/
theorem code3_noext (toc : Nat) (frames : List Bytes) (hne : frames ≠ []) (tot0 maxlen : Int) (sdBytes : Bytes)
    (pad : Bool) (hfit : tot3 (frames.map List.length) tot0 ≤ maxlen) :
    code3 toc frames tot0 maxlen sdBytes pad #[] =
      .ok ([toc / 4 * 4 + 3, frames.length +
              (if (if pad then padOf (maxlen - tot3 (frames.map List.length) tot0) else none).isSome then 64 else 0) +
              (if isVbr (frames.map List.length) then 128 else 0)] ++
           padHdr (if pad then padOf (maxlen - tot3 (frames.map List.length) tot0) else none) ++
           (if isVbr (frames.map List.length) then (frames.map List.length).dropLast.flatMap encLen else []) ++
           sdBytes ++ frames.flatten ++
           padData (if pad then padOf (maxlen - tot3 (frames.map List.length) tot0) else none)) := by
  unfold code3
  simp only [List.size_toArray, List.length_nil, Nat.lt_irrefl, if_false]
  rw [if_neg (by omega)]
  cases pad with
  | false =>
    simp only [Bool.false_eq_true, if_false, ne_eq, not_true_eq_false, Option.isSome_none, Nat.add_zero,
      Int.lt_irrefl, List.append_nil]
    simp [vbrSizeBytes_eq, padHdr, padData]
  | true =>
    simp only [if_true]
    by_cases hz : maxlen - tot3 (frames.map List.length) tot0 = 0
    · simp [hz, padOf, vbrSizeBytes_eq, padHdr, padData]
    · simp only [ne_eq, hz, not_false_eq_true, if_true, padOf, if_false, Option.isSome_some]
      rw [if_neg (by omega), if_neg (by omega)]
      simp only [true_and, if_true, Pad.hdr, vbrSizeBytes_eq, padHdr, padData]
      have e1 : (maxlen - (tot3 (frames.map List.length) tot0 + (maxlen - tot3 (frames.map List.length) tot0 - 1) / 255 + 1)).toNat
          = (maxlen - tot3 (frames.map List.length) tot0 - (maxlen - tot3 (frames.map List.length) tot0 - 1) / 255 - 1).toNat := by
        omega
      rw [e1]
      split <;> simp <;> omega

theorem encodeSize_eq (n : Nat) : encodeSize n = encLen n := rfl

theorem isVbr_one (l0 : Nat) : isVbr [l0] = false := by simp [isVbr]
theorem isVbr_two (l0 l1 : Nat) : isVbr [l0, l1] = (l1 != l0) := by
  simp [isVbr]; by_cases h : l1 = l0 <;> simp [h]

theorem tot3_le_of_min (sd : Bool) (lens : List Nat) (h3 : 2 < lens.length) :
    minSize sd lens = tot3 lens (sdSize sd (lens.getLastD 0)) := by
  match lens, h3 with
  | _ :: _ :: _ :: _, _ => rfl

/-- `emit` without extensions: BUFFER_TOO_SMALL exactly when the minimal size exceeds `maxlen`,
    otherwise the serialisation of `outPacket`. -/
theorem emit_noext (toc : Nat) (frames : List Bytes) (hne : frames ≠ []) (maxlen : Int) (sd pad : Bool) :
    emit toc frames maxlen sd pad #[] =
      if minSize sd (frames.map List.length) > maxlen then .err .bufferTooSmall
      else .ok (serialize sd (outPacket toc frames maxlen sd pad)) := by
  match frames, hne with
  | [f0], _ =>
    simp only [emit, firstPass, List.map_cons, List.map_nil, minSize, List.getLastD_cons, List.getLastD_nil,
      List.length_cons, List.length_nil]
    by_cases hbig : sdSize sd f0.length + ↑f0.length + 1 > maxlen
    · simp [hbig]
    · rw [if_neg hbig, if_neg hbig]
      simp only []
      by_cases hp : pad = true ∧ sdSize sd f0.length + ↑f0.length + 1 < maxlen
      · have hfit : tot3 ([f0].map List.length) (sdSize sd f0.length) ≤ maxlen := by
          simp [tot3, isVbr_one]; omega
        rw [if_pos (Or.inr (Or.inl hp)), code3_noext toc [f0] (by simp) _ _ _ _ hfit]
        have hop : outPacket toc [f0] maxlen sd pad = highPacket toc [f0] maxlen sd pad :=
          outPacket_high (fun h => h.2 hp)
        unfold highPacket at hop
        rw [hop, ser_code3 sd _ _ _ _ (by omega) (by simp)]
        simp [encodeSize_eq]
      · have h2 : ¬ (2 < 0 + 1 ∨ (pad = true ∧ sdSize sd f0.length + ↑f0.length + 1 < maxlen) ∨ 0 < (#[] : Array Ext).size) := by
          simp; intro h; simpa [h] using hp
        rw [if_neg h2]
        have hop : outPacket toc [f0] maxlen sd pad = lowPacket toc [f0] :=
          outPacket_low ⟨by simp, fun h => hp h⟩
        have hlc : lowCode ([f0].map List.length) = 0 := by simp [lowCode]
        unfold lowPacket at hop
        rw [hlc] at hop
        rw [hop, ser_code0 sd _ _ (by omega)]
        simp [encodeSize_eq]
  | [f0, f1], _ =>
    simp only [emit, firstPass, List.map_cons, List.map_nil, minSize, List.getLastD_cons, List.getLastD_nil,
      List.length_cons, List.length_nil]
    have hl : [f0.length, f1.length].getLast (by simp) = f1.length := rfl
    by_cases heq : f1.length = f0.length
    · simp only [heq, if_true]
      by_cases hbig : sdSize sd f0.length + 2 * ↑f0.length + 1 > maxlen
      · simp [hbig]
      · rw [if_neg hbig, if_neg hbig]
        simp only []
        by_cases hp : pad = true ∧ sdSize sd f0.length + 2 * ↑f0.length + 1 < maxlen
        · have hfit : tot3 ([f0, f1].map List.length) (sdSize sd f0.length) ≤ maxlen := by
            simp [tot3, isVbr_two, heq]; omega
          rw [if_pos (Or.inr (Or.inl hp)), code3_noext toc [f0, f1] (by simp) _ _ _ _ hfit]
          have hop : outPacket toc [f0, f1] maxlen sd pad = highPacket toc [f0, f1] maxlen sd pad :=
            outPacket_high (fun h => h.2 (by simpa [minSize, heq] using hp))
          unfold highPacket at hop
          rw [hop, ser_code3 sd _ _ _ _ (by omega) (by simp)]
          simp [encodeSize_eq, heq]
        · have h2 : ¬ (2 < 0 + 1 + 1 ∨ (pad = true ∧ sdSize sd f0.length + 2 * ↑f0.length + 1 < maxlen) ∨ 0 < (#[] : Array Ext).size) := by
            simp; intro h; simpa [h] using hp
          rw [if_neg h2]
          have hop : outPacket toc [f0, f1] maxlen sd pad = lowPacket toc [f0, f1] :=
            outPacket_low ⟨by simp, fun h => hp (by simpa [minSize, heq] using h)⟩
          have hlc : lowCode ([f0, f1].map List.length) = 1 := by simp [lowCode, heq]
          unfold lowPacket at hop
          rw [hlc] at hop
          rw [hop, ser_code1 sd _ _ _ (by omega)]
          simp [encodeSize_eq, heq]
    · simp only [heq, if_false]
      by_cases hbig : sdSize sd f1.length + ↑f0.length + ↑f1.length + 2 + (if 252 ≤ f0.length then 1 else 0) > maxlen
      · simp [hbig]
      · rw [if_neg hbig, if_neg hbig]
        simp only []
        by_cases hp : pad = true ∧ sdSize sd f1.length + ↑f0.length + ↑f1.length + 2 + (if 252 ≤ f0.length then 1 else 0) < maxlen
        · have hfit : tot3 ([f0, f1].map List.length) (sdSize sd f1.length) ≤ maxlen := by
            simp [tot3, isVbr_two, heq, vbrBody]; omega
          rw [if_pos (Or.inr (Or.inl hp)), code3_noext toc [f0, f1] (by simp) _ _ _ _ hfit]
          have hop : outPacket toc [f0, f1] maxlen sd pad = highPacket toc [f0, f1] maxlen sd pad :=
            outPacket_high (fun h => h.2 (by simpa [minSize, heq] using hp))
          unfold highPacket at hop
          rw [hop, ser_code3 sd _ _ _ _ (by omega) (by simp)]
          simp [encodeSize_eq, heq]
        · have h2 : ¬ (2 < 0 + 1 + 1 ∨ (pad = true ∧ sdSize sd f1.length + ↑f0.length + ↑f1.length + 2 + (if 252 ≤ f0.length then 1 else 0) < maxlen) ∨ 0 < (#[] : Array Ext).size) := by
            simp; intro h; simpa [h] using hp
          rw [if_neg h2]
          have hop : outPacket toc [f0, f1] maxlen sd pad = lowPacket toc [f0, f1] :=
            outPacket_low ⟨by simp, fun h => hp (by simpa [minSize, heq] using h)⟩
          have hlc : lowCode ([f0, f1].map List.length) = 2 := by simp [lowCode, heq]
          unfold lowPacket at hop
          rw [hlc] at hop
          rw [hop, ser_code2 sd _ _ _ (by omega)]
          simp [encodeSize_eq, heq]
  | f0 :: f1 :: f2 :: fs, _ =>
    have hmin : minSize sd ((f0 :: f1 :: f2 :: fs).map List.length) =
        tot3 ((f0 :: f1 :: f2 :: fs).map List.length) (sdSize sd (((f0 :: f1 :: f2 :: fs).map List.length).getLastD 0)) := rfl
    rw [hmin]
    have hfp : ∀ tot0, firstPass toc ((f0 :: f1 :: f2 :: fs).map List.length) tot0 maxlen = .ok (tot0, []) := by
      intro tot0; simp [firstPass]
    unfold emit
    simp only [hfp]
    rw [if_pos (Or.inl (by simp))]
    unfold code3
    by_cases hbig : tot3 ((f0 :: f1 :: f2 :: fs).map List.length) (sdSize sd (((f0 :: f1 :: f2 :: fs).map List.length).getLastD 0)) > maxlen
    · simp only []
      rw [if_pos hbig, if_pos hbig]
    · have := code3_noext toc (f0 :: f1 :: f2 :: fs) (by simp) (sdSize sd (((f0 :: f1 :: f2 :: fs).map List.length).getLastD 0)) maxlen
        (if sd then encodeSize (((f0 :: f1 :: f2 :: fs).map List.length).getLastD 0) else []) pad (by omega)
      unfold code3 at this
      rw [this, if_neg hbig]
      have hop : outPacket toc (f0 :: f1 :: f2 :: fs) maxlen sd pad = highPacket toc (f0 :: f1 :: f2 :: fs) maxlen sd pad :=
        outPacket_high (fun h => by simp [useLow] at h)
      unfold highPacket at hop
      rw [hop, ser_code3 sd _ _ _ _ (by omega) (by simp)]
      simp [encodeSize_eq]

end Opus.RepackProofs
