import OpusProofs.SilkSymsEncPacket
import OpusProofs.RangeCoderLockstep3
/-
  C08 × C03 composition, part 8: range and bit count in lock step.  `(rng, nbits_total)` after an
  operation is a pure function `Op.rn` of the pair before it — for the encoder unconditionally
  (`encOp_rn`), for the decoder whenever it returns the encoded value (`decOp_rn`).  So a decoder that
  `Reads` a prefix of what the encoder wrote reports the encoder's `rng` and `ec_tell` at that point,
  with no reference to the buffer: this is what puts the encoder's values into the `ret` events of the
  intermediate `silk_Decode` calls.  The header needs one extra fact: the decoder's `k` single-bit reads
  move `(rng, nbits_total)` exactly like the encoder's placeholder symbol of probability `2^-k`.
-/
namespace Opus.SilkSymsEncProofs
open Opus Opus.RangeCoder Opus.SilkSyms Opus.SilkSymsEnc

/-- `(rng, nbits_total)` after a run of operations. -/
def rnRun : List Op → Nat × Nat → Nat × Nat
  | [], x => x
  | op :: ops, x => rnRun ops (op.rn x.1 x.2)

theorem rnRun_append (a b : List Op) (x : Nat × Nat) : rnRun (a ++ b) x = rnRun b (rnRun a x) := by
  induction a generalizing x with
  | nil => rfl
  | cons op a ih => rw [List.cons_append, rnRun, rnRun, ih]

theorem enc_rnRun : ∀ (ops : List Op) (e : Enc), RngOk e → (∀ op ∈ ops, op.Legal) →
    ((encRun e ops).rng, (encRun e ops).nbitsTotal) = rnRun ops (e.rng, e.nbitsTotal)
  | [], e, _, _ => rfl
  | op :: ops, e, hr, hl => by
    have h1 := encOp_rn e op hr (hl op (List.mem_cons_self ..))
    have h2 := (encOp_stageA e op hr (hl op (List.mem_cons_self ..))).1
    rw [encRun, rnRun, enc_rnRun ops _ h2 (fun o ho => hl o (List.mem_cons_of_mem _ ho)), h1]

theorem dec_rnRun : ∀ (ops : List Op) (d : Dec), RngOk d →
    (∀ op ∈ ops, op.Legal ∧ ∀ v ft, op ≠ .uint v ft) → Reads d ops →
    ((after d ops).rng, (after d ops).nbitsTotal) = rnRun ops (d.rng, d.nbitsTotal)
  | [], d, _, _, _ => rfl
  | op :: ops, d, hr, hl, h => by
    obtain ⟨hlo, hnu⟩ := hl op (List.mem_cons_self ..)
    have h1 := decOp_rn d op hr hlo (Or.inl hnu) h.1
    have hs := Op.rn_spec op hlo d.nbitsTotal hr.1 hr.2
    rw [← h1] at hs
    have h2 : RngOk (decOp d op).2 := ⟨hs.1, hs.2.1⟩
    rw [after, rnRun, dec_rnRun ops _ h2 (fun o ho => hl o (List.mem_cons_of_mem _ ho)) h.2, h1]

theorem icLegal_rn {ops : List Op} (h : IcLegal ops) : ∀ op ∈ ops, op.Legal ∧ ∀ v ft, op ≠ .uint v ft := by
  intro op hop
  rcases h op hop with ⟨s, tbl, rfl, hok, hs⟩
  exact ⟨⟨hok, hs, Nat.le_refl 8⟩, fun v ft hh => by cases hh⟩

theorem flagOps_rn (bs : List Nat) : ∀ op ∈ flagOps bs, op.Legal ∧ ∀ v ft, op ≠ .uint v ft := by
  intro op hop
  simp only [flagOps, List.mem_map] at hop
  rcases hop with ⟨b, _, rfl⟩
  exact ⟨⟨by decide, by decide⟩, fun v ft hh => by cases hh⟩

/-- The decoder's `k` single-bit reads and the encoder's placeholder move `(rng, nbits_total)` alike. -/
theorem header_rn : ∀ k, k < 9 → 1 ≤ k → ∀ w, w < 2 ^ k →
    rnRun (bitsOps w k) (2147483648, 33) = (Op.icdf 0 (flagTable k) 8).rn 2147483648 33 := by
  decide +kernel

theorem decInit_rn (B : List Nat) (S : Nat) : (decInit B S).rng = 2147483648 ∧ (decInit B S).nbitsTotal = 33 := by
  have h := decNormalize_rn (dec1 (dec0 B S))
  rw [← decInit_eq] at h
  have e1 : (dec1 (dec0 B S)).rng = 128 := by
    unfold dec1 dec0 readByte; simp only; split <;> rfl
  have e2 : (dec1 (dec0 B S)).nbitsTotal = 9 := by
    unfold dec1 dec0 readByte; simp only; split <;> rfl
  rw [e1, e2] at h
  have e3 : normRN 128 9 = (2147483648, 33) := by decide +kernel
  rw [e3] at h
  exact ⟨congrArg Prod.fst h, congrArg Prod.snd h⟩

/-- Lock step for a payload: after the flag bits and any legal `ec_enc_icdf` prefix `P` of what follows, the
    decoder has the `rng` and `ec_tell` the encoder had after the placeholder and `P`. -/
theorem payload_lockstep (buf : List Nat) (size : Nat) (B : List Nat) (S : Nat) (bits : List Nat) (P : List Op)
    (hb : AllBits bits) (hk1 : 1 ≤ bits.length) (hk8 : bits.length ≤ 8) (hP : IcLegal P)
    (h : Reads (decInit B S) (flagOps bits ++ P)) :
    (after (decInit B S) (flagOps bits ++ P)).rng = (encRun (encInit buf size) (placeholder bits.length :: P)).rng ∧
    tell (after (decInit B S) (flagOps bits ++ P)) = tell (encRun (encInit buf size) (placeholder bits.length :: P)) := by
  obtain ⟨d1, d2⟩ := decInit_rn B S
  have hrd : RngOk (decInit B S) := by unfold RngOk; rw [d1]; decide
  have hall : ∀ op ∈ flagOps bits ++ P, op.Legal ∧ ∀ v ft, op ≠ .uint v ft := by
    intro op hop
    rcases List.mem_append.mp hop with hop | hop
    · exact flagOps_rn bits op hop
    · exact icLegal_rn hP op hop
  have hd := dec_rnRun _ _ hrd hall h
  have hw : rnRun (flagOps bits) (2147483648, 33) = (Op.icdf 0 (flagTable bits.length) 8).rn 2147483648 33 := by
    rw [← bitsOps_word bits hb]
    exact header_rn bits.length (by omega) hk1 _ (bitsWord_lt bits hb)
  rw [rnRun_append, d1, d2, hw] at hd
  rw [placeholder_eq]
  have hre : RngOk (encInit buf size) := encInit_rngOk buf size
  have hle : ∀ op ∈ Op.icdf 0 (flagTable bits.length) 8 :: P, op.Legal := by
    intro op hop
    rcases List.mem_cons.mp hop with hop | hop
    · rw [hop]; exact flagTable_legal bits.length hk1 hk8
    · exact (icLegal_rn hP op hop).1
  have he := enc_rnRun _ _ hre hle
  have e1 : (encInit buf size).rng = 2147483648 := rfl
  have e2 : (encInit buf size).nbitsTotal = 33 := rfl
  rw [rnRun, e1, e2] at he
  rw [← he] at hd
  have r1 := congrArg Prod.fst hd
  have r2 := congrArg Prod.snd hd
  exact ⟨r1, tell_congr r1 r2⟩

end Opus.SilkSymsEncProofs
