import OpusProofs.Dtx
/-
  OpusProofs.DtxCall — lemmas about the packet-level DTX skeleton (`frameStep`, `frameFlags`,
  `encodeCall`, `inDtx`) of OpusModel.Dtx.
-/
namespace Opus.Dtx
open Opus.Gen.DtxConsts

/-! ### SILK never drops a frame unless its `useDTX` is on -/

theorem silkFrame_disarmed (nch : Nat) (fl : Bool) (s : SilkCh × SilkCh × Bool) (f : SFrame)
    (h0 : s.1.inDtx = false) : (silkFrame nch fl s f).1.inDtx = false := by
  obtain ⟨⟨c0, i0⟩, s1, p⟩ := s
  simp at h0; subst h0
  simp [silkFrame, silkVad_disarmed]

theorem silkFrames_disarmed (nch : Nat) (fl : Bool) (s : SilkCh × SilkCh × Bool) (fs : List SFrame)
    (h0 : s.1.inDtx = false) : (silkFrames nch fl s fs).1.inDtx = false := by
  induction fs generalizing s with
  | nil => simpa [silkFrames] using h0
  | cons f fs ih => simp only [silkFrames]; exact ih _ (silkFrame_disarmed nch fl s f h0)

theorem silkCall_useDtx_false (fl : Bool) (st : SilkSt) (c : SCall) : (silkCall false fl st c).2 = false := by
  simp only [silkCall]
  rw [silkFrames_disarmed _ _ _ _ rfl]; rfl

theorem runSilk_useDtx_false (fl : Bool) (st : SilkSt) (cs : List SCall) : (runSilk false fl st cs).2 = false := by
  induction cs generalizing st with
  | nil => rfl
  | cons c cs ih =>
    cases cs with
    | nil => exact silkCall_useDtx_false fl st c
    | cons c' cs' => simp only [runSilk]; exact ih _

/-- One VAD step on the mid channel with a frame that is *not* inactive clears the flag for the
    rest of the call. -/
theorem silkFrames_inDtx_imp_low (nch : Nat) (s : SilkCh × SilkCh × Bool) (fs : List SFrame)
    (h : (silkFrames nch false s fs).1.inDtx = true) : ∀ f ∈ fs, f.low0 = true := by
  induction fs generalizing s with
  | nil => intro f hf; cases hf
  | cons g gs ih =>
    intro f hf
    simp only [silkFrames] at h
    rcases List.mem_cons.1 hf with rfl | hf
    · -- the first frame
      cases hl : f.low0
      · exfalso
        have hd : (silkFrame nch false s f).1.inDtx = false := by
          simp [silkFrame, hl, silkVad_active]
        rw [silkFrames_disarmed _ _ _ _ hd] at h; cases h
      · rfl
    · exact ih _ h f hf

/-! ### One coded frame -/

theorem frameSilk_fields (mode : Mode) (act : Int) (st : St) (o : Sub) :
    (frameSilk mode act st o).1.nb = st.nb ∧ (frameSilk mode act st o).1.prevMode = st.prevMode ∧
    (frameSilk mode act st o).1.silkUseDtx = st.silkUseDtx ∧ (frameSilk mode act st o).1.mode = st.mode := by
  unfold frameSilk; split <;> simp

theorem frameSilk_useDtx_false (mode : Mode) (act : Int) (st : St) (o : Sub) (hs : st.silkUseDtx = false) :
    (frameSilk mode act st o).2 ≠ some true := by
  unfold frameSilk; split
  · simp
  · simp [hs, runSilk_useDtx_false]

theorem frameTail_fields (useDtx isSil : Bool) (mode : Mode) (fQ1 : Nat) (tc : Bool) (act : Int) (st : St) (o : Sub) :
    (frameTail useDtx isSil mode fQ1 tc act st o).1.silkUseDtx = st.silkUseDtx ∧
    (frameTail useDtx isSil mode fQ1 tc act st o).1.silk = st.silk ∧
    (frameTail useDtx isSil mode fQ1 tc act st o).1.modeNch = st.modeNch ∧
    (frameTail useDtx isSil mode fQ1 tc act st o).1.prevMode = (if tc then .celt else mode) := by
  by_cases h : useDtx = true ∧ st.silkUseDtx = false <;> simp [frameTail, h]

theorem frameStep_silkUseDtx (useDtx isSil : Bool) (mode : Mode) (fQ1 : Nat) (tc : Bool) (st : St) (o : Sub) :
    (frameStep useDtx isSil mode fQ1 tc st o).1.silkUseDtx = st.silkUseDtx := by
  unfold frameStep
  simp only
  split
  · exact (frameSilk_fields _ _ _ _).2.2.1
  · rw [(frameTail_fields ..).1]; exact (frameSilk_fields _ _ _ _).2.2.1

/-- With SILK's own DTX off (the generalised detector is in charge or DTX is disabled) the frame
    goes through `decide_dtx_mode`, or clears the counter. -/
theorem frameStep_generalised (useDtx isSil : Bool) (mode : Mode) (fQ1 : Nat) (tc : Bool) (st : St) (o : Sub)
    (hs : st.silkUseDtx = false) :
    (frameStep useDtx isSil mode fQ1 tc st o).2.1 =
        (if useDtx = true then (decideDtx (activityOf isSil o.valid o.det ≠ 0) st.nb fQ1).1 else false)
    ∧ (frameStep useDtx isSil mode fQ1 tc st o).1.nb =
        (if useDtx = true then (decideDtx (activityOf isSil o.valid o.det ≠ 0) st.nb fQ1).2 else 0) := by
  unfold frameStep
  simp only [frameSilk_useDtx_false _ _ _ _ hs, if_false]
  have hs' : (frameSilk mode (activityOf isSil o.valid o.det) st o).1.silkUseDtx = false := by
    rw [(frameSilk_fields _ _ _ _).2.2.1]; exact hs
  by_cases h : useDtx = true <;>
    simp [frameTail, h, hs', (frameSilk_fields _ _ _ _).1]

theorem frameStep_useDtx_false (isSil : Bool) (mode : Mode) (fQ1 : Nat) (tc : Bool) (st : St) (o : Sub)
    (hs : st.silkUseDtx = false) : (frameStep false isSil mode fQ1 tc st o).2.1 = false := by
  have := (frameStep_generalised false isSil mode fQ1 tc st o hs).1
  simpa using this

/-- **Resume, frame level**: a coded frame whose activity decision is 1 is never dropped when the
    generalised detector is in charge, and it clears the counter. -/
theorem frameStep_active (useDtx : Bool) (mode : Mode) (fQ1 : Nat) (tc : Bool) (st : St) (o : Sub)
    (hs : st.silkUseDtx = false) (hv : o.valid = true) (hd : o.det = true) :
    (frameStep useDtx false mode fQ1 tc st o).2.1 = false ∧ (frameStep useDtx false mode fQ1 tc st o).1.nb = 0 := by
  have := frameStep_generalised useDtx false mode fQ1 tc st o hs
  have ha : activityOf false o.valid o.det = 1 := by simp [activityOf, hv, hd]
  rw [ha] at this
  simp [decideDtx_active] at this
  cases useDtx <;> simp_all

/-- Under SILK's own DTX a coded frame is dropped only by SILK (zero bytes); otherwise the counter of
    the generalised detector is cleared. -/
theorem frameStep_silk_charge (useDtx isSil : Bool) (mode : Mode) (fQ1 : Nat) (tc : Bool) (st : St) (o : Sub)
    (hs : st.silkUseDtx = true) (h : (frameStep useDtx isSil mode fQ1 tc st o).2.1 = true) :
    (frameSilk mode (activityOf isSil o.valid o.det) st o).2 = some true ∧
    (frameStep useDtx isSil mode fQ1 tc st o).1 = (frameSilk mode (activityOf isSil o.valid o.det) st o).1 := by
  unfold frameStep at h ⊢
  simp only at h ⊢
  by_cases hz : (frameSilk mode (activityOf isSil o.valid o.det) st o).2 = some true
  · simp [hz]
  · simp only [hz, if_false] at h
    have hs' : (frameSilk mode (activityOf isSil o.valid o.det) st o).1.silkUseDtx = true := by
      rw [(frameSilk_fields _ _ _ _).2.2.1]; exact hs
    simp [frameTail, hs'] at h

/-! ### The frame loop -/

theorem frameFlags_silkUseDtx (useDtx isSil : Bool) (mode : Mode) (fQ1 : Nat) (tc : Bool) (st : St) (os : List Sub) :
    (frameFlags useDtx isSil mode fQ1 tc st os).1.silkUseDtx = st.silkUseDtx := by
  induction os generalizing st with
  | nil => rfl
  | cons o os ih => simp only [frameFlags]; rw [ih, frameStep_silkUseDtx]

theorem frameFlags_length (useDtx isSil : Bool) (mode : Mode) (fQ1 : Nat) (tc : Bool) (st : St) (os : List Sub) :
    (frameFlags useDtx isSil mode fQ1 tc st os).2.length = os.length := by
  induction os generalizing st with
  | nil => rfl
  | cons o os ih => simp only [frameFlags, List.length_cons, ih]

theorem frameFlags_useDtx_false (isSil : Bool) (mode : Mode) (fQ1 : Nat) (tc : Bool) (st : St) (os : List Sub)
    (hs : st.silkUseDtx = false) : ∀ d ∈ (frameFlags false isSil mode fQ1 tc st os).2, d = false := by
  induction os generalizing st with
  | nil => intro d hd; cases hd
  | cons o os ih =>
    intro d hd
    simp only [frameFlags, List.mem_cons] at hd
    rcases hd with rfl | hd
    · exact frameStep_useDtx_false isSil mode fQ1 _ st o hs
    · exact ih _ (by rw [frameStep_silkUseDtx]; exact hs) d hd

/-- If some coded frame of the call is active (generalised detector), some flag is false. -/
theorem frameFlags_active (useDtx : Bool) (mode : Mode) (fQ1 : Nat) (tc : Bool) (st : St) (os : List Sub)
    (hs : st.silkUseDtx = false) (h : ∃ o ∈ os, o.valid = true ∧ o.det = true) :
    false ∈ (frameFlags useDtx false mode fQ1 tc st os).2 := by
  induction os generalizing st with
  | nil => obtain ⟨o, ho, _⟩ := h; cases ho
  | cons o os ih =>
    obtain ⟨o', ho', hv, hd⟩ := h
    simp only [frameFlags, List.mem_cons]
    rcases List.mem_cons.1 ho' with rfl | ho'
    · left; exact (frameStep_active useDtx mode fQ1 _ st o' hs hv hd).1.symm
    · right; exact ih _ (by rw [frameStep_silkUseDtx]; exact hs) ⟨o', ho', hv, hd⟩

/-- On digital silence with the generalised detector in charge the loop is the counter machine run
    over `n` inactive frames. -/
theorem frameFlags_silence (mode : Mode) (fQ1 : Nat) (tc : Bool) (st : St) (os : List Sub)
    (hs : st.silkUseDtx = false) :
    (frameFlags true true mode fQ1 tc st os).2 = (dtxSteps st.nb (os.map (fun _ => (false, fQ1)))).1
    ∧ (frameFlags true true mode fQ1 tc st os).1.nb = (dtxSteps st.nb (os.map (fun _ => (false, fQ1)))).2 := by
  induction os generalizing st with
  | nil => exact ⟨rfl, rfl⟩
  | cons o os ih =>
    simp only [frameFlags, List.map_cons, dtxSteps_cons]
    have hg := frameStep_generalised true true mode fQ1 (tc && os.isEmpty) st o hs
    have ha : activityOf true o.valid o.det = 0 := by simp [activityOf]
    simp [ha] at hg
    have := ih (frameStep true true mode fQ1 (tc && os.isEmpty) st o).1 (by rw [frameStep_silkUseDtx]; exact hs)
    rw [hg.2] at this
    rw [this.1, this.2, hg.1]
    exact ⟨rfl, rfl⟩

/-! ### One encode call -/

/-- The call reaches the frame loop: arguments fine and budget above the low-budget class. -/
def Regular (c : Cfg) : Prop :=
  frameSize c ≠ 0 ∧ lowBudget c = false

theorem maxData_of_not_low (c : Cfg) (h : lowBudget c = false) : 3 ≤ min 1276 c.outBytes := by
  unfold lowBudget budget at h
  by_cases hv : c.useVbr = true
  · simp [hv] at h; omega
  · simp [hv] at h; omega

/-- No coded frame of the call exceeded its byte budget (the inner-encoder contract "the SILK payload
    fits the budget"; the bust branch of src/opus_encoder.c:2448-2457 is not taken). -/
def NoBust (o : CallOr) : Prop := ∀ s ∈ o.subs, s.bust = false

theorem finalPkt_nobust (l : List Bool) (n : Nat) (subs : List Sub) (h : ∀ s ∈ subs, s.bust = false) :
    finalPkt l n subs = pktOf l n := by
  unfold finalPkt
  split
  · rename_i s
    have := h s (by simp)
    simp [this, pktOf]
  · rfl

/-- The bust packet is never a DTX packet: DTX packets come from `pktOf` alone. -/
theorem finalPkt_dtx (l : List Bool) (n : Nat) (subs : List Sub) (m : Nat) (h : finalPkt l n subs = .dtx m) :
    pktOf l n = .dtx m := by
  unfold finalPkt at h
  split at h
  · split at h <;> cases h
  · exact h

/-- The shape of `encodeCall` on a regular call with well-shaped oracles. -/
theorem encodeCall_regular (c : Cfg) (st : St) (o : CallOr) (hr : Regular c)
    (hlen : o.subs.length = nSub c o.mode) :
    (encodeCall c st o).1 = (encodeLoop c st o).1 ∧
    (encodeCall c st o).2.1 = finalPkt (encodeLoop c st o).2 (nSub c o.mode) o.subs := by
  have h3 := maxData_of_not_low c hr.2
  unfold encodeCall
  have h1 : ¬ (frameSize c = 0 ∨ min 1276 c.outBytes = 0) := by
    intro h; rcases h with h | h
    · exact hr.1 h
    · omega
  have h2 : ¬ (min 1276 c.outBytes = 1 ∧ c.fs = frameSize c * 10) := by omega
  simp only [h1, h2, hr.2, if_false, Bool.false_eq_true, hlen, ne_eq, not_true_eq_false, and_self]

theorem switchReset_fields (sdtx : Bool) (st : St) :
    (switchReset sdtx st).prevMode = st.prevMode ∧ (switchReset sdtx st).silkUseDtx = st.silkUseDtx ∧
    (switchReset sdtx st).modeNch = st.modeNch ∧ (switchReset sdtx st).mode = st.mode ∧
    (switchReset sdtx st).nb = (if sdtx ≠ st.silkUseDtx then 0 else st.nb) ∧
    (switchReset sdtx st).silk = (if sdtx ≠ st.silkUseDtx then { st.silk with c0 := 0, c1 := 0 } else st.silk) := by
  unfold switchReset; split <;> simp

theorem prepCall_silkUseDtx (c : Cfg) (st : St) (o : CallOr) :
    (prepCall c st o).silkUseDtx = (c.useDtx && !((analysisOn c && o.valid0) || isSilOf c o)) := by
  unfold prepCall; simp only; split <;> rfl

/-- `nb_no_activity_ms_Q1` at the start of the frame loop: cleared when the detector in charge changes. -/
theorem prepCall_nb (c : Cfg) (st : St) (o : CallOr) :
    (prepCall c st o).nb = (if sdtxOf c o ≠ st.silkUseDtx then 0 else st.nb) := by
  unfold prepCall; simp only; split <;> exact (switchReset_fields _ _).2.2.2.2.1

theorem prepCall_nb_same (c : Cfg) (st : St) (o : CallOr) (h : sdtxOf c o = st.silkUseDtx ∨ st.nb = 0) :
    (prepCall c st o).nb = st.nb := by
  rw [prepCall_nb]
  rcases h with h | h
  · simp [h]
  · split <;> simp [h]

theorem all_id_false_of_mem (l : List Bool) (h : false ∈ l) : l.all id = false := by
  induction l with
  | nil => cases h
  | cons x xs ih =>
    rcases List.mem_cons.1 h with rfl | h
    · simp
    · simp [ih h]

theorem pktOf_of_mem_false (l : List Bool) (n : Nat) (h : false ∈ l) : pktOf l n = .normal := by
  simp [pktOf, all_id_false_of_mem l h]

theorem pktOf_of_all_false (l : List Bool) (n : Nat) (h : ∀ d ∈ l, d = false) : pktOf l n = .normal := by
  cases l with
  | nil => rfl
  | cons x xs => exact pktOf_of_mem_false _ n (by have := h x (by simp); subst this; simp)

/-- **DTX disabled**: a regular call never returns a DTX packet (nor a low-budget one). -/
theorem encodeCall_dtx_off (c : Cfg) (st : St) (o : CallOr) (hr : Regular c) (hoff : c.useDtx = false)
    (hlen : o.subs.length = nSub c o.mode) (hnb : NoBust o) : (encodeCall c st o).2.1 = Pkt.normal := by
  rw [(encodeCall_regular c st o hr hlen).2, finalPkt_nobust _ _ _ hnb]
  apply pktOf_of_all_false
  unfold encodeLoop
  rw [hoff]
  apply frameFlags_useDtx_false
  rw [prepCall_silkUseDtx, hoff]; rfl

/-- **Resume, packet level**: generalised detector in charge (`analysis_info.valid`), input not
    digital silence, some coded frame judged active ⇒ the packet is a normal one. -/
theorem encodeCall_active (c : Cfg) (st : St) (o : CallOr) (hr : Regular c)
    (hlen : o.subs.length = nSub c o.mode) (hon : analysisOn c = true) (hv0 : o.valid0 = true) (hsil : o.digSil = false)
    (hact : ∃ s ∈ o.subs, s.valid = true ∧ s.det = true) (hnb : NoBust o) : (encodeCall c st o).2.1 = Pkt.normal := by
  rw [(encodeCall_regular c st o hr hlen).2, finalPkt_nobust _ _ _ hnb]
  apply pktOf_of_mem_false
  unfold encodeLoop
  have hs : isSilOf c o = false := by simp [isSilOf, hsil]
  rw [hs]
  apply frameFlags_active
  · rw [prepCall_silkUseDtx, hon, hv0]; simp
  · exact hact

/-- On digital silence with the generalised detector in charge a regular call is the counter
    machine run over its `nSub` inactive coded frames, from the counter the call starts the frame
    loop with (`st.nb`, or 0 when the generalised detector takes over at this call). -/
theorem encodeCall_silence (c : Cfg) (st : St) (o : CallOr) (hr : Regular c)
    (hlen : o.subs.length = nSub c o.mode) (hdtx : c.useDtx = true) (hon : analysisOn c = true) (hsil : o.digSil = true)
    (hnb : NoBust o) :
    (encodeCall c st o).1.nb = (dtxSteps (prepCall c st o).nb (List.replicate (nSub c o.mode) (false, subQ1 c o.mode))).2 ∧
    (encodeCall c st o).2.1 = pktOf (dtxSteps (prepCall c st o).nb (List.replicate (nSub c o.mode) (false, subQ1 c o.mode))).1 (nSub c o.mode) ∧
    (encodeCall c st o).1.silkUseDtx = false := by
  have hreg := encodeCall_regular c st o hr hlen
  have hs : isSilOf c o = true := by simp [isSilOf, hsil, hon]
  have hsu : (prepCall c st o).silkUseDtx = false := by rw [prepCall_silkUseDtx, hs]; simp
  have hfs := frameFlags_silence o.mode (subQ1 c o.mode) o.toCelt (prepCall c st o) o.subs hsu
  have hmap : o.subs.map (fun _ => (false, subQ1 c o.mode)) = List.replicate (nSub c o.mode) (false, subQ1 c o.mode) := by
    rw [← hlen]; exact List.map_const' ..
  rw [hmap] at hfs
  rw [hreg.1, hreg.2, finalPkt_nobust _ _ _ hnb]
  unfold encodeLoop
  rw [hdtx, hs, hfs.1, hfs.2, frameFlags_silkUseDtx]
  exact ⟨rfl, rfl, hsu⟩

end Opus.Dtx
