import OpusProofs.SoftClipLoops
import Mathlib.Tactic.Positivity
/-
  OpusProofs.SoftClipBound — the whole single-channel soft clipper over an ordered field:
  every output sample is in [-1, 1] and keeps the strict sign of its input; the carried coefficient
  stays within (1+eps)/4.  Needs 0 ≤ eps < 1 (the code's boost is 2.4e-7).
-/
set_option linter.unusedSectionVars false
namespace Opus.SoftClip
variable {F : Type} [Field F] [LinearOrder F] [IsStrictOrderedRing F]

/-! ### arithmetic -/

theorem quad_strict (m t eps x : F) (hm1 : 1 < m) (hm2 : m ≤ 2) (he0 : 0 ≤ eps) (he1 : eps < 1)
    (ht : t * (m * m) = (m - 1) * (1 + eps)) (hx0 : 0 < x) (hxm : x ≤ m) : 0 < x - t * x * x := by
  have hmpos : 0 < m := by linarith
  have hmm : 0 < m * m := mul_pos hmpos hmpos
  have htpos : 0 < t := by
    by_contra hn
    have : t * (m * m) ≤ 0 := mul_nonpos_of_nonpos_of_nonneg (not_lt.mp hn) (le_of_lt hmm)
    have : 0 < (m - 1) * (1 + eps) := mul_pos (by linarith) (by linarith)
    linarith
  have htm : t * m < 1 := by
    have h1 : (m - 1) * (1 + eps) < m := by nlinarith
    have h2 : (t * m) * m < 1 * m := by nlinarith
    exact lt_of_mul_lt_mul_right h2 (le_of_lt hmpos)
  have htx : t * x < 1 := lt_of_le_of_lt (mul_le_mul_of_nonneg_left hxm (le_of_lt htpos)) htm
  have : x - t * x * x = x * (1 - t * x) := by ring
  rw [this]; exact mul_pos hx0 (by linarith)

/-- the boosted coefficient magnitude -/
def tcoef (eps m : F) : F := (m - 1) / (m * m) + (m - 1) / (m * m) * eps

theorem tcoef_mul (eps m : F) (hm : 1 < m) : tcoef eps m * (m * m) = (m - 1) * (1 + eps) := by
  have hmm : (m * m) ≠ 0 := ne_of_gt (mul_pos (by linarith) (by linarith))
  unfold tcoef; field_simp

theorem tcoef_bounds (eps m : F) (hm : 1 < m) (he0 : 0 ≤ eps) : 0 < tcoef eps m ∧ tcoef eps m ≤ (1 + eps) / 4 := by
  have hmm : 0 < m * m := mul_pos (by linarith) (by linarith)
  have h1 : 0 < (m - 1) / (m * m) := div_pos (by linarith) hmm
  have h2 : (m - 1) / (m * m) ≤ 1 / 4 := by
    rw [div_le_div_iff₀ hmm (by norm_num)]
    nlinarith [mul_self_nonneg (m - 2)]
  have e : tcoef eps m = (m - 1) / (m * m) * (1 + eps) := by unfold tcoef; ring
  rw [e]
  constructor
  · exact mul_pos h1 (by linarith)
  · have : (m - 1) / (m * m) * (1 + eps) ≤ 1 / 4 * (1 + eps) := mul_le_mul_of_nonneg_right h2 (by linarith)
    linarith

theorem coefA_eq (eps m xi : F) : @coefA F (fieldOps eps) m xi = if 0 < xi then -tcoef eps m else tcoef eps m :=
  coefA_field eps m xi

/-- strict sign version of the excursion map -/
theorem excursion_map_strict (eps m xi v : F) (he0 : 0 ≤ eps) (he1 : eps < 1) (hm1 : 1 < m) (hm2 : m ≤ 2)
    (hxi : xi ≠ 0) (hside : 0 ≤ xi * v) (hv : |v| ≤ m) :
    (0 < v → 0 < v + (@coefA F (fieldOps eps) m xi) * v * v) ∧
    (v < 0 → v + (@coefA F (fieldOps eps) m xi) * v * v < 0) := by
  obtain ⟨hv1, hv2⟩ := abs_le.mp hv
  have ht := tcoef_mul eps m hm1
  rw [coefA_eq]
  by_cases hpos : 0 < xi
  · rw [if_pos hpos]
    constructor
    · intro h0
      have := quad_strict m (tcoef eps m) eps v hm1 hm2 he0 he1 ht h0 hv2
      have e : v + -tcoef eps m * v * v = v - tcoef eps m * v * v := by ring
      rw [e]; exact this
    · intro h0
      exfalso
      have : xi * v < 0 := mul_neg_of_pos_of_neg hpos h0
      linarith
  · have hneg : xi < 0 := lt_of_le_of_ne (not_lt.mp hpos) hxi
    rw [if_neg hpos]
    constructor
    · intro h0
      exfalso
      have : xi * v < 0 := mul_neg_of_neg_of_pos hneg h0
      linarith
    · intro h0
      have := quad_strict m (tcoef eps m) eps (-v) hm1 hm2 he0 he1 ht (by linarith) (by linarith)
      have e : v + tcoef eps m * v * v = -(-v - tcoef eps m * -v * -v) := by ring
      rw [e]; linarith

/-- the ramp offset `x0 - (x0 + a*x0*x0)` lies on the side of the detected sample -/
theorem ramp_offset_side (eps m xi x0 : F) (he0 : 0 ≤ eps) (hm1 : 1 < m) :
    0 ≤ xi * (x0 - (x0 + (@coefA F (fieldOps eps) m xi) * x0 * x0)) := by
  have ⟨ht, _⟩ := tcoef_bounds eps m hm1 he0
  rw [coefA_eq]
  have hsq : 0 ≤ x0 * x0 := mul_self_nonneg x0
  by_cases hpos : 0 < xi
  · rw [if_pos hpos]
    have e : x0 - (x0 + -tcoef eps m * x0 * x0) = tcoef eps m * (x0 * x0) := by ring
    rw [e]; exact mul_nonneg (le_of_lt hpos) (mul_nonneg (le_of_lt ht) hsq)
  · rw [if_neg hpos]
    have e : xi * (x0 - (x0 + tcoef eps m * x0 * x0)) = (-xi) * (tcoef eps m * (x0 * x0)) := by ring
    rw [e]; exact mul_nonneg (by linarith [not_lt.mp hpos]) (mul_nonneg (le_of_lt ht) hsq)

theorem coefA_abs (eps m xi : F) (he0 : 0 ≤ eps) (hm1 : 1 < m) : |@coefA F (fieldOps eps) m xi| ≤ (1 + eps) / 4 := by
  have ⟨h1, h2⟩ := tcoef_bounds eps m hm1 he0
  rw [coefA_eq]
  split
  · rw [abs_neg, abs_of_pos h1]; exact h2
  · rw [abs_of_pos h1]; exact h2

/-- one step of the continuation of the previous frame's curve -/
theorem cont_step (eps a v : F) (he1 : eps < 1) (ha : |a| ≤ (1 + eps) / 4) (hv : |v| ≤ 2) (hva : v * a < 0) :
    (0 < v → 0 < v + a * v * v) ∧ (v < 0 → v + a * v * v < 0) ∧ |v + a * v * v| ≤ 2 := by
  obtain ⟨a1, a2⟩ := abs_le.mp ha
  obtain ⟨v1, v2⟩ := abs_le.mp hv
  have e : v + a * v * v = v * (1 + v * a) := by ring
  have hlow : -1 < v * a := by
    by_cases hv0 : 0 < v
    · have : a < 0 := by
        by_contra hn
        have : 0 ≤ v * a := mul_nonneg (le_of_lt hv0) (not_lt.mp hn)
        linarith
      nlinarith
    · have hvn : v < 0 := by
        rcases lt_or_eq_of_le (not_lt.mp hv0) with h | h
        · exact h
        · rw [h, zero_mul] at hva; exact absurd hva (lt_irrefl _)
      have : 0 < a := by
        by_contra hn
        have : 0 ≤ v * a := mul_nonneg_of_nonpos_of_nonpos (le_of_lt hvn) (not_lt.mp hn)
        linarith
      nlinarith
  have hf0 : 0 < 1 + v * a := by linarith
  have hf1 : 1 + v * a < 1 := by linarith
  rw [e]
  refine ⟨fun h => mul_pos h hf0, fun h => mul_neg_of_neg_of_pos h hf0, ?_⟩
  rw [abs_mul, abs_of_pos hf0]
  calc |v| * (1 + v * a) ≤ |v| * 1 := mul_le_mul_of_nonneg_left (le_of_lt hf1) (abs_nonneg v)
    _ ≤ 2 := by rw [mul_one]; exact hv

/-! ### one excursion -/

section
variable (eps : F)
local notation "ops" => fieldOps eps

theorem excursion_unfold (w : Array F) (N : Nat) (x0 : F) (curr i : Nat) :
    @excursion F ops w 1 0 N x0 curr i =
      (if ((@startScan F ops w 1 0 (g w i) i == 0) && decide (0 ≤ g w i * g w 0)) &&
            decide (2 ≤ (@endScan F ops w 1 0 N (g w i) i |g w i| i).2.2) then
          @rampLoop F ops (@applyLoop F ops w 1 0 (@coefA F ops (@endScan F ops w 1 0 N (g w i) i |g w i| i).2.1 (g w i))
              (@startScan F ops w 1 0 (g w i) i) (@endScan F ops w 1 0 N (g w i) i |g w i| i).1) 1 0
            ((x0 - g (@applyLoop F ops w 1 0 (@coefA F ops (@endScan F ops w 1 0 N (g w i) i |g w i| i).2.1 (g w i))
              (@startScan F ops w 1 0 (g w i) i) (@endScan F ops w 1 0 N (g w i) i |g w i| i).1) 0) /
              (((@endScan F ops w 1 0 N (g w i) i |g w i| i).2.2 : Nat) : F))
            curr (@endScan F ops w 1 0 N (g w i) i |g w i| i).2.2
        else @applyLoop F ops w 1 0 (@coefA F ops (@endScan F ops w 1 0 N (g w i) i |g w i| i).2.1 (g w i))
              (@startScan F ops w 1 0 (g w i) i) (@endScan F ops w 1 0 N (g w i) i |g w i| i).1,
       @coefA F ops (@endScan F ops w 1 0 N (g w i) i |g w i| i).2.1 (g w i),
       (@endScan F ops w 1 0 N (g w i) i |g w i| i).1) := by
  unfold excursion
  simp only [rd1, abs_ops]
  generalize @endScan F ops w 1 0 N (g w i) i |g w i| i = r
  obtain ⟨e, m, p⟩ := r
  rfl

/-- Loop invariant of the `while(1)` over excursions (`orig` = the caller's samples, `w` = current buffer). -/
structure Inv (N : Nat) (x0 : F) (orig w : Array F) (curr : Nat) : Prop where
  size : w.size = N
  le2 : ∀ j, |g w j| ≤ 2
  le1 : ∀ j, j < curr → |g w j| ≤ 1
  pos : ∀ j, 0 < g orig j → 0 < g w j
  neg : ∀ j, g orig j < 0 → g w j < 0
  first : curr = 0 → g w 0 = x0
  turn : curr = 0 ∨ N ≤ curr ∨ ∃ p, p < curr ∧ g w p * g w curr < 0

theorem side_pos {xi v : F} (hxi : xi ≠ 0) (hside : 0 ≤ xi * v) (hv : 0 < v) : 0 < xi := by
  by_contra hn
  have hneg : xi < 0 := lt_of_le_of_ne (not_lt.mp hn) hxi
  have : xi * v < 0 := mul_neg_of_neg_of_pos hneg hv
  linarith

theorem side_neg {xi v : F} (hxi : xi ≠ 0) (hside : 0 ≤ xi * v) (hv : v < 0) : xi < 0 := by
  by_contra hn
  have hpos : 0 < xi := lt_of_le_of_ne (not_lt.mp hn) (Ne.symm hxi)
  have : xi * v < 0 := mul_neg_of_pos_of_neg hpos hv
  linarith

theorem excursion_inv (he0 : 0 ≤ eps) (he1 : eps < 1) (N : Nat) (x0 : F) (orig w : Array F) (curr : Nat)
    (hI : Inv N x0 orig w curr) (hiN : @findExceed F ops w 1 0 N curr < N) :
    @findExceed F ops w 1 0 N curr < (@excursion F ops w 1 0 N x0 curr (@findExceed F ops w 1 0 N curr)).2.2 ∧
    (@excursion F ops w 1 0 N x0 curr (@findExceed F ops w 1 0 N curr)).2.2 ≤ N ∧
    Inv N x0 orig (@excursion F ops w 1 0 N x0 curr (@findExceed F ops w 1 0 N curr)).1
      (@excursion F ops w 1 0 N x0 curr (@findExceed F ops w 1 0 N curr)).2.2 ∧
    |(@excursion F ops w 1 0 N x0 curr (@findExceed F ops w 1 0 N curr)).2.1| ≤ (1 + eps) / 4 := by
  obtain ⟨_, fe2, fe3⟩ := findExceed_spec eps w N curr
  obtain ⟨hci, hxi1⟩ := fe3 hiN
  generalize @findExceed F ops w 1 0 N curr = i at *
  rw [excursion_unfold]
  have hxi0 : g w i ≠ 0 := by
    intro h; rw [h, abs_zero] at hxi1; linarith
  obtain ⟨ss1, ss2, ss3⟩ := startScan_spec eps w (g w i) i
  obtain ⟨es1, es2, es3, es4, es5, es6, es7⟩ := endScan_spec eps w N (g w i) i |g w i| i (le_of_lt hiN)
  generalize @startScan F ops w 1 0 (g w i) i = start at *
  generalize @endScan F ops w 1 0 N (g w i) i |g w i| i = r at *
  obtain ⟨e, m, p⟩ := r
  simp only at es1 es2 es3 es4 es5 es6 es7 ⊢
  have hie : i < e := es7 hiN (mul_self_nonneg _)
  have hp : i ≤ p ∧ p < e ∧ m = |g w p| := by
    rcases es6 with ⟨a1, a2⟩ | ⟨a1, a2, a3⟩
    · exact ⟨by omega, by omega, by rw [a1, a2]⟩
    · exact ⟨a1, a2, a3⟩
  have hm1 : 1 < m := lt_of_lt_of_le hxi1 es4
  have hm2 : m ≤ 2 := by rw [hp.2.2]; exact hI.le2 p
  have hle1 : ∀ j, j < i → |g w j| ≤ 1 := by
    intro j hj
    by_cases hjc : j < curr
    · exact hI.le1 j hjc
    · exact fe2 j (by omega) hj
  have hrange : ∀ j, start ≤ j → j < e → 0 ≤ g w i * g w j ∧ |g w j| ≤ m := by
    intro j h1 h2
    by_cases hji : j < i
    · exact ⟨ss2 j h1 hji, le_trans (hle1 j hji) (le_of_lt hm1)⟩
    · exact es3 j (by omega) h2
  generalize ha : @coefA F ops m (g w i) = a
  have habs : |a| ≤ (1 + eps) / 4 := by rw [← ha]; exact coefA_abs eps m (g w i) he0 hm1
  obtain ⟨ap1, ap2⟩ := applyLoop_spec eps w a start e
  generalize @applyLoop F ops w 1 0 a start e = w1 at *
  -- per-index facts about the buffer after the non-linearity
  have hw1 : ∀ j, |g w1 j| ≤ 2 ∧ (j < e → |g w1 j| ≤ 1) ∧ (0 < g w j → 0 < g w1 j) ∧ (g w j < 0 → g w1 j < 0) ∧
      (e ≤ j → g w1 j = g w j) ∧ (start ≤ j → j < e → g w1 j = g w j + a * g w j * g w j) := by
    intro j
    by_cases hin : start ≤ j ∧ j < e
    · have hsz : j < w.size := by rw [hI.size]; omega
      have hval : g w1 j = g w j + a * g w j * g w j := by rw [ap2 j, if_pos ⟨hin.1, hin.2, hsz⟩]
      obtain ⟨r1, r2⟩ := hrange j hin.1 hin.2
      have hb := (excursion_map_bounded eps m (g w i) (g w j) he0 (le_of_lt he1) hm1 hm2 hxi0 r1 r2).1
      have hs := excursion_map_strict eps m (g w i) (g w j) he0 he1 hm1 hm2 hxi0 r1 r2
      rw [nl_ops, ha] at hb
      rw [ha] at hs
      rw [hval]
      exact ⟨le_trans hb (by norm_num), fun _ => hb, hs.1, hs.2, fun h => by omega, fun _ _ => rfl⟩
    · have hval : g w1 j = g w j := by rw [ap2 j, if_neg (by omega)]
      rw [hval]
      refine ⟨hI.le2 j, fun hje => ?_, id, id, fun _ => rfl, fun h1 h2 => absurd ⟨h1, h2⟩ hin⟩
      exact hle1 j (by omega)
  -- the final buffer of this excursion
  have hfinal : ∀ x' : Array F, x'.size = N →
      (∀ j, |g x' j| ≤ 2 ∧ (j < e → |g x' j| ≤ 1) ∧ (0 < g w j → 0 < g x' j) ∧ (g w j < 0 → g x' j < 0) ∧
        (e ≤ j → g x' j = g w j)) →
      Inv N x0 orig x' e := by
    intro x' hsz hq
    refine ⟨hsz, fun j => (hq j).1, fun j hj => (hq j).2.1 hj, fun j hj => (hq j).2.2.1 (hI.pos j hj),
      fun j hj => (hq j).2.2.2.1 (hI.neg j hj), fun h0 => by omega, ?_⟩
    by_cases heN : e < N
    · right; right
      refine ⟨i, hie, ?_⟩
      rw [(hq e).2.2.2.2 (le_refl _)]
      have hside := es5 heN
      rcases lt_or_gt_of_ne hxi0 with hneg | hpos
      · have h1 := (hq i).2.2.2.1 hneg
        have h2 : 0 < g w e := by
          by_contra hn
          have : 0 ≤ g w i * g w e := mul_nonneg_of_nonpos_of_nonpos (le_of_lt hneg) (not_lt.mp hn)
          linarith
        exact mul_neg_of_neg_of_pos h1 h2
      · have h1 := (hq i).2.2.1 hpos
        have h2 : g w e < 0 := by
          by_contra hn
          have : 0 ≤ g w i * g w e := mul_nonneg (le_of_lt hpos) (not_lt.mp hn)
          linarith
        exact mul_neg_of_pos_of_neg h1 h2
    · right; left; omega
  refine ⟨hie, es2, ?_, habs⟩
  have hw1sz : w1.size = N := by rw [ap1, hI.size]
  split
  · rename_i hcond
    -- the frame-start ramp
    simp only [Bool.and_eq_true, beq_iff_eq, decide_eq_true_eq] at hcond
    obtain ⟨⟨hs0, hside0⟩, hp2⟩ := hcond
    subst hs0
    have hcurr : curr = 0 := by
      rcases hI.turn with h | h | ⟨q, hq1, hq2⟩
      · exact h
      · omega
      · exfalso
        have s1 : 0 ≤ g w i * g w q := ss2 q (Nat.zero_le _) (by omega)
        have s2 : 0 ≤ g w i * g w curr := by
          by_cases hc : curr < i
          · exact ss2 curr (Nat.zero_le _) hc
          · have : curr = i := by omega
            rw [this]; exact mul_self_nonneg _
        have h3 : 0 ≤ (g w i * g w q) * (g w i * g w curr) := mul_nonneg s1 s2
        have h4 : (g w i * g w q) * (g w i * g w curr) = (g w i * g w i) * (g w q * g w curr) := by ring
        have h5 : 0 < g w i * g w i := mul_self_pos.mpr hxi0
        have h6 : (g w i * g w i) * (g w q * g w curr) < 0 := mul_neg_of_pos_of_neg h5 hq2
        rw [h4] at h3; linarith
    subst hcurr
    have hx0 : g w 0 = x0 := hI.first rfl
    have hw10 : g w1 0 = x0 + a * x0 * x0 := by
      rw [(hw1 0).2.2.2.2.2 (Nat.zero_le _) (by omega), hx0]
    have hoff : 0 ≤ g w i * (x0 - g w1 0) := by
      rw [hw10, ← ha]; exact ramp_offset_side eps m (g w i) x0 he0 hm1
    obtain ⟨rp1, rp2⟩ := rampLoop_spec eps w1 ((x0 - g w1 0) / ((p : Nat) : F)) 0 p
    generalize @rampLoop F ops w1 1 0 ((x0 - g w1 0) / ((p : Nat) : F)) 0 p = w2 at *
    have hppos : (0 : F) < (p : F) := by exact_mod_cast (by omega : 0 < p)
    have hterm : ∀ k : Nat, 0 ≤ g w i * ((x0 - g w1 0) / (p : F) * (k : F)) := by
      intro k
      have e1 : g w i * ((x0 - g w1 0) / (p : F) * (k : F)) = (g w i * (x0 - g w1 0)) * ((k : F) / (p : F)) := by
        field_simp
      rw [e1]
      exact mul_nonneg hoff (div_nonneg (Nat.cast_nonneg k) (le_of_lt hppos))
    apply hfinal w2 (by rw [rp1, hw1sz])
    intro j
    obtain ⟨q1, q2, q3, q4, q5, _⟩ := hw1 j
    by_cases hjp : j < p
    · have hsz : j < w1.size := by rw [hw1sz]; omega
      have hval : g w2 j = clamp1 (g w1 j + (x0 - g w1 0) / (p : F) * ((p - 1 - j : Nat) : F)) := by
        rw [rp2 j, if_pos ⟨Nat.zero_le _, hjp, hsz⟩]
      have hb := clamp1_abs (g w1 j + (x0 - g w1 0) / (p : F) * ((p - 1 - j : Nat) : F))
      have hside := (hrange j (Nat.zero_le _) (by omega)).1
      have ht := hterm (p - 1 - j)
      rw [hval]
      refine ⟨le_trans hb (by norm_num), fun _ => hb, fun hpos => ?_, fun hneg => ?_, fun h => by omega⟩
      · have hxp := side_pos hxi0 hside hpos
        have : 0 ≤ (x0 - g w1 0) / (p : F) * ((p - 1 - j : Nat) : F) := by
          by_contra hn
          have : g w i * ((x0 - g w1 0) / (p : F) * ((p - 1 - j : Nat) : F)) < 0 :=
            mul_neg_of_pos_of_neg hxp (not_le.mp hn)
          linarith
        exact clamp1_pos (by linarith [q3 hpos])
      · have hxn := side_neg hxi0 hside hneg
        have : (x0 - g w1 0) / (p : F) * ((p - 1 - j : Nat) : F) ≤ 0 := by
          by_contra hn
          have : g w i * ((x0 - g w1 0) / (p : F) * ((p - 1 - j : Nat) : F)) < 0 :=
            mul_neg_of_neg_of_pos hxn (not_le.mp hn)
          linarith
        exact clamp1_neg (by linarith [q4 hneg])
    · have hval : g w2 j = g w1 j := by rw [rp2 j, if_neg (by omega)]
      rw [hval]
      exact ⟨q1, q2, q3, q4, q5⟩
  · apply hfinal w1 hw1sz
    intro j
    obtain ⟨q1, q2, q3, q4, q5, _⟩ := hw1 j
    exact ⟨q1, q2, q3, q4, q5⟩

/-! ### the loop over excursions -/

theorem outer_inv (he0 : 0 ≤ eps) (he1 : eps < 1) (N : Nat) (x0 : F) (orig w : Array F) (curr : Nat)
    (hI : Inv N x0 orig w curr) (hc : curr ≤ N) :
    (@outer F ops w 1 0 N x0 curr).1.size = N ∧
    (∀ j, |g (@outer F ops w 1 0 N x0 curr).1 j| ≤ 1) ∧
    (∀ j, 0 < g orig j → 0 < g (@outer F ops w 1 0 N x0 curr).1 j) ∧
    (∀ j, g orig j < 0 → g (@outer F ops w 1 0 N x0 curr).1 j < 0) ∧
    |(@outer F ops w 1 0 N x0 curr).2| ≤ (1 + eps) / 4 := by
  have post : ∀ (x' : Array F) (e : Nat), Inv N x0 orig x' e → N ≤ e →
      x'.size = N ∧ (∀ j, |g x' j| ≤ 1) ∧ (∀ j, 0 < g orig j → 0 < g x' j) ∧ (∀ j, g orig j < 0 → g x' j < 0) := by
    intro x' e hI' hNe
    refine ⟨hI'.size, fun j => ?_, hI'.pos, hI'.neg⟩
    by_cases hj : j < N
    · exact hI'.le1 j (by omega)
    · rw [g_oob x' (by rw [hI'.size]; omega), abs_zero]; exact zero_le_one
  fun_induction @outer F ops w 1 0 N x0 curr with
  | case1 w curr i h x' a hex =>
    obtain ⟨e1, e2, e3, e4⟩ := excursion_inv eps he0 he1 N x0 orig w curr hI h
    have hex' : @excursion F ops w 1 0 N x0 curr (@findExceed F ops w 1 0 N curr) = (x', a, N) := hex
    rw [hex'] at e1 e2 e3 e4
    obtain ⟨p1, p2, p3, p4⟩ := post x' N e3 (le_refl _)
    exact ⟨p1, p2, p3, p4, e4⟩
  | case2 w curr i h x' a e hex he hg ih =>
    obtain ⟨e1, e2, e3, e4⟩ := excursion_inv eps he0 he1 N x0 orig w curr hI h
    have hex' : @excursion F ops w 1 0 N x0 curr (@findExceed F ops w 1 0 N curr) = (x', a, e) := hex
    rw [hex'] at e1 e2 e3 e4
    exact ih e3 e2
  | case3 w curr i h x' a e hex he hg =>
    exfalso
    obtain ⟨e1, e2, e3, e4⟩ := excursion_inv eps he0 he1 N x0 orig w curr hI h
    have hex' : @excursion F ops w 1 0 N x0 curr (@findExceed F ops w 1 0 N curr) = (x', a, e) := hex
    rw [hex'] at e1 e2 e3 e4
    obtain ⟨_, _, fe3⟩ := findExceed_spec eps w N curr
    have hi : @findExceed F ops w 1 0 N curr < N := h
    have := (fe3 hi).1
    apply hg
    simp only at e1
    exact ⟨by omega, by omega⟩
  | case4 w curr i h =>
    obtain ⟨fe1, fe2, _⟩ := findExceed_spec eps w N curr
    have hi : ¬ @findExceed F ops w 1 0 N curr < N := h
    have hiN : @findExceed F ops w 1 0 N curr = N := by omega
    rw [hiN] at fe2
    refine ⟨hI.size, fun j => ?_, hI.pos, hI.neg, ?_⟩
    · by_cases hj : j < N
      · by_cases hjc : j < curr
        · exact hI.le1 j hjc
        · exact fe2 j (by omega) hj
      · rw [g_oob w (by rw [hI.size]; omega), abs_zero]; exact zero_le_one
    · show |(0 : F)| ≤ (1 + eps) / 4
      rw [abs_zero]; linarith

/-! ### one channel, one call -/

theorem clipChannel_bound (he0 : 0 ≤ eps) (he1 : eps < 1) (N : Nat) (x : Array F) (m : F) (hsz : x.size = N)
    (hx2 : ∀ j, |g x j| ≤ 2) (hm : |m| ≤ (1 + eps) / 4) :
    (@clipChannel F ops x #[m] 1 0 N).1.size = N ∧
    (∀ j, |g (@clipChannel F ops x #[m] 1 0 N).1 j| ≤ 1) ∧
    (∀ j, 0 < g x j → 0 < g (@clipChannel F ops x #[m] 1 0 N).1 j) ∧
    (∀ j, g x j < 0 → g (@clipChannel F ops x #[m] 1 0 N).1 j < 0) ∧
    |(@clipChannel F ops x #[m] 1 0 N).2.getD 0 0| ≤ (1 + eps) / 4 := by
  unfold clipChannel
  have hm0 : (#[m] : Array F).getD 0 (@ClipOps.zero F ops) = m := by simp
  simp only [hm0]
  obtain ⟨c1, c2, c3⟩ := contLoop_spec eps x N m 0
  generalize @contLoop F ops x 1 0 N m 0 = x1 at *
  have hI : Inv N (@rd F ops x1 1 0 0) x x1 0 := by
    refine ⟨by rw [c1, hsz], fun j => ?_, fun j hj => by omega, fun j hj => ?_, fun j hj => ?_,
      fun _ => (rd1 eps x1 0).symm, Or.inl rfl⟩
    · rcases c3 j with h | ⟨h1, h2⟩
      · rw [h]; exact hx2 j
      · rw [h2]; exact (cont_step eps m (g x j) he1 hm (hx2 j) h1).2.2
    · rcases c3 j with h | ⟨h1, h2⟩
      · rw [h]; exact hj
      · rw [h2]; exact (cont_step eps m (g x j) he1 hm (hx2 j) h1).1 hj
    · rcases c3 j with h | ⟨h1, h2⟩
      · rw [h]; exact hj
      · rw [h2]; exact (cont_step eps m (g x j) he1 hm (hx2 j) h1).2.1 hj
  obtain ⟨o1, o2, o3, o4, o5⟩ := outer_inv eps he0 he1 N _ x x1 0 hI (Nat.zero_le _)
  refine ⟨o1, o2, o3, o4, ?_⟩
  simpa using o5

end
end Opus.SoftClip
