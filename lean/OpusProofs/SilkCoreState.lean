import OpusProofs.SilkCoreBasic
/-
  OpusProofs.SilkCoreState — the decoder-state invariant of the synthesis model and the part of its preservation that
  concerns `silk_decode_core` and the output-buffer update (property C03, slice SilkCore).
-/
namespace Opus.SilkCoreProofs
open Opus Opus.SilkParams Opus.SilkCore Opus.Gen Opus.Frozen

/-- The configurations `silk_decoder_set_fs` produces. -/
def CfgOk (fs nb : Nat) : Prop := (fs = 8 ∨ fs = 12 ∨ fs = 16) ∧ (nb = 2 ∨ nb = 4)

/-- The decoder-state invariant: configuration, buffer sizes of silk/structs.h, `outBuf` holds `opus_int16` values,
    the first `LPC_order` previous NLSFs are in `[0, 32767]`, `LastGainIndex` in `[0, 63]`, and — when the previous frame was a
    concealed voiced one — `lagPrev` in the legal lag range `[2 ms, 18 ms]`. -/
structure StateOk (s : DecState) : Prop where
  cfg : CfgOk s.fsKHz s.nbSubfr
  slpc : s.sLPC.length = 16
  outLen : s.outBuf.length = 480
  outI16 : ∀ x ∈ s.outBuf, I16 x
  excLen : s.excQ14.length = 320
  nlsfLen : s.prevNlsf.length = 16
  nlsfRange : ∀ e ∈ s.prevNlsf.take (lpcOrder s.fsKHz), 0 ≤ e ∧ e ≤ 32767
  lgi : 0 ≤ s.lastGainIndex ∧ s.lastGainIndex ≤ 63
  lag : s.lossCnt ≠ 0 → s.prevSignalType = 2 → 2 * (s.fsKHz : Int) ≤ s.lagPrev ∧ s.lagPrev ≤ 18 * (s.fsKHz : Int)

theorem cfg_nums {fs nb : Nat} (h : CfgOk fs nb) :
    subfrLen fs = 5 * fs ∧ ltpMemLen fs = 20 * fs ∧ frameLen fs nb = nb * (5 * fs) ∧ (lpcOrder fs = 10 ∨ lpcOrder fs = 16) := by
  rcases h with ⟨h | h | h, _⟩ <;> subst h <;> simp [subfrLen, ltpMemLen, frameLen, lpcOrder, SilkCoreTabs.subFrameLengthMs,
    SilkCoreTabs.ltpMemLengthMs, SilkCoreTabs.minLpcOrder, SilkCoreTabs.maxLpcOrder]

/-! ### splice -/

theorem splice_len (l : List Int) (i : Nat) (v : List Int) (h : i + v.length ≤ l.length) : (splice l i v).length = l.length := by
  simp only [splice, List.length_append, List.length_take, List.length_drop]; omega

theorem splice_mem (l : List Int) (i : Nat) (v : List Int) (P : Int → Prop) (hl : ∀ x ∈ l, P x) (hv : ∀ x ∈ v, P x) :
    ∀ x ∈ splice l i v, P x := by
  intro x hx
  simp only [splice, List.mem_append] at hx
  rcases hx with (hx | hx) | hx
  · exact hl x (List.mem_of_mem_take hx)
  · exact hv x hx
  · exact hl x (List.mem_of_mem_drop hx)

/-! ### outBuf through one sub-frame -/

/-- `psDec->outBuf` after the LTP-state set-up of a voiced sub-frame: same size, still `opus_int16` values (the only write is the
    `memcpy` of the first two sub-frames of `xq` at `k == 2`). -/
theorem ltpState_outBuf (fs : Nat) (sc : Int) (ifl : Bool) (k : Nat) (lag : Int) (p : SubPrep) (c : CoreSt)
    (ob : List Int × List Int) (h : ltpState fs sc ifl k lag p c = .ok ob)
    (hlen : ltpMemLen fs + 2 * subfrLen fs ≤ c.outBuf.length) (hx : ∀ x ∈ c.xq, I16 x) (ho : ∀ x ∈ c.outBuf, I16 x) :
    ob.1.length = c.outBuf.length ∧ ∀ x ∈ ob.1, I16 x := by
  have hb : (rewhitenBuf fs k c).length = c.outBuf.length ∧ ∀ x ∈ rewhitenBuf fs k c, I16 x := by
    unfold rewhitenBuf
    split
    · constructor
      · apply splice_len
        have := List.length_take_le (2 * subfrLen fs) c.xq
        omega
      · exact splice_mem _ _ _ _ ho (fun x hx' => hx x (List.mem_of_mem_take hx'))
    · exact ⟨rfl, ho⟩
  unfold ltpState at h
  split at h
  · unfold rewhiten at h
    split at h
    · cases h
    · split at h
      · cases h
      · split at h
        · cases h
        · simp only [Res.ok.injEq] at h
          subst h
          exact hb
  · split at h <;> (simp only [Res.ok.injEq] at h; subst h; exact ⟨rfl, ho⟩)

theorem voicedLtp_outBuf (fs : Nat) (sc : Int) (ifl : Bool) (k : Nat) (p : SubPrep) (c : CoreSt)
    (v : List Int × List Int × List Int × Nat) (h : voicedLtp fs sc ifl k p c = .ok v)
    (hlen : ltpMemLen fs + 2 * subfrLen fs ≤ c.outBuf.length) (hx : ∀ x ∈ c.xq, I16 x) (ho : ∀ x ∈ c.outBuf, I16 x) :
    v.2.1.length = c.outBuf.length ∧ ∀ x ∈ v.2.1, I16 x := by
  unfold voicedLtp at h
  obtain ⟨lag, _, h⟩ := bind_eq_ok h
  obtain ⟨ob, hob, h⟩ := bind_eq_ok h
  obtain ⟨r, _, h⟩ := bind_eq_ok h
  simp only [Res.pure_eq, Res.ok.injEq] at h
  subst h
  exact ltpState_outBuf _ _ _ _ _ _ _ _ hob hlen hx ho

theorem subframe_outBuf (s : DecState) (f : FrameIn) (ctrl : Ctrl) (ifl : Bool) (exc : List Int) (k : Nat) (c c' : CoreSt)
    (h : subframe s f ctrl ifl exc k c = .ok c')
    (hlen : ltpMemLen s.fsKHz + 2 * subfrLen s.fsKHz ≤ c.outBuf.length) (hx : ∀ x ∈ c.xq, I16 x) (ho : ∀ x ∈ c.outBuf, I16 x) :
    c'.outBuf.length = c.outBuf.length ∧ ∀ x ∈ c'.outBuf, I16 x := by
  unfold subframe at h
  obtain ⟨g, _, h⟩ := bind_eq_ok h
  split at h
  · cases h
  · split at h
    · obtain ⟨v, hv, h⟩ := bind_eq_ok h
      simp only [Res.pure_eq, Res.ok.injEq] at h
      subst h
      exact voicedLtp_outBuf _ _ _ _ _ _ _ hv hlen hx ho
    · simp only [Res.pure_eq, Res.ok.injEq] at h
      subst h
      exact ⟨rfl, ho⟩

theorem subframes_outBuf (s : DecState) (f : FrameIn) (ctrl : Ctrl) (ifl : Bool) (exc : List Int) :
    ∀ (n k : Nat) (c c' : CoreSt), subframes s f ctrl ifl exc n k c = .ok c' →
      ltpMemLen s.fsKHz + 2 * subfrLen s.fsKHz ≤ c.outBuf.length → (∀ x ∈ c.xq, I16 x) → (∀ x ∈ c.outBuf, I16 x) →
      c'.outBuf.length = c.outBuf.length ∧ ∀ x ∈ c'.outBuf, I16 x := by
  intro n
  induction n with
  | zero =>
    intro k c c' h _ _ ho
    simp only [subframes, Res.ok.injEq] at h; subst h
    exact ⟨rfl, ho⟩
  | succ n ih =>
    intro k c c' h hlen hx ho
    simp only [subframes] at h
    obtain ⟨c1, h1, h⟩ := bind_eq_ok h
    obtain ⟨l1, o1⟩ := subframe_outBuf _ _ _ _ _ _ _ _ h1 hlen hx ho
    obtain ⟨r1, e1, i1, _, _⟩ := subframe_spec _ _ _ _ _ _ _ _ h1
    have hx1 : ∀ x ∈ c1.xq, I16 x := by
      intro x hxx
      rw [e1] at hxx
      rcases List.mem_append.mp hxx with hxx | hxx
      · exact hx x hxx
      · exact i1 x hxx
    obtain ⟨l2, o2⟩ := ih _ _ _ h (by rw [l1]; exact hlen) hx1 o1
    exact ⟨by rw [l2, l1], o2⟩

/-- `silk_decode_core` leaves `outBuf` at its size with `opus_int16` contents. -/
theorem decodeCore_outBuf (s : DecState) (f : FrameIn) (ctrl : Ctrl) (interp : Int) (o : CoreOut)
    (h : decodeCore s f ctrl interp = .ok o) (hlen : ltpMemLen s.fsKHz + 2 * subfrLen s.fsKHz ≤ s.outBuf.length)
    (ho : ∀ x ∈ s.outBuf, I16 x) : o.outBuf.length = s.outBuf.length ∧ ∀ x ∈ o.outBuf, I16 x := by
  obtain ⟨off, c, _, _, hc, he⟩ := decodeCore_ok s f ctrl interp o h
  subst he
  exact subframes_outBuf _ _ _ _ _ _ _ _ _ hc hlen (by intro x hx; simp at hx) ho

/-! ### the buffer update of silk_decode_frame -/

theorem outBufUpdate_spec (fs nb : Nat) (ob xq : List Int) (hc : CfgOk fs nb) (hl : ob.length = 480)
    (hxl : xq.length = frameLen fs nb) (ho : ∀ x ∈ ob, I16 x) (hx : ∀ x ∈ xq, I16 x) :
    (outBufUpdate fs nb ob xq).length = 480 ∧ ∀ x ∈ outBufUpdate fs nb ob xq, I16 x := by
  obtain ⟨_, hm, hf, _⟩ := cfg_nums hc
  constructor
  · simp only [outBufUpdate, List.length_append, List.length_take, List.length_drop, hxl, hl, hm, hf]
    rcases hc with ⟨h | h | h, h' | h'⟩ <;> subst h <;> subst h' <;> decide
  · intro x hxm
    simp only [outBufUpdate, List.mem_append] at hxm
    rcases hxm with (hxm | hxm) | hxm
    · exact ho x (List.mem_of_mem_drop (List.mem_of_mem_take hxm))
    · exact hx x hxm
    · exact ho x (List.mem_of_mem_drop hxm)

end Opus.SilkCoreProofs
