import OpusProofs.CeltCallees2Fft
/-
  OpusProofs.CeltCallees2Bfly — the butterflies of `opus_fft_impl` for ARBITRARY stage parameters: an arithmetic condition
  on (radix, m, N, mm, fstride) under which `kf_bfly2/3/4/5` stay inside `fout[0 .. nfft)` and `twiddles[0 .. twLen)`,
  proved structurally (multiplication monotonicity + omega), and the check that every stage of the four regenerated
  factor lists satisfies it.  Complements the exhaustive hit-list evaluation of `OpusProofs.CeltCallees2Fft`.
-/
namespace Opus.CeltCallees2
open Opus.Gen.CeltFft

/-- The butterfly call of one stage (the `switch` of kiss_fft.c:585-603 without the table reads around it). -/
def bflyHits (s : Stage) : List Hit :=
  if s.p = 2 then bfly2 s.fs
  else if s.p = 4 then bfly4 s.fsS s.m s.fs s.mm
  else if s.p = 3 then bfly3 s.fsS s.m s.fs s.mm
  else if s.p = 5 then bfly5 s.fsS s.m s.fs s.mm
  else []

/-- Arithmetic condition on one stage under which its butterfly stays inside `fout[0 .. nfft)` and `twiddles[0 .. twLen)`:
    `N` groups at distance `mm`, each spanning `p*m` elements, end inside `nfft` (radix 2: `N` contiguous groups of 8, radix 4
    with `m = 1`: `N` contiguous groups of 4 — these two loops advance `Fout` by a constant and ignore `mm`); the largest
    twiddle index `(p−1)*(m−1)*fstride` (and `m*fstride`, `2*m*fstride` for the radix-3 / radix-5 constants) is below
    `twLen`. -/
def StageSafe (s : Stage) (nfft twLen : Int) : Prop :=
  1 ≤ s.m ∧ 1 ≤ s.fs ∧ 0 ≤ s.mm ∧ 0 ≤ s.fsS ∧
  (s.p = 2 → 8 * s.fs ≤ nfft) ∧
  (s.p = 4 → (s.m = 1 → 4 * s.fs ≤ nfft) ∧ (s.m ≠ 1 → (s.fs - 1) * s.mm + 4 * s.m ≤ nfft ∧ 3 * ((s.m - 1) * s.fsS) < twLen)) ∧
  (s.p = 3 → (s.fs - 1) * s.mm + 3 * s.m ≤ nfft ∧ 2 * ((s.m - 1) * s.fsS) < twLen ∧ s.m * s.fsS < twLen) ∧
  (s.p = 5 → (s.fs - 1) * s.mm + 5 * s.m ≤ nfft ∧ 4 * ((s.m - 1) * s.fsS) < twLen ∧ 2 * (s.m * s.fsS) < twLen)
instance (s : Stage) (nfft twLen : Int) : Decidable (StageSafe s nfft twLen) := by unfold StageSafe; exact inferInstance

def bflyB (nfft twLen : Int) : CArr → Int × Int
  | .fout => (0, nfft - 1) | .tw => (0, twLen - 1) | _ => (1, 0)

theorem mul_mono_r {a b c : Int} (hc : 0 ≤ c) (hab : a ≤ b) : a * c ≤ b * c := Int.mul_le_mul_of_nonneg_right hab hc

/-- For ANY stage parameters satisfying `StageSafe`, every element the butterfly touches is inside. -/
theorem bfly_in (s : Stage) (nfft twLen : Int) (h : StageSafe s nfft twLen) : All (InB (bflyB nfft twLen)) (bflyHits s) := by
  obtain ⟨hm, hfs, hmm, hst, h2, h4, h3, h5⟩ := h
  unfold bflyHits
  repeat' (with_reducible apply all_ite <;> intro _)
  · -- radix 2
    have := h2 ‹_›
    unfold bfly2
    repeat' hits_step
    all_goals (refine ⟨?_, ?_⟩ <;> simp only [bflyB] <;> omega)
  · -- radix 4
    obtain ⟨h41, h4m⟩ := h4 ‹_›
    unfold bfly4
    with_reducible apply all_ite <;> intro hm1
    · have := h41 hm1
      repeat' hits_step
      all_goals (refine ⟨?_, ?_⟩ <;> simp only [bflyB] <;> omega)
    · obtain ⟨hn, ht⟩ := h4m hm1
      apply all_loop; intro i hi0 hi1; apply all_loop; intro j hj0 hj1
      have a1 : i * s.mm ≤ (s.fs - 1) * s.mm := mul_mono_r hmm (by omega)
      have a2 : 0 ≤ i * s.mm := Int.mul_nonneg hi0 hmm
      have a3 : j * s.fsS ≤ (s.m - 1) * s.fsS := mul_mono_r hst (by omega)
      have a4 : 0 ≤ j * s.fsS := Int.mul_nonneg hj0 hst
      repeat' hits_step
      all_goals (refine ⟨?_, ?_⟩ <;> simp only [bflyB] <;> omega)
  · -- radix 3
    obtain ⟨hn, ht, ht2⟩ := h3 ‹_›
    unfold bfly3
    have a0 : 0 ≤ s.m * s.fsS := Int.mul_nonneg (by omega) hst
    apply all_cons
    · refine ⟨?_, ?_⟩ <;> simp only [bflyB] <;> omega
    apply all_loop; intro i hi0 hi1; apply all_loop; intro j hj0 hj1
    have a1 : i * s.mm ≤ (s.fs - 1) * s.mm := mul_mono_r hmm (by omega)
    have a2 : 0 ≤ i * s.mm := Int.mul_nonneg hi0 hmm
    have a3 : j * s.fsS ≤ (s.m - 1) * s.fsS := mul_mono_r hst (by omega)
    have a4 : 0 ≤ j * s.fsS := Int.mul_nonneg hj0 hst
    repeat' hits_step
    all_goals (refine ⟨?_, ?_⟩ <;> simp only [bflyB] <;> omega)
  · -- radix 5
    obtain ⟨hn, ht, ht2⟩ := h5 ‹_›
    unfold bfly5
    have a0 : 0 ≤ s.m * s.fsS := Int.mul_nonneg (by omega) hst
    apply all_append
    · repeat' hits_step
      all_goals (refine ⟨?_, ?_⟩ <;> simp only [bflyB] <;> omega)
    apply all_loop; intro i hi0 hi1; apply all_loop; intro j hj0 hj1
    have a1 : i * s.mm ≤ (s.fs - 1) * s.mm := mul_mono_r hmm (by omega)
    have a2 : 0 ≤ i * s.mm := Int.mul_nonneg hi0 hmm
    have a3 : j * s.fsS ≤ (s.m - 1) * s.fsS := mul_mono_r hst (by omega)
    have a4 : 0 ≤ j * s.fsS := Int.mul_nonneg hj0 hst
    repeat' hits_step
    all_goals (refine ⟨?_, ?_⟩ <;> simp only [bflyB] <;> omega)
  · exact all_nil

/-- The stages of the four regenerated factor lists satisfy the condition. -/
theorem stages_safe : ∀ s : Fin 4, ∀ g ∈ stagesOf (kfft s.val), StageSafe g (kfft s.val).nfft twiddleLen := by decide +kernel

/-- `stageHits` is the table reads of the stage loop followed by the butterfly call. -/
theorem stageHits_bfly (s : Stage) :
    stageHits s = (if s.i ≠ 0 then [⟨.factors, 2 * s.i - 1⟩] else []) ++ [⟨.factors, 2 * s.i⟩, ⟨.fstride, s.i⟩] ++ bflyHits s := rfl

end Opus.CeltCallees2
