import OpusModel.SilkBw
import OpusProofs.EncDecideChain
/-
  OpusProofs.SilkBw — invariants of SILK's internal-rate state machine over ALL call sequences, and
  what they give for the TOC bandwidth of SILK-only packets (helper lemmas of property C11).
-/
namespace Opus.SilkBw
open Opus Opus.EncDecide

/-- Reachable rate-control states: rates in {0 (just initialised), 8, 12, 16} kHz, a transition
    counter in [0, 256], mode in {−2, 0, 1}. -/
structure BwInv (s : BwSt) : Prop where
  fs : s.fsKHz = 0 ∨ s.fsKHz = 8 ∨ s.fsKHz = 12 ∨ s.fsKHz = 16
  saved : s.savedFsKHz = 0 ∨ s.savedFsKHz = 8 ∨ s.savedFsKHz = 12 ∨ s.savedFsKHz = 16
  mode : s.mode = -2 ∨ s.mode = 0 ∨ s.mode = 1
  tfn : 0 ≤ s.tfn ∧ s.tfn ≤ 256

/-- What `check_control_input` (silk/check_control_input.c:41-61) lets through, with the API rates
    Opus uses. -/
structure BwInOk (i : BwIn) : Prop where
  api : i.apiFs = 8000 ∨ i.apiFs = 12000 ∨ i.apiFs = 16000 ∨ i.apiFs = 24000 ∨ i.apiFs = 48000
  des : i.desired = 8000 ∨ i.desired = 12000 ∨ i.desired = 16000
  max : i.maxFs = 8000 ∨ i.maxFs = 12000 ∨ i.maxFs = 16000
  min : i.minFs = 8000 ∨ i.minFs = 12000 ∨ i.minFs = 16000
  ord : i.minFs ≤ i.desired ∧ i.desired ≤ i.maxFs

theorem origOf_spec (s : BwSt) : (s.fsKHz = 0 → origOf s = s.savedFsKHz) ∧ (s.fsKHz ≠ 0 → origOf s = s.fsKHz) := by
  unfold origOf; constructor <;> intro h <;> simp [h]

theorem controlBw_eq (s : BwSt) (i : BwIn) : controlBw s i = controlBwCore (origOf s) s i := rfl

/-- Generic case analysis: to prove `P` of the result, prove it in every branch. -/
macro "bw_result" hr:ident : tactic =>
  `(tactic| (unfold controlBwCore at $hr:ident; repeat' (split at $hr:ident)))

set_option maxHeartbeats 800000 in
theorem controlBw_fs {s : BwSt} {i : BwIn} (hs : BwInv s) (hi : BwInOk i) :
    (controlBw s i).fsKHz = 8 ∨ (controlBw s i).fsKHz = 12 ∨ (controlBw s i).fsKHz = 16 := by
  obtain ⟨h1, h2, _, _⟩ := hs
  obtain ⟨a, d, m, n, o⟩ := hi
  have ho := origOf_spec s
  rw [controlBw_eq]
  generalize origOf s = orig at *
  have horig : orig = 0 ∨ orig = 8 ∨ orig = 12 ∨ orig = 16 := by omega
  clear ho h1 h2
  have key : ∀ r, controlBwCore orig s i = r → (r.fsKHz = 8 ∨ r.fsKHz = 12 ∨ r.fsKHz = 16) := by
    intro r hr
    bw_result hr
    all_goals (subst hr; dsimp only; omega)
  exact key _ rfl

theorem controlBw_st {s : BwSt} {i : BwIn} (hs : BwInv s) (orig : Int) :
    (controlBwCore orig s i).st.savedFsKHz = s.savedFsKHz ∧ (controlBwCore orig s i).st.fsKHz = s.fsKHz ∧
    ((controlBwCore orig s i).st.mode = -2 ∨ (controlBwCore orig s i).st.mode = 0 ∨ (controlBwCore orig s i).st.mode = 1) ∧
    (0 ≤ (controlBwCore orig s i).st.tfn ∧ (controlBwCore orig s i).st.tfn ≤ 256) := by
  obtain ⟨_, _, h3, h4⟩ := hs
  have key : ∀ r, controlBwCore orig s i = r →
      r.st.savedFsKHz = s.savedFsKHz ∧ r.st.fsKHz = s.fsKHz ∧ (r.st.mode = -2 ∨ r.st.mode = 0 ∨ r.st.mode = 1) ∧
      (0 ≤ r.st.tfn ∧ r.st.tfn ≤ 256) := by
    intro r hr
    bw_result hr
    all_goals (subst hr; dsimp only; refine ⟨rfl, rfl, ?_, ?_⟩ <;> (try split) <;> (try split) <;> omega)
  exact key _ rfl

/-- **Every call returns 8, 12 or 16 kHz and keeps the state invariant.** -/
theorem controlBw_inv {s : BwSt} {i : BwIn} (hs : BwInv s) (hi : BwInOk i) :
    ((controlBw s i).fsKHz = 8 ∨ (controlBw s i).fsKHz = 12 ∨ (controlBw s i).fsKHz = 16) ∧
    BwInv (afterCall (controlBw s i)) := by
  have k1 := controlBw_fs hs hi
  have k2 := controlBw_st (i := i) hs (origOf s)
  rw [← controlBw_eq] at k2
  have hsv := hs.saved
  refine ⟨k1, ⟨?_, ?_, k2.2.2.1, k2.2.2.2⟩⟩
  · show (controlBw s i).fsKHz = 0 ∨ (controlBw s i).fsKHz = 8 ∨ (controlBw s i).fsKHz = 12 ∨ (controlBw s i).fsKHz = 16
    omega
  · show (controlBw s i).st.savedFsKHz = 0 ∨ (controlBw s i).st.savedFsKHz = 8 ∨ (controlBw s i).st.savedFsKHz = 12 ∨
      (controlBw s i).st.savedFsKHz = 16
    rw [k2.1]; exact hsv

/-- **Range.**  The returned rate is never above `maxInternalSampleRate` — IMMEDIATELY, also on the
    first call after the maximum was lowered — and never below `minInternalSampleRate`, nor above the
    API rate when Opus asks for no more than the API rate supports. -/
theorem controlBw_range {s : BwSt} {i : BwIn} (hs : BwInv s) (hi : BwInOk i) (hmin : i.minFs ≤ i.apiFs) :
    (controlBw s i).fsKHz * 1000 ≤ i.maxFs ∧ i.minFs ≤ (controlBw s i).fsKHz * 1000 ∧
    (i.desired ≤ i.apiFs → (controlBw s i).fsKHz * 1000 ≤ i.apiFs) := by
  obtain ⟨h1, h2, h3, h4⟩ := hs
  obtain ⟨a, d, m, n, o⟩ := hi
  have ho := origOf_spec s
  rw [controlBw_eq]
  generalize origOf s = orig at *
  have key : ∀ r, controlBwCore orig s i = r →
      r.fsKHz * 1000 ≤ i.maxFs ∧ i.minFs ≤ r.fsKHz * 1000 ∧ (i.desired ≤ i.apiFs → r.fsKHz * 1000 ≤ i.apiFs) := by
    intro r hr
    bw_result hr
    all_goals (subst hr; dsimp only; omega)
  exact key _ rfl

/-- **Upper bound carried along.**  If the state's rate is at most `D`, this call asks for at most
    `D`, and the minimum is 8 kHz or the maximum is at most `D` (Opus: SILK-only has min = 8 kHz,
    hybrid has min = desired = max = 16 kHz), the returned rate is at most `D`. -/
theorem controlBw_le {s : BwSt} {i : BwIn} (hs : BwInv s) (hi : BwInOk i) (D : Int)
    (h0 : s.fsKHz * 1000 ≤ D ∧ s.savedFsKHz * 1000 ≤ D) (hd : i.desired ≤ D) (hm : i.minFs = 8000 ∨ i.maxFs ≤ D) :
    (controlBw s i).fsKHz * 1000 ≤ D ∧ (controlBw s i).st.savedFsKHz * 1000 ≤ D := by
  obtain ⟨h1, h2, h3, h4⟩ := hs
  obtain ⟨a, d, m, n, o⟩ := hi
  have ho := origOf_spec s
  rw [controlBw_eq]
  generalize origOf s = orig at *
  have key : ∀ r, controlBwCore orig s i = r → r.fsKHz * 1000 ≤ D ∧ r.st.savedFsKHz * 1000 ≤ D := by
    intro r hr
    bw_result hr
    all_goals (subst hr; dsimp only; omega)
  exact key _ rfl

theorem lpStep_fs (s : BwSt) : (lpStep s).fsKHz = s.fsKHz ∧ (lpStep s).savedFsKHz = s.savedFsKHz ∧ (lpStep s).mode = s.mode := by
  unfold lpStep; split <;> exact ⟨rfl, rfl, rfl⟩

theorem lpStep_inv {s : BwSt} (hs : BwInv s) : BwInv (lpStep s) := by
  obtain ⟨h1, h2, h3, h4⟩ := hs
  unfold lpStep
  split
  · exact ⟨h1, h2, h3, by dsimp only [TRANSITION_FRAMES]; omega⟩
  · exact ⟨h1, h2, h3, h4⟩

theorem lpSteps_inv {s : BwSt} (hs : BwInv s) (n : Nat) : BwInv (lpSteps n s) := by
  induction n generalizing s with
  | zero => exact hs
  | succ n ih => exact ih (lpStep_inv hs)

theorem lpSteps_fs (n : Nat) (s : BwSt) : (lpSteps n s).fsKHz = s.fsKHz ∧ (lpSteps n s).savedFsKHz = s.savedFsKHz := by
  induction n generalizing s with
  | zero => exact ⟨rfl, rfl⟩
  | succ n ih =>
    have := ih (lpStep s); have h := lpStep_fs s
    simp only [lpSteps]
    exact ⟨by rw [this.1, h.1], by rw [this.2, h.2.1]⟩

theorem applyGap_inv {s : BwSt} (hs : BwInv s) (g : Gap) : BwInv (applyGap s g) := by
  cases g with
  | frames n => exact lpSteps_inv hs n
  | prefill k =>
    obtain ⟨h1, h2, h3, h4⟩ := hs
    cases k
    · exact ⟨Or.inl rfl, Or.inl rfl, Or.inr (Or.inl rfl), by show (0 : Int) ≤ 0 ∧ (0 : Int) ≤ 256; omega⟩
    · exact ⟨Or.inl rfl, h1, h3, h4⟩
  | init => exact ⟨Or.inl rfl, Or.inl rfl, Or.inr (Or.inl rfl), by show (0 : Int) ≤ 0 ∧ (0 : Int) ≤ 256; omega⟩

theorem applyGap_le {s : BwSt} (g : Gap) (D : Int) (hD : 0 ≤ D) (h0 : s.fsKHz * 1000 ≤ D ∧ s.savedFsKHz * 1000 ≤ D) :
    (applyGap s g).fsKHz * 1000 ≤ D ∧ (applyGap s g).savedFsKHz * 1000 ≤ D := by
  cases g with
  | frames n => have := lpSteps_fs n s; simp only [applyGap]; rw [this.1, this.2]; exact h0
  | prefill k =>
    cases k
    · show (0 : Int) * 1000 ≤ D ∧ (0 : Int) * 1000 ≤ D; omega
    · simp only [applyGap, prefillReset, if_true]; constructor
      · show (0 : Int) * 1000 ≤ D; omega
      · exact h0.1
  | init => show (0 : Int) * 1000 ≤ D ∧ (0 : Int) * 1000 ≤ D; omega

/-- **Over any history** (any number of coded frames, prefill resets and re-initialisations between
    the calls; any `allow_bandwidth_switch` / `opusCanSwitch`): every returned rate is 8, 12 or 16 kHz
    and lies in that call's [min, max]; and if every call asked for at most `D` (with min = 8 kHz or
    max ≤ D), every returned rate is at most `D`. -/
theorem runBw_spec (D : Int) (hD : 0 ≤ D) :
    ∀ (evs : List (Gap × BwIn)) (s : BwSt), BwInv s → s.fsKHz * 1000 ≤ D ∧ s.savedFsKHz * 1000 ≤ D →
      (∀ e ∈ evs, BwInOk e.2 ∧ e.2.minFs ≤ e.2.apiFs ∧ e.2.desired ≤ D ∧ (e.2.minFs = 8000 ∨ e.2.maxFs ≤ D)) →
      BwInv (runBw s evs).1 ∧ ((runBw s evs).1.fsKHz * 1000 ≤ D ∧ (runBw s evs).1.savedFsKHz * 1000 ≤ D) ∧
      (∀ k ∈ (runBw s evs).2, (k = 8 ∨ k = 12 ∨ k = 16) ∧ k * 1000 ≤ D) ∧
      (runBw s evs).2.length = evs.length := by
  intro evs
  induction evs with
  | nil => intro s hs h0 _; exact ⟨hs, h0, fun k hk => by simp [runBw] at hk, rfl⟩
  | cons e rest ih =>
    intro s hs h0 hall
    obtain ⟨g, i⟩ := e
    have he := hall (g, i) List.mem_cons_self
    have hg := applyGap_inv hs g
    have hgl := applyGap_le g D hD h0
    have hc := controlBw_inv hg he.1
    have hl := controlBw_le hg he.1 D hgl he.2.2.1 he.2.2.2
    have hafter : (afterCall (controlBw (applyGap s g) i)).fsKHz * 1000 ≤ D ∧
        (afterCall (controlBw (applyGap s g) i)).savedFsKHz * 1000 ≤ D := ⟨hl.1, hl.2⟩
    have := ih (afterCall (controlBw (applyGap s g) i)) hc.2 hafter (fun x hx => hall x (List.mem_cons_of_mem _ hx))
    simp only [runBw]
    refine ⟨this.1, this.2.1, ?_, by simp [this.2.2.2]⟩
    intro k hk
    rcases List.mem_cons.mp hk with rfl | hk
    · exact ⟨hc.1, hl.1⟩
    · exact this.2.2.1 k hk

/-! ### Constant settings -/

set_option maxHeartbeats 800000 in
/-- With the same request on every call (desired ≤ API rate) the rate is the desired one from the
    first call on and never moves: there is neither an up- nor a down-switch to make. -/
theorem controlBw_const {s : BwSt} {i : BwIn} (hs : BwInv s) (hi : BwInOk i) (hapi : i.desired ≤ i.apiFs)
    (h : (s.fsKHz = 0 ∧ s.savedFsKHz = 0) ∨ s.fsKHz * 1000 = i.desired) :
    (controlBw s i).fsKHz * 1000 = i.desired := by
  obtain ⟨h1, h2, h3, h4⟩ := hs
  obtain ⟨a, d, m, n, o⟩ := hi
  have ho := origOf_spec s
  rw [controlBw_eq]
  generalize origOf s = orig at *
  have horig : (orig = 0 ∧ s.fsKHz = 0 ∧ s.savedFsKHz = 0) ∨ orig * 1000 = i.desired := by omega
  clear ho h1 h2 h3 h4 h
  have key : ∀ r, controlBwCore orig s i = r → r.fsKHz * 1000 = i.desired := by
    intro r hr
    bw_result hr
    all_goals (subst hr; dsimp only; omega)
  exact key _ rfl

/-! ### Switching down: what holds at once, what needs the transition filter -/

/-- A lower request while a switch is allowed (and Opus cannot take it yet) starts or continues the
    down transition: mode −2, or — once the counter has reached 0 — `switchReady`.  The rate is
    unchanged by this call. -/
theorem down_progress {s : BwSt} {i : BwIn} (hs : BwInv s) (hi : BwInOk i) (hfs : s.fsKHz ≠ 0)
    (hin : s.fsKHz * 1000 ≤ i.apiFs ∧ s.fsKHz * 1000 ≤ i.maxFs ∧ i.minFs ≤ s.fsKHz * 1000)
    (hdown : i.desired < s.fsKHz * 1000) (hallow : i.allow = true) (hcan : i.can = false) :
    (controlBw s i).fsKHz = s.fsKHz ∧
    (((controlBw s i).st.mode = -2 ∧ (controlBw s i).ready = false ∧ 0 < (controlBw s i).st.tfn) ∨
     ((controlBw s i).ready = true ∧ (controlBw s i).st.tfn ≤ 0)) ∧
    (controlBw s i).st.tfn ≤ (if s.mode = 0 ∨ s.tfn ≥ 256 then 256 else s.tfn) := by
  obtain ⟨h1, h2, h3, h4⟩ := hs
  obtain ⟨a, d, m, n, o⟩ := hi
  have ho := (origOf_spec s).2 hfs
  rw [controlBw_eq, ho]
  have key : ∀ r, controlBwCore s.fsKHz s i = r →
      r.fsKHz = s.fsKHz ∧ ((r.st.mode = -2 ∧ r.ready = false ∧ 0 < r.st.tfn) ∨ (r.ready = true ∧ r.st.tfn ≤ 0)) ∧
      r.st.tfn ≤ (if s.mode = 0 ∨ s.tfn ≥ 256 then 256 else s.tfn) := by
    intro r hr
    unfold controlBwCore at hr
    simp only [hallow, hcan, Bool.false_eq_true, or_false, if_true, if_false] at hr
    repeat' (split at hr)
    all_goals (subst hr; dsimp only)
    all_goals (first | omega | (refine ⟨rfl, ?_, ?_⟩ <;> (try split) <;> (try split) <;> (try simp) <;> omega))
  exact key _ rfl

/-- Each coded frame in mode −2 lowers the counter by 2 (not below 0): at most 128 frames. -/
theorem lpSteps_down (n : Nat) (s : BwSt) (hm : s.mode = -2) (ht : 0 ≤ s.tfn ∧ s.tfn ≤ 256) :
    (lpSteps n s).tfn = max 0 (s.tfn - 2 * n) ∧ (lpSteps n s).mode = -2 := by
  induction n generalizing s with
  | zero => simp only [lpSteps]; omega
  | succ n ih =>
    have hstep : (lpStep s).tfn = max 0 (s.tfn - 2) ∧ (lpStep s).mode = -2 ∧ (0 ≤ (lpStep s).tfn ∧ (lpStep s).tfn ≤ 256) := by
      unfold lpStep; rw [if_pos (by omega)]; dsimp only [TRANSITION_FRAMES]; omega
    have := ih (lpStep s) hstep.2.1 hstep.2.2
    simp only [lpSteps]
    rw [this.1, this.2, hstep.1]
    refine ⟨?_, rfl⟩
    push_cast
    omega

/-- When Opus can switch (`opusCanSwitch`, i.e. `switchReady` was reported on a final frame) a lower
    request takes effect in THIS call: one step down (16 → 12, 12 → 8), transition stopped. -/
theorem down_switch {s : BwSt} {i : BwIn} (hs : BwInv s) (hi : BwInOk i) (hfs : s.fsKHz ≠ 0)
    (hin : s.fsKHz * 1000 ≤ i.apiFs ∧ s.fsKHz * 1000 ≤ i.maxFs ∧ i.minFs ≤ s.fsKHz * 1000)
    (hdown : i.desired < s.fsKHz * 1000) (hcan : i.can = true) :
    (controlBw s i).fsKHz = (if s.fsKHz = 16 then 12 else 8) ∧ (controlBw s i).st.mode = 0 ∧
    (controlBw s i).fsKHz < s.fsKHz := by
  obtain ⟨h1, h2, h3, h4⟩ := hs
  obtain ⟨a, d, m, n, o⟩ := hi
  have ho := (origOf_spec s).2 hfs
  rw [controlBw_eq, ho]
  have key : ∀ r, controlBwCore s.fsKHz s i = r →
      r.fsKHz = (if s.fsKHz = 16 then 12 else 8) ∧ r.st.mode = 0 ∧ r.fsKHz < s.fsKHz := by
    intro r hr
    unfold controlBwCore at hr
    simp only [hcan, or_true, if_true] at hr
    repeat' (split at hr)
    all_goals (subst hr; dsimp only; (try split) <;> omega)
  exact key _ rfl

/-! ### The Opus side -/

theorem rateOfBw_cases (bw : Int) : rateOfBw bw = 8000 ∨ rateOfBw bw = 12000 ∨ rateOfBw bw = 16000 := by
  unfold rateOfBw; split
  · left; rfl
  · split
    · right; left; rfl
    · right; right; rfl

theorem rateOfBw_mono {a b : Int} (ha : 1101 ≤ a) (h : a ≤ b) : rateOfBw a ≤ rateOfBw b := by
  unfold rateOfBw; consts; repeat' split
  all_goals omega

/-- What Opus hands to SILK passes `check_control_input`, asks for at most `rateOfBw L` when the
    frame's bandwidth is at most `L`, never asks for more than the API rate supports when the
    bandwidth respects Nyquist, and has min = 8 kHz (SILK-only) or max = 16 kHz ≤ … (hybrid, where
    the bandwidth is above wideband). -/
theorem opusSilkIn_ok (apiFs mode bw frameRate maxDataBytes : Int) (allow can : Bool) (L : Int)
    (hapi : apiFs = 8000 ∨ apiFs = 12000 ∨ apiFs = 16000 ∨ apiFs = 24000 ∨ apiFs = 48000)
    (hmode : mode = 1000 ∨ (mode = 1001 ∧ 1104 ≤ bw ∧ 24000 ≤ apiFs)) (hbw : 1101 ≤ bw ∧ bw ≤ L)
    (hny : bw ≤ nyquistBw apiFs) :
    ∀ i, i = opusSilkIn apiFs mode bw frameRate maxDataBytes allow can →
    BwInOk i ∧ i.minFs ≤ i.apiFs ∧ i.desired ≤ rateOfBw L ∧ (i.minFs = 8000 ∨ i.maxFs ≤ rateOfBw L) ∧
    i.desired ≤ i.apiFs := by
  intro i hi
  subst hi
  have hL := rateOfBw_mono hbw.1 hbw.2
  have hr := rateOfBw_cases bw
  have hnyq : rateOfBw bw ≤ apiFs := by
    unfold nyquistBw at hny; unfold rateOfBw; consts
    rcases hapi with rfl | rfl | rfl | rfl | rfl <;> simp at hny <;> repeat' split
    all_goals omega
  have hLc := rateOfBw_cases L
  unfold opusSilkIn
  consts
  generalize (if frameRate > 50 then frameRate * maxDataBytes * 8 * 2 / 3 else frameRate * maxDataBytes * 8) = eff
  rcases hmode with rfl | ⟨rfl, hb, ha⟩
  · simp only [show ((1000 : Int) = 1001) = False by decide, if_false, if_true]
    generalize rateOfBw bw = d at *
    generalize rateOfBw L = DL at *
    refine ⟨⟨hapi, ?_, ?_, ?_, ?_⟩, ?_, ?_, ?_, ?_⟩ <;> (try dsimp only) <;> (try split) <;> (try split) <;> (first | omega | exact Or.inl trivial)
  · have hd : rateOfBw bw = 16000 := by unfold rateOfBw; consts; rw [if_neg (by omega), if_neg (by omega)]
    simp only [show ((1001 : Int) = 1000) = False by decide, if_false, if_true, hd] at *
    generalize rateOfBw L = DL at *
    refine ⟨⟨hapi, ?_, ?_, ?_, ?_⟩, ?_, ?_, ?_, ?_⟩ <;> (try dsimp only) <;> omega

/-- SILK's rate, as a TOC bandwidth, is at most `L` when the rate is at most `rateOfBw L`. -/
theorem bwOfKHz_le {k L : Int} (hk : k = 8 ∨ k = 12 ∨ k = 16) (hL : 1101 ≤ L) (h : k * 1000 ≤ rateOfBw L) :
    bwOfKHz k ≤ L ∧ 1101 ≤ bwOfKHz k ∧ bwOfKHz k ≤ 1103 := by
  unfold bwOfKHz; unfold rateOfBw at h; consts
  repeat' split
  all_goals (first | omega | (split at h <;> (try split at h) <;> omega))

end Opus.SilkBw
