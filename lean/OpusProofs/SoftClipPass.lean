import OpusProofs.SoftClip
/-
  OpusProofs.SoftClipPass — pass-through of `opus_pcm_soft_clip`, for EVERY instantiation of `ClipOps`
  in which the samples satisfy the four facts the C code relies on for an in-range sample `v`
  (`Pass v`): neither `v > 1` nor `v < -1`, the ±2 saturation leaves `v` alone, and `v*0 >= 0`.
  Over an ordered field these follow from `|v| ≤ 1` (OpusProofs/SoftClipField.lean); for binary32
  they hold for every non-NaN `v` with `|v| ≤ 1` (IEEE-754: `v*0 = ±0`, `±0 >= 0`).
-/
namespace Opus.SoftClip
variable {α : Type} [ClipOps α]
open ClipOps

/-- What the code needs to know about a sample to leave it alone. -/
def Pass (v : α) : Prop :=
  ltb one v = false ∧ ltb v (-one) = false ∧ sat2 v = v ∧ leb zero (v * zero) = true

theorem satLoop_id (x : Array α) (n : Nat) (h : ∀ j, j < x.size → sat2 (x.getD j zero) = x.getD j zero) :
    satLoop x 0 n = x := by
  obtain ⟨s1, s2⟩ := satLoop_spec x 0 n
  apply Array.ext s1
  intro j h1 h2
  have e := s2 j
  have hv : (if 0 ≤ j ∧ j < n ∧ j < x.size then sat2 (x.getD j zero) else x.getD j zero) = x.getD j zero := by
    by_cases hc : 0 ≤ j ∧ j < n ∧ j < x.size
    · rw [if_pos hc]; exact h j h2
    · rw [if_neg hc]
  rw [hv] at e
  simpa [Array.getD, h1, h2] using e

theorem contLoop_zero (x : Array α) (C c N : Nat) (h : 0 < N → Pass (rd x C c 0)) :
    contLoop x C c N zero 0 = x := by
  rw [contLoop.eq_def]
  split
  · rename_i hN
    simp only [(h hN).2.2.2, if_true]
  · rfl

theorem findExceed_none (x : Array α) (C c N i : Nat) (h : ∀ j, j < N → Pass (rd x C c j)) :
    findExceed x C c N i = N := by
  fun_induction findExceed x C c N i with
  | case1 i hi v hcond =>
    exfalso
    have hp := h i hi
    have : (ltb one v || ltb v (-one)) = false := by
      show (ltb one (rd x C c i) || ltb (rd x C c i) (-one)) = false
      rw [hp.1, hp.2.1]; rfl
    rw [this] at hcond; exact Bool.false_ne_true hcond
  | case2 i hi v hcond ih => exact ih
  | case3 i hi => rfl

theorem outer_none (x : Array α) (C c N : Nat) (x0 : α) (h : ∀ j, j < N → Pass (rd x C c j)) :
    outer x C c N x0 0 = (x, zero) := by
  rw [outer.eq_def]
  simp only [findExceed_none x C c N 0 h, Nat.lt_irrefl, if_false]

omit [ClipOps α] in
theorem setIfInBounds_same (m : Array α) (c : Nat) (z : α) (h : m.getD c z = z) : m.setIfInBounds c z = m := by
  apply Array.ext
  · simp
  · intro j h1 h2
    by_cases hj : c = j
    · subst hj
      have : m[c] = z := by simpa [Array.getD, h2] using h
      simp [this]
    · rw [Array.getElem_setIfInBounds_ne h2 hj]

theorem clipChannel_pass (x mem : Array α) (C c N : Nat) (hmem : mem.getD c zero = zero)
    (h : ∀ j, j < N → Pass (rd x C c j)) : clipChannel x mem C c N = (x, mem) := by
  unfold clipChannel
  simp only [hmem, contLoop_zero x C c N (fun hN => h 0 hN), outer_none x C c N _ h,
    setIfInBounds_same mem c zero hmem]

theorem chanLoop_pass (x mem : Array α) (C N k : Nat) (hmem : ∀ c, c < C → mem.getD c zero = zero)
    (h : ∀ c j, c < C → j < N → Pass (rd x C c j)) : chanLoop x mem C N k = (x, mem) := by
  fun_induction chanLoop x mem C N k with
  | case1 x mem k hk x' mem' hcl ih =>
    rw [clipChannel_pass x mem C k N (hmem k hk) (fun j hj => h k j hk hj)] at hcl
    injection hcl with h1 h2
    subst h1 h2
    exact ih hmem h
  | case2 x mem k hk => rfl

/-- **Pass-through.**  If every sample of an `N`×`C` buffer satisfies `Pass` and the memory is cleared,
    `opus_pcm_soft_clip` returns the buffer and the memory unchanged. -/
theorem softClip_pass (x mem : Array α) (N C : Nat) (hsz : x.size = N * C) (hm : mem.size = C)
    (hmem : ∀ c, c < C → mem.getD c zero = zero) (h : ∀ j, j < N * C → Pass (x.getD j zero)) :
    softClip false false x mem (N : Int) (C : Int) = .ok (x, mem) := by
  unfold softClip
  split
  · rfl
  · have hb : ¬ (x.size < N * C ∨ mem.size < C) := by omega
    simp only [Int.toNat_natCast]
    rw [if_neg hb]
    have hs : satLoop x 0 (N * C) = x := satLoop_id x (N * C) (fun j hj => (h j (by omega)).2.2.1)
    rw [hs, chanLoop_pass x mem C N 0 hmem]
    intro c j hc hj
    exact h (j * C + c) (idx_lt hc hj)

end Opus.SoftClip
