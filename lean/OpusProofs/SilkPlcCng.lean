import OpusModel.SilkPlcCng
/-
  OpusProofs.SilkPlcCng — silk_CNG (silk/CNG.c:79-188) on the value model: every output sample is an `opus_int16`.
-/
namespace Opus.SilkPlc
open Opus Opus.SilkParams

theorem zipWith_addSat16_int16 : ∀ (a b : List Int), ∀ y ∈ List.zipWith addSat16 a b, -32768 ≤ y ∧ y ≤ 32767
  | [], _ => by simp
  | _ :: _, [] => by simp
  | x :: a, y :: b => by
    intro z hz
    simp only [List.zipWith_cons_cons, List.mem_cons] at hz
    rcases hz with rfl | hz
    · unfold addSat16 wrap16; omega
    · exact zipWith_addSat16_int16 a b z hz

/-- Every sample silk_CNG returns is an int16 (CNG.c:180 `silk_ADD_SAT16`; the frame is untouched without loss). -/
theorem silkCNG_frame_int16 (x : CngIn) (c : Cng) (frame f : List Int) (c' : Cng)
    (h : silkCNG x c frame = .ok (f, c')) (hf : ∀ y ∈ frame, -32768 ≤ y ∧ y ≤ 32767) :
    ∀ y ∈ f, -32768 ≤ y ∧ y ≤ 32767 := by
  unfold silkCNG at h
  dsimp only at h
  split at h
  · split at h
    · injection h with h
      injection h with h1 _
      subst h1
      exact zipWith_addSat16_int16 _ _
    all_goals exact absurd h (by simp)
  · injection h with h
    injection h with h1 _
    subst h1
    exact hf

end Opus.SilkPlc
