import OpusProofs.Layout
import OpusProofs.LayoutCreate
import OpusModel.Matrix
/-
  OpusProofs.LayoutRoute — `opus_multistream_decode_native` as a whole: a positive return value
  comes from the stream loop, so the routing lemma of `OpusProofs.Layout` applies (C10 `routing`);
  and the int16 output path of the mapping matrices saturates.  Core tactics only.
-/
namespace Opus.Layout
open Opus

theorem Err.code_neg (e : Err) : e.code < 0 := by cases e <;> decide

/-- A positive return value of `opus_multistream_decode_native` is produced by the stream loop
    (every early exit returns a negative error code). -/
theorem decodeNative_success (l : ChannelLayout) (fsRate : Nat) (frameSize len : Int) (validate : Res Nat)
    (rets : List StreamRet) (r : Routed) (h : decodeNative l fsRate frameSize len validate rets = .ok r)
    (hpos : r.ret > 0) :
    ∃ fs0 : Int, r = routeLoop l (decide (len = 0)) (rets.take l.nbStreams) 0 len fs0 [] := by
  have hneg : ∀ e : Err, ¬ ((⟨e.code, []⟩ : Routed).ret > 0) := fun e => by
    have := Err.code_neg e; simp only; omega
  unfold decodeNative at h
  by_cases h1 : frameSize ≤ 0
  · rw [if_pos h1] at h; cases h; exact absurd hpos (hneg _)
  · rw [if_neg h1] at h
    dsimp only at h
    generalize (if frameSize < ((fsRate / 25 * 3 : Nat) : Int) then frameSize else ((fsRate / 25 * 3 : Nat) : Int)) = fs0 at h
    by_cases h2 : len < 0
    · rw [if_pos h2] at h; cases h; exact absurd hpos (hneg _)
    · rw [if_neg h2] at h
      split at h
      · cases h; exact absurd hpos (hneg _)
      · split at h
        · cases h; exact ⟨_, rfl⟩
        · cases hvq : validate with
          | ok n =>
            rw [hvq] at h; dsimp only at h
            split at h
            · cases h; exact absurd hpos (hneg _)
            · cases h; exact ⟨_, rfl⟩
          | err e => rw [hvq] at h; cases h; exact absurd hpos (hneg _)
          | oob => rw [hvq] at h; cases h
          | abort => rw [hvq] at h; cases h

/-- The layout facts a successfully created decoder carries. -/
theorem decoderInit_layout_facts (innerOk : Bool) (ch st co : Int) (m : List Nat) (l : ChannelLayout)
    (h : decoderInit innerOk ch st co m = .ok l) :
    validateLayout l = true ∧ l.nbCoupled ≤ l.nbStreams ∧ l.nbChannels ≤ l.mapping.length ∧
    1 ≤ l.nbChannels ∧ 1 ≤ l.nbStreams := by
  obtain ⟨hargs, hlen, hv, _, hl⟩ := (decoderInit_ok_iff innerOk ch st co m l).1 h
  subst hl
  unfold DecArgsOk at hargs
  refine ⟨(validateLayout_iff _).2 hv, ?_, ?_, ?_, ?_⟩ <;> simp only [storedLayout, List.length_take] <;> omega

/-- With every stream decoder returning the same `n` samples, each channel receives one block of
    `n` samples of its designated source. -/
theorem channelWrites_of_calls {α} [OfNat α 0] (pcm : Src → List α) (calls : List Call) (c : Nat) (k : Call)
    (h : calls.filter (fun x => x.chan = c) = [k]) :
    channelWrites pcm calls c = [srcSamples pcm k.frameSize k.src] := by
  unfold channelWrites; rw [h]; rfl

/-- The stream a source refers to is below `n`. -/
def Src.streamLt (n : Nat) : Src → Prop
  | .left s => s < n | .right s => s < n | .mono s => s < n | .zero => True

theorem srcFrame_const (rets : List StreamRet) (n : Int) (hn : ∀ r ∈ rets, r.ret = n) (src : Src)
    (hs : src.streamLt rets.length) : srcFrame rets n src = n := by
  cases src <;> simp only [srcFrame] <;> simp only [Src.streamLt] at hs
  all_goals first
    | rfl
    | (rw [List.getElem?_eq_getElem hs]; simp only [Option.map_some, Option.getD_some]
       exact hn _ (List.getElem_mem hs))

theorem finalFs_const : ∀ (rets : List StreamRet) (n fs : Int), rets ≠ [] → (∀ r ∈ rets, r.ret = n) →
    finalFs rets fs = n
  | [], _, _, h, _ => absurd rfl h
  | [r], n, fs, _, hn => by simp only [finalFs]; exact hn r (by simp)
  | r :: q :: rest, n, fs, _, hn => by
    rw [finalFs]
    exact finalFs_const (q :: rest) n r.ret (by simp) (fun x hx => hn x (List.mem_cons_of_mem _ hx))

/-- The stream a valid mapping byte designates exists. -/
theorem expectedSrc_in_range (l : ChannelLayout) (hv : validateLayout l = true) (hcs : l.nbCoupled ≤ l.nbStreams)
    (hmap : l.nbChannels ≤ l.mapping.length) (c : Nat) (hc : c < l.nbChannels) :
    (expectedSrc l c).streamLt l.nbStreams := by
  obtain ⟨h255, hvals⟩ := (validateLayout_iff l).1 hv
  have hcl : c < l.mapping.length := by omega
  have hmem : l.mapping[c] ∈ l.chans := by
    unfold ChannelLayout.chans
    rw [List.mem_take_iff_getElem]
    exact ⟨c, by simp only [Nat.lt_min]; omega, rfl⟩
  have := hvals _ hmem
  unfold expectedSrc
  simp only [List.getD_eq_getElem?_getD, List.getElem?_eq_getElem hcl, Option.getD_some]
  generalize l.mapping[c] = v at this
  by_cases h1 : v = 255
  · rw [if_pos h1]; trivial
  · rw [if_neg h1]
    by_cases h2 : v < 2 * l.nbCoupled
    · rw [if_pos h2]
      by_cases h3 : v % 2 = 0
      · rw [if_pos h3]; show v / 2 < l.nbStreams; omega
      · rw [if_neg h3]; show v / 2 < l.nbStreams; omega
    · rw [if_neg h2]; show v - l.nbCoupled < l.nbStreams; omega

end Opus.Layout

namespace Opus.Matrix
open Opus

def InInt16 (x : Int) : Prop := -32768 ≤ x ∧ x ≤ 32767

theorem sat16_range (x : Int) : InInt16 (sat16 x) := by
  unfold sat16 InInt16
  split
  · omega
  · split <;> omega

theorem outShortRows_range (m : MappingMatrix) (inputRow outputRows i : Nat) (sample : Int) :
    ∀ (k : Nat) (out out' : List Int), (∀ x ∈ out, InInt16 x) →
      outShortRows m inputRow outputRows i sample k out = .ok out' → (∀ x ∈ out', InInt16 x) ∧ out'.length = out.length
  | 0, out, out', h, he => by
    simp only [outShortRows, Res.ok.injEq] at he; subst he; exact ⟨h, rfl⟩
  | k + 1, out, out', h, he => by
    unfold outShortRows at he
    dsimp only at he
    split at he
    · rename_i c o _ _
      have := outShortRows_range m inputRow outputRows i sample k _ out' (by
        intro x hx
        rcases List.mem_or_eq_of_mem_set hx with h' | h'
        · exact h x h'
        · rw [h']; exact sat16_range _) he
      refine ⟨this.1, ?_⟩
      rw [this.2]; simp [setAt]
    all_goals cases he

theorem outShortLoop_range (m : MappingMatrix) (input : List (Int × Int)) (inputRow inputRows outputRows : Nat) :
    ∀ (k i : Nat) (out out' : List Int), (∀ x ∈ out, InInt16 x) →
      outShortLoop m input inputRow inputRows outputRows k i out = .ok out' →
      (∀ x ∈ out', InInt16 x) ∧ out'.length = out.length
  | 0, _, out, out', h, he => by
    simp only [outShortLoop, Res.ok.injEq] at he; subst he; exact ⟨h, rfl⟩
  | k + 1, i, out, out', h, he => by
    unfold outShortLoop at he
    split at he
    · cases he
    · split at he
      · rename_i out1 hrows
        obtain ⟨h1, l1⟩ := outShortRows_range m inputRow outputRows i _ outputRows out out1 h hrows
        obtain ⟨h2, l2⟩ := outShortLoop_range m input inputRow inputRows outputRows k (i + 1) out1 out' h1 he
        exact ⟨h2, by rw [l2, l1]⟩
      all_goals cases he

end Opus.Matrix
