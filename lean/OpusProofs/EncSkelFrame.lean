import OpusModel.EncSkel
import OpusProofs.EncSkelRepack
/-
  OpusProofs.EncSkelFrame — what one `opus_encode_frame_native` call returns, for all oracle
  behaviours that satisfy the contracts (`frameOk`): no assertion fires, no INTERNAL_ERROR /
  BUFFER_TOO_SMALL return is taken, `1 ≤ ret ≤ max_data_bytes`, CBR frames are exactly
  `max_data_bytes` long unless the DTX return is taken, and the configuration fields of the
  state are left alone.  (Properties C05 and C02.)
-/
namespace Opus.EncSkel.Proofs
open Opus Opus.EncDecide Opus.EncSkel

/-- What `opus_encode_frame_native` needs from its caller: a budget of 3..1276 bytes and a
    mode/bandwidth pair as the decision chain leaves it. -/
structure FramePre (s : St) (fi : FrameIn) : Prop where
  mLo : 3 ≤ fi.maxDataBytes
  mHi : fi.maxDataBytes ≤ 1276
  mode : s.mode = MODE_SILK_ONLY ∨ s.mode = MODE_HYBRID ∨ s.mode = MODE_CELT_ONLY
  bw : s.mode = MODE_SILK_ONLY → s.bandwidth = BW_NB ∨ s.bandwidth = BW_MB ∨ s.bandwidth = BW_WB

/-- Fields of the state that a frame call never changes. -/
def Keeps (a b : St) : Prop :=
  b = { a with silkBwSwitch := b.silkBwSwitch, opusCanSwitch := b.opusCanSwitch,
               allowBwSwitch := b.allowBwSwitch, inWBmode := b.inWBmode, prevMode := b.prevMode,
               prevChannels := b.prevChannels, prevFramesize := b.prevFramesize, first := b.first,
               nbNoActivity := b.nbNoActivity }

theorem Keeps.refl (a : St) : Keeps a a := rfl

theorem Keeps.trans {a b c : St} (h1 : Keeps a b) (h2 : Keeps b c) : Keeps a c := by
  unfold Keeps at *; rw [h2, h1]

/-- Header bytes of a CBR frame: what `opus_packet_pad` leaves before the payload. -/
def cbrHdr (toc : Nat) (payload m : Int) : Bytes :=
  match (padSpec toc [payload.toNat] (payload + 1) m).2 with
  | some r => r.hdr
  | none => [toc]

/-- Post-condition of one frame call. -/
structure FramePost (s : St) (fi : FrameIn) (r : FrameRes) : Prop where
  noAbort : r.abort = false
  retLo : 1 ≤ r.ret
  retHi : r.ret ≤ fi.maxDataBytes
  payload : 0 ≤ r.payload ∧ r.payload ≤ 1275
  dtx1 : r.dtx = true → r.ret = 1 ∧ r.payload = 0 ∧ r.hdr = [r.toc]
  cbr : s.useVbr = 0 → r.dtx = false → r.ret = fi.maxDataBytes ∧ r.hdr = cbrHdr r.toc r.payload fi.maxDataBytes ∧
          r.payload + 1 ≤ fi.maxDataBytes
  vbr : s.useVbr ≠ 0 → r.dtx = false → r.ret = r.payload + 1 ∧ r.hdr = [r.toc]
  toc : ∃ bw, r.toc = genToc s.mode (s.fs / fi.frameSize) bw s.streamChannels ∧
          (s.mode ≠ MODE_SILK_ONLY → bw = s.bandwidth) ∧
          (s.mode = MODE_SILK_ONLY → bw = BW_NB ∨ bw = BW_MB ∨ bw = BW_WB)
  keeps : Keeps s r.st


theorem Keeps.mode {a b : St} (h : Keeps a b) : b.mode = a.mode := by
  unfold Keeps at h; have h' := congrArg St.mode h; exact h'
theorem Keeps.bandwidth {a b : St} (h : Keeps a b) : b.bandwidth = a.bandwidth := by
  unfold Keeps at h; have h' := congrArg St.bandwidth h; exact h'
theorem Keeps.fs {a b : St} (h : Keeps a b) : b.fs = a.fs := by
  unfold Keeps at h; have h' := congrArg St.fs h; exact h'
theorem Keeps.useVbr {a b : St} (h : Keeps a b) : b.useVbr = a.useVbr := by
  unfold Keeps at h; have h' := congrArg St.useVbr h; exact h'
theorem Keeps.bitrateBps {a b : St} (h : Keeps a b) : b.bitrateBps = a.bitrateBps := by
  unfold Keeps at h; have h' := congrArg St.bitrateBps h; exact h'
theorem Keeps.streamChannels {a b : St} (h : Keeps a b) : b.streamChannels = a.streamChannels := by
  unfold Keeps at h; have h' := congrArg St.streamChannels h; exact h'
theorem Keeps.userBitrate {a b : St} (h : Keeps a b) : b.userBitrate = a.userBitrate := by
  unfold Keeps at h; have h' := congrArg St.userBitrate h; exact h'
theorem Keeps.useDtx {a b : St} (h : Keeps a b) : b.useDtx = a.useDtx := by
  unfold Keeps at h; have h' := congrArg St.useDtx h; exact h'

/-! ### frPre -/

theorem frPre_keeps (s : St) (fi : FrameIn) : Keeps s (frPre s fi).st := by
  unfold frPre; dsimp only; split <;> rfl

/-! ### frSilk -/

theorem silkSt_keeps (p : Pre) (o : FrameOr) : Keeps p.st (silkSt p o) := rfl
theorem silkSt2_keeps (p : Pre) (o : FrameOr) : Keeps p.st (silkSt2 p o) := rfl

theorem silkCurrBw_spec (s : St) (o : FrameOr)
    (hbw : s.mode = MODE_SILK_ONLY → s.bandwidth = BW_NB ∨ s.bandwidth = BW_MB ∨ s.bandwidth = BW_WB) :
    (s.mode ≠ MODE_SILK_ONLY → silkCurrBw s o = s.bandwidth) ∧
    (s.mode = MODE_SILK_ONLY → silkCurrBw s o = BW_NB ∨ silkCurrBw s o = BW_MB ∨ silkCurrBw s o = BW_WB) := by
  unfold silkCurrBw
  simp only [BW_NB, BW_MB, BW_WB, MODE_SILK_ONLY] at *
  constructor
  · intro h; rw [if_neg h]
  · intro h; have := hbw h; rw [if_pos h]; omega

/-- The SILK block either takes the DTX return (:2124) or continues with the same configuration. -/
theorem frSilk_spec (s : St) (fi : FrameIn) (o : FrameOr) (hp : FramePre s fi)
    (hk : silkOk (frPre s fi).st o = true) :
    (∃ r, frSilk fi (frPre s fi) o = .done r ∧ FramePost s fi r ∧ r.dtx = true) ∨
    (∃ x, frSilk fi (frPre s fi) o = .cont x ∧ Keeps s x.st ∧
        (s.mode ≠ MODE_SILK_ONLY → x.currBw = s.bandwidth) ∧
        (s.mode = MODE_SILK_ONLY → x.currBw = BW_NB ∨ x.currBw = BW_MB ∨ x.currBw = BW_WB)) := by
  have hkp := frPre_keeps s fi
  generalize frPre s fi = p at *
  have hm := hkp.mode
  have hb := hkp.bandwidth
  have hmode := hp.mode
  have hbw := hp.bw
  have hm1 := hp.mLo
  have hm2 := hp.mHi
  have hcb := silkCurrBw_spec p.st o (by rw [hm, hb]; exact hbw)
  rw [hm, hb] at hcb
  unfold silkOk at hk
  simp only [decide_eq_true_eq] at hk
  unfold frSilk
  split
  · right
    refine ⟨_, rfl, hkp, ?_, ?_⟩
    · intro _; exact hb
    · intro h; simp only [MODE_SILK_ONLY, MODE_CELT_ONLY] at *; omega
  · split
    · exfalso; omega
    · split
      · exfalso; omega
      · split
        · exfalso; omega
        · split
          · left
            refine ⟨_, rfl, ?_, rfl⟩
            unfold silkDtxRes
            refine ⟨rfl, by simp, by simp; omega, by simp, by simp, by simp, by simp, ?_, ?_⟩
            · exact ⟨_, by rw [hm, Keeps.fs hkp, Keeps.streamChannels hkp], hcb.1, hcb.2⟩
            · exact hkp.trans (Keeps.trans (silkSt2_keeps p o) rfl)
          · split
            · right; exact ⟨_, rfl, hkp.trans (Keeps.trans (silkSt2_keeps p o) rfl), hcb.1, hcb.2⟩
            · right; exact ⟨_, rfl, hkp.trans (silkSt2_keeps p o), hcb.1, hcb.2⟩

/-! ### frRedSig -/

/-- Redundancy signalling: either off with 0 bytes, or on (the reading B was taken) with a
    byte count between 2 and 257. -/
theorem frRedSig_spec (fi : FrameIn) (x : Mid) (o : FrameOr) :
    Keeps x.st (frRedSig fi x o).2.2 ∧
    (((frRedSig fi x o).1 = false ∧ (frRedSig fi x o).2.1 = 0) ∨
     ((frRedSig fi x o).1 = true ∧ readsB x.st.mode fi.maxDataBytes x.redundancy o = true ∧
      (frRedSig fi x o).2.1 = min 257 (max 2 (min
         (if x.st.mode = MODE_HYBRID then (fi.maxDataBytes - 1) - (o.tellB + 8 + 3 + 7) / 8
          else (fi.maxDataBytes - 1) - (o.tellB + 7) / 8) x.rb)))) := by
  unfold frRedSig
  dsimp only
  split
  · rename_i h; exact ⟨rfl, Or.inr ⟨rfl, h, rfl⟩⟩
  · exact ⟨rfl, Or.inl ⟨rfl, rfl⟩⟩

/-! ### frCode -/

/-- `max_redundancy` of :2233/:2236. -/
def maxRed (mode m : Int) (o : FrameOr) : Int :=
  if mode = MODE_HYBRID then (m - 1) - (o.tellB + 8 + 3 + 7) / 8 else (m - 1) - (o.tellB + 7) / 8

/-- The redundancy decision as `frRedSig` leaves it. -/
def RedOk (mode m : Int) (xred : Bool) (xrb : Int) (red : Bool) (rb : Int) (o : FrameOr) : Prop :=
  (red = false ∧ rb = 0) ∨
  (red = true ∧ readsB mode m xred o = true ∧ rb = min 257 (max 2 (min (maxRed mode m o) xrb)))

set_option maxHeartbeats 1000000 in
theorem frCode_ok (s : St) (fi : FrameIn) (xred : Bool) (xrb : Int) (red c2s : Bool) (rb : Int) (o : FrameOr)
    (hmode : s.mode = MODE_SILK_ONLY ∨ s.mode = MODE_HYBRID ∨ s.mode = MODE_CELT_ONLY)
    (hm1 : 3 ≤ fi.maxDataBytes) (hm2 : fi.maxDataBytes ≤ 1276)
    (hred : RedOk s.mode fi.maxDataBytes xred xrb red rb o)
    (ht : tellsOk s.mode fi.maxDataBytes xred o = true)
    (hc : coderOk s fi red c2s rb o = true) :
    ∃ c cs, frCode s fi red c2s rb o = (.ok c, cs) ∧
      (s.mode = MODE_SILK_ONLY → c.ret = (o.tellC + 7) / 8) ∧
      (s.mode ≠ MODE_SILK_ONLY → 0 ≤ c.ret ∧ c.ret + 1 + rb ≤ fi.maxDataBytes) := by
  unfold RedOk maxRed at hred
  unfold tellsOk at ht
  unfold coderOk at hc
  unfold frCode
  simp only [MODE_SILK_ONLY, MODE_HYBRID, MODE_CELT_ONLY] at hmode
  rcases hmode with hmd | hmd | hmd
  · -- SILK-only
    simp only [hmd, readsB, redGate, runMain, nbCompr0, Bool.and_eq_true, Bool.or_eq_true, decide_eq_true_eq,
      Bool.not_eq_true', MODE_SILK_ONLY, MODE_HYBRID, MODE_CELT_ONLY] at *
    simp at *
    cases red <;> cases c2s <;> simp at hred hc ⊢
    · rw [if_neg (by omega)]; exact ⟨_, ⟨_, rfl⟩, rfl⟩
    · rw [if_neg (by omega)]; exact ⟨_, ⟨_, rfl⟩, rfl⟩
  · simp only [hmd, readsB, redGate, runMain, nbCompr0, Bool.and_eq_true, Bool.or_eq_true, decide_eq_true_eq,
      Bool.not_eq_true', MODE_SILK_ONLY, MODE_HYBRID, MODE_CELT_ONLY] at *
    simp at *
    cases red <;> cases c2s <;> simp at hred hc ⊢
    · subst hred
      rw [if_neg (by omega), if_neg (by omega)]
      exact ⟨_, ⟨_, rfl⟩, by dsimp only; split <;> omega, by dsimp only; split <;> omega⟩
    · subst hred
      rw [if_neg (by omega), if_neg (by omega)]
      exact ⟨_, ⟨_, rfl⟩, by dsimp only; split <;> omega, by dsimp only; split <;> omega⟩
    · obtain ⟨⟨hg, hx⟩, hrb⟩ := hred
      subst hx
      simp [hg] at ht
      have hk : 2 ≤ fi.maxDataBytes - 1 - rb ∧ o.tellD ≤ 8 * (fi.maxDataBytes - 1 - rb) := by omega
      rw [if_neg (by omega), if_neg (by omega), if_pos hk.2, if_neg (by omega), if_neg (by omega)]
      exact ⟨_, ⟨_, rfl⟩, by dsimp only; omega, by dsimp only; omega⟩
    · obtain ⟨⟨hg, hx⟩, hrb⟩ := hred
      subst hx
      simp [hg] at ht
      have hk : 2 ≤ fi.maxDataBytes - 1 - rb ∧ o.tellD ≤ 8 * (fi.maxDataBytes - 1 - rb) := by omega
      rw [if_neg (by omega), if_neg (by omega), if_neg (by omega)]
      exact ⟨_, ⟨_, rfl⟩, by dsimp only; rw [if_pos hk.2]; omega, by dsimp only; rw [if_pos hk.2]; omega⟩
  · simp only [hmd, readsB, redGate, runMain, nbCompr0, Bool.and_eq_true, Bool.or_eq_true, decide_eq_true_eq,
      Bool.not_eq_true', MODE_SILK_ONLY, MODE_HYBRID, MODE_CELT_ONLY] at *
    simp at *
    obtain ⟨rfl, rfl⟩ := hred
    simp at hc ⊢
    rw [if_neg (by omega), if_neg (by omega)]
    exact ⟨_, ⟨_, rfl⟩, by dsimp only; split <;> omega, by dsimp only; split <;> omega⟩

/-! ### frFinish -/

theorem finishRet_bounds (s : St) (fi : FrameIn) (xred : Bool) (xrb : Int) (red : Bool) (rb ret : Int) (o : FrameOr)
    (hmode : s.mode = MODE_SILK_ONLY ∨ s.mode = MODE_HYBRID ∨ s.mode = MODE_CELT_ONLY)
    (hm1 : 3 ≤ fi.maxDataBytes) (hm2 : fi.maxDataBytes ≤ 1276)
    (hred : RedOk s.mode fi.maxDataBytes xred xrb red rb o)
    (ht : tellsOk s.mode fi.maxDataBytes xred o = true)
    (hf : s.mode = MODE_SILK_ONLY → o.tellE = o.tellC)
    (hr1 : s.mode = MODE_SILK_ONLY → ret = (o.tellC + 7) / 8)
    (hr2 : s.mode ≠ MODE_SILK_ONLY → 0 ≤ ret ∧ ret + 1 + rb ≤ fi.maxDataBytes) :
    1 ≤ finishRet s fi red rb ret o ∧ finishRet s fi red rb ret o ≤ fi.maxDataBytes := by
  unfold RedOk maxRed at hred
  unfold tellsOk at ht
  unfold finishRet
  simp only [MODE_SILK_ONLY, MODE_HYBRID, MODE_CELT_ONLY] at hmode
  rcases hmode with hmd | hmd | hmd
  · simp only [hmd, readsB, redGate, Bool.and_eq_true, Bool.or_eq_true, decide_eq_true_eq,
      Bool.not_eq_true', MODE_SILK_ONLY, MODE_HYBRID, MODE_CELT_ONLY] at *
    simp at *
    cases red <;> simp at hred ⊢
    · obtain rfl := hred
      cases xred <;> simp at ht <;> (repeat' split) <;> first | omega | (split at ht <;> omega)
    · obtain ⟨⟨hg, hx⟩, hrb⟩ := hred
      subst hx
      simp [hg] at ht
      (repeat' split) <;> omega
  · simp only [hmd, readsB, redGate, Bool.and_eq_true, Bool.or_eq_true, decide_eq_true_eq,
      Bool.not_eq_true', MODE_SILK_ONLY, MODE_HYBRID, MODE_CELT_ONLY] at *
    simp at *
    cases red <;> simp at hred ⊢
    · obtain rfl := hred
      cases xred <;> simp at ht <;> (repeat' split) <;> first | omega | (split at ht <;> omega)
    · obtain ⟨⟨hg, hx⟩, hrb⟩ := hred
      subst hx
      simp [hg] at ht
      (repeat' split) <;> omega
  · simp only [hmd, readsB, redGate, Bool.and_eq_true, Bool.or_eq_true, decide_eq_true_eq,
      Bool.not_eq_true', MODE_SILK_ONLY, MODE_HYBRID, MODE_CELT_ONLY] at *
    simp at *
    obtain ⟨rfl, rfl⟩ := hred
    (repeat' split) <;> omega

theorem finishSt_keeps (s : St) (fi : FrameIn) (o : FrameOr) : Keeps s (finishSt s fi o) := rfl

theorem frFinish_post (s0 s : St) (fi : FrameIn) (xred : Bool) (xrb : Int) (red : Bool) (rb currBw ret : Int)
    (o : FrameOr) (calls : List Call) (hp : FramePre s0 fi) (hk : Keeps s0 s)
    (hb1 : s0.mode ≠ MODE_SILK_ONLY → currBw = s0.bandwidth)
    (hb2 : s0.mode = MODE_SILK_ONLY → currBw = BW_NB ∨ currBw = BW_MB ∨ currBw = BW_WB)
    (hred : RedOk s.mode fi.maxDataBytes xred xrb red rb o)
    (ht : tellsOk s.mode fi.maxDataBytes xred o = true)
    (hf : finishOk s fi o = true)
    (hr1 : s.mode = MODE_SILK_ONLY → ret = (o.tellC + 7) / 8)
    (hr2 : s.mode ≠ MODE_SILK_ONLY → 0 ≤ ret ∧ ret + 1 + rb ≤ fi.maxDataBytes) :
    FramePost s0 fi (frFinish s fi red rb currBw ret o calls) := by
  have hm := hk.mode
  have hmode : s.mode = MODE_SILK_ONLY ∨ s.mode = MODE_HYBRID ∨ s.mode = MODE_CELT_ONLY := by rw [hm]; exact hp.mode
  have hm1 := hp.mLo
  have hm2 := hp.mHi
  have htoc : ∃ bw, genToc s.mode (s.fs / fi.frameSize) currBw s.streamChannels =
        genToc s0.mode (s0.fs / fi.frameSize) bw s0.streamChannels ∧
        (s0.mode ≠ MODE_SILK_ONLY → bw = s0.bandwidth) ∧
        (s0.mode = MODE_SILK_ONLY → bw = BW_NB ∨ bw = BW_MB ∨ bw = BW_WB) :=
    ⟨currBw, by rw [hm, hk.fs, hk.streamChannels], hb1, hb2⟩
  have hkeep : Keeps s0 (finishSt s fi o) := hk.trans (finishSt_keeps s fi o)
  unfold frFinish
  dsimp only
  split
  · -- DTX return
    exact ⟨rfl, by simp, by simp; omega, by simp, by simp, by simp, by simp, htoc, hkeep⟩
  · rename_i hd
    have hd0 : (dtxDecision s fi o).1 = 0 := by simpa using hd
    have hfe : s.mode = MODE_SILK_ONLY → o.tellE = o.tellC := by
      intro h
      unfold finishOk at hf
      simp only [decide_eq_true_eq] at hf
      rcases hf h with h' | h'
      · exact absurd hd0 h'
      · exact h'
    have hR := finishRet_bounds s fi xred xrb red rb ret o hmode hm1 hm2 hred ht hfe hr1 hr2
    generalize finishRet s fi red rb ret o = R at *
    rw [if_neg (by omega)]
    have hvbr := hk.useVbr
    split
    · rename_i hv
      have hpad := padSpec_code0 (genToc s.mode (s.fs / fi.frameSize) currBw s.streamChannels) (R - 1).toNat
        fi.maxDataBytes (by omega) (by omega)
      have hRR : (((R - 1).toNat : Nat) : Int) + 1 = R := by omega
      rw [hRR] at hpad
      rw [if_neg (by rw [hpad.1]; simp)]
      refine ⟨rfl, by dsimp only; omega, by dsimp only; omega, by dsimp only; omega, by simp, ?_, ?_, htoc, hkeep⟩
      · intro _ _
        refine ⟨rfl, ?_, by dsimp only; omega⟩
        dsimp only
        unfold cbrHdr
        rw [show R - 1 + 1 = R by omega]
        rfl
      · intro h; rw [hvbr] at hv; exact absurd hv h
    · rename_i hv
      refine ⟨rfl, by dsimp only; omega, by dsimp only; omega, by dsimp only; omega, by simp, ?_, ?_, htoc, hkeep⟩
      · intro h; rw [hvbr] at hv; exact absurd h hv
      · intro _ _; exact ⟨by dsimp only; omega, rfl⟩

/-! ### The frame theorem -/

/-- **Frame theorem.**  For every oracle behaviour within the contracts, a frame call with a
    budget of 3..1276 bytes and a consistent mode/bandwidth pair returns a packet of
    `1 ≤ ret ≤ max_data_bytes` bytes (exactly `max_data_bytes` in CBR unless the DTX return is
    taken), fires no assertion and takes none of the error returns. -/
theorem frameNative_post (s : St) (fi : FrameIn) (o : FrameOr) (hp : FramePre s fi)
    (hok : frameOk s fi o = true) : FramePost s fi (frameNative s fi o) := by
  unfold frameOk at hok
  simp only [Bool.and_eq_true] at hok
  obtain ⟨hsilk, hrest⟩ := hok
  unfold frameNative
  dsimp only
  rcases frSilk_spec s fi o hp hsilk with ⟨r, hr, hpost, _⟩ | ⟨x, hx, hkx, hb1, hb2⟩
  · rw [hr]; exact hpost
  · rw [hx] at hrest ⊢
    simp only [Bool.and_eq_true] at hrest
    obtain ⟨ht, hc, hf⟩ := hrest
    have hpm : (frPre s fi).st.mode = x.st.mode := by rw [(frPre_keeps s fi).mode, hkx.mode]
    rw [hpm] at ht
    obtain ⟨hk2, hred⟩ := frRedSig_spec fi x o
    rcases hrs : frRedSig fi x o with ⟨red, rb, s'⟩
    simp only [hrs] at hc hf hk2 hred ⊢
    have hm' : s'.mode = x.st.mode := hk2.mode
    have hredok : RedOk s'.mode fi.maxDataBytes x.redundancy x.rb red rb o := by
      unfold RedOk maxRed; rw [hm']; exact hred
    have hks : Keeps s s' := hkx.trans hk2
    have hmode : s'.mode = MODE_SILK_ONLY ∨ s'.mode = MODE_HYBRID ∨ s'.mode = MODE_CELT_ONLY := by
      rw [hks.mode]; exact hp.mode
    rw [← hm'] at ht
    obtain ⟨c, cs, hcode, hr1, hr2⟩ := frCode_ok s' fi x.redundancy x.rb red x.celtToSilk rb o hmode hp.mLo hp.mHi
      hredok ht hc
    rw [hcode]
    exact frFinish_post s s' fi x.redundancy x.rb red rb x.currBw c.ret o _ hp hks hb1 hb2 hredok ht hf hr1 hr2

end Opus.EncSkel.Proofs
