import OpusProofs.SilkCoreParams
import OpusProofs.SilkParamsRangeBridge
/-
  OpusProofs.SilkCoreBridge — the index ranges proved for the symbol layer (C03 stage 1: `IndicesOk`, the conclusion of
  `OpusProps.C03.silkSyms_decode_indices_in_range`) imply the hypothesis `FrameOk` of the synthesis theorems.
-/
namespace Opus.SilkCoreProofs
open Opus Opus.SilkParams Opus.SilkCore Opus.Gen Opus.Frozen

/-- The decoded side information of the symbol layer, as the input record of the synthesis model
    (`psDec->indices` after `silk_decode_indices`, `pulses[]` after `silk_decode_pulses`). -/
def frameOfIndices (condCoding : Int) (ix : Opus.SilkSyms.Indices) (pulses : List Int) : FrameIn :=
  { condCoding := condCoding, gainsIdx := ix.gains.map (fun (g : Nat) => (g : Int)),
    nlsfIdx := (ix.nlsf0 : Int) :: ix.nlsfRes, interp := (ix.interp : Int), signalType := (ix.signalType : Int),
    quantOffsetType := (ix.quantOffsetType : Int), lagIndex := ix.lagIndex, contourIndex := (ix.contourIndex : Int),
    perIndex := (ix.perIndex : Int), ltpIdx := ix.ltp.map (fun (l : Nat) => (l : Int)), ltpScaleIndex := (ix.ltpScale : Int),
    seed := (ix.seed : Int), pulses := pulses }

theorem cbOf_rate (rate : Opus.SilkSyms.Rate) : cbOf rate.kHz = cbOfRate rate ∧ lpcOrder rate.kHz = (cbOfRate rate).order := by
  cases rate <;> exact ⟨rfl, rfl⟩

theorem frameOk_of_indicesOk {rate : Opus.SilkSyms.Rate} {nb cc ps : Nat} {pl : Int} {ix : Opus.SilkSyms.Indices}
    (h : Opus.SilkSymsProofs.IndicesOk rate nb cc ps pl ix) (hnb : nb = 2 ∨ nb = 4) (condCoding : Int) (pulses : List Int)
    (hp : frameLen rate.kHz nb ≤ pulses.length) : FrameOk rate.kHz nb (frameOfIndices condCoding ix pulses) := by
  obtain ⟨hn0, hnl, _, _, hint⟩ := indicesOk_domain h
  obtain ⟨hcb, hord⟩ := cbOf_rate rate
  have hsig := h.sig
  have hq := h.qoff
  have hper := h.per
  refine { sig := ?_, qoff := ?_, gains := ?_, nlsf := ?_, interp := ?_, contour := ?_, per := ?_, ltp := ?_, scale := ?_,
           pulses := hp }
  · dsimp only [frameOfIndices]; omega
  · dsimp only [frameOfIndices]; omega
  · show nb ≤ (ix.gains.map _).length; rw [List.length_map, h.gainsLen]
  · refine ⟨ix.nlsf0, ix.nlsfRes, ?_, by rw [hcb]; exact hn0, by rw [hord]; exact hnl⟩
    show ((ix.nlsf0 : Int) :: ix.nlsfRes).take (lpcOrder rate.kHz + 1) = _
    rw [List.take_of_length_le (by simp only [List.length_cons]; rw [hnl, hord])]
  · dsimp only [frameOfIndices]; omega
  · intro hv
    have hv' : ix.signalType = 2 := by
      have : ((ix.signalType : Nat) : Int) = 2 := hv
      omega
    have hc := h.contour hv'
    have hco := contour_domain rate nb hnb
    refine ⟨by show 0 ≤ ((ix.contourIndex : Nat) : Int); omega, ?_⟩
    intro cb hcbk
    unfold contourOk at hco
    rw [hcbk] at hco
    have : (Opus.SilkSyms.pitchContour rate nb).length = cb.2 := by
      simpa using hco
    show ((ix.contourIndex : Nat) : Int) < _
    omega
  · intro _
    dsimp only [frameOfIndices]; omega
  · intro hv
    have hv' : ix.signalType = 2 := by
      have : ((ix.signalType : Nat) : Int) = 2 := hv
      omega
    refine ⟨by show nb ≤ (ix.ltp.map _).length; rw [List.length_map, h.ltpLen hv'], ?_⟩
    intro i hi
    have hi' := List.mem_of_mem_take hi
    obtain ⟨l, hl, rfl⟩ := List.mem_map.mp hi'
    have hlt := h.ltp l hl
    show 0 ≤ (l : Int) ∧ (l : Int) < ((SilkCoreTabs.ltpVqSizes.getD ((ix.perIndex : Nat) : Int).toNat 0 : Nat) : Int)
    rw [Int.toNat_natCast]
    have hp3 : ix.perIndex = 0 ∨ ix.perIndex = 1 ∨ ix.perIndex = 2 := by omega
    rcases hp3 with h0 | h0 | h0 <;> rw [h0] at hlt ⊢ <;> simp [SilkCoreTabs.ltpVqSizes] at hlt ⊢ <;> omega
  · intro _
    have := h.ltpScale
    dsimp only [frameOfIndices]; omega

end Opus.SilkCoreProofs
