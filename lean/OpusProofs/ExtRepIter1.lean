import OpusProofs.ExtRepSpec
/-
  C16 helper lemmas, part 12: single steps of the iterator on bytes written with the repeat mechanism:
  payload-level skip lemmas, the "steps" calculus over `iterAll`, one plain extension, the repeat
  indicator, one repeated extension, the switch to the next repeated frame, the end of a repeat block.
-/
set_option linter.unusedVariables false
namespace Opus.ExtProofs
open Opus Opus.Ext

/-! ### `skip_extension_payload` on structured bytes -/

theorem skipPayload_short_at (d : Array Nat) (p : Nat) (L : Int) (b : Nat) (tsl : Int)
    (hid : 0 < b / 2 ∧ b / 2 < 32) (hne : b / 2 ≠ 2) (hL : ((b % 2 : Nat) : Int) ≤ L) :
    skipPayload d p L b tsl = .ok (some (p + b % 2, L - ((b % 2 : Nat) : Int), 0)) := by
  unfold skipPayload
  have c1 : ¬ ((b / 2 = 0 ∧ b % 2 = 1) ∨ b / 2 = 2) := by omega
  have c3 : ¬ (L < ((b % 2 : Nat) : Int)) := by omega
  simp only [c1, if_false, hid, and_self, if_true, c3]

theorem skipPayload_long_at (d : Array Nat) (p : Nat) (L : Int) (b n : Nat) (tsl : Int)
    (hid : 32 ≤ b / 2) (hl : b % 2 = 1) (hat : At d p (lenBytes n)) (hL : ((n / 255 + 1 : Nat) : Int) + n ≤ L) :
    skipPayload d p L b tsl = .ok (some (p + (n / 255 + 1) + n, L - (((n / 255 + 1 : Nat) : Int) + n), n / 255 + 1)) := by
  unfold skipPayload
  have c1 : ¬ ((b / 2 = 0 ∧ b % 2 = 1) ∨ b / 2 = 2) := by omega
  have c2 : ¬ (0 < b / 2 ∧ b / 2 < 32) := by omega
  have c3 : ¬ (b % 2 = 0) := by omega
  simp only [c1, c2, c3, if_false]
  have hmod : n % 255 < 255 := Nat.mod_lt _ (by omega)
  have hdiv : 255 * (n / 255) + n % 255 = n := Nat.div_add_mod n 255
  rw [lacing_run d (n / 255) (n % 255) hmod p L 0 0 hat (by omega)]
  simp only
  have c4 : ¬ (L - 256 * ((n / 255 : Nat) : Int) - (((n % 255 : Nat) : Int) + 1) < 0) := by omega
  simp only [c4, if_false, Res.ok.injEq, Option.some.injEq, Prod.mk.injEq]
  refine ⟨by omega, by omega, by omega⟩

/-- A long extension decoded with `L = 0`: everything up to the last `tsl` bytes. -/
theorem skipPayload_forced (d : Array Nat) (p : Nat) (L : Int) (b : Nat) (tsl : Int)
    (hid : 32 ≤ b / 2) (hl : b % 2 = 0) (hL : tsl ≤ L) :
    skipPayload d p L b tsl = .ok (some (p + (L - tsl).toNat, tsl, 0)) := by
  unfold skipPayload
  have c1 : ¬ ((b / 2 = 0 ∧ b % 2 = 1) ∨ b / 2 = 2) := by omega
  have c2 : ¬ (0 < b / 2 ∧ b / 2 < 32) := by omega
  have c3 : ¬ (L < tsl) := by omega
  rw [if_neg c1, if_neg c2, if_pos hl, if_neg c3]

/-! ### Steps: what a run of `next` calls contributes to `iterAll` -/

/-- The bytes `bs` at offset `off` are what `toExt` cuts out for a reference of that length. -/
theorem at_slice {d : Array Nat} {off : Nat} {bs : List Nat} (h : At d off bs) :
    (d.toList.drop off).take bs.length = bs := by
  apply List.ext_getElem?
  intro i
  by_cases hi : i < bs.length
  · rw [List.getElem?_take_of_lt hi, List.getElem?_drop]
    have := h i hi
    simpa using this
  · rw [List.getElem?_eq_none (by simp only [List.length_take]; omega), List.getElem?_eq_none (by omega)]

/-- From `it`, iteration first reports references that decode to `es` (IDs, frames, lengths, payload
    bytes), then continues as from `it'`. -/
def Steps (d : Array Nat) (it it' : Iter) (es : List Ext) : Prop :=
  ∀ l s, iterAll it' = .ok (l, s) →
    ∃ rs, iterAll it = .ok (rs ++ l, s) ∧ rs.map (ExtRef.toExt d.toList) = es

theorem Steps.refl (d : Array Nat) (it : Iter) : Steps d it it [] :=
  fun l s h => ⟨[], by simpa using h, rfl⟩

theorem Steps.trans {d : Array Nat} {a b c : Iter} {e1 e2 : List Ext} (h1 : Steps d a b e1) (h2 : Steps d b c e2) :
    Steps d a c (e1 ++ e2) := by
  intro l s hc
  obtain ⟨r2, hb, hr2⟩ := h2 l s hc
  obtain ⟨r1, ha, hr1⟩ := h1 _ s hb
  exact ⟨r1 ++ r2, by rw [ha, List.append_assoc], by rw [List.map_append, hr1, hr2]⟩

theorem Steps.of_next_eq {d : Array Nat} {it it' : Iter} (h : next it = next it') : Steps d it it' [] := by
  intro l s hc
  refine ⟨[], ?_, rfl⟩
  rw [iterAll_eq, h, ← iterAll_eq]; simpa using hc

theorem Steps.of_next {d : Array Nat} {it it' : Iter} {r : ExtRef} {e : Ext} (h : next it = .ok (it', .ext r))
    (he : r.toExt d.toList = e) : Steps d it it' [e] := by
  intro l s hc
  refine ⟨[r], ?_, by simp [he]⟩
  rw [iterAll_eq, h]; simp only; rw [hc]; rfl

/-- A reference decodes to the normalised extension when its payload bytes sit at its offset. -/
theorem toExt_eq {nbF : Nat} {d : Array Nat} {x : Ext} {off : Nat} (hv : ValidExt nbF x) (g : Nat) (hg : x.frame.toNat = g)
    (hat : At d off (payload x)) :
    ExtRef.toExt d.toList { id := x.id.toNat, frame := g, off := off, len := x.len } = normExt x := by
  have h1 := hv.id_lo; have h2 := hv.fr_lo; have hpl := payload_length hv; have h3 := hv.len_lo
  simp only [ExtRef.toExt, normExt]
  have hid : ((x.id.toNat : Nat) : Int) = x.id := by omega
  have hfr : ((g : Nat) : Int) = x.frame := by omega
  rw [hid, hfr]
  congr 1
  have := at_slice hat
  have hl : (payload x).length = x.len.toNat := by omega
  rw [hl] at this
  exact this

/-! ### One plain extension (possibly preceded by its separator), with the repeat-region bookkeeping -/

/-- `repeat_data`, `last_long`, `trailing_short_len` of the iterator. -/
def Reg (it : Iter) (p0 : Nat) (ll : Option Nat) (T : Int) : Prop :=
  it.repeatData = p0 ∧ it.lastLong = ll ∧ it.tsl = T

/-- The payload bytes of an extension written by `extBytes` sit right after its header. -/
theorem at_payload {nbF : Nat} {d : Array Nat} {p : Nat} {e : Ext} {flag : Bool} {rest : List Nat} (hv : ValidExt nbF e)
    (hat : At d p (extBytes e flag ++ rest)) : At d (p + 1 + hdrLen e flag) (payload e) := by
  unfold extBytes at hat
  have h1 := (hat.append).1
  have h2 := (At.head h1).2
  have h3 := (h2.append).2
  rw [hdr_length] at h3
  exact h3

theorem plain_step {d : Array Nat} {nbF p cur : Nat} {it : Iter} {e : Ext} {flag : Bool} {rest : List Nat}
    {p0 : Nat} {ll : Option Nat} {T : Int}
    (hs : St d nbF p cur it) (hr : Reg it p0 ll T) (hv : ValidExt nbF e) (hcur : cur ≤ e.frame.toNat)
    (hat : At d p (sepBytes e.frame.toNat cur ++ extBytes e flag ++ rest))
    (hend : p + (sepBytes e.frame.toNat cur ++ extBytes e flag ++ rest).length = d.size)
    (hflag : flag = true → rest = []) :
    ∃ it', Steps d it it' [normExt e] ∧
      St d nbF (p + (sepBytes e.frame.toNat cur).length + (extBytes e flag).length) e.frame.toNat it' ∧
      Reg it' (if e.frame.toNat = cur then p0 else p + (sepBytes e.frame.toNat cur).length)
        (if e.id < 32 then (if e.frame.toNat = cur then ll else none)
         else some (p + (sepBytes e.frame.toNat cur).length + (extBytes e flag).length))
        (if e.id < 32 then (if e.frame.toNat = cur then T else 0) + e.len else 0) := by
  have hf : e.frame.toNat < nbF := by have := hv.fr_hi; have := hv.fr_lo; omega
  have hel := extBytes_length hv flag
  simp only [List.length_append] at hend
  have hcl : 0 < it.currLen := by rw [hs.cl]; omega
  have hnext : ∀ itx, St d nbF p cur itx → next itx = mainLoop itx := by
    intro itx hx
    unfold next
    have a1 : ¬ itx.currLen < 0 := by rw [hx.cl]; omega
    have a2 : ¬ 0 < itx.repeatFrame := by rw [hx.rf]; omega
    have a3 : ¬ itx.frameMax ≤ (itx.currFrame : Int) := by rw [hx.fm, hx.cf]; omega
    simp only [a1, a2, a3, if_false]
  by_cases hsame : e.frame.toNat = cur
  · have hsep : sepBytes e.frame.toNat cur = [] := by simp [sepBytes, hsame]
    rw [hsep] at hat hend ⊢
    simp only [List.nil_append, List.length_nil, Nat.add_zero, Nat.zero_add] at hat hend ⊢
    simp only [if_pos hsame]
    obtain ⟨it2, h1, h2, h3, h4⟩ := mainBody_ext (hsame ▸ hs) hv rfl hat (by omega) hflag
    refine ⟨it2, ?_, h2, ?_⟩
    · apply Steps.of_next (r := ⟨e.id.toNat, e.frame.toNat, p + 1 + hdrLen e flag, e.len⟩)
      · rw [hnext it hs, mainLoop_eq]; simp only [hcl, if_true, h1]
      · exact toExt_eq hv _ rfl (at_payload hv hat)
    · unfold Reg at hr ⊢
      obtain ⟨r1, r2, r3⟩ := hr
      by_cases h32 : e.id < 32
      · simp only [h32, if_true] at h4 ⊢
        exact ⟨by rw [h3, r1], by rw [h4.1, r2], by rw [h4.2, r3]⟩
      · simp only [h32, if_false] at h4 ⊢
        exact ⟨by rw [h3, r1], h4.1, h4.2⟩
  · have hlt : cur < e.frame.toNat := by omega
    simp only [List.append_assoc] at hat
    obtain ⟨it1, h1, h2, q1, q2, q3⟩ := mainBody_sep hs hlt hf hat (by simp [extBytes])
    have hcl1 : 0 < it1.currLen := by rw [h2.cl]; omega
    obtain ⟨_, hat'⟩ := hat.append
    obtain ⟨it2, g1, g2, g3, g4⟩ := mainBody_ext h2 hv rfl hat' (by omega) hflag
    simp only [hsame, if_false]
    refine ⟨it2, ?_, g2, ?_⟩
    · apply Steps.of_next (r := ⟨e.id.toNat, e.frame.toNat, p + (sepBytes e.frame.toNat cur).length + 1 + hdrLen e flag, e.len⟩)
      · rw [hnext it hs, mainLoop_eq]; simp only [hcl, if_true, h1]
        rw [mainLoop_eq]; simp only [hcl1, if_true, g1]
      · exact toExt_eq hv _ rfl (at_payload hv hat')
    · unfold Reg
      by_cases h32 : e.id < 32
      · simp only [h32, if_true] at g4 ⊢
        exact ⟨by rw [g3, q1], by rw [g4.1, q2], by rw [g4.2, q3]⟩
      · simp only [h32, if_false] at g4 ⊢
        exact ⟨by rw [g3, q1], g4.1, g4.2⟩

end Opus.ExtProofs
