import OpusModel.EncSkel
/-
  OpusProofs.EncSkelRepack — facts about the repacketiser contract functions of
  OpusModel/EncSkel/Repack.lean (`outRange`, `outCode3`, `padSpec`, `catSpec`) that the size
  theorems of C05/C02 use: with `pad` set the output has exactly `maxlen` bytes whenever the
  unpadded packet fits; `opus_packet_pad` cannot fail on a packet the encoder produced.
-/
namespace Opus.EncSkel.Proofs
open Opus Opus.Framing Opus.EncSkel

/-- Unpadded code-3 size of a frame list. -/
def code3Size (lens : List Nat) : Nat :=
  if !(allEq (lens.headD 0) lens) then 2 + vbrBody lens else lens.length * lens.headD 0 + 2

theorem outCode3_pad (cfg : Nat) (lens : List Nat) (maxlen : Nat) (h : code3Size lens ≤ maxlen) :
    ∃ r, outCode3 cfg lens maxlen true = .ok r ∧ r.size = maxlen := by
  unfold outCode3 code3Size at *
  dsimp only at *
  generalize (if (!allEq (lens.headD 0) lens) = true then 2 + vbrBody lens else lens.length * lens.headD 0 + 2) = tot at *
  rw [if_neg (by omega)]
  simp only [if_true]
  split
  · rw [if_neg (by omega)]
    exact ⟨_, rfl, by dsimp only; omega⟩
  · exact ⟨_, rfl, by dsimp only; omega⟩

theorem outCode3_nopad (cfg : Nat) (lens : List Nat) (maxlen : Nat) (h : code3Size lens ≤ maxlen) :
    ∃ r, outCode3 cfg lens maxlen false = .ok r ∧ r.size = code3Size lens := by
  unfold outCode3 code3Size at *
  dsimp only at *
  generalize (if (!allEq (lens.headD 0) lens) = true then 2 + vbrBody lens else lens.length * lens.headD 0 + 2) = tot at *
  rw [if_neg (by omega)]
  simp

theorem outCode3_err (cfg : Nat) (lens : List Nat) (maxlen : Nat) (pad : Bool) (h : maxlen < code3Size lens) :
    outCode3 cfg lens maxlen pad = .err .bufferTooSmall := by
  unfold outCode3 code3Size at *
  dsimp only at *
  generalize (if (!allEq (lens.headD 0) lens) = true then 2 + vbrBody lens else lens.length * lens.headD 0 + 2) = tot at *
  rw [if_pos (by omega)]

/-- Size of the packet `out_range_impl` writes without padding (codes 0, 1, 2, 3). -/
def baseSize : List Nat → Nat
  | [] => 0
  | [l0] => l0 + 1
  | [l0, l1] => if l1 = l0 then 2 * l0 + 1 else l0 + l1 + 2 + (if l0 ≥ 252 then 1 else 0)
  | lens => code3Size lens


theorem outRange_pad (cfg : Nat) (lens : List Nat) (maxlen : Nat) (hne : lens ≠ [])
    (h : baseSize lens ≤ maxlen) : ∃ r, outRange cfg lens maxlen true = .ok r ∧ r.size = maxlen := by
  match lens, hne, h with
  | [l0], _, h =>
    simp only [baseSize] at h
    rw [outRange]
    rw [if_neg (by omega)]
    by_cases hlt : l0 + 1 < maxlen
    · rw [if_pos ⟨rfl, hlt⟩]
      exact outCode3_pad cfg [l0] maxlen (by simp [code3Size, allEq]; omega)
    · rw [if_neg (by intro hh; exact hlt hh.2)]
      exact ⟨_, rfl, by dsimp only; omega⟩
  | [l0, l1], _, h =>
    simp only [baseSize] at h
    rw [outRange]
    by_cases he : l1 = l0
    · rw [if_pos he] at h ⊢
      rw [if_neg (by omega)]
      by_cases hlt : 2 * l0 + 1 < maxlen
      · rw [if_pos ⟨rfl, hlt⟩]
        exact outCode3_pad cfg [l0, l1] maxlen (by subst he; simp [code3Size, allEq]; omega)
      · rw [if_neg (by intro hh; exact hlt hh.2)]
        exact ⟨_, rfl, by dsimp only; omega⟩
    · rw [if_neg he] at h ⊢
      dsimp only
      rw [if_neg (by omega)]
      by_cases hlt : l0 + l1 + 2 + (if l0 ≥ 252 then 1 else 0) < maxlen
      · rw [if_pos ⟨rfl, hlt⟩]
        refine outCode3_pad cfg [l0, l1] maxlen ?_
        have : (l1 == l0) = false := by simp [he]
        simp [code3Size, allEq, this, vbrBody, sizeLen]
        split <;> split at hlt <;> omega
      · rw [if_neg (by intro hh; exact hlt hh.2)]
        exact ⟨_, rfl, by dsimp only; omega⟩
  | a :: b :: c :: rest, _, h =>
    simp only [baseSize] at h
    rw [outRange]
    · exact outCode3_pad cfg _ maxlen h
    all_goals simp

theorem outRange_nopad (cfg : Nat) (lens : List Nat) (maxlen : Nat) (hne : lens ≠ [])
    (h : baseSize lens ≤ maxlen) : ∃ r, outRange cfg lens maxlen false = .ok r ∧ r.size = baseSize lens := by
  match lens, hne, h with
  | [l0], _, h =>
    simp only [baseSize] at h
    rw [outRange]
    rw [if_neg (by omega), if_neg (by simp)]
    exact ⟨_, rfl, rfl⟩
  | [l0, l1], _, h =>
    simp only [baseSize] at h
    rw [outRange]
    by_cases he : l1 = l0
    · rw [if_pos he] at h ⊢
      rw [if_neg (by omega), if_neg (by simp)]
      exact ⟨_, rfl, by simp [baseSize, he]⟩
    · rw [if_neg he] at h ⊢
      dsimp only
      rw [if_neg (by omega), if_neg (by simp)]
      exact ⟨_, rfl, by simp [baseSize, he]⟩
  | a :: b :: c :: rest, _, h =>
    simp only [baseSize] at h
    rw [outRange]
    · exact outCode3_nopad cfg _ maxlen h
    all_goals simp

/-- `max_header_bytes` of opus_encoder.c:1658. -/
def hdrMax (n : Nat) : Nat := if n = 2 then 3 else 2 + (n - 1) * 2

theorem vbrBody_le (lens : List Nat) (hne : lens ≠ []) : vbrBody lens + 2 ≤ sumN lens + 2 * lens.length := by
  induction lens with
  | nil => exact absurd rfl hne
  | cons x xs ih =>
    cases xs with
    | nil => simp [vbrBody]
    | cons y ys =>
      have := ih (by simp)
      simp only [vbrBody, sumN_cons, List.length_cons, sizeLen] at *
      split <;> omega

theorem allEq_sum (l0 : Nat) (lens : List Nat) (h : allEq l0 lens = true) : sumN lens = lens.length * l0 := by
  induction lens with
  | nil => simp
  | cons x xs ih =>
    simp only [allEq, Bool.and_eq_true, beq_iff_eq] at h
    simp only [sumN_cons, List.length_cons, ih h.2, h.1]
    rw [Nat.add_mul]; omega

theorem code3Size_le (lens : List Nat) (hne : lens ≠ []) : code3Size lens ≤ sumN lens + 2 * lens.length := by
  unfold code3Size
  split
  · have := vbrBody_le lens hne; omega
  · rename_i h
    have h' : allEq (lens.headD 0) lens = true := by simpa using h
    rw [allEq_sum _ _ h']
    cases lens with
    | nil => exact absurd rfl hne
    | cons x xs => simp only [List.length_cons]; omega

theorem baseSize_le (lens : List Nat) (hne : lens ≠ []) : baseSize lens ≤ sumN lens + hdrMax lens.length := by
  match lens, hne with
  | [l0], _ => simp [baseSize, hdrMax]
  | [l0, l1], _ =>
    simp only [baseSize, hdrMax, sumN_cons, sumN_nil, List.length_cons, List.length_nil]
    split
    · simp; omega
    · simp; split <;> omega
  | a :: b :: c :: rest, _ =>
    have := code3Size_le (a :: b :: c :: rest) (by simp)
    simp only [baseSize, hdrMax, List.length_cons] at *
    rw [if_neg (by omega)]
    omega

/-- `opus_packet_pad` on a code-0 packet of `len = L+1 ≤ new_len` bytes succeeds and, when it
    re-writes the packet, produces exactly `new_len` bytes. -/
theorem padSpec_code0 (toc : Nat) (L : Nat) (m : Int) (hL : L ≤ 1275) (hm : (L : Int) + 1 ≤ m) :
    (padSpec toc [L] ((L : Int) + 1) m).1 = OPUS_OK ∧
    (∀ q, (padSpec toc [L] ((L : Int) + 1) m).2 = some q → (q.size : Int) = m) := by
  unfold padSpec
  rw [if_neg (by omega)]
  by_cases he : (L : Int) + 1 = m
  · rw [if_pos he]; exact ⟨rfl, by intro q h; cases h⟩
  · rw [if_neg he, if_neg (by omega), if_neg (by simp; omega)]
    obtain ⟨r, hr, hs⟩ := outRange_pad toc [L] m.toNat (by simp) (by simp [baseSize]; omega)
    rw [hr]
    refine ⟨rfl, ?_⟩
    intro q hq
    cases hq
    rw [hs]; omega


/-- `opus_packet_pad` on an unpadded packet (its length is the base size of its frame list)
    succeeds whenever `len ≤ new_len`, and a re-written packet has exactly `new_len` bytes. -/
theorem padSpec_ok (toc : Nat) (lens : List Nat) (len newLen : Int) (hne : lens ≠ [])
    (hall : ∀ l ∈ lens, l ≤ 1275) (hbase : (baseSize lens : Int) = len) (hle : len ≤ newLen) :
    (padSpec toc lens len newLen).1 = OPUS_OK ∧
    (∀ q, (padSpec toc lens len newLen).2 = some q → (q.size : Int) = newLen) := by
  have hb1 : 1 ≤ baseSize lens := by
    match lens, hne with
    | [l0], _ => simp [baseSize]
    | [l0, l1], _ => simp only [baseSize]; split <;> omega
    | a :: b :: c :: rest, _ => simp only [baseSize, code3Size]; split <;> omega
  unfold padSpec
  rw [if_neg (by omega)]
  by_cases he : len = newLen
  · rw [if_pos he]; exact ⟨rfl, by intro q h; cases h⟩
  · have hany : lens.any (fun x => decide (x > 1275)) = false := by
      rw [List.any_eq_false]; intro x hx; simp; exact hall x hx
    rw [if_neg he, if_neg (by omega), hany]
    simp only [Bool.false_eq_true, if_false]
    obtain ⟨r, hr, hs⟩ := outRange_pad toc lens newLen.toNat hne (by omega)
    rw [hr]
    refine ⟨rfl, ?_⟩
    intro q hq
    cases hq
    rw [hs]; omega

theorem baseSize_zeros (n : Nat) (hn : 3 ≤ n) : baseSize (List.replicate n 0) = 2 := by
  match n, hn with
  | n + 3, _ =>
    have hall : ∀ k, allEq 0 (List.replicate k 0) = true := by
      intro k; induction k with
      | zero => rfl
      | succ k ih => simp [List.replicate_succ, allEq, ih]
    have := hall (n + 3)
    simp only [List.replicate_succ] at this ⊢
    simp only [baseSize, code3Size, List.headD_cons]
    simp [this]

end Opus.EncSkel.Proofs
