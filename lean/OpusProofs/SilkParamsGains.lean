import OpusProofs.SilkParamsSpec
/-
  OpusProofs.SilkParamsGains — gain index invariant, gain range, encoder/decoder agreement of
  the gain quantiser, and pitch lags in range.
-/
namespace Opus.SilkParams
open Opus.Gen

theorem pow2_1 : ((2 : Int) ^ 1) = 2 := by decide

theorem limit_eq (a l1 l2 : Int) (h : l1 ≤ l2) : limit a l1 l2 = max l1 (min a l2) := by
  unfold limit
  split
  · omega
  · split
    · omega
    · split <;> omega

/-- The quantiser constants the statements below are written for (re-checked after regeneration). -/
theorem gain_consts : SilkNlsf.nLevelsQGain = 64 ∧ SilkNlsf.maxDeltaGainQuant = 36 ∧
    SilkNlsf.minDeltaGainQuant = -4 := by decide

/-- Smallest and largest value of a dequantised gain (Q16): levels 0 and 63. -/
def gainMinQ16 : Int := 81920
def gainMaxQ16 : Int := 1686110208

theorem gainOfIndex_table : ∀ p ∈ List.range 64,
    gainMinQ16 ≤ gainOfIndex (p : Int) ∧ gainOfIndex (p : Int) ≤ gainMaxQ16 ∧
    gainOfIndex (p : Int) < gainOfIndex ((p : Int) + 1) := by
  decide +kernel

theorem gainOfIndex_ends : gainOfIndex 0 = gainMinQ16 ∧ gainOfIndex 63 = gainMaxQ16 := by
  decide +kernel

theorem gainOfIndex_range (p : Int) (h0 : 0 ≤ p) (h1 : p ≤ 63) :
    gainMinQ16 ≤ gainOfIndex p ∧ gainOfIndex p ≤ gainMaxQ16 := by
  have h := gainOfIndex_table p.toNat (by simp only [List.mem_range]; omega)
  have hp : ((p.toNat : Nat) : Int) = p := by omega
  rw [hp] at h
  exact ⟨h.1, h.2.1⟩

/-! ### dequantiser -/

/-- Whatever the index, the previous index and the coding mode: `*prev_ind` ends in `[0, 63]`. -/
theorem gainDequantPrev_range (first : Bool) (cond ind prev : Int) :
    0 ≤ gainDequantPrev first cond ind prev ∧ gainDequantPrev first cond ind prev ≤ 63 := by
  obtain ⟨h1, _, _⟩ := gain_consts
  unfold gainDequantPrev
  simp only [h1]
  generalize (if (first = true ∧ cond = 0) then _ else _ : Int) = p
  unfold limit wrap8
  split <;> (repeat' split) <;> omega

/-- For indices a bitstream can carry and a previous index in range, no `opus_int8` store of the
    dequantiser wraps: the update is the plain integer formula. -/
theorem gainDequantPrev_nowrap (first : Bool) (cond ind prev : Int) (hp0 : 0 ≤ prev) (hp1 : prev ≤ 63)
    (hi0 : 0 ≤ ind) (hi1 : if first = true ∧ cond = 0 then ind ≤ 63 else ind ≤ 40) :
    gainDequantPrev first cond ind prev =
      limit (if first = true ∧ cond = 0 then max ind (prev - 16)
             else if ind - 4 > 8 + prev then prev + (2 * (ind - 4) - (8 + prev)) else prev + (ind - 4)) 0 63 := by
  obtain ⟨h1, h2, h3⟩ := gain_consts
  have hl : ∀ a, limit a 0 63 = max 0 (min a 63) := fun a => limit_eq a 0 63 (by omega)
  unfold gainDequantPrev doubleStepThreshold lshift32
  simp only [h1, h2, h3, pow2_1, Int.reduceSub, Int.reduceMul, hl]
  by_cases hc : first = true ∧ cond = 0
  · simp only [hc, and_self, ↓reduceIte] at hi1 ⊢
    unfold wrap8; omega
  · simp only [hc, ↓reduceIte] at hi1 ⊢
    unfold wrap8 wrap32
    split <;> split <;> omega

theorem gainsDequantLoop_spec (cond : Int) : ∀ (ind : List Int) (first : Bool) (prev : Int),
    (gainsDequantLoop cond first ind prev).1.length = ind.length ∧
    (∀ g ∈ (gainsDequantLoop cond first ind prev).1, gainMinQ16 ≤ g ∧ g ≤ gainMaxQ16) ∧
    (ind ≠ [] → 0 ≤ (gainsDequantLoop cond first ind prev).2 ∧ (gainsDequantLoop cond first ind prev).2 ≤ 63) := by
  intro ind
  induction ind with
  | nil => intro first prev; simp [gainsDequantLoop]
  | cons i is ih =>
    intro first prev
    have hr := gainDequantPrev_range first cond i prev
    have hg := gainOfIndex_range _ hr.1 hr.2
    have h := ih false (gainDequantPrev first cond i prev)
    simp only [gainsDequantLoop, List.length_cons, List.mem_cons, forall_eq_or_imp]
    refine ⟨by omega, ⟨hg, h.2.1⟩, ?_⟩
    intro _
    cases is with
    | nil => simpa [gainsDequantLoop] using hr
    | cons j js => exact h.2.2 (by simp)

/-- A chain of frames through `silk_gains_dequant`: each frame is `(indices, conditional)`;
    returns the gains of all frames and the final `LastGainIndex`. -/
def gainsDequantChain : List (List Int × Int) → Int → List (List Int) × Int
  | [], p => ([], p)
  | (ind, cond) :: rest, p =>
    let r := gainsDequant ind p cond
    let r' := gainsDequantChain rest r.2
    (r.1 :: r'.1, r'.2)

theorem gainsDequantChain_spec : ∀ (frames : List (List Int × Int)) (prev : Int),
    0 ≤ prev → prev ≤ 63 →
    (∀ gs ∈ (gainsDequantChain frames prev).1, ∀ g ∈ gs, gainMinQ16 ≤ g ∧ g ≤ gainMaxQ16) ∧
    0 ≤ (gainsDequantChain frames prev).2 ∧ (gainsDequantChain frames prev).2 ≤ 63 := by
  intro frames
  induction frames with
  | nil => intro prev h0 h1; simp [gainsDequantChain, h0, h1]
  | cons f fs ih =>
    intro prev h0 h1
    obtain ⟨ind, cond⟩ := f
    have h := gainsDequantLoop_spec cond ind true prev
    have hp : 0 ≤ (gainsDequant ind prev cond).2 ∧ (gainsDequant ind prev cond).2 ≤ 63 := by
      unfold gainsDequant
      cases ind with
      | nil => simp [gainsDequantLoop, h0, h1]
      | cons i is => exact h.2.2 (by simp)
    have h' := ih (gainsDequant ind prev cond).2 hp.1 hp.2
    simp only [gainsDequantChain, List.mem_cons, forall_eq_or_imp]
    exact ⟨⟨h.2.1, h'.1⟩, h'.2⟩

/-! ### quantiser / dequantiser agreement -/

theorem gainQuantStep_agrees (first : Bool) (cond g prev : Int) (hp0 : 0 ≤ prev) (hp1 : prev ≤ 63) :
    let s := gainQuantStep first cond g prev
    gainDequantPrev first cond s.1 prev = s.2.1 ∧ s.2.2 = gainOfIndex s.2.1 ∧
    0 ≤ s.2.1 ∧ s.2.1 ≤ 63 ∧ 0 ≤ s.1 ∧ (if first = true ∧ cond = 0 then s.1 ≤ 63 else s.1 ≤ 40) := by
  obtain ⟨h1, h2, h3⟩ := gain_consts
  have hl : ∀ a, limit a 0 63 = max 0 (min a 63) := fun a => limit_eq a 0 63 (by omega)
  have hl2 : ∀ a, limit a (prev + -4) 63 = max (prev + -4) (min a 63) := fun a => limit_eq a _ 63 (by omega)
  have hl3 : ∀ a, limit a (-4) 36 = max (-4) (min a 36) := fun a => limit_eq a _ _ (by omega)
  unfold gainQuantStep gainDequantPrev doubleStepThreshold lshift32 shrI
  simp only [h1, h2, h3, pow2_1, hl, hl2, hl3, Int.reduceSub, Int.reduceMul]
  -- the index after the first clamp is some value in [0, 63]; nothing else about it matters
  have hi2 : ∀ x : Int, 0 ≤ wrap8 (max 0 (min x 63)) ∧ wrap8 (max 0 (min x 63)) ≤ 63 := by
    intro x; unfold wrap8; omega
  generalize hi : wrap8 (max 0 (min (if wrap8 (smulwb SilkNlsf.gainScaleQ16 (lin2log g - SilkNlsf.gainOffset)) < prev
      then wrap8 (wrap8 (smulwb SilkNlsf.gainScaleQ16 (lin2log g - SilkNlsf.gainOffset)) + 1)
      else wrap8 (smulwb SilkNlsf.gainScaleQ16 (lin2log g - SilkNlsf.gainOffset))) 63)) = i2
  have hb := hi2 (if wrap8 (smulwb SilkNlsf.gainScaleQ16 (lin2log g - SilkNlsf.gainOffset)) < prev
      then wrap8 (wrap8 (smulwb SilkNlsf.gainScaleQ16 (lin2log g - SilkNlsf.gainOffset)) + 1)
      else wrap8 (smulwb SilkNlsf.gainScaleQ16 (lin2log g - SilkNlsf.gainOffset)))
  rw [hi] at hb
  by_cases hc : first = true ∧ cond = 0
  · simp only [hc, and_self, ↓reduceIte, true_and]
    unfold wrap8; omega
  · simp only [hc, ↓reduceIte, true_and]
    have hw : wrap8 (i2 - prev) = i2 - prev := by unfold wrap8; omega
    rw [hw]
    unfold wrap8 wrap32
    by_cases hA : i2 - prev > 8 + prev
    · simp only [hA, ↓reduceIte]
      by_cases hB : (max (-4) (min ((8 + prev + (i2 - prev - (8 + prev) + 1) / 2 + 128) % 256 - 128) 36) + 128) % 256 - 128 > 8 + prev
      · simp only [hB, ↓reduceIte]
        split <;> omega
      · simp only [hB, ↓reduceIte]
        split <;> omega
    · simp only [hA, ↓reduceIte]
      by_cases hB : (max (-4) (min (i2 - prev) 36) + 128) % 256 - 128 > 8 + prev
      · simp only [hB, ↓reduceIte]
        split <;> omega
      · simp only [hB, ↓reduceIte]
        split <;> omega

theorem gainsQuantLoop_agrees (cond : Int) : ∀ (gains : List Int) (first : Bool) (prev : Int),
    0 ≤ prev → prev ≤ 63 →
    let q := gainsQuantLoop cond first gains prev
    gainsDequantLoop cond first q.1 prev = (q.2.1, q.2.2) ∧ q.1.length = gains.length ∧
    0 ≤ q.2.2 ∧ q.2.2 ≤ 63 := by
  intro gains
  induction gains with
  | nil => intro first prev h0 h1; simp [gainsQuantLoop, gainsDequantLoop, h0, h1]
  | cons g gs ih =>
    intro first prev h0 h1
    have hs := gainQuantStep_agrees first cond g prev h0 h1
    simp only at hs
    obtain ⟨ha, hb, hc0, hc1, _, _⟩ := hs
    have h := ih false (gainQuantStep first cond g prev).2.1 hc0 hc1
    simp only at h
    simp only [gainsQuantLoop, gainsDequantLoop, ha, h.1, List.length_cons, h.2.1, ← hb]
    exact ⟨trivial, trivial, h.2.2⟩

/-! ### pitch lags -/

theorem limit_range (a lo hi : Int) (h : lo ≤ hi) : lo ≤ limit a lo hi ∧ limit a lo hi ≤ hi := by
  unfold limit
  (repeat' split) <;> omega

theorem pitchLoop_range (tab : List Int) (cbk : Nat) (contour lag lo hi : Int) (h : lo ≤ hi) :
    ∀ (n k : Nat) (out : List Int), pitchLoop tab cbk contour lag lo hi n k = .ok out →
      out.length = n ∧ ∀ e ∈ out, lo ≤ e ∧ e ≤ hi := by
  intro n
  induction n with
  | zero => intro k out ho; simp [pitchLoop] at ho; subst ho; simp
  | succ n ih =>
    intro k out ho
    unfold pitchLoop at ho
    match hg : getI tab ((k : Int) * (cbk : Int) + contour), ho with
    | .ok c, ho =>
      simp only [bind, Res.bind] at ho
      match hr : pitchLoop tab cbk contour lag lo hi n (k + 1), ho with
      | .ok rest, ho =>
        simp only [pure] at ho
        injection ho with ho
        subst ho
        have := ih (k + 1) rest hr
        simp only [List.length_cons, List.mem_cons, forall_eq_or_imp]
        exact ⟨by omega, limit_range _ _ _ h, this.2⟩
      | .err _, ho => simp at ho
      | .oob, ho => simp at ho
      | .abort, ho => simp at ho
    | .err _, ho => simp [bind, Res.bind] at ho
    | .oob, ho => simp [bind, Res.bind] at ho
    | .abort, ho => simp [bind, Res.bind] at ho

theorem getI_ok (l : List Int) (i : Int) (h0 : 0 ≤ i) (h1 : i.toNat < l.length) :
    ∃ v, getI l i = .ok v := by
  unfold getI
  rw [if_neg (by omega)]
  have : l[i.toNat]? = some l[i.toNat] := List.getElem?_eq_getElem h1
  rw [this]
  exact ⟨_, rfl⟩

theorem pitchLoop_ok (tab : List Int) (cbk : Nat) (contour lag lo hi : Int) (hc : 0 ≤ contour) :
    ∀ (n k : Nat), (∀ j, j < n → (((k + j : Nat) : Int) * (cbk : Int) + contour).toNat < tab.length) →
      ∃ out, pitchLoop tab cbk contour lag lo hi n k = .ok out := by
  intro n
  induction n with
  | zero => intro k _; exact ⟨[], rfl⟩
  | succ n ih =>
    intro k h
    have h0 := h 0 (by omega)
    obtain ⟨c, hcv⟩ := getI_ok tab ((k : Int) * (cbk : Int) + contour)
      (by have : (0 : Int) ≤ (k : Int) * (cbk : Int) := Int.mul_nonneg (by omega) (by omega); omega)
      (by simpa using h0)
    obtain ⟨rest, hr⟩ := ih (k + 1) (by
      intro j hj
      have := h (j + 1) (by omega)
      have he : k + 1 + j = k + (j + 1) := by omega
      rw [he]; exact this)
    refine ⟨limit (lag + c) lo hi :: rest, ?_⟩
    unfold pitchLoop
    simp only [hcv, hr, bind, Res.bind, pure]

/-- `silk_decode_pitch`: for the three internal rates, both sub-frame counts and every contour
    index of the selected codebook, every lag index (in or out of the coded range) yields lags
    inside `[PE_MIN_LAG_MS*Fs_kHz, PE_MAX_LAG_MS*Fs_kHz]`. -/
theorem decodePitch_spec (lagIndex contour fs : Int) (nb : Nat)
    (hfs : fs = 8 ∨ fs = 12 ∨ fs = 16) (hnb : nb = 2 ∨ nb = 4) (hc0 : 0 ≤ contour)
    (hc1 : ∀ cb, pitchCodebook fs nb = .ok cb → contour < (cb.2 : Int)) :
    ∃ lags, decodePitch lagIndex contour fs nb = .ok lags ∧ lags.length = nb ∧
      ∀ l ∈ lags, 2 * fs ≤ l ∧ l ≤ 18 * fs := by
  have key : ∀ (tab : List Int) (cbk : Nat), pitchCodebook fs nb = .ok (tab, cbk) →
      tab.length = nb * cbk →
      ∃ lags, decodePitch lagIndex contour fs nb = .ok lags ∧ lags.length = nb ∧
        ∀ l ∈ lags, pitchMinLag fs ≤ l ∧ l ≤ pitchMaxLag fs := by
    intro tab cbk hcb hlen
    have hlt := hc1 _ hcb
    simp only at hlt
    have hmm : pitchMinLag fs ≤ pitchMaxLag fs := by
      rcases hfs with rfl | rfl | rfl <;> decide
    obtain ⟨out, ho⟩ := pitchLoop_ok tab cbk contour (pitchMinLag fs + lagIndex) (pitchMinLag fs)
      (pitchMaxLag fs) hc0 nb 0 (by
        intro j hj
        rw [hlen]
        have h1 : ((0 + j : Nat) : Int) * (cbk : Int) + contour < (nb : Int) * (cbk : Int) := by
          have : ((j : Int) + 1) * (cbk : Int) ≤ (nb : Int) * (cbk : Int) :=
            Int.mul_le_mul_of_nonneg_right (by omega) (by omega)
          have h2 : ((j : Int) + 1) * (cbk : Int) = (j : Int) * (cbk : Int) + (cbk : Int) := by
            rw [Int.add_mul]; omega
          simp only [Nat.zero_add]
          omega
        have h3 : (0 : Int) ≤ ((0 + j : Nat) : Int) * (cbk : Int) := Int.mul_nonneg (by omega) (by omega)
        have h4 : ((nb * cbk : Nat) : Int) = (nb : Int) * (cbk : Int) := by simp
        omega)
    have hr := pitchLoop_range tab cbk contour _ _ _ hmm nb 0 out ho
    refine ⟨out, ?_, hr.1, hr.2⟩
    unfold decodePitch
    simp only [hcb, bind, Res.bind]
    exact ho
  have hmin : pitchMinLag fs = 2 * fs := by rcases hfs with rfl | rfl | rfl <;> decide
  have hmax : pitchMaxLag fs = 18 * fs := by rcases hfs with rfl | rfl | rfl <;> decide
  rw [← hmin, ← hmax]
  rcases hfs with rfl | rfl | rfl <;> rcases hnb with rfl | rfl
  · exact key SilkNlsf.cbLagsStage2_10ms SilkNlsf.peNbCbksStage2_10ms (by decide) (by decide)
  · exact key SilkNlsf.cbLagsStage2 SilkNlsf.peNbCbksStage2Ext (by decide) (by decide)
  · exact key SilkNlsf.cbLagsStage3_10ms SilkNlsf.peNbCbksStage3_10ms (by decide) (by decide)
  · exact key SilkNlsf.cbLagsStage3 SilkNlsf.peNbCbksStage3Max (by decide) (by decide +kernel)
  · exact key SilkNlsf.cbLagsStage3_10ms SilkNlsf.peNbCbksStage3_10ms (by decide) (by decide)
  · exact key SilkNlsf.cbLagsStage3 SilkNlsf.peNbCbksStage3Max (by decide) (by decide +kernel)

end Opus.SilkParams
