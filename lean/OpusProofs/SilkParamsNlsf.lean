import OpusProofs.SilkParamsStab
/-
  OpusProofs.SilkParamsNlsf — well-formedness of the regenerated NLSF codebooks and the
  ordering of every silk_NLSF_decode output.
-/
namespace Opus.SilkParams
open Opus.Gen

/-! ### table facts (decidable, re-checked against the regenerated tables) -/

/-- Facts about one NLSF codebook struct that the decoder relies on. -/
structure CbWellFormed (cb : NlsfCB) : Prop where
  order_pos : 0 < cb.order
  order_even : cb.order % 2 = 0
  order_le : cb.order ≤ SilkNlsf.maxLpcOrder
  /-- first-stage vectors and weights: `nVectors * order` entries each -/
  cb1_len : cb.cb1NlsfQ8.length = cb.nVectors * cb.order
  wght_len : cb.cb1WghtQ9.length = cb.nVectors * cb.order
  /-- no division by zero in `silk_DIV32_16( ..., pCB_Wght_Q9[ i ] )` -/
  wght_pos : ∀ w ∈ cb.cb1WghtQ9, 0 < w
  cb1_bytes : ∀ e ∈ cb.cb1NlsfQ8, 0 ≤ e ∧ e ≤ 255
  /-- the two first-stage ICDFs (unvoiced / voiced) have `nVectors` symbols each: their last
      entry is the terminating 0, so a decoded CB1 index is `< nVectors` -/
  icdf1_len : cb.cb1ICDF.length = 2 * cb.nVectors
  icdf1_term : cb.cb1ICDF.getD (cb.nVectors - 1) 1 = 0 ∧ cb.cb1ICDF.getD (2 * cb.nVectors - 1) 1 = 0
  /-- second-stage selector: `order/2` bytes per first-stage vector -/
  sel_len : cb.ecSel.length = cb.nVectors * cb.order / 2
  pred_len : cb.predQ8.length = 2 * (cb.order - 1)
  /-- eight residual ICDFs / rate tables of `2*NLSF_QUANT_MAX_AMPLITUDE+1` symbols -/
  icdf2_len : (cb.ecICDF.length : Int) = 8 * ecTabSize
  rates_len : (cb.ecRatesQ5.length : Int) = 8 * ecTabSize
  icdf2_term : ∀ r ∈ List.range 8, cb.ecICDF.getD (r * ecTabSize.toNat + (ecTabSize.toNat - 1)) 1 = 0
  /-- minimum distances: `order+1` entries, each `≥ 1`, summing to at most `2^15` -/
  delta_len : cb.deltaMinQ15.length = cb.order + 1
  delta_pos : ∀ d ∈ cb.deltaMinQ15, 1 ≤ d
  delta_sum : sumL cb.deltaMinQ15 ≤ 32768
  /-- every table read of `silk_NLSF_unpack` is in bounds for every first-stage index -/
  unpack_ok : ∀ i ∈ List.range cb.nVectors, (nlsfUnpack cb (i : Int)).isOk = true

theorem cbNbMb_wellformed : CbWellFormed cbNbMb := by
  constructor <;> decide +kernel

theorem cbWb_wellformed : CbWellFormed cbWb := by
  constructor <;> decide +kernel

/-- Facts about the remaining side-information tables. -/
structure SideTablesWellFormed : Prop where
  cos_len : SilkNlsf.lsfCosTabQ12.length = SilkNlsf.lsfCosTabSz + 1
  cos_sz : SilkNlsf.lsfCosTabSz = 128
  /-- pitch contour codebooks: rows = sub-frames, columns = number of contour symbols -/
  lag2_len : SilkNlsf.cbLagsStage2.length = SilkNlsf.peMaxNbSubfr * SilkNlsf.peNbCbksStage2Ext
  lag2s_len : SilkNlsf.cbLagsStage2_10ms.length = (SilkNlsf.peMaxNbSubfr / 2) * SilkNlsf.peNbCbksStage2_10ms
  lag3_len : SilkNlsf.cbLagsStage3.length = SilkNlsf.peMaxNbSubfr * SilkNlsf.peNbCbksStage3Max
  lag3s_len : SilkNlsf.cbLagsStage3_10ms.length = (SilkNlsf.peMaxNbSubfr / 2) * SilkNlsf.peNbCbksStage3_10ms
  /-- the contour ICDFs have exactly as many symbols as the codebooks have columns -/
  contour_nb : SilkNlsf.pitchContourNbICDFLen = SilkNlsf.peNbCbksStage2Ext
  contour_nb10 : SilkNlsf.pitchContour10msNbICDFLen = SilkNlsf.peNbCbksStage2_10ms
  contour_wb : SilkNlsf.pitchContourICDFLen = SilkNlsf.peNbCbksStage3Max
  contour_wb10 : SilkNlsf.pitchContour10msICDFLen = SilkNlsf.peNbCbksStage3_10ms
  /-- gain indices: 8 MSB symbols x 8 LSB symbols = N_LEVELS_QGAIN, delta symbols = MAX-MIN+1 -/
  gain_abs : ((SilkNlsf.gainICDFCols * SilkNlsf.uniform8ICDFLen : Nat) : Int) = SilkNlsf.nLevelsQGain
  gain_delta : (SilkNlsf.deltaGainICDFLen : Int) = SilkNlsf.maxDeltaGainQuant - SilkNlsf.minDeltaGainQuant + 1
  lag_ms : 0 < SilkNlsf.peMinLagMs ∧ SilkNlsf.peMinLagMs ≤ SilkNlsf.peMaxLagMs

theorem sideTables_wellformed : SideTablesWellFormed := by
  constructor <;> decide +kernel

/-! ### `DeltaOk` from the table facts -/

def deltaOkB (P : Int) : Nat → List Int → Bool
  | 0, [dL] => decide (1 ≤ dL) && decide (P + dL ≤ 32768)
  | n + 1, d :: ds => decide (0 ≤ d) && deltaOkB (P + d) n ds
  | _, _ => false

theorem deltaOkB_sound : ∀ (n : Nat) (d : List Int) (P : Int), deltaOkB P n d = true → DeltaOk P n d := by
  intro n
  induction n with
  | zero =>
    intro d P h
    match d with
    | [] => simp [deltaOkB] at h
    | [dL] => simpa [deltaOkB, DeltaOk] using h
    | _ :: _ :: _ => simp [deltaOkB] at h
  | succ n ih =>
    intro d P h
    match d with
    | [] => simp [deltaOkB] at h
    | d0 :: ds =>
      simp only [deltaOkB, Bool.and_eq_true, decide_eq_true_eq] at h
      exact ⟨h.1, ih ds (P + d0) h.2⟩

theorem cbNbMb_deltaOk : DeltaOk 0 cbNbMb.order cbNbMb.deltaMinQ15 :=
  deltaOkB_sound _ _ _ (by decide +kernel)

theorem cbWb_deltaOk : DeltaOk 0 cbWb.order cbWb.deltaMinQ15 :=
  deltaOkB_sound _ _ _ (by decide +kernel)

/-! ### consequences of `SpacedFrom` -/

theorem spaced_ge : ∀ (x d : List Int) (p : Int), SpacedFrom p x d → (∀ e ∈ d, 0 ≤ e) →
    ∀ e ∈ x, p ≤ e := by
  intro x
  induction x with
  | nil => intro d p _ _ e he; simp at he
  | cons x0 xs ih =>
    intro d p hs hd e he
    match d, hs with
    | d0 :: ds, hs =>
      simp only [SpacedFrom] at hs
      have hd0 := hd d0 (by simp)
      rcases List.mem_cons.mp he with rfl | h'
      · omega
      · have := ih ds x0 hs.2 (fun e he => hd e (by simp [he])) e h'
        omega

theorem spaced_le : ∀ (x d : List Int) (p : Int), SpacedFrom p x d → (∀ e ∈ d, 1 ≤ e) →
    p ≤ 32767 ∧ ∀ e ∈ x, e ≤ 32767 := by
  intro x
  induction x with
  | nil =>
    intro d p hs hd
    match d, hs with
    | [dL], hs =>
      simp only [SpacedFrom] at hs
      have := hd dL (by simp)
      exact ⟨by omega, by intro e he; simp at he⟩
  | cons x0 xs ih =>
    intro d p hs hd
    match d, hs with
    | d0 :: ds, hs =>
      simp only [SpacedFrom] at hs
      have hd0 := hd d0 (by simp)
      have h := ih ds x0 hs.2 (fun e he => hd e (by simp [he]))
      refine ⟨by omega, ?_⟩
      intro e he
      rcases List.mem_cons.mp he with rfl | h'
      · exact h.1
      · exact h.2 e h'

theorem spaced_strict : ∀ (x d : List Int) (p : Int), SpacedFrom p x d → (∀ e ∈ d, 1 ≤ e) →
    StrictInc (p :: x) := by
  intro x
  induction x with
  | nil => intro d p _ _; simp [StrictInc]
  | cons x0 xs ih =>
    intro d p hs hd
    match d, hs with
    | d0 :: ds, hs =>
      simp only [SpacedFrom] at hs
      have hd0 := hd d0 (by simp)
      have h := ih ds x0 hs.2 (fun e he => hd e (by simp [he]))
      simp only [StrictInc]
      exact ⟨by omega, h⟩

theorem strictInc_tail (p : Int) : ∀ (x : List Int), StrictInc (p :: x) → StrictInc x := by
  intro x h
  cases x with
  | nil => simp [StrictInc]
  | cons a as => simp only [StrictInc] at h; exact h.2

/-! ### silk_NLSF_decode -/

theorem resDequant_length (q : Int) : ∀ (is ps : List Int), is.length = ps.length →
    (resDequant q is ps).1.length = is.length := by
  intro is
  induction is with
  | nil => intro ps _; cases ps <;> simp [resDequant]
  | cons i is ih =>
    intro ps h
    match ps, h with
    | p :: ps', h =>
      simp only [resDequant, List.length_cons]
      have := ih ps' (by simpa using h)
      omega

theorem zip3With_first_spec : ∀ (a b c : List Int), a.length = b.length → b.length = c.length →
    (zip3With nlsfFirstStage a b c).length = a.length ∧ AllI16 (zip3With nlsfFirstStage a b c) := by
  intro a
  induction a with
  | nil => intro b c _ _; simp [zip3With, AllI16]
  | cons a0 as ih =>
    intro b c h1 h2
    match b, c, h1, h2 with
    | b0 :: bs, c0 :: cs, h1, h2 =>
      have := ih bs cs (by simpa using h1) (by simpa using h2)
      simp only [zip3With, List.length_cons]
      refine ⟨by omega, ?_⟩
      intro e he
      rcases List.mem_cons.mp he with rfl | h'
      · unfold nlsfFirstStage; exact wrap16_I16 _
      · exact this.2 e h'

/-- The first-stage data of one CB1 index is well formed (decidable, checked per index). -/
def stage1Ok (cb : NlsfCB) (cb1 : Int) : Bool :=
  match nlsfUnpack cb cb1 with
  | .ok (_, pred) =>
    pred.length == cb.order &&
    ((cb.cb1NlsfQ8.drop (cb1.toNat * cb.order)).take cb.order).length == cb.order &&
    ((cb.cb1WghtQ9.drop (cb1.toNat * cb.order)).take cb.order).length == cb.order &&
    !((cb.cb1WghtQ9.drop (cb1.toNat * cb.order)).take cb.order).any (· == 0)
  | _ => false

theorem nlsfDecode_spec (cb : NlsfCB) (cb1 : Int) (idx : List Int) (hs : stage1Ok cb cb1 = true)
    (hpos : 0 < cb.order) (hd : DeltaOk 0 cb.order cb.deltaMinQ15) (hlen : idx.length = cb.order) :
    ∃ out, nlsfDecode cb (cb1 :: idx) = .ok out ∧ SpacedFrom 0 out cb.deltaMinQ15 ∧
      out.length = cb.order ∧ AllI16 out := by
  unfold stage1Ok at hs
  unfold nlsfDecode
  simp only [hlen, ne_eq, not_true_eq_false, ↓reduceIte]
  match hu : nlsfUnpack cb cb1, hs with
  | .ok (ec, pred), hs =>
    simp only [Bool.and_eq_true, beq_iff_eq, Bool.not_eq_true'] at hs
    obtain ⟨⟨⟨hp, hel⟩, hw⟩, hz⟩ := hs
    have hres := resDequant_length cb.quantStepSizeQ16 idx pred (by omega)
    have hx := zip3With_first_spec (resDequant cb.quantStepSizeQ16 idx pred).1
      ((cb.cb1WghtQ9.drop (cb1.toNat * cb.order)).take cb.order)
      ((cb.cb1NlsfQ8.drop (cb1.toNat * cb.order)).take cb.order) (by omega) (by omega)
    have hne : zip3With nlsfFirstStage (resDequant cb.quantStepSizeQ16 idx pred).1
        ((cb.cb1WghtQ9.drop (cb1.toNat * cb.order)).take cb.order)
        ((cb.cb1NlsfQ8.drop (cb1.toNat * cb.order)).take cb.order) ≠ [] := by
      intro h; have := hx.1; rw [h] at this; simp at this; omega
    obtain ⟨out, ho, hsp, hol, hoI⟩ := nlsfStabilize_spec _ cb.deltaMinQ15 hx.2 hne
      (by rw [hx.1, hres, hlen]; exact hd)
    refine ⟨out, ?_, hsp, by omega, hoI⟩
    simp only [bind, Res.bind]
    rw [if_neg (by omega), hz]
    simpa using ho

theorem cbNbMb_stage1 : ∀ i ∈ List.range cbNbMb.nVectors, stage1Ok cbNbMb (i : Int) = true := by
  decide +kernel

theorem cbWb_stage1 : ∀ i ∈ List.range cbWb.nVectors, stage1Ok cbWb (i : Int) = true := by
  decide +kernel

/-- Ordering of every `silk_NLSF_decode` output, for a codebook satisfying the table facts. -/
theorem nlsfDecode_ordered (cb : NlsfCB) (wf : CbWellFormed cb)
    (hd : DeltaOk 0 cb.order cb.deltaMinQ15)
    (hs : ∀ i ∈ List.range cb.nVectors, stage1Ok cb (i : Int) = true)
    (cb1 : Nat) (h1 : cb1 < cb.nVectors) (idx : List Int) (hlen : idx.length = cb.order) :
    ∃ out, nlsfDecode cb ((cb1 : Int) :: idx) = .ok out ∧ SpacedFrom 0 out cb.deltaMinQ15 ∧
      out.length = cb.order ∧ (∀ e ∈ out, 0 ≤ e ∧ e ≤ 32767) ∧ StrictInc out := by
  obtain ⟨out, ho, hsp, hl, _⟩ := nlsfDecode_spec cb (cb1 : Int) idx
    (hs cb1 (List.mem_range.mpr h1)) wf.order_pos hd hlen
  have hge := spaced_ge out _ 0 hsp (fun e he => by have := wf.delta_pos e he; omega)
  have hle := spaced_le out _ 0 hsp wf.delta_pos
  exact ⟨out, ho, hsp, hl, fun e he => ⟨hge e he, hle.2 e he⟩,
    strictInc_tail 0 out (spaced_strict out _ 0 hsp wf.delta_pos)⟩

end Opus.SilkParams
