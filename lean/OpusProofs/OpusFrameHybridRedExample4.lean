import OpusProofs.OpusFrameHybridRedCbr
import OpusProofs.OpusFrameHybridRedExample2
/-
  C08, slice Hybrid — the encoder-side hypotheses of `opus_frame_lockstep_hybrid_red_cbr_partial` (which replace the
  length contracts) on the concrete 90-byte CBR hybrid frame with redundancy, kernel-evaluated.
-/
namespace Opus.OpusFrameProofs.Example
open Opus Opus.RangeCoder Opus.SilkSyms Opus.SilkSymsEnc Opus.SilkSymsEncProofs Opus.OpusFrameEnc Opus.CeltSymsEnc
open OpusProofs.CeltHdr Opus.OpusFrameProofs

theorem hybRedCbrHyps :
    (encodeAll bufHR (91 - 1) (hybridOps 91 (hybridCfg 1 100) hybPacket true 1 1 30 allHR)).storage = 91 - 1 - 30 ∧
    tell (encRun (encInit bufHR (91 - 1)) (packetOps (hybridCfg 1 100) hybPacket)) + 17 + 20 ≤ 8 * ((91 - 1 : Nat) : Int) ∧
    ((30 : Nat) : Int) ≤ ((91 - 1 : Nat) : Int) -
      (tell (encRun (encInit bufHR (91 - 1)) (packetOps (hybridCfg 1 100) hybPacket ++ [Op.bitLogp 1 12, Op.bitLogp 1 1])) + 8 + 3 + 7) / 8 := by
  refine ⟨by decide +kernel, by decide +kernel, by decide +kernel⟩

end Opus.OpusFrameProofs.Example
