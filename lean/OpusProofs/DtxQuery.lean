import OpusProofs.DtxCall
/-
  OpusProofs.DtxQuery — `OPUS_GET_IN_DTX` is true after every DTX packet (C20), with the state
  invariant and the oracle shape assumptions this needs.
-/
namespace Opus.Dtx
open Opus.Gen.DtxConsts

/-- Shape of the recorded SILK oracles of one coded frame; holds by construction of
    `silk_Encode`: at most one prefill call before the main call, 1..3 frames per call
    (`MAX_FRAMES_PER_PACKET`). -/
def WFSub (s : Sub) : Prop :=
  s.silk ≠ [] ∧ s.silk.length ≤ 2 ∧ ∀ c ∈ s.silk, c.frames ≠ [] ∧ c.frames.length ≤ maxFramesPerPacket

def WF (o : CallOr) : Prop := o.mode ≠ .none ∧ (o.mode ≠ .celt → ∀ s ∈ o.subs, WFSub s)

/-- State invariant: before the first completed frame the SILK counters are untouched. -/
def Inv (st : St) : Prop := st.prevMode = .none → st.silk.c0 = 0

/-! ### SILK counters -/

theorem silkVad_cnt_succ (s : SilkCh) (low : Bool) : (silkVad s low).cnt ≤ s.cnt + 1 := by
  unfold silkVad
  cases low <;> simp <;> split_omega
  all_goals (simp only [nb_eq, max_eq] at *; omega)

theorem silkVad_small (s : SilkCh) (low : Bool) (h : s.cnt < nbSpeechFramesBeforeDtx) : (silkVad s low).inDtx = false := by
  unfold silkVad
  cases low <;> simp <;> split_omega

theorem silkFrames_cnt (nch : Nat) (fl : Bool) (s : SilkCh × SilkCh × Bool) (fs : List SFrame) :
    (silkFrames nch fl s fs).1.cnt ≤ s.1.cnt + fs.length := by
  induction fs generalizing s with
  | nil => simp [silkFrames]
  | cons f fs ih =>
    simp only [silkFrames, List.length_cons]
    have := ih (silkFrame nch fl s f)
    have h1 : (silkFrame nch fl s f).1.cnt ≤ s.1.cnt + 1 := by simp only [silkFrame]; exact silkVad_cnt_succ _ _
    omega

theorem silkFrames_small (nch : Nat) (fl : Bool) (s : SilkCh × SilkCh × Bool) (fs : List SFrame)
    (h : s.1.cnt < nbSpeechFramesBeforeDtx) (hne : fs ≠ []) : (silkFrames nch fl s fs).1.inDtx = false := by
  cases fs with
  | nil => exact absurd rfl hne
  | cons f fs =>
    simp only [silkFrames]
    apply silkFrames_disarmed
    simp only [silkFrame]; exact silkVad_small _ _ h

/-- Mid channel: still armed at the end ⇒ counter above `NB_SPEECH_FRAMES_BEFORE_DTX`. -/
theorem silkFrames_inDtx_cnt0 (nch : Nat) (fl : Bool) (s : SilkCh × SilkCh × Bool) (fs : List SFrame) (hne : fs ≠ [])
    (h : (silkFrames nch fl s fs).1.inDtx = true) : nbSpeechFramesBeforeDtx < (silkFrames nch fl s fs).1.cnt := by
  induction fs generalizing s with
  | nil => exact absurd rfl hne
  | cons f fs ih =>
    simp only [silkFrames] at h ⊢
    by_cases hfs : fs = []
    · subst hfs
      simp only [silkFrames, silkFrame] at h ⊢
      have := silkVad_cnt_of_inDtx _ _ h
      omega
    · exact ih _ hfs h

/-- Side channel, when the last frame coded it. -/
theorem silkFrames_inDtx_cnt1 (fl : Bool) (s : SilkCh × SilkCh × Bool) (fs : List SFrame) (hne : fs ≠ [])
    (h : (silkFrames 2 fl s fs).2.1.inDtx = true) (hp : (silkFrames 2 fl s fs).2.2 = false) :
    nbSpeechFramesBeforeDtx < (silkFrames 2 fl s fs).2.1.cnt := by
  induction fs generalizing s with
  | nil => exact absurd rfl hne
  | cons f fs ih =>
    simp only [silkFrames] at h hp ⊢
    by_cases hfs : fs = []
    · subst hfs
      simp only [silkFrames, silkFrame] at h hp ⊢
      simp only [hp, and_self, if_true] at h ⊢
      have := silkVad_cnt_of_inDtx _ _ h
      omega
    · exact ih _ hfs h hp

/-- A `silk_Encode` call that starts (after its own re-initialisations) with a small mid counter
    cannot return zero bytes. -/
theorem silkCall_small (useDtx fl : Bool) (st : SilkSt) (c : SCall) (hne : c.frames ≠ [])
    (h : c.prefill ≠ 0 ∨ st.c0 < nbSpeechFramesBeforeDtx) : (silkCall useDtx fl st c).2 = false := by
  simp only [silkCall]
  rw [silkFrames_small _ _ _ _ _ hne]
  · rfl
  · simp only
    rcases h with h | h
    · simp [h, nb_eq]
    · split <;> simp_all [nb_eq]

theorem silkCall_c0 (useDtx fl : Bool) (st : SilkSt) (c : SCall) :
    (silkCall useDtx fl st c).1.c0 ≤ st.c0 + c.frames.length := by
  simp only [silkCall]
  refine Nat.le_trans (silkFrames_cnt c.nch fl _ c.frames) ?_
  simp only
  split <;> omega

/-- What "SILK returned zero bytes" says about the state it leaves. -/
theorem silkCall_allDtx (useDtx fl : Bool) (st : SilkSt) (c : SCall) (hne : c.frames ≠ [])
    (h : (silkCall useDtx fl st c).2 = true) :
    nbSpeechFramesBeforeDtx < (silkCall useDtx fl st c).1.c0 ∧ (silkCall useDtx fl st c).1.nch = c.nch ∧
    (c.nch = 2 → (silkCall useDtx fl st c).1.pmo = false → nbSpeechFramesBeforeDtx < (silkCall useDtx fl st c).1.c1) := by
  simp only [silkCall] at h ⊢
  simp only [Bool.and_eq_true, Bool.or_eq_true, decide_eq_true_eq] at h
  refine ⟨silkFrames_inDtx_cnt0 _ _ _ _ hne h.1, trivial, ?_⟩
  intro h2 hp
  rw [h2] at h hp ⊢
  rcases h.2 with h' | h'
  · omega
  · exact silkFrames_inDtx_cnt1 _ _ _ hne h' hp

/-- The SILK calls of one coded frame, started with the mid counter at 0, cannot return zero bytes. -/
theorem runSilk_fresh (useDtx fl : Bool) (st : SilkSt) (cs : List SCall) (h0 : st.c0 = 0)
    (hlen : cs.length ≤ 2) (hfr : ∀ c ∈ cs, c.frames ≠ [] ∧ c.frames.length ≤ maxFramesPerPacket) :
    (runSilk useDtx fl st cs).2 = false := by
  match cs, hlen, hfr with
  | [], _, _ => rfl
  | [c], _, hfr =>
    simp only [runSilk]
    exact silkCall_small _ _ _ _ (hfr c (by simp)).1 (Or.inr (by rw [h0, nb_eq]; omega))
  | [p, c], _, hfr =>
    simp only [runSilk]
    apply silkCall_small _ _ _ _ (hfr c (by simp)).1
    right
    have := silkCall_c0 useDtx fl st p
    have hp := (hfr p (by simp)).2
    have : maxFramesPerPacket = 3 := rfl
    rw [nb_eq]; omega
  | _ :: _ :: _ :: _, hlen, _ => simp at hlen

/-- The state a zero-byte answer of the last `silk_Encode` call of a frame leaves. -/
theorem runSilk_allDtx (useDtx fl : Bool) (st : SilkSt) (cs : List SCall)
    (hfr : ∀ c ∈ cs, c.frames ≠ [] ∧ c.frames.length ≤ maxFramesPerPacket)
    (h : (runSilk useDtx fl st cs).2 = true) :
    ∃ c, cs.getLast? = some c ∧ nbSpeechFramesBeforeDtx < (runSilk useDtx fl st cs).1.c0 ∧
      (runSilk useDtx fl st cs).1.nch = c.nch ∧
      (c.nch = 2 → (runSilk useDtx fl st cs).1.pmo = false → nbSpeechFramesBeforeDtx < (runSilk useDtx fl st cs).1.c1) := by
  induction cs generalizing st with
  | nil => simp [runSilk] at h
  | cons c cs ih =>
    cases cs with
    | nil =>
      simp only [runSilk] at h ⊢
      exact ⟨c, rfl, silkCall_allDtx _ _ _ _ (hfr c (by simp)).1 h⟩
    | cons c' cs' =>
      simp only [runSilk] at h ⊢
      obtain ⟨d, hd, rest⟩ := ih (silkCall useDtx fl st c).1 (fun x hx => hfr x (by simp [hx])) h
      exact ⟨d, by simpa [List.getLast?_cons_cons] using hd, rest⟩

/-! ### One coded frame -/

theorem frameSilk_celt (act : Int) (st : St) (o : Sub) : (frameSilk .celt act st o).2 = none := by
  simp [frameSilk]

/-- What a zero-byte SILK answer says about the states around it. -/
theorem frameSilk_zero (mode : Mode) (act : Int) (st : St) (o : Sub)
    (hwf : mode ≠ .celt → WFSub o) (h : (frameSilk mode act st o).2 = some true) :
    mode ≠ .celt ∧ st.silkUseDtx = true ∧ st.silk.c0 ≠ 0 ∧
    nbSpeechFramesBeforeDtx < (frameSilk mode act st o).1.silk.c0 ∧
    ((frameSilk mode act st o).1.modeNch = 2 → (frameSilk mode act st o).1.silk.pmo = false →
      nbSpeechFramesBeforeDtx < (frameSilk mode act st o).1.silk.c1) := by
  by_cases hm : mode = .celt
  · subst hm; rw [frameSilk_celt] at h; cases h
  · obtain ⟨hne, hlen, hfr⟩ := hwf hm
    have hs : st.silkUseDtx = true := by
      cases hs : st.silkUseDtx
      · exact absurd h (frameSilk_useDtx_false mode act st o hs)
      · rfl
    simp only [frameSilk, hm, if_false] at h ⊢
    simp only [Option.some.injEq] at h
    have h0 : st.silk.c0 ≠ 0 := by
      intro h0
      rw [runSilk_fresh _ _ _ _ h0 hlen hfr] at h; cases h
    obtain ⟨d, hd, h1, h2, h3⟩ := runSilk_allDtx _ _ _ _ hfr h
    refine ⟨hm, hs, h0, h1, ?_⟩
    simp only [hd]
    exact h3

theorem frameStep_prevMode (useDtx isSil : Bool) (mode : Mode) (fQ1 : Nat) (tc : Bool) (st : St) (o : Sub) :
    ((frameSilk mode (activityOf isSil o.valid o.det) st o).2 = some true ∧
      (frameStep useDtx isSil mode fQ1 tc st o).1 = (frameSilk mode (activityOf isSil o.valid o.det) st o).1) ∨
    (frameStep useDtx isSil mode fQ1 tc st o).1.prevMode = .celt ∨ (frameStep useDtx isSil mode fQ1 tc st o).1.prevMode = mode := by
  unfold frameStep
  simp only
  by_cases hz : (frameSilk mode (activityOf isSil o.valid o.det) st o).2 = some true
  · left; simp [hz]
  · right
    simp only [hz, if_false]
    rw [(frameTail_fields ..).2.2.2]
    cases tc <;> simp

/-! ### The frame loop -/

/-- Generalised regime: if the last coded frame is dropped, DTX is on and the counter is past 200 ms. -/
theorem frameFlags_generalised_last (useDtx isSil : Bool) (mode : Mode) (fQ1 : Nat) (tc : Bool) (st : St) (os : List Sub)
    (hs : st.silkUseDtx = false) (hne : os ≠ [])
    (hall : ∀ d ∈ (frameFlags useDtx isSil mode fQ1 tc st os).2, d = true) :
    useDtx = true ∧ onsetQ1 < (frameFlags useDtx isSil mode fQ1 tc st os).1.nb := by
  induction os generalizing st with
  | nil => exact absurd rfl hne
  | cons o os ih =>
    simp only [frameFlags] at hall ⊢
    by_cases hos : os = []
    · subst hos
      simp only [frameFlags, List.mem_cons, List.not_mem_nil, or_false, forall_eq] at hall ⊢
      have hg := frameStep_generalised useDtx isSil mode fQ1 (tc && ([] : List Sub).isEmpty) st o hs
      rw [hall] at hg
      by_cases hc : useDtx = true
      · rw [if_pos hc, if_pos hc] at hg
        have h1 := decideDtx_true_nb _ _ _ hg.1.symm
        have h2 := (decideDtx_true_iff _ _ _).1 hg.1.symm
        refine ⟨hc, ?_⟩
        rw [hg.2, h1]; exact h2.2.1
      · rw [if_neg hc] at hg; exact absurd hg.1 (by simp)
    · exact ih _ (by rw [frameStep_silkUseDtx]; exact hs) hos (fun d hd => hall d (by simp [hd]))

/-- SILK regime: if every coded frame is dropped, SILK dropped them all; `prev_mode` is untouched
    and the counters are past `NB_SPEECH_FRAMES_BEFORE_DTX`. -/
theorem frameFlags_silk_regime (useDtx : Bool) (mode : Mode) (fQ1 : Nat) (tc : Bool) (st : St) (os : List Sub)
    (hne : os ≠ []) (hsd : st.silkUseDtx = true) (hwf : mode ≠ .celt → ∀ s ∈ os, WFSub s)
    (hall : ∀ d ∈ (frameFlags useDtx false mode fQ1 tc st os).2, d = true) :
    let f := (frameFlags useDtx false mode fQ1 tc st os).1
    mode ≠ .celt ∧ st.silk.c0 ≠ 0 ∧ f.prevMode = st.prevMode ∧ f.silkUseDtx = true ∧
    nbSpeechFramesBeforeDtx < f.silk.c0 ∧ (f.modeNch = 2 → f.silk.pmo = false → nbSpeechFramesBeforeDtx < f.silk.c1) := by
  induction os generalizing st with
  | nil => exact absurd rfl hne
  | cons o os ih =>
    simp only [frameFlags] at hall ⊢
    have hflag : (frameStep useDtx false mode fQ1 (tc && os.isEmpty) st o).2.1 = true := hall _ (by simp)
    have hA := frameStep_silk_charge useDtx false mode fQ1 (tc && os.isEmpty) st o hsd hflag
    have hB := frameSilk_zero mode _ st o (fun hm => hwf hm o (by simp)) hA.1
    have hF := frameSilk_fields mode (activityOf false o.valid o.det) st o
    by_cases hos : os = []
    · subst hos
      simp only [frameFlags]
      rw [hA.2]
      exact ⟨hB.1, hB.2.2.1, hF.2.1, by rw [hF.2.2.1]; exact hB.2.1, hB.2.2.2.1, hB.2.2.2.2⟩
    · have := ih (frameStep useDtx false mode fQ1 (tc && os.isEmpty) st o).1 hos
        (by rw [frameStep_silkUseDtx]; exact hsd) (fun hm s hs => hwf hm s (by simp [hs])) (fun d hd => hall d (by simp [hd]))
      simp only at this
      obtain ⟨h1, _, h3, h4, h5, h6⟩ := this
      refine ⟨h1, hB.2.2.1, ?_, h4, h5, h6⟩
      rw [h3, hA.2]; exact hF.2.1

/-- `prev_mode` after the loop: untouched only if SILK dropped the first frame. -/
theorem frameFlags_prevMode (useDtx isSil : Bool) (mode : Mode) (fQ1 : Nat) (tc : Bool) (st : St) (os : List Sub) :
    ((frameFlags useDtx isSil mode fQ1 tc st os).1.prevMode = st.prevMode ∧
      (∀ o rest, os = o :: rest → (frameSilk mode (activityOf isSil o.valid o.det) st o).2 = some true) ∧
      (os = [] → (frameFlags useDtx isSil mode fQ1 tc st os).1 = st)) ∨
    (frameFlags useDtx isSil mode fQ1 tc st os).1.prevMode = .celt ∨
    (frameFlags useDtx isSil mode fQ1 tc st os).1.prevMode = mode := by
  induction os generalizing st with
  | nil => left; exact ⟨rfl, fun _ _ h => (by cases h), fun _ => rfl⟩
  | cons o os ih =>
    simp only [frameFlags]
    have h1 := frameStep_prevMode useDtx isSil mode fQ1 (tc && os.isEmpty) st o
    have h2 := ih (frameStep useDtx isSil mode fQ1 (tc && os.isEmpty) st o).1
    rcases h1 with ⟨ha, hb⟩ | hc
    · rcases h2 with ⟨h21, _, _⟩ | h22
      · left
        refine ⟨?_, ?_, fun h => (by cases h)⟩
        · rw [h21, hb]; exact (frameSilk_fields ..).2.1
        · intro o' rest h; cases h; exact ha
      · right; exact h22
    · rcases h2 with ⟨h21, _, _⟩ | h22
      · right; rw [h21]; exact hc
      · right; exact h22

/-! ### One encode call -/

theorem prepCall_prevMode (c : Cfg) (st : St) (o : CallOr) : (prepCall c st o).prevMode = st.prevMode := by
  unfold prepCall; simp only; split <;> exact (switchReset_fields _ _).1

/-- The SILK slice at the start of the frame loop: re-initialised when leaving CELT-only, counters
    cleared when the detector in charge changes, else untouched. -/
theorem prepCall_silk (c : Cfg) (st : St) (o : CallOr) :
    (prepCall c st o).silk = if o.mode ≠ .celt ∧ st.prevMode = .celt then silkInit
      else (if sdtxOf c o ≠ st.silkUseDtx then { st.silk with c0 := 0, c1 := 0 } else st.silk) := by
  unfold prepCall; simp only
  rw [(switchReset_fields _ _).1]
  split
  · rfl
  · exact (switchReset_fields _ _).2.2.2.2.2

/-- The mid counter at the start of the frame loop is the stored one or 0. -/
theorem prepCall_c0 (c : Cfg) (st : St) (o : CallOr) :
    (prepCall c st o).silk.c0 = st.silk.c0 ∨ (prepCall c st o).silk.c0 = 0 := by
  rw [prepCall_silk]
  split
  · right; rfl
  · split
    · right; rfl
    · left; rfl

theorem pktOf_dtx (l : List Bool) (n m : Nat) (h : pktOf l n = .dtx m) : l ≠ [] ∧ ∀ d ∈ l, d = true := by
  unfold pktOf at h
  split at h
  · rename_i hc
    simp only [Bool.and_eq_true, Bool.not_eq_true', List.all_eq_true, id] at hc
    exact ⟨by intro h0; subst h0; simp at hc, hc.2⟩
  · cases h

theorem inDtx_generalised (c : Cfg) (st : St) (hs : st.silkUseDtx = false) (hu : c.useDtx = true)
    (hn : onsetQ1 ≤ st.nb) : inDtx c st = true := by
  simp [inDtx, hs, hu, hn]

theorem inDtx_silk (c : Cfg) (st : St) (hs : st.silkUseDtx = true) (hp : st.prevMode = .silk ∨ st.prevMode = .hybrid)
    (h0 : nbSpeechFramesBeforeDtx ≤ st.silk.c0)
    (h1 : st.modeNch = 2 → st.silk.pmo = false → nbSpeechFramesBeforeDtx ≤ st.silk.c1) : inDtx c st = true := by
  unfold inDtx
  rw [if_pos ⟨hs, hp⟩]
  simp only [h0, decide_true, true_and]
  split
  · rename_i hh; simp [h1 hh.1 hh.2]
  · rfl

/-- **The in-DTX query is true after every DTX packet.** -/
theorem inDtx_of_dtx (c : Cfg) (st : St) (o : CallOr) (hr : Regular c) (hlen : o.subs.length = nSub c o.mode)
    (hinv : Inv st) (hwf : WF o) (n : Nat) (hpkt : (encodeCall c st o).2.1 = .dtx n) :
    inDtx c (encodeCall c st o).1 = true := by
  have hreg := encodeCall_regular c st o hr hlen
  rw [hreg.2] at hpkt
  obtain ⟨hne, hall⟩ := pktOf_dtx _ _ _ (finalPkt_dtx _ _ _ _ hpkt)
  rw [hreg.1]
  have hsne : o.subs ≠ [] := by
    intro h0
    apply hne
    have := frameFlags_length c.useDtx (isSilOf c o) o.mode (subQ1 c o.mode) o.toCelt (prepCall c st o) o.subs
    unfold encodeLoop
    rw [h0] at this ⊢
    simpa using this
  unfold encodeLoop at hall ⊢
  cases hs : (prepCall c st o).silkUseDtx
  · -- generalised detector in charge
    have := frameFlags_generalised_last _ _ _ _ _ _ _ hs hsne hall
    have hsu := frameFlags_silkUseDtx c.useDtx (isSilOf c o) o.mode (subQ1 c o.mode) o.toCelt (prepCall c st o) o.subs
    rw [hs] at hsu
    exact inDtx_generalised c _ hsu this.1 (Nat.le_of_lt this.2)
  · -- SILK's own DTX
    have hs0 := hs
    rw [prepCall_silkUseDtx] at hs
    simp only [Bool.and_eq_true, Bool.not_eq_true', Bool.or_eq_false_iff] at hs
    obtain ⟨hd, hv0, hsil⟩ := hs
    rw [hsil] at hall ⊢
    have hC := frameFlags_silk_regime c.useDtx o.mode (subQ1 c o.mode) o.toCelt (prepCall c st o) o.subs hsne hs0 hwf.2 hall
    simp only at hC
    obtain ⟨hm, hc0, hpm, hsu, h0, h1⟩ := hC
    rw [prepCall_prevMode] at hpm
    have hpm' : st.prevMode = .silk ∨ st.prevMode = .hybrid := by
      cases hp : st.prevMode
      · exfalso
        rcases prepCall_c0 c st o with h | h
        · exact hc0 (by rw [h]; exact hinv hp)
        · exact hc0 h
      · left; rfl
      · right; rfl
      · exfalso
        apply hc0
        rw [prepCall_silk, if_pos ⟨hm, hp⟩]; rfl
    exact inDtx_silk c _ hsu (by rw [hpm]; exact hpm') (Nat.le_of_lt h0) (fun a b => Nat.le_of_lt (h1 a b))

theorem inv_init (ch : Nat) : Inv (initSt ch) := fun _ => rfl

/-- The invariant is kept by every call. -/
theorem inv_encodeCall (c : Cfg) (st : St) (o : CallOr) (hinv : Inv st) (hwf : WF o) : Inv (encodeCall c st o).1 := by
  unfold encodeCall
  simp only
  split
  · exact hinv
  · split
    · exact hinv
    · split
      · exact hinv
      · have hprep : Inv (prepCall c st o) := by
          intro hp
          rw [prepCall_prevMode] at hp
          rcases prepCall_c0 c st o with h | h
          · rw [h]; exact hinv hp
          · exact h
        split
        · exact hprep
        · intro hp
          unfold encodeLoop at hp ⊢
          have := frameFlags_prevMode c.useDtx (isSilOf c o) o.mode (subQ1 c o.mode) o.toCelt (prepCall c st o) o.subs
          rcases this with ⟨h1, h2, h3⟩ | h | h
          · rw [h1] at hp
            by_cases hs0 : o.subs = []
            · rw [h3 hs0]; exact hprep hp
            · exfalso
              obtain ⟨s, rest, hsub⟩ := List.exists_cons_of_ne_nil hs0
              have hz := h2 s rest hsub
              have := frameSilk_zero o.mode _ (prepCall c st o) s (fun hm => hwf.2 hm s (by simp [hsub])) hz
              exact this.2.2.1 (hprep hp)
          · rw [h] at hp; cases hp
          · rw [h] at hp; exact absurd hp hwf.1

theorem inv_runFinal (c : Cfg) (st : St) (ors : List CallOr) (hinv : Inv st) (hwf : ∀ o ∈ ors, WF o) :
    Inv (runFinal c st ors) := by
  induction ors generalizing st with
  | nil => exact hinv
  | cons o os ih =>
    simp only [runFinal]
    exact ih _ (inv_encodeCall c st o hinv (hwf o (by simp))) (fun o' ho' => hwf o' (by simp [ho']))

end Opus.Dtx
