import OpusModel.Kernels
import Mathlib.Tactic.Linarith
/-
  OpusProofs.KernelsNsq — the one primitive of the NSQ SIMD kernels that has a Lean model: the mul_epi32 / srli / slli /
  blend idiom computes silk_SMULWW in every lane (modular arithmetic, `omega` with the exact product as an atom).
-/
namespace Opus.Kernels

theorem smulwwLaneSse_eq (v g : Int) (odd : Bool) : wrap32 (smulwwLaneSse v g odd) = smulww v g := by
  have hv : -2147483648 ≤ wrap32 v ∧ wrap32 v < 2147483648 := by unfold wrap32; omega
  have hg : -2147483648 ≤ wrap32 g ∧ wrap32 g < 2147483648 := by unfold wrap32; omega
  have hp : -4611686018427387904 ≤ wrap32 v * wrap32 g ∧ wrap32 v * wrap32 g ≤ 4611686018427387904 := by
    constructor <;> nlinarith [hv.1, hv.2, hg.1, hg.2]
  unfold smulwwLaneSse smulww
  generalize wrap32 v * wrap32 g = P at hp ⊢
  cases odd <;> simp only [] <;> unfold wrap32 <;> omega

end Opus.Kernels
