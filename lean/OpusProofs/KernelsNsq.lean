import OpusModel.KernelsNsq
import Mathlib.Tactic.Linarith
/-
  OpusProofs.KernelsNsq — silk_nsq_scale_states_sse4_1 = silk_nsq_scale_states, the VAD sub-frame energy, and
  silk_sar_round_smulww: modular arithmetic with `omega` (exact products as atoms), list loops through `mapIdx`.
-/
namespace Opus.Kernels

/-! ### the SMULWW lane idiom -/

theorem smulwwLaneSse_eq (v g : Int) (odd : Bool) : wrap32 (smulwwLaneSse v g odd) = smulww v g := by
  have hv : -2147483648 ≤ wrap32 v ∧ wrap32 v < 2147483648 := by unfold wrap32; omega
  have hg : -2147483648 ≤ wrap32 g ∧ wrap32 g < 2147483648 := by unfold wrap32; omega
  have hp : -4611686018427387904 ≤ wrap32 v * wrap32 g ∧ wrap32 v * wrap32 g ≤ 4611686018427387904 := by
    constructor <;> nlinarith [hv.1, hv.2, hg.1, hg.2]
  unfold smulwwLaneSse smulww
  generalize wrap32 v * wrap32 g = P at hp ⊢
  cases odd <;> simp only [] <;> unfold wrap32 <;> omega

theorem smulww_comm (a b : Int) : smulww a b = smulww b a := by
  unfold smulww; rw [Int.mul_comm]

/-! ### list loops in closed form -/

theorem scalarLoop_eq (f : Int → Int) (c i : Nat) (l : List Int) :
    scalarLoop f c i l = l.mapIdx (fun j v => if i ≤ j ∧ j < i + c then f v else v) := by
  induction c generalizing i l with
  | zero =>
    apply List.ext_getElem?; intro j
    simp only [scalarLoop, List.getElem?_mapIdx]
    cases l[j]? <;> simp <;> (intro h1 h2; omega)
  | succ c ih =>
    show scalarLoop f c (i + 1) (setAt l i f) = _
    rw [ih]
    apply List.ext_getElem?; intro j
    simp only [setAt, List.getElem?_mapIdx]
    cases l[j]? with
    | none => rfl
    | some v =>
      simp only [Option.map_some]
      by_cases h1 : j = i
      · subst h1
        have h2 : ¬ (j + 1 ≤ j ∧ j < j + 1 + c) := by omega
        have h3 : j ≤ j ∧ j < j + (c + 1) := by omega
        simp [h2, h3]
      · by_cases h2 : i + 1 ≤ j ∧ j < i + 1 + c
        · have h3 : i ≤ j ∧ j < i + (c + 1) := by omega
          simp [h1, h2, h3]
        · have h3 : ¬ (i ≤ j ∧ j < i + (c + 1)) := by omega
          simp [h1, h2, h3]

theorem sseBlocks_eq (g : Int) (b i : Nat) (l : List Int) :
    sseBlocks g b i l = l.mapIdx (fun j v => if i ≤ j ∧ j < i + 4 * b then smulww g v else v) := by
  induction b generalizing i l with
  | zero =>
    apply List.ext_getElem?; intro j
    simp only [sseBlocks, List.getElem?_mapIdx]
    cases l[j]? <;> simp <;> (intro h1 h2; omega)
  | succ b ih =>
    show sseBlocks g b (i + 4) (sseBlock g l i) = _
    rw [ih]
    apply List.ext_getElem?; intro j
    simp only [sseBlock, List.getElem?_mapIdx]
    cases l[j]? with
    | none => rfl
    | some v =>
      simp only [Option.map_some, smulwwLaneSse_eq, smulww_comm v g]
      by_cases h0 : j = i
      · have h2 : ¬ (i + 4 ≤ j ∧ j < i + 4 + 4 * b) := by omega
        have h3 : i ≤ j ∧ j < i + 4 * (b + 1) := by omega
        simp [h0, h2, h3] <;> (intro h; omega)
      · by_cases h1 : j = i + 1
        · have h2 : ¬ (i + 4 ≤ j ∧ j < i + 4 + 4 * b) := by omega
          have h3 : i ≤ j ∧ j < i + 4 * (b + 1) := by omega
          simp [h0, h1, h2, h3] <;> (intro h; omega)
        · by_cases h1' : j = i + 2
          · have h2 : ¬ (i + 4 ≤ j ∧ j < i + 4 + 4 * b) := by omega
            have h3 : i ≤ j ∧ j < i + 4 * (b + 1) := by omega
            simp [h0, h1, h1', h2, h3] <;> (intro h; omega)
          · by_cases h1'' : j = i + 3
            · have h2 : ¬ (i + 4 ≤ j ∧ j < i + 4 + 4 * b) := by omega
              have h3 : i ≤ j ∧ j < i + 4 * (b + 1) := by omega
              simp [h0, h1, h1', h1'', h2, h3] <;> (intro h; omega)
            · by_cases h2 : i + 4 ≤ j ∧ j < i + 4 + 4 * b
              · have h3 : i ≤ j ∧ j < i + 4 * (b + 1) := by omega
                simp [h0, h1, h1', h1'', h2, h3] <;> (intro h; omega)
              · have h3 : ¬ (i ≤ j ∧ j < i + 4 * (b + 1)) := by omega
                simp [h0, h1, h1', h1'', h2, h3] <;> (intro h; omega)

/-- blocks of four + scalar tail = the portable loop, for every range (also empty and shorter than four). -/
theorem vecSmulwwSse_eq : vecSmulwwSse = vecSmulwwC := by
  funext g l lo hi
  unfold vecSmulwwSse vecSmulwwC
  simp only [scalarLoop_eq, sseBlocks_eq, List.mapIdx_mapIdx]
  apply List.ext_getElem?; intro j
  simp only [List.getElem?_mapIdx]
  cases l[j]? with
  | none => rfl
  | some v =>
    simp only [Option.map_some, Function.comp]
    have hd := Nat.mul_div_le (hi - lo) 4
    generalize hm : 4 * ((hi - lo) / 4) = m at hd
    by_cases a1 : lo ≤ j
    · by_cases a2 : j < lo + m
      · have a3 : ¬ (lo + m ≤ j) := by omega
        have a4 : j < lo + (hi - lo) := by omega
        simp [a1, a2, a3, a4]
      · have a3 : lo + m ≤ j := by omega
        by_cases a4 : j < lo + (hi - lo)
        · have a5 : j < lo + m + (hi - lo - m) := by omega
          simp [a1, a2, a3, a4, a5]
        · have a5 : ¬ (j < lo + m + (hi - lo - m)) := by omega
          simp [a1, a2, a3, a4, a5]
    · have a3 : ¬ (lo + m ≤ j) := by omega
      simp [a1, a3]

theorem nsqScaleStatesSse_eq (inp : NsqScIn) (st : NsqSc) : nsqScaleStatesSse inp st = nsqScaleStatesC inp st := by
  unfold nsqScaleStatesSse nsqScaleStatesC
  rw [vecSmulwwSse_eq]

/-! ### VAD sub-frame energy -/

/-- the square one sample contributes. -/
def vadSq (v : Int) : Int := sext16 (sext16 v / 8) * sext16 (sext16 v / 8)

def sqSum (x : Nat → Int) (i : Nat) : Nat → Int
  | 0 => 0
  | c + 1 => vadSq (x i) + sqSum x (i + 1) c

theorem wrap32_idem (a : Int) : wrap32 (wrap32 a) = wrap32 a := by unfold wrap32; omega
theorem wrap32_add_left (a b : Int) : wrap32 (wrap32 a + b) = wrap32 (a + b) := by unfold wrap32; omega

theorem sqSum_add (x : Nat → Int) (i a b : Nat) : sqSum x i (a + b) = sqSum x i a + sqSum x (i + a) b := by
  induction a generalizing i with
  | zero => simp [sqSum]
  | succ a ih =>
    have e : a + 1 + b = (a + b) + 1 := by omega
    rw [e]; simp only [sqSum]; rw [ih]
    have e2 : i + 1 + a = i + (a + 1) := by omega
    rw [e2]; omega

theorem vadLoop_eq (x : Nat → Int) (c i : Nat) (acc : Int) :
    wrap32 (vadLoop x c i acc) = wrap32 (acc + sqSum x i c) ∧ (0 < c → wrap32 (vadLoop x c i acc) = vadLoop x c i acc) := by
  induction c generalizing i acc with
  | zero => simp [vadLoop, sqSum]
  | succ c ih =>
    have h := ih (i + 1) (vadStep acc (x i))
    simp only [vadLoop, sqSum]
    constructor
    · rw [h.1]
      unfold vadStep smlabb vadSq
      simp only []
      generalize sext16 (sext16 (x i) / 8) * sext16 (sext16 (x i) / 8) = q
      rw [wrap32_add_left]
      congr 1; omega
    · intro _
      by_cases hc : 0 < c
      · exact h.2 hc
      · have : c = 0 := by omega
        subst this
        simp only [vadLoop]
        unfold vadStep smlabb; simp only []; exact wrap32_idem _

theorem sext16_small (t : Int) (h : -4096 ≤ t ∧ t ≤ 4095) : sext16 t = t := by unfold sext16; omega
theorem sext16_div8 (v : Int) : -4096 ≤ sext16 v / 8 ∧ sext16 v / 8 ≤ 4095 := by unfold sext16; omega

/-- one madd lane = the two squares (no wrap can occur: both are at most 2^24). -/
theorem maddSq_eq (x : Nat → Int) (k : Nat) : maddSq x k = vadSq (x (2 * k)) + vadSq (x (2 * k + 1)) := by
  unfold maddSq vadSq
  simp only []
  rw [sext16_small _ (sext16_div8 _), sext16_small _ (sext16_div8 _)]
  have h1 := sext16_div8 (x (2 * k))
  have h2 := sext16_div8 (x (2 * k + 1))
  have a1 : 0 ≤ sext16 (x (2 * k)) / 8 * (sext16 (x (2 * k)) / 8) ∧ sext16 (x (2 * k)) / 8 * (sext16 (x (2 * k)) / 8) ≤ 16777216 := by
    constructor <;> nlinarith [h1.1, h1.2]
  have a2 : 0 ≤ sext16 (x (2 * k + 1)) / 8 * (sext16 (x (2 * k + 1)) / 8) ∧ sext16 (x (2 * k + 1)) / 8 * (sext16 (x (2 * k + 1)) / 8) ≤ 16777216 := by
    constructor <;> nlinarith [h2.1, h2.2]
  generalize sext16 (x (2 * k)) / 8 * (sext16 (x (2 * k)) / 8) = p at a1 ⊢
  generalize sext16 (x (2 * k + 1)) / 8 * (sext16 (x (2 * k + 1)) / 8) = q at a2 ⊢
  unfold wrap32; omega

theorem sqSum_eight (x : Nat → Int) (i : Nat) :
    sqSum x i 8 = vadSq (x i) + vadSq (x (i + 1)) + vadSq (x (i + 2)) + vadSq (x (i + 3)) + vadSq (x (i + 4)) +
      vadSq (x (i + 5)) + vadSq (x (i + 6)) + vadSq (x (i + 7)) := by
  simp only [sqSum]
  have e : ∀ k : Nat, i + k + 1 = i + (k + 1) := by intro k; omega
  simp only [e, Nat.reduceAdd]
  omega

/-- the four accumulator lanes together hold the sum of all squares seen so far, modulo 2^32. -/
theorem vadAccLoop_eq (x : Nat → Int) (b i : Nat) (acc : Nat → Int) :
    wrap32 (vadAccLoop x b i acc 0 + vadAccLoop x b i acc 1 + vadAccLoop x b i acc 2 + vadAccLoop x b i acc 3) =
      wrap32 (acc 0 + acc 1 + acc 2 + acc 3 + sqSum x i (8 * b)) := by
  induction b generalizing i acc with
  | zero => simp [vadAccLoop, sqSum]
  | succ b ih =>
    simp only [vadAccLoop]
    rw [ih]
    have e : 8 * (b + 1) = 8 + 8 * b := by omega
    rw [e, sqSum_add, sqSum_eight]
    simp only [maddSq_eq, Nat.mul_zero, Nat.add_zero, Nat.mul_one]
    generalize sqSum x (i + 8) (8 * b) = R
    generalize vadSq (x i) = q0
    generalize vadSq (x (i + 1)) = q1
    have e2 : i + 2 * 1 = i + 2 := by omega
    have e3 : i + (2 * 1 + 1) = i + 3 := by omega
    have e4 : i + 2 * 2 = i + 4 := by omega
    have e5 : i + (2 * 2 + 1) = i + 5 := by omega
    have e6 : i + 2 * 3 = i + 6 := by omega
    have e7 : i + (2 * 3 + 1) = i + 7 := by omega
    have e1 : i + (0 + 1) = i + 1 := by omega
    simp only [e1, e2, e3, e4, e5, e6, e7]
    generalize vadSq (x (i + 2)) = q2
    generalize vadSq (x (i + 3)) = q3
    generalize vadSq (x (i + 4)) = q4
    generalize vadSq (x (i + 5)) = q5
    generalize vadSq (x (i + 6)) = q6
    generalize vadSq (x (i + 7)) = q7
    unfold wrap32; omega

theorem vadEnergyC_eq (x : Nat → Int) (n : Nat) : vadEnergyC x n = wrap32 (sqSum x 0 n) := by
  unfold vadEnergyC
  cases n with
  | zero => simp [vadLoop, sqSum, wrap32]
  | succ n =>
    have h := vadLoop_eq x (n + 1) 0 0
    rw [← h.2 (by omega), h.1]; simp

theorem vadEnergySse_eq (x : Nat → Int) (n : Nat) : vadEnergySse x n = vadEnergyC x n := by
  rw [vadEnergyC_eq]
  unfold vadEnergySse
  simp only []
  have hle := Nat.mul_div_le n 8
  have hacc := vadAccLoop_eq x (n / 8) 0 (fun _ => 0)
  simp only [Int.add_zero, Int.zero_add] at hacc
  generalize vadAccLoop x (n / 8) 0 (fun _ => 0) = acc at hacc ⊢
  have hsplit : n = 8 * (n / 8) + (n - 8 * (n / 8)) := by omega
  have hS : sqSum x 0 n = sqSum x 0 (8 * (n / 8)) + sqSum x (8 * (n / 8)) (n - 8 * (n / 8)) := by
    conv_lhs => rw [hsplit]
    rw [sqSum_add]; simp
  have hsum0 : wrap32 (0 + wrap32 (wrap32 (acc 0 + acc (0 + 2)) + wrap32 (acc 1 + acc (1 + 2)))) =
      wrap32 (sqSum x 0 (8 * (n / 8))) := by
    rw [← hacc]
    have e3 : (1 + 2 : Nat) = 3 := rfl
    simp only [Nat.zero_add, e3]; unfold wrap32; omega
  by_cases hc : 0 < n - 8 * (n / 8)
  · have h := vadLoop_eq x (n - 8 * (n / 8)) (8 * (n / 8))
      (wrap32 (0 + wrap32 (wrap32 (acc 0 + acc (0 + 2)) + wrap32 (acc 1 + acc (1 + 2)))))
    rw [← h.2 hc, h.1, hsum0, wrap32_add_left, hS]
  · have h0 : n - 8 * (n / 8) = 0 := by omega
    rw [h0] at hS ⊢
    simp only [vadLoop, sqSum, Int.add_zero] at hS ⊢
    rw [hsum0, hS]

/-! ### silk_sar_round_smulww -/

theorem sarRound_avx2_eq_c (a b : Int) (bits : Nat) : sarRoundSmulwwAvx2 a b bits = sarRoundSmulwwC a b bits := rfl

/-- the 64-bit form agrees with the C expression exactly as long as `(a*b) >> 16` fits 32 bits (shown for the two
    shift counts the kernel uses, 8 and 14). -/
theorem sarRound64_eq_c_of_fits (a b : Int)
    (hfit : -2147483648 ≤ wrap32 a * wrap32 b / 65536 ∧ wrap32 a * wrap32 b / 65536 < 2147483648) :
    sarRoundSmulww64 a b 8 = sarRoundSmulwwC a b 8 ∧ sarRoundSmulww64 a b 14 = sarRoundSmulwwC a b 14 := by
  unfold sarRoundSmulww64 sarRoundSmulwwC rshiftRound smulww
  generalize wrap32 a * wrap32 b = P at hfit ⊢
  have n8 : ((8 : Nat) = 1) = False := by decide
  have n14 : ((14 : Nat) = 1) = False := by decide
  constructor
  · simp only [n8, if_false]; unfold wrap32; norm_num; omega
  · simp only [n14, if_false]; unfold wrap32; norm_num; omega

/-! ### lane helpers of NSQ_del_dec_avx2.c -/

/-- a 32-bit signed value. -/
abbrev I32 (a : Int) : Prop := -2147483648 ≤ a ∧ a < 2147483648

theorem addSatLane_eq (a b : Int) (ha : I32 a) (hb : I32 b) : addSatLane a b = addSat32C a b := by
  unfold addSatLane addSat32C wrap32 I32 at *
  by_cases h1 : a < 0 <;> by_cases h2 : b < 0 <;> by_cases h3 : (a + b + 2147483648) % 4294967296 - 2147483648 < 0 <;>
    simp [h1, h2, h3] <;> omega

theorem subSatLane_eq (a b : Int) (ha : I32 a) (hb : I32 b) : subSatLane a b = subSat32C a b := by
  unfold subSatLane subSat32C wrap32 I32 at *
  by_cases h1 : a < 0 <;> by_cases h2 : b < 0 <;> by_cases h3 : (a - b + 2147483648) % 4294967296 - 2147483648 < 0 <;>
    simp [h1, h2, h3] <;> omega

/-- both saturating operations are the mathematical clamp. -/
theorem addSat32C_clamp (a b : Int) (ha : I32 a) (hb : I32 b) :
    addSat32C a b = max (-2147483648) (min 2147483647 (a + b)) := by
  unfold addSat32C wrap32 I32 at *
  by_cases h1 : a < 0 <;> by_cases h2 : b < 0 <;> by_cases h3 : (a + b + 2147483648) % 4294967296 - 2147483648 ≥ 0 <;>
    simp [h1, h2, h3] <;> omega

theorem limitLane_eq (num l1 l2 : Int) : limitLane num l1 l2 = limit num l1 l2 := by
  unfold limitLane limit
  by_cases h : l1 > l2
  · have h' : ¬ (l1 < l2) := by omega
    simp only [h, h', if_true, if_false]
    split <;> split <;> (try split) <;> omega
  · simp only [h, if_false]
    by_cases h2 : l1 < l2
    · simp only [h2, if_true]
      split <;> split <;> (try split) <;> omega
    · have : l1 = l2 := by omega
      subst this
      simp only [h2, if_false]
      split <;> split <;> (try split) <;> omega

theorem smulwwLaneAvx2_eq (a b : Int) : wrap32 (smulwwLaneAvx2 a b) = smulww a b := by
  have := smulwwLaneSse_eq a b true
  simpa [smulwwLaneSse, smulwwLaneAvx2] using this

theorem smulwbLaneAvx2_eq (a b : Int) : wrap32 (smulwbLaneAvx2 a b) = smulwb a b := by
  have hv : -2147483648 ≤ wrap32 a ∧ wrap32 a < 2147483648 := by unfold wrap32; omega
  have hs : -32768 ≤ sext16 b ∧ sext16 b < 32768 := by unfold sext16; omega
  have e : wrap32 (b * 65536) = sext16 b * 65536 := by unfold wrap32 sext16; omega
  have hp : -70368744177664 ≤ wrap32 a * sext16 b ∧ wrap32 a * sext16 b ≤ 70368744177664 := by
    constructor <;> nlinarith [hv.1, hv.2, hs.1, hs.2]
  unfold smulwbLaneAvx2 smulwb
  rw [e]
  have e2 : wrap32 a * (sext16 b * 65536) = wrap32 a * sext16 b * 65536 := by rw [Int.mul_assoc]
  simp only [e2]
  generalize wrap32 a * sext16 b = P at hp ⊢
  show wrap32 (P * 65536 % 18446744073709551616 / 4294967296) = wrap32 (P / 65536)
  unfold wrap32; omega

/-- the rounding shift is silk_RSHIFT_ROUND for every 32-bit value and every shift count 2..30: after the first shift the
    value is below 2^30 in magnitude, so the `+1` cannot wrap. -/
theorem sraiRoundLane_eq (a : Int) (ha : I32 a) (bits : Nat) (hb : 2 ≤ bits) :
    sraiRoundLane a bits = rshiftRound a bits := by
  unfold sraiRoundLane rshiftRound
  have h1 : ¬ (bits = 1) := by omega
  simp only [h1, if_false]
  obtain ⟨k, rfl⟩ : ∃ k, bits = k + 2 := ⟨bits - 2, by omega⟩
  have e : k + 2 - 1 = k + 1 := by omega
  rw [e]
  have hm : (2 : Int) ≤ 2 ^ (k + 1) := by
    have h0 : (0 : Int) < 2 ^ k := by positivity
    have hpow : (2 : Int) ^ (k + 1) = 2 ^ k * 2 := pow_succ 2 k
    omega
  have hmpos : (0 : Int) < 2 ^ (k + 1) := by omega
  have l1 := Int.ediv_mul_le a (ne_of_gt hmpos)
  have l2 := Int.lt_ediv_add_one_mul_self a hmpos
  unfold I32 at ha
  generalize a / 2 ^ (k + 1) = q at l1 l2
  generalize (2 : Int) ^ (k + 1) = m at hm hmpos l1 l2
  have q1 : q < 1073741824 := by nlinarith
  have q2 : -1073741825 < q := by nlinarith
  unfold wrap32; omega

/-- the form before b1d58384 agreed only below its wrap point (shift counts 4 and 10). -/
theorem sraiRoundLaneOld_eq (a : Int) (ha : I32 a) :
    (a < 2147483648 - 8 → sraiRoundLaneOld a 4 = rshiftRound a 4) ∧
    (a < 2147483648 - 512 → sraiRoundLaneOld a 10 = rshiftRound a 10) := by
  unfold sraiRoundLaneOld rshiftRound wrap32 I32 at *
  have n4 : ((4 : Nat) = 1) = False := by decide
  have n10 : ((10 : Nat) = 1) = False := by decide
  constructor
  · intro h; simp only [n4, if_false]; norm_num; omega
  · intro h; simp only [n10, if_false]; norm_num; omega

theorem randLane_eq (seed : Int) : randLane seed = randC seed := by
  unfold randLane randC wrap32
  generalize seed * 196314165 = P
  omega

end Opus.Kernels
