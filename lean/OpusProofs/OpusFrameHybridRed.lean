import OpusProofs.OpusFrameHybridCelt
/-
  C08, slice Hybrid — frame level: a HYBRID frame WITH the redundancy signalling.

  `opus_frame_lockstep_hybrid_red_partial_all`: redundancy flag 1 — SILK part, the three signalling symbols, the split of
  the frame, the redundancy frame (C17's round trip on a coder of its own); the CELT main part stays the hypothesis
  `CeltFrameRT` (see the comment at the theorem).
  `opus_frame_lockstep_hybrid_nored_flag_all`: redundancy flag 0 written (the encoder's budget test passed) — the decoder
  reads 0, does not split, and the CELT part is C17's round trip: no CELT hypothesis left.
  `hybrid_red_gate_cbr`: the decoder's length test from the encoder's budget test when the CELT encoder does not shrink.
-/
namespace Opus.OpusFrameProofs
open Opus Opus.RangeCoder Opus.SilkSyms Opus.SilkSymsEnc Opus.SilkSymsEncProofs Opus.OpusFrameEnc OpusProofs.CeltHdr

/-- The decoder's length test `ec_tell+17+20 <= 8*len` (opus_decoder.c:476, `len` = the whole frame) from the encoder's
    budget test `ec_tell+17+20 <= 8*(max_data_bytes-1)` (opus_encoder.c:2239) when the main part keeps the size
    `nb_compr_bytes = (max_data_bytes-1) - redundancy_bytes` the frame encoder shrank it to (CBR: `celt_encode_with_ec`
    does not shrink further) and `redundancy_bytes <= max_data_bytes-1`. -/
theorem hybrid_red_gate_cbr (tellSilk : Int) (maxData S rb : Nat) (hS : S = maxData - 1 - rb) (hrb : rb ≤ maxData - 1)
    (henc : tellSilk + 17 + 20 ≤ 8 * ((maxData - 1 : Nat) : Int)) :
    tellSilk + 17 + 20 ≤ 8 * ((S + rb : Nat) : Int) := by
  have : S + rb = maxData - 1 := by omega
  rw [this]; exact henc

/-- The decoder's sanity test `len*8 >= ec_tell` behind the signalling (opus_decoder.c:492-497, `len` already reduced) from
    the encoder's choice `redundancy_bytes <= max_redundancy = (max_data_bytes-1)-((ec_tell+8+3+7)>>3)` (opus_encoder.c:2246-2256,
    `ec_tell` read behind the `celt_to_silk` bit), when that `IMIN` is not overridden by `IMAX(2, ·)`, the `ec_enc_uint(·, 256)`
    costs at most 8 bits and the main part keeps the size `(max_data_bytes-1) - redundancy_bytes` (CBR). -/
theorem hybrid_red_sane_cbr (tellC2s tellSig : Int) (maxData S rb : Nat) (hS : S = maxData - 1 - rb) (ht : 0 ≤ tellC2s)
    (h8 : tellSig ≤ tellC2s + 8)
    (hmax : (rb : Int) ≤ ((maxData - 1 : Nat) : Int) - (tellC2s + 8 + 3 + 7) / 8) :
    tellSig ≤ 8 * ((S : Nat) : Int) := by
  subst hS
  omega

/-- **Hybrid frame WITH redundancy** (`redundancy = 1` signalled behind the SILK data). -/
theorem opus_frame_lockstep_hybrid_red_partial_all (buf : List Nat) (maxData bandwidth nCh ms10 spf48 : Nat) (pk : PacketIn)
    (st : SilkSt) (c2s : Nat) (celtOps : List Op) (w : World) (ccfg : Opus.CeltSymsEnc.EncCfg) (s0 : Opus.CeltSymsEnc.St)
    (fr : Opus.CeltBandsEnc.EncFrame)
    (hms : ms10 = 100 ∨ ms10 = 200)
    (hs : maxData - 1 ≤ buf.length) (hb : BytesOk buf) (hok : PacketOk (hybridCfg nCh ms10) pk)
    (hc2s : c2s ≤ 1) (hown : OwnCoderFrame w ccfg s0 fr)
    (hcc : ccfg.start = 0 ∧ ccfg.end_ = Opus.CeltSyms.endBandOf bandwidth ∧ ccfg.C = nCh ∧ ccfg.LM = 1)
    (hrb : 2 ≤ w.bytes.length ∧ w.bytes.length ≤ 257)
    (hsuf : LegalRun (encRun (encInit buf (maxData - 1)) (packetOps (hybridCfg nCh ms10) pk ++ redSigOps true true 1 c2s w.bytes.length))
      (Op.shrink (maxData - 1 - w.bytes.length) :: celtOps))
    (hn : (encodeAll buf (maxData - 1) (hybridOps maxData (hybridCfg nCh ms10) pk true 1 c2s w.bytes.length celtOps)).nbitsTotal < 4294967296)
    (herr : (encodeAll buf (maxData - 1) (hybridOps maxData (hybridCfg nCh ms10) pk true 1 c2s w.bytes.length celtOps)).error = 0)
    (hgate : tell (encRun (encInit buf (maxData - 1)) (packetOps (hybridCfg nCh ms10) pk)) + 17 + 20 ≤
        8 * (((encodeAll buf (maxData - 1) (hybridOps maxData (hybridCfg nCh ms10) pk true 1 c2s w.bytes.length celtOps)).storage + w.bytes.length : Nat) : Int))
    (hsane : tell (encRun (encInit buf (maxData - 1)) (packetOps (hybridCfg nCh ms10) pk ++ redSigOps true true 1 c2s w.bytes.length)) ≤
      8 * (((encodeAll buf (maxData - 1) (hybridOps maxData (hybridCfg nCh ms10) pk true 1 c2s w.bytes.length celtOps)).storage : Nat) : Int))
    (hmainpos : 0 < (encodeAll buf (maxData - 1) (hybridOps maxData (hybridCfg nCh ms10) pk true 1 c2s w.bytes.length celtOps)).storage) :
    ∃ o, decodeOpusFrame 1001 bandwidth nCh ms10 false st
        (hybridFrame buf maxData (hybridCfg nCh ms10) pk true 1 c2s celtOps w.bytes fr.fin.rng).payload = .ok o ∧
      o.redundancy = 1 ∧ o.celtToSilk = c2s ∧ o.redundancyBytes = w.bytes.length ∧
      o.len = ((encodeAll buf (maxData - 1) (hybridOps maxData (hybridCfg nCh ms10) pk true 1 c2s w.bytes.length celtOps)).storage : Int) ∧
      o.evs = packetEvs (hybridCfg nCh ms10) pk (fun j =>
        ((encRun (encInit buf (maxData - 1)) (prefixOps (hybridCfg nCh ms10) pk j)).rng,
         tell (encRun (encInit buf (maxData - 1)) (prefixOps (hybridCfg nCh ms10) pk j)))) ∧
      o.dec.error = 0 ∧
      o.dec.rng = (encRun (encInit buf (maxData - 1)) (packetOps (hybridCfg nCh ms10) pk ++ redSigOps true true 1 c2s w.bytes.length)).rng ∧
      tell o.dec = tell (encRun (encInit buf (maxData - 1)) (packetOps (hybridCfg nCh ms10) pk ++ redSigOps true true 1 c2s w.bytes.length)) ∧
      o.dec.storage = (encodeAll buf (maxData - 1) (hybridOps maxData (hybridCfg nCh ms10) pk true 1 c2s w.bytes.length celtOps)).storage ∧
      CeltFrameRT { start := 0, end_ := CeltSyms.endBandOf bandwidth, C := nCh, LM := 1 } w.bytes.length
        (decInit w.bytes w.bytes.length) fr.fin.rng ∧
      (CeltFrameRT { start := 17, end_ := CeltSyms.endBandOf bandwidth, C := nCh, LM := CeltSyms.lmOf spf48 } o.len.toNat o.dec
          (encodeAll buf (maxData - 1) (hybridOps maxData (hybridCfg nCh ms10) pk true 1 c2s w.bytes.length celtOps)).rng →
        decRangeFinal 1001 bandwidth nCh spf48 (hybridFrame buf maxData (hybridCfg nCh ms10) pk true 1 c2s celtOps w.bytes fr.fin.rng).payload o =
          .ok (hybridFrame buf maxData (hybridCfg nCh ms10) pk true 1 c2s celtOps w.bytes fr.fin.rng).rangeFinal) := by
  have hrt := hown.rt
  obtain ⟨h1, h2, h3, h4⟩ := hcc
  rw [h1, h2, h3, h4] at hrt
  have hgr : (true = true ∧ (1 : Nat) ≠ 0) := ⟨rfl, by decide⟩
  obtain ⟨o, o1, o2, o3, o4, o5, o6, o7, o8, o9, o10, o11⟩ := opus_frame_lockstep_hybrid_all buf maxData bandwidth nCh ms10 spf48 pk st
    true 1 c2s celtOps w.bytes fr.fin.rng hms hs hb hok (by decide) hc2s (world_bytes w).2 (fun _ => hrb)
    (fun h => absurd hgr h) hsuf hn herr ⟨fun _ => rfl, fun _ => hgate⟩ hsane hmainpos
  rw [if_pos hgr] at o2 o3
  exact ⟨o, o1, o2, o3, o4, o5, o6, o7, o8, o9, o10, hrt, fun hmain => o11 hmain (fun _ => hrt) (fun h => absurd hgr h)⟩

/-- **Hybrid frame with the redundancy flag written as 0**: the encoder's budget test passed (`gate = true`), it coded
    `ec_enc_bit_logp(0, 12)`; the decoder reads 0 and does not split.  CELT part by C17: no CELT hypothesis. -/
theorem opus_frame_lockstep_hybrid_nored_flag_all (buf : List Nat) (maxData bandwidth nCh ms10 spf48 : Nat) (pk : PacketIn)
    (st : SilkSt) (ccfg : Opus.CeltSymsEnc.EncCfg) (s0 : Opus.CeltSymsEnc.St) (fr : Opus.CeltBandsEnc.EncFrame)
    (hms : ms10 = 100 ∨ ms10 = 200)
    (hs : maxData - 1 ≤ buf.length) (hb : BytesOk buf) (hok : PacketOk (hybridCfg nCh ms10) pk)
    (hsuf : LegalRun (encRun (encInit buf (maxData - 1)) (packetOps (hybridCfg nCh ms10) pk ++ redSigOps true true 0 0 0))
      (Op.shrink (maxData - 1 - 0) :: fr.ops))
    (hn29 : (encodeAll buf (maxData - 1) (hybridOps maxData (hybridCfg nCh ms10) pk true 0 0 0 fr.ops)).nbitsTotal < 536870912)
    (herr : (encodeAll buf (maxData - 1) (hybridOps maxData (hybridCfg nCh ms10) pk true 0 0 0 fr.ops)).error = 0)
    (hgate : tell (encRun (encInit buf (maxData - 1)) (packetOps (hybridCfg nCh ms10) pk)) + 17 + 20 ≤
        8 * (((encodeAll buf (maxData - 1) (hybridOps maxData (hybridCfg nCh ms10) pk true 0 0 0 fr.ops)).storage : Nat) : Int))
    (hsane : tell (encRun (encInit buf (maxData - 1)) (packetOps (hybridCfg nCh ms10) pk ++ redSigOps true true 0 0 0)) ≤
      8 * (((encodeAll buf (maxData - 1) (hybridOps maxData (hybridCfg nCh ms10) pk true 0 0 0 fr.ops)).storage : Nat) : Int))
    (hmainpos : 0 < (encodeAll buf (maxData - 1) (hybridOps maxData (hybridCfg nCh ms10) pk true 0 0 0 fr.ops)).storage)
    (hcelt : HybridCelt buf maxData (hybridCfg nCh ms10) pk true ccfg s0 fr)
    (hcc : ccfg.start = 17 ∧ ccfg.end_ = Opus.CeltSyms.endBandOf bandwidth ∧ ccfg.C = nCh ∧ ccfg.LM = Opus.CeltSyms.lmOf spf48) :
    redSigOps true true 0 0 0 = [Op.bitLogp 0 12] ∧
    ∃ o, decodeOpusFrame 1001 bandwidth nCh ms10 false st
        (hybridFrame buf maxData (hybridCfg nCh ms10) pk true 0 0 fr.ops [] 0).payload = .ok o ∧
      o.redundancy = 0 ∧ o.celtToSilk = 0 ∧ o.redundancyBytes = 0 ∧
      o.len = ((encodeAll buf (maxData - 1) (hybridOps maxData (hybridCfg nCh ms10) pk true 0 0 0 fr.ops)).storage : Int) ∧
      o.dec.storage = (encodeAll buf (maxData - 1) (hybridOps maxData (hybridCfg nCh ms10) pk true 0 0 0 fr.ops)).storage ∧
      o.evs = packetEvs (hybridCfg nCh ms10) pk (fun j =>
        ((encRun (encInit buf (maxData - 1)) (prefixOps (hybridCfg nCh ms10) pk j)).rng,
         tell (encRun (encInit buf (maxData - 1)) (prefixOps (hybridCfg nCh ms10) pk j)))) ∧
      decRangeFinal 1001 bandwidth nCh spf48 (hybridFrame buf maxData (hybridCfg nCh ms10) pk true 0 0 fr.ops [] 0).payload o =
        .ok (hybridFrame buf maxData (hybridCfg nCh ms10) pk true 0 0 fr.ops [] 0).rangeFinal := by
  refine ⟨rfl, ?_⟩
  obtain ⟨o, o1, _, o3, o4⟩ := opus_frame_lockstep_hybrid_celt_all buf maxData bandwidth nCh ms10 spf48 pk st true ccfg s0 fr hms hs hb hok
    hsuf hn29 herr ⟨fun _ => rfl, fun _ => hgate⟩ hmainpos hcelt hcc
  have hng : ¬ (true = true ∧ (0 : Nat) ≠ 0) := fun h => h.2 rfl
  obtain ⟨o', p1, p2, p3, p4, p5, _, _, _, _, p10, _⟩ := opus_frame_lockstep_hybrid_all buf maxData bandwidth nCh ms10 spf48 pk st
    true 0 0 fr.ops [] 0 hms hs hb hok (by decide) (by decide) (by intro b hb; cases hb)
    (fun h => absurd rfl h) (fun _ => rfl) hsuf
    (show (encodeAll buf (maxData - 1) (hybridOps maxData (hybridCfg nCh ms10) pk true 0 0 0 fr.ops)).nbitsTotal < 4294967296 by omega)
    herr ⟨fun _ => rfl, fun _ => by simpa using hgate⟩ hsane hmainpos
  have ho : o = o' := by
    have := o1.symm.trans p1
    injection this
  subst ho
  rw [if_neg hng] at p2 p3
  exact ⟨o, o1, p2, p3, p4, p5, p10, o3, o4⟩

end Opus.OpusFrameProofs
