import OpusModel.CeltBands
import OpusProofs.CeltSymsFrozenEq
import OpusProofs.CwrsCache
import OpusProofs.CwrsModel
import OpusProofs.CwrsU
/-
  C03, stage 2b: the band-data symbol layer (OpusModel/CeltBands.lean) never raises `fault` — for ANY allocation
  (arbitrary `pulses[]`, `fine_quant[]`, …), any decoder state and any bytes:
    * every pulse-cache row it touches lies inside `cache.bits` (index ≥ 0, `ci + cache[0]` inside the array);
    * every `ec_dec_uint` it issues has `2 ≤ ft < 2^32` — the `qn+1` of the uniform theta PDF and the `V(N,K)` of
      `decode_pulses`, which is moreover found inside the `CELT_PVQ_U` table (C17's `cache_reachable_fits`).
  The geometric invariant carried through the split recursion is `N = (eBands[i+1]-eBands[i]) << (LM+1) >> 1`.
-/
namespace Opus.CeltBandsProofs
open Opus Opus.RangeCoder Opus.CeltSymsFrozen Opus.CeltBands
open Opus.CeltSymsProofs

/-! ### entropy-decoder calls -/

theorem uint_fault (s : BSt) (ft : Nat) :
    (s.uint ft).2.fault = (s.fault || decide (ft < 2) || decide (4294967296 ≤ ft)) := by
  unfold BSt.uint
  generalize decUint s.c ft = y
  obtain ⟨v, c1⟩ := y
  rfl

theorem raw_fault (s : BSt) (n : Nat) : (s.raw n).2.fault = s.fault := by
  unfold BSt.raw
  generalize decBits s.c n = y
  obtain ⟨v, c1⟩ := y
  rfl

theorem bit_fault (s : BSt) (n : Nat) : (s.bit n).2.fault = s.fault := by
  unfold BSt.bit
  generalize decBitLogp s.c n = y
  obtain ⟨v, c1⟩ := y
  rfl

theorem decode_fault (s : BSt) (ft : Nat) : (s.decode ft).2.fault = s.fault := by
  unfold BSt.decode
  generalize RangeCoder.decode s.c ft = y
  obtain ⟨v, c1⟩ := y
  rfl

theorem update_fault (s : BSt) (fl fh ft : Nat) : (s.update fl fh ft).fault = s.fault := rfl

theorem uint_ok (s : BSt) (ft : Nat) (hs : s.fault = false) (h1 : 2 ≤ ft) (h2 : ft < 4294967296) :
    (s.uint ft).2.fault = false := by
  rw [uint_fault, hs]
  simp only [Bool.false_or, Bool.or_eq_false_iff, decide_eq_false_iff_not]
  omega

/-! ### compute_qn -/

theorem exp2_bounds (k : Nat) : 16384 ≤ exp2Table8.getD (k % 8) 0 ∧ exp2Table8.getD (k % 8) 0 ≤ 30048 := by
  have h : k % 8 < 8 := Nat.mod_lt _ (by omega)
  generalize k % 8 = m at h
  have : m = 0 ∨ m = 1 ∨ m = 2 ∨ m = 3 ∨ m = 4 ∨ m = 5 ∨ m = 6 ∨ m = 7 := by omega
  rcases this with rfl | rfl | rfl | rfl | rfl | rfl | rfl | rfl <;> decide

theorem pow_le_16384 (m : Nat) : 2 ^ (14 - m) ≤ 16384 := by
  have : (2 : Nat) ^ (14 - m) ≤ 2 ^ 14 := Nat.pow_le_pow_right (by omega) (by omega)
  omega

/-- `1 ≤ qn ≤ 30050` (in fact `≤ 256`). -/
theorem qnOfQb_bounds (qb : Int) : 1 ≤ qnOfQb qb ∧ qnOfQb qb ≤ 30050 := by
  unfold qnOfQb
  split
  · exact ⟨by omega, by omega⟩
  · generalize qb.toNat = q
    have h1 := exp2_bounds q
    have h2 := pow_le_16384 (q / 8)
    have hp : 0 < 2 ^ (14 - q / 8) := Nat.two_pow_pos _
    generalize exp2Table8.getD (q % 8) 0 = t at h1
    generalize 2 ^ (14 - q / 8) = p at h2 hp
    have h3 : 1 ≤ t / p := (Nat.le_div_iff_mul_le hp).2 (by omega)
    have h4 : t / p ≤ t := Nat.div_le_self _ _
    generalize t / p = d at h3 h4
    exact ⟨by omega, by omega⟩

theorem computeQn_bounds (N : Nat) (b offset pulseCap : Int) (stereo : Bool) :
    1 ≤ computeQn N b offset pulseCap stereo ∧ computeQn N b offset pulseCap stereo ≤ 30050 := by
  unfold computeQn
  exact qnOfQb_bounds _

/-! ### compute_theta -/

theorem thetaStep_fault (s : BSt) (qn : Nat) : (thetaStep s qn).2.fault = s.fault := by
  unfold thetaStep
  have h := decode_fault s (3 * (qn / 2 + 1) + qn / 2)
  generalize s.decode (3 * (qn / 2 + 1) + qn / 2) = y at h
  obtain ⟨fs, s1⟩ := y
  dsimp only at h ⊢
  rw [update_fault]
  exact h

theorem thetaTri_fault (s : BSt) (qn : Nat) : (thetaTri s qn).2.fault = s.fault := by
  unfold thetaTri
  have h := decode_fault s ((qn / 2 + 1) * (qn / 2 + 1))
  generalize s.decode ((qn / 2 + 1) * (qn / 2 + 1)) = y at h
  obtain ⟨fs, s1⟩ := y
  dsimp only at h ⊢
  split
  · dsimp only
    rw [update_fault]
    exact h
  · dsimp only
    rw [update_fault]
    exact h

theorem thetaRead_fault (stereo : Bool) (N : Nat) (b : Int) (B0 qn : Nat) (s : BSt) (hs : s.fault = false)
    (h1 : 1 ≤ qn) (h2 : qn ≤ 30050) : (thetaRead stereo N b B0 qn s).2.fault = false := by
  unfold thetaRead
  split
  · rename_i hq
    have key : (if stereo = true ∧ N > 2 then thetaStep s qn else if B0 > 1 ∨ stereo = true then s.uint (qn + 1)
        else thetaTri s qn).2.fault = false := by
      split
      · rw [thetaStep_fault]; exact hs
      · split
        · exact uint_ok s (qn + 1) hs (by omega) (by omega)
        · rw [thetaTri_fault]; exact hs
    generalize (if stereo = true ∧ N > 2 then thetaStep s qn else if B0 > 1 ∨ stereo = true then s.uint (qn + 1)
        else thetaTri s qn) = y at key
    obtain ⟨it, s1⟩ := y
    exact key
  · split
    · split
      · have h := bit_fault s 2
        generalize s.bit 2 = y at h
        obtain ⟨v, s1⟩ := y
        dsimp only at h ⊢
        rw [h]; exact hs
      · exact hs
    · exact hs

theorem computeTheta_fault (i intensity : Nat) (stereo : Bool) (N : Nat) (b : Int) (B0 : Nat) (lm : Int) (s : BSt)
    (hs : s.fault = false) : (computeTheta i intensity stereo N b B0 lm s).2.fault = false := by
  unfold computeTheta
  have hq : 1 ≤ (if stereo = true ∧ i ≥ intensity then 1
           else computeQn N b ((logN.getD i 0 + lm * 8) / 2 - (if stereo = true ∧ N = 2 then 16 else 4))
                  (logN.getD i 0 + lm * 8) stereo) ∧
      (if stereo = true ∧ i ≥ intensity then 1
           else computeQn N b ((logN.getD i 0 + lm * 8) / 2 - (if stereo = true ∧ N = 2 then 16 else 4))
                  (logN.getD i 0 + lm * 8) stereo) ≤ 30050 := by
    split
    · omega
    · exact computeQn_bounds _ _ _ _ _
  generalize (if stereo = true ∧ i ≥ intensity then 1
           else computeQn N b ((logN.getD i 0 + lm * 8) / 2 - (if stereo = true ∧ N = 2 then 16 else 4))
                  (logN.getD i 0 + lm * 8) stereo) = qn at hq
  have h := thetaRead_fault stereo N b B0 qn s hs hq.1 hq.2
  generalize thetaRead stereo N b B0 qn s = y at h
  obtain ⟨it, s1⟩ := y
  exact h

/-! ### the pulse cache -/

/-- `N` of band `i` at `LM+1 = lm1` (C17's `Rate.bandN` on the frozen band edges). -/
def bandNOf (lm1 i : Nat) : Nat := (eBands.getD (i + 1) 0 - eBands.getD i 0) * 2 ^ lm1 / 2

theorem rows_ok : ∀ lm1, lm1 < 5 → ∀ i, i < 21 → 2 ≤ bandNOf lm1 i → rowOk (rowOf lm1 i) = true := by decide +kernel
theorem halves : ∀ lm, lm < 4 → ∀ i, i < 21 → 2 < bandNOf (lm + 1) i → 2 ≤ bandNOf lm i := by decide +kernel
theorem widths : ∀ i, i < 21 → 1 ≤ eBands.getD (i + 1) 0 - eBands.getD i 0 := by decide +kernel

theorem bandNOf_half (lm i : Nat) : bandNOf (lm + 1) i / 2 = bandNOf lm i := by
  unfold bandNOf
  rw [Nat.pow_succ, ← Nat.mul_assoc, Nat.mul_div_cancel _ (by omega : 0 < 2)]

theorem bandNOf_top (LM i : Nat) : 2 ^ LM * (eBands.getD (i + 1) 0 - eBands.getD i 0) = bandNOf (LM + 1) i := by
  unfold bandNOf
  rw [Nat.pow_succ, ← Nat.mul_assoc, Nat.mul_div_cancel _ (by omega : 0 < 2), Nat.mul_comm]

theorem b2pLoop_le (row : Nat → Nat) (bits : Int) : ∀ (n lo hi : Nat), lo ≤ hi →
    (Rate.b2pLoop row bits n lo hi).1 ≤ hi ∧ (Rate.b2pLoop row bits n lo hi).2 ≤ hi
  | 0, lo, hi, h => by unfold Rate.b2pLoop; exact ⟨h, Nat.le_refl _⟩
  | n + 1, lo, hi, h => by
    unfold Rate.b2pLoop
    dsimp only
    split
    · have := b2pLoop_le row bits n lo ((lo + hi + 1) / 2) (by omega)
      omega
    · exact b2pLoop_le row bits n ((lo + hi + 1) / 2) hi (by omega)

theorem ite_le {c : Prop} [Decidable c] {a b m : Nat} (ha : a ≤ m) (hb : b ≤ m) : (if c then a else b) ≤ m := by
  split <;> assumption

theorem bits2pulsesRow_le (row : Nat → Nat) (bits : Int) : Rate.bits2pulsesRow row bits ≤ row 0 := by
  unfold Rate.bits2pulsesRow
  dsimp only
  have := b2pLoop_le row (bits - 1) Gen.CeltTables.LOG_MAX_PSEUDO 0 (row 0) (by omega)
  exact ite_le this.1 this.2

theorem lowerQ_le (ci : Int) : ∀ (q : Nat) (curr rem : Int), (lowerQ ci q curr rem).1 ≤ q
  | 0, _, _ => by unfold lowerQ; exact Nat.le_refl _
  | q + 1, curr, rem => by
    unfold lowerQ
    split
    · have := lowerQ_le ci q (p2b ci q) (rem + curr - p2b ci q)
      omega
    · exact Nat.le_refl _

theorem U_pos (n k : Nat) : 1 ≤ Cwrs.U (n + 1) (k + 1) := by
  have := OpusProofs.CwrsU.U_mono n (show 1 ≤ k + 1 by omega)
  rw [OpusProofs.CwrsU.U_succ_one] at this
  exact this

theorem V_ge_two (n k : Nat) (hn : 1 ≤ n) (hk : 1 ≤ k) : 2 ≤ Cwrs.V n k := by
  obtain ⟨n', rfl⟩ : ∃ n', n = n' + 1 := ⟨n - 1, by omega⟩
  obtain ⟨k', rfl⟩ : ∃ k', k = k' + 1 := ⟨k - 1, by omega⟩
  unfold Cwrs.V
  have h1 := U_pos n' k'
  have h2 := U_pos n' (k' + 1)
  omega

theorem getD_some {l : List Int} {idx : Nat} {v : Int} (h : l.getD idx (-1) = v) (hv : 0 ≤ v) : l[idx]? = some v := by
  rw [List.getD_eq_getElem?_getD] at h
  cases hx : l[idx]? with
  | none => rw [hx] at h; simp at h; omega
  | some w => rw [hx] at h; simp at h; rw [h]

/-- The `V(N,K)` of a reachable cache entry is read inside the table and lies in `[2, 2^32)`. -/
theorem pvqFt_ok (lm1 i q : Nat) (hl : lm1 < 5) (hi : i < 21) (hN : 2 ≤ bandNOf lm1 i) (hq1 : 1 ≤ q)
    (hq : q ≤ cacheAt (rowOf lm1 i) 0) :
    2 ≤ pvqFt (bandNOf lm1 i) (Rate.getPulses q) ∧ pvqFt (bandNOf lm1 i) (Rate.getPulses q) < 4294967296 := by
  have hrow := rows_ok lm1 hl i hi hN
  unfold rowOk at hrow
  simp only [Bool.and_eq_true, decide_eq_true_eq] at hrow
  have hci : Gen.CeltTables.cacheIndex[lm1 * Gen.CeltTables.nbEBands + i]? = some (Int.ofNat (rowOf lm1 i).toNat) := by
    rw [← frozen_cacheIndex, ← frozen_nbEBands]
    have : Int.ofNat (rowOf lm1 i).toNat = rowOf lm1 i := Int.toNat_of_nonneg hrow.1
    rw [this]
    exact getD_some rfl hrow.1
  have hreach : OpusProofs.CwrsCache.Reach (bandNOf lm1 i) (Rate.getPulses q)
      (Gen.CeltTables.cacheBits.getD ((rowOf lm1 i).toNat + q) 0) := by
    refine ⟨lm1, i, (rowOf lm1 i).toNat, q, ?_, ?_, hci, hq1, ?_, ?_, rfl, rfl⟩
    · show lm1 ≤ 3 + 1
      omega
    · show i < 21
      exact hi
    · rw [← frozen_cacheBits]
      unfold cacheAt at hq
      simpa using hq
    · unfold bandNOf Rate.bandN
      rw [← frozen_eBands]
  obtain ⟨hk, hag, hv, _⟩ := OpusProofs.CwrsCache.reach_facts hreach
  have hft : pvqFt (bandNOf lm1 i) (Rate.getPulses q) = Cwrs.V (bandNOf lm1 i) (Rate.getPulses q) := by
    unfold pvqFt Cwrs.decodePulsesFt
    rw [OpusProofs.CwrsModel.pvqV_agree hag (Nat.le_refl _) (Nat.le_refl _)]
  rw [hft]
  exact ⟨V_ge_two _ _ (by omega) hk, hv⟩

/-! ### quant_partition -/

theorem leaf_fault (i lm1 : Nat) (b : Int) (s : BSt) (hs : s.fault = false) (hl : lm1 < 5) (hi : i < 21)
    (hN : 2 ≤ bandNOf lm1 i) : (leaf i lm1 (bandNOf lm1 i) b s).fault = false := by
  unfold leaf
  have hle := lowerQ_le (rowOf lm1 i) (Rate.bits2pulsesRow (cacheAt (rowOf lm1 i)) b)
          (p2b (rowOf lm1 i) (Rate.bits2pulsesRow (cacheAt (rowOf lm1 i)) b))
          (s.rem - p2b (rowOf lm1 i) (Rate.bits2pulsesRow (cacheAt (rowOf lm1 i)) b))
  have hb := bits2pulsesRow_le (cacheAt (rowOf lm1 i)) b
  generalize lowerQ (rowOf lm1 i) (Rate.bits2pulsesRow (cacheAt (rowOf lm1 i)) b)
          (p2b (rowOf lm1 i) (Rate.bits2pulsesRow (cacheAt (rowOf lm1 i)) b))
          (s.rem - p2b (rowOf lm1 i) (Rate.bits2pulsesRow (cacheAt (rowOf lm1 i)) b)) = y at hle
  obtain ⟨q, rem⟩ := y
  dsimp only at hle ⊢
  have hrow := rows_ok lm1 hl i hi hN
  have hs' : (s.fault || !rowOk (rowOf lm1 i)) = false := by rw [hs, hrow]; rfl
  split
  · rename_i hq
    have hp := pvqFt_ok lm1 i q hl hi hN (by omega) (by omega)
    exact uint_ok _ _ hs' hp.1 hp.2
  · exact hs'

theorem splitRun_fault (f : Int → BSt → BSt) (hf : ∀ b s, s.fault = false → (f b s).fault = false)
    (mbits sbits : Int) (itheta : Nat) (s : BSt) (hs : s.fault = false) :
    (splitRun f mbits sbits itheta s).fault = false := by
  unfold splitRun
  split
  · exact hf _ _ (hf _ _ hs)
  · exact hf _ _ (hf _ _ hs)

theorem splitGo_fault (f : Int → BSt → BSt) (hf : ∀ b s, s.fault = false → (f b s).fault = false)
    (th : Theta) (delta : Int) (s : BSt) (hs : s.fault = false) : (splitGo f th delta s).fault = false := by
  unfold splitGo
  exact splitRun_fault f hf _ _ _ _ hs

theorem quantPartition_fault (i : Nat) (hi : i < 21) : ∀ (lm1 : Nat) (b : Int) (B : Nat) (s : BSt), lm1 < 5 →
    2 ≤ bandNOf lm1 i → s.fault = false → (quantPartition i lm1 (bandNOf lm1 i) b B s).fault = false
  | 0, b, B, s, hl, hN, hs => by
    unfold quantPartition
    exact leaf_fault i 0 b s hs hl hi hN
  | lm + 1, b, B, s, hl, hN, hs => by
    unfold quantPartition
    split
    · rename_i hc
      have hrow := rows_ok (lm + 1) hl i hi hN
      have hs' : ({ s with fault := s.fault || !rowOk (rowOf (lm + 1) i) } : BSt).fault = false := by
        show (s.fault || !rowOk (rowOf (lm + 1) i)) = false
        rw [hs, hrow]; rfl
      have ht := computeTheta_fault i 0 false (bandNOf (lm + 1) i / 2) b B ((lm : Int) - 1) _ hs'
      generalize computeTheta i 0 false (bandNOf (lm + 1) i / 2) b B ((lm : Int) - 1)
        { s with fault := s.fault || !rowOk (rowOf (lm + 1) i) } = y at ht
      obtain ⟨th, s1⟩ := y
      dsimp only at ht ⊢
      apply splitGo_fault _ _ _ _ _ ht
      intro b' s' hs''
      rw [bandNOf_half]
      exact quantPartition_fault i hi lm b' ((B + 1) / 2) s' (by omega) (halves lm (by omega) i hi hc.2) hs''
    · exact leaf_fault i (lm + 1) b s hs hl hi hN

/-! ### quant_band, quant_band_stereo -/

theorem n1One_fault (s : BSt) : (n1One s).fault = s.fault := by
  unfold n1One
  split
  · have h := raw_fault s 1
    generalize s.raw 1 = y at h
    obtain ⟨v, s1⟩ := y
    exact h
  · rfl

theorem quantBand_fault (i lm1 : Nat) (B : Nat) (tf : Int) (b : Int) (s : BSt) (hi : i < 21) (hl : lm1 < 5)
    (hN : 1 ≤ bandNOf lm1 i) (hs : s.fault = false) : (quantBand i lm1 (bandNOf lm1 i) B tf b s).fault = false := by
  unfold quantBand
  split
  · rw [n1One_fault]; exact hs
  · exact quantPartition_fault i hi lm1 b _ s hl (by omega) hs

theorem stereoN2_fault (i lm1 : Nat) (B : Nat) (tf : Int) (th : Theta) (s : BSt) (hi : i < 21) (hl : lm1 < 5)
    (hN : bandNOf lm1 i = 2) (hs : s.fault = false) : (stereoN2 i lm1 B tf th s).fault = false := by
  unfold stereoN2
  split
  · have h := raw_fault { s with rem := s.rem - (th.qalloc + 8) } 1
    generalize ({ s with rem := s.rem - (th.qalloc + 8) } : BSt).raw 1 = y at h
    obtain ⟨v, s1⟩ := y
    dsimp only at h ⊢
    rw [← hN]
    exact quantBand_fault i lm1 B tf _ s1 hi hl (by omega) (by rw [h]; exact hs)
  · rw [← hN]
    exact quantBand_fault i lm1 B tf _ _ hi hl (by omega) hs

theorem quantBandStereo_fault (i lm1 : Nat) (B : Nat) (tf : Int) (intensity : Nat) (b : Int) (s : BSt) (hi : i < 21)
    (hl : lm1 < 5) (hN : 1 ≤ bandNOf lm1 i) (hs : s.fault = false) :
    (quantBandStereo i lm1 (bandNOf lm1 i) B tf intensity b s).fault = false := by
  unfold quantBandStereo
  split
  · rw [n1One_fault, n1One_fault]; exact hs
  · have ht := computeTheta_fault i intensity true (bandNOf lm1 i) b B ((lm1 : Int) - 1) s hs
    generalize computeTheta i intensity true (bandNOf lm1 i) b B ((lm1 : Int) - 1) s = y at ht
    obtain ⟨th, s1⟩ := y
    dsimp only at ht ⊢
    split
    · rename_i h2
      exact stereoN2_fault i lm1 B tf th s1 hi hl h2 ht
    · exact splitGo_fault _ (fun b' s' hs' => quantBand_fault i lm1 B tf b' s' hi hl hN hs') _ _ _ ht

/-! ### quant_all_bands, fine energy, finalise -/

theorem bandOne_fault (p : BandsIn) (i : Nat) (dual : Bool) (b : Int) (s : BSt) (hi : i < 21) (hl : p.LM < 4)
    (hs : s.fault = false) : (bandOne p i dual b s).fault = false := by
  have hN : 1 ≤ bandNOf (p.LM + 1) i := by
    rw [← bandNOf_top]
    have h1 := widths i hi
    have h2 : 0 < 2 ^ p.LM := Nat.two_pow_pos _
    exact Nat.mul_pos h2 h1
  unfold bandOne
  rw [bandNOf_top]
  split
  · exact quantBand_fault _ _ _ _ _ _ hi (by omega) hN (quantBand_fault _ _ _ _ _ _ hi (by omega) hN hs)
  · split
    · exact quantBandStereo_fault _ _ _ _ _ _ _ hi (by omega) hN hs
    · exact quantBand_fault _ _ _ _ _ _ hi (by omega) hN hs

theorem bandLoop_fault (p : BandsIn) (hl : p.LM < 4) : ∀ (k i : Nat) (dual : Bool) (balance : Int) (s : BSt),
    i + k ≤ 21 → s.fault = false → (bandLoop p k i dual balance s).fault = false
  | 0, _, _, _, s, _, hs => by unfold bandLoop; exact hs
  | k + 1, i, dual, balance, s, hik, hs => by
    unfold bandLoop
    exact bandLoop_fault p hl k (i + 1) _ _ _ (by omega) (bandOne_fault p i _ _ _ (by omega) hl hs)

theorem rawN_fault (bits : Nat) : ∀ (n : Nat) (s : BSt), (rawN bits n s).fault = s.fault
  | 0, s => by unfold rawN; rfl
  | n + 1, s => by unfold rawN; rw [rawN_fault bits n, raw_fault]

theorem fineLoop_fault (C : Nat) : ∀ (l : List Int) (s : BSt), (fineLoop C l s).fault = s.fault
  | [], s => by unfold fineLoop; rfl
  | fq :: r, s => by
    unfold fineLoop
    rw [fineLoop_fault C r]
    split
    · exact rawN_fault _ _ _
    · rfl

theorem finalPass_fault (C : Nat) (prio : Int) : ∀ (l : List (Int × Int)) (bl : Int) (s : BSt),
    (finalPass C prio l bl s).2.fault = s.fault
  | [], bl, s => by unfold finalPass; rfl
  | (fq, pr) :: r, bl, s => by
    unfold finalPass
    split
    · rfl
    · split
      · exact finalPass_fault C prio r bl s
      · rw [finalPass_fault C prio r, rawN_fault]

theorem finalise_fault (C : Nat) (fp : List (Int × Int)) (bl : Int) (s : BSt) : (finalise C fp bl s).fault = s.fault := by
  unfold finalise
  have h := finalPass_fault C 0 fp bl s
  generalize finalPass C 0 fp bl s = y at h
  obtain ⟨bl1, s1⟩ := y
  dsimp only at h ⊢
  rw [finalPass_fault, h]

/-- Everything behind the allocation is fault-free, whatever the allocation returned. -/
theorem afterAlloc_fault (cfg : CeltSyms.CeltCfg) (len : Nat) (h : CeltSyms.CeltHdr) (o : CeltAlloc.Out) (s : BSt)
    (hl : cfg.LM < 4) (hse : cfg.start ≤ cfg.end_) (he : cfg.end_ ≤ 21) (hs : s.fault = false) : (afterAlloc cfg len h o s).fault = false := by
  unfold afterAlloc
  dsimp only
  rw [finalise_fault]
  have h1 : (bandLoop (bandsIn cfg len h o) (cfg.end_ - cfg.start) cfg.start (o.dualStereo ≠ 0) o.balance
          (fineLoop cfg.C (o.bands.map (·.ebits)) s)).fault = false :=
    bandLoop_fault _ hl _ _ _ _ _ (by omega) (by rw [fineLoop_fault]; exact hs)
  split
  · rw [raw_fault]; exact h1
  · exact h1

end Opus.CeltBandsProofs
