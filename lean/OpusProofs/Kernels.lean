import OpusModel.Kernels
import Mathlib.Tactic.Ring
/-
  OpusProofs.Kernels — lane decomposition = sequential sum, in any commutative semiring
  (helper lemmas for OpusProps/C15.lean, clause (iii)).
-/
namespace Opus.Kernels

variable {α : Type} [CommSemiring α]

/-! ### sequential sums -/

theorem sumRange_succ_front (f : Nat → α) (n : Nat) :
    sumRange f (n + 1) = f 0 + sumRange (fun i => f (i + 1)) n := by
  induction n with
  | zero => simp [sumRange]
  | succ n ih =>
    have h : sumRange f (n + 1 + 1) = sumRange f (n + 1) + f (n + 1) := rfl
    rw [h, ih]
    have h2 : sumRange (fun i => f (i + 1)) (n + 1) = sumRange (fun i => f (i + 1)) n + f (n + 1) := rfl
    rw [h2]; ring

theorem sumRange_add (f : Nat → α) (a b : Nat) :
    sumRange f (a + b) = sumRange f a + sumRange (fun j => f (a + j)) b := by
  induction b with
  | zero => simp [sumRange]
  | succ b ih =>
    have h : sumRange f (a + (b + 1)) = sumRange f (a + b) + f (a + b) := rfl
    have h2 : sumRange (fun j => f (a + j)) (b + 1) = sumRange (fun j => f (a + j)) b + f (a + b) := rfl
    rw [h, h2, ih]; ring

theorem sumRange_congr {f g : Nat → α} (n : Nat) (h : ∀ i, i < n → f i = g i) :
    sumRange f n = sumRange g n := by
  induction n with
  | zero => rfl
  | succ n ih =>
    show sumRange f n + f n = sumRange g n + g n
    rw [ih (fun i hi => h i (Nat.lt_succ_of_lt hi)), h n (Nat.lt_succ_self n)]

theorem sumRange_zero_fn (n : Nat) : sumRange (fun _ => (0 : α)) n = 0 := by
  induction n with
  | zero => rfl
  | succ n ih => show sumRange (fun _ => (0 : α)) n + 0 = 0; rw [ih]; ring

theorem tailLoop_eq (f : Nat → α) (c i : Nat) (acc : α) :
    tailLoop f c i acc = acc + sumRange (fun j => f (i + j)) c := by
  induction c generalizing i acc with
  | zero => simp [tailLoop, sumRange]
  | succ c ih =>
    show tailLoop f c (i + 1) (acc + f i) = _
    rw [ih, sumRange_succ_front]
    have : (fun j => f (i + 1 + j)) = (fun j => f (i + (j + 1))) := by
      funext j; congr 1; omega
    rw [this]; simp only [Nat.add_zero]; ring

theorem accLoop_eq (step : Nat) (term : Nat → Vec α) (b i : Nat) (acc : Vec α) (l : Nat) :
    accLoop step term b i acc l = acc l + sumRange (fun k => term (i + step * k) l) b := by
  induction b generalizing i acc with
  | zero => simp [accLoop, sumRange]
  | succ b ih =>
    show accLoop step term b (i + step) (fun l => acc l + term i l) l = _
    rw [ih, sumRange_succ_front]
    have : (fun k => term (i + step + step * k) l) = (fun k => term (i + step * (k + 1)) l) := by
      funext k
      have e : i + step + step * k = i + step * (k + 1) := by rw [Nat.mul_succ]; omega
      rw [e]
    rw [this]; simp only [Nat.mul_zero, Nat.add_zero]; ring

theorem fmaLoop_eq (step : Nat) (term : Nat → Vec α) (b i : Nat) (acc : Vec α) (l : Nat) :
    fmaLoop step term b i acc l = acc l + sumRange (fun k => term (i + step * k) l) b := by
  induction b generalizing i acc with
  | zero => simp [fmaLoop, sumRange]
  | succ b ih =>
    show fmaLoop step term b (i + step) (fun l => term i l + acc l) l = _
    rw [ih, sumRange_succ_front]
    have : (fun k => term (i + step + step * k) l) = (fun k => term (i + step * (k + 1)) l) := by
      funext k
      have e : i + step + step * k = i + step * (k + 1) := by rw [Nat.mul_succ]; omega
      rw [e]
    rw [this]; simp only [Nat.mul_zero, Nat.add_zero]; ring

/-- 4-lane strided partial sums add up to the sequential sum over `4*b` elements. -/
theorem lanes4 (f : Nat → α) (b : Nat) :
    sumRange f (4 * b) =
      (sumRange (fun k => f (4 * k)) b + sumRange (fun k => f (4 * k + 2)) b) +
      (sumRange (fun k => f (4 * k + 1)) b + sumRange (fun k => f (4 * k + 3)) b) := by
  induction b with
  | zero => simp [sumRange]
  | succ b ih =>
    have h : sumRange f (4 * (b + 1)) =
        sumRange f (4 * b) + f (4 * b) + f (4 * b + 1) + f (4 * b + 2) + f (4 * b + 3) := rfl
    rw [h, ih]
    simp only [sumRange]; ring

/-- 8-lane strided partial sums add up to the sequential sum over `8*b` elements. -/
theorem lanes8 (f : Nat → α) (b : Nat) :
    sumRange f (8 * b) =
      ((sumRange (fun k => f (8 * k)) b + sumRange (fun k => f (8 * k + 4)) b) +
       (sumRange (fun k => f (8 * k + 1)) b + sumRange (fun k => f (8 * k + 5)) b)) +
      ((sumRange (fun k => f (8 * k + 2)) b + sumRange (fun k => f (8 * k + 6)) b) +
       (sumRange (fun k => f (8 * k + 3)) b + sumRange (fun k => f (8 * k + 7)) b)) := by
  induction b with
  | zero => simp [sumRange]
  | succ b ih =>
    have h : sumRange f (8 * (b + 1)) =
        sumRange f (8 * b) + f (8 * b) + f (8 * b + 1) + f (8 * b + 2) + f (8 * b + 3)
          + f (8 * b + 4) + f (8 * b + 5) + f (8 * b + 6) + f (8 * b + 7) := rfl
    rw [h, ih]
    simp only [sumRange]; ring

/-- split `n` into full blocks and remainder. -/
theorem sumRange_blocks (f : Nat → α) (n L : Nat) :
    sumRange f n = sumRange f (L * (n / L)) + sumRange (fun j => f (L * (n / L) + j)) (n - L * (n / L)) := by
  have h : n = L * (n / L) + (n - L * (n / L)) := by
    have := Nat.mul_div_le n L; omega
  conv_lhs => rw [h]
  exact sumRange_add f _ _

/-! ### celt_inner_prod_sse, dual_inner_prod_sse -/

theorem hsumSse_eq (s : Vec α) : hsumSse s = (s 0 + s 2) + (s 1 + s 3) := by
  simp [hsumSse, vadd, movehlPs, addSs, shufflePs]

theorem innerProdSse_eq (x y : Nat → α) (N : Nat) : innerProdSse x y N = innerProdC x y N := by
  unfold innerProdSse innerProdC
  simp only []
  rw [tailLoop_eq, hsumSse_eq]
  simp only [accLoop_eq, vzero, vmul, loadu, zero_add]
  rw [sumRange_blocks (fun i => x i * y i) N 4, lanes4]
  simp only [Nat.add_zero]

theorem dualInnerProdSse_eq (x y1 y2 : Nat → α) (N : Nat) :
    dualInnerProdSse x y1 y2 N = dualInnerProdC x y1 y2 N := by
  have h1 := innerProdSse_eq x y1 N
  have h2 := innerProdSse_eq x y2 N
  unfold innerProdSse innerProdC at h1 h2
  unfold dualInnerProdSse dualInnerProdC
  simp only [] at h1 h2 ⊢
  rw [h1, h2]

end Opus.Kernels
