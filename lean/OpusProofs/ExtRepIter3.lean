import OpusProofs.ExtRepIter2
/-
  C16 helper lemmas, part 14: a whole repeat block — all source extensions against one later frame
  (`rep_inner`), then all later frames (`rep_outer`).
-/
set_option linter.unusedVariables false
namespace Opus.ExtProofs
open Opus Opus.Ext

/-- Bytes of the source region: the repeated extensions of the current frame, written in full. -/
def srcBytes (as : List Ext) : List Nat := as.flatMap (fun a => extBytes a false)

theorem srcBytes_cons (a : Ext) (as : List Ext) : srcBytes (a :: as) = extBytes a false ++ srcBytes as := by
  simp [srcBytes]

/-- `xs` matches `as` position by position (same ID; same length for short IDs), same length. -/
inductive MatchL : List Ext → List Ext → Prop
  | nil : MatchL [] []
  | cons {x a : Ext} {xs as : List Ext} : matchB x a = true → MatchL xs as → MatchL (x :: xs) (a :: as)

/-- The position `z` whose length bytes are dropped is exactly where the iterator forces `L = 0`
    (`repeat_l == 0`, last frame, source pointer = `last_long`), and that extension is a long one. -/
def ZOk (L g nbF : Nat) (ll : Option Nat) (z : Option Nat) : Nat → Nat → List Ext → Prop
  | _, _, [] => True
  | k, sq, a :: as =>
    ((L = 0 ∧ g + 1 ≥ nbF ∧ some (sq + (extBytes a false).length) = ll) ↔ z = some k) ∧
    (z = some k → 32 ≤ a.id) ∧ ZOk L g nbF ll z (k + 1) (sq + (extBytes a false).length) as

/-- After the forced extension exactly `T` bytes remain in the buffer. -/
def TOk (T : Int) (z : Option Nat) (restLen : Nat) : Nat → List Ext → Prop
  | _, [] => True
  | k, x :: xs => (z = some k → (((repPayloads z (k + 1) xs).length + restLen : Nat) : Int) = T) ∧ TOk T z restLen (k + 1) xs

theorem rep_inner {d : Array Nat} {nbF f g L p0 plen : Nat} {ll : Option Nat} {T : Int} {z : Option Nat} {rest : List Nat}
    (hg0 : 0 < g) (hg : g < nbF) :
    ∀ (as xs : List Ext) (k sq p : Nat) (it : Iter),
    RSt d nbF f g L p0 plen sq (srcBytes as).length p ll T it →
    (∀ a ∈ as, ValidExt nbF a) → (∀ x ∈ xs, ValidExt nbF x ∧ x.frame.toNat = g) →
    MatchL xs as →
    ZOk L g nbF ll z k sq as → TOk T z rest.length k xs →
    At d sq (srcBytes as) → At d p (repPayloads z k xs ++ rest) →
    p + (repPayloads z k xs).length + rest.length = d.size →
    ∃ it', Steps d it it' (xs.map normExt) ∧
      RSt d nbF f g L p0 plen (sq + (srcBytes as).length) 0 (p + (repPayloads z k xs).length) ll T it' := by
  intro as
  induction as with
  | nil =>
    intro xs k sq p it hR _ _ hm _ _ _ _ _
    cases hm
    exact ⟨it, Steps.refl d it, by simpa [srcBytes, repPayloads] using hR⟩
  | cons a as ih =>
    intro xs k sq p it hR hva hvx hm hz ht hsrc hat hend
    cases hm with
    | cons hxa hrest =>
      rename_i x xs'
      obtain ⟨hz1, hz2, hz3⟩ := hz
      obtain ⟨ht1, ht2⟩ := ht
      rw [srcBytes_cons] at hsrc hR
      simp only [List.length_append] at hR
      simp only [repPayloads, List.append_assoc, List.length_append] at hat hend
      obtain ⟨hsrc1, hsrc2⟩ := hsrc.append
      have hvx1 := hvx x (List.mem_cons_self ..)
      obtain ⟨it1, hs1, hR1⟩ := rep_step hR hg0 hg (hva a (List.mem_cons_self ..)) hvx1.1 hvx1.2 hxa
        (decide (z = some k)) (by
          by_cases hzk : z = some k
          · simp only [hzk, decide_true]; symm; rw [decide_eq_true_eq]; exact hz1.mpr hzk
          · simp only [hzk, decide_false]; symm; rw [decide_eq_false_iff_not]; exact fun h => hzk (hz1.mp h))
        (by intro h; exact hz2 (by simpa using h)) hsrc1 hat (by simp only [List.length_append]; omega)
        (by intro h; have := ht1 (by simpa using h); rw [← this]; simp)
      obtain ⟨it2, hs2, hR2⟩ := ih xs' (k + 1) _ _ it1 hR1 (fun a' ha' => hva a' (List.mem_cons_of_mem _ ha'))
        (fun x' hx' => hvx x' (List.mem_cons_of_mem _ hx')) hrest hz3 ht2 hsrc2 (hat.append).2 (by omega)
      refine ⟨it2, ?_, ?_⟩
      · have := hs1.trans hs2
        simpa using this
      · rw [srcBytes_cons]
        simp only [List.length_append, repPayloads]
        have e1 : sq + ((extBytes a false).length + (srcBytes as).length) = sq + (extBytes a false).length + (srcBytes as).length := by omega
        have e2 : p + ((extBytes x (decide (z = some k))).tail.length + (repPayloads z (k + 1) xs').length) =
            p + (extBytes x (decide (z = some k))).tail.length + (repPayloads z (k + 1) xs').length := by omega
        rw [e1, e2]; exact hR2

theorem ZOk_none {L g nbF : Nat} {ll : Option Nat} (hg : g + 1 < nbF) : ∀ (as : List Ext) (k sq : Nat), ZOk L g nbF ll none k sq as := by
  intro as
  induction as with
  | nil => intro _ _; trivial
  | cons a as ih =>
    intro k sq
    refine ⟨⟨fun h => by omega, fun h => (by cases h)⟩, fun h => (by cases h), ih _ _⟩

theorem TOk_none {T : Int} {n : Nat} : ∀ (xs : List Ext) (k : Nat), TOk T none n k xs := by
  intro xs
  induction xs with
  | nil => intro _; trivial
  | cons x xs ih => intro k; exact ⟨fun h => (by cases h), ih _⟩

theorem repBlock_cons2 (R : Nat) (last : Bool) (ll : Option Nat) (r r' : List Ext) (rs : List (List Ext)) :
    repBlock R last ll (r :: r' :: rs) = repPayloads none 0 (r.take R) ++ repBlock R last ll (r' :: rs) := rfl

/-- All later frames of a repeat block. -/
theorem rep_outer {d : Array Nat} {nbF f L p0 k : Nat} {ll : Option Nat} {T : Int} {pre : List Ext} {R : Nat}
    {last : Bool} {rest : List Nat} (hf : f + 1 < nbF) (hpre : ∀ a ∈ pre, ValidExt nbF a)
    (hones : At d p0 (List.replicate k 1)) (hsrc : At d (p0 + k) (srcBytes pre)) :
    ∀ (later : List (List Ext)) (g p : Nat) (it : Iter),
    g + later.length = nbF → 0 < g →
    RSt d nbF f g L p0 (k + (srcBytes pre).length) p0 (k + (srcBytes pre).length) p ll T it →
    (∀ (i : Nat) (r : List Ext), later[i]? = some r →
      MatchL (r.take R) pre ∧ ∀ x ∈ r.take R, ValidExt nbF x ∧ x.frame.toNat = g + i) →
    ZOk L (nbF - 1) nbF ll (if last then lastLongPos pre else none) 0 (p0 + k) pre →
    (∀ r, later.getLast? = some r → TOk T (if last then lastLongPos pre else none) rest.length 0 (r.take R)) →
    At d p (repBlock R last (lastLongPos pre) later ++ rest) →
    p + (repBlock R last (lastLongPos pre) later).length + rest.length = d.size →
    ∃ it', Steps d it it' ((later.map (List.take R)).flatten.map normExt) ∧
      St d nbF (p + (repBlock R last (lastLongPos pre) later).length) (if L = 0 then f + 1 else f) it' ∧
      Reg it' (p + (repBlock R last (lastLongPos pre) later).length) none T := by
  intro later
  induction later with
  | nil =>
    intro g p it hgl hg0 hR _ _ _ _ hend
    have hgn : g = nbF := by simpa using hgl
    subst hgn
    simp only [repBlock, List.length_nil, Nat.add_zero, List.map_nil, List.flatten_nil] at hend ⊢
    exact rep_end hR hf (by omega)
  | cons r rs ih =>
    intro g p it hgl hg0 hR hm hZ hTk hat hend
    have hglt : g < nbF := by simp at hgl; omega
    obtain ⟨hm1, hv1⟩ := hm 0 r rfl
    cases rs with
    | nil =>
      have hgn : g + 1 = nbF := by simpa using hgl
      have hgn' : nbF - 1 = g := by omega
      simp only [repBlock] at hat hend ⊢
      obtain ⟨it0, hs0, hR0⟩ := rep_skip_ones hg0 hglt (by omega) k p0 (srcBytes pre).length it hR hones
      obtain ⟨it1, hs1, hR1⟩ := rep_inner (rest := rest) hg0 hglt pre (r.take R) 0 (p0 + k) p it0 hR0 hpre
        (fun x hx => by have := hv1 x hx; exact ⟨this.1, by simpa using this.2⟩) hm1 (hgn' ▸ hZ) (hTk r rfl) hsrc hat hend
      obtain ⟨it2, hs2, hR2⟩ := rep_switch hR1 hg0 hglt (by omega)
      rw [hgn] at hR2
      obtain ⟨it3, hs3, h3⟩ := rep_end hR2 hf (by omega)
      refine ⟨it3, ?_, h3⟩
      have := ((hs0.trans hs1).trans hs2).trans hs3
      simpa using this
    | cons r' rs' =>
      have hg1 : g + 1 < nbF := by simp at hgl; omega
      rw [repBlock_cons2] at hat hend ⊢
      simp only [List.append_assoc, List.length_append] at hat hend ⊢
      obtain ⟨it0, hs0, hR0⟩ := rep_skip_ones hg0 hglt (by omega) k p0 (srcBytes pre).length it hR hones
      obtain ⟨it1, hs1, hR1⟩ := rep_inner (rest := repBlock R last (lastLongPos pre) (r' :: rs') ++ rest) hg0 hglt pre (r.take R) 0 (p0 + k) p it0 hR0 hpre
        (fun x hx => by have := hv1 x hx; exact ⟨this.1, by simpa using this.2⟩) hm1 (ZOk_none hg1 _ _ _) (TOk_none _ _) hsrc hat
        (by simp only [List.length_append]; omega)
      obtain ⟨it2, hs2, hR2⟩ := rep_switch hR1 hg0 hglt (by omega)
      obtain ⟨it3, hs3, h3, h4⟩ := ih (g + 1) _ it2 (by simp at hgl ⊢; omega) (by omega) hR2
        (fun i r0 hi => by
          have := hm (i + 1) r0 (by simpa using hi)
          refine ⟨this.1, fun x hx => ?_⟩
          have h2 := this.2 x hx
          exact ⟨h2.1, by rw [h2.2]; omega⟩)
        hZ (fun r0 hr0 => hTk r0 (by simpa [List.getLast?_cons_cons] using hr0)) (hat.append).2 (by omega)
      refine ⟨it3, ?_, ?_, ?_⟩
      · have := ((hs0.trans hs1).trans hs2).trans hs3
        simpa using this
      · have e : p + ((repPayloads none 0 (List.take R r)).length + (repBlock R last (lastLongPos pre) (r' :: rs')).length) =
            p + (repPayloads none 0 (List.take R r)).length + (repBlock R last (lastLongPos pre) (r' :: rs')).length := by omega
        rw [e]; exact h3
      · have e : p + ((repPayloads none 0 (List.take R r)).length + (repBlock R last (lastLongPos pre) (r' :: rs')).length) =
            p + (repPayloads none 0 (List.take R r)).length + (repBlock R last (lastLongPos pre) (r' :: rs')).length := by omega
        rw [e]; exact h4

end Opus.ExtProofs
