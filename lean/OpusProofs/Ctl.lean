import OpusModel.Ctl
import OpusProofs.EncDecideChain
/-
  OpusProofs.Ctl — the ctl state machines of OpusModel.Ctl against the DOCUMENTED legal values
  (include/opus_defines.h): set/get read-back, rejection leaves the state unchanged, the range
  invariant over request/encode histories, create/init argument validation.
  Helper lemmas of property C11 (statements in OpusProps/C11.lean).
-/
namespace Opus.Ctl
open Opus Opus.EncDecide

theorem ite_none_some {α} {c : Prop} [Decidable c] {a s' : α} (h : (if c then none else some a) = some s') :
    ¬ c ∧ a = s' := by
  split at h
  · simp at h
  · exact ⟨by assumption, by simpa using h⟩

theorem ite_some_none {α} {c : Prop} [Decidable c] {a s' : α} (h : (if c then some a else none) = some s') :
    c ∧ a = s' := by
  split at h
  · exact ⟨by assumption, by simpa using h⟩
  · simp at h

theorem ite_some_eq_none {α} {c : Prop} [Decidable c] {x : α} {r : Option α} (h : (if c then some x else r) = none) :
    ¬ c ∧ r = none := by
  split at h
  · simp at h
  · exact ⟨by assumption, h⟩

/-- Closes one field of an invariant after a record update. -/
macro "inv_close" : tactic =>
  `(tactic| (first | (dsimp only; done) | ((try dsimp only); first | assumption | omega | (consts; omega) | (simp; done) | grind)))

/-! ## Encoder: documented legal values -/

/-- Legal argument of each `OPUS_SET_*` request as documented in include/opus_defines.h
    (and src/opus_private.h for FORCE_MODE / VOICE_RATIO / LFE).  Written independently of
    `encSet`; `encSet_isSome_iff` shows the code accepts exactly these. -/
def EncLegal (s : EncSt) : EncSetK → Int → Prop
  | .application, v => (v = 2048 ∨ v = 2049 ∨ v = 2051) ∧ (s.first = false → v = s.application)
  | .bitrate, v => v = -1000 ∨ v = -1 ∨ 0 < v
  | .forceChannels, v => v = -1000 ∨ (1 ≤ v ∧ v ≤ s.channels)
  | .maxBandwidth, v => 1101 ≤ v ∧ v ≤ 1105
  | .bandwidth, v => v = -1000 ∨ (1101 ≤ v ∧ v ≤ 1105)
  | .dtx, v => 0 ≤ v ∧ v ≤ 1
  | .complexity, v => 0 ≤ v ∧ v ≤ 10
  | .inbandFec, v => 0 ≤ v ∧ v ≤ 2
  | .packetLossPerc, v => 0 ≤ v ∧ v ≤ 100
  | .vbr, v => 0 ≤ v ∧ v ≤ 1
  | .voiceRatio, v => -1 ≤ v ∧ v ≤ 100
  | .vbrConstraint, v => 0 ≤ v ∧ v ≤ 1
  | .signal, v => v = -1000 ∨ v = 3001 ∨ v = 3002
  | .lsbDepth, v => 8 ≤ v ∧ v ≤ 24
  | .expertFrameDuration, v => 5000 ≤ v ∧ v ≤ 5009
  | .predictionDisabled, v => 0 ≤ v ∧ v ≤ 1
  | .phaseInversionDisabled, v => 0 ≤ v ∧ v ≤ 1
  | .forceMode, v => v = -1000 ∨ (1000 ≤ v ∧ v ≤ 1002)
  | .lfe, _ => True

instance (s : EncSt) (k : EncSetK) (v : Int) : Decidable (EncLegal s k v) := by
  cases k <;> unfold EncLegal <;> infer_instance

/-- The getter that reads a setter's value back.  `OPUS_GET_BANDWIDTH` is NOT listed: it returns
    the running bandwidth of the last coded frame (known finding C11-get-bandwidth-running; see
    `bandwidth_reported_after_frame`); FORCE_MODE and LFE have no getter. -/
def readGetter : EncSetK → Option EncGetK
  | .application => some .application | .bitrate => some .bitrate | .forceChannels => some .forceChannels
  | .maxBandwidth => some .maxBandwidth | .dtx => some .dtx | .complexity => some .complexity
  | .inbandFec => some .inbandFec | .packetLossPerc => some .packetLossPerc | .vbr => some .vbr
  | .voiceRatio => some .voiceRatio | .vbrConstraint => some .vbrConstraint | .signal => some .signal
  | .lsbDepth => some .lsbDepth | .expertFrameDuration => some .expertFrameDuration
  | .predictionDisabled => some .predictionDisabled | .phaseInversionDisabled => some .phaseInversionDisabled
  | .bandwidth => none | .forceMode => none | .lfe => none

/-- What the matching getter must report after `OPUS_SET_x(v)`: `v`, except for the bit-rate, which
    is clamped to [500, 300000·channels] and whose AUTO / MAX values are resolved for the frame
    size of the last coded frame (2.5 ms before the first frame), opus_defines.h OPUS_SET_BITRATE. -/
def readBack (s : EncSt) : EncSetK → Int → Int
  | .bitrate, v =>
    let fz := if s.prevFramesize = 0 then s.fs / 400 else s.prevFramesize
    if v = -1000 then 60 * s.fs / fz + s.fs * s.channels
    else if v = -1 then 1276 * 8 * s.fs / fz
    else if v ≤ 500 then 500
    else if v > 300000 * s.channels then 300000 * s.channels
    else v
  | _, v => v

theorem encSet_isSome_iff (s : EncSt) (k : EncSetK) (v : Int) : (encSet s k v).isSome ↔ EncLegal s k v := by
  cases k <;> simp only [encSet, EncLegal, validFrameDuration] <;> consts <;>
    (try split) <;> (try split) <;> (try split) <;> (try split) <;> simp <;> (try omega) <;> grind

theorem encSet_none_iff (s : EncSt) (k : EncSetK) (v : Int) : encSet s k v = none ↔ ¬ EncLegal s k v := by
  rw [← encSet_isSome_iff]; cases encSet s k v <;> simp

/-- Legal value ⇒ OPUS_OK. -/
theorem encCtl_set_ok (s : EncSt) (k : EncSetK) (v : Int) (h : EncLegal s k v) :
    ∃ s', encSet s k v = some s' ∧ encCtl s (.set k v) = (s', .ok) := by
  have := (encSet_isSome_iff s k v).mpr h
  cases hs : encSet s k v with
  | none => rw [hs] at this; simp at this
  | some s' => exact ⟨s', rfl, by simp [encCtl, hs]⟩

/-- … and the matching getter reports it. -/
theorem encSet_readBack (s s' : EncSt) (k : EncSetK) (v : Int) (g : EncGetK) (h : encSet s k v = some s')
    (hg : readGetter k = some g) : encGetVal s' g = readBack s k v := by
  cases k <;> simp only [readGetter, Option.some.injEq, reduceCtorEq] at hg <;> subst hg <;>
    simp only [encSet, validFrameDuration] at h
  case bitrate =>
    simp only [encGetVal, readBack, userBitrateToBitrate]
    consts
    split at h
    · split at h
      · simp at h
      · split at h
        · simp only [Option.some.injEq] at h; subst h; dsimp only; grind
        · split at h
          · simp only [Option.some.injEq] at h; subst h; dsimp only; grind
          · simp only [Option.some.injEq] at h; subst h; dsimp only; grind
    · simp only [Option.some.injEq] at h; subst h; dsimp only; grind
  all_goals
    first
    | (obtain ⟨_, rfl⟩ := ite_none_some h; rfl)
    | (obtain ⟨_, rfl⟩ := ite_some_none h; rfl)

/-- Illegal value ⇒ OPUS_BAD_ARG and the state is identical. -/
theorem encCtl_set_reject (s : EncSt) (k : EncSetK) (v : Int) (h : ¬ EncLegal s k v) :
    encCtl s (.set k v) = (s, .err .badArg) := by
  have := (encSet_none_iff s k v).mpr h
  simp [encCtl, this]

/-- Every way a request can fail leaves the state identical, and the error is the documented one. -/
theorem encCtl_error_unchanged (s : EncSt) (r : EncReq) (h : (encCtl s r).2.code ≠ 0) :
    (encCtl s r).1 = s ∧
    (((encCtl s r).2 = .err .badArg ∧
        ((∃ k v, r = .set k v ∧ ¬ EncLegal s k v) ∨ (∃ k, r = .get k false) ∨ r = .celtGetMode false)) ∨
     ((encCtl s r).2 = .err .unimplemented ∧ ∃ id, r = .unknown id)) := by
  cases r with
  | set k v =>
    by_cases hl : EncLegal s k v
    · obtain ⟨s', _, h2⟩ := encCtl_set_ok s k v hl
      rw [h2] at h; simp [Ret.ok] at h
    · rw [encCtl_set_reject s k v hl]
      exact ⟨rfl, Or.inl ⟨rfl, Or.inl ⟨k, v, rfl, hl⟩⟩⟩
  | get k nn =>
    cases nn
    · exact ⟨rfl, Or.inl ⟨rfl, Or.inr (Or.inl ⟨k, rfl⟩)⟩⟩
    · simp [encCtl, Ret.okv] at h
  | resetState => simp [encCtl, Ret.ok] at h
  | setEnergyMask p => simp [encCtl, Ret.ok] at h
  | celtGetMode nn =>
    cases nn
    · exact ⟨rfl, Or.inl ⟨rfl, Or.inr (Or.inr rfl)⟩⟩
    · simp [encCtl, Ret.ok] at h
  | unknown id => exact ⟨rfl, Or.inr ⟨rfl, id, rfl⟩⟩

/-- Getters never change the state; with a valid pointer they succeed. -/
theorem encCtl_get (s : EncSt) (k : EncGetK) : encCtl s (.get k true) = (s, .okv (encGetVal s k)) := rfl

/-! ## Encoder: range invariant -/

/-- Every stored setting is a value its setter admits (`user_bitrate_bps ∈ {AUTO, MAX} ∪
    [500, 300000·channels]` …), and the values the Opus layer forwards to SILK/CELT agree. -/
structure CtlInv (s : EncSt) : Prop where
  fs : validFs s.fs = true
  ch : s.channels = 1 ∨ s.channels = 2
  app : s.application = 2048 ∨ s.application = 2049 ∨ s.application = 2051
  bitrate : s.userBitrate = -1000 ∨ s.userBitrate = -1 ∨ (500 ≤ s.userBitrate ∧ s.userBitrate ≤ 300000 * s.channels)
  force : s.forceChannels = -1000 ∨ (1 ≤ s.forceChannels ∧ s.forceChannels ≤ s.channels)
  maxBw : 1101 ≤ s.maxBandwidth ∧ s.maxBandwidth ≤ 1105
  userBw : s.userBandwidth = -1000 ∨ (1101 ≤ s.userBandwidth ∧ s.userBandwidth ≤ 1105)
  forcedMode : s.userForcedMode = -1000 ∨ (1000 ≤ s.userForcedMode ∧ s.userForcedMode ≤ 1002)
  vbr : s.useVbr = 0 ∨ s.useVbr = 1
  cbr : s.useCBR = 0 ∨ s.useCBR = 1
  dtx : s.useDtx = 0 ∨ s.useDtx = 1
  complexity : 0 ≤ s.complexity ∧ s.complexity ≤ 10 ∧ s.celtComplexity = s.complexity
  fec : 0 ≤ s.fecConfig ∧ s.fecConfig ≤ 2 ∧ s.useInBandFEC = (if s.fecConfig ≠ 0 then 1 else 0)
  loss : 0 ≤ s.packetLoss ∧ s.packetLoss ≤ 100 ∧ s.celtLossRate = s.packetLoss
  voice : -1 ≤ s.voiceRatio ∧ s.voiceRatio ≤ 100
  vbrConstraint : s.vbrConstraint = 0 ∨ s.vbrConstraint = 1
  signal : s.signalType = -1000 ∨ s.signalType = 3001 ∨ s.signalType = 3002
  lsb : 8 ≤ s.lsbDepth ∧ s.lsbDepth ≤ 24
  duration : 5000 ≤ s.variableDuration ∧ s.variableDuration ≤ 5009
  pred : s.reducedDependency = 0 ∨ s.reducedDependency = 1
  inv : s.celtDisableInv = 0 ∨ s.celtDisableInv = 1
  silkRate : s.maxInternalSampleRate = 8000 ∨ s.maxInternalSampleRate = 12000 ∨ s.maxInternalSampleRate = 16000
  lfe : s.celtLfe = s.lfe

/-- The whole invariant: settings (`CtlInv`) and the running state of the decision chain (`DInv`). -/
def EncInv (s : EncSt) : Prop := CtlInv s ∧ DInv s.toDSt

theorem rates_of_validFs {fs : Int} (h : validFs fs = true) : fs ∈ rates := by
  simp only [validFs, Bool.or_eq_true, decide_eq_true_eq] at h
  simp only [rates, List.mem_cons, List.mem_nil_iff, or_false]; omega

theorem encArgsOk_iff (fs ch app : Int) : encArgsOk fs ch app = true ↔
    (fs = 8000 ∨ fs = 12000 ∨ fs = 16000 ∨ fs = 24000 ∨ fs = 48000) ∧ (ch = 1 ∨ ch = 2) ∧
    (app = 2048 ∨ app = 2049 ∨ app = 2051) := by
  simp only [encArgsOk, validFs, validApp, Bool.and_eq_true, Bool.or_eq_true, decide_eq_true_eq]
  consts
  omega

theorem encInit_inv {fs ch app : Int} (h : encArgsOk fs ch app = true) : EncInv (encInit fs ch app) := by
  have h' := (encArgsOk_iff fs ch app).mp h
  have hfs : validFs fs = true := by
    simp only [encArgsOk, Bool.and_eq_true] at h; exact h.1.1
  have hr := rates_of_validFs hfs
  obtain ⟨h1, h2, h3⟩ := h'
  constructor
  · constructor <;> simp only [encInit] <;> inv_close
  · constructor <;> simp only [encInit] <;> inv_close

theorem maxIntRate_cases (v : Int) : maxIntRate v = 8000 ∨ maxIntRate v = 12000 ∨ maxIntRate v = 16000 := by
  unfold maxIntRate; split
  · left; rfl
  · split
    · right; left; rfl
    · right; right; rfl

theorem encSet_inv {s s' : EncSt} {k : EncSetK} {v : Int} (hi : EncInv s) (h : encSet s k v = some s') :
    EncInv s' := by
  obtain ⟨⟨c1, c2, c3, c4, c5, c6, c7, c8, c9, c10, c11, c12, c13, c14, c15, c16, c17, c18, c19, c20, c21, c22, c23⟩,
          ⟨d1, d2, d3, d4, d5, d6, d7, d8, d9, d10, d11, d12, d13, d14⟩⟩ := hi
  have hleg := (encSet_isSome_iff s k v).mp (by rw [h]; rfl)
  have hmr := maxIntRate_cases v
  cases k <;> simp only [encSet, validFrameDuration] at h <;> simp only [EncLegal] at hleg
  case bitrate =>
    consts
    split at h
    · split at h
      · simp at h
      · split at h
        · simp only [Option.some.injEq] at h; subst h
          exact ⟨by constructor <;> inv_close, by constructor <;> inv_close⟩
        · split at h
          · simp only [Option.some.injEq] at h; subst h
            exact ⟨by constructor <;> inv_close, by constructor <;> inv_close⟩
          · simp only [Option.some.injEq] at h; subst h
            exact ⟨by constructor <;> inv_close, by constructor <;> inv_close⟩
    · simp only [Option.some.injEq] at h; subst h
      exact ⟨by constructor <;> inv_close, by constructor <;> inv_close⟩
  case lfe =>
    simp only [Option.some.injEq] at h; subst h
    exact ⟨by constructor <;> inv_close, by constructor <;> inv_close⟩
  all_goals
    first
    | (obtain ⟨_, rfl⟩ := ite_none_some h
       exact ⟨by constructor <;> inv_close, by constructor <;> inv_close⟩)
    | (obtain ⟨_, rfl⟩ := ite_some_none h
       exact ⟨by constructor <;> inv_close, by constructor <;> inv_close⟩)

theorem encReset_inv {s : EncSt} (hi : EncInv s) : EncInv (encReset s) := by
  obtain ⟨⟨c1, c2, c3, c4, c5, c6, c7, c8, c9, c10, c11, c12, c13, c14, c15, c16, c17, c18, c19, c20, c21, c22, c23⟩,
          ⟨d1, d2, d3, d4, d5, d6, d7, d8, d9, d10, d11, d12, d13, d14⟩⟩ := hi
  unfold encReset
  exact ⟨by constructor <;> inv_close, by constructor <;> inv_close⟩

/-- **Invariant over requests**: any request, legal or not, keeps every setting in its range. -/
theorem encCtl_inv {s : EncSt} (hi : EncInv s) (r : EncReq) : EncInv (encCtl s r).1 := by
  cases r with
  | set k v =>
    simp only [encCtl]
    cases h : encSet s k v with
    | none => exact hi
    | some s' => exact encSet_inv hi h
  | get k nn => cases nn <;> exact hi
  | resetState => exact encReset_inv hi
  | setEnergyMask p =>
    obtain ⟨⟨c1, c2, c3, c4, c5, c6, c7, c8, c9, c10, c11, c12, c13, c14, c15, c16, c17, c18, c19, c20, c21, c22, c23⟩,
            ⟨d1, d2, d3, d4, d5, d6, d7, d8, d9, d10, d11, d12, d13, d14⟩⟩ := hi
    simp only [encCtl]
    exact ⟨by constructor <;> inv_close, by constructor <;> inv_close⟩
  | celtGetMode nn => cases nn <;> exact hi
  | unknown id => exact hi

theorem obsRange_none {s : EncSt} {o : EncObs} (h : obsRange s o = none) :
    (o.forceChannels = s.forceChannels) ∧
    (-1 ≤ o.voiceRatio ∧ o.voiceRatio ≤ 100) ∧ (1101 ≤ o.bandwidth ∧ o.bandwidth ≤ 1105) ∧
    (1000 ≤ o.mode ∧ o.mode ≤ 1002) ∧ (o.prevMode = 0 ∨ (1000 ≤ o.prevMode ∧ o.prevMode ≤ 1002)) ∧
    (1 ≤ o.streamChannels ∧ o.streamChannels ≤ s.channels) ∧ (0 ≤ o.prevChannels ∧ o.prevChannels ≤ s.channels) ∧
    (o.toMono = 0 ∨ o.toMono = 1) ∧ (o.first = true → s.first = true) ∧ (o.first = true → o.prevMode = 0) ∧
    (s.application = 2051 → o.prevMode = 0 ∨ o.prevMode = 1002) ∧
    (o.maxInternalSampleRate = 8000 ∨ o.maxInternalSampleRate = 12000 ∨ o.maxInternalSampleRate = 16000) ∧
    (o.useCBR = 0 ∨ o.useCBR = 1) := by
  unfold obsRange at h
  consts
  obtain ⟨h1, h⟩ := ite_some_eq_none h
  obtain ⟨h2, h⟩ := ite_some_eq_none h
  obtain ⟨h3, h⟩ := ite_some_eq_none h
  obtain ⟨h4, h⟩ := ite_some_eq_none h
  obtain ⟨h5, h⟩ := ite_some_eq_none h
  obtain ⟨h6, h⟩ := ite_some_eq_none h
  obtain ⟨h7, h⟩ := ite_some_eq_none h
  obtain ⟨h8, h⟩ := ite_some_eq_none h
  obtain ⟨h9, h⟩ := ite_some_eq_none h
  obtain ⟨h10, h⟩ := ite_some_eq_none h
  obtain ⟨h11, h⟩ := ite_some_eq_none h
  obtain ⟨h12, h⟩ := ite_some_eq_none h
  obtain ⟨h13, h⟩ := ite_some_eq_none h
  clear h
  simp only [Bool.not_eq_true, Bool.and_eq_true, Bool.not_eq_eq_eq_not, Bool.not_true, not_and, Bool.not_eq_false] at *
  refine ⟨?_, ?_, ?_, ?_, ?_, ?_, ?_, ?_, ?_, ?_, ?_, ?_, ?_⟩ <;> first | omega | grind

theorem encAdopt_inv_of_range {s : EncSt} (hi : EncInv s) {o : EncObs} (hr : obsRange s o = none) :
    EncInv (encAdopt s o) := by
  obtain ⟨r1, r2, r3, r4, r5, r6, r7, r8, r9, r10, r11, r12, r13⟩ := obsRange_none hr
  clear hr
  obtain ⟨hc, hd⟩ := hi
  have hch := hc.ch
  have hforce := hc.force
  refine ⟨{ hc with force := ?_, cbr := r13, voice := r2, silkRate := r12 },
          { hd with force := ?_, mode := r4, prevMode := r5, bw := r3, streamCh := r6, prevCh := r7, toMono := r8,
                    firstPrev := r10, lowdelay := r11 }⟩
  · show o.forceChannels = -1000 ∨ (1 ≤ o.forceChannels ∧ o.forceChannels ≤ s.channels)
    omega
  · show o.forceChannels = -1000 ∨ (1 ≤ o.forceChannels ∧ o.forceChannels ≤ s.channels)
    omega

/-- A refused frame size: the observed state is the old one, possibly with `rangeFinal` cleared. -/
theorem encodeContract_badsize {s : EncSt} {f b ret : Int} {o : EncObs} {fmt : Nat}
    (h0 : frameSizeSelect f s.variableDuration s.fs ≤ 0) (h : encodeContract s f b ret o fmt = none) :
    o = encObserve s ∨ o = { encObserve s with rangeFinal := 0 } := by
  unfold encodeContract at h
  simp only [] at h
  rw [if_pos h0] at h
  by_cases hr : ret ≠ -1
  · rw [if_pos hr] at h; cases h
  · rw [if_neg hr] at h
    by_cases hf : fmt = 2
    · rw [if_pos hf] at h
      by_cases ho : o ≠ { encObserve s with rangeFinal := 0 }
      · rw [if_pos ho] at h; cases h
      · exact Or.inr (Decidable.not_not.mp ho)
    · rw [if_neg hf] at h
      by_cases ho : o ≠ encObserve s
      · rw [if_pos ho] at h; cases h
      · exact Or.inl (Decidable.not_not.mp ho)

/-- An encode call that satisfies the monitored contract keeps the invariant. -/
theorem encAdopt_inv {s : EncSt} (hi : EncInv s) {f b ret : Int} {o : EncObs} {fmt : Nat}
    (h : encodeContract s f b ret o fmt = none) : EncInv (encAdopt s o) := by
  have same : ∀ o', o' = encObserve s ∨ o' = { encObserve s with rangeFinal := 0 } → EncInv (encAdopt s o') := by
    obtain ⟨⟨c1, c2, c3, c4, c5, c6, c7, c8, c9, c10, c11, c12, c13, c14, c15, c16, c17, c18, c19, c20, c21, c22, c23⟩,
            ⟨d1, d2, d3, d4, d5, d6, d7, d8, d9, d10, d11, d12, d13, d14⟩⟩ := hi
    intro o' ho'
    rcases ho' with rfl | rfl <;> simp only [encAdopt, encObserve] <;>
      exact ⟨by constructor <;> inv_close, by constructor <;> inv_close⟩
  by_cases h0 : frameSizeSelect f s.variableDuration s.fs ≤ 0
  · exact same o (encodeContract_badsize h0 h)
  unfold encodeContract at h
  simp only [] at h
  rw [if_neg h0] at h
  · split at h
    · split at h
      · simp at h
      · split at h
        · simp at h
        · rename_i ho; exact same o (Or.inr (by simpa using ho))
    · split at h
      · simp at h
      · rename_i hr; exact encAdopt_inv_of_range hi hr

/-- The user settings of an encoder (everything a `OPUS_SET_*` request stores, except the
    `voice_ratio` slot, which the analysis overwrites on every frame by design). -/
def settingsOf (s : EncSt) : List Int :=
  [s.application, s.userBitrate, s.forceChannels, s.maxBandwidth, s.userBandwidth, s.userForcedMode, s.useVbr,
   s.lfe, s.useDtx, s.complexity, s.fecConfig, s.packetLoss, s.vbrConstraint, s.signalType, s.lsbDepth,
   s.variableDuration, s.reducedDependency, s.celtDisableInv, s.celtComplexity, s.celtLossRate, s.celtLfe,
   s.useInBandFEC]

/-- **An encode call never changes a setting**: only a ctl can. -/
theorem encAdopt_settings {s : EncSt} {f b ret : Int} {o : EncObs} {fmt : Nat} (h : encodeContract s f b ret o fmt = none) :
    settingsOf (encAdopt s o) = settingsOf s := by
  have key : o.forceChannels = s.forceChannels → settingsOf (encAdopt s o) = settingsOf s := by
    intro hf; simp only [settingsOf, encAdopt, hf]
  apply key
  by_cases h0 : frameSizeSelect f s.variableDuration s.fs ≤ 0
  · rcases encodeContract_badsize h0 h with ho | ho <;> rw [ho] <;> rfl
  unfold encodeContract at h
  simp only [] at h
  rw [if_neg h0] at h
  · split at h
    · split at h
      · simp at h
      · split at h
        · simp at h
        · rename_i ho
          have : o = { encObserve s with rangeFinal := 0 } := by simpa using ho
          rw [this]; rfl
    · split at h
      · simp at h
      · rename_i hr; exact (obsRange_none hr).1

/-! ### Histories -/

/-- One event in the life of an encoder: a ctl request, or an `opus_encode` call with what it
    returned and the fields observed afterwards. -/
inductive EncEv
  | ctl (r : EncReq)
  | encode (frameSize outDataBytes ret : Int) (o : EncObs) (fmt : Nat)   -- fmt: 0/1/2 = opus_encode / 24 / float

def encApply (s : EncSt) : EncEv → EncSt
  | .ctl r => (encCtl s r).1
  | .encode _ _ _ o _ => encAdopt s o

/-- The encode calls of the history satisfy the monitored contract (checked on the implementation
    after every call by suites `ctl-rand`, `ctl-chain`). -/
def encRunOk : EncSt → List EncEv → Prop
  | _, [] => True
  | s, e :: es =>
    (match e with
     | .ctl _ => True
     | .encode f b r o fmt => encodeContract s f b r o fmt = none) ∧ encRunOk (encApply s e) es

def encRun : EncSt → List EncEv → EncSt
  | s, [] => s
  | s, e :: es => encRun (encApply s e) es

theorem encRun_inv {s : EncSt} (hi : EncInv s) (evs : List EncEv) (hok : encRunOk s evs) : EncInv (encRun s evs) := by
  induction evs generalizing s with
  | nil => exact hi
  | cons e es ih =>
    obtain ⟨h1, h2⟩ := hok
    apply ih _ h2
    cases e with
    | ctl r => exact encCtl_inv hi r
    | encode f b r o fmt => exact encAdopt_inv hi h1

end Opus.Ctl
