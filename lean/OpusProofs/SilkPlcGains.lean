import OpusModel.SilkPlcGains
/-
  OpusProofs.SilkPlcGains — the attenuation constants of SILK concealment (regenerated from
  silk/PLC.c) are all below 1.0 in Q15, hence the LTP taps and the random-excitation scale shrink
  with every concealed subframe; the CELT `loss_duration` counter saturates and is reset.
-/
namespace Opus.SilkPlcGains
open Opus Opus.Gen.PlcConsts

/-- Every regenerated attenuation constant is a Q15 factor in (0, 1). -/
theorem att_tables_lt_one :
    NB_ATT = 2 ∧ HARM_ATT_Q15.length = NB_ATT ∧ PLC_RAND_ATTENUATE_V_Q15.length = NB_ATT ∧
    PLC_RAND_ATTENUATE_UV_Q15.length = NB_ATT ∧
    (∀ g ∈ HARM_ATT_Q15, 0 < g ∧ g < 32768) ∧ (∀ g ∈ PLC_RAND_ATTENUATE_V_Q15, 0 < g ∧ g < 32768) ∧
    (∀ g ∈ PLC_RAND_ATTENUATE_UV_Q15, 0 < g ∧ g < 32768) := by decide

theorem attIdx_lt (lossCnt : Int) : attIdx lossCnt < 2 := by
  unfold attIdx
  have : NB_ATT = 2 := rfl
  omega

theorem harmGain_range (lossCnt : Int) : 0 < harmGain lossCnt ∧ harmGain lossCnt < 32768 := by
  unfold harmGain
  have h := attIdx_lt lossCnt
  have h2 : attIdx lossCnt = 0 ∨ attIdx lossCnt = 1 := by omega
  rcases h2 with h2 | h2 <;> rw [h2] <;> decide

theorem randGain0_range (lossCnt : Int) (voiced : Bool) : 0 < randGain0 lossCnt voiced ∧ randGain0 lossCnt voiced < 32768 := by
  unfold randGain0
  have h := attIdx_lt lossCnt
  have h2 : attIdx lossCnt = 0 ∨ attIdx lossCnt = 1 := by omega
  cases voiced <;> rcases h2 with h2 | h2 <;> simp only [h2] <;> decide

/-- The values `harmGain` can take (for the case analysis below). -/
theorem harmGain_cases (lossCnt : Int) : harmGain lossCnt ∈ HARM_ATT_Q15 := by
  unfold harmGain
  have h := attIdx_lt lossCnt
  have h2 : attIdx lossCnt = 0 ∨ attIdx lossCnt = 1 := by omega
  rcases h2 with h2 | h2 <;> rw [h2] <;> decide

theorem toI16_id {x : Int} (h : -32768 ≤ x ∧ x ≤ 32767) : toI16 x = x := by unfold toI16; omega

/-- `(g·b) >> 15` for a literal Q15 gain `g < 2^15` with `2^15/(2^15−g) ≤ 100`. -/
theorem q15_mul_bounds (g : Int) (hg : 0 < g ∧ g ≤ 32440) (b : Int) :
    (0 ≤ b → 0 ≤ g * b / 32768 ∧ g * b / 32768 ≤ b) ∧ (0 < b → g * b / 32768 < b) ∧
    (b < 0 → b ≤ g * b / 32768 ∧ g * b / 32768 < 0) ∧ (b ≤ -100 → b < g * b / 32768) := by
  have hgb : ∀ x : Int, 0 ≤ x → g * x ≤ 32440 * x := fun x hx => Int.mul_le_mul_of_nonneg_right hg.2 hx
  have hgb' : ∀ x : Int, x ≤ 0 → 32440 * x ≤ g * x := fun x hx => Int.mul_le_mul_of_nonpos_right hg.2 hx
  refine ⟨fun h => ⟨Int.ediv_nonneg (Int.mul_nonneg (by omega) h) (by decide), ?_⟩, fun h => ?_, fun h => ⟨?_, ?_⟩, fun h => ?_⟩
  · apply Int.ediv_le_of_le_mul (by decide); have := hgb b h; omega
  · apply Int.ediv_lt_of_lt_mul (by decide); have := hgb b (by omega); omega
  · apply Int.le_ediv_of_mul_le (by decide); have := hgb' b (by omega); omega
  · apply Int.ediv_lt_of_lt_mul (by decide)
    have : g * b < 0 := Int.mul_neg_of_pos_of_neg hg.1 h
    omega
  · have : b + 1 ≤ g * b / 32768 := by
      apply Int.le_ediv_of_mul_le (by decide); have := hgb' b (by omega); omega
    omega

/-- The harmonic attenuation factors are at most 0.99 (Q15) — whatever the regenerated table holds. -/
theorem harm_table_le : ∀ g ∈ HARM_ATT_Q15, 0 < g ∧ g ≤ 32440 := by decide

/-- One subframe of harmonic attenuation (PLC.c:354) never increases a tap's magnitude, strictly
    decreases a positive tap and strictly decreases the magnitude of a negative tap below −100. -/
theorem harmStep_shrinks (lossCnt : Int) (b : Int) (hb : -32768 ≤ b ∧ b ≤ 32767) :
    (0 ≤ b → 0 ≤ harmStep (harmGain lossCnt) b ∧ harmStep (harmGain lossCnt) b ≤ b) ∧
    (0 < b → harmStep (harmGain lossCnt) b < b) ∧
    (b < 0 → b ≤ harmStep (harmGain lossCnt) b ∧ harmStep (harmGain lossCnt) b < 0) ∧
    (b ≤ -100 → b < harmStep (harmGain lossCnt) b) := by
  have hgr : 0 < harmGain lossCnt ∧ harmGain lossCnt ≤ 32440 := harm_table_le _ (harmGain_cases lossCnt)
  obtain ⟨q1, q2, q3, q4⟩ := q15_mul_bounds (harmGain lossCnt) hgr b
  have hgi : toI16 (harmGain lossCnt) = harmGain lossCnt := toI16_id (by omega)
  unfold harmStep smulbb rshift
  have e15 : (2 : Int) ^ 15 = 32768 := by decide
  rw [toI16_id (x := b) hb, e15, hgi]
  have hin : -32768 ≤ harmGain lossCnt * b / 32768 ∧ harmGain lossCnt * b / 32768 ≤ 32767 := by
    by_cases h : 0 ≤ b
    · have := q1 h; omega
    · have := q3 (by omega); omega
  rw [toI16_id hin]
  exact ⟨q1, q2, q3, q4⟩

/-- One subframe of random-excitation attenuation (PLC.c:357) for any Q15 gain in (0,1): the scale
    stays non-negative, never grows, and strictly shrinks while positive. -/
theorem randStep_shrinks (rs rg : Int) (hrs : 0 ≤ rs ∧ rs ≤ 32767) (hrg : 0 < rg ∧ rg < 32768) :
    0 ≤ randStep rs rg ∧ randStep rs rg ≤ rs ∧ (0 < rs → randStep rs rg < rs) := by
  unfold randStep smulbb rshift
  rw [toI16_id (x := rs) (by omega), toI16_id (x := rg) (by omega)]
  have h1 : 0 ≤ rs * rg := Int.mul_nonneg hrs.1 (by omega)
  have h2 : rs * rg ≤ rs * 32767 := Int.mul_le_mul_of_nonneg_left (by omega) hrs.1
  have h3 : 0 ≤ rs * rg / 2 ^ 15 := Int.ediv_nonneg h1 (by decide)
  have h4 : rs * rg / 2 ^ 15 ≤ rs * 32767 / 2 ^ 15 := Int.ediv_le_ediv (by decide) h2
  have h5 : rs * 32767 / 2 ^ 15 ≤ rs := by omega
  have h6 : 0 < rs → rs * 32767 / 2 ^ 15 < rs := by intro h; omega
  rw [toI16_id (by omega)]
  exact ⟨h3, by omega, fun h => by have := h6 h; omega⟩

/-- The first-lost-frame unvoiced gain (PLC.c:289-297) is still a Q15 factor below 1. -/
theorem randGainUnvoiced_range (invGain_Q30 rg0 : Int) (hrg : 0 < rg0 ∧ rg0 < 32768) :
    0 ≤ randGainUnvoiced invGain_Q30 rg0 ∧ randGainUnvoiced invGain_Q30 rg0 ≤ rg0 := by
  unfold randGainUnvoiced smulwb rshift
  have hH : LOG2_INV_LPC_GAIN_HIGH_THRES = 3 := rfl
  have hL : LOG2_INV_LPC_GAIN_LOW_THRES = 8 := rfl
  simp only [hH, hL]
  rw [toI16_id (x := rg0) (by omega)]
  generalize hd : max (2 ^ 30 / 2 ^ 8) (min (2 ^ 30 / 2 ^ 3) invGain_Q30) = d
  have hd1 : (4194304 : Int) ≤ d ∧ d ≤ 134217728 := by
    have e1 : (2 : Int) ^ 30 / 2 ^ 8 = 4194304 := by decide
    have e2 : (2 : Int) ^ 30 / 2 ^ 3 = 134217728 := by decide
    rw [e1, e2] at hd; omega
  have e3 : (2 : Int) ^ 3 = 8 := by decide
  have e4 : (2 : Int) ^ 14 = 16384 := by decide
  rw [e3, e4]
  have hp : 0 ≤ d * 8 * rg0 := Int.mul_nonneg (by omega) (by omega)
  have hq : d * 8 * rg0 ≤ 1073741824 * rg0 := Int.mul_le_mul_of_nonneg_right (by omega) (by omega)
  have h1 : 0 ≤ d * 8 * rg0 / 65536 := Int.ediv_nonneg hp (by decide)
  have h2 : d * 8 * rg0 / 65536 ≤ 1073741824 * rg0 / 65536 := Int.ediv_le_ediv (by decide) hq
  have h3 : 0 ≤ d * 8 * rg0 / 65536 / 16384 := Int.ediv_nonneg h1 (by decide)
  have h4 : d * 8 * rg0 / 65536 / 16384 ≤ 1073741824 * rg0 / 65536 / 16384 := Int.ediv_le_ediv (by decide) h2
  have h5 : 1073741824 * rg0 / 65536 / 16384 = rg0 := by omega
  exact ⟨h3, by omega⟩

/-! ### a whole concealed frame -/

/-- Magnitude of an `opus_int16`. -/
def mag (x : Int) : Int := if x < 0 then -x else x

/-- `opus_int16` range. -/
def I16 (x : Int) : Prop := -32768 ≤ x ∧ x ≤ 32767

theorem harmStep_mag (lossCnt b : Int) (hb : I16 b) :
    I16 (harmStep (harmGain lossCnt) b) ∧ mag (harmStep (harmGain lossCnt) b) ≤ mag b ∧
    (0 < b → harmStep (harmGain lossCnt) b < b) := by
  obtain ⟨h1, h2, h3, h4⟩ := harmStep_shrinks lossCnt b hb
  unfold mag I16
  unfold I16 at hb
  by_cases h : 0 ≤ b
  · have := h1 h; refine ⟨by omega, ?_, h2⟩; split <;> split <;> omega
  · have := h3 (by omega); refine ⟨by omega, ?_, fun hp => by omega⟩; split <;> split <;> omega

/-- `nb_subfr` iterations of PLC.c:352-357: every LTP tap shrinks (weakly) in magnitude, positive
    taps strictly; the random-excitation scale stays in `[0, rs]` and strictly shrinks when positive. -/
theorem subfrLoop_spec (lossCnt rg : Int) (hrg : 0 < rg ∧ rg < 32768) :
    ∀ (n : Nat) (B : List Int) (rs : Int), 0 ≤ rs ∧ rs ≤ 32767 →
      (∃ h : Int → Int, (∀ b, I16 b → I16 (h b) ∧ mag (h b) ≤ mag b ∧ (0 < n → 0 < b → h b < b)) ∧
        (subfrLoop (harmGain lossCnt) rg n (B, rs)).1 = B.map h) ∧
      0 ≤ (subfrLoop (harmGain lossCnt) rg n (B, rs)).2 ∧ (subfrLoop (harmGain lossCnt) rg n (B, rs)).2 ≤ rs ∧
      (0 < n → 0 < rs → (subfrLoop (harmGain lossCnt) rg n (B, rs)).2 < rs) := by
  intro n
  induction n with
  | zero =>
    intro B rs hrs
    refine ⟨⟨id, fun b hb => ⟨hb, Int.le_refl _, fun h => absurd h (by omega)⟩, by simp [subfrLoop]⟩, ?_, ?_, ?_⟩
    · simp [subfrLoop]; exact hrs.1
    · simp [subfrLoop]
    · intro h; omega
  | succ n ih =>
    intro B rs hrs
    obtain ⟨r1, r2, r3⟩ := randStep_shrinks rs rg hrs hrg
    obtain ⟨⟨h, hh, hmap⟩, i1, i2, _⟩ := ih (B.map (harmStep (harmGain lossCnt))) (randStep rs rg) ⟨r1, by omega⟩
    rw [subfrLoop]
    refine ⟨⟨h ∘ harmStep (harmGain lossCnt), ?_, ?_⟩, i1, by omega, fun _ hpos => by have := r3 hpos; omega⟩
    · intro b hb
      obtain ⟨a1, a2, a3⟩ := harmStep_mag lossCnt b hb
      obtain ⟨b1, b2, _⟩ := hh _ a1
      refine ⟨b1, by simp only [Function.comp]; omega, fun _ hpos => ?_⟩
      have hlt := a3 hpos
      -- h never increases a non-negative value above itself
      have : h (harmStep (harmGain lossCnt) b) ≤ harmStep (harmGain lossCnt) b ∨ harmStep (harmGain lossCnt) b < 0 := by
        by_cases hneg : harmStep (harmGain lossCnt) b < 0
        · exact Or.inr hneg
        · left
          simp only [mag, hneg, ↓reduceIte] at b2
          split at b2 <;> omega
      simp only [Function.comp]
      rcases this with h' | h'
      · omega
      · have := (harmStep_shrinks lossCnt b hb).1 (by omega); omega
    · rw [hmap, List.map_map]

/-- The gain scalars after one concealed SILK frame (PLC.c:264-298, 352-357), for a loss in
    progress (`lossCnt ≥ 1`: the state's own `randScale_Q14` is used): every LTP tap has shrunk
    (weakly) in magnitude, every positive tap strictly; the random scale has not grown and has
    strictly shrunk if it was positive. -/
theorem conceal_shrinks (lossCnt : Int) (hl : 1 ≤ lossCnt) (voiced : Bool) (nbSubfr : Nat) (hn : 0 < nbSubfr)
    (B : List Int) (rs plt ig : Int) (hrs : 0 ≤ rs ∧ rs ≤ 32767) :
    (∃ h : Int → Int, (∀ b, I16 b → I16 (h b) ∧ mag (h b) ≤ mag b ∧ (0 < b → h b < b)) ∧
      (conceal lossCnt voiced nbSubfr B rs plt ig).1 = B.map h) ∧
    0 ≤ (conceal lossCnt voiced nbSubfr B rs plt ig).2 ∧ (conceal lossCnt voiced nbSubfr B rs plt ig).2 ≤ rs ∧
    (0 < rs → (conceal lossCnt voiced nbSubfr B rs plt ig).2 < rs) := by
  unfold conceal gainSetup
  have h0 : ¬ lossCnt = 0 := by omega
  simp only [h0, ↓reduceIte]
  obtain ⟨⟨h, hh, hmap⟩, a, b, c⟩ := subfrLoop_spec lossCnt (randGain0 lossCnt voiced) (randGain0_range lossCnt voiced)
    nbSubfr B rs hrs
  exact ⟨⟨h, fun x hx => ⟨(hh x hx).1, (hh x hx).2.1, (hh x hx).2.2 hn⟩, hmap⟩, a, b, c hn⟩

/-- First lost frame (`lossCnt = 0`): the random scale is re-initialised from the LTP taps (voiced)
    or to 1.0 in Q14 (unvoiced) and then attenuated by a Q15 gain below 1; the taps shrink as above. -/
theorem conceal_first_taps (voiced : Bool) (nbSubfr : Nat) (hn : 0 < nbSubfr) (B : List Int) (rs plt ig : Int) :
    ∃ h : Int → Int, (∀ b, I16 b → I16 (h b) ∧ mag (h b) ≤ mag b ∧ (0 < b → h b < b)) ∧
      (conceal 0 voiced nbSubfr B rs plt ig).1 = B.map h := by
  unfold conceal
  generalize gainSetup 0 voiced B rs plt ig = s
  -- the taps do not depend on the rand gain: rerun the loop lemma with any legal gain
  have key : ∀ (n : Nat) (rg rg' : Int) (B : List Int) (x x' : Int),
      (subfrLoop (harmGain 0) rg n (B, x)).1 = (subfrLoop (harmGain 0) rg' n (B, x')).1 := by
    intro n
    induction n with
    | zero => intro rg rg' B x x'; simp [subfrLoop]
    | succ n ih => intro rg rg' B x x'; rw [subfrLoop, subfrLoop]; exact ih _ _ _ _ _
  rw [key nbSubfr s.2 (randGain0 0 voiced) B s.1 0]
  obtain ⟨⟨h, hh, hmap⟩, _⟩ := subfrLoop_spec 0 (randGain0 0 voiced) (randGain0_range 0 voiced) nbSubfr B 0 (by omega)
  exact ⟨h, fun x hx => ⟨(hh x hx).1, (hh x hx).2.1, (hh x hx).2.2 hn⟩, hmap⟩

/-! ### CELT loss_duration -/

theorem celtLoss_tables : celtLossInc = [1, 2, 4, 8] ∧ celtLossCap = [10000, 10000, 10000, 10000] ∧
    celtLossAfterGood = [0, 0, 0, 0] := by decide

theorem celtLossStep_spec (ld : Int) (lm : Nat) (hlm : lm < 4) (h : 0 ≤ ld ∧ ld ≤ 10000) :
    ld ≤ celtLossStep ld lm ∧ celtLossStep ld lm ≤ 10000 ∧ (ld < 10000 → ld < celtLossStep ld lm) ∧
    celtLossStep ld lm = min 10000 (ld + 2 ^ lm) := by
  unfold celtLossStep
  have hc : lm = 0 ∨ lm = 1 ∨ lm = 2 ∨ lm = 3 := by omega
  rcases hc with rfl | rfl | rfl | rfl <;> simp [celtLossCap, celtLossInc] <;> omega

theorem celtLossRun_bounded : ∀ (frames : List (Option Nat)) (ld : Int), 0 ≤ ld ∧ ld ≤ 10000 →
    (∀ f ∈ frames, ∀ lm, f = some lm → lm < 4) → 0 ≤ celtLossRun ld frames ∧ celtLossRun ld frames ≤ 10000 := by
  intro frames
  induction frames with
  | nil => intro ld h _; exact h
  | cons f rest ih =>
    intro ld h hf
    cases f with
    | none =>
      rw [celtLossRun]
      exact ih _ (by decide) (fun f' hf' => hf f' (by simp [hf']))
    | some lm =>
      rw [celtLossRun]
      have hlm := hf (some lm) (by simp) lm rfl
      obtain ⟨h1, h2, _⟩ := celtLossStep_spec ld lm hlm h
      exact ih _ ⟨by omega, h2⟩ (fun f' hf' => hf f' (by simp [hf']))

theorem celtLossRun_append (a b : List (Option Nat)) : ∀ ld, celtLossRun ld (a ++ b) = celtLossRun (celtLossRun ld a) b := by
  induction a with
  | nil => intro ld; rfl
  | cons f rest ih =>
    intro ld
    cases f with
    | none => simp only [List.cons_append, celtLossRun]; exact ih _
    | some lm => simp only [List.cons_append, celtLossRun]; exact ih _

/-! ### which concealment a lost CELT frame gets -/

/-- The regenerated constants of the concealment-kind machine. -/
theorem celt_kind_consts : celtNoiseFrom = 40 ∧ celtSkipAfterReset = true ∧ celtSkipAfterTwoGood = false ∧
    celtSkipAfterNoise = true := by decide

theorem celtLostKind_pitch_iff (s : CeltPlc) (start : Int) :
    celtLostKind s start = .pitch ↔ s.ld < 40 ∧ start = 0 ∧ s.skip = false := by
  unfold celtLostKind
  have : celtNoiseFrom = 40 := rfl
  rw [this]
  constructor
  · intro h
    split at h
    · cases h
    · rename_i hc
      refine ⟨by omega, by omega, ?_⟩
      cases hs : s.skip
      · rfl
      · exact absurd (Or.inr (Or.inr hs)) hc
  · rintro ⟨h1, h2, h3⟩
    have : ¬ (s.ld ≥ 40 ∨ start ≠ 0 ∨ s.skip = true) := by
      rintro (h | h | h)
      · omega
      · exact h h2
      · rw [h3] at h; cases h
    rw [if_neg this]

theorem celtLostKind_noise_iff (s : CeltPlc) (start : Int) :
    celtLostKind s start = .noise ↔ 40 ≤ s.ld ∨ start ≠ 0 ∨ s.skip = true := by
  have h := celtLostKind_pitch_iff s start
  cases hk : celtLostKind s start
  · rw [hk] at h
    have := h.mp rfl
    constructor
    · intro h'; cases h'
    · rintro (h' | h' | h')
      · omega
      · exact absurd this.2.1 h'
      · rw [this.2.2] at h'; cases h'
  · constructor
    · intro _
      apply Decidable.byContradiction
      intro hn
      have : celtLostKind s start = .pitch := h.mpr ⟨by omega, by
        apply Decidable.byContradiction; intro h0; exact hn (Or.inr (Or.inl h0)), by
        cases hs : s.skip
        · rfl
        · exact absurd (Or.inr (Or.inr hs)) hn⟩
      rw [hk] at this; cases this
    · intro _; rfl

/-- Noise concealment is sticky: it sets `skip_plc`, a set `skip_plc` forces noise concealment and
    survives further lost frames and a single decoded frame that follows a loss. -/
theorem celt_skip_sticky (s : CeltPlc) (start : Int) (lm : Nat) :
    (celtLostKind s start = .noise → (celtLost s start lm).skip = true) ∧
    (s.skip = true → celtLostKind s start = .noise) ∧
    (s.skip = true → s.ld ≠ 0 → (celtGood s lm).skip = true) := by
  refine ⟨?_, ?_, ?_⟩
  · intro h; unfold celtLost; rw [if_pos h]; rfl
  · intro h; exact (celtLostKind_noise_iff s start).mpr (Or.inr (Or.inr h))
  · intro h h0; unfold celtGood; simp only [if_neg h0]; exact h

/-- Two consecutive decoded frames re-enable the pitch-based concealment (and one does not, after a
    noise-concealed loss: see `celt_skip_sticky`). -/
theorem celt_two_good (s : CeltPlc) (a b : Nat) (ha : a < 4) :
    (celtGood (celtGood s a) b).skip = false ∧ (celtGood (celtGood s a) b).ld = celtLossGood b := by
  have h0 : (celtGood s a).ld = 0 := by
    unfold celtGood celtLossGood
    have hc : a = 0 ∨ a = 1 ∨ a = 2 ∨ a = 3 := by omega
    rcases hc with rfl | rfl | rfl | rfl <;> rfl
  refine ⟨?_, rfl⟩
  show (if (celtGood s a).ld = 0 then false else (celtGood s a).skip) = false
  rw [if_pos h0]

/-- What the frames of one loss burst get, as a function of the loss duration at the start of each. -/
def burstKinds : Int → List Nat → List PlcKind
  | _, [] => []
  | ld, lm :: rest => (if ld < 40 then .pitch else .noise) :: burstKinds (celtLossStep ld lm) rest

/-- A loss burst in CELT-only mode (start band 0): as long as `skip_plc` is clear the frame whose
    `loss_duration` on entry is below 40 (i.e. fewer than 100 ms concealed so far) is concealed by the
    pitch-based PLC and every later one by the noise PLC. -/
theorem celt_burst_kinds : ∀ (lms : List Nat) (s : CeltPlc), (∀ lm ∈ lms, lm < 4) → 0 ≤ s.ld ∧ s.ld ≤ 10000 →
    (s.skip = true → 40 ≤ s.ld) →
    (celtPlcRun s (lms.map (fun lm => CeltEv.lost lm 0))).2 = burstKinds s.ld lms := by
  intro lms
  induction lms with
  | nil => intro s _ _ _; rfl
  | cons lm rest ih =>
    intro s hl hr hs
    simp only [List.map_cons, celtPlcRun, burstKinds]
    have hlm := hl lm (by simp)
    obtain ⟨h1, h2, _, _⟩ := celtLossStep_spec s.ld lm hlm hr
    have hkind : celtLostKind s 0 = (if s.ld < 40 then PlcKind.pitch else PlcKind.noise) := by
      by_cases h40 : s.ld < 40
      · rw [if_pos h40]
        apply (celtLostKind_pitch_iff s 0).mpr
        refine ⟨h40, rfl, ?_⟩
        cases hsk : s.skip
        · rfl
        · have := hs hsk; omega
      · rw [if_neg h40]
        exact (celtLostKind_noise_iff s 0).mpr (Or.inl (by omega))
    rw [hkind]
    congr 1
    have := ih (celtLost s 0 lm) (fun x hx => hl x (by simp [hx])) ⟨by unfold celtLost; simp only; omega, by unfold celtLost; simp only; exact h2⟩
      (by
        intro hsk
        unfold celtLost at hsk ⊢
        simp only at hsk ⊢
        by_cases h40 : s.ld < 40
        · rw [hkind, if_pos h40] at hsk
          simp only [reduceCtorEq, ↓reduceIte] at hsk
          have := hs hsk; omega
        · omega)
    simpa [celtLost] using this

/-- In hybrid mode (start band 17) every lost frame is concealed by the noise PLC. -/
theorem celt_hybrid_noise (s : CeltPlc) (start : Int) (h : start ≠ 0) : celtLostKind s start = .noise :=
  (celtLostKind_noise_iff s start).mpr (Or.inr (Or.inl h))

end Opus.SilkPlcGains
