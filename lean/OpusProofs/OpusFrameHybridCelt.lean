import OpusProofs.OpusFrameCelt
import OpusProofs.RangeCoderTwin
/-
  C08, frame level: a HYBRID frame without redundancy, with the CELT part discharged by C17's round trip.

  C17's `World` is a legal run (no `ec_enc_patch_initial_bits`); the main coder of a hybrid frame patches the SILK
  header flags.  `patched_eq_bits` (OpusProofs/RangeCoderTwin.lean) closes the gap: the patched run produces, byte
  for byte and in `rng`, what the run coding the true flag bits first produces.  That second run is a `World`; its
  prefix `hybridP0` (flag bits, SILK body, redundancy flag, `ec_enc_shrink`) is the `P0` of `celt_frame_roundtrip`.
-/
namespace Opus.OpusFrameProofs
open Opus Opus.RangeCoder Opus.SilkSyms Opus.SilkSymsEnc Opus.SilkSymsEncProofs Opus.OpusFrameEnc OpusProofs.CeltHdr

/-- what precedes the CELT part on the shared coder, with the flag bits coded directly -/
def hybridP0 (maxData : Nat) (cfg : Cfg) (pk : PacketIn) (gate : Bool) : List Op :=
  bitsOps (bitsWord (headerBits cfg pk) 0) ((cfg.nfpp + 1) * cfg.nCh) ++ packetBody cfg pk ++
    (redSigOps true gate 0 0 0 ++ [Op.shrink (maxData - 1)])

theorem icLegal_prim {ops : List Op} (h : IcLegal ops) : ∀ op ∈ ops, op.isPrim = true ∧ op.Legal := by
  intro op hop
  rcases h op hop with ⟨s, tbl, rfl, h1, h2⟩
  exact ⟨rfl, h1, h2, Nat.le_refl 8⟩

theorem hybridOps_shape (maxData : Nat) (cfg : Cfg) (pk : PacketIn) (gate : Bool) (celtOps : List Op) :
    hybridOps maxData cfg pk gate 0 0 0 celtOps =
      Op.icdf 0 (flagTable ((cfg.nfpp + 1) * cfg.nCh)) 8 ::
        (packetBody cfg pk ++ [Op.patchInitial (bitsWord (headerBits cfg pk) 0) ((cfg.nfpp + 1) * cfg.nCh)] ++
          ((redSigOps true gate 0 0 0 ++ [Op.shrink (maxData - 1)]) ++ celtOps)) := by
  unfold hybridOps packetOps
  rw [placeholder_eq, Nat.sub_zero]
  simp only [List.cons_append, List.append_assoc, List.nil_append]

/-- The patched main coder of a hybrid frame and the legal run with the flag bits coded directly: same finished
    stream, and canon-equal states after every prefix `suf1` of what follows the SILK part. -/
theorem hybrid_twin (buf : List Nat) (maxData : Nat) (cfg : Cfg) (pk : PacketIn) (suf1 suf2 : List Op)
    (hs : maxData - 1 ≤ buf.length) (hb : BytesOk buf) (hok : PacketOk cfg pk) (hk7 : (cfg.nfpp + 1) * cfg.nCh ≤ 7)
    (hsuf : LegalRun (encRun (encInit buf (maxData - 1)) (packetOps cfg pk)) (suf1 ++ suf2))
    (hn : (encRun (encInit buf (maxData - 1)) (packetOps cfg pk ++ (suf1 ++ suf2))).nbitsTotal < 4294967296)
    (herr : (encRun (encInit buf (maxData - 1)) (packetOps cfg pk ++ (suf1 ++ suf2))).error = 0) :
    canon (encRun (encInit buf (maxData - 1)) (packetOps cfg pk ++ suf1)) =
      canon (encRun (encInit buf (maxData - 1))
        (bitsOps (bitsWord (headerBits cfg pk) 0) ((cfg.nfpp + 1) * cfg.nCh) ++ packetBody cfg pk ++ suf1)) ∧
    LegalRun (encInit buf (maxData - 1))
      (bitsOps (bitsWord (headerBits cfg pk) 0) ((cfg.nfpp + 1) * cfg.nCh) ++ packetBody cfg pk ++ (suf1 ++ suf2)) ∧
    encDone (encRun (encInit buf (maxData - 1)) (packetOps cfg pk ++ (suf1 ++ suf2))) =
      encDone (encRun (encInit buf (maxData - 1))
        (bitsOps (bitsWord (headerBits cfg pk) 0) ((cfg.nfpp + 1) * cfg.nCh) ++ packetBody cfg pk ++ (suf1 ++ suf2))) := by
  have hlen := headerBits_length hok
  have hbits := headerBits_bits hok
  have hk1 : 1 ≤ (cfg.nfpp + 1) * cfg.nCh := by
    have := hok.nfpp
    rcases hok.nCh with h | h <;> rw [h] <;> omega
  have hw : bitsWord (headerBits cfg pk) 0 < 2 ^ ((cfg.nfpp + 1) * cfg.nCh) := by
    rw [← hlen]; exact bitsWord_lt _ hbits
  have hprim := icLegal_prim (packetBody_legal hok)
  have hshape : ∀ suf, packetOps cfg pk ++ suf = Op.icdf 0 (flagTable ((cfg.nfpp + 1) * cfg.nCh)) 8 ::
      (packetBody cfg pk ++ [Op.patchInitial (bitsWord (headerBits cfg pk) 0) ((cfg.nfpp + 1) * cfg.nCh)] ++ suf) := by
    intro suf
    unfold packetOps
    rw [placeholder_eq]
    simp only [List.cons_append, List.append_assoc]
  have hshape0 : packetOps cfg pk = Op.icdf 0 (flagTable ((cfg.nfpp + 1) * cfg.nCh)) 8 ::
      (packetBody cfg pk ++ [Op.patchInitial (bitsWord (headerBits cfg pk) 0) ((cfg.nfpp + 1) * cfg.nCh)]) := by
    unfold packetOps; rw [placeholder_eq]
  generalize (cfg.nfpp + 1) * cfg.nCh = k at *
  generalize bitsWord (headerBits cfg pk) 0 = word at *
  rw [hshape0] at hsuf
  rw [hshape] at hn herr ⊢
  rw [hshape]
  obtain ⟨_, _, a3, a4⟩ := patched_eq_bits buf (maxData - 1) k word (packetBody cfg pk) (suf1 ++ suf2) hs hb hk1 hk7 hw
    hprim hsuf hn herr
  -- the prefix
  have hsuf1 := (legalRun_append suf1 suf2 _ hsuf).1
  have e1 : Op.icdf 0 (flagTable k) 8 :: (packetBody cfg pk ++ [Op.patchInitial word k] ++ (suf1 ++ suf2)) =
      (Op.icdf 0 (flagTable k) 8 :: (packetBody cfg pk ++ [Op.patchInitial word k] ++ suf1)) ++ suf2 := by
    simp only [List.cons_append, List.append_assoc]
  rw [e1, encRun_append] at hn herr
  have herr1 : (encRun (encInit buf (maxData - 1)) (Op.icdf 0 (flagTable k) 8 ::
      (packetBody cfg pk ++ [Op.patchInitial word k] ++ suf1))).error = 0 := by
    apply Classical.byContradiction; intro hne
    exact encRun_error_mono suf2 _ hne herr
  have hn1 := Nat.lt_of_le_of_lt (encRun_nbits_mono suf2 _) hn
  obtain ⟨b1, _, _, _⟩ := patched_eq_bits buf (maxData - 1) k word (packetBody cfg pk) suf1 hs hb hk1 hk7 hw
    hprim hsuf1 hn1 herr1
  exact ⟨b1, a3, a4⟩

/-- The legal run behind a hybrid frame without redundancy, as a C17 `World`. -/
theorem hybrid_world (buf : List Nat) (maxData nCh ms10 : Nat) (pk : PacketIn) (gate : Bool) (celtOps : List Op)
    (hs : maxData - 1 ≤ buf.length) (hb : BytesOk buf) (hok : PacketOk (hybridCfg nCh ms10) pk)
    (hsuf : LegalRun (encRun (encInit buf (maxData - 1)) (packetOps (hybridCfg nCh ms10) pk ++ redSigOps true gate 0 0 0))
      (Op.shrink (maxData - 1 - 0) :: celtOps))
    (hn29 : (encodeAll buf (maxData - 1) (hybridOps maxData (hybridCfg nCh ms10) pk gate 0 0 0 celtOps)).nbitsTotal < 536870912)
    (herr : (encodeAll buf (maxData - 1) (hybridOps maxData (hybridCfg nCh ms10) pk gate 0 0 0 celtOps)).error = 0) :
    ∃ w : World, w.buf = buf ∧ w.size = maxData - 1 ∧ w.all = hybridP0 maxData (hybridCfg nCh ms10) pk gate ++ celtOps ∧
      encodeAll buf (maxData - 1) (hybridOps maxData (hybridCfg nCh ms10) pk gate 0 0 0 celtOps) =
        encodeAll buf (maxData - 1) (hybridP0 maxData (hybridCfg nCh ms10) pk gate ++ celtOps) ∧
      canon (encRun (encInit buf (maxData - 1)) (packetOps (hybridCfg nCh ms10) pk)) =
        canon (encRun (encInit buf (maxData - 1))
          (bitsOps (bitsWord (headerBits (hybridCfg nCh ms10) pk) 0) (((hybridCfg nCh ms10).nfpp + 1) * (hybridCfg nCh ms10).nCh) ++
            packetBody (hybridCfg nCh ms10) pk)) ∧
      canon (encRun (encInit buf (maxData - 1)) (packetOps (hybridCfg nCh ms10) pk ++
          (redSigOps true gate 0 0 0 ++ [Op.shrink (maxData - 1)]))) =
        canon (encRun (encInit buf (maxData - 1)) (hybridP0 maxData (hybridCfg nCh ms10) pk gate)) := by
  have hk7 : ((hybridCfg nCh ms10).nfpp + 1) * (hybridCfg nCh ms10).nCh ≤ 7 := by
    have h1 : (hybridCfg nCh ms10).nfpp = 1 := rfl
    rcases hok.nCh with h | h <;> rw [h1, h] <;> decide
  generalize hcfg : hybridCfg nCh ms10 = cfg at *
  have hops : hybridOps maxData cfg pk gate 0 0 0 celtOps =
      packetOps cfg pk ++ ((redSigOps true gate 0 0 0 ++ [Op.shrink (maxData - 1)]) ++ celtOps) := by
    unfold hybridOps
    rw [Nat.sub_zero]
    simp only [List.append_assoc, List.cons_append, List.nil_append]
  have hsufR : LegalRun (encRun (encInit buf (maxData - 1)) (packetOps cfg pk))
      ((redSigOps true gate 0 0 0 ++ [Op.shrink (maxData - 1)]) ++ celtOps) := by
    rw [List.append_assoc]
    apply legalRun_append_mk _ _ _ (redSigOps_legal _ gate 0 0 0 (fun h => absurd rfl h))
    rw [← encRun_append]
    rw [Nat.sub_zero] at hsuf
    exact hsuf
  unfold encodeAll at hn29 herr
  rw [hops] at hn29 herr
  have herrR : (encRun (encInit buf (maxData - 1)) (packetOps cfg pk ++
      ((redSigOps true gate 0 0 0 ++ [Op.shrink (maxData - 1)]) ++ celtOps))).error = 0 := by
    apply Classical.byContradiction; intro hne
    exact encDone_error_mono _ hne herr
  have hnR : (encRun (encInit buf (maxData - 1)) (packetOps cfg pk ++
      ((redSigOps true gate 0 0 0 ++ [Op.shrink (maxData - 1)]) ++ celtOps))).nbitsTotal < 4294967296 := by
    rw [encDone_nbitsTotal] at hn29; omega
  obtain ⟨a1, a2, a3⟩ := hybrid_twin buf maxData cfg pk (redSigOps true gate 0 0 0 ++ [Op.shrink (maxData - 1)]) celtOps
    hs hb hok hk7 hsufR hnR herrR
  have hsuf0 : LegalRun (encRun (encInit buf (maxData - 1)) (packetOps cfg pk))
      ([] ++ ((redSigOps true gate 0 0 0 ++ [Op.shrink (maxData - 1)]) ++ celtOps)) := hsufR
  obtain ⟨b1, _, _⟩ := hybrid_twin buf maxData cfg pk [] ((redSigOps true gate 0 0 0 ++ [Op.shrink (maxData - 1)]) ++ celtOps)
    hs hb hok hk7 hsuf0 hnR herrR
  rw [List.append_nil, List.append_nil] at b1
  have hall : bitsOps (bitsWord (headerBits cfg pk) 0) ((cfg.nfpp + 1) * cfg.nCh) ++ packetBody cfg pk ++
      ((redSigOps true gate 0 0 0 ++ [Op.shrink (maxData - 1)]) ++ celtOps) = hybridP0 maxData cfg pk gate ++ celtOps := by
    unfold hybridP0
    simp only [List.append_assoc]
  have hP0 : bitsOps (bitsWord (headerBits cfg pk) 0) ((cfg.nfpp + 1) * cfg.nCh) ++ packetBody cfg pk ++
      (redSigOps true gate 0 0 0 ++ [Op.shrink (maxData - 1)]) = hybridP0 maxData cfg pk gate := rfl
  rw [hall] at a2 a3
  rw [hP0] at a1
  have hE : encodeAll buf (maxData - 1) (hybridOps maxData cfg pk gate 0 0 0 celtOps) =
      encodeAll buf (maxData - 1) (hybridP0 maxData cfg pk gate ++ celtOps) := by
    unfold encodeAll; rw [hops]; exact a3
  rw [a3] at hn29 herr
  exact ⟨⟨buf, maxData - 1, hybridP0 maxData cfg pk gate ++ celtOps, hs, hb, a2, by unfold encodeAll; omega, herr, hn29⟩,
    rfl, rfl, rfl, hE, b1, a1⟩

theorem world_reads (w : World) : Reads w.d0 w.all := by
  have hl := w.hl; have hn := w.hn; have herr := w.herr
  obtain ⟨hm, _⟩ := decode_encode_prefix w.buf w.size w.all [] w.hs w.hb (by rw [List.append_nil]; exact hl)
    (by rw [List.append_nil]; exact hn) (by rw [List.append_nil]; exact herr)
  rw [List.append_nil] at hm
  exact (reads_iff w.all _).mpr hm

theorem world_decAt (w : World) (P : List Op) : w.decAt P = after w.d0 P := by
  unfold World.decAt; rw [after_eq]

/-- C03's decoder on the packet of the legal run: SILK part and redundancy parse end in the decoder state C17's
    theorem starts from. -/
theorem hybrid_dec (w : World) (maxData : Nat) (cfg : Cfg) (pk : PacketIn) (gate : Bool) (celtOps : List Op) (st : SilkSt)
    (ir pm : Nat) (hok : PacketOk cfg pk) (hall : w.all = hybridP0 maxData cfg pk gate ++ celtOps)
    (hgate : (tell (w.encAt (bitsOps (bitsWord (headerBits cfg pk) 0) ((cfg.nfpp + 1) * cfg.nCh) ++ packetBody cfg pk)) + 17 + 20 ≤
      8 * (w.len : Int)) ↔ gate = true)
    (hroom : tell (w.encAt (hybridP0 maxData cfg pk gate)) ≤ 8 * (w.len : Int)) :
    (decodeOpusFrameCfg 1001 ir pm false cfg st w.bytes).dec = w.decAt (hybridP0 maxData cfg pk gate) ∧
    (decodeOpusFrameCfg 1001 ir pm false cfg st w.bytes).len = (w.len : Int) ∧
    (decodeOpusFrameCfg 1001 ir pm false cfg st w.bytes).redundancy = 0 := by
  have hlen := headerBits_length hok
  have hbits := headerBits_bits hok
  have hbl := (world_bytes w).1
  have hreads := world_reads w
  rw [hall] at hreads
  unfold hybridP0 at hreads
  rw [reads_append, reads_append] at hreads
  obtain ⟨⟨hrFB, hrS⟩, _⟩ := hreads
  rw [reads_append] at hrS
  obtain ⟨hrSig, _⟩ := hrS
  have hfo : bitsOps (bitsWord (headerBits cfg pk) 0) ((cfg.nfpp + 1) * cfg.nCh) = flagOps (headerBits cfg pk) := by
    rw [← hlen]; exact bitsOps_word _ hbits
  rw [hfo] at hrFB hrSig hgate
  have hpFB : w.IsPrefix (flagOps (headerBits cfg pk) ++ packetBody cfg pk) := by
    refine ⟨redSigOps true gate 0 0 0 ++ [Op.shrink (maxData - 1)] ++ celtOps, ?_⟩
    rw [hall]; unfold hybridP0; rw [hfo]; simp only [List.append_assoc]
  have hpP0 : w.IsPrefix (hybridP0 maxData cfg pk gate) := ⟨celtOps, hall⟩
  obtain ⟨_, c1eq⟩ := silkCalls_any hok st w.d0 hrFB
  have hd0 : decInit w.bytes w.bytes.length = w.d0 := by rw [hbl]; rfl
  -- the redundancy parse
  have htFB : tell (after w.d0 (flagOps (headerBits cfg pk) ++ packetBody cfg pk)) =
      tell (w.encAt (flagOps (headerBits cfg pk) ++ packetBody cfg pk)) := by
    rw [← world_decAt]; exact (w.sync _ hpFB).1
  have hP0eq : hybridP0 maxData cfg pk gate =
      (flagOps (headerBits cfg pk) ++ packetBody cfg pk ++ redSigOps true gate 0 0 0) ++ [Op.shrink (maxData - 1)] := by
    unfold hybridP0; rw [hfo]; simp only [List.append_assoc]
  have hshr : ∀ d : Dec, after d [Op.shrink (maxData - 1)] = d := fun _ => rfl
  have hdecP0 : w.decAt (hybridP0 maxData cfg pk gate) =
      after (after w.d0 (flagOps (headerBits cfg pk) ++ packetBody cfg pk)) (redSigOps true gate 0 0 0) := by
    rw [world_decAt, hP0eq, after_append, hshr, after_append]
  have htS : tell (after (after w.d0 (flagOps (headerBits cfg pk) ++ packetBody cfg pk)) (redSigOps true gate 0 0 0)) =
      tell (w.encAt (hybridP0 maxData cfg pk gate)) := by
    rw [← hdecP0]; exact (w.sync _ hpP0).1
  have hrh := redundancyHeader_hybrid w.len (after w.d0 (flagOps (headerBits cfg pk) ++ packetBody cfg pk)) gate 0 0 0
    (by decide) (by decide) (fun h => absurd rfl h) (by rw [htFB]; exact hgate) hrSig
    (by rw [htS]; simp only [Int.natCast_zero, Int.sub_zero]; omega)
  rw [if_neg (by intro h; exact h.2 rfl)] at hrh
  unfold decodeOpusFrameCfg
  rw [hd0]
  split
  rename_i evs st1 c1 e
  have hc1 : c1 = after w.d0 (flagOps (headerBits cfg pk) ++ packetBody cfg pk) := by
    rw [← c1eq, e]
  rw [hbl, hc1, hrh]
  exact ⟨hdecP0.symm, rfl, rfl⟩

/-- The hypotheses of C17's `celt_frame_roundtrip` for the CELT part of a hybrid frame without redundancy, stated on
    the encoder models: `L` is the final length of the frame, `hybridP0` what precedes the CELT part on the shared
    coder (the legal form of the SILK prefix), `s0` the CELT encoder model's start state — the coder behind that
    prefix, which differs from the state of the patched coder at most in how a pending 0xFF first digit is
    represented (`hybrid_world`) — with the CELT decisions `s0.ds`. -/
structure HybridCelt (buf : List Nat) (maxData : Nat) (cfg : Cfg) (pk : PacketIn) (gate : Bool)
    (ccfg : Opus.CeltSymsEnc.EncCfg) (s0 : Opus.CeltSymsEnc.St) (fr : Opus.CeltBandsEnc.EncFrame) : Prop where
  ops0 : s0.ops = []
  enc0 : s0.e = encRun (encInit buf (maxData - 1)) (hybridP0 maxData cfg pk gate)
  storage0 : s0.e.storage = ccfg.size
  run : Opus.CeltBandsEnc.encFrame ccfg s0 = .ok fr
  notSilent : fr.hdr.silence = 0
  cfgOk : ccfg.start < ccfg.end_ ∧ ccfg.end_ ≤ 21 ∧ (ccfg.C = 1 ∨ ccfg.C = 2) ∧ ccfg.LM ≤ 3
  sizeOk : ccfg.size ≤ 1275
  len : (encodeAll buf (maxData - 1) (hybridOps maxData cfg pk gate 0 0 0 fr.ops)).storage = fr.hdr.size
  margin : (encodeAll buf (maxData - 1) (hybridOps maxData cfg pk gate 0 0 0 fr.ops)).storage = ccfg.size ∨
    (tell (encRun (encInit buf (maxData - 1)) (hybridP0 maxData cfg pk gate ++ fr.hdr.opsHdr)) + 16 ≤
        (((encodeAll buf (maxData - 1) (hybridOps maxData cfg pk gate 0 0 0 fr.ops)).storage * 8 : Nat) : Int) ∧
     (tellFrac (encRun (encInit buf (maxData - 1)) (hybridP0 maxData cfg pk gate ++ fr.hdr.opsHdr)) : Int) + fr.hdr.totalBoost + 48 <
        (((encodeAll buf (maxData - 1) (hybridOps maxData cfg pk gate 0 0 0 fr.ops)).storage * 8 * 8 : Nat) : Int))
  room : tell s0.e < (((encodeAll buf (maxData - 1) (hybridOps maxData cfg pk gate 0 0 0 fr.ops)).storage * 8 : Nat) : Int)
  tapset : fr.hdr.pf.on ≠ 0 →
    tell (encRun (encInit buf (maxData - 1)) (hybridP0 maxData cfg pk gate ++ fr.hdr.opsPf.dropLast)) + 2 ≤
      (((encodeAll buf (maxData - 1) (hybridOps maxData cfg pk gate 0 0 0 fr.ops)).storage * 8 : Nat) : Int)
  intensity : (ccfg.start : Int) ≤ fr.hdr.allocInp.intensity
  dual : fr.hdr.allocInp.dualStereo = 0 ∨ fr.hdr.allocInp.dualStereo = 1

theorem canon_tell {a b : Enc} (h : canon a = canon b) : tell a = tell b := by
  have e1 : a.rng = b.rng := by have := congrArg Ctx.rng h; simpa using this
  have e2 : a.nbitsTotal = b.nbitsTotal := by have := congrArg Ctx.nbitsTotal h; simpa using this
  exact tell_congr e1 e2

/-- **Hybrid frame without redundancy, CELT part included.** -/
theorem opus_frame_lockstep_hybrid_celt_all (buf : List Nat) (maxData bandwidth nCh ms10 spf48 : Nat) (pk : PacketIn)
    (st : SilkSt) (gate : Bool) (ccfg : Opus.CeltSymsEnc.EncCfg) (s0 : Opus.CeltSymsEnc.St) (fr : Opus.CeltBandsEnc.EncFrame)
    (hms : ms10 = 100 ∨ ms10 = 200)
    (hs : maxData - 1 ≤ buf.length) (hb : BytesOk buf) (hok : PacketOk (hybridCfg nCh ms10) pk)
    (hsuf : LegalRun (encRun (encInit buf (maxData - 1)) (packetOps (hybridCfg nCh ms10) pk ++ redSigOps true gate 0 0 0))
      (Op.shrink (maxData - 1 - 0) :: fr.ops))
    (hn29 : (encodeAll buf (maxData - 1) (hybridOps maxData (hybridCfg nCh ms10) pk gate 0 0 0 fr.ops)).nbitsTotal < 536870912)
    (herr : (encodeAll buf (maxData - 1) (hybridOps maxData (hybridCfg nCh ms10) pk gate 0 0 0 fr.ops)).error = 0)
    (hgate : (tell (encRun (encInit buf (maxData - 1)) (packetOps (hybridCfg nCh ms10) pk)) + 17 + 20 ≤
        8 * (((encodeAll buf (maxData - 1) (hybridOps maxData (hybridCfg nCh ms10) pk gate 0 0 0 fr.ops)).storage : Nat) : Int)) ↔
      gate = true)
    (hmainpos : 0 < (encodeAll buf (maxData - 1) (hybridOps maxData (hybridCfg nCh ms10) pk gate 0 0 0 fr.ops)).storage)
    (hcelt : HybridCelt buf maxData (hybridCfg nCh ms10) pk gate ccfg s0 fr)
    (hcc : ccfg.start = 17 ∧ ccfg.end_ = Opus.CeltSyms.endBandOf bandwidth ∧ ccfg.C = nCh ∧ ccfg.LM = Opus.CeltSyms.lmOf spf48) :
    ∃ o, decodeOpusFrame 1001 bandwidth nCh ms10 false st
        (hybridFrame buf maxData (hybridCfg nCh ms10) pk gate 0 0 fr.ops [] 0).payload = .ok o ∧
      o.redundancy = 0 ∧
      o.evs = packetEvs (hybridCfg nCh ms10) pk (fun j =>
        ((encRun (encInit buf (maxData - 1)) (prefixOps (hybridCfg nCh ms10) pk j)).rng,
         tell (encRun (encInit buf (maxData - 1)) (prefixOps (hybridCfg nCh ms10) pk j)))) ∧
      decRangeFinal 1001 bandwidth nCh spf48 (hybridFrame buf maxData (hybridCfg nCh ms10) pk gate 0 0 fr.ops [] 0).payload o =
        .ok (hybridFrame buf maxData (hybridCfg nCh ms10) pk gate 0 0 fr.ops [] 0).rangeFinal := by
  obtain ⟨w, hwb, hws, hall, hE, c1, c2⟩ := hybrid_world buf maxData nCh ms10 pk gate fr.ops hs hb hok hsuf hn29 herr
  generalize hcfg : hybridCfg nCh ms10 = cfg at *
  -- the world's packet is the frame
  have hwE : encodeAll w.buf w.size w.all = encodeAll buf (maxData - 1) (hybridOps maxData cfg pk gate 0 0 0 fr.ops) := by
    rw [hwb, hws, hall, hE]
  have hwlen : w.len = (encodeAll buf (maxData - 1) (hybridOps maxData cfg pk gate 0 0 0 fr.ops)).storage := by
    unfold World.len; rw [hwE]
  have hpay : (hybridFrame buf maxData cfg pk gate 0 0 fr.ops [] 0).payload = w.bytes := by
    unfold hybridFrame World.bytes World.len
    simp only [List.length_nil, List.append_nil]
    rw [hwE]
  have hwenc : ∀ P, w.encAt P = encRun (encInit buf (maxData - 1)) P := by
    intro P; unfold World.encAt; rw [hwb, hws]
  -- tells of the patched coder and of the legal run agree
  have t1 := canon_tell c1
  have t2 := canon_tell c2
  have hshrT : tell (encRun (encInit buf (maxData - 1)) (packetOps cfg pk ++ (redSigOps true gate 0 0 0 ++ [Op.shrink (maxData - 1)]))) =
      tell (encRun (encInit buf (maxData - 1)) (packetOps cfg pk ++ redSigOps true gate 0 0 0)) := by
    rw [← List.append_assoc, encRun_append]
    exact tell_congr rfl rfl
  -- C17
  have hroomW : tell s0.e < ((w.len * 8 : Nat) : Int) := by rw [hwlen]; exact hcelt.room
  obtain ⟨dh, sA, fa, _, hcf⟩ := celtFrame_roundtrip w (hybridP0 maxData cfg pk gate) ccfg s0 hcelt.ops0
    (by rw [hwenc]; exact hcelt.enc0) hcelt.storage0 fr hcelt.run hcelt.notSilent ⟨[], by rw [List.append_nil]; exact hall⟩
    hcelt.cfgOk hcelt.sizeOk (by rw [hwlen]; exact hcelt.len) (by rw [hwlen, hwenc]; exact hcelt.margin) hroomW
    (by rw [hwlen, hwenc]; exact hcelt.tapset) hcelt.intensity hcelt.dual
  -- the SILK part and the parse (existing theorem, on the patched model)
  obtain ⟨o, o1, o2, _, _, o5, o6, _, _, _, _, o11⟩ := opus_frame_lockstep_hybrid_all buf maxData bandwidth nCh ms10 spf48 pk st
    gate 0 0 fr.ops [] 0 hms hs hb (by rw [hcfg]; exact hok) (by decide) (by decide) (by intro b hb; cases hb)
    (fun h => absurd rfl h) (fun _ => rfl) (by rw [hcfg]; exact hsuf) (by rw [hcfg]; show (encodeAll buf (maxData - 1) (hybridOps maxData cfg pk gate 0 0 0 fr.ops)).nbitsTotal < 4294967296; omega)
    (by rw [hcfg]; exact herr)
    (by rw [hcfg]; simpa using hgate)
    (by
      rw [hcfg]
      show tell (encRun (encInit buf (maxData - 1)) (packetOps cfg pk ++ redSigOps true gate 0 0 0)) ≤ _
      have h1 := hcelt.room
      rw [hcelt.enc0, ← t2, hshrT] at h1
      have : ((((encodeAll buf (maxData - 1) (hybridOps maxData cfg pk gate 0 0 0 fr.ops)).storage * 8 : Nat)) : Int) =
          8 * (((encodeAll buf (maxData - 1) (hybridOps maxData cfg pk gate 0 0 0 fr.ops)).storage : Nat) : Int) := by
        simp only [Int.natCast_mul]; omega
      rw [this] at h1
      exact Int.le_of_lt h1)
    (by rw [hcfg]; exact hmainpos)
  rw [hcfg] at o1 o6 o11
  refine ⟨o, o1, by rw [o2]; simp, o6, ?_⟩
  -- the decoder state handed to the CELT decoder
  rw [decodeOpusFrame_hybrid bandwidth nCh ms10 hms st, hcfg] at o1
  have ho : decodeOpusFrameCfg 1001 16000 (ms10 / 10) false cfg st
      (hybridFrame buf maxData cfg pk gate 0 0 fr.ops [] 0).payload = o := by
    injection o1
  rw [hpay] at ho
  obtain ⟨d1, d2, _⟩ := hybrid_dec w maxData cfg pk gate fr.ops st 16000 (ms10 / 10) hok hall
    (by rw [hwenc, hwlen, ← t1]; exact hgate)
    (by
      rw [hwenc, ← hcelt.enc0]
      have h1 := hroomW
      have : ((w.len * 8 : Nat) : Int) = 8 * (w.len : Int) := by simp only [Int.natCast_mul]; omega
      rw [this] at h1
      exact Int.le_of_lt h1)
  rw [ho] at d1 d2
  apply o11
  · -- the CELT part
    obtain ⟨h1, h2, h3, h4⟩ := hcc
    have hlen' : o.len.toNat = w.len := by rw [d2]; exact Int.toNat_natCast _
    rw [hlen', d1, ← h1, ← h2, ← h3, ← h4]
    refine ⟨_, hcf, ?_⟩
    rw [fa.rngFin, fa.encFin, hwenc, ← hall, ← hwb, ← hws]
    show (encRun (encInit w.buf w.size) w.all).rng = (encodeAll w.buf w.size (hybridOps maxData cfg pk gate 0 0 0 fr.ops)).rng
    rw [hwb, hws, ← hwE, hwb, hws]
    unfold encodeAll
    rw [encDone_rng]
  · intro h; exact absurd rfl h.2
  · intro _; rfl

end Opus.OpusFrameProofs
