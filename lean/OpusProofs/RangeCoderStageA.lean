import OpusProofs.RangeCoderOps
import OpusProofs.RangeCoderTell
/-
  OpusProofs.RangeCoderStageA — C08 Stage A: `rng` and `nbits_total` of encoder and decoder
  evolve as one pure function of the operations (independent of buffer space and
  errors): `rng` stays normalised, `ec_tell`/`ec_tell_frac` are monotone, and encoder and
  decoder agree as long as the decoded symbols agree.
-/
namespace Opus.RangeCoder

/-- `2^23 < rng ≤ 2^31`. -/
def RngOk (c : Ctx) : Prop := 8388608 < c.rng ∧ c.rng ≤ 2147483648

/-- The new range of a subdivision before normalisation. -/
def subRho (rng r a b : Nat) (first : Bool) : Nat := if first then rng - r * b else r * (a - b)

theorem encSub_rng (c : Enc) (r a b : Nat) (first : Bool) :
    (encSub c r a b first).rng = subRho c.rng r a b first := by
  unfold encSub subRho; split <;> rfl

theorem subRho_bounds {rng r a b : Nat} (first : Bool) (ok : SubOk rng r a b) :
    0 < subRho rng r a b first ∧ subRho rng r a b first ≤ rng := by
  obtain ⟨f1, f2, f3⟩ := ok.facts
  have := ok.r_pos
  unfold subRho; split
  · omega
  · rw [f2]; omega

/-- New `(rng, nbits_total)` of a primitive range-coded operation. -/
def symRN (rng nbits r a b : Nat) (first : Bool) : Nat × Nat := normRN (subRho rng r a b first) nbits

/-- The pre-normalisation `rng` of the encoder primitives, without 32-bit wrappers. -/
theorem rho_nonfirst {rng r a b : Nat} (ok : SubOk rng r a b) (hr : rng ≤ 2147483648) :
    mul32 r (a - b) = subRho rng r a b false := by
  obtain ⟨f1, f2, f3⟩ := ok.facts
  unfold subRho
  simp only [Bool.false_eq_true, if_false]
  exact mul32_of_lt (by rw [f2]; omega)

theorem rho_first {rng r a b : Nat} (ok : SubOk rng r a b) (hr : rng ≤ 2147483648) :
    sub32 rng (mul32 r b) = subRho rng r a b true := by
  obtain ⟨f1, f2, f3⟩ := ok.facts
  unfold subRho
  simp only [if_true]
  rw [mul32_of_lt (by omega), sub32_of_le (by omega) (by omega)]

/-- Static legality gives parameters that fit, for every normalised `rng`. -/
theorem Op.sub_ok {op : Op} {rng r a b : Nat} {first : Bool} (hl : op.Legal) (h1 : 8388608 < rng)
    (hsub : op.sub rng = some (r, a, b, first)) : SubOk rng r a b := by
  cases op with
  | encode fl fh ft =>
    simp only [Op.sub, Option.some.injEq, Prod.mk.injEq] at hsub
    obtain ⟨rfl, rfl, rfl, rfl⟩ := hsub
    obtain ⟨l1, l2, l3, l4⟩ := hl
    exact div_subOk (by omega) l4 h1 (by omega) (by omega)
  | encodeBin fl fh nb =>
    simp only [Op.sub, Option.some.injEq, Prod.mk.injEq] at hsub
    obtain ⟨rfl, rfl, rfl, rfl⟩ := hsub
    obtain ⟨l1, l2, l3, l4⟩ := hl
    exact div_subOk (Nat.pow_pos (by decide)) (two_pow_le_65536 l4) h1 (by omega) (by omega)
  | bitLogp v logp =>
    obtain ⟨l1, l2⟩ := hl
    have hp : 2 ^ logp ≤ 65536 := two_pow_le_65536 (by omega)
    have hp0 : 0 < 2 ^ logp := Nat.pow_pos (by decide)
    have hp1 : 1 < 2 ^ logp := Nat.one_lt_two_pow (by omega)
    simp only [Op.sub] at hsub
    split at hsub
    · simp only [Option.some.injEq, Prod.mk.injEq] at hsub
      obtain ⟨rfl, rfl, rfl, rfl⟩ := hsub
      exact div_subOk hp0 hp h1 (by omega) (by omega)
    · simp only [Option.some.injEq, Prod.mk.injEq] at hsub
      obtain ⟨rfl, rfl, rfl, rfl⟩ := hsub
      exact div_subOk hp0 hp h1 (by omega) (by omega)
  | icdf s tbl ftb =>
    simp only [Op.sub, Option.some.injEq, Prod.mk.injEq] at hsub
    obtain ⟨rfl, rfl, rfl, rfl⟩ := hsub
    obtain ⟨l1, l2, l3⟩ := hl
    obtain ⟨g1, g2⟩ := icdf_facts l1 l2
    exact div_subOk (Nat.pow_pos (by decide)) (two_pow_le_65536 (by omega)) h1 g2 g1
  | icdf16 s tbl ftb =>
    simp only [Op.sub, Option.some.injEq, Prod.mk.injEq] at hsub
    obtain ⟨rfl, rfl, rfl, rfl⟩ := hsub
    obtain ⟨l1, l2, l3⟩ := hl
    obtain ⟨g1, g2⟩ := icdf_facts l1 l2
    exact div_subOk (Nat.pow_pos (by decide)) (two_pow_le_65536 (by omega)) h1 g2 g1
  | uint v ft => simp [Op.sub] at hsub
  | bits v n => simp [Op.sub] at hsub
  | patchInitial v n => simp [Op.sub] at hsub
  | shrink size => simp [Op.sub] at hsub

/-- Encoder side: a primitive range-coded operation maps `(rng, nbits_total)` by `symRN`,
    whatever the rest of the state (buffer space, errors) is. -/
theorem encOp_rn_sym (c : Enc) (op : Op) (hr : RngOk c) (hl : op.Legal) {r a b : Nat} {first : Bool}
    (hsub : op.sub c.rng = some (r, a, b, first)) :
    ((encOp c op).rng, (encOp c op).nbitsTotal) = symRN c.rng c.nbitsTotal r a b first := by
  have ok := Op.sub_ok hl hr.1 hsub
  have rh := hr.2
  unfold symRN
  cases op with
  | encode fl fh ft =>
    simp only [Op.sub, Option.some.injEq, Prod.mk.injEq] at hsub
    obtain ⟨rfl, rfl, rfl, rfl⟩ := hsub
    obtain ⟨l1, l2, l3, l4⟩ := hl
    simp only [encOp, encode, udiv]
    rw [encNormalize_rn]
    have e2 : sub32 fh fl = (ft - fl) - (ft - fh) := by rw [sub32_of_le (by omega) (by omega)]; omega
    have e3 : sub32 ft fh = ft - fh := sub32_of_le (by omega) (by omega)
    by_cases hfl : fl > 0
    · rw [if_pos hfl]; simp only
      rw [e2, rho_nonfirst ok rh]
      have : decide (fl = 0) = false := by simp; omega
      rw [this]
    · rw [if_neg hfl]; simp only
      rw [e3, rho_first ok rh]
      have : decide (fl = 0) = true := by simp; omega
      rw [this]
  | encodeBin fl fh nb =>
    simp only [Op.sub, Option.some.injEq, Prod.mk.injEq] at hsub
    obtain ⟨rfl, rfl, rfl, rfl⟩ := hsub
    obtain ⟨l1, l2, l3, l4⟩ := hl
    have hp := two_pow_le_65536 l4
    simp only [encOp, encodeBin]
    rw [encNormalize_rn]
    have e0 : u32 (2 ^ nb) = 2 ^ nb := u32_of_lt (by omega)
    have e2 : sub32 fh fl = (2 ^ nb - fl) - (2 ^ nb - fh) := by rw [sub32_of_le (by omega) (by omega)]; omega
    have e3 : sub32 (2 ^ nb) fh = 2 ^ nb - fh := sub32_of_le (by omega) (by omega)
    by_cases hfl : fl > 0
    · rw [if_pos hfl]; simp only
      rw [e2, rho_nonfirst ok rh]
      have : decide (fl = 0) = false := by simp; omega
      rw [this]
    · rw [if_neg hfl]; simp only
      rw [e0, e3, rho_first ok rh]
      have : decide (fl = 0) = true := by simp; omega
      rw [this]
  | bitLogp v logp =>
    simp only [Op.sub] at hsub
    simp only [encOp, encBitLogp]
    rw [encNormalize_rn]
    have hs : c.rng / 2 ^ logp ≤ c.rng := Nat.div_le_self _ _
    have e1 : sub32 c.rng (c.rng / 2 ^ logp) = c.rng - c.rng / 2 ^ logp := sub32_of_le (by omega) hs
    by_cases hv : v ≠ 0
    · rw [if_pos hv] at hsub ⊢
      simp only [Option.some.injEq, Prod.mk.injEq] at hsub
      obtain ⟨rfl, rfl, rfl, rfl⟩ := hsub
      simp [subRho]
    · rw [if_neg hv] at hsub ⊢
      simp only [Option.some.injEq, Prod.mk.injEq] at hsub
      obtain ⟨rfl, rfl, rfl, rfl⟩ := hsub
      simp [subRho, e1]
  | icdf s tbl ftb =>
    simp only [Op.sub, Option.some.injEq, Prod.mk.injEq] at hsub
    obtain ⟨rfl, rfl, rfl, rfl⟩ := hsub
    obtain ⟨l1, l2, l3⟩ := hl
    obtain ⟨g1, g2⟩ := icdf_facts l1 l2
    have hp := two_pow_le_65536 (n := ftb) (by omega)
    simp only [encOp, encIcdf]
    rw [encNormalize_rn]
    by_cases hs : s > 0
    · have hs0 : ¬ s = 0 := by omega
      simp only [hs0, if_false] at ok g1 g2 ⊢
      rw [if_pos hs]; simp only
      have e2 : sub32 (tbl.getD (s - 1) 0) (tbl.getD s 0) = tbl.getD (s - 1) 0 - tbl.getD s 0 :=
        sub32_of_le (by omega) (by omega)
      rw [e2, rho_nonfirst ok rh]; simp
    · have hs0 : s = 0 := by omega
      subst hs0
      simp only [if_true] at ok g1 g2 ⊢
      rw [if_neg (by omega)]; simp only
      rw [rho_first ok rh]; simp
  | icdf16 s tbl ftb =>
    simp only [Op.sub, Option.some.injEq, Prod.mk.injEq] at hsub
    obtain ⟨rfl, rfl, rfl, rfl⟩ := hsub
    obtain ⟨l1, l2, l3⟩ := hl
    obtain ⟨g1, g2⟩ := icdf_facts l1 l2
    have hp := two_pow_le_65536 (n := ftb) (by omega)
    simp only [encOp, encIcdf16, encIcdf]
    rw [encNormalize_rn]
    by_cases hs : s > 0
    · have hs0 : ¬ s = 0 := by omega
      simp only [hs0, if_false] at ok g1 g2 ⊢
      rw [if_pos hs]; simp only
      have e2 : sub32 (tbl.getD (s - 1) 0) (tbl.getD s 0) = tbl.getD (s - 1) 0 - tbl.getD s 0 :=
        sub32_of_le (by omega) (by omega)
      rw [e2, rho_nonfirst ok rh]; simp
    · have hs0 : s = 0 := by omega
      subst hs0
      simp only [if_true] at ok g1 g2 ⊢
      rw [if_neg (by omega)]; simp only
      rw [rho_first ok rh]; simp
  | uint v ft => simp [Op.sub] at hsub
  | bits v n => simp [Op.sub] at hsub
  | patchInitial v n => simp [Op.sub] at hsub
  | shrink size => simp [Op.sub] at hsub

/-! ### Raw bits, patch, shrink, uint: effect on `(rng, nbits_total)` -/

theorem encBitsFlush_frame {α} (f : Enc → α) (hw : ∀ c v, f (writeByteAtEnd c v) = f c)
    (c : Enc) (w u : Nat) : f (encBitsFlush c w u).1 = f c := by
  fun_induction encBitsFlush c w u with
  | case1 c w u c1 h ih => rw [ih, hw]
  | case2 c w u c1 h => exact hw _ _

theorem encBits_rn (c : Enc) (v n : Nat) :
    (encBits c v n).rng = c.rng ∧ (encBits c v n).nbitsTotal = c.nbitsTotal + n := by
  unfold encBits
  simp only
  split
  · exact ⟨encBitsFlush_frame (·.rng) (by simp) _ _ _,
      by rw [encBitsFlush_frame (·.nbitsTotal) (by simp)]⟩
  · exact ⟨rfl, rfl⟩

/-- New `(rng, nbits_total)` of a primitive operation. -/
def primRN (op : Op) (rng nbits : Nat) : Nat × Nat :=
  match op.sub rng with
  | some (r, a, b, first) => symRN rng nbits r a b first
  | none => (rng, nbits)

/-- New `(rng, nbits_total)` of any operation: a pure function of the old pair. -/
def Op.rn (op : Op) (rng nbits : Nat) : Nat × Nat :=
  match op with
  | .uint v ft =>
    let ftb := ilog (ft - 1)
    if ftb > 8 then
      let p := primRN (.encode (v / 2 ^ (ftb - 8)) (v / 2 ^ (ftb - 8) + 1) ((ft - 1) / 2 ^ (ftb - 8) + 1)) rng nbits
      (p.1, p.2 + (ftb - 8))
    else primRN (.encode v (v + 1) (ft - 1 + 1)) rng nbits
  | .bits _ n => (rng, nbits + n)
  | .patchInitial _ _ => (rng, nbits)
  | .shrink _ => (rng, nbits)
  | op => primRN op rng nbits

/-- The range-coded part of `ec_enc_uint` uses a legal frequency table. -/
theorem uint_hi_legal {v ft : Nat} (h1 : 2 ≤ ft) (h2 : ft ≤ 4294967295) (h3 : v < ft) (hb : ilog (ft - 1) > 8) :
    (Op.encode (v / 2 ^ (ilog (ft - 1) - 8)) (v / 2 ^ (ilog (ft - 1) - 8) + 1)
      ((ft - 1) / 2 ^ (ilog (ft - 1) - 8) + 1)).Legal := by
  have hne : ft - 1 ≠ 0 := by omega
  obtain ⟨b1, b2⟩ := ilog_bounds hne
  have hp : 0 < 2 ^ (ilog (ft - 1) - 8) := Nat.pow_pos (by decide)
  have hdiv : (ft - 1) / 2 ^ (ilog (ft - 1) - 8) < 256 := by
    rw [Nat.div_lt_iff_lt_mul hp]
    have : 256 * 2 ^ (ilog (ft - 1) - 8) = 2 ^ ilog (ft - 1) := by
      have e : ilog (ft - 1) = 8 + (ilog (ft - 1) - 8) := by omega
      rw (config := {occs := .pos [2]}) [e]
      rw [Nat.pow_add]
    omega
  have hle : v / 2 ^ (ilog (ft - 1) - 8) ≤ (ft - 1) / 2 ^ (ilog (ft - 1) - 8) :=
    Nat.div_le_div_right (by omega)
  unfold Op.Legal
  generalize (ft - 1) / 2 ^ (ilog (ft - 1) - 8) = q at *
  generalize v / 2 ^ (ilog (ft - 1) - 8) = w at *
  omega

theorem uint_lo_legal {v ft : Nat} (h1 : 2 ≤ ft) (h3 : v < ft) (hb : ¬ ilog (ft - 1) > 8) :
    (Op.encode v (v + 1) (ft - 1 + 1)).Legal := by
  have : ilog (ft - 1) ≤ 8 := by omega
  rw [ilog_lt_iff] at this
  unfold Op.Legal
  omega

theorem encOp_rn (c : Enc) (op : Op) (hr : RngOk c) (hl : op.Legal) :
    ((encOp c op).rng, (encOp c op).nbitsTotal) = op.rn c.rng c.nbitsTotal := by
  have prim : ∀ op' : Op, op'.Legal → (op'.sub c.rng).isSome →
      ((encOp c op').rng, (encOp c op').nbitsTotal) = primRN op' c.rng c.nbitsTotal := by
    intro op' hl' hs
    unfold primRN
    match hsub : op'.sub c.rng with
    | some (r, a, b, first) => exact encOp_rn_sym c op' hr hl' hsub
    | none => rw [hsub] at hs; simp at hs
  cases op with
  | encode fl fh ft => exact prim _ hl rfl
  | encodeBin fl fh nb => exact prim _ hl rfl
  | bitLogp v logp => exact prim _ hl (by simp only [Op.sub]; split <;> rfl)
  | icdf s tbl ftb => exact prim _ hl rfl
  | icdf16 s tbl ftb => exact prim _ hl rfl
  | uint v ft =>
    obtain ⟨l1, l2, l3⟩ := hl
    simp only [encOp, encUint, Op.rn]
    by_cases hb : ilog (ft - 1) > 8
    · rw [if_pos hb, if_pos hb]
      have hleg := uint_hi_legal l1 l2 l3 hb
      have h1 := prim _ hleg rfl
      simp only [encOp] at h1
      obtain ⟨b1, b2⟩ := encBits_rn (encode c (v / 2 ^ (ilog (ft - 1) - 8)) (v / 2 ^ (ilog (ft - 1) - 8) + 1)
        ((ft - 1) / 2 ^ (ilog (ft - 1) - 8) + 1)) (v % 2 ^ (ilog (ft - 1) - 8)) (ilog (ft - 1) - 8)
      rw [b1, b2, ← h1]
    · rw [if_neg hb, if_neg hb]
      have hleg := uint_lo_legal l1 l3 hb
      exact prim _ hleg rfl
  | bits v n =>
    obtain ⟨b1, b2⟩ := encBits_rn c v n
    simp only [encOp, Op.rn, b1, b2]
  | patchInitial v n =>
    simp only [encOp, Op.rn, encPatchInitialBits]
    split
    · rfl
    · split
      · rfl
      · split
        · rfl
        · split <;> rfl
  | shrink size => rfl

/-! ### Properties of the pure transition -/

/-- `(rng', nbits')` is an advance of `(rng, nbits)`: either no byte was accounted and the range
    did not grow, or at least 8 more bits are accounted. -/
def Adv (rng nbits rng' nbits' : Nat) : Prop := (nbits ≤ nbits' ∧ rng' ≤ rng) ∨ nbits + 8 ≤ nbits'

theorem primRN_spec (op : Op) (hl : op.Legal) {rng : Nat} (nbits : Nat) (h1 : 8388608 < rng)
    (h2 : rng ≤ 2147483648) :
    8388608 < (primRN op rng nbits).1 ∧ (primRN op rng nbits).1 ≤ 2147483648 ∧
    Adv rng nbits (primRN op rng nbits).1 (primRN op rng nbits).2 := by
  unfold primRN
  match hsub : op.sub rng with
  | some (r, a, b, first) =>
    simp only
    have ok := Op.sub_ok hl h1 hsub
    obtain ⟨p1, p2⟩ := subRho_bounds first ok
    obtain ⟨n1, n2, n3⟩ := normRN_spec (subRho rng r a b first) nbits p1 (by omega)
    unfold symRN
    refine ⟨n1, n2, ?_⟩
    rcases n3 with ⟨_, e⟩ | ⟨_, e⟩
    · rw [e]; exact Or.inl ⟨Nat.le_refl _, p2⟩
    · exact Or.inr e
  | none => exact ⟨h1, h2, Or.inl ⟨Nat.le_refl _, Nat.le_refl _⟩⟩

theorem Op.rn_spec (op : Op) (hl : op.Legal) {rng : Nat} (nbits : Nat) (h1 : 8388608 < rng)
    (h2 : rng ≤ 2147483648) :
    8388608 < (op.rn rng nbits).1 ∧ (op.rn rng nbits).1 ≤ 2147483648 ∧
    Adv rng nbits (op.rn rng nbits).1 (op.rn rng nbits).2 := by
  cases op with
  | encode fl fh ft => exact primRN_spec _ hl nbits h1 h2
  | encodeBin fl fh nb => exact primRN_spec _ hl nbits h1 h2
  | bitLogp v logp => exact primRN_spec _ hl nbits h1 h2
  | icdf s tbl ftb => exact primRN_spec _ hl nbits h1 h2
  | icdf16 s tbl ftb => exact primRN_spec _ hl nbits h1 h2
  | uint v ft =>
    obtain ⟨l1, l2, l3⟩ := hl
    simp only [Op.rn]
    by_cases hb : ilog (ft - 1) > 8
    · rw [if_pos hb]
      obtain ⟨q1, q2, q3⟩ := primRN_spec _ (uint_hi_legal l1 l2 l3 hb) nbits h1 h2
      refine ⟨q1, q2, ?_⟩
      unfold Adv at q3 ⊢
      simp only
      omega
    · rw [if_neg hb]
      exact primRN_spec _ (uint_lo_legal l1 l3 hb) nbits h1 h2
  | bits v n => exact ⟨h1, h2, Or.inl ⟨by simp [Op.rn], Nat.le_refl _⟩⟩
  | patchInitial v n => exact ⟨h1, h2, Or.inl ⟨Nat.le_refl _, Nat.le_refl _⟩⟩
  | shrink size => exact ⟨h1, h2, Or.inl ⟨Nat.le_refl _, Nat.le_refl _⟩⟩

/-! ### `ec_tell`, `ec_tell_frac` -/

theorem fbits_top : fbits 2147483648 = 256 := by
  have : ilog 2147483648 = 32 := ilog_eq_of_bounds (k := 31) (by decide) (by decide)
  unfold fbits
  rw [this]
  decide

theorem fbits_range {rng : Nat} (h1 : 8388608 < rng) (h2 : rng ≤ 2147483648) :
    192 ≤ fbits rng ∧ fbits rng ≤ 256 := by
  constructor
  · have := (fbits_bounds (rng := rng) (by omega)).1
    have := (ilog_range h1 h2).1
    omega
  · have := fbits_mono (a := rng) (b := 2147483648) (by omega) h2
    rw [fbits_top] at this; exact this

/-- `ec_tell_frac` without the 32-bit wrappers, on its intended domain. -/
theorem tellFrac_val (c : Ctx) (hr : RngOk c) (hn : 33 ≤ c.nbitsTotal) (hn2 : c.nbitsTotal < 536870912) :
    tellFrac c = c.nbitsTotal * 8 - fbits c.rng ∧ fbits c.rng ≤ c.nbitsTotal * 8 := by
  obtain ⟨f1, f2⟩ := fbits_range hr.1 hr.2
  rw [tellFrac_eq, u32_of_lt (by omega), sub32_of_le (by omega) (by omega)]
  exact ⟨rfl, by omega⟩

/-- `8*tell - 7 ≤ tell_frac ≤ 8*tell`, i.e. `tell = ⌈tell_frac / 8⌉`. -/
theorem tellFrac_bounds (c : Ctx) (hr : RngOk c) (hn : 33 ≤ c.nbitsTotal) (hn2 : c.nbitsTotal < 536870912) :
    8 * tell c - 7 ≤ (tellFrac c : Int) ∧ (tellFrac c : Int) ≤ 8 * tell c := by
  obtain ⟨e, le⟩ := tellFrac_val c hr hn hn2
  obtain ⟨b1, b2⟩ := fbits_bounds (rng := c.rng) (by have := hr.1; omega)
  have := ilog_range hr.1 hr.2
  unfold tell
  rw [e]
  omega

theorem tell_mono_of_adv {c c' : Ctx} (hr : RngOk c) (hr' : RngOk c')
    (h : Adv c.rng c.nbitsTotal c'.rng c'.nbitsTotal) : tell c ≤ tell c' := by
  have i1 := ilog_range hr.1 hr.2
  have i2 := ilog_range hr'.1 hr'.2
  unfold tell
  rcases h with ⟨h1, h2⟩ | h
  · have := ilog_mono h2; omega
  · omega

theorem tellFrac_mono_of_adv {c c' : Ctx} (hr : RngOk c) (hr' : RngOk c') (hn : 33 ≤ c.nbitsTotal)
    (hn2 : c'.nbitsTotal < 536870912) (h : Adv c.rng c.nbitsTotal c'.rng c'.nbitsTotal) :
    tellFrac c ≤ tellFrac c' := by
  have hle : c.nbitsTotal ≤ c'.nbitsTotal := by rcases h with ⟨h1, _⟩ | h <;> omega
  obtain ⟨e1, l1⟩ := tellFrac_val c hr hn (by omega)
  obtain ⟨e2, l2⟩ := tellFrac_val c' hr' (by omega) hn2
  obtain ⟨f1, f2⟩ := fbits_range hr.1 hr.2
  obtain ⟨g1, g2⟩ := fbits_range hr'.1 hr'.2
  rw [e1, e2]
  rcases h with ⟨h1, h2⟩ | h
  · have := fbits_mono (a := c'.rng) (b := c.rng) (by have := hr'.1; omega) h2
    omega
  · omega

end Opus.RangeCoder
