import OpusProofs.EncSkelWfMulti
/-
  OpusProofs.EncSkelWfSingle — the single-frame path of `opus_encode_native` (opus_encoder.c:1749-1761): the emitted
  bytes are what the one frame call wrote, and in CBR they are `opus_packet_pad` (C07 model) of `[toc] ++ payload`.
-/
namespace Opus.EncSkel.Proofs
open Opus Opus.EncDecide Opus.EncSkel Opus.EncSkel.WfProofs Opus.Repack

/-- The frame call of the single-frame path. -/
abbrev singleCall (s : St) (fuzz : Bool) (fsz out : Int) (o : NatOr) : FrameRes :=
  frameNative (decOf s fuzz fsz out o).st
    (singleIn (decOf s fuzz fsz out o) (effSilence (budgetSt s o fsz out) o) fsz (sizeBudget (analysisUpd s o) fsz out).maxDataBytes)
    (o.frames.headD default)

theorem code0_bytes (toc : Nat) (f : Bytes) : pktBytes [toc] [f] (f.length + 1) = toc :: f := by
  simp [pktBytes]

/-- CBR frame: the header the frame call records is the one `opus_packet_pad` (model) writes. -/
theorem frame_cbr_pad (s : St) (fi : FrameIn) (r : FrameRes) (hpost : FramePost s fi r) (hv : s.useVbr = 0)
    (hd : r.dtx = false) (f : Bytes) (hf : f.length = r.payload.toNat)
    (h4 : r.toc % 4 = 0) (h256 : r.toc < 256) (hdur : 1 * Framing.samplesPerFrame r.toc 8000 ≤ 960) :
    (r.payload + 1 = fi.maxDataBytes → subBytes r f = r.toc :: f) ∧
    (r.payload + 1 < fi.maxDataBytes → packetPad (r.toc :: f) fi.maxDataBytes = .ok (subBytes r f)) := by
  obtain ⟨p1, p2, p3, p4, p5, p6, p7, -, -⟩ := hpost
  obtain ⟨c1, c2, c3⟩ := p6 hv hd
  have hle : ∀ x ∈ [f], x.length ≤ 1275 := by intro x hx; simp at hx; rw [hx, hf]; omega
  obtain ⟨-, -, -, hgt⟩ := padSpec_model r.toc [f] h4 h256 (by simp) hle (by simpa using hdur) fi.maxDataBytes
  have hbs : baseSize ([f].map List.length) = f.length + 1 := by simp [baseSize]
  have hsub : subPkt r.toc ([f], f.length + 1, false) = r.toc :: f := by
    unfold subPkt
    simp only [List.map_cons, List.map_nil]
    rw [outRange_code0]
    exact code0_bytes r.toc f
  refine ⟨?_, ?_⟩
  · intro he
    clear hgt
    unfold subBytes
    rw [c2]
    unfold cbrHdr padSpec
    rw [if_neg (by omega), if_pos he, c1, ← he]
    have : (r.payload + 1).toNat = f.length + 1 := by omega
    rw [this]; exact code0_bytes r.toc f
  · intro hlt
    rw [hbs] at hgt
    obtain ⟨q, -, hqs, hps, hpp⟩ := hgt (by push_cast; omega)
    clear hgt
    rw [hsub] at hpp
    rw [hpp]
    unfold subBytes
    rw [c2]
    unfold cbrHdr
    simp only [List.map_cons, List.map_nil] at hps
    have hcast : ((f.length + 1 : Nat) : Int) = r.payload + 1 := by push_cast; omega
    rw [hf] at hps
    have hcast2 : ((r.payload.toNat + 1 : Nat) : Int) = r.payload + 1 := by push_cast; omega
    rw [hcast2] at hps
    rw [hps]
    simp only []
    have : r.ret.toNat = q.size := by omega
    rw [this]

theorem encodeNative_single_eq (s : St) (fuzz : Bool) (fsz out : Int) (o : NatOr)
    (he : entryCheck s fsz out = none)
    (hlow : lowBudgetGate (budgetSt s o fsz out) fsz (sizeBudget (analysisUpd s o) fsz out) = false)
    (hnm : isMulti (decOf s fuzz fsz out o).st fsz = false) :
    encodeNative s fuzz fsz out o =
      singleRes (singleCall s fuzz fsz out o)
        ((stOk s && legalFrame s.fs fsz) && frameOk (decOf s fuzz fsz out o).st
          (singleIn (decOf s fuzz fsz out o) (effSilence (budgetSt s o fsz out) o) fsz
            (sizeBudget (analysisUpd s o) fsz out).maxDataBytes) (o.frames.headD default)) := by
  unfold encodeNative
  rw [he]
  dsimp only
  rw [if_neg (by rw [hlow]; simp), if_neg (by unfold decOf at hnm; rw [hnm]; simp)]

/-- **Single-frame path** (opus_encoder.c:1749-1761).  The emitted bytes are the bytes the one frame call wrote; with VBR
    or DTX they are the code-0 packet `[toc] ++ payload`; in CBR they are `[toc] ++ payload` itself when it fills
    `max_data_bytes`, and otherwise exactly what `opus_packet_pad` (C07 model) returns for it and `max_data_bytes`. -/
theorem encode_single_wf (s : St) (fuzz : Bool) (fsz out : Int) (o : NatOr)
    (he : entryCheck s fsz out = none)
    (hlow : lowBudgetGate (budgetSt s o fsz out) fsz (sizeBudget (analysisUpd s o) fsz out) = false)
    (hnm : isMulti (decOf s fuzz fsz out o).st fsz = false)
    (hok : (encodeNative s fuzz fsz out o).ok = true)
    (f : Bytes) (hf : f.length = (singleCall s fuzz fsz out o).payload.toNat) :
    (encodeNative s fuzz fsz out o).pkt.lens = [f.length] ∧
    pktBytes (encodeNative s fuzz fsz out o).pkt.hdr [f] (encodeNative s fuzz fsz out o).pkt.size =
      subBytes (singleCall s fuzz fsz out o) f ∧
    ((decOf s fuzz fsz out o).st.useVbr ≠ 0 ∨ (singleCall s fuzz fsz out o).dtx = true →
      subBytes (singleCall s fuzz fsz out o) f = (encodeNative s fuzz fsz out o).pkt.tocCfg :: f) ∧
    ((decOf s fuzz fsz out o).st.useVbr = 0 → (singleCall s fuzz fsz out o).dtx = false →
      ((singleCall s fuzz fsz out o).payload + 1 = (sizeBudget (analysisUpd s o) fsz out).maxDataBytes →
        subBytes (singleCall s fuzz fsz out o) f = (encodeNative s fuzz fsz out o).pkt.tocCfg :: f) ∧
      ((singleCall s fuzz fsz out o).payload + 1 < (sizeBudget (analysisUpd s o) fsz out).maxDataBytes →
        packetPad ((encodeNative s fuzz fsz out o).pkt.tocCfg :: f) (sizeBudget (analysisUpd s o) fsz out).maxDataBytes =
          .ok (subBytes (singleCall s fuzz fsz out o) f))) := by
  have hp := encodeNative_pkt s fuzz fsz out o he hok
  have heq := encodeNative_single_eq s fuzz fsz out o he hlow hnm
  rw [heq] at hok hp ⊢
  unfold singleRes at hok hp ⊢
  dsimp only at hok hp ⊢
  simp only [Bool.and_eq_true] at hok
  obtain ⟨⟨hst, hlg⟩, hfok⟩ := hok
  have hout : 1 ≤ out := by
    unfold entryCheck at he
    dsimp only at he
    split at he
    · cases he
    · omega
  have hbs := budgetSt_same s o fsz out
  obtain ⟨hb1, hb2, -, -⟩ := budget_spec s o fsz out hst hlg hout
  obtain ⟨hset, hbw⟩ := stOk_settings s hst
  obtain ⟨hset1, hbw1⟩ := hbs.settings hset hbw
  have hm3 : 3 ≤ (sizeBudget (analysisUpd s o) fsz out).maxDataBytes := by
    unfold lowBudgetGate at hlow
    simp only [decide_eq_false_iff_not, not_or, not_lt] at hlow
    omega
  have hpre := decide'_pre (budgetSt s o fsz out) fuzz o fsz (sizeBudget (analysisUpd s o) fsz out).maxDataBytes
    (effSilence (budgetSt s o fsz out) o) hset1 hbw1 hm3 (by omega)
  have hpost := frameNative_post _ _ (o.frames.headD default) hpre hfok
  obtain ⟨-, -, h4, h256, -, hd48, -⟩ := hp
  dsimp only at h4 h256 hd48
  have h8 := (RepackProofs.frameDur48_spf8 (singleCall s fuzz fsz out o).toc (List.mem_range.mpr h256)).1
  have hdur : 1 * Framing.samplesPerFrame (singleCall s fuzz fsz out o).toc 8000 ≤ 960 := by
    rw [h8] at hd48; simp only [List.length_cons, List.length_nil] at hd48; omega
  unfold singleCall decOf at *
  generalize frameNative (decide' (budgetSt s o fsz out) fuzz o fsz (sizeBudget (analysisUpd s o) fsz out).maxDataBytes).st
    (singleIn (decide' (budgetSt s o fsz out) fuzz o fsz (sizeBudget (analysisUpd s o) fsz out).maxDataBytes)
      (effSilence (budgetSt s o fsz out) o) fsz (sizeBudget (analysisUpd s o) fsz out).maxDataBytes)
    (o.frames.headD default) = r at *
  have hpost' := hpost
  obtain ⟨p1, p2, p3, p4, p5, p6, p7, -, -⟩ := hpost
  dsimp only [singleIn] at p3 p6
  refine ⟨by rw [hf], rfl, ?_, ?_⟩
  · intro h
    have hcode0 : r.ret = r.payload + 1 ∧
        r.hdr = [r.toc] := by
      by_cases hd : r.dtx = true
      · obtain ⟨d1, d2, d3⟩ := p5 hd
        exact ⟨by omega, d3⟩
      · rcases h with h | h
        · exact p7 h (by rw [← Bool.not_eq_true]; exact hd)
        · exact absurd h hd
    unfold subBytes
    rw [hcode0.2, hcode0.1]
    have : (r.payload + 1).toNat = f.length + 1 := by omega
    rw [this]
    exact code0_bytes _ f
  · intro hv hd
    exact frame_cbr_pad _ _ _ hpost' hv hd f hf h4 h256 hdur

end Opus.EncSkel.Proofs
