import OpusProofs.RangeCoderBasic
/-
  OpusProofs.RangeCoderEnc — the encoder as an exact interval over unbounded naturals
  (C08, Stage B; DESIGN.md §7.C08 invariants E and N).

  `digitsVal c` is the base-256 value of everything the encoder has output so far:
  the committed bytes `buf[0..offs)`, the byte `rem` awaiting carry propagation and
  the `ext` pending `0xFF`s.  `encLow c = digitsVal c * 2^31 + val` is the exact low
  end of the current interval at scale `2^(31 + 8*encM c)`; a carry is simply bit 31
  of `val`.
-/
namespace Opus.RangeCoder

/-- Big-endian base-256 value of a byte string. -/
def bytesVal (l : List Nat) : Nat := l.foldl (fun acc b => acc * 256 + b) 0

@[simp] theorem bytesVal_nil : bytesVal [] = 0 := rfl

theorem bytesVal_foldl (l : List Nat) (a : Nat) :
    l.foldl (fun acc b => acc * 256 + b) a = a * 256 ^ l.length + bytesVal l := by
  induction l generalizing a with
  | nil => simp [bytesVal]
  | cons x xs ih =>
    simp only [List.foldl_cons, List.length_cons, bytesVal]
    rw [ih, ih (0 * 256 + x)]
    rw [Nat.pow_succ, Nat.add_mul]
    simp [Nat.mul_assoc, Nat.mul_comm 256, Nat.add_assoc]

theorem bytesVal_append (l m : List Nat) :
    bytesVal (l ++ m) = bytesVal l * 256 ^ m.length + bytesVal m := by
  unfold bytesVal
  rw [List.foldl_append, bytesVal_foldl]
  rfl

@[simp] theorem bytesVal_singleton (b : Nat) : bytesVal [b] = b := by simp [bytesVal]

theorem bytesVal_snoc (l : List Nat) (b : Nat) : bytesVal (l ++ [b]) = bytesVal l * 256 + b := by
  rw [bytesVal_append]; simp

theorem bytesVal_replicate_zero (n : Nat) : bytesVal (List.replicate n 0) = 0 := by
  induction n with
  | zero => rfl
  | succ n ih => rw [List.replicate_succ', bytesVal_snoc, ih]

theorem bytesVal_replicate_ff (n : Nat) : bytesVal (List.replicate n 255) + 1 = 256 ^ n := by
  induction n with
  | zero => rfl
  | succ n ih => rw [List.replicate_succ', bytesVal_snoc, Nat.pow_succ]; omega

theorem bytesVal_cons (x : Nat) (l : List Nat) : bytesVal (x :: l) = x * 256 ^ l.length + bytesVal l := by
  have := bytesVal_append [x] l
  simpa using this

theorem bytesVal_lt (l : List Nat) (h : ∀ b ∈ l, b < 256) : bytesVal l < 256 ^ l.length := by
  induction l with
  | nil => simp
  | cons x l ih =>
    rw [bytesVal_cons, List.length_cons, Nat.pow_succ]
    have h1 := ih (fun b hb => h b (List.mem_cons_of_mem _ hb))
    have h2 := h x (by simp)
    have : x * 256 ^ l.length + 256 ^ l.length ≤ 256 * 256 ^ l.length := by
      rw [← Nat.succ_mul]; exact Nat.mul_le_mul_right _ h2
    omega

/-- Writing at index `n` of a long enough list: the first `n+1` entries. -/
theorem take_succ_set (l : List Nat) (n v : Nat) (h : n < l.length) :
    (l.set n v).take (n + 1) = l.take n ++ [v] := by
  rw [List.take_add_one]
  simp only [List.take_set, List.getElem?_set, h, if_true, Option.toList]
  rw [List.set_eq_of_length_le (by simp; omega)]

/-! ### Encoder state as digits -/

/-- Structural well-formedness of an encoder state. -/
structure EncWf (c : Enc) : Prop where
  offs_le : c.offs + c.endOffs ≤ c.storage
  storage_le : c.storage ≤ c.buf.length
  rem_lo : -1 ≤ c.rem
  rem_hi : c.rem ≤ 255

/-- Number of output digits still awaiting carry propagation (`rem` and the `ext` 0xFFs). -/
def pendCount (c : Enc) : Nat := (if c.rem ≥ 0 then 1 else 0) + c.ext
/-- Their value. -/
def pendVal (c : Enc) : Nat :=
  (if c.rem ≥ 0 then c.rem.toNat * 256 ^ c.ext else 0) + (256 ^ c.ext - 1)
/-- Base-256 value of all digits output so far. -/
def digitsVal (c : Enc) : Nat := bytesVal (c.buf.take c.offs) * 256 ^ pendCount c + pendVal c
/-- Number of digits output so far (= number of `ec_enc_carry_out` calls). -/
def encM (c : Enc) : Nat := c.offs + pendCount c
/-- Exact low end of the encoder's interval, at scale `2^(31 + 8*encM c)`. -/
def encLow (c : Enc) : Nat := digitsVal c * 2147483648 + c.val

theorem writeByte_ok {c : Enc} {v : Nat} (h : (writeByte c v).error = 0) :
    c.error = 0 ∧ c.offs + c.endOffs < c.storage := by
  unfold writeByte at h
  split at h
  · simp at h
  · exact ⟨h, by omega⟩

theorem writeByte_eq {c : Enc} (v : Nat) (h : c.offs + c.endOffs < c.storage) :
    writeByte c v = { c with buf := c.buf.set c.offs (v % 256), offs := c.offs + 1 } := by
  unfold writeByte; rw [if_neg (by omega)]

theorem writeByte_error_mono {c : Enc} {v : Nat} (h : c.error ≠ 0) : (writeByte c v).error ≠ 0 := by
  unfold writeByte; split <;> simp [h]

theorem writeByte_offs_le {c : Enc} (v : Nat) (h : c.offs + c.endOffs ≤ c.storage) :
    (writeByte c v).offs + c.endOffs ≤ c.storage := by
  unfold writeByte; split <;> simp <;> omega

/-- Successful `flushExt`: `n` copies of `sym` are appended to the committed bytes. -/
theorem flushExt_spec (sym : Nat) : ∀ (n : Nat) (c : Enc),
    (flushExt sym n c).error = 0 → c.storage ≤ c.buf.length → c.offs + c.endOffs ≤ c.storage →
    c.error = 0 ∧ (flushExt sym n c).offs = c.offs + n ∧
    c.offs + n + c.endOffs ≤ c.storage ∧
    (flushExt sym n c).buf.take (c.offs + n) = c.buf.take c.offs ++ List.replicate n (sym % 256) ∧
    (flushExt sym n c).buf.drop (c.offs + n) = c.buf.drop (c.offs + n) ∧
    (flushExt sym n c).rem = c.rem ∧ (0 < n → (flushExt sym n c).ext = 0)
  | 0, c, h, _, ho => by
    simp only [flushExt] at h ⊢
    simp [h, ho]
  | n + 1, c, h, hs, ho => by
    have hstep : flushExt sym (n + 1) c = flushExt sym n { writeByte c sym with ext := n } := rfl
    rw [hstep] at h ⊢
    generalize hc1 : ({ writeByte c sym with ext := n } : Enc) = c1 at h ⊢
    have f1 : c1.error = (writeByte c sym).error := by subst hc1; rfl
    have f2 : c1.storage = c.storage := by subst hc1; simp
    have f3 : c1.buf.length = c.buf.length := by subst hc1; simp
    have f4 : c1.endOffs = c.endOffs := by subst hc1; simp
    have f5 : c1.offs = (writeByte c sym).offs := by subst hc1; rfl
    have ho1 : c1.offs + c1.endOffs ≤ c1.storage := by
      rw [f5, f4, f2]; exact writeByte_offs_le sym ho
    obtain ⟨e0, e1, e2, e3, e4, e5, e6⟩ := flushExt_spec sym n c1 h (by omega) ho1
    have hw := writeByte_ok (c := c) (v := sym) (by rw [← f1]; exact e0)
    have heq := writeByte_eq (c := c) sym hw.2
    rw [heq] at hc1
    subst hc1
    simp only at e1 e2 e3 e4 e5 e6 ⊢
    have ea : c.offs + (n + 1) = c.offs + 1 + n := by omega
    refine ⟨hw.1, by omega, by omega, ?_, ?_, e5, ?_⟩
    · rw [ea, e3, take_succ_set _ _ _ (by omega), List.replicate_succ]
      simp
    · rw [ea, e4, List.drop_set_of_lt (by omega)]
    · intro _
      by_cases hn : n = 0
      · subst hn; rfl
      · exact e6 (by omega)

theorem flushExt_zero (sym : Nat) (c : Enc) : flushExt sym 0 c = c := rfl

/-- The flush part of `ec_enc_carry_out` (entenc.c:90-96): all pending digits, plus the
    carry, become committed bytes. -/
theorem carryFlush_spec (c : Enc) (carry : Nat) (hc : carry ≤ 1) (wf : EncWf c)
    (hcarry : carry = 1 → 0 ≤ c.rem ∧ c.rem ≤ 254)
    (c1 c2 : Enc) (h1 : c1 = if c.rem ≥ 0 then writeByte c (c.rem.toNat + carry) else c)
    (h2 : c2 = if c1.ext > 0 then flushExt ((255 + carry) % 256) c1.ext c1 else c1)
    (herr : c2.error = 0) :
    c.error = 0 ∧ c2.ext = 0 ∧ c2.offs = c.offs + pendCount c ∧ c2.offs + c.endOffs ≤ c.storage ∧
    bytesVal (c2.buf.take c2.offs) = bytesVal (c.buf.take c.offs) * 256 ^ pendCount c + pendVal c + carry ∧
    c2.buf.drop c2.offs = c.buf.drop c2.offs ∧ c2.storage = c.storage ∧ c2.endOffs = c.endOffs ∧
    c2.buf.length = c.buf.length := by
  obtain ⟨wo, ws, wl, wh⟩ := wf
  -- c1 facts
  have g1 : c1.ext = c.ext ∧ c1.storage = c.storage ∧ c1.endOffs = c.endOffs ∧ c1.buf.length = c.buf.length ∧
      c1.offs + c1.endOffs ≤ c1.storage := by
    subst h1; split
    · refine ⟨by simp, by simp, by simp, by simp, ?_⟩
      simp only [writeByte_endOffs, writeByte_storage]; exact writeByte_offs_le _ wo
    · exact ⟨rfl, rfl, rfl, rfl, wo⟩
  obtain ⟨g1e, g1s, g1o, g1l, g1w⟩ := g1
  -- c2 in terms of c1
  have g2 : c1.error = 0 ∧ c2.ext = 0 ∧ c2.offs = c1.offs + c.ext ∧ c2.offs + c.endOffs ≤ c.storage ∧
      c2.buf.take c2.offs = c1.buf.take c1.offs ++ List.replicate c.ext ((255 + carry) % 256) ∧
      c2.buf.drop c2.offs = c1.buf.drop c2.offs ∧ c2.storage = c.storage ∧ c2.endOffs = c.endOffs ∧
      c2.buf.length = c.buf.length := by
    by_cases hx : c1.ext > 0
    · rw [if_pos hx] at h2
      rw [h2] at herr
      obtain ⟨e0, e1, e2, e3, e4, _, e6⟩ := flushExt_spec _ _ _ herr (by omega) g1w
      have f1 : (flushExt ((255 + carry) % 256) c1.ext c1).storage = c1.storage :=
        flushExt_frame (·.storage) (by simp) (by simp) ((255 + carry) % 256) c1.ext c1
      have f2 : (flushExt ((255 + carry) % 256) c1.ext c1).endOffs = c1.endOffs :=
        flushExt_frame (·.endOffs) (by simp) (by simp) ((255 + carry) % 256) c1.ext c1
      have f3 : (flushExt ((255 + carry) % 256) c1.ext c1).buf.length = c1.buf.length :=
        flushExt_frame (·.buf.length) (by simp) (by simp) ((255 + carry) % 256) c1.ext c1
      rw [h2, e1, ← g1e]
      refine ⟨e0, e6 hx, rfl, by omega, ?_, e4, by omega, by omega, by omega⟩
      rw [e3]; simp
    · rw [if_neg hx] at h2
      have : c.ext = 0 := by omega
      subst h2
      exact ⟨herr, by omega, by omega, by omega, by simp [this], rfl, g1s, g1o, g1l⟩
  obtain ⟨k0, k1, k2, k3, k4, k5, k6, k7, k8⟩ := g2
  have hW : 1 ≤ 256 ^ c.ext := Nat.pow_pos (by decide)
  by_cases hr : c.rem ≥ 0
  · rw [if_pos hr] at h1
    rw [h1] at k0
    have hw := writeByte_ok k0
    have heq := writeByte_eq (c := c) (c.rem.toNat + carry) hw.2
    rw [heq] at h1
    have hb : (c.rem.toNat + carry) % 256 = c.rem.toNat + carry := by
      have : carry = 0 ∨ carry = 1 := by omega
      rcases this with e | e
      · omega
      · have := hcarry e; omega
    have p1 : pendCount c = 1 + c.ext := by unfold pendCount; rw [if_pos hr]
    have p2 : pendVal c = c.rem.toNat * 256 ^ c.ext + (256 ^ c.ext - 1) := by unfold pendVal; rw [if_pos hr]
    have o1 : c1.offs = c.offs + 1 := by rw [h1]
    have t1 : c1.buf.take c1.offs = c.buf.take c.offs ++ [c.rem.toNat + carry] := by
      rw [h1]; simp only; rw [take_succ_set _ _ _ (by omega), hb]
    have d1 : c1.buf.drop c2.offs = c.buf.drop c2.offs := by
      rw [h1]; simp only; rw [List.drop_set_of_lt (by omega)]
    refine ⟨hw.1, k1, by omega, k3, ?_, by rw [k5, d1], k6, k7, k8⟩
    rw [k4, t1, bytesVal_append, bytesVal_snoc, List.length_replicate, p1, p2, Nat.pow_add]
    have : carry = 0 ∨ carry = 1 := by omega
    rcases this with e | e
    · subst e
      have := bytesVal_replicate_ff c.ext
      simp only [Nat.add_zero, Nat.reduceMod]
      generalize bytesVal (List.replicate c.ext 255) = R at *
      generalize 256 ^ c.ext = W at *
      subst this
      grind
    · subst e
      have := bytesVal_replicate_zero c.ext
      simp only [Nat.reduceAdd, Nat.reduceMod, this]
      generalize 256 ^ c.ext = W at *
      grind
  · rw [if_neg hr] at h1
    subst c1
    have hcar : carry = 0 := by
      have : carry = 0 ∨ carry = 1 := by omega
      rcases this with e | e
      · exact e
      · have := hcarry e; omega
    subst hcar
    have p1 : pendCount c = c.ext := by unfold pendCount; rw [if_neg hr]; omega
    have p2 : pendVal c = 256 ^ c.ext - 1 := by unfold pendVal; rw [if_neg hr]; omega
    refine ⟨k0, k1, by omega, k3, ?_, k5, k6, k7, k8⟩
    rw [k4, bytesVal_append, List.length_replicate, p1, p2]
    have := bytesVal_replicate_ff c.ext
    simp only [Nat.add_zero, Nat.reduceMod]
    omega

/-- `ec_enc_carry_out` on success appends the 9-bit digit `cc` (byte plus carry) to the
    digit string:  `digitsVal' = digitsVal * 256 + cc`. -/
theorem carryOut_spec (c : Enc) (cc : Nat) (hcc : cc < 512) (wf : EncWf c)
    (hcarry : 256 ≤ cc → 0 ≤ c.rem ∧ c.rem ≤ 254) (hext : c.ext < 4294967295)
    (h : (carryOut c cc).error = 0) :
    c.error = 0 ∧ EncWf (carryOut c cc) ∧ digitsVal (carryOut c cc) = digitsVal c * 256 + cc ∧
    encM (carryOut c cc) = encM c + 1 ∧
    (carryOut c cc).buf.drop (carryOut c cc).offs = c.buf.drop (carryOut c cc).offs ∧
    c.offs ≤ (carryOut c cc).offs ∧
    (cc = 255 → (carryOut c cc).rem = c.rem ∧ (carryOut c cc).ext = c.ext + 1) ∧
    (cc ≠ 255 → (carryOut c cc).rem = ((cc % 256 : Nat) : Int) ∧ (carryOut c cc).ext = 0) := by
  have hW : 1 ≤ 256 ^ c.ext := Nat.pow_pos (by decide)
  by_cases h255 : cc = 255
  · have e : carryOut c cc = { c with ext := c.ext + 1 } := by
      unfold carryOut; rw [if_neg (by omega)]; simp only [u32]
      congr 1; omega
    rw [e] at h ⊢
    obtain ⟨wo, ws, wl, wh⟩ := wf
    refine ⟨h, ⟨wo, ws, wl, wh⟩, ?_, ?_, rfl, Nat.le_refl _, fun _ => ⟨rfl, rfl⟩, fun hne => absurd h255 hne⟩
    · unfold digitsVal pendCount pendVal
      simp only
      subst h255
      by_cases hr : c.rem ≥ 0
      · simp only [hr, if_true, Nat.pow_succ, Nat.pow_add]
        generalize 256 ^ c.ext = W at *
        grind
      · simp only [hr, if_false, Nat.pow_succ, Nat.pow_add]
        generalize 256 ^ c.ext = W at *
        grind
    · unfold encM pendCount; simp only; omega
  · generalize hc1 : (if c.rem ≥ 0 then writeByte c (c.rem.toNat + cc / 256) else c) = c1
    generalize hc2 : (if c1.ext > 0 then flushExt ((255 + cc / 256) % 256) c1.ext c1 else c1) = c2
    have e : carryOut c cc = { c2 with rem := ((cc % 256 : Nat) : Int) } := by
      unfold carryOut; rw [if_pos h255]; simp only [hc1, hc2]
    rw [e] at h ⊢
    have hcar1 : cc / 256 = 1 → 0 ≤ c.rem ∧ c.rem ≤ 254 := fun hh => hcarry (by omega)
    obtain ⟨k0, k1, k2, k3, k4, k5, k6, k7, k8⟩ :=
      carryFlush_spec c (cc / 256) (by omega) wf hcar1 c1 c2 hc1.symm hc2.symm h
    obtain ⟨wo, ws, wl, wh⟩ := wf
    refine ⟨k0, ⟨by simp only; omega, by simp only; omega, by simp only; omega, by simp only; omega⟩,
      ?_, ?_, k5, by simp only; omega, fun hh => absurd hh h255, fun _ => ⟨rfl, k1⟩⟩
    · unfold digitsVal
      have q1 : pendCount { c2 with rem := ((cc % 256 : Nat) : Int) } = 1 := by
        unfold pendCount; simp only [k1]; rw [if_pos (by omega)]
      have q2 : pendVal { c2 with rem := ((cc % 256 : Nat) : Int) } = cc % 256 := by
        unfold pendVal; simp only [k1]; rw [if_pos (by omega)]; simp; omega
      rw [q1, q2]
      simp only
      rw [k4]
      show _ = (bytesVal (List.take c.offs c.buf) * 256 ^ pendCount c + pendVal c) * 256 + cc
      generalize bytesVal (List.take c.offs c.buf) * 256 ^ pendCount c + pendVal c = D
      omega
    · unfold encM
      have q1 : pendCount { c2 with rem := ((cc % 256 : Nat) : Int) } = 1 := by
        unfold pendCount; simp only [k1]; rw [if_pos (by omega)]
      rw [q1]; simp only; omega

/-! ### The encoder invariant E -/

/-- Invariant of an encoder state *before* normalisation (`rng` may be small). -/
structure EncPre (c : Enc) : Prop where
  wf : EncWf c
  rng_pos : 0 < c.rng
  rng_hi : c.rng ≤ 2147483648
  sum_le : c.val + c.rng ≤ 4294967296
  carry_safe : (c.rem < 0 ∨ c.rem = 255) → c.val + c.rng ≤ 2147483648
  ext_bound : 8 * c.ext + 33 ≤ c.nbitsTotal

/-- Invariant E of a normalised encoder state: `2^23 < rng ≤ 2^31`, no 32-bit wrap of
    `val + rng`, and a carry out of `val` can always be absorbed by the pending digits. -/
structure EncInv (c : Enc) : Prop extends EncPre c where
  rng_lo : 8388608 < c.rng

/-- One iteration of `ec_enc_normalize` (entenc.c:105-110). -/
def normStep (c : Enc) : Enc :=
  { carryOut c (c.val / 8388608) with val := c.val * 256 % 2147483648,
                                      rng := u32 (c.rng * 256),
                                      nbitsTotal := c.nbitsTotal + 8 }

theorem encNormalize_step (c : Enc) (h : 0 < c.rng ∧ c.rng ≤ 8388608) :
    encNormalize c = encNormalize (normStep c) := by
  rw [encNormalize]; simp only [h, and_self, dite_true]; rfl

theorem encNormalize_done (c : Enc) (h : ¬ (0 < c.rng ∧ c.rng ≤ 8388608)) : encNormalize c = c := by
  rw [encNormalize]; simp only [h, dite_false]

/-- One normalisation step multiplies the exact interval by 256. -/
theorem normStep_spec (c : Enc) (pre : EncPre c) (hr : c.rng ≤ 8388608)
    (hn : c.nbitsTotal < 4294967296) (herr : (normStep c).error = 0) :
    c.error = 0 ∧ EncPre (normStep c) ∧ encLow (normStep c) = encLow c * 256 ∧
    (normStep c).rng = c.rng * 256 ∧ encM (normStep c) = encM c + 1 ∧
    (normStep c).buf.drop (normStep c).offs = c.buf.drop (normStep c).offs ∧
    c.offs ≤ (normStep c).offs ∧ (normStep c).storage = c.storage ∧ (normStep c).endOffs = c.endOffs ∧
    (normStep c).buf.length = c.buf.length ∧ (normStep c).endWindow = c.endWindow ∧
    (normStep c).nendBits = c.nendBits ∧ (normStep c).nbitsTotal = c.nbitsTotal + 8 := by
  obtain ⟨wf, rp, rh, sl, cs, eb⟩ := pre
  have hcc : c.val / 8388608 < 512 := by omega
  have hcarry : 256 ≤ c.val / 8388608 → 0 ≤ c.rem ∧ c.rem ≤ 254 := by
    intro h256
    have := wf.rem_lo; have := wf.rem_hi
    by_cases hx : c.rem < 0 ∨ c.rem = 255
    · have := cs hx; omega
    · omega
  have herr' : (carryOut c (c.val / 8388608)).error = 0 := herr
  obtain ⟨k0, kwf, kd, km, kdrop, koffs, k255, kne⟩ :=
    carryOut_spec c (c.val / 8388608) hcc wf hcarry (by omega) herr'
  have e1 : u32 (c.rng * 256) = c.rng * 256 := by unfold u32; omega
  have fr : (normStep c).rem = (carryOut c (c.val / 8388608)).rem := rfl
  have fe : (normStep c).ext = (carryOut c (c.val / 8388608)).ext := rfl
  have fo : (normStep c).offs = (carryOut c (c.val / 8388608)).offs := rfl
  have fb : (normStep c).buf = (carryOut c (c.val / 8388608)).buf := rfl
  have fv : (normStep c).val = c.val * 256 % 2147483648 := rfl
  have frn : (normStep c).rng = c.rng * 256 := e1
  have fdig : digitsVal (normStep c) = digitsVal (carryOut c (c.val / 8388608)) := rfl
  have fM : encM (normStep c) = encM (carryOut c (c.val / 8388608)) := rfl
  refine ⟨k0, ⟨⟨?_, ?_, ?_, ?_⟩, ?_, ?_, ?_, ?_, ?_⟩, ?_, frn, by rw [fM, km], by rw [fo, fb]; exact kdrop,
    by rw [fo]; exact koffs, by simp [normStep], by simp [normStep], by simp [normStep],
    by simp [normStep], by simp [normStep], rfl⟩
  · exact kwf.offs_le
  · exact kwf.storage_le
  · exact kwf.rem_lo
  · exact kwf.rem_hi
  · rw [frn]; omega
  · rw [frn]; omega
  · rw [frn, fv]; omega
  · rw [frn, fv, fr]
    intro hx
    by_cases h255 : c.val / 8388608 = 255
    · rw [(k255 h255).1] at hx
      have := cs hx; omega
    · rw [(kne h255).1] at hx
      omega
  · rw [fe]
    show 8 * (carryOut c (c.val / 8388608)).ext + 33 ≤ c.nbitsTotal + 8
    by_cases h255 : c.val / 8388608 = 255
    · rw [(k255 h255).2]; omega
    · rw [(kne h255).2]; omega
  · unfold encLow
    rw [fdig, kd, fv]
    generalize digitsVal c = D
    omega

/-! ### The code stream read by the decoder, and containment (invariants N and F) -/

/-- Byte `i` of the stream the decoder reads: the first `S` bytes of `B`, then zeros
    (`ec_read_byte`, entdec.c:91-93). -/
def byteAt (B : List Nat) (S i : Nat) : Nat := if i < S then B.getD i 0 else 0

/-- Value of the first `n` bytes of the stream. -/
def codeVal (B : List Nat) (S : Nat) : Nat → Nat
  | 0 => 0
  | n + 1 => codeVal B S n * 256 + byteAt B S n

/-- The code value, truncated to the encoder's current scale, lies in the encoder's
    current interval `[encLow, encLow + rng)`. -/
def Contains (B : List Nat) (S : Nat) (c : Enc) : Prop :=
  encLow c ≤ codeVal B S (encM c + 4) / 2 ∧ codeVal B S (encM c + 4) / 2 < encLow c + c.rng

theorem codeVal_half_step (B : List Nat) (S n : Nat) (hb : byteAt B S n < 256) :
    codeVal B S (n + 1) / 2 / 256 = codeVal B S n / 2 := by
  simp only [codeVal]; omega

theorem normRN_nbits_ge (rng nbits : Nat) : nbits ≤ (normRN rng nbits).2 := by
  fun_induction normRN rng nbits with
  | case1 rng nbits h ih => omega
  | case2 rng nbits h => exact Nat.le_refl _

theorem encNormalize_nbits_ge (c : Enc) : c.nbitsTotal ≤ (encNormalize c).nbitsTotal := by
  have := encNormalize_rn c
  have h2 := normRN_nbits_ge c.rng c.nbitsTotal
  rw [← this] at h2; exact h2

theorem flushExt_error_mono (sym : Nat) : ∀ (n : Nat) (c : Enc), c.error ≠ 0 → (flushExt sym n c).error ≠ 0
  | 0, _, h => h
  | n + 1, c, h => by
    unfold flushExt
    exact flushExt_error_mono sym n _ (writeByte_error_mono (v := sym) h)

theorem carryOut_error_mono (c : Enc) (cc : Nat) (h : c.error ≠ 0) : (carryOut c cc).error ≠ 0 := by
  unfold carryOut
  split
  · simp only
    have h1 : (if c.rem ≥ 0 then writeByte c (c.rem.toNat + cc / 256) else c).error ≠ 0 := by
      split
      · exact writeByte_error_mono h
      · exact h
    generalize (if c.rem ≥ 0 then writeByte c (c.rem.toNat + cc / 256) else c) = c1 at h1
    split
    · exact flushExt_error_mono _ _ _ h1
    · exact h1
  · exact h

theorem normStep_error_mono (c : Enc) (h : c.error ≠ 0) : (normStep c).error ≠ 0 :=
  carryOut_error_mono c _ h

theorem encNormalize_error_mono (c : Enc) (h : c.error ≠ 0) : (encNormalize c).error ≠ 0 := by
  fun_induction encNormalize c with
  | case1 c hc c1 ih => exact ih (carryOut_error_mono c _ h)
  | case2 c hc => exact h

/-- Everything the proofs need about `ec_enc_normalize` when it succeeds. -/
theorem encNormalize_spec (c : Enc) (pre : EncPre c) (hn : (encNormalize c).nbitsTotal < 4294967296)
    (herr : (encNormalize c).error = 0) :
    c.error = 0 ∧ EncInv (encNormalize c) ∧
    (∀ B S, (∀ i, byteAt B S i < 256) → Contains B S (encNormalize c) → Contains B S c) ∧
    (encNormalize c).buf.drop (encNormalize c).offs = c.buf.drop (encNormalize c).offs ∧
    c.offs ≤ (encNormalize c).offs ∧ (encNormalize c).storage = c.storage ∧
    (encNormalize c).endOffs = c.endOffs ∧ (encNormalize c).buf.length = c.buf.length ∧
    (encNormalize c).endWindow = c.endWindow ∧ (encNormalize c).nendBits = c.nendBits := by
  induction hm : 8388609 - c.rng using Nat.strongRecOn generalizing c with
  | _ m ih =>
    by_cases h : 0 < c.rng ∧ c.rng ≤ 8388608
    · rw [encNormalize_step c h] at hn herr ⊢
      have hnb := encNormalize_nbits_ge (normStep c)
      have hnb2 : (normStep c).nbitsTotal = c.nbitsTotal + 8 := rfl
      have herr1 : (normStep c).error = 0 := by
        apply Classical.byContradiction; intro hne
        exact encNormalize_error_mono _ hne herr
      obtain ⟨s0, s1, s2, s3, s4, s5, s6, s7, s8, s9, s10, s11, _⟩ :=
        normStep_spec c pre h.2 (by omega) herr1
      obtain ⟨i0, i1, i2, i3, i4, i5, i6, i7, i8, i9⟩ :=
        ih (8388609 - (normStep c).rng) (by rw [s3]; omega) (normStep c) s1 hn herr rfl
      refine ⟨s0, i1, ?_, ?_, by omega, by omega, by omega, by omega, by rw [i8, s10], by rw [i9, s11]⟩
      · intro B S hB hc
        have hc1 := i2 B S hB hc
        unfold Contains at hc1 ⊢
        rw [s2, s3, s4] at hc1
        have e : encM c + 1 + 4 = (encM c + 4) + 1 := by omega
        rw [e] at hc1
        have := codeVal_half_step B S (encM c + 4) (hB _)
        omega
      · rw [i3]
        have : (encNormalize (normStep c)).offs = (normStep c).offs + ((encNormalize (normStep c)).offs - (normStep c).offs) := by omega
        rw [this, ← List.drop_drop, ← List.drop_drop, s5]
    · rw [encNormalize_done c h] at hn herr ⊢
      exact ⟨herr, ⟨pre, by have := pre.rng_pos; omega⟩, fun _ _ _ hc => hc, rfl, Nat.le_refl _, rfl, rfl, rfl, rfl, rfl⟩

/-! ### The generic interval subdivision behind every range-coded symbol (invariant N) -/

/-- The state change common to `ec_encode`, `ec_encode_bin`, `ec_enc_bit_logp`, `ec_enc_icdf`
    before normalisation: `r` is the scaled unit, `a`/`b` the cumulative frequencies counted
    from the top (`ft-fl`, `ft-fh`), `first` says that the symbol is the first one (`fl = 0`). -/
def encSub (c : Enc) (r a b : Nat) (first : Bool) : Enc :=
  if first then { c with rng := c.rng - r * b }
  else { c with val := c.val + (c.rng - r * a), rng := r * (a - b) }

structure SubOk (rng r a b : Nat) : Prop where
  r_pos : 0 < r
  b_lt : b < a
  fit : r * a ≤ rng

theorem SubOk.facts {rng r a b : Nat} (h : SubOk rng r a b) :
    r * b + r ≤ r * a ∧ r * (a - b) = r * a - r * b ∧ r * a ≤ rng := by
  refine ⟨?_, Nat.mul_sub .., h.fit⟩
  have : r * (b + 1) ≤ r * a := Nat.mul_le_mul_left r h.b_lt
  rw [Nat.mul_add] at this; omega

section
variable (c : Enc) (r a b : Nat) (first : Bool)
@[simp] theorem encSub_buf : (encSub c r a b first).buf = c.buf := by unfold encSub; split <;> rfl
@[simp] theorem encSub_offs : (encSub c r a b first).offs = c.offs := by unfold encSub; split <;> rfl
@[simp] theorem encSub_storage : (encSub c r a b first).storage = c.storage := by unfold encSub; split <;> rfl
@[simp] theorem encSub_endOffs : (encSub c r a b first).endOffs = c.endOffs := by unfold encSub; split <;> rfl
@[simp] theorem encSub_endWindow : (encSub c r a b first).endWindow = c.endWindow := by unfold encSub; split <;> rfl
@[simp] theorem encSub_nendBits : (encSub c r a b first).nendBits = c.nendBits := by unfold encSub; split <;> rfl
@[simp] theorem encSub_nbitsTotal : (encSub c r a b first).nbitsTotal = c.nbitsTotal := by unfold encSub; split <;> rfl
@[simp] theorem encSub_ext : (encSub c r a b first).ext = c.ext := by unfold encSub; split <;> rfl
@[simp] theorem encSub_rem : (encSub c r a b first).rem = c.rem := by unfold encSub; split <;> rfl
@[simp] theorem encSub_error : (encSub c r a b first).error = c.error := by unfold encSub; split <;> rfl
theorem encSub_digitsVal : digitsVal (encSub c r a b first) = digitsVal c := by
  unfold digitsVal pendCount pendVal; simp
theorem encSub_encM : encM (encSub c r a b first) = encM c := by
  unfold encM pendCount; simp
end

theorem encSub_spec (c : Enc) (r a b : Nat) (first : Bool) (inv : EncInv c) (ok : SubOk c.rng r a b) :
    EncPre (encSub c r a b first) ∧ (encSub c r a b first).rng ≤ c.rng ∧
    (∀ B S, Contains B S (encSub c r a b first) → Contains B S c) := by
  obtain ⟨f1, f2, f3⟩ := ok.facts
  have hr := ok.r_pos
  obtain ⟨⟨wf, rp, rh, sl, cs, eb⟩, rl⟩ := inv
  have hv : (encSub c r a b first).val + (encSub c r a b first).rng ≤ c.val + c.rng ∧
      0 < (encSub c r a b first).rng ∧ (encSub c r a b first).rng ≤ c.rng ∧
      c.val ≤ (encSub c r a b first).val := by
    unfold encSub; split
    · simp only; omega
    · simp only; rw [f2]; omega
  refine ⟨⟨⟨by simpa using wf.offs_le, by simpa using wf.storage_le, by simpa using wf.rem_lo,
    by simpa using wf.rem_hi⟩, hv.2.1, by omega, by omega, ?_, by simpa using eb⟩, hv.2.2.1, ?_⟩
  · intro hx
    rw [encSub_rem] at hx
    have := cs hx; omega
  · intro B S hc
    unfold Contains encLow at hc ⊢
    rw [encSub_digitsVal, encSub_encM] at hc
    omega

end Opus.RangeCoder
