import OpusProofs.RangeCoderEnc
/-
  OpusProofs.RangeCoderOps — every range-coded encoder primitive is an instance of the
  generic subdivision `encSub` followed by `ec_enc_normalize` (C08, Stages A/B).
-/
namespace Opus.RangeCoder

/-- Subdivision parameters `(r, a, b, first)` of a primitive range-coded operation at the
    current `rng`; `none` for the other operations. -/
def Op.sub (rng : Nat) : Op → Option (Nat × Nat × Nat × Bool)
  | .encode fl fh ft => some (rng / ft, ft - fl, ft - fh, decide (fl = 0))
  | .encodeBin fl fh nb => some (rng / 2 ^ nb, 2 ^ nb - fl, 2 ^ nb - fh, decide (fl = 0))
  | .bitLogp v logp =>
    if v ≠ 0 then some (rng / 2 ^ logp, 1, 0, false) else some (rng / 2 ^ logp, 2 ^ logp, 1, true)
  | .icdf s tbl ftb =>
    some (rng / 2 ^ ftb, if s = 0 then 2 ^ ftb else tbl.getD (s - 1) 0, tbl.getD s 0, decide (s = 0))
  | .icdf16 s tbl ftb =>
    some (rng / 2 ^ ftb, if s = 0 then 2 ^ ftb else tbl.getD (s - 1) 0, tbl.getD s 0, decide (s = 0))
  | _ => none

theorem encSub_eq_nonfirst (c : Enc) (r a b : Nat) (h : SubOk c.rng r a b)
    (hs : c.val + c.rng ≤ 4294967296) (hr : c.rng ≤ 2147483648) :
    ({ c with val := add32 c.val (sub32 c.rng (mul32 r a)), rng := mul32 r (a - b) } : Enc) =
      encSub c r a b false := by
  obtain ⟨f1, f2, f3⟩ := h.facts
  have hp := h.r_pos
  have e1 : mul32 r a = r * a := mul32_of_lt (by omega)
  have e2 : sub32 c.rng (r * a) = c.rng - r * a := sub32_of_le (by omega) f3
  have e3 : add32 c.val (c.rng - r * a) = c.val + (c.rng - r * a) := add32_of_lt (by omega)
  have e4 : mul32 r (a - b) = r * (a - b) := mul32_of_lt (by rw [f2]; omega)
  simp only [encSub, e1, e2, e3, e4, Bool.false_eq_true, if_false]

theorem encSub_eq_first (c : Enc) (r a b : Nat) (h : SubOk c.rng r a b) (hr : c.rng ≤ 2147483648) :
    ({ c with rng := sub32 c.rng (mul32 r b) } : Enc) = encSub c r a b true := by
  obtain ⟨f1, f2, f3⟩ := h.facts
  have e1 : mul32 r b = r * b := mul32_of_lt (by omega)
  have e2 : sub32 c.rng (r * b) = c.rng - r * b := sub32_of_le (by omega) (by omega)
  simp only [encSub, e1, e2, if_true]

theorem two_pow_le_65536 {n : Nat} (h : n ≤ 16) : 2 ^ n ≤ 65536 := by
  have : (65536 : Nat) = 2 ^ 16 := by decide
  rw [this]; exact Nat.pow_le_pow_right (by decide) h

/-- `rng / ft` subdivisions fit: `ft ≤ 2^16 < rng`. -/
theorem div_subOk {rng ft a b : Nat} (hft : 0 < ft) (hft2 : ft ≤ 65536) (hrng : 8388608 < rng)
    (ha : a ≤ ft) (hb : b < a) : SubOk rng (rng / ft) a b := by
  refine ⟨Nat.div_pos (by omega) hft, hb, ?_⟩
  exact Nat.le_trans (Nat.mul_le_mul_left _ ha) (Nat.div_mul_le_self rng ft)

theorem icdf_facts {tbl : List Nat} {ftb s : Nat} (h : IcdfOk tbl ftb) (hs : s < tbl.length) :
    tbl.getD s 0 < (if s = 0 then 2 ^ ftb else tbl.getD (s - 1) 0) ∧
    (if s = 0 then 2 ^ ftb else tbl.getD (s - 1) 0) ≤ 2 ^ ftb := by
  obtain ⟨hne, _, hp, hh⟩ := h
  rw [List.pairwise_iff_getElem] at hp
  have h0 : tbl.headD 0 = tbl.getD 0 0 := by cases tbl <;> simp
  rw [h0] at hh
  by_cases e : s = 0
  · subst e; simp only [if_true]; exact ⟨hh, Nat.le_refl _⟩
  · simp only [e, if_false]
    have g1 : tbl.getD s 0 = tbl[s] := by simp [List.getD_eq_getElem?_getD, hs]
    have g2 : tbl.getD (s - 1) 0 = tbl[s - 1] := by
      simp [List.getD_eq_getElem?_getD, (by omega : s - 1 < tbl.length)]
    have g3 : tbl.getD 0 0 = tbl[0] := by simp [List.getD_eq_getElem?_getD, (by omega : 0 < tbl.length)]
    rw [g1, g2]
    refine ⟨hp (s - 1) s (by omega) hs (by omega), ?_⟩
    rw [g3] at hh
    by_cases e1 : s - 1 = 0
    · simp only [e1]; omega
    · have := hp 0 (s - 1) (by omega) (by omega) (by omega)
      omega

/-- Every primitive range-coded encoder call is `encSub` followed by `ec_enc_normalize`,
    with parameters that fit the current range. -/
theorem encOp_sub (c : Enc) (op : Op) (inv : EncInv c) (hl : op.Legal) {r a b : Nat} {first : Bool}
    (hsub : op.sub c.rng = some (r, a, b, first)) :
    SubOk c.rng r a b ∧ encOp c op = encNormalize (encSub c r a b first) := by
  obtain ⟨⟨wf, rp, rh, sl, cs, eb⟩, rl⟩ := inv
  cases op with
  | encode fl fh ft =>
    simp only [Op.sub, Option.some.injEq, Prod.mk.injEq] at hsub
    obtain ⟨rfl, rfl, rfl, rfl⟩ := hsub
    obtain ⟨l1, l2, l3, l4⟩ := hl
    have ok : SubOk c.rng (c.rng / ft) (ft - fl) (ft - fh) := div_subOk (by omega) l4 rl (by omega) (by omega)
    refine ⟨ok, ?_⟩
    simp only [encOp, encode, udiv]
    have e1 : sub32 ft fl = ft - fl := sub32_of_le (by omega) (by omega)
    have e2 : sub32 fh fl = (ft - fl) - (ft - fh) := by rw [sub32_of_le (by omega) (by omega)]; omega
    have e3 : sub32 ft fh = ft - fh := sub32_of_le (by omega) (by omega)
    rw [e1, e2, e3]
    by_cases hfl : fl > 0
    · rw [if_pos hfl, encSub_eq_nonfirst c _ _ _ ok sl rh]
      have : decide (fl = 0) = false := by simp; omega
      rw [this]
    · rw [if_neg hfl, encSub_eq_first c _ (ft - fl) _ ok rh]
      have : decide (fl = 0) = true := by simp; omega
      rw [this]
  | encodeBin fl fh nb =>
    simp only [Op.sub, Option.some.injEq, Prod.mk.injEq] at hsub
    obtain ⟨rfl, rfl, rfl, rfl⟩ := hsub
    obtain ⟨l1, l2, l3, l4⟩ := hl
    have hp := two_pow_le_65536 l4
    have hp0 : 0 < 2 ^ nb := Nat.pow_pos (by decide)
    have ok : SubOk c.rng (c.rng / 2 ^ nb) (2 ^ nb - fl) (2 ^ nb - fh) :=
      div_subOk hp0 hp rl (by omega) (by omega)
    refine ⟨ok, ?_⟩
    simp only [encOp, encodeBin]
    have e0 : u32 (2 ^ nb) = 2 ^ nb := u32_of_lt (by omega)
    have e1 : sub32 (2 ^ nb) fl = 2 ^ nb - fl := sub32_of_le (by omega) (by omega)
    have e2 : sub32 fh fl = (2 ^ nb - fl) - (2 ^ nb - fh) := by rw [sub32_of_le (by omega) (by omega)]; omega
    have e3 : sub32 (2 ^ nb) fh = 2 ^ nb - fh := sub32_of_le (by omega) (by omega)
    rw [e0, e1, e2, e3]
    by_cases hfl : fl > 0
    · rw [if_pos hfl, encSub_eq_nonfirst c _ _ _ ok sl rh]
      have : decide (fl = 0) = false := by simp; omega
      rw [this]
    · rw [if_neg hfl, encSub_eq_first c _ (2 ^ nb - fl) _ ok rh]
      have : decide (fl = 0) = true := by simp; omega
      rw [this]
  | bitLogp v logp =>
    obtain ⟨l1, l2⟩ := hl
    have hp : 2 ^ logp ≤ 65536 := two_pow_le_65536 (by omega)
    have hp0 : 0 < 2 ^ logp := Nat.pow_pos (by decide)
    have hp1 : 1 < 2 ^ logp := Nat.one_lt_two_pow (by omega)
    simp only [Op.sub] at hsub
    by_cases hv : v ≠ 0
    · rw [if_pos hv] at hsub
      simp only [Option.some.injEq, Prod.mk.injEq] at hsub
      obtain ⟨rfl, rfl, rfl, rfl⟩ := hsub
      have ok : SubOk c.rng (c.rng / 2 ^ logp) 1 0 := div_subOk hp0 hp rl (by omega) (by omega)
      refine ⟨ok, ?_⟩
      simp only [encOp, encBitLogp]
      rw [if_pos hv]
      have hs : c.rng / 2 ^ logp ≤ c.rng := Nat.div_le_self _ _
      have e1 : sub32 c.rng (c.rng / 2 ^ logp) = c.rng - c.rng / 2 ^ logp := sub32_of_le (by omega) hs
      have hpos := ok.r_pos
      have e2 : add32 c.val (c.rng - c.rng / 2 ^ logp) = c.val + (c.rng - c.rng / 2 ^ logp) :=
        add32_of_lt (by omega)
      rw [e1, e2]
      simp only [encSub, Bool.false_eq_true, if_false, Nat.mul_one, Nat.sub_zero]
    · rw [if_neg hv] at hsub
      simp only [Option.some.injEq, Prod.mk.injEq] at hsub
      obtain ⟨rfl, rfl, rfl, rfl⟩ := hsub
      have ok : SubOk c.rng (c.rng / 2 ^ logp) (2 ^ logp) 1 := div_subOk hp0 hp rl (by omega) (by omega)
      refine ⟨ok, ?_⟩
      simp only [encOp, encBitLogp]
      rw [if_neg hv]
      have hs : c.rng / 2 ^ logp ≤ c.rng := Nat.div_le_self _ _
      have e1 : sub32 c.rng (c.rng / 2 ^ logp) = c.rng - c.rng / 2 ^ logp := sub32_of_le (by omega) hs
      rw [e1]
      simp only [encSub, if_true, Nat.mul_one]
  | icdf s tbl ftb =>
    simp only [Op.sub, Option.some.injEq, Prod.mk.injEq] at hsub
    obtain ⟨rfl, rfl, rfl, rfl⟩ := hsub
    obtain ⟨l1, l2, l3⟩ := hl
    obtain ⟨g1, g2⟩ := icdf_facts l1 l2
    have hp := two_pow_le_65536 (n := ftb) (by omega)
    have hp0 : 0 < 2 ^ ftb := Nat.pow_pos (by decide)
    have ok := div_subOk (rng := c.rng) hp0 hp rl g2 g1
    refine ⟨ok, ?_⟩
    simp only [encOp, encIcdf]
    by_cases hs : s > 0
    · have hs0 : ¬ s = 0 := by omega
      simp only [hs0, if_false] at ok g1 g2 ⊢
      rw [if_pos hs]
      have e2 : sub32 (tbl.getD (s - 1) 0) (tbl.getD s 0) = tbl.getD (s - 1) 0 - tbl.getD s 0 :=
        sub32_of_le (by omega) (by omega)
      rw [e2, encSub_eq_nonfirst c _ _ _ ok sl rh]
      simp
    · have hs0 : s = 0 := by omega
      subst hs0
      simp only [if_true] at ok g1 g2 ⊢
      rw [if_neg (by omega), encSub_eq_first c _ (2 ^ ftb) _ ok rh]
      simp
  | icdf16 s tbl ftb =>
    simp only [Op.sub, Option.some.injEq, Prod.mk.injEq] at hsub
    obtain ⟨rfl, rfl, rfl, rfl⟩ := hsub
    obtain ⟨l1, l2, l3⟩ := hl
    obtain ⟨g1, g2⟩ := icdf_facts l1 l2
    have hp := two_pow_le_65536 (n := ftb) (by omega)
    have hp0 : 0 < 2 ^ ftb := Nat.pow_pos (by decide)
    have ok := div_subOk (rng := c.rng) hp0 hp rl g2 g1
    refine ⟨ok, ?_⟩
    simp only [encOp, encIcdf16, encIcdf]
    by_cases hs : s > 0
    · have hs0 : ¬ s = 0 := by omega
      simp only [hs0, if_false] at ok g1 g2 ⊢
      rw [if_pos hs]
      have e2 : sub32 (tbl.getD (s - 1) 0) (tbl.getD s 0) = tbl.getD (s - 1) 0 - tbl.getD s 0 :=
        sub32_of_le (by omega) (by omega)
      rw [e2, encSub_eq_nonfirst c _ _ _ ok sl rh]
      simp
    · have hs0 : s = 0 := by omega
      subst hs0
      simp only [if_true] at ok g1 g2 ⊢
      rw [if_neg (by omega), encSub_eq_first c _ (2 ^ ftb) _ ok rh]
      simp
  | uint v ft => simp [Op.sub] at hsub
  | bits v n => simp [Op.sub] at hsub
  | patchInitial v n => simp [Op.sub] at hsub
  | shrink size => simp [Op.sub] at hsub

end Opus.RangeCoder
