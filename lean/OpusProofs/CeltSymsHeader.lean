import OpusProofs.CeltSymsBasic
import OpusProofs.CeltSymsFrozenEq
import OpusProofs.SilkSymsBasic
import OpusProofs.LaplaceMain
/-
  C03 stage 2, part 2: every field of the CELT header lies in its legal range and the header model never reaches
  an assertion of laplace.c — for every decoder state satisfying the stand-alone invariant `J` (in particular for
  `ec_dec_init` on arbitrary bytes).
-/
namespace Opus.CeltSymsProofs
open Opus Opus.RangeCoder Opus.CeltSyms Opus.CeltSymsFrozen
open Opus.SilkSymsProofs (zeroPos decIcdf_le)

/-! ### Tables -/

theorem tapset_ok : TblOk 2 tapsetIcdf ∧ zeroPos tapsetIcdf = 2 := by
  refine ⟨by simp [TblOk, Decr, tapsetIcdf], by decide⟩
theorem small_ok : TblOk 2 smallEnergyIcdf ∧ zeroPos smallEnergyIcdf = 2 := by
  refine ⟨by simp [TblOk, Decr, smallEnergyIcdf], by decide⟩
theorem spread_ok : TblOk 5 spreadIcdf ∧ zeroPos spreadIcdf = 3 := by
  refine ⟨by simp [TblOk, Decr, spreadIcdf], by decide⟩
theorem trim_ok : TblOk 7 trimIcdf ∧ zeroPos trimIcdf = 10 := by
  refine ⟨by simp [TblOk, Decr, trimIcdf], by decide⟩

theorem frozen_eprob : CeltSymsFrozen.eProbModel = Gen.CeltTables.eProbModel := frozen_eProbModel

/-- Every value of `tf_select_table[LM][0..8)` lies in `[-3, 3]`. -/
theorem tfTable_range : ∀ LM, LM < 4 → ∀ idx, idx < 8 → -3 ≤ tfTable LM idx ∧ tfTable LM idx ≤ 3 := by decide

/-! ### Global flags -/

theorem readSilence_ok (total : Int) (c : Dec) (hj : J c) :
    J (readSilence total c).2.1 ∧ (readSilence total c).1 ≤ 1 := by
  unfold readSilence
  split
  · exact ⟨hj, by omega⟩
  · split
    · have h := J_bitLogp c hj 15 (by omega) (by omega)
      generalize decBitLogp c 15 = y at h
      obtain ⟨v, c1⟩ := y
      exact h
    · exact ⟨hj, by omega⟩

theorem applySilence_J (total t0 : Int) (sil : Nat) (c : Dec) (hj : J c) : J (applySilence total t0 sil c).2 := by
  unfold applySilence
  split
  · exact hj
  · exact hj

/-- The post-filter parameters are legal: octave ≤ 5, period in `[15, 1022]` (inside the comb-filter memory),
    gain index ≤ 7, tapset ≤ 2. -/
def PfOk (pf : PostFilter) : Prop :=
  pf.on ≤ 1 ∧ pf.octave ≤ 5 ∧ (pf.on = 1 → 15 ≤ pf.pitch ∧ pf.pitch ≤ 1022) ∧ pf.qg ≤ 7 ∧ pf.tapset ≤ 2

theorem pitch_range (oct pb : Nat) (ho : oct ≤ 5) (hp : pb < 2 ^ (4 + oct)) :
    15 ≤ 16 * 2 ^ oct + pb - 1 ∧ 16 * 2 ^ oct + pb - 1 ≤ 1022 := by
  have : oct = 0 ∨ oct = 1 ∨ oct = 2 ∨ oct = 3 ∨ oct = 4 ∨ oct = 5 := by omega
  rcases this with rfl | rfl | rfl | rfl | rfl | rfl <;> simp at hp ⊢ <;> omega

theorem readPostFilterOn_ok (total : Int) (c : Dec) (hj : J c) :
    PfOk (readPostFilterOn total c).1 ∧ J (readPostFilterOn total c).2.1 := by
  unfold readPostFilterOn
  have h1 := J_uint c hj 6 (by omega) (by omega)
  generalize decUint c 6 = y at h1
  obtain ⟨oct, c1⟩ := y
  dsimp only at h1 ⊢
  have h2 := J_bits c1 h1.2 (4 + oct)
  generalize decBits c1 (4 + oct) = y at h2
  obtain ⟨pb, c2⟩ := y
  dsimp only at h2 ⊢
  have h3 := J_bits c2 h2.1 3
  generalize decBits c2 3 = y at h3
  obtain ⟨qg, c3⟩ := y
  dsimp only at h3 ⊢
  have hp := pitch_range oct pb (by omega) h2.2
  split
  · have h4 := J_icdf c3 h3.1 tapsetIcdf 2 (by omega) tapset_ok.1
    have h5 := decIcdf_le c3 tapsetIcdf 2
    rw [tapset_ok.2] at h5
    generalize decIcdf c3 tapsetIcdf 2 = y at h4 h5
    obtain ⟨ts, c4⟩ := y
    dsimp only at h4 h5 ⊢
    exact ⟨⟨by dsimp only; omega, by dsimp only; omega, fun _ => hp, by dsimp only; have := h3.2; omega, h5⟩, h4⟩
  · dsimp only
    exact ⟨⟨by dsimp only; omega, by dsimp only; omega, fun _ => hp, by dsimp only; have := h3.2; omega, by dsimp only; omega⟩, h3.1⟩

theorem readPostFilter_ok (start : Nat) (total tellV : Int) (c : Dec) (hj : J c) :
    PfOk (readPostFilter start total tellV c).1 ∧ J (readPostFilter start total tellV c).2.2.1 := by
  have hdef : PfOk ({} : PostFilter) := ⟨by decide, by decide, fun h => absurd h (by decide), by decide, by decide⟩
  unfold readPostFilter
  split
  · have h1 := J_bitLogp c hj 1 (by omega) (by omega)
    generalize decBitLogp c 1 = y at h1
    obtain ⟨b, c1⟩ := y
    dsimp only at h1 ⊢
    split
    · have h2 := readPostFilterOn_ok total c1 h1.1
      generalize readPostFilterOn total c1 = z at h2
      obtain ⟨pf, c2, tr⟩ := z
      exact h2
    · exact ⟨hdef, h1.1⟩
  · exact ⟨hdef, hj⟩

theorem readTransient_ok (LM : Nat) (total tellV : Int) (c : Dec) (hj : J c) :
    (readTransient LM total tellV c).1 ≤ 1 ∧ J (readTransient LM total tellV c).2.2.1 := by
  unfold readTransient
  split
  · have h1 := J_bitLogp c hj 3 (by omega) (by omega)
    generalize decBitLogp c 3 = y at h1
    obtain ⟨b, c1⟩ := y
    exact ⟨h1.2, h1.1⟩
  · exact ⟨by omega, hj⟩

theorem readIntra_ok (total tellV : Int) (c : Dec) (hj : J c) :
    (readIntra total tellV c).1 ≤ 1 ∧ J (readIntra total tellV c).2.1 := by
  unfold readIntra
  split
  · have h1 := J_bitLogp c hj 3 (by omega) (by omega)
    generalize decBitLogp c 3 = y at h1
    obtain ⟨b, c1⟩ := y
    exact ⟨h1.2, h1.1⟩
  · exact ⟨by omega, hj⟩

/-! ### Coarse energy -/

/-- A coarse-energy symbol is one of the fallback values or a value the Laplace coder can represent with the
    parameters of some band (a fixed point of `ec_laplace_encode`: no clamping applies to it). -/
def QiOk (LM intra : Nat) (q : Int) : Prop :=
  q = -1 ∨ q = 0 ∨ q = 1 ∨
  ∃ b fl fh, b < 21 ∧
    Laplace.encode q (OpusProofs.Laplace.eprobFs LM intra b) (OpusProofs.Laplace.eprobDecay LM intra b) = .ok (fl, fh, q)

theorem smallMap_range (q : Nat) (h : q ≤ 2) : smallMap q = -1 ∨ smallMap q = 0 ∨ smallMap q = 1 := by
  have : q = 0 ∨ q = 1 ∨ q = 2 := by omega
  rcases this with rfl | rfl | rfl <;> simp [smallMap]

theorem coarseOne_ok (LM intra : Nat) (hl : LM < 4) (hi : intra < 2) (i : Nat) (c : Dec) (hj : J c) :
    ∃ q c' tr, coarseOne ((eProbModel.getD LM []).getD intra []) i c = .ok (q, c', tr) ∧ QiOk LM intra q ∧ J c' := by
  unfold coarseOne
  split
  · -- Laplace symbol
    rw [decodeBin_eq c 15 (by omega)]
    have hd := decode_lt c hj (2 ^ 15) (by omega) (by omega)
    generalize decode c (2 ^ 15) = y at hd
    obtain ⟨fm, c1⟩ := y
    dsimp only at hd ⊢
    have hb : min i 20 < 21 := by omega
    have hok := OpusProofs.Laplace.eprob_ok hl hi hb
    have hfs : (((eProbModel.getD LM []).getD intra []).getD (2 * min i 20) 0) * 128 =
        OpusProofs.Laplace.eprobFs LM intra (min i 20) := by
      unfold OpusProofs.Laplace.eprobFs; rw [frozen_eprob]
    have hdc : (((eProbModel.getD LM []).getD intra []).getD (2 * min i 20 + 1) 0) * 64 =
        OpusProofs.Laplace.eprobDecay LM intra (min i 20) := by
      unfold OpusProofs.Laplace.eprobDecay; rw [frozen_eprob]
    rw [hfs, hdc]
    obtain ⟨T, hp⟩ := OpusProofs.Laplace.par_of_ok hok.1
    obtain ⟨v, fl, fh, hdec, h1, h2, h3, henc⟩ := OpusProofs.Laplace.decode_then_encode hp (fm := fm) (by
      have := hd.1; omega)
    rw [hdec]
    dsimp only
    refine ⟨v, _, _, rfl, Or.inr (Or.inr (Or.inr ⟨min i 20, fl, fh, hb, henc⟩)), ?_⟩
    rw [hd.2]
    exact J_update c hj 32768 fl fh (by omega) (by omega) (by omega) h3
  · split
    · have h4 := J_icdf c hj smallEnergyIcdf 2 (by omega) small_ok.1
      have h5 := decIcdf_le c smallEnergyIcdf 2
      rw [small_ok.2] at h5
      generalize decIcdf c smallEnergyIcdf 2 = y at h4 h5
      obtain ⟨q, c1⟩ := y
      dsimp only at h4 h5 ⊢
      refine ⟨_, _, _, rfl, ?_, h4⟩
      rcases smallMap_range q h5 with h | h | h
      · exact Or.inl h
      · exact Or.inr (Or.inl h)
      · exact Or.inr (Or.inr (Or.inl h))
    · split
      · have h1 := J_bitLogp c hj 1 (by omega) (by omega)
        generalize decBitLogp c 1 = y at h1
        obtain ⟨b, c1⟩ := y
        dsimp only at h1 ⊢
        refine ⟨_, _, _, rfl, ?_, h1.1⟩
        have : b = 0 ∨ b = 1 := by omega
        rcases this with rfl | rfl
        · exact Or.inr (Or.inl (by simp))
        · exact Or.inl (by simp)
      · exact ⟨_, _, _, rfl, Or.inl rfl, hj⟩

theorem coarseChans_ok (LM intra : Nat) (hl : LM < 4) (hi : intra < 2) (i : Nat) : ∀ (n : Nat) (c : Dec), J c →
    ∃ qs c' tr, coarseChans ((eProbModel.getD LM []).getD intra []) i n c = .ok (qs, c', tr) ∧
      qs.length = n ∧ (∀ q ∈ qs, QiOk LM intra q) ∧ J c'
  | 0, c, hj => ⟨[], c, [], by unfold coarseChans; rfl, rfl, by intro q hq; simp at hq, hj⟩
  | n + 1, c, hj => by
    obtain ⟨q, c1, t1, h1, hq, hj1⟩ := coarseOne_ok LM intra hl hi i c hj
    obtain ⟨qs, c2, t2, h2, hlen, hqs, hj2⟩ := coarseChans_ok LM intra hl hi i n c1 hj1
    refine ⟨q :: qs, c2, t1 ++ t2, ?_, by simp [hlen], ?_, hj2⟩
    · unfold coarseChans; rw [h1]; dsimp only; rw [h2]
    · intro x hx
      simp only [List.mem_cons] at hx
      rcases hx with rfl | hx
      · exact hq
      · exact hqs x hx

theorem coarseBands_ok (LM intra C : Nat) (hl : LM < 4) (hi : intra < 2) : ∀ (k i : Nat) (c : Dec), J c →
    ∃ qs c' tr, coarseBands ((eProbModel.getD LM []).getD intra []) C k i c = .ok (qs, c', tr) ∧
      qs.length = k * C ∧ (∀ q ∈ qs, QiOk LM intra q) ∧ J c'
  | 0, i, c, hj => ⟨[], c, [], by unfold coarseBands; rfl, by simp, by intro q hq; simp at hq, hj⟩
  | k + 1, i, c, hj => by
    obtain ⟨q, c1, t1, h1, hlen1, hq, hj1⟩ := coarseChans_ok LM intra hl hi i C c hj
    obtain ⟨qs, c2, t2, h2, hlen, hqs, hj2⟩ := coarseBands_ok LM intra C hl hi k (i + 1) c1 hj1
    refine ⟨q ++ qs, c2, t1 ++ t2, ?_, ?_, ?_, hj2⟩
    · unfold coarseBands; rw [h1]; dsimp only; rw [h2]
    · simp only [List.length_append, hlen1, hlen]; rw [Nat.add_mul, Nat.one_mul, Nat.add_comm]
    · intro x hx
      simp only [List.mem_append] at hx
      rcases hx with hx | hx
      · exact hq x hx
      · exact hqs x hx


/-! ### tf_decode -/

theorem xor_bit {a b : Nat} (ha : a ≤ 1) (hb : b ≤ 1) : a ^^^ b ≤ 1 := by
  have : a = 0 ∨ a = 1 := by omega
  have : b = 0 ∨ b = 1 := by omega
  rcases ‹a = 0 ∨ a = 1› with rfl | rfl <;> rcases ‹b = 0 ∨ b = 1› with rfl | rfl <;> decide

theorem or_bit {a b : Nat} (ha : a ≤ 1) (hb : b ≤ 1) : a ||| b ≤ 1 := by
  have : a = 0 ∨ a = 1 := by omega
  have : b = 0 ∨ b = 1 := by omega
  rcases ‹a = 0 ∨ a = 1› with rfl | rfl <;> rcases ‹b = 0 ∨ b = 1› with rfl | rfl <;> decide

theorem tfLoop_ok (isT : Bool) (budget : Int) : ∀ (k logp curr changed : Nat) (tellV : Int) (c : Dec), J c →
    curr ≤ 1 → changed ≤ 1 → 1 ≤ logp → logp ≤ 23 →
    (tfLoop isT budget k logp curr changed tellV c).1.length = k ∧
    (∀ x ∈ (tfLoop isT budget k logp curr changed tellV c).1, x ≤ 1) ∧
    (tfLoop isT budget k logp curr changed tellV c).2.1 ≤ 1 ∧
    J (tfLoop isT budget k logp curr changed tellV c).2.2.1
  | 0, logp, curr, changed, tellV, c, hj, _, hch, _, _ => by
    unfold tfLoop
    exact ⟨rfl, by intro x hx; simp at hx, hch, hj⟩
  | k + 1, logp, curr, changed, tellV, c, hj, hc, hch, h1, h2 => by
    have hnext : 1 ≤ (if isT then 4 else 5) ∧ (if isT then 4 else 5) ≤ 23 := by split <;> omega
    unfold tfLoop
    split
    · have hb := J_bitLogp c hj logp h1 h2
      generalize decBitLogp c logp = y at hb
      obtain ⟨b, c1⟩ := y
      dsimp only at hb ⊢
      have hx := xor_bit hc hb.2
      have ih := tfLoop_ok isT budget k (if isT then 4 else 5) (curr ^^^ b) (changed ||| (curr ^^^ b)) (tell c1) c1
        hb.1 hx (or_bit hch hx) hnext.1 hnext.2
      generalize tfLoop isT budget k (if isT then 4 else 5) (curr ^^^ b) (changed ||| (curr ^^^ b)) (tell c1) c1 = z at ih
      obtain ⟨rs, ch, c2, tr⟩ := z
      dsimp only at ih ⊢
      refine ⟨by simp [ih.1], ?_, ih.2.2.1, ih.2.2.2⟩
      intro x hx'
      simp only [List.mem_cons] at hx'
      rcases hx' with rfl | hx'
      · exact hx
      · exact ih.2.1 x hx'
    · have ih := tfLoop_ok isT budget k (if isT then 4 else 5) curr changed tellV c hj hc hch hnext.1 hnext.2
      generalize tfLoop isT budget k (if isT then 4 else 5) curr changed tellV c = z at ih
      obtain ⟨rs, ch, c2, tr⟩ := z
      dsimp only at ih ⊢
      refine ⟨by simp [ih.1], ?_, ih.2.2.1, ih.2.2.2⟩
      intro x hx'
      simp only [List.mem_cons] at hx'
      rcases hx' with rfl | hx'
      · exact hc
      · exact ih.2.1 x hx'

theorem tfFinish_ok (cfg : CeltCfg) (hl : cfg.LM < 4) (isT : Nat) (ht : isT ≤ 1) (rsv : Nat) (raw : List Nat)
    (hraw : ∀ x ∈ raw, x ≤ 1) (changed : Nat) (c1 : Dec) (hj : J c1) (tr : List CEv) :
    (tfFinish cfg isT rsv raw changed c1 tr).1.length = raw.length ∧
    (∀ t ∈ (tfFinish cfg isT rsv raw changed c1 tr).1, -3 ≤ t ∧ t ≤ 3) ∧
    (tfFinish cfg isT rsv raw changed c1 tr).2.1 ≤ 1 ∧ J (tfFinish cfg isT rsv raw changed c1 tr).2.2.1 := by
  unfold tfFinish
  split
  · have hb := J_bitLogp c1 hj 1 (by omega) (by omega)
    generalize decBitLogp c1 1 = y at hb
    obtain ⟨sel, c2⟩ := y
    dsimp only at hb ⊢
    refine ⟨by simp, ?_, hb.2, hb.1⟩
    intro t ht'
    simp only [List.mem_map] at ht'
    obtain ⟨r, hr, rfl⟩ := ht'
    have := hraw r hr
    exact tfTable_range cfg.LM hl _ (by omega)
  · dsimp only
    refine ⟨by simp, ?_, by omega, hj⟩
    intro t ht'
    simp only [List.mem_map] at ht'
    obtain ⟨r, hr, rfl⟩ := ht'
    have := hraw r hr
    exact tfTable_range cfg.LM hl _ (by omega)

theorem tfDecode_ok (cfg : CeltCfg) (hl : cfg.LM < 4) (isT : Nat) (ht : isT ≤ 1) (c : Dec) (hj : J c) :
    (tfDecode cfg isT c).1.length = cfg.end_ - cfg.start ∧
    (∀ t ∈ (tfDecode cfg isT c).1, -3 ≤ t ∧ t ≤ 3) ∧ (tfDecode cfg isT c).2.1 ≤ 1 ∧ J (tfDecode cfg isT c).2.2.1 := by
  unfold tfDecode
  have hlp : 1 ≤ (if isT ≠ 0 then 2 else 4) ∧ (if isT ≠ 0 then 2 else 4) ≤ 23 := by split <;> omega
  have h := tfLoop_ok (decide (isT ≠ 0)) (((c.storage * 8 : Nat) : Int) - tfRsv cfg isT c)
    (cfg.end_ - cfg.start) (if isT ≠ 0 then 2 else 4) 0 0 (tell c) c hj (by omega) (by omega) hlp.1 hlp.2
  generalize tfLoop (decide (isT ≠ 0)) (((c.storage * 8 : Nat) : Int) - tfRsv cfg isT c)
    (cfg.end_ - cfg.start) (if isT ≠ 0 then 2 else 4) 0 0 (tell c) c = z at h
  obtain ⟨raw, changed, c1, tr⟩ := z
  dsimp only at h ⊢
  have hf := tfFinish_ok cfg hl isT ht (tfRsv cfg isT c) raw h.2.1 changed c1 h.2.2.2 tr
  exact ⟨by rw [hf.1, h.1], hf.2.1, hf.2.2.1, hf.2.2.2⟩

/-! ### Spread, trim -/

theorem readSpread_ok (total : Int) (c : Dec) (hj : J c) : (readSpread total c).1 ≤ 3 ∧ J (readSpread total c).2.1 := by
  unfold readSpread
  split
  · have h4 := J_icdf c hj spreadIcdf 5 (by omega) spread_ok.1
    have h5 := decIcdf_le c spreadIcdf 5
    rw [spread_ok.2] at h5
    generalize decIcdf c spreadIcdf 5 = y at h4 h5
    obtain ⟨v, c1⟩ := y
    exact ⟨h5, h4⟩
  · exact ⟨by omega, hj⟩

theorem readTrim_ok (totalF : Int) (c : Dec) (hj : J c) : (readTrim totalF c).1 ≤ 10 ∧ J (readTrim totalF c).2.1 := by
  unfold readTrim
  split
  · have h4 := J_icdf c hj trimIcdf 7 (by omega) trim_ok.1
    have h5 := decIcdf_le c trimIcdf 7
    rw [trim_ok.2] at h5
    generalize decIcdf c trimIcdf 7 = y at h4 h5
    obtain ⟨v, c1⟩ := y
    exact ⟨h5, h4⟩
  · exact ⟨by omega, hj⟩

/-! ### Dynalloc -/

theorem boostLoop_ok (cap quanta : Nat) : ∀ (n logp boost : Nat) (totalF : Int) (c : Dec), cap - boost ≤ n → J c →
    1 ≤ logp → logp ≤ 23 →
    ((boostLoop cap quanta logp boost totalF c).1 = boost ∨ (boostLoop cap quanta logp boost totalF c).1 < cap + quanta) ∧
    J (boostLoop cap quanta logp boost totalF c).2.2.1
  | 0, logp, boost, totalF, c, hn, hj, _, _ => by
    rw [boostLoop]
    rw [dif_neg (by omega)]
    exact ⟨Or.inl rfl, hj⟩
  | n + 1, logp, boost, totalF, c, hn, hj, h1, h2 => by
    rw [boostLoop]
    split
    · rename_i hc
      have hb := J_bitLogp c hj logp h1 h2
      generalize decBitLogp c logp = y at hb
      obtain ⟨flag, c1⟩ := y
      dsimp only at hb ⊢
      split
      · exact ⟨Or.inl rfl, hb.1⟩
      · have ih := boostLoop_ok cap quanta n 1 (boost + quanta) (totalF - quanta) c1 (by omega) hb.1 (by omega) (by omega)
        generalize boostLoop cap quanta 1 (boost + quanta) (totalF - quanta) c1 = z at ih
        obtain ⟨b, t, c2, tr⟩ := z
        dsimp only at ih ⊢
        refine ⟨Or.inr ?_, ih.2⟩
        rcases ih.1 with h | h <;> omega
    · exact ⟨Or.inl rfl, hj⟩

/-- A boost is `0` or stays below `cap[i] + quanta` (the loop stops as soon as the boost reaches the cap). -/
def BoostOk (cfg : CeltCfg) (i b : Nat) : Prop := b = 0 ∨ b < capOf cfg i + quantaOf cfg i

theorem dynalloc_ok (cfg : CeltCfg) : ∀ (k i dlogp : Nat) (totalF : Int) (c : Dec), J c → 2 ≤ dlogp → dlogp ≤ 6 →
    (dynalloc cfg k i dlogp totalF c).1.length = k ∧
    (∀ j, j < k → BoostOk cfg (i + j) ((dynalloc cfg k i dlogp totalF c).1.getD j 0)) ∧
    J (dynalloc cfg k i dlogp totalF c).2.2.1
  | 0, i, dlogp, totalF, c, hj, _, _ => by
    unfold dynalloc
    exact ⟨rfl, by intro j hjj; omega, hj⟩
  | k + 1, i, dlogp, totalF, c, hj, h1, h2 => by
    unfold dynalloc
    have hb := boostLoop_ok (capOf cfg i) (quantaOf cfg i) (capOf cfg i - 0) dlogp 0 totalF c (Nat.le_refl _) hj
      (by omega) (by omega)
    generalize boostLoop (capOf cfg i) (quantaOf cfg i) dlogp 0 totalF c = y at hb
    obtain ⟨boost, t1, c1, tr1⟩ := y
    dsimp only at hb ⊢
    have hnext : 2 ≤ (if boost > 0 then max 2 (dlogp - 1) else dlogp) ∧ (if boost > 0 then max 2 (dlogp - 1) else dlogp) ≤ 6 := by
      split <;> omega
    have ih := dynalloc_ok cfg k (i + 1) (if boost > 0 then max 2 (dlogp - 1) else dlogp) t1 c1 hb.2 hnext.1 hnext.2
    generalize dynalloc cfg k (i + 1) (if boost > 0 then max 2 (dlogp - 1) else dlogp) t1 c1 = z at ih
    obtain ⟨bs, t2, c2, tr2⟩ := z
    dsimp only at ih ⊢
    refine ⟨by simp [ih.1], ?_, ih.2.2⟩
    intro j hjj
    cases j with
    | zero => simpa [BoostOk] using hb.1
    | succ j =>
      have := ih.2.1 j (by omega)
      have e : i + 1 + j = i + (j + 1) := by omega
      rw [e] at this
      simpa using this

/-! ### The whole header -/

/-- Everything guaranteed about a decoded CELT header. -/
structure HdrOk (cfg : CeltCfg) (h : CeltHdr) : Prop where
  silence : h.silence ≤ 1
  pf : PfOk h.pf
  transient : h.isTransient ≤ 1
  intra : h.intra ≤ 1
  coarseLen : h.coarse.length = (cfg.end_ - cfg.start) * cfg.C
  coarse : ∀ q ∈ h.coarse, QiOk cfg.LM h.intra q
  tfLen : h.tfRes.length = cfg.end_ - cfg.start
  tf : ∀ t ∈ h.tfRes, -3 ≤ t ∧ t ≤ 3
  tfSelect : h.tfSelect ≤ 1
  spread : h.spread ≤ 3
  offsLen : h.offsets.length = cfg.end_ - cfg.start
  offs : ∀ j, j < cfg.end_ - cfg.start → BoostOk cfg (cfg.start + j) (h.offsets.getD j 0)
  trim : h.trim ≤ 10
  dec : J h.dec

theorem readFlags_ok (cfg : CeltCfg) (total : Int) (c : Dec) (hj : J c) :
    (readFlags cfg total c).1.1 ≤ 1 ∧ PfOk (readFlags cfg total c).1.2.1 ∧ (readFlags cfg total c).1.2.2.1 ≤ 1 ∧
    (readFlags cfg total c).1.2.2.2 ≤ 1 ∧ J (readFlags cfg total c).2.1 := by
  unfold readFlags
  have h1 := readSilence_ok total c hj
  generalize readSilence total c = y at h1
  obtain ⟨sil, c1, t1⟩ := y
  dsimp only at h1 ⊢
  have h2 := applySilence_J total (tell c) sil c1 h1.1
  generalize applySilence total (tell c) sil c1 = y at h2
  obtain ⟨tv1, c2⟩ := y
  dsimp only at h2 ⊢
  have h3 := readPostFilter_ok cfg.start total tv1 c2 h2
  generalize readPostFilter cfg.start total tv1 c2 = y at h3
  obtain ⟨pf, tv2, c3, t2⟩ := y
  dsimp only at h3 ⊢
  have h4 := readTransient_ok cfg.LM total tv2 c3 h3.2
  generalize readTransient cfg.LM total tv2 c3 = y at h4
  obtain ⟨isT, tv3, c4, t3⟩ := y
  dsimp only at h4 ⊢
  have h5 := readIntra_ok total tv3 c4 h4.2
  generalize readIntra total tv3 c4 = y at h5
  obtain ⟨intra, c5, t4⟩ := y
  dsimp only at h5 ⊢
  exact ⟨h1.2, h3.1, h4.1, h5.1, h5.2⟩

theorem readTail_ok (cfg : CeltCfg) (hl : cfg.LM < 4) (len : Nat) (flags : Nat × PostFilter × Nat × Nat)
    (hf : flags.1 ≤ 1 ∧ PfOk flags.2.1 ∧ flags.2.2.1 ≤ 1 ∧ flags.2.2.2 ≤ 1) (coarse : List Int)
    (hc : coarse.length = (cfg.end_ - cfg.start) * cfg.C ∧ ∀ q ∈ coarse, QiOk cfg.LM flags.2.2.2 q)
    (tr0 : List CEv) (c : Dec) (hj : J c) : HdrOk cfg (readTail cfg len flags coarse tr0 c) := by
  unfold readTail
  have h1 := tfDecode_ok cfg hl flags.2.2.1 hf.2.2.1 c hj
  generalize tfDecode cfg flags.2.2.1 c = y at h1
  obtain ⟨tf, sel, c1, t1⟩ := y
  dsimp only at h1 ⊢
  have h2 := readSpread_ok ((len * 8 : Nat) : Int) c1 h1.2.2.2
  generalize readSpread ((len * 8 : Nat) : Int) c1 = y at h2
  obtain ⟨spread, c2, t2⟩ := y
  dsimp only at h2 ⊢
  have h3 := dynalloc_ok cfg (cfg.end_ - cfg.start) cfg.start 6 ((len * 8 * 8 : Nat) : Int) c2 h2.2 (by omega) (by omega)
  generalize dynalloc cfg (cfg.end_ - cfg.start) cfg.start 6 ((len * 8 * 8 : Nat) : Int) c2 = y at h3
  obtain ⟨offs, totalF, c3, t3⟩ := y
  dsimp only at h3 ⊢
  have h4 := readTrim_ok totalF c3 h3.2.2
  generalize readTrim totalF c3 = y at h4
  obtain ⟨trim, c4, t4⟩ := y
  dsimp only at h4 ⊢
  exact ⟨hf.1, hf.2.1, hf.2.2.1, hf.2.2.2, hc.1, hc.2, h1.1, h1.2.1, h1.2.2.1, h2.1, h3.1, h3.2.1, h4.1, h4.2⟩

/-- Totality and legality of the CELT header model: from any decoder state satisfying `J`, for every configuration
    with `LM ≤ 3`, the header decodes (no laplace.c assertion) and every field is legal. -/
theorem celtHeader_ok (cfg : CeltCfg) (hl : cfg.LM < 4) (len : Nat) (c : Dec) (hj : J c) :
    ∃ h, celtHeader cfg len c = .ok h ∧ HdrOk cfg h := by
  unfold celtHeader
  have h1 := readFlags_ok cfg ((len * 8 : Nat) : Int) c hj
  generalize readFlags cfg ((len * 8 : Nat) : Int) c = y at h1
  obtain ⟨flags, c1, t1⟩ := y
  dsimp only at h1 ⊢
  unfold coarseEnergy
  obtain ⟨qs, c2, t2, h2, hlen, hq, hj2⟩ := coarseBands_ok cfg.LM flags.2.2.2 cfg.C hl (by omega)
    (cfg.end_ - cfg.start) cfg.start c1 h1.2.2.2.2
  rw [h2]
  dsimp only
  exact ⟨_, rfl, readTail_ok cfg hl len flags ⟨h1.1, h1.2.1, h1.2.2.1, h1.2.2.2.1⟩ qs ⟨hlen, hq⟩ (t1 ++ t2) c2 hj2⟩

end Opus.CeltSymsProofs
