import OpusProofs.SilkApiDecode
/-! Proofs for the C01 `SilkApi` slice: the phases after the configuration part keep the configuration members. -/
namespace Opus.SilkApi

/-- The configuration members of a channel are unchanged; `nFramesDecoded` advanced by `k`. -/
def KeyEq (k : Int) (c c' : Chan) : Prop :=
  c'.fs_kHz = c.fs_kHz ∧ c'.fs_API_hz = c.fs_API_hz ∧ c'.nb_subfr = c.nb_subfr ∧ c'.frame_length = c.frame_length ∧
  c'.subfr_length = c.subfr_length ∧ c'.ltp_mem_length = c.ltp_mem_length ∧ c'.LPC_order = c.LPC_order ∧
  c'.lagLowBits = c.lagLowBits ∧ c'.pitchContour = c.pitchContour ∧ c'.nlsfCb = c.nlsfCb ∧
  c'.nFramesPerPacket = c.nFramesPerPacket ∧ c'.rsIn = c.rsIn ∧ c'.rsOut = c.rsOut ∧
  c'.nFramesDecoded = c.nFramesDecoded + k

theorem KeyEq.refl (c : Chan) : KeyEq 0 c c := by simp [KeyEq]

theorem KeyEq.trans {j k : Int} {c c' c'' : Chan} (h : KeyEq j c c') (h' : KeyEq k c' c'') : KeyEq (j + k) c c'' := by
  unfold KeyEq at *
  obtain ⟨a1, a2, a3, a4, a5, a6, a7, a8, a9, a10, a11, a12, a13, a14⟩ := h
  obtain ⟨b1, b2, b3, b4, b5, b6, b7, b8, b9, b10, b11, b12, b13, b14⟩ := h'
  refine ⟨by rw [b1, a1], by rw [b2, a2], by rw [b3, a3], by rw [b4, a4], by rw [b5, a5], by rw [b6, a6], by rw [b7, a7],
          by rw [b8, a8], by rw [b9, a9], by rw [b10, a10], by rw [b11, a11], by rw [b12, a12], by rw [b13, a13], by omega⟩

theorem chanOk_of_keyEq {api k : Int} {c c' : Chan} (h : ChanOk api c) (hk : KeyEq k c c') (h0 : 0 ≤ k)
    (hle : c.nFramesDecoded + k ≤ c.nFramesPerPacket) : ChanOk api c' := by
  unfold KeyEq at hk
  obtain ⟨a1, a2, a3, a4, a5, a6, a7, a8, a9, a10, a11, a12, a13, a14⟩ := hk
  unfold ChanOk Cfg at *
  rw [a1, a2, a3, a4, a5, a6, a7, a8, a9, a10, a11, a12, a13, a14]
  obtain ⟨h1, h2, h3, h4, h5⟩ := h
  exact ⟨h1, h2, h3, by omega, by omega⟩

theorem setVad_key (c : Chan) (b : List Int) : KeyEq 0 c (setVad c b) := by simp [KeyEq, setVad]

theorem setLbrr_key (c : Chan) (f s : Int) : KeyEq 0 c (setLbrr c f s) := by
  unfold setLbrr
  dsimp only
  split
  · split <;> simp [KeyEq]
  · simp [KeyEq]

/-- Both channels keep their configuration; channel 0 advances by k, channel 1 by k when the stream is stereo. -/
def DecKeep (k : Int) (a : Args) (d d' : Dec) : Prop :=
  KeyEq k d.ch0 d'.ch0 ∧ (a.nChannelsInternal = 2 → KeyEq k d.ch1 d'.ch1) ∧
  d'.nChannelsInternal = d.nChannelsInternal ∧ d'.nChannelsAPI = d.nChannelsAPI

theorem readFlags_keep (d : Dec) (a : Args) (o : Orc) : DecKeep 0 a d (readFlags d a o).1 := by
  unfold readFlags
  split
  · refine ⟨?_, fun h2 => ?_, rfl, rfl⟩
    · have := (setVad_key d.ch0 o.vad0).trans (setLbrr_key (setVad d.ch0 o.vad0) o.lbrrFlag0 o.lbrrSym0)
      simpa using this
    · simp only [h2, if_true]
      have := (setVad_key d.ch1 o.vad1).trans (setLbrr_key (setVad d.ch1 o.vad1) o.lbrrFlag1 o.lbrrSym1)
      simpa using this
  · exact ⟨KeyEq.refl _, fun _ => KeyEq.refl _, rfl, rfl⟩

theorem sideReset_keep (d : Dec) (a : Args) (dom : Int) : DecKeep 0 a d (sideReset d a dom).1 := by
  unfold sideReset
  split
  · exact ⟨KeyEq.refl _, fun _ => by simp [KeyEq], rfl, rfl⟩
  · exact ⟨KeyEq.refl _, fun _ => KeyEq.refl _, rfl, rfl⟩

theorem frames_keep (d : Dec) (a : Args) (o : Orc) (hs : Bool) : DecKeep 1 a d (frames d a o hs).d := by
  unfold frames
  dsimp only
  split
  · split
    · exact ⟨by simp [KeyEq, applyFrame], fun _ => by simp [KeyEq, applyFrame], rfl, rfl⟩
    · exact ⟨by simp [KeyEq, applyFrame], fun _ => by simp [KeyEq], rfl, rfl⟩
  · rename_i h
    exact ⟨by simp [KeyEq, applyFrame], fun h2 => absurd h2 h, rfl, rfl⟩

end Opus.SilkApi
