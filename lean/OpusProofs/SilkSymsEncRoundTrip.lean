import OpusProofs.SilkSymsEncLockstep
/-
  C08 × C03 composition, part 9: a whole SILK payload through the real range coder.
  Legality of everything the payload writer emits, the reduction of an arbitrary decoder history to one
  that agrees with the encoder's conditional-coding memory (C03's `silkCalls_first`: the symbols read do
  not depend on the history), and the final statement.
-/
namespace Opus.SilkSymsEncProofs
open Opus Opus.RangeCoder Opus.SilkSyms Opus.SilkSymsEnc Opus.SilkSymsFrozen.Icdf

/-! ### Legality -/

theorem lbrrOne_legal {cfg : Cfg} {pk : PacketIn} (hok : PacketOk cfg pk) {i n : Nat} (hi : i < cfg.nfpp)
    (hn : n < cfg.nCh) (s : EncSt) : IcLegal (lbrrOne cfg pk i n s).1 := by
  have hco := chanOk_of hok hn
  unfold lbrrOne
  split
  · rename_i hf
    obtain ⟨hix, hpu⟩ := hco.lbrr i hi hf
    apply icLegal_append
    · split
      · rename_i hs
        obtain ⟨h2, rfl⟩ := hs
        obtain ⟨hp, hm⟩ := hok.lbrrPred h2 i hi hf
        apply icLegal_append (predOps_legal hp)
        split
        · exact midOnly_legal hm
        · exact icLegal_nil
      · exact icLegal_nil
    · exact frameOps_legal hix hpu (fun _ => rfl)
  · exact icLegal_nil

theorem lbrrChans_legal {cfg : Cfg} {pk : PacketIn} (hok : PacketOk cfg pk) {i : Nat} (hi : i < cfg.nfpp) :
    ∀ (ns : List Nat), (∀ n ∈ ns, n < cfg.nCh) → ∀ (s : EncSt), IcLegal (lbrrChans cfg pk i ns s).1 := by
  intro ns
  induction ns with
  | nil => intro _ _; exact icLegal_nil
  | cons n ns ih =>
    intro hn s
    rw [lbrrChans]
    exact icLegal_append (lbrrOne_legal hok hi (hn n (List.mem_cons_self ..)) s)
      (ih (fun n' h' => hn n' (List.mem_cons_of_mem _ h')) _)

theorem lbrrFrames_legal {cfg : Cfg} {pk : PacketIn} (hok : PacketOk cfg pk) :
    ∀ (is : List Nat), (∀ i ∈ is, i < cfg.nfpp) → ∀ (s : EncSt), IcLegal (lbrrFrames cfg pk is s).1 := by
  intro is
  induction is with
  | nil => intro _ _; exact icLegal_nil
  | cons i is ih =>
    intro hi s
    rw [lbrrFrames]
    exact icLegal_append (lbrrChans_legal hok (hi i (List.mem_cons_self ..)) _ (fun n hn => List.mem_range.mp hn) s)
      (ih (fun i' h' => hi i' (List.mem_cons_of_mem _ h')) _)

theorem frameChan_legal {cfg : Cfg} {pk : PacketIn} (hok : PacketOk cfg pk) {i n : Nat} (hi : i < cfg.nfpp)
    (hn : n < cfg.nCh) (s : EncSt) : IcLegal (frameChan cfg pk i n s).1 := by
  unfold frameChan
  split
  · rename_i hc
    by_cases h0 : n = 0
    · subst h0
      obtain ⟨hix, hpu⟩ := hok.frames0 i hi
      exact frameOps_legal hix hpu (fun hh => absurd hh (by decide))
    · have h2 : cfg.nCh = 2 := by have := hok.nCh; omega
      have h1 : n = 1 := by omega
      subst h1
      obtain ⟨hix, hpu⟩ := hok.frames1 h2 i hi (hc.resolve_left (by decide))
      exact frameOps_legal hix hpu (fun hh => absurd hh (by decide))
  · exact icLegal_nil

theorem frameCall_legal {cfg : Cfg} {pk : PacketIn} (hok : PacketOk cfg pk) {i : Nat} (hi : i < cfg.nfpp)
    (s : EncSt) : IcLegal (frameCall cfg pk i s).1 := by
  have h0 : 0 < cfg.nCh := by have := hok.nCh; omega
  unfold frameCall
  by_cases h2 : cfg.nCh = 2
  · simp only [if_pos h2]
    obtain ⟨hp, hm, _⟩ := hok.pred h2 i hi
    refine icLegal_append (icLegal_append (icLegal_append (predOps_legal hp) ?_) (frameChan_legal hok hi h0 s))
      (frameChan_legal hok hi (by omega) _)
    split
    · exact midOnly_legal hm
    · exact icLegal_nil
  · simp only [if_neg h2, List.nil_append]
    exact frameChan_legal hok hi h0 s

theorem headerOps_legal {cfg : Cfg} {pk : PacketIn} (hok : PacketOk cfg pk) : IcLegal (headerOps cfg pk) := by
  unfold headerOps
  rw [List.append_assoc]
  have := flagsOps_syms_legal hok
  rw [← List.append_assoc]
  exact icLegal_append this (lbrrFrames_legal hok _ (fun i hi => List.mem_range.mp hi) _)

theorem callOps_legal {cfg : Cfg} {pk : PacketIn} (hok : PacketOk cfg pk) {i : Nat} (hi : i < cfg.nfpp) :
    IcLegal (callOps cfg pk i) := by
  unfold callOps
  apply icLegal_append
  · split
    · exact headerOps_legal hok
    · exact icLegal_nil
  · exact frameCall_legal hok hi _

/-! ### The payload as a sequence of calls -/

theorem packetBody_calls (cfg : Cfg) (pk : PacketIn) (h1 : 1 ≤ cfg.nfpp) :
    packetBody cfg pk = ((List.range cfg.nfpp).map (callOps cfg pk)).flatten := by
  obtain ⟨k, hk⟩ : ∃ k, cfg.nfpp = k + 1 := ⟨cfg.nfpp - 1, by omega⟩
  rw [packetBody_eq cfg pk k hk, hk, List.range_eq_range', List.range'_succ, List.map_cons, List.flatten_cons]
  congr 1
  unfold laterOps
  congr 1
  apply List.map_congr_left
  intro j hj
  rw [List.mem_range'_1] at hj
  obtain ⟨j', rfl⟩ : ∃ j', j = j' + 1 := ⟨j - 1, by omega⟩
  rw [callOps_succ]

theorem callsPrefix_split (cfg : Cfg) (pk : PacketIn) {j : Nat} (hj : j < cfg.nfpp) :
    ∃ rest, packetBody cfg pk = ((List.range (j + 1)).map (callOps cfg pk)).flatten ++ rest := by
  rw [packetBody_calls cfg pk (by omega)]
  obtain ⟨m, hm⟩ : ∃ m, cfg.nfpp = (j + 1) + m := ⟨cfg.nfpp - (j + 1), by omega⟩
  rw [hm, List.range_add, List.map_append, List.flatten_append]
  exact ⟨_, rfl⟩

theorem callsPrefix_legal {cfg : Cfg} {pk : PacketIn} (hok : PacketOk cfg pk) {j : Nat} (hj : j < cfg.nfpp) :
    IcLegal ((List.range (j + 1)).map (callOps cfg pk)).flatten := by
  apply icLegal_flatten
  intro l hl
  rw [List.mem_map] at hl
  rcases hl with ⟨i, hi, rfl⟩
  rw [List.mem_range] at hi
  exact callOps_legal hok (by omega)

theorem packetBody_legal {cfg : Cfg} {pk : PacketIn} (hok : PacketOk cfg pk) : IcLegal (packetBody cfg pk) := by
  rw [packetBody_calls cfg pk hok.nfpp.1]
  apply icLegal_flatten
  intro l hl
  rw [List.mem_map] at hl
  rcases hl with ⟨i, hi, rfl⟩
  rw [List.mem_range] at hi
  exact callOps_legal hok hi

theorem packetEvs_congr (cfg : Cfg) (pk : PacketIn) (r r' : Nat → Nat × Int) (h : ∀ j, j < cfg.nfpp → r j = r' j) :
    packetEvs cfg pk r = packetEvs cfg pk r' := by
  unfold packetEvs
  congr 1
  apply List.map_congr_left
  intro j hj
  rw [List.mem_range] at hj
  rw [h j hj]

/-! ### Any decoder history -/

/-- The history `st` with the encoder's conditional-coding memory put in. -/
def syncSt (pk : PacketIn) (st : SilkSt) : SilkSt :=
  { st with ch0 := { st.ch0 with ecPrevSignalType := pk.ch0.prev.sig, ecPrevLagIndex := pk.ch0.prev.lag },
            ch1 := { st.ch1 with ecPrevSignalType := pk.ch1.prev.sig, ecPrevLagIndex := pk.ch1.prev.lag } }

theorem silkCalls_any {cfg : Cfg} {pk : PacketIn} (hok : PacketOk cfg pk) (st : SilkSt) (d0 : Dec)
    (h : Reads d0 (flagOps (headerBits cfg pk) ++ packetBody cfg pk)) :
    (silkCalls cfg cfg.nfpp true st d0).1 =
      packetEvs cfg pk (fun j => ((decAt cfg pk d0 j).rng, tell (decAt cfg pk d0 j))) ∧
    (silkCalls cfg cfg.nfpp true st d0).2.2 = after d0 (flagOps (headerBits cfg pk) ++ packetBody cfg pk) := by
  obtain ⟨e1, e2⟩ := Opus.SilkSymsProofs.silkCalls_first cfg hok.nCh (Or.inl hok.lost) cfg.nfpp st (syncSt pk st) d0
  rw [e1, e2]
  exact silkCalls_sync hok (syncSt pk st) d0 ⟨rfl, rfl, rfl, rfl⟩ h

/-! ### Through the real range coder -/

/-- "What the SILK payload writer writes, `silk_Decode` reads back": every configuration `silk_Encode` produces
    (mono / stereo, 1-3 frames of 10 or 20 ms, with or without LBRR data), every input in the encoder's domain
    (`PacketOk`), any buffer, any decoder history. -/
theorem silk_syms_roundtrip_all (buf : List Nat) (size : Nat) (cfg : Cfg) (pk : PacketIn) (st : SilkSt)
    (hs : size ≤ buf.length) (hb : BytesOk buf) (hok : PacketOk cfg pk)
    (hnbits : (encodeAll buf size (packetOps cfg pk)).nbitsTotal < 4294967296)
    (herr : (encodeAll buf size (packetOps cfg pk)).error = 0) :
    (silkCalls cfg cfg.nfpp true st (decInit ((encodeAll buf size (packetOps cfg pk)).buf.take
        (encodeAll buf size (packetOps cfg pk)).storage) (encodeAll buf size (packetOps cfg pk)).storage)).1 =
      packetEvs cfg pk (fun j => ((encRun (encInit buf size) (prefixOps cfg pk j)).rng,
        tell (encRun (encInit buf size) (prefixOps cfg pk j)))) ∧
    (silkCalls cfg cfg.nfpp true st (decInit ((encodeAll buf size (packetOps cfg pk)).buf.take
        (encodeAll buf size (packetOps cfg pk)).storage) (encodeAll buf size (packetOps cfg pk)).storage)).2.2.error = 0 ∧
    (silkCalls cfg cfg.nfpp true st (decInit ((encodeAll buf size (packetOps cfg pk)).buf.take
        (encodeAll buf size (packetOps cfg pk)).storage) (encodeAll buf size (packetOps cfg pk)).storage)).2.2.rng =
      (encRun (encInit buf size) (packetOps cfg pk)).rng ∧
    (silkCalls cfg cfg.nfpp true st (decInit ((encodeAll buf size (packetOps cfg pk)).buf.take
        (encodeAll buf size (packetOps cfg pk)).storage) (encodeAll buf size (packetOps cfg pk)).storage)).2.2.nbitsTotal =
      (encRun (encInit buf size) (packetOps cfg pk)).nbitsTotal := by
  have hlen := headerBits_length hok
  have hbits := headerBits_bits hok
  have hk1 : 1 ≤ (cfg.nfpp + 1) * cfg.nCh := by
    have := hok.nfpp; have := hok.nCh
    rcases hok.nCh with h | h <;> rw [h] <;> omega
  have hk8 : (cfg.nfpp + 1) * cfg.nCh ≤ 8 := by
    have := hok.nfpp
    rcases hok.nCh with h | h <;> rw [h] <;> omega
  have hleg := packetBody_legal hok
  have hw : bitsWord (headerBits cfg pk) 0 < 2 ^ ((cfg.nfpp + 1) * cfg.nCh) := by
    rw [← hlen]; exact bitsWord_lt _ hbits
  unfold packetOps at hnbits herr ⊢
  rw [placeholder_eq] at hnbits herr ⊢
  generalize hkk : (cfg.nfpp + 1) * cfg.nCh = k at *
  have hl : LegalRunP k (encOp (encInit buf size) (.icdf 0 (flagTable k) 8))
      (packetBody cfg pk ++ [.patchInitial (bitsWord (headerBits cfg pk) 0) k]) :=
    legalRunP_of_ic k _ hw _ _ hleg
  have k1 := decode_encode_flags_all buf size k (packetBody cfg pk ++ [.patchInitial (bitsWord (headerBits cfg pk) 0) k])
    hs hb hk1 hk8
  have k2 := k1 hl
  have k3 := k2 hnbits
  have key := k3 herr
  clear k1 k2 k3
  generalize hB : (encodeAll buf size (.icdf 0 (flagTable k) 8 ::
    (packetBody cfg pk ++ [.patchInitial (bitsWord (headerBits cfg pk) 0) k]))).buf.take
    (encodeAll buf size (.icdf 0 (flagTable k) 8 ::
    (packetBody cfg pk ++ [.patchInitial (bitsWord (headerBits cfg pk) 0) k]))).storage = B at key ⊢
  generalize hS : (encodeAll buf size (.icdf 0 (flagTable k) 8 ::
    (packetBody cfg pk ++ [.patchInitial (bitsWord (headerBits cfg pk) 0) k]))).storage = S at key ⊢
  have hbo : bitsOps (bitsWord (headerBits cfg pk) 0) k = flagOps (headerBits cfg pk) := by
    rw [← hlen]; exact bitsOps_word _ hbits
  rw [lastPatch_ic 0 _ k _ hleg, hbo] at key
  rcases key with ⟨hm, hall⟩
  rw [← reads_iff, ← List.append_assoc, reads_append] at hm
  rw [← after_eq, ← List.append_assoc, after_append, after_patch] at hall
  obtain ⟨q1, q2⟩ := silkCalls_any hok st (decInit B S) hm.1
  rw [q1, q2]
  refine ⟨?_, hall.err, hall.rc.rng_eq, hall.rc.nbits_eq⟩
  apply packetEvs_congr
  intro j hj
  obtain ⟨rest, hrest⟩ := callsPrefix_split cfg pk hj
  have hr : Reads (decInit B S) (flagOps (headerBits cfg pk) ++ ((List.range (j + 1)).map (callOps cfg pk)).flatten) := by
    have := hm.1
    rw [hrest, ← List.append_assoc, reads_append] at this
    exact this.1
  have hlk := payload_lockstep buf size B S (headerBits cfg pk) _ hbits (by rw [hlen]; exact hk1) (by rw [hlen]; exact hk8)
    (callsPrefix_legal hok hj) hr
  unfold decAt prefixOps
  rw [hkk, ← hlen]
  rw [hlk.1, hlk.2]

/-! ### The domain predicates are decidable (used for the non-vacuity examples) -/

instance (rate : Rate) (nb : Nat) (v : Bool) (cc : Nat) (ix : Indices) : Decidable (IxOk rate nb v cc ix) :=
  decidable_of_iff
    (ix.signalType ≤ 2 ∧ ix.quantOffsetType ≤ 1 ∧ v = decide (ix.signalType ≠ 0) ∧ ix.gains.length = nb ∧
     ix.gains.headD 0 < (if cc = 2 then 41 else 64) ∧ (∀ g ∈ ix.gains.tail, g < 41) ∧ ix.nlsf0 < 32 ∧
     ix.nlsfRes.length = (nlsfCB rate).order ∧ (∀ r ∈ ix.nlsfRes, -10 ≤ r ∧ r ≤ 10) ∧
     (if nb = 4 then ix.interp < 5 else ix.interp = 4) ∧
     (if ix.signalType = 2 then 0 ≤ ix.lagIndex ∧ ix.lagIndex < 16 * rate.kHz else ix.lagIndex = 0) ∧
     (if ix.signalType = 2 then ix.contourIndex < contourSyms rate nb else ix.contourIndex = 0) ∧
     (if ix.signalType = 2 then ix.perIndex < 3 else ix.perIndex = 0) ∧
     ix.ltp.length = (if ix.signalType = 2 then nb else 0) ∧ (∀ l ∈ ix.ltp, l < 8 * 2 ^ ix.perIndex) ∧
     (if ix.signalType = 2 ∧ cc = 0 then ix.ltpScale < 3 else ix.ltpScale = 0) ∧ ix.seed < 4)
    ⟨fun ⟨a, b, c, d, e, f, g, h, i, j, k, l, m, n, o, p, q⟩ => ⟨a, b, c, d, e, f, g, h, i, j, k, l, m, n, o, p, q⟩,
     fun h => ⟨h.sig, h.qoff, h.vad, h.gainsLen, h.gain0, h.gainsTail, h.nlsf0, h.resLen, h.res, h.interp, h.lag,
       h.contour, h.per, h.ltpLen, h.ltp, h.scale, h.seed⟩⟩

instance (n : Nat) (p : List Int) : Decidable (PulsesOk n p) :=
  decidable_of_iff (p.length = n ∧ ∀ q ∈ p, -127 ≤ q ∧ q ≤ 127) ⟨fun ⟨a, b⟩ => ⟨a, b⟩, fun h => ⟨h.len, h.abs⟩⟩

instance (cfg : Cfg) (c : ChanIn) : Decidable (ChanOk cfg c) :=
  decidable_of_iff
    (c.vad.length = cfg.nfpp ∧ (∀ v ∈ c.vad, v ≤ 1) ∧ c.lbrrFlags.length = cfg.nfpp ∧ (∀ v ∈ c.lbrrFlags, v ≤ 1) ∧
     (∀ i, i < cfg.nfpp → c.lbrrFlags.getD i 0 ≠ 0 →
       IxOk cfg.rate cfg.nbSubfr true (lbrrCondCoding c i) (c.lbrr.getD i default).ix ∧
       PulsesOk (frameLength cfg.rate cfg.nbSubfr) (c.lbrr.getD i default).pulses))
    ⟨fun ⟨a, b, c, d, e⟩ => ⟨a, b, c, d, e⟩, fun h => ⟨h.vadLen, h.vadBits, h.lbrrLen, h.lbrrBits, h.lbrr⟩⟩

instance (ix : List Nat) : Decidable (PredOk ix) := by unfold PredOk; infer_instance

end Opus.SilkSymsEncProofs
