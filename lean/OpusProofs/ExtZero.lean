import OpusProofs.ExtCount
/-
  All-zero padding (what `opus_packet_pad` and the encoder's CBR padding produce) carries no extensions.
-/
namespace Opus.ExtProofs
open Opus Opus.Ext

theorem bytesOk_zeros (n : Nat) : BytesOk (List.replicate n 0) := by
  intro b hb; rw [List.mem_replicate] at hb; omega

theorem skipExtension_zero (d : Array Nat) (p : Nat) (len : Int) (h0 : d[p]? = some 0) (hl : 0 < len) :
    skipExtension d p len = .ok (some (p + 1 + (len - 1).toNat, 0, 1)) := by
  unfold skipExtension
  have h1 : ¬ len = 0 := by omega
  have h2 : ¬ len < 1 := by omega
  simp only [h1, h2, if_false, h0]
  unfold skipPayload
  have h3 : ¬ (len - 1 < 0) := by omega
  simp [h3]

/-- On all-zero padding the first call of `next` reports "no more extensions". -/
theorem next_zeros (n nf : Nat) (it : Iter) (hit : iterInit (List.replicate n 0) n nf = .ok it) :
    ∃ it', next it = .ok (it', .done) := by
  obtain ⟨hI, hlen, hnf, hdata⟩ := iterInit_inv (bytesOk_zeros n) (by simp) hit
  have hcl : it.currLen = n ∧ it.repeatFrame = 0 ∧ it.currData = 0 ∧ it.currFrame = 0 ∧ it.frameMax = nf := by
    unfold iterInit at hit
    split at hit
    · simp at hit
    · split at hit
      · simp at hit
      · simp only [Res.ok.injEq] at hit; subst hit; simp
  obtain ⟨h1, h2, h3, h4, h5⟩ := hcl
  unfold next
  have a1 : ¬ it.currLen < 0 := by omega
  have a2 : ¬ 0 < it.repeatFrame := by omega
  simp only [a1, a2, if_false]
  by_cases hfm : it.frameMax ≤ it.currFrame
  · simp only [hfm, if_true]; exact ⟨_, rfl⟩
  · simp only [hfm, if_false]
    rw [mainLoop]
    by_cases hpos : 0 < it.currLen
    · simp only [hpos, if_true]
      have hn : 0 < n := by omega
      have hd0 : it.data[it.currData]? = some 0 := by
        rw [hdata, h3]; simp [hn]
      have hsk := skipExtension_zero it.data it.currData it.currLen hd0 hpos
      have hb : mainBody it = .ok (.cont { it with currData := it.currData + 1 + (it.currLen - 1).toNat, currLen := 0 }) := by
        unfold mainBody
        simp only [hd0, hsk]
        have : ¬ (((it.currData + 1 + (it.currLen - 1).toNat : Nat) : Int) ≠ it.len - 0) := by
          rw [hlen, h3, h1]; push_cast; omega
        simp only [this, if_false]
        simp
      split
      · rename_i it1 heq
        rw [hb] at heq
        simp only [Res.ok.injEq, MFlow.cont.injEq] at heq
        subst heq
        rw [mainLoop]
        simp
      all_goals (rename_i heq; rw [hb] at heq; simp at heq)
    · simp only [hpos, if_false]; exact ⟨_, rfl⟩

/-- All-zero padding of any length carries no extensions, for every frame count. -/
theorem count_zeros (n nf : Nat) (hnf : nf ≤ 48) : count (List.replicate n 0) n nf = .ok 0 := by
  obtain ⟨it, l, s, hit, hall, _, _, hc, _⟩ := scan_agree (List.replicate n 0) (bytesOk_zeros n) nf hnf
  simp only [List.length_replicate] at hit hc
  obtain ⟨it', hn⟩ := next_zeros n nf it hit
  rw [iterAll_eq, hn] at hall
  simp only [Res.ok.injEq, Prod.mk.injEq] at hall
  rw [hc, ← hall.1]; rfl

theorem parse_zeros (n nf : Nat) (hnf : nf ≤ 48) (cap : Int) (hcap : 0 ≤ cap) :
    parse (List.replicate n 0) n cap nf = .ok [] := by
  obtain ⟨it, l, s, hit, hall, _, _, _, _, _, hp, _⟩ := scan_agree (List.replicate n 0) (bytesOk_zeros n) nf hnf
  simp only [List.length_replicate] at hit hp
  obtain ⟨it', hn⟩ := next_zeros n nf it hit
  rw [iterAll_eq, hn] at hall
  simp only [Res.ok.injEq, Prod.mk.injEq] at hall
  obtain ⟨rfl, rfl⟩ := hall
  have := hp cap (by simpa using hcap)
  simpa using this

end Opus.ExtProofs
