import OpusProofs.SilkStereoMain
import OpusProofs.SilkSymsBasic
import OpusProofs.SilkSymsTables
/-
  OpusProofs.SilkStereoSym — whatever the range decoder's state, the symbol layer's `silk_stereo_decode_pred`
  (OpusModel/SilkSyms.lean) yields indices below the iCDF table sizes, hence in-range predictors.
-/
namespace OpusProofs.SilkStereoSym
open Opus Opus.RangeCoder Opus.SilkParams Opus.SilkStereo Opus.SilkSyms Opus.SilkSymsProofs Opus.SilkSymsFrozen.Icdf
open OpusProofs.SilkStereoMain

theorem zp : zeroPos silk_stereo_pred_joint_iCDF = 24 ∧ zeroPos silk_uniform3_iCDF = 2 ∧ zeroPos silk_uniform5_iCDF = 4 :=
  ⟨zp_stereoJoint, zp_uniform3, zp_uniform5⟩

theorem decode_anyG (tj t3 t5 : List Nat) (hj : zeroPos tj = 24) (ht3 : zeroPos t3 = 2) (ht5 : zeroPos t5 = 4) (c : Dec) :
    ∃ n a0 b0 a1 b1 : Nat, n < 25 ∧ a0 < 3 ∧ b0 < 5 ∧ a1 < 3 ∧ b1 < 5 ∧
      (stereoDecodePredG tj t3 t5 c).1 = stereoMk n a0 b0 a1 b1 := by
  unfold stereoDecodePredG stereoIxG
  have h1 := sym_le c tj
  rcases e1 : sym c tj with ⟨n, c1⟩
  have h2 := sym_le c1 t3
  rcases e2 : sym c1 t3 with ⟨a0, c2⟩
  have h3 := sym_le c2 t5
  rcases e3 : sym c2 t5 with ⟨b0, c3⟩
  have h4 := sym_le c3 t3
  rcases e4 : sym c3 t3 with ⟨a1, c4⟩
  have h5 := sym_le c4 t5
  rcases e5 : sym c4 t5 with ⟨b1, c5⟩
  rw [e1] at h1; rw [e2] at h2; rw [e3] at h3; rw [e4] at h4; rw [e5] at h5
  rw [hj] at h1; rw [ht3] at h2 h4; rw [ht5] at h3 h5
  simp only [e2, e3, e4, e5]
  exact ⟨n, a0, b0, a1, b1, by omega, by omega, by omega, by omega, by omega, rfl⟩

theorem decode_any (c : Dec) :
    ∃ n a0 b0 a1 b1 : Nat, n < 25 ∧ a0 < 3 ∧ b0 < 5 ∧ a1 < 3 ∧ b1 < 5 ∧
      (stereoDecodePred c).1 = stereoMk n a0 b0 a1 b1 :=
  decode_anyG _ _ _ zp.1 zp.2.1 zp.2.2 c

/-- `silk_stereo_decode_mid_only` (stereo_decode_pred.c:66-73): the flag is 0 or 1 whatever the decoder state. -/
theorem mid_only_le (c : Dec) : (stereoDecodeMidOnly c).1 ≤ 1 := by
  unfold stereoDecodeMidOnly
  have := sym_le c silk_stereo_only_code_mid_iCDF
  rw [zp_stereoMid] at this
  exact this

end OpusProofs.SilkStereoSym
