import OpusProofs.SilkStereoMain
import OpusProofs.SilkSymsBasic
import OpusProofs.SilkSymsTables
/-
  OpusProofs.SilkStereoSym — whatever the range decoder's state, the symbol layer's `silk_stereo_decode_pred`
  (OpusModel/SilkSyms.lean) yields indices below the iCDF table sizes, hence in-range predictors.
-/
namespace OpusProofs.SilkStereoSym
open Opus Opus.RangeCoder Opus.SilkParams Opus.SilkStereo Opus.SilkSyms Opus.SilkSymsProofs Opus.SilkSymsFrozen.Icdf
open OpusProofs.SilkStereoMain

theorem zp : zeroPos silk_stereo_pred_joint_iCDF = 24 ∧ zeroPos silk_uniform3_iCDF = 2 ∧ zeroPos silk_uniform5_iCDF = 4 :=
  ⟨zp_stereoJoint, zp_uniform3, zp_uniform5⟩

theorem decode_any (c : Dec) :
    ∃ n a0 b0 a1 b1 : Nat, n < 25 ∧ a0 < 3 ∧ b0 < 5 ∧ a1 < 3 ∧ b1 < 5 ∧
      (stereoDecodePred c).1 = stereoMk n a0 b0 a1 b1 := by
  unfold stereoDecodePred stereoDecodePredG stereoIxG
  have h1 := sym_le c silk_stereo_pred_joint_iCDF
  rcases e1 : sym c silk_stereo_pred_joint_iCDF with ⟨n, c1⟩
  have h2 := sym_le c1 silk_uniform3_iCDF
  rcases e2 : sym c1 silk_uniform3_iCDF with ⟨a0, c2⟩
  have h3 := sym_le c2 silk_uniform5_iCDF
  rcases e3 : sym c2 silk_uniform5_iCDF with ⟨b0, c3⟩
  have h4 := sym_le c3 silk_uniform3_iCDF
  rcases e4 : sym c3 silk_uniform3_iCDF with ⟨a1, c4⟩
  have h5 := sym_le c4 silk_uniform5_iCDF
  rcases e5 : sym c4 silk_uniform5_iCDF with ⟨b1, c5⟩
  rw [e1] at h1; rw [e2] at h2; rw [e3] at h3; rw [e4] at h4; rw [e5] at h5
  rw [zp.1] at h1; rw [zp.2.1] at h2 h4; rw [zp.2.2] at h3 h5
  simp only [e2, e3, e4, e5]
  exact ⟨n, a0, b0, a1, b1, by omega, by omega, by omega, by omega, by omega, rfl⟩

end OpusProofs.SilkStereoSym
