import OpusProofs.ExtGen
/-
  C16 helper lemmas, part 6: argument validation of `opus_packet_extensions_generate`.
-/
set_option linter.unusedVariables false
namespace Opus.ExtProofs
open Opus Opus.Ext

/-- ID or frame index outside what the API allows. -/
def BadIdFrame (nbFrames : Int) (e : Ext) : Prop :=
  e.frame < 0 ∨ nbFrames ≤ e.frame ∨ e.id < 3 ∨ 127 < e.id

theorem scanLoop_badArg (exts : Array Ext) (nbF : Int) (i : Nat) (mn mx : List Nat) :
    (∃ (j : Nat) (e : Ext), i ≤ j ∧ exts[j]? = some e ∧ BadIdFrame nbF e) →
    scanLoop exts nbF i mn mx = .err .badArg := by
  fun_induction scanLoop exts nbF i mn mx with
  | case1 i mn mx hlt hnone =>
    intro _
    have : exts.size ≤ i := by simpa using hnone
    omega
  | case2 => intro _; rfl
  | case3 => intro _; rfl
  | case4 i mn mx hlt e hsome hfr hid f ih =>
    intro ⟨j, e', hij, hj, hbad⟩
    apply ih
    refine ⟨j, e', ?_, hj, hbad⟩
    by_cases hji : j = i
    · subst hji
      rw [hsome] at hj; cases hj
      unfold BadIdFrame at hbad; omega
    · omega
  | case5 i mn mx hge =>
    intro ⟨j, e', hij, hj, _⟩
    have : j < exts.size := by
      apply Decidable.byContradiction; intro hc
      have : exts[j]? = none := by simp; omega
      rw [this] at hj; cases hj
    omega

theorem scanLoop_ok_valid (exts : Array Ext) (nbF : Int) (i : Nat) (mn mx : List Nat) :
    ∀ r, scanLoop exts nbF i mn mx = .ok r →
    ∀ (j : Nat) (e : Ext), i ≤ j → exts[j]? = some e → ¬ BadIdFrame nbF e := by
  fun_induction scanLoop exts nbF i mn mx with
  | case1 => intro r h; simp at h
  | case2 => intro r h; simp at h
  | case3 => intro r h; simp at h
  | case4 i mn mx hlt e hsome hfr hid f ih =>
    intro r h j e' hij hj
    by_cases hji : j = i
    · subst hji
      rw [hsome] at hj; cases hj
      unfold BadIdFrame; omega
    · exact ih r h j e' (by omega) hj
  | case5 i mn mx hge =>
    intro r _ j e' hij hj
    have : exts[j]? = none := by simp; omega
    rw [this] at hj; cases hj

/-- An extension with an ID outside 3..127 or a frame index outside `0..nb_frames-1` makes the
    generator return `OPUS_BAD_ARG` before anything is written; so do more than 48 frames. -/
theorem generate_badArg (dry : Bool) (len : Int) (exts : Array Ext) (nbFrames : Int) (pad : Bool)
    (hl : 0 ≤ len) (hn0 : 0 ≤ nbFrames)
    (h : 48 < nbFrames ∨ ∃ (j : Nat) (e : Ext), exts[j]? = some e ∧ BadIdFrame nbFrames e) :
    generate dry len exts nbFrames pad = .err .badArg ∧
    (nbFrames ≤ 48 → (genOps exts nbFrames.toNat).ops = []) := by
  unfold generate
  have h1 : ¬ len < 0 := by omega
  by_cases hn : 48 < nbFrames
  · simp only [h1, hn, if_false, if_true, true_and]; omega
  · rcases h with h | ⟨j, e, hj, hbad⟩
    · exact absurd h hn
    · have hs := scanLoop_badArg exts (nbFrames.toNat : Int) 0 (List.replicate nbFrames.toNat exts.size)
          (List.replicate nbFrames.toNat 0) ⟨j, e, Nat.zero_le _, hj, by
            have : ((nbFrames.toNat : Nat) : Int) = nbFrames := by omega
            rw [this]; exact hbad⟩
      have hg : genOps exts nbFrames.toNat = { ops := [], res := .err .badArg } := by
        unfold genOps
        simp only [W.bind_eq, W.bind, W.lift, hs]
      simp only [h1, hn, if_false, hg, runOps]
      exact ⟨trivial, fun _ => trivial⟩

/-- Conversely, whenever the generator succeeds every ID is in 3..127 and every frame index is
    below `nb_frames`. -/
theorem generate_ok_valid {dry : Bool} {len : Int} {exts : Array Ext} {nbFrames : Int} {pad : Bool}
    {out : Array Nat} (h : generate dry len exts nbFrames pad = .ok out) :
    nbFrames ≤ 48 ∧ ∀ (j : Nat) (e : Ext), exts[j]? = some e →
      0 ≤ e.frame ∧ e.frame < max nbFrames 0 ∧ 3 ≤ e.id ∧ e.id ≤ 127 := by
  unfold generate at h
  split at h
  · simp at h
  · split at h
    · simp at h
    · rename_i h1 h2
      refine ⟨by omega, ?_⟩
      intro j e hj
      simp only at h
      cases hs : scanLoop exts (nbFrames.toNat : Int) 0 (List.replicate nbFrames.toNat exts.size)
          (List.replicate nbFrames.toNat 0) with
      | ok r =>
        have := scanLoop_ok_valid _ _ _ _ _ r hs j e (Nat.zero_le _) hj
        unfold BadIdFrame at this
        omega
      | err er =>
        have hg : (genOps exts nbFrames.toNat).res = .err er := by
          unfold genOps; simp only [W.bind_eq, W.bind, W.lift, hs]
        rw [hg] at h
        split at h <;> simp at h
      | oob =>
        have hg : (genOps exts nbFrames.toNat).res = .oob := by
          unfold genOps; simp only [W.bind_eq, W.bind, W.lift, hs]
        rw [hg] at h
        split at h <;> simp at h
      | abort =>
        have hg : (genOps exts nbFrames.toNat).res = .abort := by
          unfold genOps; simp only [W.bind_eq, W.bind, W.lift, hs]
        rw [hg] at h
        split at h <;> simp at h

end Opus.ExtProofs
