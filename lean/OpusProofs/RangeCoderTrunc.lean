import OpusProofs.RangeCoderFlags
import OpusProofs.RangeCoderBudget
/-
  C08, frame level: what `opus_encode_frame_native` does to a SILK-only buffer after the last symbol —
  `ret = (ec_tell+7)>>3; ec_enc_done(&enc)`, and later `while(ret>2&&data[ret]==0)ret--` — leaves a
  stream the decoder reads exactly like the full buffer.

  * `decode_flags_stream`: the patched round trip (`decode_encode_flags_all`) for ANY byte stream `(B, S)`
    whose code value lies in the encoder's final interval — not only the finished buffer itself.
  * `encDone_zero_tail`: without raw bits, `ec_enc_done` writes nothing but zeros from byte
    `(ec_tell+7)>>3` on (it needs at most that many bytes: "ec_tell is a conservative count").
  * `contains_trunc`: dropping trailing zero bytes does not change the code value the decoder sees
    (it reads zeros beyond the end of the buffer).
-/
namespace Opus.RangeCoder
open Opus

/-! ### The patched round trip for an arbitrary stream in the final interval -/

theorem decode_flags_stream (buf : List Nat) (size k : Nat) (rest : List Op) (hs : size ≤ buf.length)
    (hb : BytesOk buf) (hk1 : 1 ≤ k) (hk8 : k ≤ 8)
    (hl : LegalRunP k (encOp (encInit buf size) (.icdf 0 (flagTable k) 8)) rest)
    (hnF : (encRun (encInit buf size) (.icdf 0 (flagTable k) 8 :: rest)).nbitsTotal < 4294967296)
    (herrF : (encRun (encInit buf size) (.icdf 0 (flagTable k) 8 :: rest)).error = 0)
    (B : List Nat) (S : Nat) (hB : BytesOk B) (hS : 0 < S) (hBl : 0 < B.length)
    (hc : Contains B S (encRun (encInit buf size) (.icdf 0 (flagTable k) 8 :: rest)))
    (hr : RawC B S (encRun (encInit buf size) (.icdf 0 (flagTable k) 8 :: rest))) :
    MatchAll (bitsOps (lastPatch 0 rest) k ++ rest)
      (decRun (decInit B S) (bitsOps (lastPatch 0 rest) k ++ rest)).1 ∧
    DecAll B S (encRun (encInit buf size) (.icdf 0 (flagTable k) 8 :: rest))
      (decRun (decInit B S) (bitsOps (lastPatch 0 rest) k ++ rest)).2 B := by
  simp only [encRun] at hnF herrF hc hr ⊢
  rw [flag_placeholder_eq buf size k hk1 hk8] at hl hnF herrF hc hr ⊢
  have hfl : 0 < 2 ^ k := Nat.pow_pos (by decide)
  generalize he1 : encOp (encInit buf size) (.encodeBin 0 (0 + 1) k) = e1 at *
  have herr1 : e1.error = 0 := by
    apply Classical.byContradiction; intro hne
    exact encRun_error_mono rest _ hne herrF
  have hn1' : e1.nbitsTotal < 4294967296 := Nat.lt_of_le_of_lt (encRun_nbits_mono rest _) hnF
  have ri0 := runInv_encInit buf size hs hb
  have hleg : (Op.encodeBin 0 (0 + 1) k).LegalAt (encInit buf size) :=
    ⟨by omega, by omega, hk1, by omega⟩
  have ri1 : RunInv e1 := by
    rw [← he1]; exact (step_op _ _ ri0 hleg (by rw [he1]; exact hn1') (by rw [he1]; exact herr1)).run
  have hcell1 : Cell k 0 e1 := by
    rw [← he1]; exact cell_first buf size k 0 hs hb hk1 hk8 hfl (by rw [he1]; exact hn1') (by rw [he1]; exact herr1)
  obtain ⟨_, riF, cellF, b3, b4⟩ := run_backP k rest e1 0 ri1 hcell1 hl hnF herrF
  generalize hw : lastPatch 0 rest = w at *
  have hby : ∀ i, byteAt B S i < 256 := fun i => byteAt_lt_bytesOk hB S i
  have hself := setTop_self B S k w (encRun e1 rest) hS hby hc cellF
  have hc1 := b3 B S hS hBl hby (by rw [hself]; exact hc)
  obtain ⟨m0, a0⟩ := flags_first B hB S hS hBl buf size k 0 w hs hb hk1 hk8 hfl cellF.t_lt hself
    (by rw [he1]; exact hn1') (by rw [he1]; exact herr1) (by rw [he1]; exact hc1)
  rw [he1] at a0
  obtain ⟨m1, a1⟩ := run_decodeP k B hB S hS hBl rest e1 _ 0 ri1 hcell1 hl a0 hnF herrF
    (by rw [hw, hself]; exact hc) hr
  rw [hw, hself] at a1
  rw [decRun_append]
  exact ⟨matchAll_append m0 m1, a1⟩

/-! ### Bit accounting along a patched run -/

theorem acct_runP (n : Nat) (ops : List Op) : ∀ (c : Enc) (t : Nat), RunInv c → Cell n t c → Acct c →
    LegalRunP n c ops → (encRun c ops).nbitsTotal < 4294967296 → (encRun c ops).error = 0 →
    Acct (encRun c ops) := by
  induction ops with
  | nil => intro c t _ _ ac _ _ _; exact ac
  | cons op ops ih =>
    intro c t ri hcell ac hl hn herr
    have herr1 : (encOp c op).error = 0 := by
      apply Classical.byContradiction; intro hne
      exact encRun_error_mono ops _ hne herr
    have hn1 : (encOp c op).nbitsTotal < 4294967296 :=
      Nat.lt_of_le_of_lt (encRun_nbits_mono ops _) hn
    obtain ⟨_, ri1, cell1, _, _, _⟩ := stepP n t c op ri hcell hl.1 hn1 herr1
    have ac1 : Acct (encOp c op) := by
      by_cases hp : op.LegalAt c
      · exact acct_op c op ri ac hp hn1 herr1
      · cases op with
        | patchInitial v k =>
          obtain ⟨rfl, hv⟩ : k = n ∧ v < 2 ^ n := hl.1
          obtain ⟨_, _, _, pm, _, pn, _, _, pr, _⟩ := patch_spec c k t v ri hcell hv
          unfold Acct at ac ⊢
          show (encPatchInitialBits c v k).nbitsTotal = 33 + 8 * encM (encPatchInitialBits c v k) + rawN (encPatchInitialBits c v k)
          rw [pm, pn, pr]; exact ac
        | _ => exact absurd hl.1 hp
    exact ih _ _ ri1 cell1 ac1 hl.2 hn herr

/-! ### Runs without raw bits -/

/-- Operations that neither touch the raw-bit end of the buffer nor its size: what SILK uses (`ec_enc_icdf`, the
    header patch) and the redundancy signalling of `opus_encode` (`ec_enc_bit_logp`, `ec_enc_uint(·, 256)`). -/
def NoRawOp : Op → Prop
  | .icdf _ _ _ => True
  | .patchInitial _ _ => True
  | .bitLogp _ _ => True
  | .uint _ ft => ft = 256
  | _ => False

theorem writeByte_rawFields (c : Enc) (v : Nat) :
    (writeByte c v).endOffs = c.endOffs ∧ (writeByte c v).nendBits = c.nendBits ∧ (writeByte c v).storage = c.storage := by
  unfold writeByte; split <;> exact ⟨rfl, rfl, rfl⟩

theorem noRaw_op (c : Enc) (op : Op) (h : NoRawOp op) :
    (encOp c op).endOffs = c.endOffs ∧ (encOp c op).nendBits = c.nendBits ∧ (encOp c op).storage = c.storage := by
  cases op with
  | icdf s tbl ftb =>
    show (encIcdf c s tbl ftb).endOffs = _ ∧ (encIcdf c s tbl ftb).nendBits = _ ∧ (encIcdf c s tbl ftb).storage = _
    unfold encIcdf
    apply encNormalize_pres (fun x => x.endOffs = c.endOffs ∧ x.nendBits = c.nendBits ∧ x.storage = c.storage)
    · intro x v hx; have := writeByte_rawFields x v
      exact ⟨this.1.trans hx.1, this.2.1.trans hx.2.1, this.2.2.trans hx.2.2⟩
    · intro x n hx; exact hx
    · intro x r hx; exact hx
    · intro x v r n hx; exact hx
    · split <;> exact ⟨rfl, rfl, rfl⟩
  | patchInitial v n =>
    show (encPatchInitialBits c v n).endOffs = _ ∧ (encPatchInitialBits c v n).nendBits = _ ∧
      (encPatchInitialBits c v n).storage = _
    unfold encPatchInitialBits
    simp only
    split
    · exact ⟨rfl, rfl, rfl⟩
    · split
      · exact ⟨rfl, rfl, rfl⟩
      · split
        · exact ⟨rfl, rfl, rfl⟩
        · split <;> exact ⟨rfl, rfl, rfl⟩
  | bitLogp v logp =>
    show (encBitLogp c v logp).endOffs = _ ∧ (encBitLogp c v logp).nendBits = _ ∧ (encBitLogp c v logp).storage = _
    unfold encBitLogp
    apply encNormalize_pres (fun x => x.endOffs = c.endOffs ∧ x.nendBits = c.nendBits ∧ x.storage = c.storage)
    · intro x v hx; have := writeByte_rawFields x v
      exact ⟨this.1.trans hx.1, this.2.1.trans hx.2.1, this.2.2.trans hx.2.2⟩
    · intro x n hx; exact hx
    · intro x r hx; exact hx
    · intro x v r n hx; exact hx
    · split <;> exact ⟨rfl, rfl, rfl⟩
  | uint v ft =>
    have hft : ft = 256 := h
    subst hft
    show (encUint c v 256).endOffs = _ ∧ (encUint c v 256).nendBits = _ ∧ (encUint c v 256).storage = _
    have hil : ilog (256 - 1) = 8 := by decide
    unfold encUint
    simp only [hil, Nat.lt_irrefl, gt_iff_lt, if_false]
    unfold encode
    apply encNormalize_pres (fun x => x.endOffs = c.endOffs ∧ x.nendBits = c.nendBits ∧ x.storage = c.storage)
    · intro x v hx; have := writeByte_rawFields x v
      exact ⟨this.1.trans hx.1, this.2.1.trans hx.2.1, this.2.2.trans hx.2.2⟩
    · intro x n hx; exact hx
    · intro x r hx; exact hx
    · intro x v r n hx; exact hx
    · split <;> exact ⟨rfl, rfl, rfl⟩
  | _ => exact absurd h (by simp [NoRawOp])

theorem noRaw_run (ops : List Op) : ∀ (c : Enc), (∀ op ∈ ops, NoRawOp op) →
    (encRun c ops).endOffs = c.endOffs ∧ (encRun c ops).nendBits = c.nendBits ∧ (encRun c ops).storage = c.storage := by
  induction ops with
  | nil => intro c _; exact ⟨rfl, rfl, rfl⟩
  | cons op ops ih =>
    intro c h
    have h1 := noRaw_op c op (h op (List.mem_cons_self ..))
    have h2 := ih (encOp c op) (fun o ho => h o (List.mem_cons_of_mem _ ho))
    exact ⟨h2.1.trans h1.1, h2.2.1.trans h1.2.1, h2.2.2.trans h1.2.2⟩

/-! ### `ec_enc_done` needs at most `(ec_tell+7)>>3` bytes -/

theorem encDoneFlush_zero (c : Enc) (w : Nat) : encDoneFlush c w 0 = (c, w, 0) := by
  rw [encDoneFlush, dif_neg (by decide)]

/-- Without raw bits, everything `ec_enc_done` leaves from byte `(ec_tell+7)>>3` on is zero. -/
theorem encDone_zero_tail (c : Enc) (inv : EncInv c) (ac : Acct c) (h0 : c.endOffs = 0) (h1 : c.nendBits = 0)
    (hn : c.nbitsTotal < 4294967296) (herr : (encDone c).error = 0) (i : Nat)
    (hi : tell c + 7 < 8 * (i + 1)) (his : i < c.storage) : (encDone c).buf.getD i 0 = 0 := by
  rw [encDone_eq'] at herr ⊢
  have herr2 : (doneRange c).1.error = 0 := by
    apply Classical.byContradiction; intro hne
    exact doneRaw_error_mono _ _ hne herr
  obtain ⟨l0, T, hl1, hT, hil, hbits, e0, wf2, ho, sr, hdrop, hz, hcont⟩ := doneRange_spec c inv hn herr2
  obtain ⟨s1, s2, s3, s4, s5, s6⟩ := sr
  generalize (doneRange c).1 = c2 at *
  generalize (doneRange c).2 = l1 at *
  unfold doneRaw at herr ⊢
  rw [s4, h1, encDoneFlush_zero] at herr ⊢
  simp only at herr ⊢
  obtain ⟨e3, hcm, _⟩ := encDoneTail_ok c2 l1 c2.endWindow 0 herr
  rw [hcm rfl, clearMiddle_getD c2 wf2.offs_le wf2.storage_le i, s2, h0, s1]
  have hoffs : c2.offs ≤ i := by
    unfold Acct rawN at ac
    unfold tell at hi
    rw [h0, h1] at ac
    omega
  rw [if_pos ⟨hoffs, by omega⟩]

/-! ### Dropping trailing zeros -/

theorem byteAt_trunc (B : List Nat) (S L : Nat) (hL : L ≤ S) (hz : ∀ i, L ≤ i → i < S → B.getD i 0 = 0) (i : Nat) :
    byteAt (B.take L) L i = byteAt B S i := by
  unfold byteAt
  by_cases h1 : i < L
  · rw [if_pos h1, if_pos (by omega)]
    simp only [List.getD_eq_getElem?_getD, List.getElem?_take, h1, if_true]
  · rw [if_neg h1]
    by_cases h2 : i < S
    · rw [if_pos h2, hz i (by omega) h2]
    · rw [if_neg h2]

theorem contains_trunc (B : List Nat) (S L : Nat) (c : Enc) (hL : L ≤ S)
    (hz : ∀ i, L ≤ i → i < S → B.getD i 0 = 0) (h : Contains B S c) : Contains (B.take L) L c := by
  unfold Contains at h ⊢
  rw [codeVal_congr (B' := B) (S' := S) _ (fun i _ => byteAt_trunc B S L hL hz i)]
  exact h

/-- Without raw bits the raw-bit half of the invariant holds for every stream. -/
theorem rawC_noRaw (B B' : List Nat) (S S' : Nat) (c : Enc) (h0 : c.endOffs = 0) (h1 : c.nendBits = 0)
    (h : RawC B S c) : RawC B' S' c := by
  unfold RawC rawN at h ⊢
  rw [h0, h1] at h ⊢
  simp only [Nat.mul_zero, Nat.add_zero, Nat.pow_zero, Nat.mod_one] at h ⊢
  exact h

end Opus.RangeCoder
