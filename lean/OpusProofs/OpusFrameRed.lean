import OpusProofs.OpusFrameSilk
import OpusProofs.RangeCoderStream
/-
  C08, frame level (2) and (3): Opus frames in which something follows the SILK payload on the main coder —
  the redundancy signalling, and in hybrid mode the CELT part — and a 5 ms redundancy frame may follow the
  main part in the frame.

  `frame_prefix_decode` is the common core: on ANY byte stream whose code value lies in the encoder's final
  interval, C03's SILK decoder returns what was encoded, then reads the signalling symbols `sig` back, and is
  then in lock step (invariant D: same rng, same ec_tell, val = top − code, error 0) with the encoder state
  at that point — the hand-over to the CELT part.
-/
namespace Opus.OpusFrameProofs
open Opus Opus.RangeCoder Opus.SilkSyms Opus.SilkSymsEnc Opus.SilkSymsEncProofs Opus.OpusFrameEnc

theorem frame_prefix_decode (buf : List Nat) (size : Nat) (cfg : Cfg) (pk : PacketIn) (st : SilkSt) (sig suf : List Op)
    (hs : size ≤ buf.length) (hb : BytesOk buf) (hok : PacketOk cfg pk)
    (hsig : LegalRun (encRun (encInit buf size) (packetOps cfg pk)) sig)
    (hsuf : LegalRun (encRun (encInit buf size) (packetOps cfg pk ++ sig)) suf)
    (hnF : (encRun (encInit buf size) (packetOps cfg pk ++ sig ++ suf)).nbitsTotal < 4294967296)
    (herrF : (encRun (encInit buf size) (packetOps cfg pk ++ sig ++ suf)).error = 0)
    (B : List Nat) (S : Nat) (hB : BytesOk B) (hS : 0 < S) (hBl : 0 < B.length)
    (hc : Contains B S (encRun (encInit buf size) (packetOps cfg pk ++ sig ++ suf)))
    (hr : RawC B S (encRun (encInit buf size) (packetOps cfg pk ++ sig))) :
    (silkCalls cfg cfg.nfpp true st (decInit B S)).1 =
      packetEvs cfg pk (fun j => ((encRun (encInit buf size) (prefixOps cfg pk j)).rng,
        tell (encRun (encInit buf size) (prefixOps cfg pk j)))) ∧
    (silkCalls cfg cfg.nfpp true st (decInit B S)).2.2.rng = (encRun (encInit buf size) (packetOps cfg pk)).rng ∧
    tell (silkCalls cfg cfg.nfpp true st (decInit B S)).2.2 = tell (encRun (encInit buf size) (packetOps cfg pk)) ∧
    Reads (silkCalls cfg cfg.nfpp true st (decInit B S)).2.2 sig ∧
    DecAll B S (encRun (encInit buf size) (packetOps cfg pk ++ sig))
      (after (silkCalls cfg cfg.nfpp true st (decInit B S)).2.2 sig) B := by
  have hlen := headerBits_length hok
  have hbits := headerBits_bits hok
  have hk1 : 1 ≤ (cfg.nfpp + 1) * cfg.nCh := by
    have := hok.nfpp
    rcases hok.nCh with h | h <;> rw [h] <;> omega
  have hk8 : (cfg.nfpp + 1) * cfg.nCh ≤ 8 := by
    have := hok.nfpp
    rcases hok.nCh with h | h <;> rw [h] <;> omega
  have hleg := packetBody_legal hok
  have hw : bitsWord (headerBits cfg pk) 0 < 2 ^ ((cfg.nfpp + 1) * cfg.nCh) := by
    rw [← hlen]; exact bitsWord_lt _ hbits
  unfold packetOps at hsig hsuf hnF herrF hc hr ⊢
  rw [placeholder_eq] at hsig hsuf hnF herrF hc hr ⊢
  generalize hkk : (cfg.nfpp + 1) * cfg.nCh = k at *
  generalize hword : bitsWord (headerBits cfg pk) 0 = word at *
  -- normal form: placeholder :: (pre ++ suf) with pre = body ++ [patch] ++ sig
  have eq1 : (Op.icdf 0 (flagTable k) 8 :: (packetBody cfg pk ++ [Op.patchInitial word k])) ++ sig =
      Op.icdf 0 (flagTable k) 8 :: (packetBody cfg pk ++ [Op.patchInitial word k] ++ sig) := by
    simp only [List.cons_append]
  have eq2 : (Op.icdf 0 (flagTable k) 8 :: (packetBody cfg pk ++ [Op.patchInitial word k])) ++ sig ++ suf =
      Op.icdf 0 (flagTable k) 8 :: (packetBody cfg pk ++ [Op.patchInitial word k] ++ sig ++ suf) := by
    simp only [List.cons_append, List.append_assoc]
  rw [eq1] at hsuf hr ⊢
  rw [eq2] at hnF herrF hc
  have hl0 : LegalRunP k (encOp (encInit buf size) (.icdf 0 (flagTable k) 8))
      (packetBody cfg pk ++ [.patchInitial word k]) := legalRunP_of_ic k _ hw _ _ hleg
  have hl : LegalRunP k (encOp (encInit buf size) (.icdf 0 (flagTable k) 8))
      (packetBody cfg pk ++ [.patchInitial word k] ++ sig) := by
    rw [legalRunP_append]
    exact ⟨hl0, legalRunP_of_legalRun k sig _ hsig⟩
  have k0 := decode_flags_prefix_stream buf size k (packetBody cfg pk ++ [.patchInitial word k] ++ sig) suf
    hs hb hk1 hk8
  have k1 := k0 hl
  have k2 := k1 hsuf
  have k3 := k2 hnF
  have k4 := k3 herrF
  have k5 := k4 B S hB hS hBl
  have k6 := k5 hc
  have key := k6 hr
  clear k0 k1 k2 k3 k4 k5 k6
  have hbo : bitsOps word k = flagOps (headerBits cfg pk) := by
    rw [← hword, ← hlen]; exact bitsOps_word _ hbits
  have hlp : lastPatch 0 (packetBody cfg pk ++ [.patchInitial word k] ++ sig) = word := by
    rw [lastPatch_append, lastPatch_ic 0 _ k _ hleg, lastPatch_legalRun word sig _ hsig]
  rw [hlp, hbo] at key
  rcases key with ⟨hm, hall⟩
  rw [← reads_iff] at hm
  have hm' : Reads (decInit B S) ((flagOps (headerBits cfg pk) ++ packetBody cfg pk) ++ ([Op.patchInitial word k] ++ sig)) := by
    have e : flagOps (headerBits cfg pk) ++ (packetBody cfg pk ++ [Op.patchInitial word k] ++ sig) =
        (flagOps (headerBits cfg pk) ++ packetBody cfg pk) ++ ([Op.patchInitial word k] ++ sig) := by
      simp only [List.append_assoc]
    rw [← e]; exact hm
  rw [reads_append] at hm'
  obtain ⟨hmA, hmB⟩ := hm'
  have hmS : Reads (after (decInit B S) (flagOps (headerBits cfg pk) ++ packetBody cfg pk)) sig := hmB.2
  have hafter : (decRun (decInit B S) (flagOps (headerBits cfg pk) ++ (packetBody cfg pk ++ [Op.patchInitial word k] ++ sig))).2 =
      after (after (decInit B S) (flagOps (headerBits cfg pk) ++ packetBody cfg pk)) sig := by
    rw [← after_eq]
    have e : flagOps (headerBits cfg pk) ++ (packetBody cfg pk ++ [Op.patchInitial word k] ++ sig) =
        (flagOps (headerBits cfg pk) ++ packetBody cfg pk) ++ ([Op.patchInitial word k] ++ sig) := by
      simp only [List.append_assoc]
    rw [e, after_append, List.singleton_append, after_cons, after_patch]
  rw [hafter] at hall
  obtain ⟨q1, q2⟩ := silkCalls_any hok st (decInit B S) hmA
  rw [q1, q2]
  have hlkB := payload_lockstep buf size B S (headerBits cfg pk) (packetBody cfg pk) hbits (by rw [hlen]; exact hk1)
    (by rw [hlen]; exact hk8) hleg hmA
  rw [hlen, placeholder_eq] at hlkB
  have hpr : (encRun (encInit buf size) (Op.icdf 0 (flagTable k) 8 :: (packetBody cfg pk ++ [Op.patchInitial word k]))).rng =
        (encRun (encInit buf size) (Op.icdf 0 (flagTable k) 8 :: packetBody cfg pk)).rng ∧
      (encRun (encInit buf size) (Op.icdf 0 (flagTable k) 8 :: (packetBody cfg pk ++ [Op.patchInitial word k]))).nbitsTotal =
        (encRun (encInit buf size) (Op.icdf 0 (flagTable k) 8 :: packetBody cfg pk)).nbitsTotal := by
    have e : Op.icdf 0 (flagTable k) 8 :: (packetBody cfg pk ++ [Op.patchInitial word k]) =
        (Op.icdf 0 (flagTable k) 8 :: packetBody cfg pk) ++ [Op.patchInitial word k] := rfl
    rw [e, encRun_append]
    exact patch_rn _ _ _
  refine ⟨?_, by rw [hlkB.1, hpr.1], by rw [hlkB.2]; exact (tell_congr hpr.1 hpr.2).symm, hmS, hall⟩
  apply packetEvs_congr
  intro j hj
  obtain ⟨rest, hrest⟩ := callsPrefix_split cfg pk hj
  have hr' : Reads (decInit B S) (flagOps (headerBits cfg pk) ++ ((List.range (j + 1)).map (callOps cfg pk)).flatten) := by
    have := hmA
    rw [hrest, ← List.append_assoc, reads_append] at this
    exact this.1
  have hlk := payload_lockstep buf size B S (headerBits cfg pk) _ hbits (by rw [hlen]; exact hk1) (by rw [hlen]; exact hk8)
    (callsPrefix_legal hok hj) hr'
  unfold decAt prefixOps
  rw [hkk, ← hlen]
  rw [hlk.1, hlk.2]

/-- The SILK payload followed by `sig` leaves no raw bits and does not resize the buffer; bit accounting holds. -/
theorem sig_run_facts (buf : List Nat) (size : Nat) (cfg : Cfg) (pk : PacketIn) (sig : List Op) (hs : size ≤ buf.length)
    (hb : BytesOk buf) (hok : PacketOk cfg pk) (hsigN : ∀ op ∈ sig, NoRawOp op)
    (hsig : LegalRun (encRun (encInit buf size) (packetOps cfg pk)) sig)
    (hnF : (encRun (encInit buf size) (packetOps cfg pk ++ sig)).nbitsTotal < 4294967296)
    (herrF : (encRun (encInit buf size) (packetOps cfg pk ++ sig)).error = 0) :
    RunInv (encRun (encInit buf size) (packetOps cfg pk ++ sig)) ∧
    Acct (encRun (encInit buf size) (packetOps cfg pk ++ sig)) ∧
    (encRun (encInit buf size) (packetOps cfg pk ++ sig)).endOffs = 0 ∧
    (encRun (encInit buf size) (packetOps cfg pk ++ sig)).nendBits = 0 ∧
    (encRun (encInit buf size) (packetOps cfg pk ++ sig)).storage = size := by
  rw [encRun_append] at hnF herrF ⊢
  have herrP : (encRun (encInit buf size) (packetOps cfg pk)).error = 0 := by
    apply Classical.byContradiction; intro hne
    exact encRun_error_mono sig _ hne herrF
  have hnP : (encRun (encInit buf size) (packetOps cfg pk)).nbitsTotal < 4294967296 :=
    Nat.lt_of_le_of_lt (encRun_nbits_mono sig _) hnF
  obtain ⟨riP, acP, p0, p1, p2⟩ := packet_run_facts buf size cfg pk hs hb hok hnP herrP
  obtain ⟨acF, riF⟩ := acct_run sig _ riP acP hsig hnF herrF
  obtain ⟨n1, n2, n3⟩ := noRaw_run sig (encRun (encInit buf size) (packetOps cfg pk)) hsigN
  exact ⟨riF, acF, n1.trans p0, n2.trans p1, n3.trans p2⟩

theorem getD_take_append (a R : List Nat) (n i : Nat) (hn : n ≤ a.length) (hi : i < n) :
    (a.take n ++ R).getD i 0 = a.getD i 0 := by
  have hl : (a.take n).length = n := by rw [List.length_take]; omega
  simp only [List.getD_eq_getElem?_getD]
  rw [List.getElem?_append_left (by omega), List.getElem?_take, if_pos hi]

theorem drop_take_append (a R : List Nat) (n : Nat) (hn : n ≤ a.length) : (a.take n ++ R).drop n = R := by
  have hl : (a.take n).length = n := by rw [List.length_take]; omega
  rw [List.drop_append, hl, Nat.sub_self, List.drop_zero, List.drop_eq_nil_of_le (by omega), List.nil_append]

/-- The redundancy parse of a SILK-only frame (opus_decoder.c:471-499) when the length test passes and the
    `celt_to_silk` bit reads back: redundancy is inferred, the byte count is what the frame length leaves. -/
theorem redundancyHeader_silk (len : Nat) (c1 : Dec) (c2s rb : Nat) (hc2s : c2s ≤ 1)
    (hgate : tell c1 + 17 ≤ 8 * (len : Int)) (hread : Reads c1 [Op.bitLogp c2s 1])
    (htell : (len : Int) - (tell (after c1 [Op.bitLogp c2s 1]) + 7) / 8 = (rb : Int)) :
    redundancyHeader 1000 false (len : Int) c1 =
      (1, c2s, rb, (len : Int) - rb,
       { after c1 [Op.bitLogp c2s 1] with storage := (after c1 [Op.bitLogp c2s 1]).storage - rb }) := by
  have hg : ¬ (false = true) ∧ tell c1 + 17 + (if (1000 : Nat) = 1001 then 20 else 0) ≤ 8 * (len : Int) := by
    refine ⟨by decide, ?_⟩
    rw [if_neg (by decide)]; omega
  rw [redundancyHeader, if_pos hg, if_neg (by decide), redundancyBlock]
  split
  rename_i cs c1' hb1
  rw [bit_spec hc2s hread] at hb1
  obtain ⟨rfl, rfl⟩ := Prod.mk.inj hb1
  split
  rename_i rb' c2 hb2
  rw [redundancyBytes, if_neg (by decide), htell] at hb2
  obtain ⟨rfl, rfl⟩ := Prod.mk.inj hb2
  have hsane : ¬ (((len : Int) - (rb : Int)) * 8 < tell (after c1 [Op.bitLogp c2s 1])) := by omega
  rw [if_neg hsane, Int.toNat_natCast]

/-- (2) SILK-only Opus frame WITH redundancy. -/
theorem opus_frame_lockstep_silk_red_all (buf : List Nat) (maxData bandwidth nCh ms10 spf48 : Nat) (pk : PacketIn) (st : SilkSt)
    (c2s : Nat) (R : Bytes) (rr : Nat)
    (hbw : bandwidth = 1101 ∨ bandwidth = 1102 ∨ bandwidth = 1103)
    (hms : ms10 = 100 ∨ ms10 = 200 ∨ ms10 = 400 ∨ ms10 = 600)
    (hs : maxData - 1 ≤ buf.length) (hb : BytesOk buf) (hok : PacketOk (silkCfg bandwidth nCh ms10) pk)
    (hc2s : c2s ≤ 1) (hR : BytesOk R)
    (hn : (encodeAll buf (maxData - 1) (packetOps (silkCfg bandwidth nCh ms10) pk ++ redSigOps false true 1 c2s R.length)).nbitsTotal < 4294967296)
    (herr : (encodeAll buf (maxData - 1) (packetOps (silkCfg bandwidth nCh ms10) pk ++ redSigOps false true 1 c2s R.length)).error = 0)
    (hfit : tell (encRun (encInit buf (maxData - 1)) (packetOps (silkCfg bandwidth nCh ms10) pk ++ redSigOps false true 1 c2s R.length)) ≤
      8 * ((maxData - 1 : Nat) : Int))
    (hgate : tell (encRun (encInit buf (maxData - 1)) (packetOps (silkCfg bandwidth nCh ms10) pk)) + 17 ≤
      8 * (((tell (encRun (encInit buf (maxData - 1)) (packetOps (silkCfg bandwidth nCh ms10) pk ++ redSigOps false true 1 c2s R.length)) + 7) / 8) +
        (R.length : Int)))
    (hred : CeltFrameRT { start := 0, end_ := CeltSyms.endBandOf bandwidth, C := nCh, LM := 1 } R.length (decInit R R.length) rr) :
    ∃ o, decodeOpusFrame 1000 bandwidth nCh ms10 false st
        (silkRedFrame buf maxData (silkCfg bandwidth nCh ms10) pk c2s R rr).payload = .ok o ∧
      o.redundancy = 1 ∧ o.celtToSilk = c2s ∧ o.redundancyBytes = R.length ∧ o.dec.error = 0 ∧
      o.dec.rng = (encRun (encInit buf (maxData - 1)) (packetOps (silkCfg bandwidth nCh ms10) pk ++ redSigOps false true 1 c2s R.length)).rng ∧
      o.evs = packetEvs (silkCfg bandwidth nCh ms10) pk (fun j =>
        ((encRun (encInit buf (maxData - 1)) (prefixOps (silkCfg bandwidth nCh ms10) pk j)).rng,
         tell (encRun (encInit buf (maxData - 1)) (prefixOps (silkCfg bandwidth nCh ms10) pk j)))) ∧
      decRangeFinal 1000 bandwidth nCh spf48 (silkRedFrame buf maxData (silkCfg bandwidth nCh ms10) pk c2s R rr).payload o =
        .ok (silkRedFrame buf maxData (silkCfg bandwidth nCh ms10) pk c2s R rr).rangeFinal := by
  generalize hcfg : silkCfg bandwidth nCh ms10 = cfg at *
  generalize hsz : maxData - 1 = size at *
  have hsigE : redSigOps false true 1 c2s R.length = [Op.bitLogp c2s 1] := by
    unfold redSigOps; simp
  rw [hsigE] at hn herr hfit hgate ⊢
  have hframeE : silkRedFrame buf maxData cfg pk c2s R rr =
      { payload := (encDone (encRun (encInit buf size) (packetOps cfg pk ++ [Op.bitLogp c2s 1]))).buf.take
          ((tell (encRun (encInit buf size) (packetOps cfg pk ++ [Op.bitLogp c2s 1])) + 7) / 8).toNat ++ R,
        rangeFinal := (encDone (encRun (encInit buf size) (packetOps cfg pk ++ [Op.bitLogp c2s 1]))).rng ^^^ rr } := by
    unfold silkRedFrame; rw [hsigE, hsz]
  rw [hframeE]
  unfold encodeAll at hn herr
  have hnF : (encRun (encInit buf size) (packetOps cfg pk ++ [Op.bitLogp c2s 1])).nbitsTotal < 4294967296 := by
    rw [encDone_nbitsTotal] at hn; exact hn
  have herrF : (encRun (encInit buf size) (packetOps cfg pk ++ [Op.bitLogp c2s 1])).error = 0 := by
    apply Classical.byContradiction; intro hne
    exact encDone_error_mono _ hne herr
  have hsigL : LegalRun (encRun (encInit buf size) (packetOps cfg pk)) [Op.bitLogp c2s 1] :=
    ⟨⟨by decide, by decide⟩, trivial⟩
  have hsigN : ∀ op ∈ [Op.bitLogp c2s 1], NoRawOp op := by
    intro op hop; rw [List.mem_singleton] at hop; rw [hop]; trivial
  obtain ⟨riF, acF, h0, h1, hsto⟩ := sig_run_facts buf size cfg pk [Op.bitLogp c2s 1] hs hb hok hsigN hsigL hnF herrF
  obtain ⟨_, d1, d2, d3, d4, d5⟩ := encDone_spec _ riF.inv riF.raw riF.bytes hnF herr
  obtain ⟨n, hn1, hn2, hext⟩ := encDone_contains_ext _ riF.inv riF.raw riF.bytes hnF herr
  have hrngD := encDone_rng (encRun (encInit buf size) (packetOps cfg pk ++ [Op.bitLogp c2s 1]))
  have hwf := riF.inv.wf.storage_le
  have hil : ilog (encRun (encInit buf size) (packetOps cfg pk ++ [Op.bitLogp c2s 1])).rng ≤ 32 :=
    ilog_le_32 ⟨riF.inv.rng_lo, riF.inv.rng_hi⟩
  generalize he1 : encRun (encInit buf size) (packetOps cfg pk ++ [Op.bitLogp c2s 1]) = e1 at *
  generalize heD : encDone e1 = eD at *
  rw [hsto] at hn1 hext hwf d5
  have htell1 : 1 ≤ tell e1 := by
    unfold Acct rawN at acF
    rw [h0, h1] at acF
    unfold tell; omega
  generalize hret : ((tell e1 + 7) / 8).toNat = ret at *
  have hretI : (tell e1 + 7) / 8 = (ret : Int) := by omega
  rw [hretI] at hgate
  have hretS : ret ≤ size := by omega
  have hnret : n ≤ ret := by
    unfold Acct rawN at acF
    rw [h0, h1] at acF
    unfold tell at hretI
    omega
  have hretL : ret ≤ eD.buf.length := by rw [d2]; omega
  -- the stream the decoder gets: main part followed by the redundancy frame
  have hlenB : (eD.buf.take ret ++ R).length = ret + R.length := by
    rw [List.length_append, List.length_take]; omega
  have hBok : BytesOk (eD.buf.take ret ++ R) := by
    intro b hb'
    rcases List.mem_append.mp hb' with h | h
    · exact d3 b (List.mem_of_mem_take h)
    · exact hR b h
  have hag : ∀ i, i < n → byteAt (eD.buf.take ret ++ R) (ret + R.length) i = byteAt eD.buf size i := by
    intro i hi
    unfold byteAt
    rw [if_pos (by omega), if_pos (by omega)]
    exact getD_take_append eD.buf R ret i hretL (by omega)
  have hc := hext (eD.buf.take ret ++ R) (ret + R.length) (fun i => byteAt_lt_bytesOk hBok _ i) hag
  have hr := rawC_noRaw eD.buf (eD.buf.take ret ++ R) size (ret + R.length) e1 h0 h1 d5
  have hpos : 0 < ret + R.length := by omega
  obtain ⟨r1, r2, r3, r4, r5⟩ := frame_prefix_decode buf size cfg pk st [Op.bitLogp c2s 1] [] hs hb hok hsigL trivial
    (by rw [List.append_nil, he1]; exact hnF) (by rw [List.append_nil, he1]; exact herrF)
    (eD.buf.take ret ++ R) (ret + R.length) hBok hpos (by rw [hlenB]; exact hpos)
    (by rw [List.append_nil, he1]; exact hc) (by rw [he1]; exact hr)
  rw [he1] at r5
  -- the decoder
  rw [← hcfg, decodeOpusFrame_silk bandwidth nCh ms10 hbw hms, hcfg]
  refine ⟨_, rfl, ?_⟩
  rw [decodeOpusFrameCfg, hlenB]
  split
  rename_i evs st1 c1 hcalls
  have e1' : evs = (silkCalls cfg cfg.nfpp true st (decInit (eD.buf.take ret ++ R) (ret + R.length))).1 := by rw [hcalls]
  have e2' : c1 = (silkCalls cfg cfg.nfpp true st (decInit (eD.buf.take ret ++ R) (ret + R.length))).2.2 := by rw [hcalls]
  rw [← e2'] at r2 r3 r4 r5
  rw [← e1'] at r1
  have htc : tell (after c1 [Op.bitLogp c2s 1]) = tell e1 := (tell_eq_of_rn r5.rc.rng_eq r5.rc.nbits_eq).1
  have hrh := redundancyHeader_silk (ret + R.length) c1 c2s R.length hc2s (by rw [r3]; omega) r4
    (by rw [htc, hretI]; omega)
  rw [hrh]
  refine ⟨rfl, rfl, rfl, r5.err, r5.rc.rng_eq, r1, ?_⟩
  -- final range
  unfold decRangeFinal
  have hlenI : ((((ret + R.length : Nat)) : Int) - (R.length : Int)).toNat = ret := by omega
  simp only [if_true, ne_eq, Nat.succ_ne_zero, not_false_eq_true, hlenI]
  rw [drop_take_append eD.buf R ret hretL, List.take_length]
  obtain ⟨cf, hcf1, hcf2⟩ := hred
  rw [hcf1]
  simp only
  rw [hcf2, r5.rc.rng_eq, hrngD]

/-! ### Hybrid frames -/

theorem rawC_of_noRaw (B : List Nat) (S : Nat) (c : Enc) (ri : RawInv c) (h0 : c.endOffs = 0) (h1 : c.nendBits = 0) :
    RawC B S c := by
  have hw := ri.win_lt
  rw [h1] at hw
  unfold RawC rawN rawQ
  rw [h0, h1]
  simp only [Nat.mul_zero, Nat.add_zero, Nat.pow_zero, Nat.mod_one, tailVal, Nat.mul_one, Nat.zero_add]
  omega

theorem bit_spec' {d : Dec} {v logp : Nat} (hv : v ≤ 1) (h : Reads d [.bitLogp v logp]) :
    decBitLogp d logp = (v, after d [.bitLogp v logp]) := by
  have h1 : (decBitLogp d logp).1 = (if v ≠ 0 then 1 else 0) := h.1
  have h2 : (if v ≠ 0 then 1 else 0) = v := by split <;> omega
  exact Prod.ext (h1.trans h2) rfl

theorem uint_spec {d : Dec} {v ft : Nat} (h : Reads d [.uint v ft]) : decUint d ft = (v, after d [.uint v ft]) := by
  have h1 : (decUint d ft).1 = v := h.1
  exact Prod.ext h1 rfl

/-- For the hybrid configurations, `decodeOpusFrame` is `decodeOpusFrameCfg` with `hybridCfg`. -/
theorem decodeOpusFrame_hybrid (bandwidth nCh ms10 : Nat) (hms : ms10 = 100 ∨ ms10 = 200) (st : SilkSt) (frame : Bytes) :
    decodeOpusFrame 1001 bandwidth nCh ms10 false st frame =
      .ok (decodeOpusFrameCfg 1001 16000 (ms10 / 10) false (hybridCfg nCh ms10) st frame) := by
  rcases hms with rfl | rfl <;> rfl

/-- The redundancy parse of a hybrid frame (opus_decoder.c:471-499) against the encoder's signalling. -/
theorem redundancyHeader_hybrid (len : Nat) (c1 : Dec) (gate : Bool) (red c2s rb : Nat) (hred : red ≤ 1) (hc2s : c2s ≤ 1)
    (hrb : red ≠ 0 → 2 ≤ rb) (hgate : (tell c1 + 17 + 20 ≤ 8 * (len : Int)) ↔ gate = true)
    (hread : Reads c1 (redSigOps true gate red c2s rb))
    (hsane : ¬ (((len : Int) - (rb : Int)) * 8 < tell (after c1 (redSigOps true gate red c2s rb)))) :
    redundancyHeader 1001 false (len : Int) c1 =
      (if gate = true ∧ red ≠ 0 then
        (1, c2s, rb, (len : Int) - rb,
         { after c1 (redSigOps true gate red c2s rb) with
           storage := (after c1 (redSigOps true gate red c2s rb)).storage - rb })
       else (0, 0, 0, (len : Int), after c1 (redSigOps true gate red c2s rb))) := by
  rw [redundancyHeader]
  by_cases hg : gate = true
  · have hgd : ¬ (false = true) ∧ tell c1 + 17 + (if (1001 : Nat) = 1001 then 20 else 0) ≤ 8 * (len : Int) := by
      refine ⟨by decide, ?_⟩
      rw [if_pos rfl]; exact hgate.mpr hg
    rw [if_pos hgd, if_pos rfl]
    by_cases hr0 : red = 0
    · subst hr0
      have hsig : redSigOps true gate 0 c2s rb = [Op.bitLogp 0 12] := by
        unfold redSigOps; rw [if_pos hg]; simp
      rw [hsig] at hread hsane ⊢
      split
      rename_i r c1' hb1
      rw [bit_spec' (by decide) hread] at hb1
      obtain ⟨rfl, rfl⟩ := Prod.mk.inj hb1
      rw [if_neg (by decide), if_neg (fun hh => hh.2 rfl)]
    · have hr1 : red = 1 := by omega
      subst hr1
      have hsig : redSigOps true gate 1 c2s rb = [Op.bitLogp 1 12, Op.bitLogp c2s 1, Op.uint (rb - 2) 256] := by
        unfold redSigOps; rw [if_pos hg]; simp
      rw [hsig] at hread hsane ⊢
      rw [reads_cons_append] at hread
      obtain ⟨ha, hread⟩ := hread
      rw [reads_cons_append] at hread
      obtain ⟨hb', hc'⟩ := hread
      rw [after_cons_cons, after_cons_cons] at hsane ⊢
      have h2 := hrb (by decide)
      split
      rename_i r c1' hb1
      rw [bit_spec' (by decide) ha] at hb1
      obtain ⟨rfl, rfl⟩ := Prod.mk.inj hb1
      rw [if_pos (by decide), redundancyBlock]
      split
      rename_i cs c2' hb2
      rw [bit_spec' hc2s hb'] at hb2
      obtain ⟨rfl, rfl⟩ := Prod.mk.inj hb2
      split
      rename_i rb' c3 hb3
      rw [redundancyBytes, if_pos rfl] at hb3
      split at hb3
      rename_i u c3' hu
      rw [uint_spec hc'] at hu
      obtain ⟨rfl, rfl⟩ := Prod.mk.inj hu
      obtain ⟨rfl, rfl⟩ := Prod.mk.inj hb3
      have hrbI : (((rb - 2 : Nat) : Int) + 2) = (rb : Int) := by omega
      rw [hrbI] at *
      rw [if_neg hsane, if_pos ⟨hg, by decide⟩, Int.toNat_natCast]
  · have hgd : ¬ (¬ (false = true) ∧ tell c1 + 17 + (if (1001 : Nat) = 1001 then 20 else 0) ≤ 8 * (len : Int)) := by
      intro hh
      have := hh.2
      rw [if_pos rfl] at this
      exact hg (hgate.mp this)
    have hsig : redSigOps true gate red c2s rb = [] := by unfold redSigOps; rw [if_neg hg]
    rw [if_neg hgd, hsig, if_neg (fun hh => hg hh.1), after_nil]

theorem redSigOps_noRaw (gate : Bool) (red c2s rb : Nat) : ∀ op ∈ redSigOps true gate red c2s rb, NoRawOp op := by
  intro op hop
  unfold redSigOps at hop
  split at hop
  · simp only [if_true, List.mem_append, List.mem_singleton] at hop
    rcases hop with h | h
    · rw [h]; trivial
    · split at h
      · simp only [List.mem_cons, List.mem_nil_iff, or_false] at h
        rcases h with h | h <;> (rw [h]; trivial)
      · cases h
  · cases hop

theorem redSigOps_legal (c : Enc) (gate : Bool) (red c2s rb : Nat) (hrb : red ≠ 0 → 2 ≤ rb ∧ rb ≤ 257) :
    LegalRun c (redSigOps true gate red c2s rb) := by
  unfold redSigOps
  by_cases hg : gate = true
  · rw [if_pos hg, if_pos rfl]
    by_cases hr : red ≠ 0
    · obtain ⟨h2, h257⟩ := hrb hr
      rw [if_pos hr, if_pos rfl]
      show LegalRun c [Op.bitLogp red 12, Op.bitLogp c2s 1, Op.uint (rb - 2) 256]
      exact ⟨⟨by decide, by decide⟩, ⟨by decide, by decide⟩, ⟨by decide, by decide, by omega⟩, trivial⟩
    · rw [if_neg hr]
      show LegalRun c [Op.bitLogp red 12]
      exact ⟨⟨by decide, by decide⟩, trivial⟩
  · rw [if_neg hg]; trivial

/-- (3) Hybrid Opus frame: SILK part, redundancy signalling and hand-over to the CELT part on one coder; the CELT
    part and the redundancy frame enter through `CeltFrameRT`. -/
theorem opus_frame_lockstep_hybrid_all (buf : List Nat) (maxData bandwidth nCh ms10 spf48 : Nat) (pk : PacketIn) (st : SilkSt)
    (gate : Bool) (red c2s : Nat) (celtOps : List Op) (R : Bytes) (rr : Nat)
    (hms : ms10 = 100 ∨ ms10 = 200)
    (hs : maxData - 1 ≤ buf.length) (hb : BytesOk buf) (hok : PacketOk (hybridCfg nCh ms10) pk)
    (hred : red ≤ 1) (hc2s : c2s ≤ 1) (hR : BytesOk R)
    (hrb : red ≠ 0 → 2 ≤ R.length ∧ R.length ≤ 257) (hR0 : ¬ (gate = true ∧ red ≠ 0) → R = [])
    (hsuf : LegalRun (encRun (encInit buf (maxData - 1)) (packetOps (hybridCfg nCh ms10) pk ++ redSigOps true gate red c2s R.length))
      (Op.shrink (maxData - 1 - R.length) :: celtOps))
    (hn : (encodeAll buf (maxData - 1) (hybridOps maxData (hybridCfg nCh ms10) pk gate red c2s R.length celtOps)).nbitsTotal < 4294967296)
    (herr : (encodeAll buf (maxData - 1) (hybridOps maxData (hybridCfg nCh ms10) pk gate red c2s R.length celtOps)).error = 0)
    (hgate : (tell (encRun (encInit buf (maxData - 1)) (packetOps (hybridCfg nCh ms10) pk)) + 17 + 20 ≤
        8 * (((encodeAll buf (maxData - 1) (hybridOps maxData (hybridCfg nCh ms10) pk gate red c2s R.length celtOps)).storage + R.length : Nat) : Int)) ↔
      gate = true)
    (hsane : tell (encRun (encInit buf (maxData - 1)) (packetOps (hybridCfg nCh ms10) pk ++ redSigOps true gate red c2s R.length)) ≤
      8 * (((encodeAll buf (maxData - 1) (hybridOps maxData (hybridCfg nCh ms10) pk gate red c2s R.length celtOps)).storage : Nat) : Int))
    (hmainpos : 0 < (encodeAll buf (maxData - 1) (hybridOps maxData (hybridCfg nCh ms10) pk gate red c2s R.length celtOps)).storage) :
    ∃ o, decodeOpusFrame 1001 bandwidth nCh ms10 false st
        (hybridFrame buf maxData (hybridCfg nCh ms10) pk gate red c2s celtOps R rr).payload = .ok o ∧
      o.redundancy = (if gate = true ∧ red ≠ 0 then 1 else 0) ∧
      o.celtToSilk = (if gate = true ∧ red ≠ 0 then c2s else 0) ∧ o.redundancyBytes = R.length ∧
      o.len = ((encodeAll buf (maxData - 1) (hybridOps maxData (hybridCfg nCh ms10) pk gate red c2s R.length celtOps)).storage : Int) ∧
      o.evs = packetEvs (hybridCfg nCh ms10) pk (fun j =>
        ((encRun (encInit buf (maxData - 1)) (prefixOps (hybridCfg nCh ms10) pk j)).rng,
         tell (encRun (encInit buf (maxData - 1)) (prefixOps (hybridCfg nCh ms10) pk j)))) ∧
      -- the hand-over to the CELT part: lock step with the encoder behind the signalling
      o.dec.error = 0 ∧
      o.dec.rng = (encRun (encInit buf (maxData - 1)) (packetOps (hybridCfg nCh ms10) pk ++ redSigOps true gate red c2s R.length)).rng ∧
      tell o.dec = tell (encRun (encInit buf (maxData - 1)) (packetOps (hybridCfg nCh ms10) pk ++ redSigOps true gate red c2s R.length)) ∧
      o.dec.storage = (encodeAll buf (maxData - 1) (hybridOps maxData (hybridCfg nCh ms10) pk gate red c2s R.length celtOps)).storage ∧
      -- with the CELT round trips, the final ranges agree
      (CeltFrameRT { start := 17, end_ := CeltSyms.endBandOf bandwidth, C := nCh, LM := CeltSyms.lmOf spf48 } o.len.toNat o.dec
          (encodeAll buf (maxData - 1) (hybridOps maxData (hybridCfg nCh ms10) pk gate red c2s R.length celtOps)).rng →
        (gate = true ∧ red ≠ 0 →
          CeltFrameRT { start := 0, end_ := CeltSyms.endBandOf bandwidth, C := nCh, LM := 1 } R.length (decInit R R.length) rr) →
        (¬ (gate = true ∧ red ≠ 0) → rr = 0) →
        decRangeFinal 1001 bandwidth nCh spf48 (hybridFrame buf maxData (hybridCfg nCh ms10) pk gate red c2s celtOps R rr).payload o =
          .ok (hybridFrame buf maxData (hybridCfg nCh ms10) pk gate red c2s celtOps R rr).rangeFinal) := by
  generalize hcfg : hybridCfg nCh ms10 = cfg at *
  generalize hsz : maxData - 1 = size at *
  generalize hsigE : redSigOps true gate red c2s R.length = sig at *
  have hsigN : ∀ op ∈ sig, NoRawOp op := by rw [← hsigE]; exact redSigOps_noRaw gate red c2s R.length
  have hsigL : LegalRun (encRun (encInit buf size) (packetOps cfg pk)) sig := by
    rw [← hsigE]; exact redSigOps_legal _ gate red c2s R.length hrb
  have hopsE : hybridOps maxData cfg pk gate red c2s R.length celtOps =
      packetOps cfg pk ++ sig ++ (Op.shrink (size - R.length) :: celtOps) := by
    unfold hybridOps; rw [hsigE, hsz]
  rw [hopsE] at hn herr hgate hsane hmainpos ⊢
  have hframeE : hybridFrame buf maxData cfg pk gate red c2s celtOps R rr =
      { payload := (encodeAll buf size (packetOps cfg pk ++ sig ++ (Op.shrink (size - R.length) :: celtOps))).buf.take
          (encodeAll buf size (packetOps cfg pk ++ sig ++ (Op.shrink (size - R.length) :: celtOps))).storage ++ R,
        rangeFinal := (encodeAll buf size (packetOps cfg pk ++ sig ++ (Op.shrink (size - R.length) :: celtOps))).rng ^^^ rr } := by
    unfold hybridFrame; rw [hopsE, hsz]
  rw [hframeE]
  generalize hsufE : Op.shrink (size - R.length) :: celtOps = suf at *
  unfold encodeAll at hn herr hgate hsane hmainpos ⊢
  have hnF : (encRun (encInit buf size) (packetOps cfg pk ++ sig ++ suf)).nbitsTotal < 4294967296 := by
    rw [encDone_nbitsTotal] at hn; exact hn
  have herrF : (encRun (encInit buf size) (packetOps cfg pk ++ sig ++ suf)).error = 0 := by
    apply Classical.byContradiction; intro hne
    exact encDone_error_mono _ hne herr
  -- the prefix (SILK + signalling) and the whole run
  have hnP : (encRun (encInit buf size) (packetOps cfg pk ++ sig)).nbitsTotal < 4294967296 := by
    rw [encRun_append] at hnF; exact Nat.lt_of_le_of_lt (encRun_nbits_mono suf _) hnF
  have herrP : (encRun (encInit buf size) (packetOps cfg pk ++ sig)).error = 0 := by
    apply Classical.byContradiction; intro hne
    rw [encRun_append] at herrF
    exact encRun_error_mono suf _ hne herrF
  obtain ⟨riP, acP, p0, p1, _⟩ := sig_run_facts buf size cfg pk sig hs hb hok hsigN hsigL hnP herrP
  have hrun := run_back suf _ riP hsuf (by rw [← encRun_append]; exact hnF) (by rw [← encRun_append]; exact herrF)
  obtain ⟨_, riF, _, _, _⟩ := hrun
  rw [← encRun_append] at riF
  obtain ⟨_, d1, d2, d3, d4, d5⟩ := encDone_spec _ riF.inv riF.raw riF.bytes hnF herr
  obtain ⟨n, hn1, _, hext⟩ := encDone_contains_ext _ riF.inv riF.raw riF.bytes hnF herr
  have hrngD := encDone_rng (encRun (encInit buf size) (packetOps cfg pk ++ sig ++ suf))
  have hwf := riF.inv.wf.storage_le
  generalize he1 : encRun (encInit buf size) (packetOps cfg pk ++ sig ++ suf) = e1 at *
  generalize heD : encDone e1 = eD at *
  generalize hS : e1.storage = S at *
  rw [d1] at hgate hsane hmainpos ⊢
  have hSL : S ≤ eD.buf.length := by rw [d2]; exact hwf
  have hlenB : (eD.buf.take S ++ R).length = S + R.length := by
    rw [List.length_append, List.length_take]; omega
  have hBok : BytesOk (eD.buf.take S ++ R) := by
    intro b hb'
    rcases List.mem_append.mp hb' with h | h
    · exact d3 b (List.mem_of_mem_take h)
    · exact hR b h
  have hag : ∀ i, i < n → byteAt (eD.buf.take S ++ R) (S + R.length) i = byteAt eD.buf S i := by
    intro i hi
    unfold byteAt
    rw [if_pos (by omega), if_pos (by omega)]
    exact getD_take_append eD.buf R S i hSL (by omega)
  have hc := hext (eD.buf.take S ++ R) (S + R.length) (fun i => byteAt_lt_bytesOk hBok _ i) hag
  have hr := rawC_of_noRaw (eD.buf.take S ++ R) (S + R.length) _ riP.raw p0 p1
  -- S > 0: a successful ec_enc_done wrote at least the digits
  have hSpos : 0 < S := hmainpos
  have hpos : 0 < S + R.length := by omega
  obtain ⟨r1, r2, r3, r4, r5⟩ := frame_prefix_decode buf size cfg pk st sig suf hs hb hok hsigL hsuf
    (by rw [he1]; exact hnF) (by rw [he1]; exact herrF)
    (eD.buf.take S ++ R) (S + R.length) hBok hpos (by rw [hlenB]; exact hpos)
    (by rw [he1]; exact hc) hr
  -- the decoder
  rw [← hcfg, decodeOpusFrame_hybrid bandwidth nCh ms10 hms, hcfg]
  refine ⟨_, rfl, ?_⟩
  rw [decodeOpusFrameCfg, hlenB]
  split
  rename_i evs st1 c1 hcalls
  have e1' : evs = (silkCalls cfg cfg.nfpp true st (decInit (eD.buf.take S ++ R) (S + R.length))).1 := by rw [hcalls]
  have e2' : c1 = (silkCalls cfg cfg.nfpp true st (decInit (eD.buf.take S ++ R) (S + R.length))).2.2 := by rw [hcalls]
  rw [← e2'] at r2 r3 r4 r5
  rw [← e1'] at r1
  have htc : tell (after c1 sig) = tell (encRun (encInit buf size) (packetOps cfg pk ++ sig)) :=
    (tell_eq_of_rn r5.rc.rng_eq r5.rc.nbits_eq).1
  have hrh := redundancyHeader_hybrid (S + R.length) c1 gate red c2s R.length hred hc2s (fun h => (hrb h).1)
    (by rw [r3]; exact hgate) (by rw [hsigE]; exact r4) (by rw [hsigE, htc]; omega)
  rw [hsigE] at hrh
  rw [hrh]
  by_cases hgr : gate = true ∧ red ≠ 0
  · simp only [if_pos hgr]
    have hsto : (after c1 sig).storage = S + R.length := r5.rc.storage_eq
    refine ⟨trivial, trivial, trivial, by simp, r1, r5.err, r5.rc.rng_eq, ?_, by simp [hsto], ?_⟩
    · exact htc
    · intro hmain hredF _
      unfold decRangeFinal
      have hlenI : ((((S + R.length : Nat)) : Int) - (R.length : Int)).toNat = S := by omega
      simp only [show ¬ ((1001 : Nat) = 1000) by decide, if_false, ne_eq, Nat.succ_ne_zero, not_false_eq_true, if_true, hlenI] at hmain ⊢
      obtain ⟨cf, hcf1, hcf2⟩ := hmain
      rw [hcf1]
      rw [drop_take_append eD.buf R S hSL, List.take_length]
      obtain ⟨cg, hcg1, hcg2⟩ := hredF hgr
      rw [hcg1]
      simp only
      rw [hcf2, hcg2]
  · simp only [if_neg hgr]
    have hRn := hR0 hgr
    subst hRn
    have hsto : (after c1 sig).storage = S + 0 := r5.rc.storage_eq
    refine ⟨trivial, trivial, rfl, by simp, r1, r5.err, r5.rc.rng_eq, htc, by simpa using hsto, ?_⟩
    intro hmain _ hrr0
    unfold decRangeFinal
    simp only [show ¬ ((1001 : Nat) = 1000) by decide, if_false, ne_eq, not_true_eq_false, List.length_nil, Nat.add_zero,
      Int.toNat_natCast] at hmain ⊢
    obtain ⟨cf, hcf1, hcf2⟩ := hmain
    rw [hcf1]
    simp only
    rw [hcf2, hrr0 hgr]

end Opus.OpusFrameProofs
