import OpusProofs.OpusFrameSilk
import OpusProofs.RangeCoderStream
/-
  C08, frame level (2) and (3): Opus frames in which something follows the SILK payload on the main coder —
  the redundancy signalling, and in hybrid mode the CELT part — and a 5 ms redundancy frame may follow the
  main part in the frame.

  `frame_prefix_decode` is the common core: on ANY byte stream whose code value lies in the encoder's final
  interval, C03's SILK decoder returns what was encoded, then reads the signalling symbols `sig` back, and is
  then in lock step (invariant D: same rng, same ec_tell, val = top − code, error 0) with the encoder state
  at that point — the hand-over to the CELT part.
-/
namespace Opus.OpusFrameProofs
open Opus Opus.RangeCoder Opus.SilkSyms Opus.SilkSymsEnc Opus.SilkSymsEncProofs Opus.OpusFrameEnc

theorem frame_prefix_decode (buf : List Nat) (size : Nat) (cfg : Cfg) (pk : PacketIn) (st : SilkSt) (sig suf : List Op)
    (hs : size ≤ buf.length) (hb : BytesOk buf) (hok : PacketOk cfg pk)
    (hsig : LegalRun (encRun (encInit buf size) (packetOps cfg pk)) sig)
    (hsuf : LegalRun (encRun (encInit buf size) (packetOps cfg pk ++ sig)) suf)
    (hnF : (encRun (encInit buf size) (packetOps cfg pk ++ sig ++ suf)).nbitsTotal < 4294967296)
    (herrF : (encRun (encInit buf size) (packetOps cfg pk ++ sig ++ suf)).error = 0)
    (B : List Nat) (S : Nat) (hB : BytesOk B) (hS : 0 < S) (hBl : 0 < B.length)
    (hc : Contains B S (encRun (encInit buf size) (packetOps cfg pk ++ sig ++ suf)))
    (hr : RawC B S (encRun (encInit buf size) (packetOps cfg pk ++ sig))) :
    (silkCalls cfg cfg.nfpp true st (decInit B S)).1 =
      packetEvs cfg pk (fun j => ((encRun (encInit buf size) (prefixOps cfg pk j)).rng,
        tell (encRun (encInit buf size) (prefixOps cfg pk j)))) ∧
    (silkCalls cfg cfg.nfpp true st (decInit B S)).2.2.rng = (encRun (encInit buf size) (packetOps cfg pk)).rng ∧
    tell (silkCalls cfg cfg.nfpp true st (decInit B S)).2.2 = tell (encRun (encInit buf size) (packetOps cfg pk)) ∧
    Reads (silkCalls cfg cfg.nfpp true st (decInit B S)).2.2 sig ∧
    DecAll B S (encRun (encInit buf size) (packetOps cfg pk ++ sig))
      (after (silkCalls cfg cfg.nfpp true st (decInit B S)).2.2 sig) B := by
  have hlen := headerBits_length hok
  have hbits := headerBits_bits hok
  have hk1 : 1 ≤ (cfg.nfpp + 1) * cfg.nCh := by
    have := hok.nfpp
    rcases hok.nCh with h | h <;> rw [h] <;> omega
  have hk8 : (cfg.nfpp + 1) * cfg.nCh ≤ 8 := by
    have := hok.nfpp
    rcases hok.nCh with h | h <;> rw [h] <;> omega
  have hleg := packetBody_legal hok
  have hw : bitsWord (headerBits cfg pk) 0 < 2 ^ ((cfg.nfpp + 1) * cfg.nCh) := by
    rw [← hlen]; exact bitsWord_lt _ hbits
  unfold packetOps at hsig hsuf hnF herrF hc hr ⊢
  rw [placeholder_eq] at hsig hsuf hnF herrF hc hr ⊢
  generalize hkk : (cfg.nfpp + 1) * cfg.nCh = k at *
  generalize hword : bitsWord (headerBits cfg pk) 0 = word at *
  -- normal form: placeholder :: (pre ++ suf) with pre = body ++ [patch] ++ sig
  have eq1 : (Op.icdf 0 (flagTable k) 8 :: (packetBody cfg pk ++ [Op.patchInitial word k])) ++ sig =
      Op.icdf 0 (flagTable k) 8 :: (packetBody cfg pk ++ [Op.patchInitial word k] ++ sig) := by
    simp only [List.cons_append]
  have eq2 : (Op.icdf 0 (flagTable k) 8 :: (packetBody cfg pk ++ [Op.patchInitial word k])) ++ sig ++ suf =
      Op.icdf 0 (flagTable k) 8 :: (packetBody cfg pk ++ [Op.patchInitial word k] ++ sig ++ suf) := by
    simp only [List.cons_append, List.append_assoc]
  rw [eq1] at hsuf hr ⊢
  rw [eq2] at hnF herrF hc
  have hl0 : LegalRunP k (encOp (encInit buf size) (.icdf 0 (flagTable k) 8))
      (packetBody cfg pk ++ [.patchInitial word k]) := legalRunP_of_ic k _ hw _ _ hleg
  have hl : LegalRunP k (encOp (encInit buf size) (.icdf 0 (flagTable k) 8))
      (packetBody cfg pk ++ [.patchInitial word k] ++ sig) := by
    rw [legalRunP_append]
    exact ⟨hl0, legalRunP_of_legalRun k sig _ hsig⟩
  have k0 := decode_flags_prefix_stream buf size k (packetBody cfg pk ++ [.patchInitial word k] ++ sig) suf
    hs hb hk1 hk8
  have k1 := k0 hl
  have k2 := k1 hsuf
  have k3 := k2 hnF
  have k4 := k3 herrF
  have k5 := k4 B S hB hS hBl
  have k6 := k5 hc
  have key := k6 hr
  clear k0 k1 k2 k3 k4 k5 k6
  have hbo : bitsOps word k = flagOps (headerBits cfg pk) := by
    rw [← hword, ← hlen]; exact bitsOps_word _ hbits
  have hlp : lastPatch 0 (packetBody cfg pk ++ [.patchInitial word k] ++ sig) = word := by
    rw [lastPatch_append, lastPatch_ic 0 _ k _ hleg, lastPatch_legalRun word sig _ hsig]
  rw [hlp, hbo] at key
  rcases key with ⟨hm, hall⟩
  rw [← reads_iff] at hm
  have hm' : Reads (decInit B S) ((flagOps (headerBits cfg pk) ++ packetBody cfg pk) ++ ([Op.patchInitial word k] ++ sig)) := by
    have e : flagOps (headerBits cfg pk) ++ (packetBody cfg pk ++ [Op.patchInitial word k] ++ sig) =
        (flagOps (headerBits cfg pk) ++ packetBody cfg pk) ++ ([Op.patchInitial word k] ++ sig) := by
      simp only [List.append_assoc]
    rw [← e]; exact hm
  rw [reads_append] at hm'
  obtain ⟨hmA, hmB⟩ := hm'
  have hmS : Reads (after (decInit B S) (flagOps (headerBits cfg pk) ++ packetBody cfg pk)) sig := hmB.2
  have hafter : (decRun (decInit B S) (flagOps (headerBits cfg pk) ++ (packetBody cfg pk ++ [Op.patchInitial word k] ++ sig))).2 =
      after (after (decInit B S) (flagOps (headerBits cfg pk) ++ packetBody cfg pk)) sig := by
    rw [← after_eq]
    have e : flagOps (headerBits cfg pk) ++ (packetBody cfg pk ++ [Op.patchInitial word k] ++ sig) =
        (flagOps (headerBits cfg pk) ++ packetBody cfg pk) ++ ([Op.patchInitial word k] ++ sig) := by
      simp only [List.append_assoc]
    rw [e, after_append, List.singleton_append, after_cons, after_patch]
  rw [hafter] at hall
  obtain ⟨q1, q2⟩ := silkCalls_any hok st (decInit B S) hmA
  rw [q1, q2]
  have hlkB := payload_lockstep buf size B S (headerBits cfg pk) (packetBody cfg pk) hbits (by rw [hlen]; exact hk1)
    (by rw [hlen]; exact hk8) hleg hmA
  rw [hlen, placeholder_eq] at hlkB
  have hpr : (encRun (encInit buf size) (Op.icdf 0 (flagTable k) 8 :: (packetBody cfg pk ++ [Op.patchInitial word k]))).rng =
        (encRun (encInit buf size) (Op.icdf 0 (flagTable k) 8 :: packetBody cfg pk)).rng ∧
      (encRun (encInit buf size) (Op.icdf 0 (flagTable k) 8 :: (packetBody cfg pk ++ [Op.patchInitial word k]))).nbitsTotal =
        (encRun (encInit buf size) (Op.icdf 0 (flagTable k) 8 :: packetBody cfg pk)).nbitsTotal := by
    have e : Op.icdf 0 (flagTable k) 8 :: (packetBody cfg pk ++ [Op.patchInitial word k]) =
        (Op.icdf 0 (flagTable k) 8 :: packetBody cfg pk) ++ [Op.patchInitial word k] := rfl
    rw [e, encRun_append]
    exact patch_rn _ _ _
  refine ⟨?_, by rw [hlkB.1, hpr.1], by rw [hlkB.2]; exact (tell_congr hpr.1 hpr.2).symm, hmS, hall⟩
  apply packetEvs_congr
  intro j hj
  obtain ⟨rest, hrest⟩ := callsPrefix_split cfg pk hj
  have hr' : Reads (decInit B S) (flagOps (headerBits cfg pk) ++ ((List.range (j + 1)).map (callOps cfg pk)).flatten) := by
    have := hmA
    rw [hrest, ← List.append_assoc, reads_append] at this
    exact this.1
  have hlk := payload_lockstep buf size B S (headerBits cfg pk) _ hbits (by rw [hlen]; exact hk1) (by rw [hlen]; exact hk8)
    (callsPrefix_legal hok hj) hr'
  unfold decAt prefixOps
  rw [hkk, ← hlen]
  rw [hlk.1, hlk.2]

/-- The SILK payload followed by `sig` leaves no raw bits and does not resize the buffer; bit accounting holds. -/
theorem sig_run_facts (buf : List Nat) (size : Nat) (cfg : Cfg) (pk : PacketIn) (sig : List Op) (hs : size ≤ buf.length)
    (hb : BytesOk buf) (hok : PacketOk cfg pk) (hsigN : ∀ op ∈ sig, NoRawOp op)
    (hsig : LegalRun (encRun (encInit buf size) (packetOps cfg pk)) sig)
    (hnF : (encRun (encInit buf size) (packetOps cfg pk ++ sig)).nbitsTotal < 4294967296)
    (herrF : (encRun (encInit buf size) (packetOps cfg pk ++ sig)).error = 0) :
    RunInv (encRun (encInit buf size) (packetOps cfg pk ++ sig)) ∧
    Acct (encRun (encInit buf size) (packetOps cfg pk ++ sig)) ∧
    (encRun (encInit buf size) (packetOps cfg pk ++ sig)).endOffs = 0 ∧
    (encRun (encInit buf size) (packetOps cfg pk ++ sig)).nendBits = 0 ∧
    (encRun (encInit buf size) (packetOps cfg pk ++ sig)).storage = size := by
  rw [encRun_append] at hnF herrF ⊢
  have herrP : (encRun (encInit buf size) (packetOps cfg pk)).error = 0 := by
    apply Classical.byContradiction; intro hne
    exact encRun_error_mono sig _ hne herrF
  have hnP : (encRun (encInit buf size) (packetOps cfg pk)).nbitsTotal < 4294967296 :=
    Nat.lt_of_le_of_lt (encRun_nbits_mono sig _) hnF
  obtain ⟨riP, acP, p0, p1, p2⟩ := packet_run_facts buf size cfg pk hs hb hok hnP herrP
  obtain ⟨acF, riF⟩ := acct_run sig _ riP acP hsig hnF herrF
  obtain ⟨n1, n2, n3⟩ := noRaw_run sig (encRun (encInit buf size) (packetOps cfg pk)) hsigN
  exact ⟨riF, acF, n1.trans p0, n2.trans p1, n3.trans p2⟩

theorem getD_take_append (a R : List Nat) (n i : Nat) (hn : n ≤ a.length) (hi : i < n) :
    (a.take n ++ R).getD i 0 = a.getD i 0 := by
  have hl : (a.take n).length = n := by rw [List.length_take]; omega
  simp only [List.getD_eq_getElem?_getD]
  rw [List.getElem?_append_left (by omega), List.getElem?_take, if_pos hi]

theorem drop_take_append (a R : List Nat) (n : Nat) (hn : n ≤ a.length) : (a.take n ++ R).drop n = R := by
  have hl : (a.take n).length = n := by rw [List.length_take]; omega
  rw [List.drop_append, hl, Nat.sub_self, List.drop_zero, List.drop_eq_nil_of_le (by omega), List.nil_append]

/-- The redundancy parse of a SILK-only frame (opus_decoder.c:471-499) when the length test passes and the
    `celt_to_silk` bit reads back: redundancy is inferred, the byte count is what the frame length leaves. -/
theorem redundancyHeader_silk (len : Nat) (c1 : Dec) (c2s rb : Nat) (hc2s : c2s ≤ 1)
    (hgate : tell c1 + 17 ≤ 8 * (len : Int)) (hread : Reads c1 [Op.bitLogp c2s 1])
    (htell : (len : Int) - (tell (after c1 [Op.bitLogp c2s 1]) + 7) / 8 = (rb : Int)) :
    redundancyHeader 1000 false (len : Int) c1 =
      (1, c2s, rb, (len : Int) - rb,
       { after c1 [Op.bitLogp c2s 1] with storage := (after c1 [Op.bitLogp c2s 1]).storage - rb }) := by
  have hg : ¬ (false = true) ∧ tell c1 + 17 + (if (1000 : Nat) = 1001 then 20 else 0) ≤ 8 * (len : Int) := by
    refine ⟨by decide, ?_⟩
    rw [if_neg (by decide)]; omega
  rw [redundancyHeader, if_pos hg, if_neg (by decide), redundancyBlock]
  split
  rename_i cs c1' hb1
  rw [bit_spec hc2s hread] at hb1
  obtain ⟨rfl, rfl⟩ := Prod.mk.inj hb1
  split
  rename_i rb' c2 hb2
  rw [redundancyBytes, if_neg (by decide), htell] at hb2
  obtain ⟨rfl, rfl⟩ := Prod.mk.inj hb2
  have hsane : ¬ (((len : Int) - (rb : Int)) * 8 < tell (after c1 [Op.bitLogp c2s 1])) := by omega
  rw [if_neg hsane, Int.toNat_natCast]

/-- (2) SILK-only Opus frame WITH redundancy. -/
theorem opus_frame_lockstep_silk_red_all (buf : List Nat) (maxData bandwidth nCh ms10 spf48 : Nat) (pk : PacketIn) (st : SilkSt)
    (c2s : Nat) (R : Bytes) (rr : Nat)
    (hbw : bandwidth = 1101 ∨ bandwidth = 1102 ∨ bandwidth = 1103)
    (hms : ms10 = 100 ∨ ms10 = 200 ∨ ms10 = 400 ∨ ms10 = 600)
    (hs : maxData - 1 ≤ buf.length) (hb : BytesOk buf) (hok : PacketOk (silkCfg bandwidth nCh ms10) pk)
    (hc2s : c2s ≤ 1) (hR : BytesOk R)
    (hn : (encodeAll buf (maxData - 1) (packetOps (silkCfg bandwidth nCh ms10) pk ++ redSigOps false true 1 c2s R.length)).nbitsTotal < 4294967296)
    (herr : (encodeAll buf (maxData - 1) (packetOps (silkCfg bandwidth nCh ms10) pk ++ redSigOps false true 1 c2s R.length)).error = 0)
    (hfit : tell (encRun (encInit buf (maxData - 1)) (packetOps (silkCfg bandwidth nCh ms10) pk ++ redSigOps false true 1 c2s R.length)) ≤
      8 * ((maxData - 1 : Nat) : Int))
    (hgate : tell (encRun (encInit buf (maxData - 1)) (packetOps (silkCfg bandwidth nCh ms10) pk)) + 17 ≤
      8 * (((tell (encRun (encInit buf (maxData - 1)) (packetOps (silkCfg bandwidth nCh ms10) pk ++ redSigOps false true 1 c2s R.length)) + 7) / 8) +
        (R.length : Int)))
    (hred : CeltFrameRT { start := 0, end_ := CeltSyms.endBandOf bandwidth, C := nCh, LM := 1 } R.length (decInit R R.length) rr) :
    ∃ o, decodeOpusFrame 1000 bandwidth nCh ms10 false st
        (silkRedFrame buf maxData (silkCfg bandwidth nCh ms10) pk c2s R rr).payload = .ok o ∧
      o.redundancy = 1 ∧ o.celtToSilk = c2s ∧ o.redundancyBytes = R.length ∧ o.dec.error = 0 ∧
      o.dec.rng = (encRun (encInit buf (maxData - 1)) (packetOps (silkCfg bandwidth nCh ms10) pk ++ redSigOps false true 1 c2s R.length)).rng ∧
      o.evs = packetEvs (silkCfg bandwidth nCh ms10) pk (fun j =>
        ((encRun (encInit buf (maxData - 1)) (prefixOps (silkCfg bandwidth nCh ms10) pk j)).rng,
         tell (encRun (encInit buf (maxData - 1)) (prefixOps (silkCfg bandwidth nCh ms10) pk j)))) ∧
      decRangeFinal 1000 bandwidth nCh spf48 (silkRedFrame buf maxData (silkCfg bandwidth nCh ms10) pk c2s R rr).payload o =
        .ok (silkRedFrame buf maxData (silkCfg bandwidth nCh ms10) pk c2s R rr).rangeFinal := by
  generalize hcfg : silkCfg bandwidth nCh ms10 = cfg at *
  generalize hsz : maxData - 1 = size at *
  have hsigE : redSigOps false true 1 c2s R.length = [Op.bitLogp c2s 1] := by
    unfold redSigOps; simp
  rw [hsigE] at hn herr hfit hgate ⊢
  have hframeE : silkRedFrame buf maxData cfg pk c2s R rr =
      { payload := (encDone (encRun (encInit buf size) (packetOps cfg pk ++ [Op.bitLogp c2s 1]))).buf.take
          ((tell (encRun (encInit buf size) (packetOps cfg pk ++ [Op.bitLogp c2s 1])) + 7) / 8).toNat ++ R,
        rangeFinal := (encDone (encRun (encInit buf size) (packetOps cfg pk ++ [Op.bitLogp c2s 1]))).rng ^^^ rr } := by
    unfold silkRedFrame; rw [hsigE, hsz]
  rw [hframeE]
  unfold encodeAll at hn herr
  have hnF : (encRun (encInit buf size) (packetOps cfg pk ++ [Op.bitLogp c2s 1])).nbitsTotal < 4294967296 := by
    rw [encDone_nbitsTotal] at hn; exact hn
  have herrF : (encRun (encInit buf size) (packetOps cfg pk ++ [Op.bitLogp c2s 1])).error = 0 := by
    apply Classical.byContradiction; intro hne
    exact encDone_error_mono _ hne herr
  have hsigL : LegalRun (encRun (encInit buf size) (packetOps cfg pk)) [Op.bitLogp c2s 1] :=
    ⟨⟨by decide, by decide⟩, trivial⟩
  have hsigN : ∀ op ∈ [Op.bitLogp c2s 1], NoRawOp op := by
    intro op hop; rw [List.mem_singleton] at hop; rw [hop]; trivial
  obtain ⟨riF, acF, h0, h1, hsto⟩ := sig_run_facts buf size cfg pk [Op.bitLogp c2s 1] hs hb hok hsigN hsigL hnF herrF
  obtain ⟨_, d1, d2, d3, d4, d5⟩ := encDone_spec _ riF.inv riF.raw riF.bytes hnF herr
  obtain ⟨n, hn1, hn2, hext⟩ := encDone_contains_ext _ riF.inv riF.raw riF.bytes hnF herr
  have hrngD := encDone_rng (encRun (encInit buf size) (packetOps cfg pk ++ [Op.bitLogp c2s 1]))
  have hwf := riF.inv.wf.storage_le
  have hil : ilog (encRun (encInit buf size) (packetOps cfg pk ++ [Op.bitLogp c2s 1])).rng ≤ 32 :=
    ilog_le_32 ⟨riF.inv.rng_lo, riF.inv.rng_hi⟩
  generalize he1 : encRun (encInit buf size) (packetOps cfg pk ++ [Op.bitLogp c2s 1]) = e1 at *
  generalize heD : encDone e1 = eD at *
  rw [hsto] at hn1 hext hwf d5
  have htell1 : 1 ≤ tell e1 := by
    unfold Acct rawN at acF
    rw [h0, h1] at acF
    unfold tell; omega
  generalize hret : ((tell e1 + 7) / 8).toNat = ret at *
  have hretI : (tell e1 + 7) / 8 = (ret : Int) := by omega
  rw [hretI] at hgate
  have hretS : ret ≤ size := by omega
  have hnret : n ≤ ret := by
    unfold Acct rawN at acF
    rw [h0, h1] at acF
    unfold tell at hretI
    omega
  have hretL : ret ≤ eD.buf.length := by rw [d2]; omega
  -- the stream the decoder gets: main part followed by the redundancy frame
  have hlenB : (eD.buf.take ret ++ R).length = ret + R.length := by
    rw [List.length_append, List.length_take]; omega
  have hBok : BytesOk (eD.buf.take ret ++ R) := by
    intro b hb'
    rcases List.mem_append.mp hb' with h | h
    · exact d3 b (List.mem_of_mem_take h)
    · exact hR b h
  have hag : ∀ i, i < n → byteAt (eD.buf.take ret ++ R) (ret + R.length) i = byteAt eD.buf size i := by
    intro i hi
    unfold byteAt
    rw [if_pos (by omega), if_pos (by omega)]
    exact getD_take_append eD.buf R ret i hretL (by omega)
  have hc := hext (eD.buf.take ret ++ R) (ret + R.length) (fun i => byteAt_lt_bytesOk hBok _ i) hag
  have hr := rawC_noRaw eD.buf (eD.buf.take ret ++ R) size (ret + R.length) e1 h0 h1 d5
  have hpos : 0 < ret + R.length := by omega
  obtain ⟨r1, r2, r3, r4, r5⟩ := frame_prefix_decode buf size cfg pk st [Op.bitLogp c2s 1] [] hs hb hok hsigL trivial
    (by rw [List.append_nil, he1]; exact hnF) (by rw [List.append_nil, he1]; exact herrF)
    (eD.buf.take ret ++ R) (ret + R.length) hBok hpos (by rw [hlenB]; exact hpos)
    (by rw [List.append_nil, he1]; exact hc) (by rw [he1]; exact hr)
  rw [he1] at r5
  -- the decoder
  rw [← hcfg, decodeOpusFrame_silk bandwidth nCh ms10 hbw hms, hcfg]
  refine ⟨_, rfl, ?_⟩
  rw [decodeOpusFrameCfg, hlenB]
  split
  rename_i evs st1 c1 hcalls
  have e1' : evs = (silkCalls cfg cfg.nfpp true st (decInit (eD.buf.take ret ++ R) (ret + R.length))).1 := by rw [hcalls]
  have e2' : c1 = (silkCalls cfg cfg.nfpp true st (decInit (eD.buf.take ret ++ R) (ret + R.length))).2.2 := by rw [hcalls]
  rw [← e2'] at r2 r3 r4 r5
  rw [← e1'] at r1
  have htc : tell (after c1 [Op.bitLogp c2s 1]) = tell e1 := (tell_eq_of_rn r5.rc.rng_eq r5.rc.nbits_eq).1
  have hrh := redundancyHeader_silk (ret + R.length) c1 c2s R.length hc2s (by rw [r3]; omega) r4
    (by rw [htc, hretI]; omega)
  rw [hrh]
  refine ⟨rfl, rfl, rfl, r5.err, r5.rc.rng_eq, r1, ?_⟩
  -- final range
  unfold decRangeFinal
  have hlenI : ((((ret + R.length : Nat)) : Int) - (R.length : Int)).toNat = ret := by omega
  simp only [if_true, ne_eq, Nat.succ_ne_zero, not_false_eq_true, hlenI]
  rw [drop_take_append eD.buf R ret hretL, List.take_length]
  obtain ⟨cf, hcf1, hcf2⟩ := hred
  rw [hcf1]
  simp only
  rw [hcf2, r5.rc.rng_eq, hrngD]

end Opus.OpusFrameProofs
