import OpusProofs.OpusFrameSilk
import OpusProofs.RangeCoderStream
/-
  C08, frame level (2) and (3): Opus frames in which something follows the SILK payload on the main coder —
  the redundancy signalling, and in hybrid mode the CELT part — and a 5 ms redundancy frame may follow the
  main part in the frame.

  `frame_prefix_decode` is the common core: on ANY byte stream whose code value lies in the encoder's final
  interval, C03's SILK decoder returns what was encoded, then reads the signalling symbols `sig` back, and is
  then in lock step (invariant D: same rng, same ec_tell, val = top − code, error 0) with the encoder state
  at that point — the hand-over to the CELT part.
-/
namespace Opus.OpusFrameProofs
open Opus Opus.RangeCoder Opus.SilkSyms Opus.SilkSymsEnc Opus.SilkSymsEncProofs Opus.OpusFrameEnc

theorem frame_prefix_decode (buf : List Nat) (size : Nat) (cfg : Cfg) (pk : PacketIn) (st : SilkSt) (sig suf : List Op)
    (hs : size ≤ buf.length) (hb : BytesOk buf) (hok : PacketOk cfg pk)
    (hsig : LegalRun (encRun (encInit buf size) (packetOps cfg pk)) sig)
    (hsuf : LegalRun (encRun (encInit buf size) (packetOps cfg pk ++ sig)) suf)
    (hnF : (encRun (encInit buf size) (packetOps cfg pk ++ sig ++ suf)).nbitsTotal < 4294967296)
    (herrF : (encRun (encInit buf size) (packetOps cfg pk ++ sig ++ suf)).error = 0)
    (B : List Nat) (S : Nat) (hB : BytesOk B) (hS : 0 < S) (hBl : 0 < B.length)
    (hc : Contains B S (encRun (encInit buf size) (packetOps cfg pk ++ sig ++ suf)))
    (hr : RawC B S (encRun (encInit buf size) (packetOps cfg pk ++ sig))) :
    (silkCalls cfg cfg.nfpp true st (decInit B S)).1 =
      packetEvs cfg pk (fun j => ((encRun (encInit buf size) (prefixOps cfg pk j)).rng,
        tell (encRun (encInit buf size) (prefixOps cfg pk j)))) ∧
    Reads (silkCalls cfg cfg.nfpp true st (decInit B S)).2.2 sig ∧
    DecAll B S (encRun (encInit buf size) (packetOps cfg pk ++ sig))
      (after (silkCalls cfg cfg.nfpp true st (decInit B S)).2.2 sig) B := by
  have hlen := headerBits_length hok
  have hbits := headerBits_bits hok
  have hk1 : 1 ≤ (cfg.nfpp + 1) * cfg.nCh := by
    have := hok.nfpp
    rcases hok.nCh with h | h <;> rw [h] <;> omega
  have hk8 : (cfg.nfpp + 1) * cfg.nCh ≤ 8 := by
    have := hok.nfpp
    rcases hok.nCh with h | h <;> rw [h] <;> omega
  have hleg := packetBody_legal hok
  have hw : bitsWord (headerBits cfg pk) 0 < 2 ^ ((cfg.nfpp + 1) * cfg.nCh) := by
    rw [← hlen]; exact bitsWord_lt _ hbits
  unfold packetOps at hsig hsuf hnF herrF hc hr ⊢
  rw [placeholder_eq] at hsig hsuf hnF herrF hc hr ⊢
  generalize hkk : (cfg.nfpp + 1) * cfg.nCh = k at *
  generalize hword : bitsWord (headerBits cfg pk) 0 = word at *
  -- normal form: placeholder :: (pre ++ suf) with pre = body ++ [patch] ++ sig
  have eq1 : (Op.icdf 0 (flagTable k) 8 :: (packetBody cfg pk ++ [Op.patchInitial word k])) ++ sig =
      Op.icdf 0 (flagTable k) 8 :: (packetBody cfg pk ++ [Op.patchInitial word k] ++ sig) := by
    simp only [List.cons_append]
  have eq2 : (Op.icdf 0 (flagTable k) 8 :: (packetBody cfg pk ++ [Op.patchInitial word k])) ++ sig ++ suf =
      Op.icdf 0 (flagTable k) 8 :: (packetBody cfg pk ++ [Op.patchInitial word k] ++ sig ++ suf) := by
    simp only [List.cons_append, List.append_assoc]
  rw [eq1] at hsuf hr ⊢
  rw [eq2] at hnF herrF hc
  have hl0 : LegalRunP k (encOp (encInit buf size) (.icdf 0 (flagTable k) 8))
      (packetBody cfg pk ++ [.patchInitial word k]) := legalRunP_of_ic k _ hw _ _ hleg
  have hl : LegalRunP k (encOp (encInit buf size) (.icdf 0 (flagTable k) 8))
      (packetBody cfg pk ++ [.patchInitial word k] ++ sig) := by
    rw [legalRunP_append]
    exact ⟨hl0, legalRunP_of_legalRun k sig _ hsig⟩
  have k0 := decode_flags_prefix_stream buf size k (packetBody cfg pk ++ [.patchInitial word k] ++ sig) suf
    hs hb hk1 hk8
  have k1 := k0 hl
  have k2 := k1 hsuf
  have k3 := k2 hnF
  have k4 := k3 herrF
  have k5 := k4 B S hB hS hBl
  have k6 := k5 hc
  have key := k6 hr
  clear k0 k1 k2 k3 k4 k5 k6
  have hbo : bitsOps word k = flagOps (headerBits cfg pk) := by
    rw [← hword, ← hlen]; exact bitsOps_word _ hbits
  have hlp : lastPatch 0 (packetBody cfg pk ++ [.patchInitial word k] ++ sig) = word := by
    rw [lastPatch_append, lastPatch_ic 0 _ k _ hleg, lastPatch_legalRun word sig _ hsig]
  rw [hlp, hbo] at key
  rcases key with ⟨hm, hall⟩
  rw [← reads_iff] at hm
  have hm' : Reads (decInit B S) ((flagOps (headerBits cfg pk) ++ packetBody cfg pk) ++ ([Op.patchInitial word k] ++ sig)) := by
    have e : flagOps (headerBits cfg pk) ++ (packetBody cfg pk ++ [Op.patchInitial word k] ++ sig) =
        (flagOps (headerBits cfg pk) ++ packetBody cfg pk) ++ ([Op.patchInitial word k] ++ sig) := by
      simp only [List.append_assoc]
    rw [← e]; exact hm
  rw [reads_append] at hm'
  obtain ⟨hmA, hmB⟩ := hm'
  have hmS : Reads (after (decInit B S) (flagOps (headerBits cfg pk) ++ packetBody cfg pk)) sig := hmB.2
  have hafter : (decRun (decInit B S) (flagOps (headerBits cfg pk) ++ (packetBody cfg pk ++ [Op.patchInitial word k] ++ sig))).2 =
      after (after (decInit B S) (flagOps (headerBits cfg pk) ++ packetBody cfg pk)) sig := by
    rw [← after_eq]
    have e : flagOps (headerBits cfg pk) ++ (packetBody cfg pk ++ [Op.patchInitial word k] ++ sig) =
        (flagOps (headerBits cfg pk) ++ packetBody cfg pk) ++ ([Op.patchInitial word k] ++ sig) := by
      simp only [List.append_assoc]
    rw [e, after_append, List.singleton_append, after_cons, after_patch]
  rw [hafter] at hall
  obtain ⟨q1, q2⟩ := silkCalls_any hok st (decInit B S) hmA
  rw [q1, q2]
  refine ⟨?_, hmS, hall⟩
  apply packetEvs_congr
  intro j hj
  obtain ⟨rest, hrest⟩ := callsPrefix_split cfg pk hj
  have hr' : Reads (decInit B S) (flagOps (headerBits cfg pk) ++ ((List.range (j + 1)).map (callOps cfg pk)).flatten) := by
    have := hmA
    rw [hrest, ← List.append_assoc, reads_append] at this
    exact this.1
  have hlk := payload_lockstep buf size B S (headerBits cfg pk) _ hbits (by rw [hlen]; exact hk1) (by rw [hlen]; exact hk8)
    (callsPrefix_legal hok hj) hr'
  unfold decAt prefixOps
  rw [hkk, ← hlen]
  rw [hlk.1, hlk.2]

end Opus.OpusFrameProofs
