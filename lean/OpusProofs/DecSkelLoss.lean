import OpusProofs.DecSkelApi
/-
  OpusProofs.DecSkelLoss — C09 on the decoder skeleton: a concealment / FEC request through the
  public entry points is a request to `opus_decode_native` with the same `frame_size`; FEC
  degrades to concealment exactly when :761 says so; otherwise FEC is concealment of
  `frame_size − packet_frame_size` followed by one LBRR frame at the end of the buffer.
-/
namespace Opus.DecSkel
open Opus Opus.Framing

/-- For loss / FEC calls the three public entry points do not clamp `frame_size`: they call
    `opus_decode_native` with the caller's `frame_size` (and a buffer of exactly that size). -/
theorem decodeApi_loss_eq {o : Oracle} (fmt : Fmt) (data : Option Bytes) (len frame_size fec : Int) (r : Run)
    (hpos : 0 < frame_size) (hch : r.st.channels = 1 ∨ r.st.channels = 2)
    (hloss : data = none ∨ len ≤ 0 ∨ fec ≠ 0) :
    ∃ sc, decodeApi o fmt data len frame_size fec r =
      decodeNative o data len { buf := .pcm, off := 0, cap := frame_size * r.st.channels } frame_size fec false sc r := by
  unfold decodeApi
  rw [if_neg (by omega)]
  cases fmt with
  | f32 => exact ⟨false, rfl⟩
  | i16 =>
    have hc : ¬ (data.isSome = true ∧ len > 0 ∧ fec = 0) := by
      rintro ⟨h1, h2, h3⟩
      rcases hloss with h | h | h
      · rw [h] at h1; cases h1
      · omega
      · exact h h3
    simp only [if_neg hc]
    have hch' : ¬ ¬ (r.st.channels = 1 ∨ r.st.channels = 2) := by simp [hch]
    rw [if_neg hch']
    exact ⟨_, rfl⟩
  | i24 =>
    have hc : ¬ (data.isSome = true ∧ len > 0 ∧ fec = 0) := by
      rintro ⟨h1, h2, h3⟩
      rcases hloss with h | h | h
      · rw [h] at h1; cases h1
      · omega
      · exact h h3
    simp only [if_neg hc]
    have hch' : ¬ ¬ (r.st.channels = 1 ∨ r.st.channels = 2) := by simp [hch]
    rw [if_neg hch']
    exact ⟨_, rfl⟩

/-- :756-762 — a FEC request on a packet that cannot carry usable LBRR data (the request is shorter
    than one frame of the packet, or the packet or the previous packet is CELT-only) IS a
    concealment request: same return value, same run (state, inner calls, accesses). -/
theorem fec_degrades_eq (o : Oracle) (bs : Bytes) (len : Int) (pcm : Ptr) (frame_size : Int) (sd sc : Bool) (r : Run)
    (p : Parsed) (hlen : 0 < len) (hp : parseImpl sd (bs.take len.toNat) = .ok p)
    (hcond : frame_size < (samplesPerFrame ((bs.take len.toNat).headD 0) r.st.Fs.toNat : Int) ∨
      ((getMode ((bs.take len.toNat).headD 0) : Nat) : Int) = MODE_CELT ∨ r.st.mode = MODE_CELT) :
    (decodeNative o (some bs) len pcm frame_size 1 sd sc r).ret = (decodeNative o none 0 pcm frame_size 0 sd sc r).ret ∧
    (decodeNative o (some bs) len pcm frame_size 1 sd sc r).run = (decodeNative o none 0 pcm frame_size 0 sd sc r).run := by
  have hL : decodeNative o (some bs) len pcm frame_size 1 sd sc r =
      if ¬ validateOk r.st = true then .mk' (.abort, r) 0
      else if cmod frame_size (r.st.Fs / 400) ≠ 0 then .mk' (.ret BAD_ARG, r) 0
      else .mk' (nativePlcLoop o frame_size pcm 0 r) p.packetOffset := by
    unfold decodeNative
    by_cases hv : ¬ validateOk r.st = true
    · rw [if_pos hv, if_pos hv]
    rw [if_neg hv, if_neg hv]
    have h1 : ¬ ((1 : Int) < 0 ∨ (1 : Int) > 1) := by omega
    rw [if_neg h1]
    by_cases hm : cmod frame_size (r.st.Fs / 400) ≠ 0
    · have a : ((1 : Int) ≠ 0 ∨ len = 0 ∨ (some bs).isNone = true) ∧ cmod frame_size (r.st.Fs / 400) ≠ 0 :=
        ⟨Or.inl (by omega), hm⟩
      rw [if_pos a, if_pos hm]
    · have a : ¬ (((1 : Int) ≠ 0 ∨ len = 0 ∨ (some bs).isNone = true) ∧ cmod frame_size (r.st.Fs / 400) ≠ 0) := fun h => hm h.2
      have c : ¬ (len = 0 ∨ (some bs).isNone = true) := by simp; omega
      have e : ¬ len < 0 := by omega
      rw [if_neg a, if_neg c, if_neg e, if_neg hm]
      simp only [Option.getD_some, hp]
      have f : (1 : Int) ≠ 0 := by omega
      rw [if_pos f]
      unfold nativeFec
      rw [if_pos hcond]
      unfold nativePlc
      rw [if_neg hv, if_neg hm]
  have hR : decodeNative o none 0 pcm frame_size 0 sd sc r =
      if ¬ validateOk r.st = true then .mk' (.abort, r) 0
      else if cmod frame_size (r.st.Fs / 400) ≠ 0 then .mk' (.ret BAD_ARG, r) 0
      else .mk' (nativePlcLoop o frame_size pcm 0 r) 0 := by
    unfold decodeNative
    by_cases hv : ¬ validateOk r.st = true
    · rw [if_pos hv, if_pos hv]
    rw [if_neg hv, if_neg hv]
    have h1 : ¬ ((0 : Int) < 0 ∨ (0 : Int) > 1) := by omega
    rw [if_neg h1]
    by_cases hm : cmod frame_size (r.st.Fs / 400) ≠ 0
    · have b : ((0 : Int) ≠ 0 ∨ (0 : Int) = 0 ∨ (none : Option Bytes).isNone = true) ∧ cmod frame_size (r.st.Fs / 400) ≠ 0 :=
        ⟨Or.inr (Or.inl rfl), hm⟩
      rw [if_pos b, if_pos hm]
    · have b : ¬ (((0 : Int) ≠ 0 ∨ (0 : Int) = 0 ∨ (none : Option Bytes).isNone = true) ∧ cmod frame_size (r.st.Fs / 400) ≠ 0) :=
        fun h => hm h.2
      have d : ((0 : Int) = 0 ∨ (none : Option Bytes).isNone = true) := Or.inl rfl
      rw [if_neg b, if_pos d, if_neg hm]
  rw [hL, hR]
  by_cases hv : ¬ validateOk r.st = true
  · rw [if_pos hv, if_pos hv]; exact ⟨rfl, rfl⟩
  rw [if_neg hv, if_neg hv]
  by_cases hm : cmod frame_size (r.st.Fs / 400) ≠ 0
  · rw [if_pos hm, if_pos hm]; exact ⟨rfl, rfl⟩
  · rw [if_neg hm, if_neg hm]; exact ⟨rfl, rfl⟩

/-- What a FEC frame asks of the layers (:440, :471, :573): SILK decodes the LBRR data
    (`lost_flag = 2`), no redundancy is parsed, and the CELT layer is given no data (it conceals). -/
theorem fec_frame_layers (o : Oracle) (b : Body) (off : Int) (hd : b.data = some off) (hf : b.fec ≠ 0) (tell : Int)
    (r : Run) (st : DecState) (red : Red) :
    silkLost b = 2 ∧ (redStage o b tell r).1.redundancy = 0 ∧ (redStage o b tell r).2 = r ∧
    (mainArgs st b red).dataOff = none := by
  refine ⟨?_, ?_, ?_, ?_⟩
  · unfold silkLost; simp [hd, hf]
  · unfold redStage; simp [hf]
  · unfold redStage; simp [hf]
  · unfold mainArgs; simp [hf]

/-- :763-788 — FEC on a packet that may carry LBRR data: concealment of exactly
    `frame_size − packet_frame_size` samples at the start of the buffer (skipped when that is 0),
    then the TOC state update, then ONE `opus_decode_frame(data, size[0], …, decode_fec = 1)` that
    writes `packet_frame_size` samples at the end of the buffer; the call returns `frame_size`. -/
theorem nativeFec_shape {o : Oracle} (ho : OracleOk o) {st0 : DecState} {cap0 : Int} {pcm : Ptr} {frame_size : Int}
    {toc : Nat} {off0 sz0 : Int} {r : Run} {u : Int} (hg : Good st0 cap0 r) (hu : Units r.st u) (ht : toc < 256)
    (hmul : cmod frame_size (r.st.Fs / 400) = 0) (hoff : 0 ≤ off0) (hsz : 0 ≤ sz0 ∧ sz0 ≤ 1275)
    (hroom : 0 ≤ pcm.off ∧ pcm.off + frame_size * r.st.channels ≤ pcm.cap) (hcap : PtrCapOk st0 cap0 pcm)
    (hcond : ¬ (frame_size < ((samplesPerFrame toc r.st.Fs.toNat : Nat) : Int) ∨ ((getMode toc : Nat) : Int) = MODE_CELT ∨
      r.st.mode = MODE_CELT)) :
    ∃ (r1 : Run) (v : Int) (r3 : Run),
      ((frame_size - ((samplesPerFrame toc r.st.Fs.toNat : Nat) : Int) = 0 ∧ r1 = r) ∨
       (0 < frame_size - ((samplesPerFrame toc r.st.Fs.toNat : Nat) : Int) ∧
        nativePlc o pcm (frame_size - ((samplesPerFrame toc r.st.Fs.toNat : Nat) : Int)) r =
          (.ret (frame_size - ((samplesPerFrame toc r.st.Fs.toNat : Nat) : Int)), r1))) ∧
      decodeFrame o (some off0) sz0 (pcm.add (r.st.channels * (frame_size - ((samplesPerFrame toc r.st.Fs.toNat : Nat) : Int))))
        ((samplesPerFrame toc r.st.Fs.toNat : Nat) : Int) 1
        (r1.setSt (setToc r1.st ((getMode toc : Nat) : Int) ((getBandwidth toc : Nat) : Int)
          ((samplesPerFrame toc r.st.Fs.toNat : Nat) : Int) ((getNbChannels toc : Nat) : Int))) = (.ret v, r3) ∧
      0 < v ∧
      nativeFec o pcm frame_size ((samplesPerFrame toc r.st.Fs.toNat : Nat) : Int) ((getMode toc : Nat) : Int)
        ((getBandwidth toc : Nat) : Int) ((getNbChannels toc : Nat) : Int) off0 sz0 r =
        (.ret frame_size, r3.setSt { r3.st with last_packet_duration := frame_size }) := by
  have hupos := hu.pos
  have hch := hg.inv.ch
  obtain ⟨htoc, hm0, _⟩ := toc_ok hg.inv.fs ht
  have hpfs := tocOk_pfs htoc hu.u400 hm0
  generalize hpfs_eq : ((samplesPerFrame toc r.st.Fs.toNat : Nat) : Int) = pfs at *
  have hge : pfs ≤ frame_size := by omega
  have hmul' := hmul
  rw [hu.u400, cmod_nonneg (by omega)] at hmul'
  have hgapmul : cmod (frame_size - pfs) (r.st.Fs / 400) = 0 := by
    rw [hu.u400, cmod_nonneg (by omega)]
    rcases hpfs with h | h | h | h | h | h <;> rw [h] <;> exact emod_sub_multiple _ hmul'
  have hroomgap : 0 ≤ pcm.off ∧ pcm.off + (frame_size - pfs) * r.st.channels ≤ pcm.cap := by
    refine ⟨hroom.1, ?_⟩
    rcases hch with h | h <;> rw [h] at hroom ⊢ <;> omega
  -- the gap
  have hgap : ∃ r1 : Run, fecGap o pcm (frame_size - pfs) r = (.ret 0, r1) ∧ Good st0 cap0 r1 ∧
      ((frame_size - pfs = 0 ∧ r1 = r) ∨ (0 < frame_size - pfs ∧ nativePlc o pcm (frame_size - pfs) r = (.ret (frame_size - pfs), r1))) := by
    unfold fecGap
    by_cases h0 : frame_size - pfs = 0
    · have hne : ¬ (frame_size - pfs ≠ 0) := by simp [h0]
      rw [if_neg hne]
      exact ⟨r, rfl, hg, Or.inl ⟨h0, rfl⟩⟩
    · have hpos : 0 < frame_size - pfs := by omega
      obtain ⟨r', e, g, _, _⟩ := nativePlc_spec ho hg hu hgapmul hroomgap hcap
      have hret : plcRet r.st (frame_size - pfs) = frame_size - pfs := by
        rcases plcRet_cases hu hgapmul with ⟨_, h⟩ | ⟨h, _⟩
        · exact h
        · omega
      rw [hret] at e
      simp only [ne_eq, h0, not_false_eq_true, ↓reduceIte, e]
      have : ¬ frame_size - pfs < 0 := by omega
      simp only [this, ↓reduceIte, not_true_eq_false]
      exact ⟨r', rfl, g, Or.inr ⟨hpos, rfl⟩⟩
  obtain ⟨r1, e1, g1, hshape⟩ := hgap
  have hfs1 : r1.st.Fs = r.st.Fs := by rw [g1.fs, hg.fs]
  have hch1 : r1.st.channels = r.st.channels := by rw [g1.ch, hg.ch]
  have hinv2 := setToc_inv g1.inv ht
  rw [hfs1, hpfs_eq] at hinv2
  have g2 : Good st0 cap0 (r1.setSt (setToc r1.st ((getMode toc : Nat) : Int) ((getBandwidth toc : Nat) : Int) pfs
      ((getNbChannels toc : Nat) : Int))) := g1.setSt hinv2 rfl rfl
  have hu2 : Units (r1.setSt (setToc r1.st ((getMode toc : Nat) : Int) ((getBandwidth toc : Nat) : Int) pfs
      ((getNbChannels toc : Nat) : Int))).st u := hu.congr (by simp only [Run.setSt_st, setToc]; exact hfs1)
  have hroom2 : (pcm.add (r.st.channels * (frame_size - pfs))).room (pfs * r.st.channels) := by
    refine ⟨?_, ?_, ?_⟩
    · simp only [Ptr.add_off]; rcases hch with h | h <;> rw [h] <;> omega
    · rcases hch with h | h <;> rw [h] <;> omega
    · simp only [Ptr.add_off, Ptr.add_cap]; rcases hch with h | h <;> rw [h] at hroom ⊢ <;> omega
  have hlast : ∃ v r3, decodeFrame o (some off0) sz0 (pcm.add (r.st.channels * (frame_size - pfs))) pfs 1
      (r1.setSt (setToc r1.st ((getMode toc : Nat) : Int) ((getBandwidth toc : Nat) : Int) pfs
        ((getNbChannels toc : Nat) : Int))) = (.ret v, r3) ∧ 0 < v := by
    by_cases h2 : 2 ≤ sz0
    · obtain ⟨r3, e3, _, _⟩ := decodeFrame_data ho (off := off0) (len := sz0)
        (pcm := pcm.add (r.st.channels * (frame_size - pfs))) (frame_size := pfs) (fec := 1) g2 hu2
        (by simp only [Run.setSt_st, setToc]; exact hm0) (by omega) hoff
        (by simp only [Run.setSt_st, setToc]; omega)
        (by simp only [Run.setSt_st, setToc]; rw [hch1]; exact hroom2) (hcap.add _)
      simp only [Run.setSt_st, setToc] at e3
      exact ⟨pfs, r3, e3, by omega⟩
    · have hmin : min (min pfs (48 * u)) (r1.setSt (setToc r1.st ((getMode toc : Nat) : Int)
          ((getBandwidth toc : Nat) : Int) pfs ((getNbChannels toc : Nat) : Int))).st.frame_size = pfs := by
        simp only [Run.setSt_st, setToc]; omega
      have hk : ∃ k : Nat, 1 ≤ k ∧ pfs = k * u := by
        rcases hpfs with h | h | h | h | h | h
        · exact ⟨1, by omega, by rw [h]; simp⟩
        · exact ⟨2, by omega, by rw [h]; simp⟩
        · exact ⟨4, by omega, by rw [h]; simp⟩
        · exact ⟨8, by omega, by rw [h]; simp⟩
        · exact ⟨16, by omega, by rw [h]; simp⟩
        · exact ⟨24, by omega, by rw [h]; simp⟩
      obtain ⟨k, hk1, hk⟩ := hk
      obtain ⟨v, r3, e3, _, _, hv0, _⟩ := decodeFrame_null ho (data := some off0) (len := sz0)
        (pcm := pcm.add (r.st.channels * (frame_size - pfs))) (frame_size := pfs) (fec := 1) k g2 hu2
        (Or.inl (by omega)) (by omega) (by rw [hmin]; exact hk) hk1
        (by rw [hmin]; simp only [Run.setSt_st, setToc]; rw [hch1]; exact hroom2) (hcap.add _)
      exact ⟨v, r3, e3, hv0⟩
  obtain ⟨v, r3, e3, hv0⟩ := hlast
  refine ⟨r1, v, r3, hshape, e3, hv0, ?_⟩
  unfold nativeFec
  simp only [if_neg hcond, e1]
  have : ¬ (0 : Int) < 0 := by omega
  simp only [this, ↓reduceIte, e3]
  have hn : ¬ v < 0 := by omega
  simp only [hn, ↓reduceIte]

end Opus.DecSkel
