import OpusProofs.EncSkelWfPad
/-
  OpusProofs.EncSkelWfMulti — the sub-packets of the multi-frame loop (opus_encoder.c:1680-1739) as a trace:
  every iteration's frame call returns a contract-shaped packet carrying the one ToC of the packet, and the frame
  lengths of the final packet are the payload lengths of the trace.  (The step lemma re-uses the argument of
  `multiStep_inv`, OpusProofs/EncSkelMulti.lean.)
-/
namespace Opus.EncSkel.Proofs
open Opus Opus.EncDecide Opus.EncSkel Opus.EncSkel.WfProofs

/-- The frame call of iteration `i`. -/
abbrev stepRes (c : MultiCtx) (d : Decided) (isSil : Int) (i : Nat) (fo : FrameOr) (a : MultiAcc) : FrameRes :=
  frameNative (subSt c i a.st) (subIn c d isSil i a.st a.totSize) fo

/-- What one successful loop iteration contributes. -/
def StepSub (c : MultiCtx) (d : Decided) (isSil : Int) (i : Nat) (fo : FrameOr) (a : MultiAcc) : Prop :=
  (multiStep c d isSil i fo a).lens = a.lens ++ [(stepRes c d isSil i fo a).payload.toNat] ∧
  (multiStep c d isSil i fo a).cfg0 = some (stepRes c d isSil i fo a).toc ∧
  (∀ t, a.cfg0 = some t → t = (stepRes c d isSil i fo a).toc) ∧
  ∃ m pd, outRange (stepRes c d isSil i fo a).toc [(stepRes c d isSil i fo a).payload.toNat] m pd =
    .ok { size := (stepRes c d isSil i fo a).ret.toNat, hdr := (stepRes c d isSil i fo a).hdr }

theorem multiStep_sub (s0 : St) (c : MultiCtx) (d : Decided) (isSil : Int) (i : Nat) (fo : FrameOr) (a : MultiAcc)
    (hp : MultiPre s0 c) (hi : (i : Int) < c.nbFrames) (h : Inv s0 c i a) (hf : a.fail = none)
    (hok' : (multiStep c d isSil i fo a).ok = true) :
    StepSub c d isSil i fo a := by
  unfold StepSub stepRes
  unfold multiStep at hok' ⊢
  unfold Inv at h
  rw [hf] at h hok' ⊢
  dsimp only at h hok' ⊢
  generalize hs : subSt c i a.st = s at hok' ⊢
  generalize hfi : subIn c d isSil i a.st a.totSize = fi at hok' ⊢
  by_cases hok : (a.ok && frameOk s fi fo && tocStable a.cfg0 (frameNative s fi fo)) = true
  · simp only [Bool.and_eq_true] at hok
    obtain ⟨⟨hao, hfo⟩, hts⟩ := hok
    have g := h hao
    obtain ⟨f1, f2, f3, f4, f5, f6⟩ := subSt_fields c i a.st
    rw [hs] at f1 f2 f3 f4 f5 f6
    have hq : cmQ a.st c = cmQ s0 c := by unfold cmQ; rw [g.bitrateBps, g.fs]
    obtain ⟨hq1, hq2⟩ := hp.q
    have hfit := hp.fit
    have hmul : ((i : Int) + 1) * cmQ s0 c ≤ c.nbFrames * cmQ s0 c :=
      Int.mul_le_mul_of_nonneg_right (by omega) (by omega)
    have hexp : ((i : Int) + 1) * cmQ s0 c = i * cmQ s0 c + cmQ s0 c := by rw [Int.add_mul]; omega
    have hcm : fi.maxDataBytes = cmQ s0 c := by
      rw [← hfi]; unfold subIn; dsimp only
      rw [currMax_eq a.st c a.totSize (by rw [hq]; have := g.tot; omega), hq]
    have hfsz : fi.frameSize = c.encFs := by rw [← hfi]; rfl
    have hpre : FramePre s fi := by
      refine ⟨by omega, by omega, ?_, ?_⟩
      · rw [f1, g.mode]; exact hp.mode
      · rw [f1, f2, g.mode, g.bandwidth]; exact hp.bwS
    have hpost := frameNative_post s fi fo hpre hfo
    generalize frameNative s fi fo = r at *
    obtain ⟨p1, p2, p3, p4, p5, p6, p7, p8, p9⟩ := hpost
    rw [if_neg (by rw [p1]; simp), if_neg (by omega)]
    -- the ToC of this sub-frame announces the coded duration
    have htoc : ∃ bw, r.toc = genToc s0.mode (s0.fs / c.encFs) bw s0.streamChannels ∧
        (s0.mode ≠ MODE_SILK_ONLY → bw = s0.bandwidth) ∧
        (s0.mode = MODE_SILK_ONLY → bw = BW_NB ∨ bw = BW_MB ∨ bw = BW_WB) := by
      obtain ⟨bw, ht, hb1, hb2⟩ := p8
      rw [hfsz, f3, g.fs, f1, g.mode, f6, g.streamChannels] at ht
      rw [f1, g.mode] at hb1 hb2
      rw [f2, g.bandwidth] at hb1
      exact ⟨bw, ht, hb1, hb2⟩
    have hspf : Framing.samplesPerFrame r.toc 8000 = spf8k (s0.fs / c.encFs) := by
      obtain ⟨bw, ht, hb1, hb2⟩ := htoc
      rw [ht]
      apply genToc_spf8k
      have hmode := hp.mode
      unfold ModeOk at hmode
      rcases hmode with hm | hm | hm
      · left
        refine ⟨hm, ?_, hb2 hm⟩
        rcases hp.rate with h | ⟨_, _, h | h⟩
        · exact Or.inl h
        · exact Or.inr (Or.inl h)
        · exact Or.inr (Or.inr h)
      · right; left
        have hne : s0.mode ≠ MODE_SILK_ONLY := by rw [hm]; decide
        refine ⟨hm, ?_, by rw [hb1 hne]; exact hp.bwH hm⟩
        rcases hp.rate with h | ⟨h, _⟩
        · exact h
        · exact absurd h hne
      · right; right
        have hne : s0.mode ≠ MODE_SILK_ONLY := by rw [hm]; decide
        refine ⟨hm, ?_, by rw [hb1 hne]; exact hp.bwC.1, by rw [hb1 hne]; exact hp.bwC.2⟩
        rcases hp.rate with h | ⟨h, _⟩
        · exact h
        · exact absurd h hne
    have hnsp := nb_spf s0 c hp i hi
    have hcat : catSpec a.cfg0 a.lens.length
        { tocCfg := r.toc, lens := [r.payload.toNat], size := r.ret.toNat, hdr := r.hdr } = OPUS_OK ∧
        (match a.cfg0 with | none => some r.toc | some c0 => some c0) = some r.toc := by
      unfold catSpec
      dsimp only
      rw [if_neg (by omega), g.len]
      by_cases hi0 : i = 0
      · rw [g.cfg0 hi0]
        dsimp only
        subst hi0
        simp only [Bool.false_eq_true, if_false, List.length_cons, List.length_nil, hspf]
        rw [if_neg (by simp), if_neg (by simp at hnsp ⊢; omega), if_neg (by simp; omega)]
        exact ⟨rfl, by simp⟩
      · obtain ⟨t, _, ht, _, _, _⟩ := g.cfgS (by omega)
        rw [ht] at hts ⊢
        unfold tocStable at hts
        simp only [Bool.or_eq_true, decide_eq_true_eq] at hts
        have htt : t = r.toc := by
          rcases hts with h' | h'
          · omega
          · exact h'
        subst htt
        dsimp only
        simp only [List.length_cons, List.length_nil, hspf]
        rw [if_neg (by simp), if_neg (by simp), if_neg (by simp at hnsp ⊢; omega), if_neg (by simp; omega)]
        exact ⟨rfl, by simp⟩
    rw [hcat.1, if_neg (by decide)]
    refine ⟨rfl, hcat.2, ?_, frame_sub s fi r ⟨p1, p2, p3, p4, p5, p6, p7, p8, p9⟩⟩
    intro t ht
    have := hcat.2
    rw [ht] at this
    simpa using this
  · have hokf : (a.ok && frameOk s fi fo && tocStable a.cfg0 (frameNative s fi fo)) = false := by
      simpa using hok
    rw [hokf] at hok'
    exfalso
    repeat' split at hok'
    all_goals simp at hok'

/-- The frame calls of the loop, in order (same recursion as `multiLoop`). -/
def multiTrace (c : MultiCtx) (d : Decided) (isSil : Int) : Nat → Nat → List FrameOr → MultiAcc → List FrameRes
  | 0, _, _, _ => []
  | n + 1, i, fos, a =>
    stepRes c d isSil i (fos.headD default) a ::
      multiTrace c d isSil n (i + 1) fos.tail (multiStep c d isSil i (fos.headD default) a)

theorem multiStep_fail_some (c : MultiCtx) (d : Decided) (isSil : Int) (i : Nat) (fo : FrameOr) (a : MultiAcc) (r : NatRes)
    (h : a.fail = some r) : multiStep c d isSil i fo a = a := by
  unfold multiStep; rw [h]

theorem multiLoop_fail_some (c : MultiCtx) (d : Decided) (isSil : Int) (n : Nat) :
    ∀ (i : Nat) (fos : List FrameOr) (a : MultiAcc) (r : NatRes), a.fail = some r → multiLoop c d isSil n i fos a = a := by
  induction n with
  | zero => intro i fos a r _; rfl
  | succ n ih =>
    intro i fos a r h
    unfold multiLoop
    rw [multiStep_fail_some c d isSil i _ a r h]
    exact ih (i + 1) fos.tail a r h

theorem multiStep_ok_mono (c : MultiCtx) (d : Decided) (isSil : Int) (i : Nat) (fo : FrameOr) (a : MultiAcc)
    (h : (multiStep c d isSil i fo a).ok = true) : a.ok = true := by
  cases hf : a.fail with
  | some r => rw [multiStep_fail_some c d isSil i fo a r hf] at h; exact h
  | none =>
    unfold multiStep at h
    rw [hf] at h
    dsimp only at h
    repeat' split at h
    all_goals (simp only [Bool.and_eq_true] at h; exact h.1.1)

theorem multiLoop_ok_mono (c : MultiCtx) (d : Decided) (isSil : Int) (n : Nat) :
    ∀ (i : Nat) (fos : List FrameOr) (a : MultiAcc), (multiLoop c d isSil n i fos a).ok = true → a.ok = true := by
  induction n with
  | zero => intro i fos a h; exact h
  | succ n ih =>
    intro i fos a h
    unfold multiLoop at h
    exact multiStep_ok_mono c d isSil i _ a (ih _ _ _ h)

theorem multiLoop_fail_mono (c : MultiCtx) (d : Decided) (isSil : Int) (n i : Nat) (fos : List FrameOr) (a : MultiAcc)
    (h : (multiLoop c d isSil n i fos a).fail = none) : a.fail = none := by
  cases hf : a.fail with
  | none => rfl
  | some r => rw [multiLoop_fail_some c d isSil n i fos a r hf, hf] at h; cases h

theorem multiStep_cfg0 (c : MultiCtx) (d : Decided) (isSil : Int) (i : Nat) (fo : FrameOr) (a : MultiAcc) (t : Nat)
    (h : a.cfg0 = some t) : (multiStep c d isSil i fo a).cfg0 = some t := by
  cases hf : a.fail with
  | some r => rw [multiStep_fail_some c d isSil i fo a r hf]; exact h
  | none =>
    unfold multiStep
    rw [hf]
    dsimp only
    split
    · exact h
    · split
      · exact h
      · split
        · exact h
        · dsimp only; rw [h]

theorem multiLoop_cfg0 (c : MultiCtx) (d : Decided) (isSil : Int) (n : Nat) :
    ∀ (i : Nat) (fos : List FrameOr) (a : MultiAcc) (t : Nat), a.cfg0 = some t →
      (multiLoop c d isSil n i fos a).cfg0 = some t := by
  induction n with
  | zero => intro i fos a t h; exact h
  | succ n ih =>
    intro i fos a t h
    unfold multiLoop
    exact ih _ _ _ t (multiStep_cfg0 c d isSil i _ a t h)

/-- What is known of every frame call of a loop that ended without failure and within the contracts. -/
def TraceOk (tr : List FrameRes) (cfg : Option Nat) : Prop :=
  ∀ r ∈ tr, cfg = some r.toc ∧
    ∃ m pd, outRange r.toc [r.payload.toNat] m pd = .ok { size := r.ret.toNat, hdr := r.hdr }

theorem multiLoop_trace (s0 : St) (c : MultiCtx) (d : Decided) (isSil : Int) (hp : MultiPre s0 c) :
    ∀ (n i : Nat) (fos : List FrameOr) (a : MultiAcc), Inv s0 c i a → ((i : Int) + n ≤ c.nbFrames) →
      (multiLoop c d isSil n i fos a).fail = none → (multiLoop c d isSil n i fos a).ok = true →
      (multiLoop c d isSil n i fos a).lens = a.lens ++ (multiTrace c d isSil n i fos a).map (·.payload.toNat) ∧
      TraceOk (multiTrace c d isSil n i fos a) (multiLoop c d isSil n i fos a).cfg0 := by
  intro n
  induction n with
  | zero =>
    intro i fos a _ _ _ _
    exact ⟨by simp [multiLoop, multiTrace], by intro r hr; simp [multiTrace] at hr⟩
  | succ n ih =>
    intro i fos a h hle hf hok
    unfold multiLoop at hf hok ⊢
    unfold multiTrace
    have hf1 := multiLoop_fail_mono c d isSil n (i + 1) fos.tail _ hf
    have hok1 := multiLoop_ok_mono c d isSil n (i + 1) fos.tail _ hok
    have hfa : a.fail = none := by
      cases hfa : a.fail with
      | none => rfl
      | some r => rw [multiStep_fail_some c d isSil i _ a r hfa, hfa] at hf1; cases hf1
    obtain ⟨s1, s2, _, s4⟩ := multiStep_sub s0 c d isSil i (fos.headD default) a hp (by omega) h hfa hok1
    have hs := multiStep_inv s0 c d isSil i (fos.headD default) a hp (by omega) h
    obtain ⟨l1, l2⟩ := ih (i + 1) fos.tail _ hs (by push_cast; omega) hf hok
    refine ⟨?_, ?_⟩
    · rw [l1, s1]; simp
    · intro r hr
      rcases List.mem_cons.mp hr with rfl | hr
      · exact ⟨multiLoop_cfg0 c d isSil n _ _ _ _ s2, s4⟩
      · exact l2 r hr

/-- **The sub-packets of the multi-frame path.**  When `multiFrame` (opus_encoder.c:1616-1747) returns a packet
    within the contracts: the frame lengths of the packet are the payload lengths of the loop's frame calls, in order;
    every frame call returned a contract-shaped packet carrying the ToC configuration of the final packet; and the
    final packet is the contract output for `maxlen = repacketize_len`. -/
theorem multiFrame_trace (d : Decided) (isSil fsz out cbr : Int) (fos : List FrameOr)
    (hp : MultiPre d.st (multiCtx d.st fsz out cbr))
    (hok : (multiFrame d isSil fsz out cbr fos).ok = true) (hret : 1 ≤ (multiFrame d isSil fsz out cbr fos).ret) :
    (multiFrame d isSil fsz out cbr fos).pkt.lens =
      (multiTrace (multiCtx d.st fsz out cbr) d isSil (multiCtx d.st fsz out cbr).nbFrames.toNat 0 fos
        (acc0 (multiSt0 d.st))).map (·.payload.toNat) ∧
    TraceOk (multiTrace (multiCtx d.st fsz out cbr) d isSil (multiCtx d.st fsz out cbr).nbFrames.toNat 0 fos
        (acc0 (multiSt0 d.st))) (some (multiFrame d isSil fsz out cbr fos).pkt.tocCfg) ∧
    ∃ pad, outRange (multiFrame d isSil fsz out cbr fos).pkt.tocCfg (multiFrame d isSil fsz out cbr fos).pkt.lens
        (multiCtx d.st fsz out cbr).repacketizeLen.toNat pad =
      .ok { size := (multiFrame d isSil fsz out cbr fos).pkt.size, hdr := (multiFrame d isSil fsz out cbr fos).pkt.hdr } := by
  unfold multiFrame at hok hret ⊢
  dsimp only at hok hret ⊢
  generalize multiCtx d.st fsz out cbr = c at *
  obtain ⟨m1, m2, m3, m4, m5, m6⟩ := multiSt0_fields d.st
  have h0 := inv_start d.st c (multiSt0 d.st) ⟨m1, m2, m3, m4, m5, m6⟩
  obtain ⟨hnb2, hnb6⟩ := hp.nb
  have hl := multiLoop_inv d.st c d isSil hp c.nbFrames.toNat 0 fos _ h0 (by omega)
  have ht := multiLoop_trace d.st c d isSil hp c.nbFrames.toNat 0 fos _ h0 (by omega)
  have hacc : ({ st := multiSt0 d.st, totSize := 0, dtxCount := 0, cfg0 := none, lens := [], calls := [], ok := true, fail := none } : MultiAcc) = acc0 (multiSt0 d.st) := rfl
  rw [hacc] at hok hret ⊢
  generalize multiTrace c d isSil c.nbFrames.toNat 0 fos (acc0 (multiSt0 d.st)) = tr at *
  generalize multiLoop c d isSil c.nbFrames.toNat 0 fos (acc0 (multiSt0 d.st)) = a at *
  unfold Inv at hl
  cases hf : a.fail with
  | some r =>
    rw [hf] at hl hok
    dsimp only at hl hok
    rw [hl] at hok; cases hok
  | none =>
    rw [hf] at hl hok hret
    dsimp only at hl hok hret ⊢
    have hao : a.ok = true := by
      split at hok <;> exact hok
    obtain ⟨t1, t2⟩ := ht hf hao
    have g := hl hao
    rw [Nat.zero_add] at g
    obtain ⟨t, bw, hcfg, _⟩ := g.cfgS (by omega)
    have hgetD : a.cfg0.getD 0 = t := by rw [hcfg]; rfl
    split
    · rename_i r hr
      dsimp only
      refine ⟨by simpa [acc0] using t1, ?_, ⟨_, hr⟩⟩
      rw [hgetD, ← hcfg]; exact t2
    · rename_i e he
      rw [he] at hret
      simp [natErr, OPUS_INTERNAL_ERROR] at hret
    · rename_i hne1 hne2
      exfalso
      split at hret
      · exact hne1 _ (by assumption)
      · exact hne2 _ (by assumption)
      · simp [natErr, OPUS_INTERNAL_ERROR] at hret

/-- The bytes the frame call `r` wrote for payload contents `f` (header, payload, zero padding up to `ret`). -/
def subBytes (r : FrameRes) (f : Bytes) : Bytes := pktBytes r.hdr [f] r.ret.toNat

theorem trace_subs (cfg : Nat) : ∀ (tr : List FrameRes) (frames : List Bytes),
    TraceOk tr (some cfg) → frames.map List.length = tr.map (·.payload.toNat) →
    ∃ subs : List Sub, subs.map (subPkt cfg) = List.zipWith subBytes tr frames ∧ subs.flatMap (·.1) = frames ∧
      ∀ x ∈ subs, SubOk cfg x := by
  intro tr
  induction tr with
  | nil =>
    intro frames _ hfl
    have : frames = [] := by simpa using hfl
    subst this
    exact ⟨[], rfl, rfl, by intro x hx; cases hx⟩
  | cons r tr ih =>
    intro frames htr hfl
    cases frames with
    | nil => simp at hfl
    | cons f fs =>
      simp only [List.map_cons, List.cons.injEq] at hfl
      obtain ⟨hf, hfs⟩ := hfl
      obtain ⟨hc, m, pd, hout⟩ := htr r (by simp)
      have hcfg : cfg = r.toc := by simpa using hc
      obtain ⟨subs, h1, h2, h3⟩ := ih fs (fun x hx => htr x (by simp [hx])) hfs
      refine ⟨([f], m, pd) :: subs, ?_, ?_, ?_⟩
      · simp only [List.map_cons, List.zipWith_cons_cons, h1, List.cons.injEq, and_true]
        unfold subPkt subBytes
        simp only [List.map_cons, List.map_nil, hf, hcfg, hout]
      · simp [h2]
      · intro x hx
        rcases List.mem_cons.mp hx with rfl | hx
        · exact ⟨by simp, _, by simp only [List.map_cons, List.map_nil, hf, hcfg]; exact hout⟩
        · exact h3 x hx

theorem encodeNative_multi_eq (s : St) (fuzz : Bool) (fsz out : Int) (o : NatOr)
    (he : entryCheck s fsz out = none) (htm : takesMulti s fuzz fsz out o = true) :
    encodeNative s fuzz fsz out o =
      { multiOf s fuzz fsz out o with ok := (stOk s && legalFrame s.fs fsz) && (multiOf s fuzz fsz out o).ok } := by
  unfold takesMulti at htm
  simp only [Bool.and_eq_true, Bool.not_eq_true'] at htm
  obtain ⟨hg, hmu⟩ := htm
  unfold encodeNative
  rw [he]
  dsimp only
  rw [if_neg (by rw [hg]; simp), if_pos hmu]

/-- **wellformed_multiframe for `opus_encode_native`.**  On the multi-frame path (opus_encoder.c:1616-1747), for every
    success return within the contracts and ANY payload contents of the recorded lengths: the frame lengths of the
    packet are the payload lengths of the loop's frame calls, and the repacketiser MODEL run — `init`, one `cat` per
    sub-frame on exactly the bytes that frame call wrote (`subBytes`: code 0, 1-byte DTX, or padded code 3),
    `out_range_impl(rp, 0, nb_frames, data, repacketize_len, 0, pad, NULL, 0)` — accepts every `cat` and returns
    exactly the emitted bytes. -/
theorem encode_multi_wf (s : St) (fuzz : Bool) (fsz out : Int) (o : NatOr)
    (he : entryCheck s fsz out = none) (htm : takesMulti s fuzz fsz out o = true)
    (hok : (encodeNative s fuzz fsz out o).ok = true)
    (frames : List Bytes) (hfl : frames.map List.length = (encodeNative s fuzz fsz out o).pkt.lens) :
    (multiTrace (ctxOf s fuzz fsz out o) (decOf s fuzz fsz out o) (effSilence (budgetSt s o fsz out) o)
        (ctxOf s fuzz fsz out o).nbFrames.toNat 0 o.frames (acc0 (multiSt0 (decOf s fuzz fsz out o).st))).map
      (·.payload.toNat) = (encodeNative s fuzz fsz out o).pkt.lens ∧
    ∃ pad, repackRun
        (List.zipWith subBytes
          (multiTrace (ctxOf s fuzz fsz out o) (decOf s fuzz fsz out o) (effSilence (budgetSt s o fsz out) o)
            (ctxOf s fuzz fsz out o).nbFrames.toNat 0 o.frames (acc0 (multiSt0 (decOf s fuzz fsz out o).st)))
          frames)
        frames.length (ctxOf s fuzz fsz out o).repacketizeLen.toNat pad =
      .ok (pktBytes (encodeNative s fuzz fsz out o).pkt.hdr frames (encodeNative s fuzz fsz out o).pkt.size) := by
  have hp := encodeNative_pkt s fuzz fsz out o he hok
  have heq := encodeNative_multi_eq s fuzz fsz out o he htm
  rw [heq] at hok hfl hp ⊢
  dsimp only at hok hfl hp ⊢
  simp only [Bool.and_eq_true] at hok
  obtain ⟨⟨hst, hlg⟩, hmok⟩ := hok
  obtain ⟨hpost, _, _, hpre, _⟩ := multi_branch s fuzz fsz out o he htm hst hlg hmok
  obtain ⟨t1, t2, pad, t3⟩ := multiFrame_trace (decOf s fuzz fsz out o) (effSilence (budgetSt s o fsz out) o) fsz out
    (sizeBudget (analysisUpd s o) fsz out).cbr o.frames hpre hmok hpost.retLo
  obtain ⟨_, _, h4, h256, hlens, hd48, _⟩ := hp
  dsimp only at h4 h256 hlens hd48
  refine ⟨t1.symm, pad, ?_⟩
  generalize multiTrace (ctxOf s fuzz fsz out o) (decOf s fuzz fsz out o) (effSilence (budgetSt s o fsz out) o)
            (ctxOf s fuzz fsz out o).nbFrames.toNat 0 o.frames (acc0 (multiSt0 (decOf s fuzz fsz out o).st)) = tr at *
  generalize (ctxOf s fuzz fsz out o).repacketizeLen.toNat = maxlen at *
  unfold multiOf at *
  generalize multiFrame (decOf s fuzz fsz out o) (effSilence (budgetSt s o fsz out) o) fsz out
    (sizeBudget (analysisUpd s o) fsz out).cbr o.frames = r at *
  obtain ⟨subs, s1, s2, s3⟩ := trace_subs r.pkt.tocCfg tr frames t2 (by rw [hfl, t1])
  have hlne : r.pkt.lens ≠ [] := by
    intro h; rw [h] at t3; simp [EncSkel.outRange] at t3
  have hfne : frames ≠ [] := by
    intro h; apply hlne; rw [← hfl, h]; rfl
  have hne : subs ≠ [] := by intro h; rw [h] at s2; exact hfne s2.symm
  have hlen : frames.length = r.pkt.lens.length := by rw [← hfl]; simp
  have h8 := (RepackProofs.frameDur48_spf8 r.pkt.tocCfg (List.mem_range.mpr h256)).1
  have hd8 : (subs.flatMap (·.1)).length * Framing.samplesPerFrame r.pkt.tocCfg 8000 ≤ 960 := by
    rw [s2, hlen]; rw [h8] at hd48
    have : 6 * (r.pkt.lens.length * Framing.samplesPerFrame r.pkt.tocCfg 8000) ≤ 5760 := by
      rw [Nat.mul_comm (r.pkt.lens.length), ← Nat.mul_assoc]; exact hd48
    omega
  have hle : ∀ f ∈ subs.flatMap (·.1), f.length ≤ 1275 := by
    rw [s2]; intro f hf; apply hlens; rw [← hfl]; exact List.mem_map.mpr ⟨f, hf, rfl⟩
  have := repackRun_contract r.pkt.tocCfg subs h4 h256 s3 hne hle hd8 maxlen pad
  rw [s1, s2, hfl, t3] at this
  exact this

end Opus.EncSkel.Proofs
