import OpusProofs.EncSkelWfPad
/-
  OpusProofs.EncSkelWfMulti — the sub-packets of the multi-frame loop (opus_encoder.c:1680-1739) as a trace:
  every iteration's frame call returns a contract-shaped packet carrying the one ToC of the packet, and the frame
  lengths of the final packet are the payload lengths of the trace.  (The step lemma re-uses the argument of
  `multiStep_inv`, OpusProofs/EncSkelMulti.lean.)
-/
namespace Opus.EncSkel.Proofs
open Opus Opus.EncDecide Opus.EncSkel Opus.EncSkel.WfProofs

/-- The frame call of iteration `i`. -/
abbrev stepRes (c : MultiCtx) (d : Decided) (isSil : Int) (i : Nat) (fo : FrameOr) (a : MultiAcc) : FrameRes :=
  frameNative (subSt c i a.st) (subIn c d isSil i a.st a.totSize) fo

/-- What one successful loop iteration contributes. -/
def StepSub (c : MultiCtx) (d : Decided) (isSil : Int) (i : Nat) (fo : FrameOr) (a : MultiAcc) : Prop :=
  (multiStep c d isSil i fo a).lens = a.lens ++ [(stepRes c d isSil i fo a).payload.toNat] ∧
  (multiStep c d isSil i fo a).cfg0 = some (stepRes c d isSil i fo a).toc ∧
  (∀ t, a.cfg0 = some t → t = (stepRes c d isSil i fo a).toc) ∧
  ∃ m pd, outRange (stepRes c d isSil i fo a).toc [(stepRes c d isSil i fo a).payload.toNat] m pd =
    .ok { size := (stepRes c d isSil i fo a).ret.toNat, hdr := (stepRes c d isSil i fo a).hdr }

theorem multiStep_sub (s0 : St) (c : MultiCtx) (d : Decided) (isSil : Int) (i : Nat) (fo : FrameOr) (a : MultiAcc)
    (hp : MultiPre s0 c) (hi : (i : Int) < c.nbFrames) (h : Inv s0 c i a) (hf : a.fail = none)
    (hok' : (multiStep c d isSil i fo a).ok = true) :
    StepSub c d isSil i fo a := by
  unfold StepSub stepRes
  unfold multiStep at hok' ⊢
  unfold Inv at h
  rw [hf] at h hok' ⊢
  dsimp only at h hok' ⊢
  generalize hs : subSt c i a.st = s at hok' ⊢
  generalize hfi : subIn c d isSil i a.st a.totSize = fi at hok' ⊢
    by_cases hok : (a.ok && frameOk s fi fo && tocStable a.cfg0 (frameNative s fi fo)) = true
    · simp only [Bool.and_eq_true] at hok
      obtain ⟨⟨hao, hfo⟩, hts⟩ := hok
      have g := h hao
      obtain ⟨f1, f2, f3, f4, f5, f6⟩ := subSt_fields c i a.st
      rw [hs] at f1 f2 f3 f4 f5 f6
      have hq : cmQ a.st c = cmQ s0 c := by unfold cmQ; rw [g.bitrateBps, g.fs]
      obtain ⟨hq1, hq2⟩ := hp.q
      have hfit := hp.fit
      have hmul : ((i : Int) + 1) * cmQ s0 c ≤ c.nbFrames * cmQ s0 c :=
        Int.mul_le_mul_of_nonneg_right (by omega) (by omega)
      have hexp : ((i : Int) + 1) * cmQ s0 c = i * cmQ s0 c + cmQ s0 c := by rw [Int.add_mul]; omega
      have hcm : fi.maxDataBytes = cmQ s0 c := by
        rw [← hfi]; unfold subIn; dsimp only
        rw [currMax_eq a.st c a.totSize (by rw [hq]; have := g.tot; omega), hq]
      have hfsz : fi.frameSize = c.encFs := by rw [← hfi]; rfl
      have hpre : FramePre s fi := by
        refine ⟨by omega, by omega, ?_, ?_⟩
        · rw [f1, g.mode]; exact hp.mode
        · rw [f1, f2, g.mode, g.bandwidth]; exact hp.bwS
      have hpost := frameNative_post s fi fo hpre hfo
      generalize frameNative s fi fo = r at *
      obtain ⟨p1, p2, p3, p4, p5, p6, p7, p8, p9⟩ := hpost
      rw [if_neg (by rw [p1]; simp), if_neg (by omega)]
      -- the ToC of this sub-frame announces the coded duration
      have htoc : ∃ bw, r.toc = genToc s0.mode (s0.fs / c.encFs) bw s0.streamChannels ∧
          (s0.mode ≠ MODE_SILK_ONLY → bw = s0.bandwidth) ∧
          (s0.mode = MODE_SILK_ONLY → bw = BW_NB ∨ bw = BW_MB ∨ bw = BW_WB) := by
        obtain ⟨bw, ht, hb1, hb2⟩ := p8
        rw [hfsz, f3, g.fs, f1, g.mode, f6, g.streamChannels] at ht
        rw [f1, g.mode] at hb1 hb2
        rw [f2, g.bandwidth] at hb1
        exact ⟨bw, ht, hb1, hb2⟩
      have hspf : Framing.samplesPerFrame r.toc 8000 = spf8k (s0.fs / c.encFs) := by
        obtain ⟨bw, ht, hb1, hb2⟩ := htoc
        rw [ht]
        apply genToc_spf8k
        have hmode := hp.mode
        unfold ModeOk at hmode
        rcases hmode with hm | hm | hm
        · left
          refine ⟨hm, ?_, hb2 hm⟩
          rcases hp.rate with h | ⟨_, _, h | h⟩
          · exact Or.inl h
          · exact Or.inr (Or.inl h)
          · exact Or.inr (Or.inr h)
        · right; left
          have hne : s0.mode ≠ MODE_SILK_ONLY := by rw [hm]; decide
          refine ⟨hm, ?_, by rw [hb1 hne]; exact hp.bwH hm⟩
          rcases hp.rate with h | ⟨h, _⟩
          · exact h
          · exact absurd h hne
        · right; right
          have hne : s0.mode ≠ MODE_SILK_ONLY := by rw [hm]; decide
          refine ⟨hm, ?_, by rw [hb1 hne]; exact hp.bwC.1, by rw [hb1 hne]; exact hp.bwC.2⟩
          rcases hp.rate with h | ⟨h, _⟩
          · exact h
          · exact absurd h hne
      have hnsp := nb_spf s0 c hp i hi
      have hcat : catSpec a.cfg0 a.lens.length
          { tocCfg := r.toc, lens := [r.payload.toNat], size := r.ret.toNat, hdr := r.hdr } = OPUS_OK ∧
          (match a.cfg0 with | none => some r.toc | some c0 => some c0) = some r.toc := by
        unfold catSpec
        dsimp only
        rw [if_neg (by omega), g.len]
        by_cases hi0 : i = 0
        · rw [g.cfg0 hi0]
          dsimp only
          subst hi0
          simp only [Bool.false_eq_true, if_false, List.length_cons, List.length_nil, hspf]
          rw [if_neg (by simp), if_neg (by simp at hnsp ⊢; omega), if_neg (by simp; omega)]
          exact ⟨rfl, by simp⟩
        · obtain ⟨t, _, ht, _, _, _⟩ := g.cfgS (by omega)
          rw [ht] at hts ⊢
          unfold tocStable at hts
          simp only [Bool.or_eq_true, decide_eq_true_eq] at hts
          have htt : t = r.toc := by
            rcases hts with h' | h'
            · omega
            · exact h'
          subst htt
          dsimp only
          simp only [List.length_cons, List.length_nil, hspf]
          rw [if_neg (by simp), if_neg (by simp), if_neg (by simp at hnsp ⊢; omega), if_neg (by simp; omega)]
          exact ⟨rfl, by simp⟩
      rw [hcat.1, if_neg (by decide)]
      refine ⟨rfl, hcat.2, ?_, frame_sub s fi r ⟨p1, p2, p3, p4, p5, p6, p7, p8, p9⟩⟩
      intro t ht
      have := hcat.2
      rw [ht] at this
      simpa using this
    · have hokf : (a.ok && frameOk s fi fo && tocStable a.cfg0 (frameNative s fi fo)) = false := by
        simpa using hok
      rw [hokf] at hok'
      exfalso
      repeat' split at hok'
      all_goals simp at hok'

end Opus.EncSkel.Proofs
