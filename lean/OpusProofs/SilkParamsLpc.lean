import OpusProofs.SilkParamsStab
/-
  OpusProofs.SilkParamsLpc — the output of silk_NLSF2A always passes the codec's own
  stability test (silk_LPC_inverse_pred_gain ≠ 0), fits int16, and a non-zero inverse
  prediction gain is at least the 1/MAX_PREDICTION_POWER_GAIN threshold.
-/
namespace Opus.SilkParams
open Opus.Gen

/-! ### lengths -/

theorem bwexpLoop_length : ∀ (l : List Int) (c cm1 : Int), (bwexpLoop l c cm1).length = l.length := by
  intro l
  induction l with
  | nil => intro c cm1; simp [bwexpLoop]
  | cons x xs ih =>
    intro c cm1
    cases xs with
    | nil => simp [bwexpLoop]
    | cons y ys => simp only [bwexpLoop, List.length_cons]; rw [ih]; simp

theorem bwexpander32_length (l : List Int) (c : Int) : (bwexpander32 l c).length = l.length :=
  bwexpLoop_length l c _

theorem smulww_zero (x : Int) : smulww 0 x = 0 := by
  unfold smulww; rw [Int.zero_mul]; decide

theorem chirp_zero_step (cm1 : Int) : (0 : Int) + rshiftRound (0 * cm1) 16 = 0 := by
  rw [Int.zero_mul]; decide

/-- Bandwidth expansion with chirp 0 zeroes the filter. -/
theorem bwexpLoop_zero : ∀ (l : List Int) (cm1 : Int), bwexpLoop l 0 cm1 = List.replicate l.length 0 := by
  intro l
  induction l with
  | nil => intro cm1; simp [bwexpLoop]
  | cons x xs ih =>
    intro cm1
    cases xs with
    | nil => simp [bwexpLoop, smulww_zero]
    | cons y ys =>
      simp only [bwexpLoop, smulww_zero, chirp_zero_step, List.length_cons, List.replicate_succ]
      rw [ih cm1]
      simp [List.replicate_succ]

theorem lpcFitLoop_length (sh : Nat) : ∀ (n : Nat) (a : List Int) (idx : Nat),
    (lpcFitLoop sh n a idx).1.length = a.length := by
  intro n
  induction n with
  | zero => intro a idx; simp [lpcFitLoop]
  | succ n ih =>
    intro a idx
    unfold lpcFitLoop
    simp only
    split
    · rw [ih, bwexpander32_length]
    · rfl

theorem lpcFit_spec (a : List Int) (sh : Nat) :
    (lpcFit a sh).1.length = a.length ∧ (lpcFit a sh).2.length = a.length ∧ AllI16 (lpcFit a sh).1 := by
  unfold lpcFit
  simp only
  split
  · refine ⟨by simp [lpcFitLoop_length], by simp [lpcFitLoop_length], ?_⟩
    intro e he
    simp only [List.mem_map] at he
    obtain ⟨x, _, rfl⟩ := he
    exact wrap16_I16 _
  · refine ⟨by simp [lpcFitLoop_length], by simp [lpcFitLoop_length], ?_⟩
    intro e he
    simp only [List.mem_map] at he
    obtain ⟨x, _, rfl⟩ := he
    exact wrap16_I16 _

theorem requantQ12_spec (a : List Int) : (requantQ12 a).length = a.length ∧ AllI16 (requantQ12 a) := by
  unfold requantQ12
  refine ⟨by simp, ?_⟩
  intro e he
  simp only [List.mem_map] at he
  obtain ⟨x, _, rfl⟩ := he
  exact wrap16_I16 _

theorem requantQ12_zero (n : Nat) : requantQ12 (List.replicate n 0) = List.replicate n 0 := by
  unfold requantQ12
  rw [List.map_replicate]
  congr

/-! ### the stabilisation loop of silk_NLSF2A -/

/-- The all-zero filter of order 10 or 16 passes the test (its inverse gain is `2^30`). -/
theorem invGain_zero_filter : lpcInversePredGain (List.replicate 10 0) = 1073741824 ∧
    lpcInversePredGain (List.replicate 16 0) = 1073741824 := by
  constructor <;> decide +kernel

/-- In the last permitted iteration (`i = 15`) the chirp factor `65536 - (2 << 15)` is 0. -/
theorem last_chirp_zero : (65536 : Int) - lshift32 2 15 = 0 := by decide +kernel

theorem nlsf2aLoop_spec : ∀ (n i : Nat) (a32 aQ12 : List Int), n + i = 16 →
    (a32.length = 10 ∨ a32.length = 16) → aQ12.length = a32.length → AllI16 aQ12 →
    (n = 0 → lpcInversePredGain aQ12 ≠ 0) →
    lpcInversePredGain (nlsf2aLoop n i a32 aQ12) ≠ 0 ∧
    (nlsf2aLoop n i a32 aQ12).length = a32.length ∧ AllI16 (nlsf2aLoop n i a32 aQ12) := by
  intro n
  induction n with
  | zero => intro i a32 aQ12 _ _ hl hI h0; exact ⟨h0 rfl, hl, hI⟩
  | succ n ih =>
    intro i a32 aQ12 hni hlen hl hI _
    unfold nlsf2aLoop
    split
    · have hbl := bwexpander32_length a32 (65536 - lshift32 2 i)
      have hrq := requantQ12_spec (bwexpander32 a32 (65536 - lshift32 2 i))
      have := ih (i + 1) (bwexpander32 a32 (65536 - lshift32 2 i))
        (requantQ12 (bwexpander32 a32 (65536 - lshift32 2 i))) (by omega) (by rw [hbl]; exact hlen)
        hrq.1 hrq.2 (by
          intro hn
          have hi : i = 15 := by omega
          subst hi
          rw [last_chirp_zero]
          unfold bwexpander32
          rw [bwexpLoop_zero, requantQ12_zero]
          rcases hlen with h | h <;> rw [h]
          · rw [invGain_zero_filter.1]; decide
          · rw [invGain_zero_filter.2]; decide)
      exact ⟨this.1, by rw [this.2.1, hbl], this.2.2⟩
    · rename_i hne
      exact ⟨hne, hl, hI⟩

/-! ### a non-zero inverse prediction gain is above the threshold -/

theorem invGainLoop_ge : ∀ (k : Nat) (A : List Int) (g : Int),
    invGainLoop k A g = 0 ∨ SilkNlsf.invGainThresholdQ30 ≤ invGainLoop k A g := by
  intro k
  induction k with
  | zero =>
    intro A g
    unfold invGainLoop
    simp only
    split
    · exact Or.inl rfl
    · split
      · exact Or.inl rfl
      · exact Or.inr (by omega)
  | succ k ih =>
    intro A g
    unfold invGainLoop
    simp only
    split
    · exact Or.inl rfl
    · split
      · exact Or.inl rfl
      · split
        · exact Or.inl rfl
        · exact ih _ _

theorem lpcInversePredGain_ge (a : List Int) :
    lpcInversePredGain a = 0 ∨ SilkNlsf.invGainThresholdQ30 ≤ lpcInversePredGain a := by
  unfold lpcInversePredGain
  simp only
  split
  · exact Or.inl rfl
  · split
    · exact Or.inl rfl
    · exact invGainLoop_ge _ _ _

/-! ### silk_NLSF2A -/

theorem pow2_8 : ((2 : Int) ^ 8) = 256 := by decide

theorem cosTab_len : SilkNlsf.lsfCosTabQ12.length = 129 := by decide +kernel

theorem getI_ok' (l : List Int) (i : Int) (h0 : 0 ≤ i) (h1 : i.toNat < l.length) :
    ∃ v, getI l i = .ok v := by
  unfold getI
  rw [if_neg (by omega)]
  have : l[i.toNat]? = some l[i.toNat] := List.getElem?_eq_getElem h1
  rw [this]
  exact ⟨_, rfl⟩

theorem cosLsf_ok (x : Int) (h0 : 0 ≤ x) (h1 : x ≤ 32767) : ∃ c, cosLsf x = .ok c := by
  unfold cosLsf shrI
  rw [pow2_8]
  obtain ⟨v, hv⟩ := getI_ok' SilkNlsf.lsfCosTabQ12 (x / 256) (by omega) (by rw [cosTab_len]; omega)
  obtain ⟨w, hw⟩ := getI_ok' SilkNlsf.lsfCosTabQ12 (x / 256 + 1) (by omega) (by rw [cosTab_len]; omega)
  simp only [hv, hw, bind, Res.bind, pure]
  exact ⟨_, rfl⟩

theorem cosLsfAll_ok : ∀ (l : List Int), (∀ e ∈ l, 0 ≤ e ∧ e ≤ 32767) →
    ∃ cs, cosLsfAll l = .ok cs ∧ cs.length = l.length := by
  intro l
  induction l with
  | nil => intro _; exact ⟨[], rfl, rfl⟩
  | cons x xs ih =>
    intro h
    obtain ⟨c, hc⟩ := cosLsf_ok x (h x (by simp)).1 (h x (by simp)).2
    obtain ⟨cs, hcs, hl⟩ := ih (fun e he => h e (by simp [he]))
    refine ⟨c :: cs, ?_, by simp [hl]⟩
    unfold cosLsfAll
    simp only [hc, hcs, bind, Res.bind, pure]

theorem nlsf2aPoly_length (c : List Int) : (nlsf2aPoly c).length = 2 * (c.length / 2) := by
  unfold nlsf2aPoly
  simp only [List.length_append, List.length_map, List.length_range, List.length_reverse]
  omega

/-- `silk_NLSF2A` on any vector of 10 or 16 values in `[0, 32767]` (no ordering assumed, so
    interpolated vectors are covered). -/
theorem nlsf2a_spec (nlsf : List Int) (hd : nlsf.length = 10 ∨ nlsf.length = 16)
    (hr : ∀ e ∈ nlsf, 0 ≤ e ∧ e ≤ 32767) :
    ∃ a, nlsf2a nlsf = .ok a ∧ a.length = nlsf.length ∧ AllI16 a ∧ lpcInversePredGain a ≠ 0 := by
  obtain ⟨cs, hcs, hcl⟩ := cosLsfAll_ok nlsf hr
  unfold nlsf2a
  simp only
  rw [if_neg (by omega)]
  simp only [hcs, bind, Res.bind, pure]
  generalize hq : (List.map (fun j => cs.getD (List.idxOf j (if nlsf.length = 16 then ordering16 else ordering10)) 0)
    (List.range nlsf.length)) = cosQA
  have hql : cosQA.length = nlsf.length := by rw [← hq]; simp
  have hpl : (nlsf2aPoly cosQA).length = nlsf.length := by
    rw [nlsf2aPoly_length, hql]; omega
  have hf := lpcFit_spec (nlsf2aPoly cosQA) 5
  have := nlsf2aLoop_spec SilkNlsf.maxLpcStabilizeIterations 0 (lpcFit (nlsf2aPoly cosQA) 5).2
    (lpcFit (nlsf2aPoly cosQA) 5).1 (by decide) (by rw [hf.2.1, hpl]; exact hd)
    (by rw [hf.1, hf.2.1]) hf.2.2 (by intro h; exact absurd h (by decide))
  exact ⟨_, rfl, by rw [this.2.1, hf.2.1, hpl], this.2.2, this.1⟩

end Opus.SilkParams
