import OpusProofs.SilkResampCall
/-
  OpusProofs.SilkResampWords — every state word the model holds is representable in its C type: sIIR words are
  opus_int32, sFIR words are opus_int16 in the i16 view (IIR_FIR kernel) and opus_int32 otherwise.  (Immediate from
  the explicit `wrap32` / `sat16` of the model, threaded through the batch loops.)
-/
namespace OpusProofs.SilkResamp
open Opus Opus.SilkResamp Opus.SilkParams Opus.Gen.SilkResampRom

def I32 (x : Int) : Prop := -2147483648 ≤ x ∧ x ≤ 2147483647

theorem wrap32_i32 (x : Int) : I32 (wrap32 x) := by unfold wrap32 I32; omega
theorem i16_i32 {x : Int} (h : I16 x) : I32 x := by unfold I16 at h; unfold I32; omega

def IIR.ok32 (s : IIR) : Prop := I32 s.s0 ∧ I32 s.s1 ∧ I32 s.s2 ∧ I32 s.s3 ∧ I32 s.s4 ∧ I32 s.s5

theorem up2hqStep_ok32 (S : IIR) (x : Int) : IIR.ok32 (up2hqStep S x).1 := by
  simp only [up2hqStep, apSec, apSec3, add32]
  exact ⟨wrap32_i32 _, wrap32_i32 _, wrap32_i32 _, wrap32_i32 _, wrap32_i32 _, wrap32_i32 _⟩

theorem up2hq_ok32 (S : IIR) (xs : List Int) (h : IIR.ok32 S) : IIR.ok32 (up2hq S xs).1 := by
  induction xs generalizing S with
  | nil => exact h
  | cons x xs ih => simp only [up2hq]; exact ih _ (up2hqStep_ok32 S x)

theorem ar2_ok32 (s0 s1 a0 a1 : Int) (xs : List Int) (h0 : I32 s0) (h1 : I32 s1) :
    I32 (ar2 s0 s1 a0 a1 xs).1 ∧ I32 (ar2 s0 s1 a0 a1 xs).2.1 ∧ ∀ v ∈ (ar2 s0 s1 a0 a1 xs).2.2, I32 v := by
  induction xs generalizing s0 s1 with
  | nil => exact ⟨h0, h1, fun _ h => by cases h⟩
  | cons x xs ih =>
    simp only [ar2]
    have := ih (ar2Step s0 s1 a0 a1 x).1 (ar2Step s0 s1 a0 a1 x).2.1
      (by simp only [ar2Step, smlawb]; exact wrap32_i32 _) (by simp only [ar2Step, smulwb]; exact wrap32_i32 _)
    refine ⟨this.1, this.2.1, ?_⟩
    intro v hv
    rcases List.mem_cons.1 hv with rfl | hv
    · simp only [ar2Step, add32]; exact wrap32_i32 _
    · exact this.2.2 v hv

/-- IIR_FIR loop: the state words of the result. -/
theorem iirFirLoop_words (c : Cfg) (hinv : 0 < c.invRatio) (hb2 : c.batchSize ≤ 480) :
    ∀ (f : Nat) (xs : List Int) (S : IIR) (head : List Int), xs.length ≤ f → head.length = 8 →
      IIR.ok32 S → (∀ v ∈ head, I16 v) →
      ∀ r, iirFirLoop c S head xs = .ok r → IIR.ok32 r.1 ∧ ∀ v ∈ r.2.1, I16 v := by
  intro f
  induction f with
  | zero =>
    intro xs S head hx hh hS hH r hr
    obtain ⟨hal, outs, hd, ho, hw, hdl, hol, hoi⟩ := iirFir_round c hinv hb2 xs S head hh
    rw [iirFirLoop] at hr
    rw [if_neg hal] at hr
    simp only [ho, hw] at hr
    rw [dif_neg (by rw [List.length_drop]; omega)] at hr
    injection hr with hr
    subst hr
    refine ⟨up2hq_ok32 _ _ hS, ?_⟩
    intro v hv
    have hm : v ∈ head ++ (up2hq S (xs.take (min xs.length c.batchSize))).2 := by
      have := window_ok (l := head ++ (up2hq S (xs.take (min xs.length c.batchSize))).2)
        (i := 2 * ((min xs.length c.batchSize : Nat) : Int)) (n := orderFir12) (by omega) (by
          rw [List.length_append, up2hq_len, List.length_take, hh]; simp only [orderFir12]; omega)
      rw [this] at hw
      injection hw with hw
      rw [← hw] at hv
      exact List.mem_of_mem_drop (List.mem_of_mem_take hv)
    rcases List.mem_append.1 hm with h | h
    · exact hH v h
    · exact up2hq_i16 _ _ v h
  | succ f ih =>
    intro xs S head hx hh hS hH r hr
    obtain ⟨hal, outs, hd, ho, hw, hdl, hol, hoi⟩ := iirFir_round c hinv hb2 xs S head hh
    have hdI : ∀ v ∈ hd, I16 v := by
      intro v hv
      have hm : v ∈ head ++ (up2hq S (xs.take (min xs.length c.batchSize))).2 := by
        have := window_ok (l := head ++ (up2hq S (xs.take (min xs.length c.batchSize))).2)
          (i := 2 * ((min xs.length c.batchSize : Nat) : Int)) (n := orderFir12) (by omega) (by
            rw [List.length_append, up2hq_len, List.length_take, hh]; simp only [orderFir12]; omega)
        rw [this] at hw
        injection hw with hw
        rw [← hw] at hv
        exact List.mem_of_mem_drop (List.mem_of_mem_take hv)
      rcases List.mem_append.1 hm with h | h
      · exact hH v h
      · exact up2hq_i16 _ _ v h
    rw [iirFirLoop] at hr
    rw [if_neg hal] at hr
    simp only [ho, hw] at hr
    by_cases hmore : 0 < (xs.drop (min xs.length c.batchSize)).length ∧ 0 < min xs.length c.batchSize
    · rw [dif_pos hmore] at hr
      obtain ⟨S', head', outs', hr', _, _, _⟩ := iirFirLoop_ok c hinv hb2 f (xs.drop (min xs.length c.batchSize))
        (up2hq S (xs.take (min xs.length c.batchSize))).1 hd (by rw [List.length_drop]; omega) hdl
      have := ih (xs.drop (min xs.length c.batchSize)) (up2hq S (xs.take (min xs.length c.batchSize))).1 hd
        (by rw [List.length_drop]; omega) hdl (up2hq_ok32 _ _ hS) hdI _ hr'
      simp only [hr'] at hr
      injection hr with hr
      subst hr
      exact this
    · rw [dif_neg hmore] at hr
      injection hr with hr
      subst hr
      exact ⟨up2hq_ok32 _ _ hS, hdI⟩

/-- down_FIR loop: the state words of the result. -/
theorem downFirLoop_words (c : Cfg) (a0 a1 : Int) (rest : List Int) (hinv : 0 < c.invRatio) (hb2 : c.batchSize ≤ 480)
    (hd : DownCfg c (a0 :: a1 :: rest)) :
    ∀ (f : Nat) (xs : List Int) (s0 s1 : Int) (head : List Int), xs.length ≤ f → head.length = c.firOrder →
      I32 s0 → I32 s1 → (∀ v ∈ head, I32 v) →
      ∀ r, downFirLoop c (a0 :: a1 :: rest) s0 s1 head xs = .ok r →
        I32 r.1 ∧ I32 r.2.1 ∧ ∀ v ∈ r.2.2.1, I32 v := by
  intro f
  induction f with
  | zero =>
    intro xs s0 s1 head hx hh h0 h1 hH r hr
    obtain ⟨hal, outs, hd', ho, hw, hdl, hol, hoi⟩ := downFir_round c _ hinv hb2 hd xs s0 s1 a0 a1 head hh
    have hA := ar2_ok32 s0 s1 a0 a1 (xs.take (min xs.length c.batchSize)) h0 h1
    have hdI : ∀ v ∈ hd', I32 v := by
      intro v hv
      have hm : v ∈ head ++ (ar2 s0 s1 a0 a1 (xs.take (min xs.length c.batchSize))).2.2 := by
        have := window_ok (l := head ++ (ar2 s0 s1 a0 a1 (xs.take (min xs.length c.batchSize))).2.2)
          (i := ((min xs.length c.batchSize : Nat) : Int)) (n := c.firOrder) (by omega) (by
            rw [List.length_append, ar2_len, List.length_take, hh]; omega)
        rw [this] at hw
        injection hw with hw
        rw [← hw] at hv
        exact List.mem_of_mem_drop (List.mem_of_mem_take hv)
      rcases List.mem_append.1 hm with h | h
      · exact hH v h
      · exact hA.2.2 v h
    rw [downFirLoop] at hr
    simp only [window_two] at hr
    rw [if_neg hal] at hr
    simp only [ho, hw] at hr
    rw [dif_neg (by rw [List.length_drop]; omega)] at hr
    injection hr with hr
    subst hr
    exact ⟨hA.1, hA.2.1, hdI⟩
  | succ f ih =>
    intro xs s0 s1 head hx hh h0 h1 hH r hr
    obtain ⟨hal, outs, hd', ho, hw, hdl, hol, hoi⟩ := downFir_round c _ hinv hb2 hd xs s0 s1 a0 a1 head hh
    have hA := ar2_ok32 s0 s1 a0 a1 (xs.take (min xs.length c.batchSize)) h0 h1
    have hdI : ∀ v ∈ hd', I32 v := by
      intro v hv
      have hm : v ∈ head ++ (ar2 s0 s1 a0 a1 (xs.take (min xs.length c.batchSize))).2.2 := by
        have := window_ok (l := head ++ (ar2 s0 s1 a0 a1 (xs.take (min xs.length c.batchSize))).2.2)
          (i := ((min xs.length c.batchSize : Nat) : Int)) (n := c.firOrder) (by omega) (by
            rw [List.length_append, ar2_len, List.length_take, hh]; omega)
        rw [this] at hw
        injection hw with hw
        rw [← hw] at hv
        exact List.mem_of_mem_drop (List.mem_of_mem_take hv)
      rcases List.mem_append.1 hm with h | h
      · exact hH v h
      · exact hA.2.2 v h
    rw [downFirLoop] at hr
    simp only [window_two] at hr
    rw [if_neg hal] at hr
    simp only [ho, hw] at hr
    by_cases hmore : 1 < (xs.drop (min xs.length c.batchSize)).length ∧ 0 < min xs.length c.batchSize
    · rw [dif_pos hmore] at hr
      obtain ⟨t0, t1, head', outs', hr', _, _, _⟩ := downFirLoop_ok c a0 a1 rest hinv hb2 hd f
        (xs.drop (min xs.length c.batchSize)) (ar2 s0 s1 a0 a1 (xs.take (min xs.length c.batchSize))).1
        (ar2 s0 s1 a0 a1 (xs.take (min xs.length c.batchSize))).2.1 hd' (by rw [List.length_drop]; omega) hdl
      have := ih (xs.drop (min xs.length c.batchSize)) _ _ hd' (by rw [List.length_drop]; omega) hdl hA.1 hA.2.1 hdI _ hr'
      simp only [hr'] at hr
      injection hr with hr
      subst hr
      exact this
    · rw [dif_neg hmore] at hr
      injection hr with hr
      subst hr
      exact ⟨hA.1, hA.2.1, hdI⟩

/-- The state words are representable in their C types. -/
def WordsOk (S : RS) : Prop :=
  IIR.ok32 S.sIIR ∧ (if S.cfg.fn = useIIRFIR then ∀ v ∈ S.sFIR, I16 v else ∀ v ∈ S.sFIR, I32 v)

theorem kernel_words (S : RS) (xs : List Int) (hc : cfgFacts S.cfg = true) (hf : S.sFIR.length = 36)
    (hW : WordsOk S) : ∀ r, kernel S xs = .ok r → WordsOk r.1 := by
  intro r hr
  have hc' := hc
  simp only [cfgFacts, Bool.and_eq_true, Bool.or_eq_true, decide_eq_true_eq, beq_iff_eq] at hc'
  obtain ⟨⟨⟨⟨⟨⟨⟨h1, h2⟩, h3⟩, h4⟩, h5⟩, h6⟩, h7⟩, hfn⟩ := hc'
  have hb2 : S.cfg.batchSize ≤ 480 := by omega
  obtain ⟨hWi, hWf⟩ := hW
  unfold kernel at hr
  rcases hfn with ((⟨hfn, _⟩ | ⟨hfn, _⟩) | hfn) | ⟨hfn, hdown⟩
  · rw [if_neg (by rw [hfn]; decide), if_neg (by rw [hfn]; decide), if_neg (by rw [hfn]; decide)] at hr
    injection hr with hr; subst hr
    exact ⟨hWi, hWf⟩
  · rw [if_pos hfn] at hr
    injection hr with hr; subst hr
    exact ⟨up2hq_ok32 _ _ hWi, hWf⟩
  · rw [if_neg (by rw [hfn]; decide), if_pos hfn] at hr
    rw [if_pos hfn] at hWf
    obtain ⟨head, hw, hwl, hwm⟩ := window_ok_len (l := S.sFIR) (i := 0) (n := orderFir12) (by omega)
      (by rw [hf]; decide)
    obtain ⟨S', head', outs, hl, hl', _, _⟩ := iirFirLoop_ok S.cfg h5 hb2 xs.length xs S.sIIR head
      (Nat.le_refl _) (by simpa [orderFir12] using hwl)
    have hwords := iirFirLoop_words S.cfg h5 hb2 xs.length xs S.sIIR head (Nat.le_refl _)
      (by simpa [orderFir12] using hwl) hWi (fun v hv => hWf v (hwm v hv)) _ hl
    obtain ⟨sf, hbl, hsl, hsm⟩ := blit_ok (l := S.sFIR) (src := head') (off := 0) (by omega)
    simp only [hw, hl, hbl, Res.bind_ok] at hr
    injection hr with hr; subst hr
    refine ⟨hwords.1, ?_⟩
    show (if S.cfg.fn = useIIRFIR then ∀ v ∈ sf, I16 v else ∀ v ∈ sf, I32 v)
    rw [if_pos hfn]
    intro v hv
    rcases hsm v hv with h | h
    · exact hWf v h
    · exact hwords.2 v h
  · rw [if_neg (by rw [hfn]; decide), if_neg (by rw [hfn]; decide), if_pos hfn] at hr
    rw [if_neg (by rw [hfn]; decide)] at hWf
    have hdc : DownCfg S.cfg (coefsOf S.cfg.coefId) := by
      rcases hdown with (⟨⟨⟨ho, hl⟩, hf0⟩, hf1⟩ | ⟨ho, hl⟩) | ⟨ho, hl⟩
      · exact Or.inl ⟨ho, hl, hf0, hf1⟩
      · exact Or.inr (Or.inl ⟨ho, hl⟩)
      · exact Or.inr (Or.inr ⟨ho, hl⟩)
    have hord : S.cfg.firOrder ≤ 36 := by
      rcases hdc with ⟨ho, _⟩ | ⟨ho, _⟩ | ⟨ho, _⟩ <;> omega
    obtain ⟨a0, a1, rest, hco⟩ := two_le_length (l := coefsOf S.cfg.coefId) (by
      rcases hdc with ⟨_, hl, _⟩ | ⟨_, hl⟩ | ⟨_, hl⟩ <;> omega)
    rw [hco] at hdc hr
    obtain ⟨head, hw, hwl, hwm⟩ := window_ok_len (l := S.sFIR) (i := 0) (n := S.cfg.firOrder) (by omega)
      (by rw [hf]; simpa using hord)
    obtain ⟨t0, t1, head', outs, hl, hl', _, _⟩ := downFirLoop_ok S.cfg a0 a1 rest h5 hb2 hdc xs.length xs
      S.sIIR.s0 S.sIIR.s1 head (Nat.le_refl _) hwl
    have hwords := downFirLoop_words S.cfg a0 a1 rest h5 hb2 hdc xs.length xs S.sIIR.s0 S.sIIR.s1 head
      (Nat.le_refl _) hwl hWi.1 hWi.2.1 (fun v hv => hWf v (hwm v hv)) _ hl
    obtain ⟨sf, hbl, hsl, hsm⟩ := blit_ok (l := S.sFIR) (src := head') (off := 0) (by omega)
    simp only [hw, hl, hbl, Res.bind_ok] at hr
    injection hr with hr; subst hr
    refine ⟨⟨hwords.1, hwords.2.1, hWi.2.2⟩, ?_⟩
    show (if S.cfg.fn = useIIRFIR then ∀ v ∈ sf, I16 v else ∀ v ∈ sf, I32 v)
    rw [if_neg (by rw [hfn]; decide)]
    intro v hv
    rcases hsm v hv with h | h
    · exact hWf v h
    · exact hwords.2.2 v h

theorem resampler_words (S : RS) (xs : List Int) (hI : Inv S) (hW : WordsOk S) (hlen : S.cfg.fsIn ≤ xs.length)
    (hx : ∀ v ∈ xs, I16 v) : ∀ r, resampler S xs = .ok r → WordsOk r.1 := by
  intro r hr
  have hc := cfgTable_facts _ hI.cfg
  have hc' := hc
  simp only [cfgFacts, Bool.and_eq_true, Bool.or_eq_true, decide_eq_true_eq, beq_iff_eq] at hc'
  obtain ⟨⟨⟨⟨⟨⟨⟨h1, h2⟩, h3⟩, h4⟩, h5⟩, h6⟩, h7⟩, _⟩ := hc'
  have hfl : S.sFIR.length = 36 := hI.fir
  have hdl : S.delayBuf.length = 48 := hI.dbuf
  unfold resampler at hr
  simp only [] at hr
  rw [if_neg (by omega), if_neg (by omega)] at hr
  obtain ⟨first, hw1, hl1, hm1⟩ := window_ok_len (l := xs) (i := 0) (n := S.cfg.fsIn - S.cfg.inputDelay) (by omega)
    (by simp only [Int.toNat_zero]; omega)
  obtain ⟨db, hb1, hdbl, hdbm⟩ := blit_ok (l := S.delayBuf) (src := first) (off := S.cfg.inputDelay) (by omega)
  obtain ⟨in1, hw2, hl2, hm2⟩ := window_ok_len (l := db) (i := 0) (n := S.cfg.fsIn) (by omega)
    (by simp only [Int.toNat_zero]; omega)
  obtain ⟨in2, hw3, hl3, hm3⟩ := window_ok_len (l := xs) (i := ((S.cfg.fsIn - S.cfg.inputDelay : Nat) : Int))
    (n := xs.length - S.cfg.fsIn) (by omega) (by simp only [Int.toNat_natCast]; omega)
  have hdb16 : ∀ v ∈ db, I16 v := by
    intro v hv
    rcases hdbm v hv with h | h
    · exact hI.dbuf16 v h
    · exact hx v (hm1 v h)
  obtain ⟨S1, o1, hk1, hc1, hf1, hd1, _, _⟩ := kernel_ok { S with delayBuf := db } in1 hc hfl
    (fun v hv => hdb16 v (hm2 v hv))
  have hW1 : WordsOk S1 := kernel_words { S with delayBuf := db } in1 hc hfl hW _ hk1
  obtain ⟨S2, o2, hk2, hc2, hf2, hd2, _, _⟩ := kernel_ok S1 in2 (by rw [hc1]; exact hc) hf1
    (fun v hv => hx v (hm3 v hv))
  have hW2 : WordsOk S2 := kernel_words S1 in2 (by rw [hc1]; exact hc) hf1 hW1 _ hk2
  obtain ⟨tail, hw4, hl4, hm4⟩ := window_ok_len (l := xs) (i := (xs.length : Int) - (S.cfg.inputDelay : Int))
    (n := S.cfg.inputDelay) (by omega) (by omega)
  have hS2d : S2.delayBuf = db := by rw [hd2, hd1]
  obtain ⟨db2, hb2, _, _⟩ := blit_ok (l := S2.delayBuf) (src := tail) (off := 0) (by rw [hS2d]; omega)
  simp only [hw1, hb1, hw2, hw3, hk1, hk2, hw4, hb2, Res.bind_ok] at hr
  injection hr with hr; subst hr
  exact hW2

theorem fresh_words (c : Cfg) : WordsOk (fresh c) := by
  refine ⟨⟨?_, ?_, ?_, ?_, ?_, ?_⟩, ?_⟩ <;> try (simp only [fresh, IIR.zero]; unfold I32; omega)
  have hz : ∀ v ∈ (fresh c).sFIR, v = 0 := by
    intro v hv; simp only [fresh, zeros] at hv; exact List.eq_of_mem_replicate hv
  split
  · intro v hv; rw [hz v hv]; unfold I16; omega
  · intro v hv; rw [hz v hv]; unfold I32; omega

/-- Histories: the words stay representable after any number of calls. -/
theorem run_words (bs : List (List Int)) : ∀ (S : RS), Inv S → WordsOk S → GoodBlocks S.cfg bs →
    ∀ r, run S bs = .ok r → WordsOk r.1 := by
  induction bs with
  | nil => intro S _ hW _ r hr; simp only [run] at hr; injection hr with hr; subst hr; exact hW
  | cons b bs ih =>
    intro S hI hW hg r hr
    obtain ⟨hb1, hb2⟩ := hg b List.mem_cons_self
    obtain ⟨S1, o1, hr1, hI1, hc1, _, _⟩ := resampler_ok S b hI hb1 hb2
    have hW1 := resampler_words S b hI hW hb1 hb2 _ hr1
    obtain ⟨S', outs, hrun, _⟩ := run_ok bs S1 hI1 (by
      intro b' hb'; rw [hc1]; exact hg b' (List.mem_cons_of_mem _ hb'))
    have := ih S1 hI1 hW1 (by intro b' hb'; rw [hc1]; exact hg b' (List.mem_cons_of_mem _ hb')) _ hrun
    simp only [run, hr1, hrun] at hr
    injection hr with hr; subst hr
    exact this

end OpusProofs.SilkResamp
