import OpusProofs.RangeCoderLockstep2
import OpusProofs.RangeCoderStageA2
/-
  OpusProofs.RangeCoderLockstep3 — C08 Stage A: encoder and decoder make the same
  `(rng, nbits_total)` transition whenever the decoder returns the encoded symbol.
-/
namespace Opus.RangeCoder

theorem lockstep_symbols_all (e : Enc) (d : Dec) (op : Op) (hr : RngOk e) (h1 : d.rng = e.rng)
    (h2 : d.nbitsTotal = e.nbitsTotal) (hl : op.Legal)
    (hu : (∀ v ft, op ≠ .uint v ft) ∨ (d.val < 4294967296 ∧ d.error = 0 ∧ (decOp d op).2.error = 0))
    (hm : op.Matches (decOp d op).1) :
    (decOp d op).2.rng = (encOp e op).rng ∧ (decOp d op).2.nbitsTotal = (encOp e op).nbitsTotal ∧
    tell (decOp d op).2 = tell (encOp e op) ∧ tellFrac (decOp d op).2 = tellFrac (encOp e op) := by
  have he := encOp_rn e op hr hl
  have hd := decOp_rn d op (by unfold RngOk; rw [h1]; exact hr) hl hu hm
  rw [h1, h2, ← he] at hd
  have e1 : (decOp d op).2.rng = (encOp e op).rng := congrArg Prod.fst hd
  have e2 : (decOp d op).2.nbitsTotal = (encOp e op).nbitsTotal := congrArg Prod.snd hd
  obtain ⟨t1, t2⟩ := tell_eq_of_rn e1 e2
  exact ⟨e1, e2, t1, t2⟩

end Opus.RangeCoder
