import OpusProofs.SilkSymsTables
/-
  C03 range lemmas for `silk_decode_pulses` (rate level, pulses per block with the LSB-count loop, shell
  decoder, LSB bits, signs), the stereo predictor and the header flags.

  Proof discipline (kernel-friendly): every call that yields a range-decoder state is first `generalize`d
  to a variable, then the `match` on it is eliminated with `split`; the kernel is never asked to unfold
  `ec_dec_icdf` on a symbolic decoder state.
-/
namespace Opus.SilkSymsProofs
open Opus Opus.RangeCoder Opus.SilkSyms Opus.SilkSymsFrozen.Icdf

/-! ### The LSB-count loop -/

/-- The unrolled `while( sum_pulses[i] == SILK_MAX_PULSES + 1 )` loop: entered with `n + k = 10` iterations
    accounted for and `sp ≤ 17`, it returns `nLshifts ≤ 10` and `sum_pulses ≤ 16` — in particular the C loop
    condition is false when the unrolling ends. -/
theorem lsbCountLoop_ok : ∀ (k : Nat) (c : Dec) (n sp : Nat), n + k = 10 → sp ≤ 17 → (k = 0 → sp ≤ 16) →
    (lsbCountLoop k c n sp).1 ≤ 10 ∧ (lsbCountLoop k c n sp).2.1 ≤ 16
  | 0, c, n, sp, hn, _, h0 => by
    unfold lsbCountLoop
    exact ⟨by omega, h0 rfl⟩
  | k + 1, c, n, sp, hn, hs, _ => by
    unfold lsbCountLoop
    split
    · -- sp = 17: one more symbol from level 9 (shifted by one entry on the tenth round)
      have hz : (sym c ((silk_pulses_per_block_iCDF.getD 9 []).drop (if n + 1 = 10 then 1 else 0))).1 ≤ 17 ∧
          (k = 0 → (sym c ((silk_pulses_per_block_iCDF.getD 9 []).drop (if n + 1 = 10 then 1 else 0))).1 ≤ 16) := by
        by_cases h10 : n + 1 = 10
        · rw [if_pos h10]
          have := sym_le_of c _ zp_ppb9shift
          exact ⟨by omega, fun _ => this⟩
        · rw [if_neg h10]
          have := sym_le_of c _ zp_ppb9
          exact ⟨this, fun hk => by omega⟩
      generalize sym c ((silk_pulses_per_block_iCDF.getD 9 []).drop (if n + 1 = 10 then 1 else 0)) = y at hz
      split
      rename_i _ sp' c1
      dsimp only at hz
      exact lsbCountLoop_ok k c1 (n + 1) sp' (by omega) hz.1 hz.2
    · dsimp only; exact ⟨by omega, by omega⟩

theorem sumPulsesLoop_ok (cdf : List Nat) (hc : zeroPos cdf ≤ 17) : ∀ (iter : Nat) (c : Dec),
    (sumPulsesLoop cdf iter c).1.length = iter ∧ (sumPulsesLoop cdf iter c).2.1.length = iter ∧
    (∀ sp ∈ (sumPulsesLoop cdf iter c).1, sp ≤ 16) ∧ (∀ n ∈ (sumPulsesLoop cdf iter c).2.1, n ≤ 10)
  | 0, c => by simp [sumPulsesLoop]
  | iter + 1, c => by
    unfold sumPulsesLoop
    have h0 := Nat.le_trans (sym_le c cdf) hc
    generalize sym c cdf = y at h0
    split
    rename_i _ sp0 c1
    dsimp only at h0
    have h1 := lsbCountLoop_ok 10 c1 0 sp0 (by omega) h0 (by omega)
    generalize lsbCountLoop 10 c1 0 sp0 = z at h1
    split
    rename_i _ n sp c2
    dsimp only at h1
    have ih := sumPulsesLoop_ok cdf hc iter c2
    generalize sumPulsesLoop cdf iter c2 = w at ih
    split
    rename_i _ sps ns c3
    dsimp only at ih ⊢
    refine ⟨by simp [ih.1], by simp [ih.2.1], ?_, ?_⟩
    · intro s hs
      simp only [List.mem_cons] at hs
      rcases hs with rfl | hs
      · exact h1.2
      · exact ih.2.2.1 s hs
    · intro m hm
      simp only [List.mem_cons] at hm
      rcases hm with rfl | hm
      · exact h1.1
      · exact ih.2.2.2 m hm

/-! ### Shell decoder -/

/-- A shell table: its slice for `p` pulses codes exactly the symbols `0..p`. -/
def ShellTbl (tbl : List Nat) : Prop :=
  ∀ p, p < 17 → 1 ≤ p → zeroPos (tbl.drop (silk_shell_code_table_offsets.getD p 0)) = p

theorem decodeSplit_le (tbl : List Nat) (ht : ShellTbl tbl) (c : Dec) (p : Nat) (hp : p ≤ 16) :
    (decodeSplit c p tbl).1 ≤ p ∧ (decodeSplit c p tbl).2.1 ≤ p ∧
    (decodeSplit c p tbl).1 + (decodeSplit c p tbl).2.1 = p := by
  unfold decodeSplit
  split
  · rename_i h
    have h1 := sym_le_of c _ (ht p (by omega) (by omega))
    generalize sym c (tbl.drop (silk_shell_code_table_offsets.getD p 0)) = y at h1
    split
    rename_i _ a c1
    dsimp only at h1 ⊢
    omega
  · dsimp only; omega

theorem shellQuarter_ok (c : Dec) (p : Nat) (hp : p ≤ 16) :
    (shellQuarter c p).1.length = 4 ∧ ∀ q ∈ (shellQuarter c p).1, q ≤ p := by
  unfold shellQuarter
  have h1 := decodeSplit_le _ zp_shell1 c p hp
  generalize decodeSplit c p silk_shell_code_table1 = y at h1
  split
  rename_i _ a1 a2 c1
  dsimp only at h1
  have h2 := decodeSplit_le _ zp_shell0 c1 a1 (by omega)
  generalize decodeSplit c1 a1 silk_shell_code_table0 = y at h2
  split
  rename_i _ b1 b2 c2
  dsimp only at h2
  have h3 := decodeSplit_le _ zp_shell0 c2 a2 (by omega)
  generalize decodeSplit c2 a2 silk_shell_code_table0 = y at h3
  split
  rename_i _ d1 d2 c3
  dsimp only at h3 ⊢
  refine ⟨rfl, ?_⟩
  intro q hq
  simp only [List.mem_cons, List.mem_nil_iff, or_false] at hq
  rcases hq with rfl | rfl | rfl | rfl <;> omega

theorem shellHalf_ok (c : Dec) (p : Nat) (hp : p ≤ 16) :
    (shellHalf c p).1.length = 8 ∧ ∀ q ∈ (shellHalf c p).1, q ≤ p := by
  unfold shellHalf
  have h1 := decodeSplit_le _ zp_shell2 c p hp
  generalize decodeSplit c p silk_shell_code_table2 = y at h1
  split
  rename_i _ a1 a2 c1
  dsimp only at h1
  have h2 := shellQuarter_ok c1 a1 (by omega)
  generalize shellQuarter c1 a1 = y at h2
  split
  rename_i _ q0 c2
  dsimp only at h2
  have h3 := shellQuarter_ok c2 a2 (by omega)
  generalize shellQuarter c2 a2 = y at h3
  split
  rename_i _ q1 c3
  dsimp only at h3 ⊢
  refine ⟨by simp [h2.1, h3.1], ?_⟩
  intro q hq
  simp only [List.mem_append] at hq
  rcases hq with hq | hq
  · have := h2.2 q hq; omega
  · have := h3.2 q hq; omega

theorem shellDecoder_ok (c : Dec) (p : Nat) (hp : p ≤ 16) :
    (shellDecoder c p).1.length = 16 ∧ ∀ q ∈ (shellDecoder c p).1, q ≤ p := by
  unfold shellDecoder
  have h1 := decodeSplit_le _ zp_shell3 c p hp
  generalize decodeSplit c p silk_shell_code_table3 = y at h1
  split
  rename_i _ a1 a2 c1
  dsimp only at h1
  have h2 := shellHalf_ok c1 a1 (by omega)
  generalize shellHalf c1 a1 = y at h2
  split
  rename_i _ q0 c2
  dsimp only at h2
  have h3 := shellHalf_ok c2 a2 (by omega)
  generalize shellHalf c2 a2 = y at h3
  split
  rename_i _ q1 c3
  dsimp only at h3 ⊢
  refine ⟨by simp [h2.1, h3.1], ?_⟩
  intro q hq
  simp only [List.mem_append] at hq
  rcases hq with hq | hq
  · have := h2.2 q hq; omega
  · have := h3.2 q hq; omega

theorem shellBlock_ok (sp : Nat) (hs : sp ≤ 16) (c : Dec) :
    (shellBlock sp c).1.length = 16 ∧ ∀ q ∈ (shellBlock sp c).1, q ≤ 16 := by
  unfold shellBlock
  split
  · have := shellDecoder_ok c sp hs
    exact ⟨this.1, fun q hq => Nat.le_trans (this.2 q hq) hs⟩
  · refine ⟨by simp, ?_⟩
    intro q hq
    simp only [List.mem_replicate] at hq
    omega

/-- A block of 16 amplitudes, each at most `m`. -/
def BlockOk (m : Nat) (b : List Nat) : Prop := b.length = 16 ∧ ∀ q ∈ b, q ≤ m

theorem shellLoop_ok : ∀ (sps : List Nat) (c : Dec), (∀ sp ∈ sps, sp ≤ 16) →
    (shellLoop sps c).1.length = sps.length ∧ ∀ b ∈ (shellLoop sps c).1, BlockOk 16 b
  | [], c, _ => by simp [shellLoop]
  | sp :: sps, c, h => by
    unfold shellLoop
    have h1 := shellBlock_ok sp (h sp (by simp)) c
    generalize shellBlock sp c = y at h1
    split
    rename_i _ b c1
    dsimp only at h1
    have ih := shellLoop_ok sps c1 (fun s hs => h s (by simp [hs]))
    generalize shellLoop sps c1 = w at ih
    split
    rename_i _ bs c2
    dsimp only at ih ⊢
    refine ⟨by simp [ih.1], ?_⟩
    intro b' hb
    simp only [List.mem_cons] at hb
    rcases hb with rfl | hb
    · exact h1
    · exact ih.2 b' hb

/-! ### LSB bits -/

theorem two_mul_pow (q n : Nat) : (q + 1) * 2 ^ (n + 1) = (2 * (q + 1)) * 2 ^ n := by
  rw [Nat.pow_succ, Nat.mul_comm (2 ^ n) 2, ← Nat.mul_assoc, Nat.mul_comm (q + 1) 2]

theorem lsbBits_le : ∀ (n q : Nat) (c : Dec) (r : Nat) (c' : Dec), lsbBits n q c = (r, c') →
    r + 1 ≤ (q + 1) * 2 ^ n
  | 0, q, c, r, c', h => by
    unfold lsbBits at h
    simp only [Prod.mk.injEq] at h
    obtain ⟨rfl, _⟩ := h
    rw [Nat.pow_zero, Nat.mul_one]
    exact Nat.le_refl _
  | n + 1, q, c, r, c', h => by
    unfold lsbBits at h
    have h1 := sym_le_of c _ zp_lsb
    generalize sym c silk_lsb_iCDF = y at h h1
    split at h
    rename_i _ b c1
    dsimp only at h1
    have ih := lsbBits_le n (2 * q + b) c1 r c' h
    have hm : (2 * q + b + 1) * 2 ^ n ≤ (2 * (q + 1)) * 2 ^ n := Nat.mul_le_mul_right _ (by omega)
    rw [two_mul_pow]
    exact Nat.le_trans ih hm

theorem lsbBits_bound (n q : Nat) (hn : n ≤ 10) (hq : q ≤ 16) (c : Dec) (r : Nat) (c' : Dec)
    (h : lsbBits n q c = (r, c')) : r ≤ 17407 := by
  have h1 := lsbBits_le n q c r c' h
  have h2 : 2 ^ n ≤ 2 ^ 10 := Nat.pow_le_pow_right (by omega) hn
  have h3 : (q + 1) * 2 ^ n ≤ 17 * 2 ^ 10 := Nat.mul_le_mul (by omega) h2
  have h4 : 17 * 2 ^ 10 = 17408 := by decide
  omega

theorem lsbBlock_ok (n : Nat) (hn : n ≤ 10) : ∀ (b : List Nat) (c : Dec), (∀ q ∈ b, q ≤ 16) →
    (lsbBlock n b c).1.length = b.length ∧ ∀ q ∈ (lsbBlock n b c).1, q ≤ 17407
  | [], c, _ => by simp [lsbBlock]
  | q :: qs, c, h => by
    unfold lsbBlock
    generalize hy : lsbBits n q c = y
    split
    rename_i _ q' c1
    have h1 := lsbBits_bound n q hn (h q (by simp)) c q' c1 hy
    have ih := lsbBlock_ok n hn qs c1 (fun s hs => h s (by simp [hs]))
    generalize lsbBlock n qs c1 = w at ih
    split
    rename_i _ qs' c2
    dsimp only at ih ⊢
    refine ⟨by simp [ih.1], ?_⟩
    intro x hx
    simp only [List.mem_cons] at hx
    rcases hx with rfl | hx
    · exact h1
    · exact ih.2 x hx

theorem lsbBlockIf_ok (n : Nat) (hn : n ≤ 10) (b : List Nat) (hb : BlockOk 16 b) (c : Dec) :
    BlockOk 17407 (lsbBlockIf n b c).1 := by
  unfold lsbBlockIf
  split
  · have := lsbBlock_ok n hn b c hb.2
    exact ⟨by rw [this.1]; exact hb.1, this.2⟩
  · exact ⟨hb.1, fun q hq => by have := hb.2 q hq; omega⟩

theorem lsbLoop_ok : ∀ (bs : List (List Nat)) (ns : List Nat) (c : Dec), bs.length = ns.length →
    (∀ b ∈ bs, BlockOk 16 b) → (∀ n ∈ ns, n ≤ 10) →
    (lsbLoop bs ns c).1.length = bs.length ∧ ∀ b ∈ (lsbLoop bs ns c).1, BlockOk 17407 b
  | [], [], c, _, _, _ => by simp [lsbLoop]
  | [], _ :: _, c, hl, _, _ => by simp at hl
  | _ :: _, [], c, hl, _, _ => by simp at hl
  | b :: bs, n :: ns, c, hl, hb, hn => by
    unfold lsbLoop
    have h1 := lsbBlockIf_ok n (hn n (by simp)) b (hb b (by simp)) c
    generalize lsbBlockIf n b c = y at h1
    split
    rename_i _ b' c1
    dsimp only at h1
    have ih := lsbLoop_ok bs ns c1 (by simpa using hl) (fun x hx => hb x (by simp [hx])) (fun x hx => hn x (by simp [hx]))
    generalize lsbLoop bs ns c1 = w at ih
    split
    rename_i _ bs' c2
    dsimp only at ih ⊢
    refine ⟨by simp [ih.1], ?_⟩
    intro x hx
    simp only [List.mem_cons] at hx
    rcases hx with rfl | hx
    · exact h1
    · exact ih.2 x hx

/-! ### Signs -/

/-- A block of 16 signed pulses, each of magnitude at most `m`. -/
def SBlockOk (m : Int) (b : List Int) : Prop := b.length = 16 ∧ ∀ v ∈ b, -m ≤ v ∧ v ≤ m

theorem signOne_ok (icdf0 q : Nat) (c : Dec) :
    -(q : Int) ≤ (signOne icdf0 q c).1 ∧ (signOne icdf0 q c).1 ≤ (q : Int) := by
  unfold signOne
  split
  · have h1 : (sym c [icdf0, 0]).1 ≤ 1 := by
      refine Nat.le_trans (sym_le c _) ?_
      unfold zeroPos zeroPos
      split <;> simp
    generalize sym c [icdf0, 0] = y at h1
    split
    rename_i _ s c1
    dsimp only at h1 ⊢
    have : s = 0 ∨ s = 1 := by omega
    rcases this with rfl | rfl <;> simp <;> omega
  · dsimp only; omega

theorem signBlock_ok (icdf0 m : Nat) : ∀ (b : List Nat) (c : Dec), (∀ q ∈ b, q ≤ m) →
    (signBlock icdf0 b c).1.length = b.length ∧
    ∀ v ∈ (signBlock icdf0 b c).1, -(m : Int) ≤ v ∧ v ≤ (m : Int)
  | [], c, _ => by simp [signBlock]
  | q :: qs, c, h => by
    unfold signBlock
    have h1 := signOne_ok icdf0 q c
    have hq := h q (by simp)
    generalize signOne icdf0 q c = y at h1
    split
    rename_i _ v c1
    dsimp only at h1
    have ih := signBlock_ok icdf0 m qs c1 (fun s hs => h s (by simp [hs]))
    generalize signBlock icdf0 qs c1 = w at ih
    split
    rename_i _ vs c2
    dsimp only at ih ⊢
    refine ⟨by simp [ih.1], ?_⟩
    intro x hx
    simp only [List.mem_cons] at hx
    rcases hx with rfl | hx
    · omega
    · exact ih.2 x hx

theorem castBlock_ok (m : Nat) (b : List Nat) (hb : BlockOk m b) :
    SBlockOk m (b.map (fun (q : Nat) => (q : Int))) := by
  refine ⟨by simp [hb.1], ?_⟩
  intro v hv
  simp only [List.mem_map] at hv
  obtain ⟨q, hq, rfl⟩ := hv
  have := hb.2 q hq
  omega

theorem signBlockIf_ok (base p m : Nat) (b : List Nat) (hb : BlockOk m b) (c : Dec) :
    SBlockOk m (signBlockIf base p b c).1 := by
  unfold signBlockIf
  split
  · have := signBlock_ok (silk_sign_iCDF.getD (base + min (p % 32) 6) 0) m b c hb.2
    exact ⟨by rw [this.1]; exact hb.1, this.2⟩
  · exact castBlock_ok m b hb

theorem signLoop_ok (base m : Nat) : ∀ (n : Nat) (bs : List (List Nat)) (ps : List Nat) (c : Dec),
    (∀ b ∈ bs, BlockOk m b) →
    (signLoop base n bs ps c).1.length = bs.length ∧ ∀ b ∈ (signLoop base n bs ps c).1, SBlockOk m b := by
  have base_case : ∀ (bs : List (List Nat)), (∀ b ∈ bs, BlockOk m b) →
      (bs.map (fun b => b.map (fun (q : Nat) => (q : Int)))).length = bs.length ∧
      ∀ b ∈ bs.map (fun b => b.map (fun (q : Nat) => (q : Int))), SBlockOk m b := by
    intro bs hb
    refine ⟨by simp, ?_⟩
    intro b' hb'
    simp only [List.mem_map] at hb'
    obtain ⟨b0, h0, rfl⟩ := hb'
    exact castBlock_ok m b0 (hb b0 h0)
  intro n
  induction n with
  | zero =>
    intro bs ps c hb
    unfold signLoop
    exact base_case bs hb
  | succ n ih =>
    intro bs ps c hb
    cases bs with
    | nil => unfold signLoop; exact base_case [] hb
    | cons b bs =>
      cases ps with
      | nil => unfold signLoop; exact base_case (b :: bs) hb
      | cons p ps =>
        unfold signLoop
        have h1 := signBlockIf_ok base p m b (hb b (by simp)) c
        generalize signBlockIf base p b c = y at h1
        split
        rename_i _ v c1
        dsimp only at h1
        have ih' := ih bs ps c1 (fun x hx => hb x (by simp [hx]))
        generalize signLoop base n bs ps c1 = w at ih'
        split
        rename_i _ vs c2
        dsimp only at ih' ⊢
        refine ⟨by simp [ih'.1], ?_⟩
        intro x hx
        simp only [List.mem_cons] at hx
        rcases hx with rfl | hx
        · exact h1
        · exact ih'.2 x hx

/-! ### silk_decode_pulses -/

/-- Everything later code relies on about the output of `silk_decode_pulses`. -/
structure PulsesOk (frameLen : Nat) (p : Pulses) : Prop where
  /-- `RateLevelIndex < N_RATE_LEVELS - 1` indexes `silk_pulses_per_block_iCDF` -/
  rateLevel : p.rateLevel ≤ 8
  blocks : p.sumPulses.length = shellBlocks frameLen
  /-- `sum_pulses[i] ≤ SILK_MAX_PULSES` indexes `silk_shell_code_table_offsets`; `< 32`, so `|= nLS<<5` is `+` -/
  sumPulses : ∀ sp ∈ p.sumPulses, sp ≤ 16
  nLshiftsLen : p.nLshifts.length = shellBlocks frameLen
  /-- at most ten LSB planes -/
  nLshifts : ∀ n ∈ p.nLshifts, n ≤ 10
  signedLen : p.signed.length = shellBlocks frameLen
  /-- every block holds 16 pulses of magnitude at most `16*2^10 + 2^10 - 1 = 17407 < 2^15` -/
  signed : ∀ b ∈ p.signed, SBlockOk 17407 b

theorem decodePulses_ok (sig qoff frameLen : Nat) (hs : sig ≤ 2) (c : Dec) (p : Pulses) (c' : Dec)
    (h : decodePulses sig qoff frameLen c = (p, c')) : PulsesOk frameLen p := by
  unfold decodePulses at h
  have h1 := sym_le_of c _ (zp_rateLevels (sig / 2) (by omega))
  generalize sym c (silk_rate_levels_iCDF.getD (sig / 2) []) = y at h h1
  split at h
  rename_i _ rl c1
  dsimp only at h1
  have h2 := sumPulsesLoop_ok (silk_pulses_per_block_iCDF.getD rl [])
    (by rw [zp_ppb rl (by omega)]; exact Nat.le_refl _) (shellBlocks frameLen) c1
  generalize sumPulsesLoop (silk_pulses_per_block_iCDF.getD rl []) (shellBlocks frameLen) c1 = y at h h2
  split at h
  rename_i _ sps ns c2
  dsimp only at h2
  have h3 := shellLoop_ok sps c2 h2.2.2.1
  generalize shellLoop sps c2 = y at h h3
  split at h
  rename_i _ sh c3
  dsimp only at h3
  have h4 := lsbLoop_ok sh ns c3 (by rw [h3.1, h2.1, h2.2.1]) h3.2 h2.2.2.2
  generalize lsbLoop sh ns c3 = y at h h4
  split at h
  rename_i _ ab c4
  dsimp only at h4
  have h5 := signLoop_ok (7 * (qoff + 2 * sig)) 17407 ((frameLen + 8) / 16) ab (markLsb sps ns) c4 h4.2
  generalize signLoop (7 * (qoff + 2 * sig)) ((frameLen + 8) / 16) ab (markLsb sps ns) c4 = y at h h5
  split at h
  rename_i _ sg c5
  dsimp only at h5
  simp only [Prod.mk.injEq] at h
  obtain ⟨rfl, rfl⟩ := h
  exact ⟨h1, h2.1, h2.2.2.1, h2.2.1, h2.2.2.2, by rw [h5.1, h4.1, h3.1, h2.1], h5.2⟩

/-! ### Stereo predictor -/

/-- Everything later code relies on about `silk_stereo_decode_pred`. -/
structure StereoOk (p : StereoPred) : Prop where
  /-- both table indices satisfy `ix + 1 < STEREO_QUANT_TAB_SIZE = 16` -/
  q0 : p.q0 ≤ 14
  q1 : p.q1 ≤ 14
  /-- the raw indices: `ix[n][0] < 3`, `ix[n][1] < STEREO_QUANT_SUB_STEPS = 5`, `ix[n][2] < 5` -/
  ix : ∃ a0 a1 i02 b0 b1 i12, p.ix = [a0, a1, i02, b0, b1, i12] ∧ a0 ≤ 2 ∧ a1 ≤ 4 ∧ i02 ≤ 4 ∧ b0 ≤ 2 ∧ b1 ≤ 4 ∧ i12 ≤ 4

theorem stereoIxG_ok (tj t3 t5 : List Nat) (hj : zeroPos tj = 24) (h3' : zeroPos t3 = 2) (h5' : zeroPos t5 = 4)
    (c : Dec) (n a0 a1 b0 b1 : Nat) (c' : Dec) (h : stereoIxG tj t3 t5 c = ((n, a0, a1, b0, b1), c')) :
    n ≤ 24 ∧ a0 ≤ 2 ∧ a1 ≤ 4 ∧ b0 ≤ 2 ∧ b1 ≤ 4 := by
  unfold stereoIxG at h
  have h1 := sym_le_of c _ hj
  generalize sym c tj = y at h h1
  split at h
  rename_i _ n' c1
  dsimp only at h1
  have h2 := sym_le_of c1 _ h3'
  generalize sym c1 t3 = y at h h2
  split at h
  rename_i _ a0' c2
  dsimp only at h2
  have h3 := sym_le_of c2 _ h5'
  generalize sym c2 t5 = y at h h3
  split at h
  rename_i _ a1' c3
  dsimp only at h3
  have h4 := sym_le_of c3 _ h3'
  generalize sym c3 t3 = y at h h4
  split at h
  rename_i _ b0' c4
  dsimp only at h4
  have h5 := sym_le_of c4 _ h5'
  generalize sym c4 t5 = y at h h5
  split at h
  rename_i _ b1' c5
  dsimp only at h5
  simp only [Prod.mk.injEq] at h
  obtain ⟨⟨rfl, rfl, rfl, rfl, rfl⟩, rfl⟩ := h
  exact ⟨h1, h2, h3, h4, h5⟩

theorem stereoIx_ok (c : Dec) (n a0 a1 b0 b1 : Nat) (c' : Dec) (h : stereoIx c = ((n, a0, a1, b0, b1), c')) :
    n ≤ 24 ∧ a0 ≤ 2 ∧ a1 ≤ 4 ∧ b0 ≤ 2 ∧ b1 ≤ 4 :=
  stereoIxG_ok _ _ _ zp_stereoJoint zp_uniform3 zp_uniform5 c n a0 a1 b0 b1 c' h

theorem stereoMk_ok (n a0 a1 b0 b1 : Nat) (h : n ≤ 24 ∧ a0 ≤ 2 ∧ a1 ≤ 4 ∧ b0 ≤ 2 ∧ b1 ≤ 4) :
    StereoOk (stereoMk n a0 a1 b0 b1) := by
  unfold stereoMk
  refine ⟨by dsimp only; omega, by dsimp only; omega, ?_⟩
  exact ⟨a0, a1, n / 5, b0, b1, n - 5 * (n / 5), rfl, h.2.1, h.2.2.1, by omega, h.2.2.2.1, h.2.2.2.2, by omega⟩

theorem stereoDecodePredG_ok (tj t3 t5 : List Nat) (hj : zeroPos tj = 24) (h3 : zeroPos t3 = 2) (h5 : zeroPos t5 = 4)
    (c : Dec) (p : StereoPred) (c' : Dec) (h : stereoDecodePredG tj t3 t5 c = (p, c')) : StereoOk p := by
  unfold stereoDecodePredG at h
  generalize hy : stereoIxG tj t3 t5 c = y at h
  split at h
  rename_i _ n a0 a1 b0 b1 c5
  simp only [Prod.mk.injEq] at h
  obtain ⟨rfl, rfl⟩ := h
  exact stereoMk_ok n a0 a1 b0 b1 (stereoIxG_ok tj t3 t5 hj h3 h5 c n a0 a1 b0 b1 _ hy)

theorem stereoDecodePred_ok (c : Dec) (p : StereoPred) (c' : Dec) (h : stereoDecodePred c = (p, c')) :
    StereoOk p :=
  stereoDecodePredG_ok _ _ _ zp_stereoJoint zp_uniform3 zp_uniform5 c p c' h

theorem stereoDecodeMidOnly_le (c : Dec) : (stereoDecodeMidOnly c).1 ≤ 1 := sym_le_of c _ zp_stereoMid

/-! ### Header flags -/

theorem decodeVadFlags_ok : ∀ (n : Nat) (c : Dec) (l : List Nat) (c' : Dec), decodeVadFlags n c = (l, c') →
    l.length = n ∧ ∀ b ∈ l, b ≤ 1
  | 0, c, l, c', h => by
    simp only [decodeVadFlags, Prod.mk.injEq] at h
    obtain ⟨rfl, rfl⟩ := h
    simp
  | n + 1, c, l, c', h => by
    unfold decodeVadFlags at h
    have h1 := decBitLogp_le c 1
    generalize decBitLogp c 1 = y at h h1
    split at h
    rename_i _ b c1
    dsimp only at h1
    generalize hw : decodeVadFlags n c1 = w at h
    split at h
    rename_i _ bs c2
    have ih := decodeVadFlags_ok n c1 bs c2 hw
    simp only [Prod.mk.injEq] at h
    obtain ⟨rfl, rfl⟩ := h
    refine ⟨by simp [ih.1], ?_⟩
    intro x hx
    simp only [List.mem_cons] at hx
    rcases hx with rfl | hx
    · exact h1
    · exact ih.2 x hx

theorem decodeLbrrFlags_ok (nfpp lf : Nat) (c : Dec) :
    (decodeLbrrFlags nfpp lf c).1.length = 3 ∧ ∀ b ∈ (decodeLbrrFlags nfpp lf c).1, b ≤ 1 := by
  unfold decodeLbrrFlags
  split
  · simp
  · split
    · refine ⟨by simp, ?_⟩
      intro b hb
      simp only [List.mem_cons, List.mem_nil_iff, or_false] at hb
      rcases hb with rfl | rfl | rfl <;> omega
    · generalize sym c ([silk_LBRR_flags_2_iCDF, silk_LBRR_flags_3_iCDF].getD (nfpp - 2) []) = y
      split
      rename_i _ s c1
      dsimp only
      refine ⟨by simp, ?_⟩
      intro b hb
      simp only [List.mem_map, List.mem_range] at hb
      obtain ⟨i, _, rfl⟩ := hb
      split
      · exact Nat.le_of_lt_succ (Nat.mod_lt _ (by omega))
      · omega

end Opus.SilkSymsProofs
