import OpusProofs.Pcm
/-
  OpusProofs.PcmConv — consequences of `roundMag_exact` / `roundMag_mag` for the conversion macros of
  OpusModel/Pcm.lean: bit patterns are determined by their value (apart from ±0), exact results of
  `ofScaled` / `mulPow2`, overflow of `mulPow2`, and the full characterisation of `float2int`,
  `RES2INT24` and `FLOAT2INT16`.
-/
set_option exponentiation.threshold 400
namespace Opus.Pcm

/-! ### sign / magnitude split of a bit pattern -/

theorem mag_add_sign (m : Nat) : mag (2 ^ 31 + m) = mag m := by
  unfold mag
  have h1 : (2 ^ 31 + m) / 2 ^ 23 % 256 = m / 2 ^ 23 % 256 := by omega
  have h2 : (2 ^ 31 + m) % 2 ^ 23 = m % 2 ^ 23 := by omega
  simp only [h1, h2]

theorem signBit_add_sign {m : Nat} (hm : m < 2 ^ 31) : signBit (2 ^ 31 + m) = true := by
  unfold signBit
  have : (2 ^ 31 + m) / 2 ^ 31 % 2 = 1 := by omega
  rw [this]; rfl

theorem signBit_lt {m : Nat} (hm : m < 2 ^ 31) : signBit m = false := by
  unfold signBit
  have : m / 2 ^ 31 % 2 = 0 := by omega
  rw [this]; rfl

/-- Every 32-bit pattern is sign·2^31 + 31 magnitude bits. -/
theorem bits_split {b : Nat} (hb : b < 2 ^ 32) :
    ∃ m, m < 2 ^ 31 ∧ ((signBit b = false ∧ b = m) ∨ (signBit b = true ∧ b = 2 ^ 31 + m)) := by
  by_cases h : b < 2 ^ 31
  · exact ⟨b, h, Or.inl ⟨signBit_lt h, rfl⟩⟩
  · refine ⟨b - 2 ^ 31, by omega, Or.inr ⟨?_, by omega⟩⟩
    have : b = 2 ^ 31 + (b - 2 ^ 31) := by omega
    rw [this]; exact signBit_add_sign (by omega)

theorem roundMag_le (n d : Nat) : roundMag n d ≤ 0x7f800000 := by
  have key : ∀ x : Nat, (if 0x7f800000 ≤ x then 0x7f800000 else x) ≤ 0x7f800000 := by
    intro x; split <;> omega
  unfold roundMag
  exact key _

theorem roundMag_lt (n d : Nat) : roundMag n d < 2 ^ 31 :=
  lt_of_le_of_lt (roundMag_le n d) (by norm_num)

theorem val_some {b : Nat} {k : Int} (h : val b = some k) :
    ∃ n, mag b = some n ∧ k = (if signBit b then -(n : Int) else (n : Int)) := by
  unfold val at h
  split at h
  · cases h
  · rename_i n hn
    injection h with h
    exact ⟨n, hn, h.symm⟩

theorem val_of_mag {b n : Nat} (h : mag b = some n) :
    val b = some (if signBit b then -(n : Int) else (n : Int)) := by
  unfold val; rw [h]

theorem val_none_of_mag {b : Nat} (h : mag b = none) : val b = none := by
  unfold val; rw [h]

/-- Zero magnitude means zero magnitude bits. -/
theorem mag_zero {m : Nat} (hm : m < 2 ^ 31) (h : mag m = some 0) : m = 0 := by
  have := roundMag_mag hm h
  rw [← this]; decide

/-! ### a bit pattern is determined by its value (apart from −0) -/

theorem eq_ofScaled_of_val {b : Nat} {k : Int} (hb : b < 2 ^ 32) (hv : val b = some k) (hnz : b ≠ 2 ^ 31) :
    b = ofScaled k 0 := by
  obtain ⟨n, hn, hk⟩ := val_some hv
  obtain ⟨m, hm, hs | hs⟩ := bits_split hb
  · obtain ⟨hsb, rfl⟩ := hs
    rw [hsb] at hk
    simp only [Bool.false_eq_true, if_false] at hk
    subst hk
    unfold ofScaled
    have : ¬ ((n : Int) < 0) := by omega
    rw [if_neg this, Int.natAbs_natCast, roundMag_mag hm hn]; omega
  · obtain ⟨hsb, hbm⟩ := hs
    rw [hsb] at hk
    simp only [if_true] at hk
    rw [hbm, mag_add_sign] at hn
    have hn0 : n ≠ 0 := by
      intro h0; subst h0
      have := mag_zero hm hn
      subst this; exact hnz (by omega)
    subst hk
    unfold ofScaled
    have : (-(n : Int) < 0) := by omega
    rw [if_pos this, Int.natAbs_neg, Int.natAbs_natCast, roundMag_mag hm hn]; exact hbm

/-! ### exact results of `ofScaled` -/

/-- `ofScaled (j·2^d) d` is exact when `|j|` is a 24-bit integer times a power of two. -/
theorem val_ofScaled_dyadic (j : Int) (d q t : Nat) (hj : j.natAbs = q * 2 ^ t) (hq : q < 2 ^ 24)
    (hfin : j.natAbs < 2 ^ 277) :
    val (ofScaled (j * 2 ^ d) d) = some j ∧ ofScaled (j * 2 ^ d) d < 2 ^ 32 ∧
      ofScaled (j * 2 ^ d) d ≠ 2 ^ 31 := by
  have hn : (j * 2 ^ d).natAbs = q * 2 ^ (t + d) := by
    rw [Int.natAbs_mul, hj, Int.natAbs_pow, Nat.pow_add, Nat.mul_assoc]; rfl
  have hdiv := dvd_of_dyadic hn hq (Nat.le_add_left d t)
  have hfin' : (j * 2 ^ d).natAbs < 2 ^ (277 + d) := by
    rw [Int.natAbs_mul, Int.natAbs_pow, Nat.pow_add]
    exact Nat.mul_lt_mul_of_pos_right hfin (by positivity)
  have hm := roundMag_exact _ d hdiv hfin'
  have hnd : (j * 2 ^ d).natAbs / 2 ^ d = j.natAbs := by
    rw [Int.natAbs_mul, Int.natAbs_pow]; exact Nat.mul_div_cancel _ (by positivity)
  rw [hnd] at hm
  have hr := roundMag_lt (j * 2 ^ d).natAbs d
  have hpos : (0 : Int) < 2 ^ d := by positivity
  unfold ofScaled
  by_cases hneg : j < 0
  · have h1 : j * 2 ^ d < 0 := Int.mul_neg_of_neg_of_pos hneg hpos
    rw [if_pos h1]
    refine ⟨?_, by omega, ?_⟩
    · rw [val_of_mag (by rw [mag_add_sign]; exact hm), signBit_add_sign hr]
      simp only [if_true]; congr 1; omega
    · intro h
      have h0 : roundMag (j * 2 ^ d).natAbs d = 0 := by omega
      rw [h0] at hm
      have : mag 0 = some 0 := by decide
      rw [this] at hm; injection hm with hm; omega
  · have h1 : ¬ (j * 2 ^ d < 0) := by
      have : 0 ≤ j * 2 ^ d := Int.mul_nonneg (by omega) (le_of_lt hpos)
      omega
    rw [if_neg h1]
    refine ⟨?_, by omega, by omega⟩
    rw [Nat.zero_add, val_of_mag hm, signBit_lt hr]
    simp only [Bool.false_eq_true, if_false]; congr 1; omega

/-- Two exact results with the same value are the same bits. -/
theorem ofScaled_dyadic_eq (j : Int) (d q t : Nat) (hj : j.natAbs = q * 2 ^ t) (hq : q < 2 ^ 24)
    (hfin : j.natAbs < 2 ^ 277) : ofScaled (j * 2 ^ d) d = ofScaled j 0 := by
  obtain ⟨h1, h2, h3⟩ := val_ofScaled_dyadic j d q t hj hq hfin
  exact eq_ofScaled_of_val h2 h1 h3

/-! ### `mulPow2` on finite values: exact, or overflow to ±inf -/

theorem roundMag_overflow {n : Nat} (h : 2 ^ 277 ≤ n) : roundMag n 0 = 0x7f800000 := by
  have hn : n ≠ 0 := by
    intro h0; subst h0; exact absurd h (by norm_num)
  have hL : 277 ≤ Nat.log2 n := (Nat.le_log2 hn).mpr h
  have hL1 : 2 ^ Nat.log2 n ≤ n := (Nat.le_log2 hn).mp (le_refl _)
  unfold roundMag
  generalize Nat.log2 n = L at *
  have hsh : max (L - 23) 0 = L - 23 := by simp
  simp only [hsh, Nat.sub_zero]
  have hq : 2 ^ 23 ≤ n / 2 ^ (L - 23) := by
    rw [Nat.le_div_iff_mul_le (by positivity), ← Nat.pow_add]
    have : 23 + (L - 23) = L := by omega
    rw [this]; exact hL1
  generalize n / 2 ^ (L - 23) = Q at *
  generalize n % 2 ^ (L - 23) = R at *
  generalize 2 ^ (L - 23) / 2 = H at *
  have h254 : 254 * 2 ^ 23 ≤ (L - 23) * 2 ^ 23 := Nat.mul_le_mul_right _ (by omega)
  have hq' : ∀ (c1 c2 : Prop) [Decidable c1] [Decidable c2],
      Q ≤ (if c1 then Q else if c2 then Q + 1 else Q) := by
    intro c1 c2 _ _; split
    · omega
    · split <;> omega
  have key : ∀ x : Nat, 0x7f800000 ≤ x → (if 0x7f800000 ≤ x then 0x7f800000 else x) = 0x7f800000 :=
    fun x hx => if_pos hx
  apply key
  have := hq' (L - 23 = 0) (H < R ∨ R = H ∧ Q % 2 = 1)
  omega

theorem mag_inf : mag 0x7f800000 = none := by decide

/-- A finite value times 2^p: either the exact product, or ±inf when it does not fit. -/
theorem mulPow2_finite {b : Nat} {k : Int} (p : Nat) (hb : b < 2 ^ 32) (hv : val b = some k) :
    (k.natAbs * 2 ^ p < 2 ^ 277 ∧ val (mulPow2 b p) = some (k * 2 ^ p) ∧ mulPow2 b p < 2 ^ 32) ∨
    (2 ^ 277 ≤ k.natAbs * 2 ^ p ∧ mulPow2 b p = (if k < 0 then 2 ^ 31 else 0) + 0x7f800000) := by
  obtain ⟨n, hn, hk⟩ := val_some hv
  have hkabs : k.natAbs = n := by
    rw [hk]; split
    · rw [Int.natAbs_neg, Int.natAbs_natCast]
    · rw [Int.natAbs_natCast]
  have hmul : mulPow2 b p = (if signBit b then 2 ^ 31 else 0) + roundMag (n * 2 ^ p) 0 := by
    unfold mulPow2; rw [hn]
  by_cases hfit : n * 2 ^ p < 2 ^ 277
  · left
    obtain ⟨m, hm, _⟩ := bits_split hb
    obtain ⟨q, t, hqt, hq, _⟩ := mag_dyadic hn
    have hnp : n * 2 ^ p = q * 2 ^ (t + p) := by rw [hqt, Nat.pow_add, Nat.mul_assoc]
    have hdiv := dvd_of_dyadic hnp hq (Nat.zero_le _)
    have hex := roundMag_exact (n * 2 ^ p) 0 hdiv hfit
    simp only [Nat.pow_zero, Nat.div_one] at hex
    have hr := roundMag_lt (n * 2 ^ p) 0
    refine ⟨by rw [hkabs]; exact hfit, ?_, ?_⟩
    · rw [hmul]
      cases hs : signBit b
      · simp only [Bool.false_eq_true, if_false, Nat.zero_add]
        rw [val_of_mag hex, signBit_lt hr, hk, hs]
        simp only [Bool.false_eq_true, if_false]; congr 1
      · simp only [if_true]
        rw [val_of_mag (by rw [mag_add_sign]; exact hex), signBit_add_sign hr, hk, hs]
        simp only [if_true]; congr 1; push_cast; ring
    · rw [hmul]; split <;> omega
  · right
    have hge : 2 ^ 277 ≤ n * 2 ^ p := by omega
    refine ⟨by rw [hkabs]; exact hge, ?_⟩
    rw [hmul, roundMag_overflow hge]
    have hn0 : n ≠ 0 := by
      intro h0; subst h0; simp at hge
    congr 1
    rw [hk]
    cases hs : signBit b
    · simp only [Bool.false_eq_true, if_false]
      rw [if_neg (by omega)]
    · simp only [if_true]
      rw [if_pos (by omega)]

/-- `mulPow2` keeps ±inf and keeps NaN a NaN. -/
theorem mulPow2_nonfinite {b : Nat} (p : Nat) (hv : val b = none) :
    val (mulPow2 b p) = none ∧ isNaN (mulPow2 b p) = isNaN b ∧ signBit (mulPow2 b p) = signBit b := by
  have hm : mag b = none := by
    unfold val at hv
    split at hv
    · assumption
    · cases hv
  have he : b / 2 ^ 23 % 256 = 255 := by
    unfold mag at hm
    simp only at hm
    split at hm
    · assumption
    · split at hm <;> cases hm
  unfold mulPow2
  rw [hm]
  simp only
  split
  · rename_i hq
    have h22 : b / 2 ^ 22 % 2 = 0 := hq.2
    have e1 : (b + 2 ^ 22) / 2 ^ 23 % 256 = 255 := by omega
    have e2 : (b + 2 ^ 22) % 2 ^ 23 ≠ 0 := by omega
    have e3 : (b + 2 ^ 22) / 2 ^ 31 % 2 = b / 2 ^ 31 % 2 := by omega
    refine ⟨?_, ?_, ?_⟩
    · apply val_none_of_mag
      unfold mag; simp only [e1, if_true]
    · rw [hq.1]; unfold isNaN; exact decide_eq_true ⟨e1, e2⟩
    · unfold signBit; rw [e3]
  · exact ⟨hv, rfl, rfl⟩

/-! ### rounding to integer -/

/-- Scaling numerator and denominator by the same power of two does not change the rounding. -/
theorem rne_scale (k : Int) (a d : Nat) : rne (k * 2 ^ a) (d + a) = rne k d := by
  apply rne_of_isRne
  obtain ⟨h1, h2⟩ := rne_isRne k d
  have hA : (0 : Int) < 2 ^ a := by positivity
  have e : rne k d * 2 ^ (d + a) - k * 2 ^ a = (rne k d * 2 ^ d - k) * 2 ^ a := by
    rw [pow_add]; ring
  unfold IsRne
  rw [e, abs_mul, abs_of_pos hA, pow_add]
  constructor
  · calc 2 * (|rne k d * 2 ^ d - k| * 2 ^ a) = (2 * |rne k d * 2 ^ d - k|) * 2 ^ a := by ring
      _ ≤ 2 ^ d * 2 ^ a := Int.mul_le_mul_of_nonneg_right h1 (le_of_lt hA)
  · intro h
    apply h2
    have : (2 * |rne k d * 2 ^ d - k|) * 2 ^ a = 2 ^ d * 2 ^ a := by rw [← h]; ring
    exact Int.eq_of_mul_eq_mul_right (ne_of_gt hA) this

/-- `float2int` in terms of the value. -/
theorem float2int_of_val {b : Nat} {k : Int} (hv : val b = some k) :
    float2int b = (if -(2 ^ 31) ≤ rne k 149 ∧ rne k 149 < 2 ^ 31 then rne k 149 else -(2 ^ 31)) := by
  unfold float2int; rw [hv]

theorem float2int_none {b : Nat} (hv : val b = none) : float2int b = -(2 ^ 31) := by
  unfold float2int; rw [hv]

end Opus.Pcm
