import OpusProofs.OpusFrameCelt
/-
  A concrete 5 ms redundancy frame (kernel-evaluated) meeting every hypothesis of `OwnCoderFrame`: mono, narrowband
  (`end = 13`), `LM = 1`, CBR, 24 bytes, 72 coder calls (46 in the header; 13 fine-energy calls, 13 PVQ indices), filled to
  the last bit (`ec_tell = 192`).  Pattern of OpusProofs/CeltFrameExample.lean (C17).
-/
namespace Opus.OpusFrameProofs.Example
open Opus Opus.RangeCoder Opus.CeltSymsEnc OpusProofs.CeltHdr Opus.OpusFrameProofs

def cfgR : EncCfg := { start := 0, end_ := 13, C := 1, LM := 1, vbr := false, lfe := false, size := 24 }
/-- decisions: silence 0, pf off, transient 0, intra 0, 13 energies, 13 tf decisions (tf_select included), spread 2,
    13 × no dynalloc boost, trim 5, intensity 13, dual 0, prev 0, signalBandwidth 13; then 26 × 1 for the band data -/
def dsR : List Int := [0, 0, 0, 0, 1, 2, -1, 0, 0, 1, 0, -2, 0, 0, 1, 0, 0, 0] ++ List.replicate 12 0 ++
  [2,  0,0,0,0,0,0,0,0,0,0,0,0,0,  5,  13, 0, 0, 13] ++ List.replicate 26 1
def bufR : List Nat := List.replicate 24 0
def s0R : St := { e := encInit bufR 24, ops := [], ds := dsR }
def allR : List Op := match Opus.CeltBandsEnc.encFrame cfgR s0R with | .ok f => f.ops | _ => []

def worldR : World :=
  { buf := bufR, size := 24, all := allR, hs := by decide, hb := by decide +kernel, hl := by decide +kernel,
    hn := by decide +kernel, herr := by decide +kernel, hn29 := by decide +kernel }

theorem ownR : ∃ fr, OwnCoderFrame worldR cfgR s0R fr ∧ fr.fin.rng = 1642388224 ∧ fr.ops.length = 72 ∧ tell fr.fin = 192 := by
  have hok : (match Opus.CeltBandsEnc.encFrame cfgR s0R with | .ok _ => true | _ => false) = true := by decide +kernel
  cases h : Opus.CeltBandsEnc.encFrame cfgR s0R with
  | ok fr =>
    have hall : allR = fr.ops := by unfold allR; rw [h]
    have f1 : (match Opus.CeltBandsEnc.encFrame cfgR s0R with
        | .ok f => decide (f.hdr.silence = 0 ∧ f.hdr.size = 24 ∧ f.hdr.pf.on = 0 ∧
            (cfgR.start : Int) ≤ f.hdr.allocInp.intensity ∧ f.hdr.allocInp.dualStereo = 0 ∧ f.fin.rng = 1642388224 ∧
            f.ops.length = 72 ∧ tell f.fin = 192)
        | _ => false) = true := by decide +kernel
    rw [h] at f1
    have f1 := of_decide_eq_true f1
    have hlen : worldR.len = 24 := by decide +kernel
    refine ⟨fr, ⟨rfl, rfl, rfl, h, f1.1, ⟨[], by rw [List.append_nil]; exact hall⟩, by decide, by decide,
      by rw [hlen, f1.2.1], Or.inl hlen, by rw [hlen]; decide +kernel, fun hne => absurd f1.2.2.1 hne, f1.2.2.2.1,
      Or.inl f1.2.2.2.2.1⟩, f1.2.2.2.2.2.1, f1.2.2.2.2.2.2.1, f1.2.2.2.2.2.2.2⟩
  | err e => rw [h] at hok; cases hok
  | oob => rw [h] at hok; cases hok
  | abort => rw [h] at hok; cases hok

end Opus.OpusFrameProofs.Example
