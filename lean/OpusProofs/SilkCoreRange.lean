import OpusProofs.SilkCoreBasic
/-
  OpusProofs.SilkCoreRange — range lemmas: C expressions of silk_decode_core whose plain signed arithmetic cannot wrap
  (property C03, slice SilkCore).
-/
namespace Opus.SilkCoreProofs
open Opus Opus.SilkParams Opus.SilkCore Opus.Gen Opus.Frozen

/-- decode_core.c:81-91: for an `opus_int16` pulse and a table offset, the shift `pulses[i] << 14` does not wrap and every
    intermediate value of the excitation arithmetic (±QUANT_LEVEL_ADJUST_Q10 << 4, + offset_Q10 << 4, negation) stays inside
    `[-2^30, 2^30]`, far from the `opus_int32` limits: the plain C operations are exact. -/
theorem excStep_nowrap (off seed p : Int) (hp : -32768 ≤ p ∧ p ≤ 32767) (ho : -1024 ≤ off ∧ off ≤ 1024) :
    lshift32 p 14 = p * 16384 ∧ -1073741824 ≤ (excStep off seed p).1 ∧ (excStep off seed p).1 ≤ 1073741824 := by
  have h2 : (2 : Int) ^ 14 = 16384 := by decide
  have hs : lshift32 p 14 = p * 16384 := by
    unfold lshift32 wrap32; rw [h2]; omega
  refine ⟨hs, ?_⟩
  unfold excStep
  simp only [hs, SilkCoreTabs.quantLevelAdjustQ10]
  constructor <;> (repeat' split) <;> omega

end Opus.SilkCoreProofs
