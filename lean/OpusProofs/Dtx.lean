import OpusModel.Dtx
/-
  OpusProofs.Dtx — lemmas about the two DTX counter machines (C20):
  `decide_dtx_mode` (`decideDtx`, `dtxSteps`) and the SILK `noSpeechCounter` machine
  (`silkVad`, `silkSteps`).  The regenerated constants enter through the four `*_eq` lemmas
  below; if `/repo` changes a constant they stop being `rfl` and every bound that quotes the
  property's 200 ms / 400 ms fails to check.
-/
namespace Opus.Dtx
open Opus.Gen.DtxConsts

theorem nb_eq : nbSpeechFramesBeforeDtx = 10 := rfl
theorem max_eq : maxConsecutiveDtx = 20 := rfl
/-- 200 ms in Q1. -/
theorem onsetQ1_eq : onsetQ1 = 400 := rfl
/-- 600 ms in Q1 (200 ms + 400 ms). -/
theorem limitQ1_eq : limitQ1 = 1200 := rfl

/-- Case-split every `if` of the goal, then arithmetic. -/
macro "split_omega" : tactic =>
  `(tactic| ((repeat' split) <;> (try simp_all) <;> (try omega)))

/-! ### `decide_dtx_mode` -/

theorem decideDtx_active (nb f : Nat) : decideDtx true nb f = (false, 0) := by
  simp [decideDtx]

theorem decideDtx_inactive (nb f : Nat) :
    decideDtx false nb f =
      if nb + f > onsetQ1 then (if nb + f ≤ limitQ1 then (true, nb + f) else (false, onsetQ1))
      else (false, nb + f) := by
  simp [decideDtx]

/-- A frame is dropped exactly when it is inactive and the inactivity including this frame lies
    in the window (200 ms, 600 ms]. -/
theorem decideDtx_true_iff (a : Bool) (nb f : Nat) :
    (decideDtx a nb f).1 = true ↔ a = false ∧ onsetQ1 < nb + f ∧ nb + f ≤ limitQ1 := by
  cases a
  · rw [decideDtx_inactive]; split_omega
  · simp [decideDtx_active]

theorem decideDtx_true_nb (a : Bool) (nb f : Nat) (h : (decideDtx a nb f).1 = true) :
    (decideDtx a nb f).2 = nb + f := by
  have := (decideDtx_true_iff a nb f).1 h
  obtain ⟨ha, h1, h2⟩ := this
  subst ha
  rw [decideDtx_inactive]; simp [h1, h2]

/-- After a frame that is *not* dropped the counter is at most the 200 ms mark. -/
theorem decideDtx_false_nb (a : Bool) (nb f : Nat) (h : (decideDtx a nb f).1 = false) :
    (decideDtx a nb f).2 ≤ onsetQ1 := by
  cases a
  · rw [decideDtx_inactive] at h ⊢
    split_omega
  · simp [decideDtx_active]

theorem decideDtx_nb_le (a : Bool) (nb f : Nat) : (decideDtx a nb f).2 ≤ limitQ1 := by
  cases a
  · rw [decideDtx_inactive]; rw [onsetQ1_eq, limitQ1_eq]; split_omega
  · simp [decideDtx_active]

/-- The refresh: an inactive frame that cannot be dropped because the 400 ms allowance is used up
    leaves the counter exactly at the 200 ms mark, so the next inactive frame is dropped again. -/
theorem decideDtx_refresh (nb f : Nat) (h : limitQ1 < nb + f) :
    decideDtx false nb f = (false, onsetQ1) := by
  rw [decideDtx_inactive]; rw [limitQ1_eq] at h; rw [onsetQ1_eq, limitQ1_eq]; split_omega

/-! ### Schedules -/

theorem dtxSteps_nil (nb : Nat) : dtxSteps nb [] = ([], nb) := rfl
theorem dtxSteps_cons (nb : Nat) (a : Bool) (f : Nat) (rest : List (Bool × Nat)) :
    dtxSteps nb ((a, f) :: rest) =
      ((decideDtx a nb f).1 :: (dtxSteps (decideDtx a nb f).2 rest).1, (dtxSteps (decideDtx a nb f).2 rest).2) := rfl

theorem dtxSteps_length (nb : Nat) (s : List (Bool × Nat)) : (dtxSteps nb s).1.length = s.length := by
  induction s generalizing nb with
  | nil => rfl
  | cons x xs ih => obtain ⟨a, f⟩ := x; simp [dtxSteps_cons, ih]

theorem dtxSteps_append (nb : Nat) (s t : List (Bool × Nat)) :
    dtxSteps nb (s ++ t) = ((dtxSteps nb s).1 ++ (dtxSteps (dtxSteps nb s).2 t).1, (dtxSteps (dtxSteps nb s).2 t).2) := by
  induction s generalizing nb with
  | nil => simp [dtxSteps_nil]
  | cons x xs ih => obtain ⟨a, f⟩ := x; simp [dtxSteps_cons, ih]

theorem durSum_append (s t : List (Bool × Nat)) : durSum (s ++ t) = durSum s + durSum t := by
  induction s with
  | nil => simp [durSum]
  | cons x xs ih => obtain ⟨a, f⟩ := x; simp [durSum, ih]; omega

/-- While every frame of a segment is dropped the counter simply accumulates the durations. -/
theorem dtxSteps_all_true (nb : Nat) (s : List (Bool × Nat)) (h : ∀ d ∈ (dtxSteps nb s).1, d = true) :
    (dtxSteps nb s).2 = nb + durSum s ∧ (s ≠ [] → nb + durSum s ≤ limitQ1) := by
  induction s generalizing nb with
  | nil => simp [dtxSteps_nil, durSum]
  | cons x xs ih =>
    obtain ⟨a, f⟩ := x
    rw [dtxSteps_cons] at h ⊢
    have h1 : (decideDtx a nb f).1 = true := h _ (by simp)
    have h2 : ∀ d ∈ (dtxSteps (decideDtx a nb f).2 xs).1, d = true := fun d hd => h d (by simp [hd])
    have hnb := decideDtx_true_nb a nb f h1
    have hw := (decideDtx_true_iff a nb f).1 h1
    have := ih _ h2
    rw [hnb] at this ⊢
    refine ⟨by simp [durSum]; omega, fun _ => ?_⟩
    simp only [durSum]
    by_cases hx : xs = []
    · subst hx; simp [durSum]; omega
    · have := this.2 hx; omega

/-- **Run bound (machine level).**  From any counter value, a segment of coded frames that are all
    dropped lasts less than 400 ms plus the duration of its first frame. -/
theorem dtx_run_bound_seg (nb : Nat) (a : Bool) (f : Nat) (rest : List (Bool × Nat))
    (h : ∀ d ∈ (dtxSteps nb ((a, f) :: rest)).1, d = true) :
    durSum ((a, f) :: rest) < 800 + f := by
  have hall := dtxSteps_all_true nb _ h
  have h1 : (decideDtx a nb f).1 = true := h _ (by simp [dtxSteps_cons])
  have hw := (decideDtx_true_iff a nb f).1 h1
  have := hall.2 (by simp)
  rw [onsetQ1_eq] at hw; rw [limitQ1_eq] at this
  omega

/-- Inactive frames from counter `nb`, as long as the 600 ms limit is not passed: the counter adds
    up and frame `i` is dropped iff the inactivity including it exceeds 200 ms. -/
theorem dtxSteps_inactive (nb : Nat) (fs : List Nat) (h : nb + fs.sum ≤ limitQ1) :
    (dtxSteps nb (fs.map (fun f => (false, f)))).2 = nb + fs.sum ∧
    (dtxSteps nb (fs.map (fun f => (false, f)))).1 =
      (List.range fs.length).map (fun i => decide (onsetQ1 < nb + (fs.take (i + 1)).sum)) := by
  induction fs generalizing nb with
  | nil => simp [dtxSteps_nil]
  | cons f fs ih =>
    simp only [List.map_cons, dtxSteps_cons, List.sum_cons, List.length_cons] at h ⊢
    have hd : decideDtx false nb f = (decide (onsetQ1 < nb + f), nb + f) := by
      rw [decideDtx_inactive]
      by_cases h1 : nb + f > onsetQ1
      · have : nb + f ≤ limitQ1 := by omega
        simp [h1, this]
      · simp [h1]
    rw [hd]
    have := ih (nb + f) (by omega)
    refine ⟨by rw [this.1]; omega, ?_⟩
    rw [this.2, List.range_succ_eq_map]
    simp only [List.map_cons, List.map_map, List.take_zero, List.sum_nil, List.take_succ_cons, List.sum_cons]
    simp only [Nat.add_assoc]
    rfl

theorem decideDtx_inactive_le (nb f : Nat) (h : nb + f ≤ limitQ1) :
    decideDtx false nb f = (decide (onsetQ1 < nb + f), nb + f) := by
  rw [decideDtx_inactive]
  by_cases h1 : nb + f > onsetQ1
  · simp [h1, h]
  · simp [h1]

/-- `n ≥ 1` inactive frames of equal duration that stay within the 600 ms limit are all dropped iff
    the first one is; the counter adds up. -/
theorem dtxSteps_replicate (nb n f : Nat) (h : nb + (n + 1) * f ≤ limitQ1) :
    (dtxSteps nb (List.replicate (n + 1) (false, f))).2 = nb + (n + 1) * f ∧
    ((∀ d ∈ (dtxSteps nb (List.replicate (n + 1) (false, f))).1, d = true) ↔ onsetQ1 < nb + f) := by
  induction n generalizing nb with
  | zero =>
    have h' : nb + f ≤ limitQ1 := by omega
    simp [List.replicate, dtxSteps_cons, dtxSteps_nil, decideDtx_inactive_le nb f h']
  | succ n ih =>
    have h' : nb + f ≤ limitQ1 := by
      have : (n + 1 + 1) * f = (n + 1) * f + f := by rw [Nat.succ_mul]
      omega
    have h'' : nb + f + (n + 1) * f ≤ limitQ1 := by
      have : (n + 1 + 1) * f = (n + 1) * f + f := by rw [Nat.succ_mul]
      omega
    rw [List.replicate_succ, dtxSteps_cons, decideDtx_inactive_le nb f h']
    have := ih (nb + f) h''
    refine ⟨?_, ?_⟩
    · simp only; rw [this.1]
      have : (n + 1 + 1) * f = (n + 1) * f + f := by rw [Nat.succ_mul]
      omega
    · simp only [List.mem_cons, forall_eq_or_imp, decide_eq_true_eq]
      rw [this.2]
      constructor
      · exact fun h => h.1
      · intro h; exact ⟨h, by omega⟩

/-! ### The SILK machine -/

/-- With the flag armed, one VAD step leaves it armed exactly when the frame is inactive and the
    counter (including this frame) lies in (10, 30]. -/
theorem silkVad_armed (cnt : Nat) (low : Bool) :
    (silkVad ⟨cnt, true⟩ low).inDtx = true ↔
      low = true ∧ nbSpeechFramesBeforeDtx < cnt + 1 ∧ cnt + 1 ≤ nbSpeechFramesBeforeDtx + maxConsecutiveDtx := by
  unfold silkVad
  cases low <;> simp <;> split_omega

/-- The flag is never switched on by the VAD step. -/
theorem silkVad_disarmed (cnt : Nat) (low : Bool) : (silkVad ⟨cnt, false⟩ low).inDtx = false := by
  unfold silkVad
  cases low <;> simp <;> split_omega

theorem silkVad_inDtx_imp (s : SilkCh) (low : Bool) (h : (silkVad s low).inDtx = true) : s.inDtx = true := by
  obtain ⟨c, i⟩ := s
  cases i
  · rw [silkVad_disarmed] at h; cases h
  · rfl

theorem silkVad_cnt_of_inDtx (s : SilkCh) (low : Bool) (h : (silkVad s low).inDtx = true) :
    (silkVad s low).cnt = s.cnt + 1 ∧ nbSpeechFramesBeforeDtx < s.cnt + 1 ∧
      s.cnt + 1 ≤ nbSpeechFramesBeforeDtx + maxConsecutiveDtx ∧ low = true := by
  obtain ⟨c, i⟩ := s
  have hi := silkVad_inDtx_imp _ _ h
  simp at hi; subst hi
  have := (silkVad_armed c low).1 h
  obtain ⟨hl, h1, h2⟩ := this
  subst hl
  refine ⟨?_, h1, h2, rfl⟩
  unfold silkVad; simp
  split_omega

theorem silkVad_active (s : SilkCh) : silkVad s false = ⟨0, false⟩ := by
  unfold silkVad; simp

theorem silkVad_cnt_le (s : SilkCh) (low : Bool) (h : s.cnt ≤ nbSpeechFramesBeforeDtx + maxConsecutiveDtx) :
    (silkVad s low).cnt ≤ nbSpeechFramesBeforeDtx + maxConsecutiveDtx := by
  unfold silkVad
  cases low <;> simp <;> split_omega

theorem silkSteps_cons (cnt : Nat) (low : Bool) (rest : List Bool) :
    silkSteps cnt (low :: rest) =
      ((silkVad ⟨cnt, true⟩ low).inDtx :: (silkSteps (silkVad ⟨cnt, true⟩ low).cnt rest).1,
       (silkSteps (silkVad ⟨cnt, true⟩ low).cnt rest).2) := rfl

theorem silkSteps_append (cnt : Nat) (s t : List Bool) :
    silkSteps cnt (s ++ t) = ((silkSteps cnt s).1 ++ (silkSteps (silkSteps cnt s).2 t).1, (silkSteps (silkSteps cnt s).2 t).2) := by
  induction s generalizing cnt with
  | nil => simp [silkSteps]
  | cons x xs ih => simp [silkSteps_cons, ih]

theorem silkSteps_all_true (cnt : Nat) (s : List Bool) (h : ∀ d ∈ (silkSteps cnt s).1, d = true) :
    (silkSteps cnt s).2 = cnt + s.length ∧ (s ≠ [] → cnt + s.length ≤ nbSpeechFramesBeforeDtx + maxConsecutiveDtx)
      ∧ (∀ l ∈ s, l = true) := by
  induction s generalizing cnt with
  | nil => simp [silkSteps]
  | cons x xs ih =>
    rw [silkSteps_cons] at h ⊢
    have h1 : (silkVad ⟨cnt, true⟩ x).inDtx = true := h _ (by simp)
    have h2 : ∀ d ∈ (silkSteps (silkVad ⟨cnt, true⟩ x).cnt xs).1, d = true := fun d hd => h d (by simp [hd])
    have hc := silkVad_cnt_of_inDtx _ _ h1
    simp only at hc
    have := ih _ h2
    rw [hc.1] at this ⊢
    refine ⟨by simp; omega, fun _ => ?_, ?_⟩
    · by_cases hx : xs = []
      · subst hx; simp; omega
      · have := this.2.1 hx; simp; omega
    · intro l hl; simp at hl; rcases hl with rfl | hl
      · exact hc.2.2.2
      · exact this.2.2 l hl

/-- **SILK run bound.**  Any segment of SILK frames that may all be dropped has at most
    `MAX_CONSECUTIVE_DTX` = 20 frames (400 ms of 20 ms frames), whatever the counter was. -/
theorem silk_run_bound_seg (cnt : Nat) (low : Bool) (rest : List Bool)
    (h : ∀ d ∈ (silkSteps cnt (low :: rest)).1, d = true) : (low :: rest).length ≤ 20 := by
  have hall := silkSteps_all_true cnt _ h
  have h1 : (silkVad ⟨cnt, true⟩ low).inDtx = true := h _ (by simp [silkSteps_cons])
  have hc := silkVad_cnt_of_inDtx _ _ h1
  have := hall.2.1 (by simp)
  simp only [nb_eq, max_eq] at hc this
  simp at this ⊢; omega

end Opus.Dtx
