import OpusProofs.RangeCoderRoundTrip
import OpusProofs.RangeCoderFrame
import OpusProofs.RangeCoderStageA2
/-
  OpusProofs.RangeCoderBudget — C08 Stage D: if the bit usage reported at the end does not exceed
  `8 * storage`, no write of the whole run fails and `ec_enc_done` succeeds.
-/
namespace Opus.RangeCoder

/-- Exact bit accounting of an error-free encoder: `nbits_total` counts 33 initial bits, 8 per
    range-coder digit and the raw bits. -/
def Acct (c : Enc) : Prop := c.nbitsTotal = 33 + 8 * encM c + rawN c

/-! ### Writes succeed while there is room -/

theorem writeByte_noerr {c : Enc} (v : Nat) (he : c.error = 0) (h : c.offs + c.endOffs < c.storage) :
    (writeByte c v).error = 0 := by rw [writeByte_eq v h]; exact he

theorem flushExt_noerr (sym : Nat) : ∀ (n : Nat) (c : Enc), c.error = 0 →
    c.offs + n + c.endOffs ≤ c.storage → (flushExt sym n c).error = 0
  | 0, _, he, _ => he
  | n + 1, c, he, h => by
    unfold flushExt
    apply flushExt_noerr sym n
    · show (writeByte c sym).error = 0
      exact writeByte_noerr sym he (by omega)
    · rw [writeByte_eq sym (by omega)]; simp only; omega

theorem carryOut_noerr (c : Enc) (cc : Nat) (he : c.error = 0) (h : encM c + c.endOffs ≤ c.storage) :
    (carryOut c cc).error = 0 := by
  unfold encM pendCount at h
  unfold carryOut
  split
  · simp only
    by_cases hr : c.rem ≥ 0
    · rw [if_pos hr] at h
      rw [if_pos hr]
      have hw : c.offs + c.endOffs < c.storage := by omega
      have e1 := writeByte_noerr (c := c) (c.rem.toNat + cc / 256) he hw
      have e2 := writeByte_eq (c := c) (c.rem.toNat + cc / 256) hw
      generalize writeByte c (c.rem.toNat + cc / 256) = c1 at *
      split
      · apply flushExt_noerr _ _ _ e1
        rw [e2]; simp only; omega
      · exact e1
    · rw [if_neg hr] at h
      rw [if_neg hr]
      split
      · exact flushExt_noerr _ _ _ he (by omega)
      · exact he
  · exact he

/-- `ec_enc_normalize` cannot fail while the digits it pushes still fit in front of the raw bytes;
    each step accounts 8 bits for one digit. -/
theorem encNormalize_noerr (c : Enc) (pre : EncPre c) (he : c.error = 0)
    (hn : (encNormalize c).nbitsTotal < 4294967296)
    (hfit : 8 * (encM c + c.endOffs) + ((encNormalize c).nbitsTotal - c.nbitsTotal) ≤ 8 * c.storage) :
    (encNormalize c).error = 0 ∧
    8 * encM (encNormalize c) + c.nbitsTotal = 8 * encM c + (encNormalize c).nbitsTotal := by
  induction hm : 8388609 - c.rng using Nat.strongRecOn generalizing c with
  | _ m ih =>
    by_cases h : 0 < c.rng ∧ c.rng ≤ 8388608
    · rw [encNormalize_step c h] at hn hfit ⊢
      have hnb := encNormalize_nbits_ge (normStep c)
      have hnb2 : (normStep c).nbitsTotal = c.nbitsTotal + 8 := rfl
      have herr1 : (normStep c).error = 0 := carryOut_noerr c _ he (by omega)
      obtain ⟨_, s1, _, s3, s4, _, _, s7, s8, _, _, _, _⟩ := normStep_spec c pre h.2 (by omega) herr1
      obtain ⟨i1, i2⟩ := ih (8388609 - (normStep c).rng) (by rw [s3]; omega) (normStep c) s1 herr1 hn
        (by rw [s4, s7, s8]; omega) rfl
      exact ⟨i1, by rw [s4] at i2; omega⟩
    · rw [encNormalize_done c h]
      exact ⟨he, rfl⟩

theorem encDoneFlush_noerr (c : Enc) (w u : Nat) (he : c.error = 0)
    (h : c.offs + c.endOffs + u / 8 ≤ c.storage) : (encDoneFlush c w u).1.error = 0 := by
  fun_induction encDoneFlush c w u with
  | case1 c w u hu ih =>
    have hw : c.offs + c.endOffs < c.storage := by omega
    apply ih
    · rw [writeByteAtEnd_eq _ hw]; exact he
    · rw [writeByteAtEnd_eq _ hw]; simp only; omega
  | case2 c w u hu => exact he

/-! ### One operation within budget -/

theorem ilog_le_32 {c : Ctx} (hr : RngOk c) : ilog c.rng ≤ 32 := (ilog_range hr.1 hr.2).2

theorem encM_ge_offs (c : Enc) : c.offs ≤ encM c := by unfold encM; omega

theorem rawN_ge (c : Enc) : 8 * c.endOffs ≤ rawN c := by unfold rawN; omega

/-- A primitive range-coded operation whose resulting `ec_tell` fits the buffer cannot fail. -/
theorem noerr_prim (c : Enc) (op : Op) (ri : RunInv c) (he : c.error = 0) (ac : Acct c) (hl : op.Legal)
    {r a b : Nat} {first : Bool} (hsub : op.sub c.rng = some (r, a, b, first))
    (hn : (encOp c op).nbitsTotal < 4294967296) (hfit : tell (encOp c op) ≤ 8 * (c.storage : Int)) :
    (encOp c op).error = 0 ∧ Acct (encOp c op) := by
  have hr : RngOk c := ⟨ri.inv.rng_lo, ri.inv.rng_hi⟩
  have hr' := (encOp_stageA c op hr hl).1
  have hil := ilog_le_32 hr'
  obtain ⟨ok, heq⟩ := encOp_sub c op ri.inv hl hsub
  rw [heq] at hn hfit hil ⊢
  obtain ⟨pre, _, _⟩ := encSub_spec c r a b first ri.inv ok
  have hnb := encNormalize_nbits_ge (encSub c r a b first)
  rw [encSub_nbitsTotal] at hnb
  have hM := encSub_encM c r a b first
  have hro := rawN_ge c
  unfold Acct at ac
  unfold tell at hfit
  obtain ⟨e1, e2⟩ := encNormalize_noerr (encSub c r a b first) pre (by rw [encSub_error]; exact he) hn
    (by rw [hM, encSub_endOffs, encSub_nbitsTotal, encSub_storage]; omega)
  obtain ⟨_, _, _, _, _, _, n6, _, _, n9⟩ := encNormalize_spec (encSub c r a b first) pre hn e1
  rw [encSub_endOffs] at n6
  rw [encSub_nendBits] at n9
  rw [hM, encSub_nbitsTotal] at e2
  refine ⟨e1, ?_⟩
  unfold rawN at ac
  unfold Acct rawN
  rw [n6, n9]
  omega

theorem encBits_error_eq (c : Enc) (v n : Nat) :
    (encBits c v n).error = (if c.nendBits + n > 32 then encBitsFlush c c.endWindow c.nendBits
      else (c, c.endWindow, c.nendBits)).1.error := rfl

/-- `ec_enc_bits` whose resulting `ec_tell` fits the buffer cannot fail. -/
theorem noerr_bits (c : Enc) (v n : Nat) (ri : RunInv c) (he : c.error = 0) (ac : Acct c) (hn2 : n ≤ 25)
    (hv : v < 2 ^ n) (hfit : tell (encBits c v n) ≤ 8 * (c.storage : Int)) :
    (encBits c v n).error = 0 ∧ Acct (encBits c v n) := by
  have hr : RngOk c := ⟨ri.inv.rng_lo, ri.inv.rng_hi⟩
  have hil := ilog_le_32 hr
  obtain ⟨b1, b2⟩ := encBits_rn c v n
  have hoffs := encM_ge_offs c
  have herr : (encBits c v n).error = 0 := by
    rw [encBits_error_eq]
    split
    · rename_i hf
      rw [encBitsFlush_eq _ _ _ (by have := ri.raw.nend_le; omega)]
      apply encDoneFlush_noerr _ _ _ he
      unfold tell at hfit
      rw [b1, b2] at hfit
      unfold Acct rawN at ac
      omega
    · exact he
  refine ⟨herr, ?_⟩
  obtain ⟨g1, g2, g3, g4, g5, g6⟩ := encBits_range c v n ri hn2 hv herr
  unfold Acct at ac ⊢
  rw [g1, g4, g6]; omega

/-- Any operation of the round-trip theorems whose resulting `ec_tell` fits the buffer cannot fail. -/
theorem noerr_op (c : Enc) (op : Op) (ri : RunInv c) (he : c.error = 0) (ac : Acct c) (hl : op.LegalAt c)
    (hn : (encOp c op).nbitsTotal < 4294967296) (hfit : tell (encOp c op) ≤ 8 * ((encOp c op).storage : Int)) :
    (encOp c op).error = 0 ∧ Acct (encOp c op) := by
  have hsto : ∀ (op' : Op), op'.Legal → ∀ {r a b first}, op'.sub c.rng = some (r, a, b, first) →
      (encOp c op').storage = c.storage := by
    intro op' hl' r a b first hsub
    rw [(encOp_sub c op' ri.inv hl' hsub).2]
    exact (encNormalize_pres (fun x => x.storage = c.storage) (fun _ _ h => by simpa using h) (fun _ _ h => h)
      (fun _ _ h => h) (fun _ _ _ _ h => h) _ (encSub_storage c r a b first))
  cases op with
  | encode fl fh ft => exact noerr_prim c _ ri he ac hl rfl hn (by rw [hsto (.encode fl fh ft) hl rfl] at hfit; exact hfit)
  | encodeBin fl fh nb => exact noerr_prim c _ ri he ac hl rfl hn (by rw [hsto (.encodeBin fl fh nb) hl rfl] at hfit; exact hfit)
  | bitLogp v logp =>
    obtain ⟨r, a, b, first, hsub⟩ := sub_isSome_bitLogp c.rng v logp
    exact noerr_prim c _ ri he ac hl hsub hn (by rw [hsto (.bitLogp v logp) hl hsub] at hfit; exact hfit)
  | icdf s tbl ftb => exact noerr_prim c _ ri he ac hl rfl hn (by rw [hsto (.icdf s tbl ftb) hl rfl] at hfit; exact hfit)
  | icdf16 s tbl ftb => exact noerr_prim c _ ri he ac hl rfl hn (by rw [hsto (.icdf16 s tbl ftb) hl rfl] at hfit; exact hfit)
  | bits v n =>
    have hs : (encBits c v n).storage = c.storage := by
      have := encBits_frame c v n (B0 := c.buf) (S0 := c.storage)
        ⟨rfl, rfl, Nat.le_refl _, ri.inv.wf.offs_le, ri.inv.wf.storage_le⟩
      unfold encBits
      simp only
      split
      · exact encBitsFlush_frame (·.storage) (by simp) _ _ _
      · rfl
    simp only [encOp] at hfit ⊢
    rw [hs] at hfit
    exact noerr_bits c v n ri he ac hl.2.1 hl.2.2 hfit
  | patchInitial v n => exact absurd hl (by simp [Op.LegalAt])
  | shrink size =>
    refine ⟨he, ?_⟩
    unfold Acct at ac ⊢
    exact ac
  | uint v ft =>
    obtain ⟨l1, l2, l3⟩ := hl
    simp only [encOp, encUint] at hn hfit ⊢
    by_cases hb : ilog (ft - 1) > 8
    · rw [if_pos hb] at hn hfit ⊢
      have hleg := uint_hi_legal l1 l2 l3 hb
      generalize hftb : ilog (ft - 1) - 8 = ftb at *
      have hftb24 : ftb ≤ 24 := by
        have : ilog (ft - 1) ≤ 32 := by rw [ilog_lt_iff]; omega
        omega
      have hlo : v % 2 ^ ftb < 2 ^ ftb := Nat.mod_lt _ (Nat.pow_pos (by decide))
      generalize hfl : v / 2 ^ ftb = fl at *
      generalize hft' : (ft - 1) / 2 ^ ftb + 1 = ft' at *
      obtain ⟨b1, b2⟩ := encBits_rn (encode c fl (fl + 1) ft') (v % 2 ^ ftb) ftb
      have hs1 : (encode c fl (fl + 1) ft').storage = c.storage := hsto (.encode fl (fl + 1) ft') hleg rfl
      have hs2 : (encBits (encode c fl (fl + 1) ft') (v % 2 ^ ftb) ftb).storage = c.storage := by
        rw [← hs1]
        unfold encBits
        simp only
        split
        · exact encBitsFlush_frame (·.storage) (by simp) _ _ _
        · rfl
      rw [hs2] at hfit
      have hfit1 : tell (encode c fl (fl + 1) ft') ≤ 8 * (c.storage : Int) := by
        unfold tell at hfit ⊢
        rw [b1, b2] at hfit
        omega
      obtain ⟨e1, a1⟩ := noerr_prim c (.encode fl (fl + 1) ft') ri he ac hleg rfl (by simp only [encOp]; omega)
        (by simp only [encOp]; exact hfit1)
      simp only [encOp] at e1 a1
      have s1 := step_prim c (.encode fl (fl + 1) ft') ri hleg rfl (by simp only [encOp]; omega) e1
      simp only [encOp] at s1
      exact noerr_bits _ _ _ s1.run e1 a1 (by omega) hlo (by rw [hs1]; exact hfit)
    · rw [if_neg hb] at hn hfit ⊢
      have hleg := uint_lo_legal l1 l3 hb
      have := hsto (.encode v (v + 1) (ft - 1 + 1)) hleg rfl
      simp only [encOp] at this
      rw [this] at hfit
      exact noerr_prim c (.encode v (v + 1) (ft - 1 + 1)) ri he ac hleg rfl hn hfit

/-! ### `ec_enc_done` within budget -/

theorem flushExt_bound (sym : Nat) : ∀ (n : Nat) (c : Enc),
    (flushExt sym n c).offs ≤ c.offs + n ∧ (flushExt sym n c).rem = c.rem ∧
    (0 < n → (flushExt sym n c).ext = 0)
  | 0, c => ⟨Nat.le_refl _, rfl, fun h => absurd h (by omega)⟩
  | n + 1, c => by
    have hstep : flushExt sym (n + 1) c = flushExt sym n { writeByte c sym with ext := n } := rfl
    rw [hstep]
    generalize hc1 : ({ writeByte c sym with ext := n } : Enc) = c1
    obtain ⟨i1, i2, i3⟩ := flushExt_bound sym n c1
    have f1 : c1.offs = (writeByte c sym).offs := by subst hc1; rfl
    have f2 : c1.rem = c.rem := by subst hc1; simp
    have f3 : c1.ext = n := by subst hc1; rfl
    have hw : (writeByte c sym).offs ≤ c.offs + 1 := by unfold writeByte; split <;> simp
    refine ⟨by omega, by rw [i2, f2], fun _ => ?_⟩
    by_cases hn : n = 0
    · subst hn; simp only [flushExt]; exact f3
    · exact i3 (by omega)

/-- A digit pushed into the carry buffer adds at most one to the digit count (with or without a
    failed write). -/
theorem encM_carryOut_le (c : Enc) (cc : Nat) : encM (carryOut c cc) ≤ encM c + 1 := by
  unfold carryOut
  split
  · simp only
    have key : ∀ c1 : Enc, c1.ext = c.ext →
        (if c1.ext > 0 then flushExt ((255 + cc / 256) % 256) c1.ext c1 else c1).offs ≤ c1.offs + c.ext ∧
        (if c1.ext > 0 then flushExt ((255 + cc / 256) % 256) c1.ext c1 else c1).ext = 0 := by
      intro c1 he
      obtain ⟨f1, f2, f3⟩ := flushExt_bound ((255 + cc / 256) % 256) c1.ext c1
      split
      · rename_i hx; exact ⟨by omega, f3 hx⟩
      · exact ⟨by omega, by omega⟩
    have hcc : (((cc % 256 : Nat) : Int)) ≥ 0 := by omega
    by_cases hr : c.rem ≥ 0
    · rw [if_pos hr]
      have hw : (writeByte c (c.rem.toNat + cc / 256)).offs ≤ c.offs + 1 := by unfold writeByte; split <;> simp
      obtain ⟨k1, k2⟩ := key (writeByte c (c.rem.toNat + cc / 256)) (by simp)
      generalize (if (writeByte c (c.rem.toNat + cc / 256)).ext > 0 then
        flushExt ((255 + cc / 256) % 256) (writeByte c (c.rem.toNat + cc / 256)).ext
          (writeByte c (c.rem.toNat + cc / 256)) else writeByte c (c.rem.toNat + cc / 256)) = c2 at *
      unfold encM pendCount
      simp only
      rw [k2, if_pos hcc, if_pos hr]
      omega
    · rw [if_neg hr]
      obtain ⟨k1, k2⟩ := key c rfl
      generalize (if c.ext > 0 then flushExt ((255 + cc / 256) % 256) c.ext c else c) = c2 at *
      unfold encM pendCount
      simp only
      rw [k2, if_pos hcc, if_neg hr]
      omega
  · unfold encM pendCount
    simp only [u32]
    split <;> omega

theorem doneRange_noerr (c : Enc) (ri : RunInv c) (he : c.error = 0)
    (h : ∀ l0 : Nat, (encDoneEnd c).1 = (l0 : Int) → l0 ≤ 9 → encM c + (l0 + 7) / 8 + c.endOffs ≤ c.storage) :
    (doneRange c).1.error = 0 := by
  obtain ⟨l0, hl, h9, _, _, _, _, _, _⟩ := encDoneEnd_spec c ri.inv
  have hk := h l0 hl h9
  unfold doneRange
  rw [hl]
  generalize (encDoneEnd c).2 = E
  have flush : ∀ c1 : Enc, c1.error = 0 → encM c1 + c1.endOffs ≤ c1.storage →
      (if c1.rem ≥ 0 ∨ c1.ext > 0 then carryOut c1 0 else c1).error = 0 := by
    intro c1 e1 h1
    split
    · exact carryOut_noerr c1 0 e1 h1
    · exact e1
  rcases (show l0 = 0 ∨ (1 ≤ l0 ∧ l0 ≤ 8) ∨ l0 = 9 by omega) with h0 | h1 | h2
  · subst h0
    rw [encDoneOut_nonpos c E _ (by omega)]
    simp only
    exact flush c he (by omega)
  · have hpos : (l0 : Int) > 0 := by omega
    rw [encDoneOut_pos c E _ hpos, encDoneOut_nonpos _ _ _ (by omega)]
    simp only
    have e1 := carryOut_noerr c (E / 8388608) he (by omega)
    have m1 := encM_carryOut_le c (E / 8388608)
    exact flush _ e1 (by rw [carryOut_endOffs, carryOut_storage]; omega)
  · subst h2
    rw [encDoneOut_pos c E _ (by omega), encDoneOut_pos _ _ _ (by omega), encDoneOut_nonpos _ _ _ (by omega)]
    simp only
    have e1 := carryOut_noerr c (E / 8388608) he (by omega)
    have m1 := encM_carryOut_le c (E / 8388608)
    have e2 := carryOut_noerr (carryOut c (E / 8388608)) (E * 256 % 2147483648 / 8388608) e1
      (by rw [carryOut_endOffs, carryOut_storage]; omega)
    have m2 := encM_carryOut_le (carryOut c (E / 8388608)) (E * 256 % 2147483648 / 8388608)
    exact flush _ e2 (by rw [carryOut_endOffs, carryOut_storage, carryOut_endOffs, carryOut_storage]; omega)

/-- "If the bit usage reported at the end does not exceed 8 x buffer size, finishing the stream
    cannot fail" — for an error-free encoder state with exact bit accounting. -/
theorem encDone_noerr (c : Enc) (ri : RunInv c) (he : c.error = 0) (ac : Acct c)
    (hn : c.nbitsTotal < 4294967296) (hfit : tell c ≤ 8 * (c.storage : Int)) : (encDone c).error = 0 := by
  have hr : RngOk c := ⟨ri.inv.rng_lo, ri.inv.rng_hi⟩
  unfold tell at hfit
  unfold Acct rawN at ac
  have herr2 : (doneRange c).1.error = 0 := by
    apply doneRange_noerr c ri he
    intro l0 hl h9
    obtain ⟨l0', hl', _, hil, _⟩ := encDoneEnd_spec c ri.inv
    have : l0 = l0' := by rw [hl] at hl'; exact Int.ofNat_inj.mp hl'
    subst this
    omega
  obtain ⟨l0, T, hl1, hT, hil, hbits, _, wf2, _, sr, _, _, _⟩ := doneRange_spec c ri.inv hn herr2
  rw [encDone_eq', hl1]
  generalize (doneRange c).1 = c2 at *
  obtain ⟨s1, s2, s3, s4, s5, s6⟩ := sr
  unfold doneRaw
  have hfl : c2.offs + c2.endOffs + c2.nendBits / 8 ≤ c2.storage := by rw [s1, s2, s4]; omega
  have herr3 := encDoneFlush_noerr c2 c2.endWindow c2.nendBits herr2 hfl
  obtain ⟨_, k1, k2, k3, _, _, _, _, _⟩ :=
    encDoneFlush_spec c2 c2.endWindow c2.nendBits wf2.offs_le wf2.storage_le herr3
  generalize encDoneFlush c2 c2.endWindow c2.nendBits = st at *
  obtain ⟨c3, w3, u3⟩ := st
  simp only at k1 k2 k3 herr3 ⊢
  have e_offs : c3.offs = c2.offs := by rw [k1]
  have e_sto : c3.storage = c2.storage := by rw [k1]
  have e_eo : c3.endOffs = c2.endOffs + c2.nendBits / 8 := by rw [k1]
  unfold encDoneTail
  rw [if_pos herr3]
  simp only
  have hce : (clearMiddle c3).error = 0 := herr3
  have hcs : (clearMiddle c3).storage = c3.storage := rfl
  have hco : (clearMiddle c3).offs = c3.offs := rfl
  have hceo : (clearMiddle c3).endOffs = c3.endOffs := rfl
  split
  · rename_i hu
    rw [hcs, hco, hceo, e_offs, e_sto, e_eo]
    have hTl : (-(-(T : Int))).toNat = T := by omega
    rw [hTl]
    rw [s1, s2, s4]
    rw [s4] at k3
    rw [if_neg (by omega), if_neg (by omega)]
    exact hce
  · exact hce

/-! ### The whole run within budget -/

theorem legalAt_legal {c : Enc} {op : Op} (h : op.LegalAt c) : op.Legal := by
  cases op <;> first | exact h | trivial | exact absurd h (by simp [Op.LegalAt])

theorem legalAt_shrinkOk {c : Enc} {op : Op} (h : op.LegalAt c) : ShrinkOk c op := by
  cases op <;> first | exact h | trivial

theorem shrinksOk_of_legalRun (ops : List Op) : ∀ (c : Enc), LegalRun c ops → ShrinksOk c ops := by
  induction ops with
  | nil => intro _ _; trivial
  | cons op ops ih => intro c h; exact ⟨legalAt_shrinkOk h.1, ih _ h.2⟩

theorem frame_self (c : Enc) (h1 : c.offs + c.endOffs ≤ c.storage) (h2 : c.storage ≤ c.buf.length) :
    Frame c.buf c.storage c := ⟨rfl, rfl, Nat.le_refl _, h1, h2⟩

theorem Frame.rebase {B0 : List Nat} {S0 : Nat} {c : Enc} (h : Frame B0 S0 c) : Frame c.buf c.storage c :=
  frame_self c h.cur (by have := h.sto; have := h.fit; have := h.len; omega)

theorem tell_run_mono (ops : List Op) : ∀ (c : Enc), RngOk c → LegalRun c ops →
    tell c ≤ tell (encRun c ops) ∧ RngOk (encRun c ops) := by
  induction ops with
  | nil => intro c hr _; exact ⟨Int.le_refl _, hr⟩
  | cons op ops ih =>
    intro c hr hl
    obtain ⟨h1, h2⟩ := encOp_stageA c op hr (legalAt_legal hl.1)
    obtain ⟨i1, i2⟩ := ih (encOp c op) h1 hl.2
    exact ⟨Int.le_trans (tell_mono_of_adv hr h1 h2) i1, i2⟩

/-- No operation of a run fails if the `ec_tell` reported at its end fits the final buffer size. -/
theorem budget_run (ops : List Op) : ∀ (c : Enc), RunInv c → c.error = 0 → Acct c → LegalRun c ops →
    (encRun c ops).nbitsTotal < 4294967296 →
    tell (encRun c ops) ≤ 8 * ((encRun c ops).storage : Int) →
    (encRun c ops).error = 0 ∧ RunInv (encRun c ops) ∧ Acct (encRun c ops) := by
  induction ops with
  | nil => intro c ri he ac _ _ _; exact ⟨he, ri, ac⟩
  | cons op ops ih =>
    intro c ri he ac hl hn hfit
    have hr : RngOk c := ⟨ri.inv.rng_lo, ri.inv.rng_hi⟩
    have hr1 := (encOp_stageA c op hr (legalAt_legal hl.1)).1
    have hn1 : (encOp c op).nbitsTotal < 4294967296 := Nat.lt_of_le_of_lt (encRun_nbits_mono ops _) hn
    have fr1 := (encOp_frame c op (frame_self c ri.inv.wf.offs_le ri.inv.wf.storage_le)
      (legalAt_shrinkOk hl.1)).rebase
    have hsto := (encRun_frame ops (encOp c op) fr1 (shrinksOk_of_legalRun ops _ hl.2)).sto
    have hmono := (tell_run_mono ops (encOp c op) hr1 hl.2).1
    have hfit1 : tell (encOp c op) ≤ 8 * ((encOp c op).storage : Int) := by
      have : ((encRun (encOp c op) ops).storage : Int) ≤ ((encOp c op).storage : Int) := by omega
      have h3 : tell (encRun (encOp c op) ops) ≤ 8 * ((encRun (encOp c op) ops).storage : Int) := hfit
      omega
    obtain ⟨e1, a1⟩ := noerr_op c op ri he ac hl.1 hn1 hfit1
    have st := step_op c op ri hl.1 hn1 e1
    exact ih (encOp c op) st.run e1 a1 hl.2 hn hfit

theorem acct_encInit (buf : List Nat) (size : Nat) : Acct (encInit buf size) := by
  unfold Acct; rw [encInit_encM, encInit_rawN]; rfl

/-- **Finishing within budget cannot fail.** -/
theorem done_within_budget_all (buf : List Nat) (size : Nat) (ops : List Op) (hs : size ≤ buf.length)
    (hb : BytesOk buf) (hl : LegalRun (encInit buf size) ops)
    (hn : (encRun (encInit buf size) ops).nbitsTotal < 4294967296)
    (hfit : tell (encRun (encInit buf size) ops) ≤ 8 * ((encRun (encInit buf size) ops).storage : Int)) :
    (encodeAll buf size ops).error = 0 := by
  obtain ⟨e1, r1, a1⟩ := budget_run ops (encInit buf size) (runInv_encInit buf size hs hb) rfl
    (acct_encInit buf size) hl hn hfit
  exact encDone_noerr _ r1 e1 a1 hn hfit

/-- The same with the bound on `nbits_total` derived from the buffer size. -/
theorem done_within_budget_size (buf : List Nat) (size : Nat) (ops : List Op) (hs : size ≤ buf.length)
    (hb : BytesOk buf) (hl : LegalRun (encInit buf size) ops) (hsz : size ≤ 500000000)
    (hfit : tell (encRun (encInit buf size) ops) ≤ 8 * ((encRun (encInit buf size) ops).storage : Int)) :
    (encodeAll buf size ops).error = 0 := by
  have hr := (tell_run_mono ops (encInit buf size) (encInit_rngOk buf size) hl).2
  have hil := ilog_le_32 hr
  have hsto := (encRun_frame ops (encInit buf size) (frame_encInit buf size hs)
    (shrinksOk_of_legalRun ops _ hl)).sto
  refine done_within_budget_all buf size ops hs hb hl ?_ hfit
  unfold tell at hfit
  omega

/-! ### Exact bit accounting of every error-free run (what the encoder skeletons assume) -/

theorem encNormalize_acct (c : Enc) (pre : EncPre c) (hn : (encNormalize c).nbitsTotal < 4294967296)
    (herr : (encNormalize c).error = 0) :
    8 * encM (encNormalize c) + c.nbitsTotal = 8 * encM c + (encNormalize c).nbitsTotal := by
  induction hm : 8388609 - c.rng using Nat.strongRecOn generalizing c with
  | _ m ih =>
    by_cases h : 0 < c.rng ∧ c.rng ≤ 8388608
    · rw [encNormalize_step c h] at hn herr ⊢
      have hnb := encNormalize_nbits_ge (normStep c)
      have hnb2 : (normStep c).nbitsTotal = c.nbitsTotal + 8 := rfl
      have herr1 : (normStep c).error = 0 := by
        apply Classical.byContradiction; intro hne
        exact encNormalize_error_mono _ hne herr
      obtain ⟨_, s1, _, s3, s4, _⟩ := normStep_spec c pre h.2 (by omega) herr1
      have := ih (8388609 - (normStep c).rng) (by rw [s3]; omega) (normStep c) s1 hn herr rfl
      rw [s4] at this; omega
    · rw [encNormalize_done c h]

/-- One successful operation keeps the accounting exact. -/
theorem acct_op (c : Enc) (op : Op) (ri : RunInv c) (ac : Acct c) (hl : op.LegalAt c)
    (hn : (encOp c op).nbitsTotal < 4294967296) (herr : (encOp c op).error = 0) : Acct (encOp c op) := by
  have prim : ∀ (op' : Op), op'.Legal → ∀ {r a b first}, op'.sub c.rng = some (r, a, b, first) →
      (encOp c op').nbitsTotal < 4294967296 → (encOp c op').error = 0 → Acct (encOp c op') := by
    intro op' hl' r a b first hsub hn' herr'
    obtain ⟨ok, heq⟩ := encOp_sub c op' ri.inv hl' hsub
    rw [heq] at hn' herr' ⊢
    obtain ⟨pre, _, _⟩ := encSub_spec c r a b first ri.inv ok
    have e2 := encNormalize_acct _ pre hn' herr'
    obtain ⟨_, _, _, _, _, _, n6, _, _, n9⟩ := encNormalize_spec _ pre hn' herr'
    rw [encSub_endOffs] at n6
    rw [encSub_nendBits] at n9
    rw [encSub_encM, encSub_nbitsTotal] at e2
    unfold Acct rawN at ac ⊢
    rw [n6, n9]; omega
  cases op with
  | encode fl fh ft => exact prim _ hl rfl hn herr
  | encodeBin fl fh nb => exact prim _ hl rfl hn herr
  | bitLogp v logp =>
    obtain ⟨r, a, b, first, hsub⟩ := sub_isSome_bitLogp c.rng v logp
    exact prim _ hl hsub hn herr
  | icdf s tbl ftb => exact prim _ hl rfl hn herr
  | icdf16 s tbl ftb => exact prim _ hl rfl hn herr
  | bits v n =>
    obtain ⟨g1, _, _, g4, _, g6⟩ := encBits_range c v n ri hl.2.1 hl.2.2 herr
    simp only [encOp]
    unfold Acct at ac ⊢
    rw [g1, g4, g6]; omega
  | patchInitial v n => exact absurd hl (by simp [Op.LegalAt])
  | shrink size => exact ac
  | uint v ft =>
    obtain ⟨l1, l2, l3⟩ := hl
    simp only [encOp, encUint] at hn herr ⊢
    by_cases hb : ilog (ft - 1) > 8
    · rw [if_pos hb] at hn herr ⊢
      have hleg := uint_hi_legal l1 l2 l3 hb
      generalize hftb : ilog (ft - 1) - 8 = ftb at *
      have hftb24 : ftb ≤ 24 := by
        have : ilog (ft - 1) ≤ 32 := by rw [ilog_lt_iff]; omega
        omega
      have hlo : v % 2 ^ ftb < 2 ^ ftb := Nat.mod_lt _ (Nat.pow_pos (by decide))
      have hmono := (encBits_rn (encode c (v / 2 ^ ftb) (v / 2 ^ ftb + 1) ((ft - 1) / 2 ^ ftb + 1))
        (v % 2 ^ ftb) ftb).2
      have herr1 : (encode c (v / 2 ^ ftb) (v / 2 ^ ftb + 1) ((ft - 1) / 2 ^ ftb + 1)).error = 0 := by
        apply Classical.byContradiction; intro hne
        exact encBits_error_mono _ _ _ hne herr
      have a1 := prim (.encode (v / 2 ^ ftb) (v / 2 ^ ftb + 1) ((ft - 1) / 2 ^ ftb + 1)) hleg rfl
        (by simp only [encOp]; omega) herr1
      have s1 := step_prim c (.encode (v / 2 ^ ftb) (v / 2 ^ ftb + 1) ((ft - 1) / 2 ^ ftb + 1)) ri hleg rfl
        (by simp only [encOp]; omega) herr1
      simp only [encOp] at a1 s1
      obtain ⟨g1, _, _, g4, _, g6⟩ := encBits_range _ (v % 2 ^ ftb) ftb s1.run (by omega) hlo herr
      unfold Acct at a1 ⊢
      rw [g1, g4, g6]; omega
    · rw [if_neg hb] at hn herr ⊢
      exact prim (.encode v (v + 1) (ft - 1 + 1)) (uint_lo_legal l1 l3 hb) rfl hn herr

theorem acct_run (ops : List Op) : ∀ (c : Enc), RunInv c → Acct c → LegalRun c ops →
    (encRun c ops).nbitsTotal < 4294967296 → (encRun c ops).error = 0 →
    Acct (encRun c ops) ∧ RunInv (encRun c ops) := by
  induction ops with
  | nil => intro c ri ac _ _ _; exact ⟨ac, ri⟩
  | cons op ops ih =>
    intro c ri ac hl hn herr
    have herr1 : (encOp c op).error = 0 := by
      apply Classical.byContradiction; intro hne
      exact encRun_error_mono ops _ hne herr
    have hn1 : (encOp c op).nbitsTotal < 4294967296 := Nat.lt_of_le_of_lt (encRun_nbits_mono ops _) hn
    exact ih _ (step_op c op ri hl.1 hn1 herr1).run (acct_op c op ri ac hl.1 hn1 herr1) hl.2 hn herr

/-- The bytes an error-free encoder has written so far are strictly below its bit count:
    `8·(offs + end_offs) + 1 ≤ ec_tell` (in fact for all digits, committed or pending). -/
theorem bytes_lt_tell (c : Enc) (ri : RunInv c) (ac : Acct c) :
    8 * ((encM c : Int) + c.endOffs) + 1 ≤ tell c ∧ 8 * ((c.offs : Int) + c.endOffs) + 1 ≤ tell c := by
  have hil := ilog_le_32 (c := c) ⟨ri.inv.rng_lo, ri.inv.rng_hi⟩
  have h1 := encM_ge_offs c
  unfold Acct rawN at ac
  unfold tell
  omega

theorem encDone_rng (c : Enc) : (encDone c).rng = c.rng := by
  rw [encDone_eq']
  unfold doneRaw
  have ht : ∀ (x : Enc) (l : Int) (w u : Nat), (encDoneTail x l w u).rng = x.rng := by
    intro x l w u
    unfold encDoneTail
    split
    · simp only
      split
      · split
        · rfl
        · split <;> rfl
      · rfl
    · rfl
  rw [ht]
  have h2 : (doneRange c).1.rng = c.rng := by
    have h1 := encDoneOut_pres (fun x => x.rng = c.rng) (fun _ _ h => by simpa using h)
      (fun _ _ h => h) (fun _ _ h => h) c (encDoneEnd c).2 (encDoneEnd c).1 rfl
    unfold doneRange
    simp only
    split
    · rw [carryOut_rng']; exact h1
    · exact h1
  exact (encDoneFlush_pres (fun x => x.rng = c.rng) (fun _ _ h => by simpa using h) _ _ _ h2)

/-! ### How much one call can raise `ec_tell` -/

theorem normRN_tell (rng nbits : Nat) (h0 : 0 < rng) (h1 : rng ≤ 2147483648) :
    ((normRN rng nbits).2 : Int) - ilog (normRN rng nbits).1 = (nbits : Int) - ilog rng := by
  fun_induction normRN rng nbits with
  | case1 rng nbits h ih =>
    have e : u32 (rng * 256) = rng * 256 := by unfold u32; omega
    rw [e] at ih ⊢
    have := ih (by omega) (by omega)
    rw [this, ilog_mul_256 (by omega)]
    omega
  | case2 rng nbits h => rfl

theorem ilog_div_pow (x k : Nat) : ilog x ≤ ilog (x / 2 ^ k) + k := by
  rw [ilog_lt_iff, Nat.pow_add]
  have h := (ilog_lt_iff (v := x / 2 ^ k) (k := ilog (x / 2 ^ k))).1 (Nat.le_refl _)
  exact (Nat.div_lt_iff_lt_mul (Nat.pow_pos (by decide))).1 h

/-- `ec_tell` after a primitive call, from the sub-range it selects (normalisation does not change it). -/
theorem tell_prim (c : Enc) (op : Op) (hr : RngOk c) (hl : op.Legal) {r a b : Nat} {first : Bool}
    (hsub : op.sub c.rng = some (r, a, b, first)) :
    tell (encOp c op) = (c.nbitsTotal : Int) - ilog (subRho c.rng r a b first) := by
  have h := encOp_rn_sym c op hr hl hsub
  have ok := Op.sub_ok hl hr.1 hsub
  obtain ⟨p1, p2⟩ := subRho_bounds first ok
  have ht := normRN_tell (subRho c.rng r a b first) c.nbitsTotal p1 (by have := hr.2; omega)
  unfold symRN at h
  unfold tell
  rw [← h] at ht
  exact ht

/-- `ec_enc_bit_logp(·, logp)` raises `ec_tell` by at most `logp`, `ec_enc_uint(·, 256)` by at most 8. -/
theorem tell_step_bounds (c : Enc) (hr : RngOk c) (v logp : Nat) (h1 : 1 ≤ logp) (h2 : logp ≤ 15) (u : Nat)
    (hu : u < 256) :
    tell (encOp c (.bitLogp v logp)) ≤ tell c + logp ∧ tell (encOp c (.uint u 256)) ≤ tell c + 8 := by
  have hrl := hr.1
  have hrh := hr.2
  constructor
  · have hl : (Op.bitLogp v logp).Legal := ⟨h1, h2⟩
    have hd := ilog_div_pow c.rng logp
    by_cases hv : v ≠ 0
    · rw [tell_prim c _ hr hl (r := c.rng / 2 ^ logp) (a := 1) (b := 0) (first := false)
        (by simp only [Op.sub]; rw [if_pos hv])]
      unfold tell subRho
      simp only [Bool.false_eq_true, if_false, Nat.sub_zero, Nat.mul_one]
      omega
    · rw [tell_prim c _ hr hl (r := c.rng / 2 ^ logp) (a := 2 ^ logp) (b := 1) (first := true)
        (by simp only [Op.sub]; rw [if_neg hv])]
      unfold tell subRho
      simp only [if_true, Nat.mul_one]
      have hhalf : c.rng / 2 ^ logp ≤ c.rng / 2 ^ 1 :=
        Nat.div_le_div_left (Nat.pow_le_pow_right (by decide) h1) (by decide)
      have hm : ilog (c.rng / 2 ^ 1) ≤ ilog (c.rng - c.rng / 2 ^ logp) := ilog_mono (by omega)
      have := ilog_div_pow c.rng 1
      omega
  · have e : encOp c (.uint u 256) = encOp c (.encode u (u + 1) 256) := by
      simp only [encOp, encUint]
      have : ilog (256 - 1) = 8 := by decide
      rw [this, if_neg (by omega)]
    have hl : (Op.encode u (u + 1) 256).Legal := ⟨by omega, by omega, by omega, by omega⟩
    rw [e, tell_prim c _ hr hl rfl]
    unfold tell subRho
    have hd := ilog_div_pow c.rng 8
    have h256 : (2 : Nat) ^ 8 = 256 := by decide
    rw [h256] at hd
    by_cases h0 : u = 0
    · subst h0
      simp only [decide_true, if_true]
      have hm : ilog (c.rng / 256) ≤ ilog (c.rng - c.rng / 256 * (256 - (0 + 1))) := by
        apply ilog_mono
        have := Nat.div_mul_le_self c.rng 256
        omega
      omega
    · have hdec : decide (u = 0) = false := by simp [h0]
      rw [hdec]
      simp only [Bool.false_eq_true, if_false]
      have : 256 - u - (256 - (u + 1)) = 1 := by omega
      rw [this, Nat.mul_one]
      omega

end Opus.RangeCoder
