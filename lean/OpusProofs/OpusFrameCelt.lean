import OpusProofs.OpusFrameRed
import OpusProofs.CeltFrameDrive
/-
  C08, frame level: the hypothesis `CeltFrameRT` of the frame-level lock-step theorems, discharged by C17's CELT
  frame round trip (OpusProofs/CeltFrameDrive.lean `celtFrame_roundtrip`, the proof behind OpusProps.C17
  `celt_frame_roundtrip`) for a frame coded on a coder of its own — the 5 ms redundancy frame of a SILK-only or
  hybrid packet (`P0 = []`: nothing precedes the CELT header).

  A C17 `World` is a finished packet: buffer, size, a legal op sequence `all` without coder error; its `bytes`
  (the first `len` bytes after `ec_enc_done`) are the redundancy frame `R`, the CELT encoder model's final `rng` is
  `redundant_rng`.
-/
namespace Opus.OpusFrameProofs
open Opus Opus.RangeCoder Opus.OpusFrameEnc OpusProofs.CeltHdr

/-- The packet of a `World` has exactly `len` bytes, all below 256. -/
theorem world_bytes (w : World) : w.bytes.length = w.len ∧ BytesOk w.bytes := by
  have herrR : (encRun (encInit w.buf w.size) w.all).error = 0 := by
    apply Classical.byContradiction; intro hne
    exact encDone_error_mono _ hne w.herr
  have hnR : (encRun (encInit w.buf w.size) w.all).nbitsTotal < 4294967296 := by
    have h1 := w.hn
    unfold encodeAll at h1
    rw [encDone_nbitsTotal] at h1
    exact h1
  obtain ⟨_, ri, _, _, _⟩ := run_back w.all _ (runInv_encInit w.buf w.size w.hs w.hb) w.hl hnR herrR
  obtain ⟨_, e2, e3, e4, _, _⟩ := encDone_spec _ ri.inv ri.raw ri.bytes hnR w.herr
  have hst := ri.inv.wf.storage_le
  constructor
  · unfold World.bytes World.len encodeAll
    rw [List.length_take, e2, e3]
    omega
  · unfold World.bytes encodeAll
    intro b hb
    exact e4 b (List.mem_of_mem_take hb)

/-- **`CeltFrameRT` from C17's round trip**, for a CELT frame on a coder of its own.  Under the hypotheses of
    `celt_frame_roundtrip` with `P0 = []`, C03's `celtFrame` started on the finished packet ends with the `rng` the
    encoder model ended with. -/
theorem celtFrameRT_own_coder (w : World) (cfg : Opus.CeltSymsEnc.EncCfg) (s0 : Opus.CeltSymsEnc.St)
    (hs0 : s0.ops = []) (he0 : s0.e = encInit w.buf w.size) (hst0 : s0.e.storage = cfg.size)
    (fr : Opus.CeltBandsEnc.EncFrame) (hrun : Opus.CeltBandsEnc.encFrame cfg s0 = .ok fr) (hsil : fr.hdr.silence = 0)
    (hp : w.IsPrefix fr.ops)
    (hcfg : cfg.start < cfg.end_ ∧ cfg.end_ ≤ 21 ∧ (cfg.C = 1 ∨ cfg.C = 2) ∧ cfg.LM ≤ 3)
    (hsz : cfg.size ≤ 1275) (hlen : w.len = fr.hdr.size)
    (hmargin : w.len = cfg.size ∨ (tell (w.encAt fr.hdr.opsHdr) + 16 ≤ ((w.len * 8 : Nat) : Int) ∧
       (tellFrac (w.encAt fr.hdr.opsHdr) : Int) + fr.hdr.totalBoost + 48 < ((w.len * 8 * 8 : Nat) : Int)))
    (hroom : tell s0.e < ((w.len * 8 : Nat) : Int))
    (htap : fr.hdr.pf.on ≠ 0 → tell (w.encAt fr.hdr.opsPf.dropLast) + 2 ≤ ((w.len * 8 : Nat) : Int))
    (hint : (cfg.start : Int) ≤ fr.hdr.allocInp.intensity)
    (hdual : fr.hdr.allocInp.dualStereo = 0 ∨ fr.hdr.allocInp.dualStereo = 1) :
    CeltFrameRT ⟨cfg.start, cfg.end_, cfg.C, cfg.LM⟩ w.bytes.length (decInit w.bytes w.bytes.length) fr.fin.rng := by
  obtain ⟨dh, sA, fa, _, h⟩ := celtFrame_roundtrip w [] cfg s0 hs0 he0 hst0 fr hrun hsil hp hcfg hsz hlen hmargin hroom
    htap hint hdual
  rw [(world_bytes w).1]
  exact ⟨_, h, fa.rngFin⟩

/-- The hypotheses of C17's `celt_frame_roundtrip` for a CELT frame on a coder of its own (`P0 = []`), bundled:
    `w` is the finished packet, `cfg` the CELT encoder's configuration, `s0` its start state (fresh coder on `w`'s
    buffer, the DSP decisions `s0.ds`), `fr` what the encoder model `encFrame` produces. -/
structure OwnCoderFrame (w : World) (cfg : Opus.CeltSymsEnc.EncCfg) (s0 : Opus.CeltSymsEnc.St)
    (fr : Opus.CeltBandsEnc.EncFrame) : Prop where
  ops0 : s0.ops = []
  enc0 : s0.e = encInit w.buf w.size
  storage0 : s0.e.storage = cfg.size
  run : Opus.CeltBandsEnc.encFrame cfg s0 = .ok fr
  notSilent : fr.hdr.silence = 0
  inPacket : w.IsPrefix fr.ops
  cfgOk : cfg.start < cfg.end_ ∧ cfg.end_ ≤ 21 ∧ (cfg.C = 1 ∨ cfg.C = 2) ∧ cfg.LM ≤ 3
  sizeOk : cfg.size ≤ 1275
  len : w.len = fr.hdr.size
  margin : w.len = cfg.size ∨ (tell (w.encAt fr.hdr.opsHdr) + 16 ≤ ((w.len * 8 : Nat) : Int) ∧
       (tellFrac (w.encAt fr.hdr.opsHdr) : Int) + fr.hdr.totalBoost + 48 < ((w.len * 8 * 8 : Nat) : Int))
  room : tell s0.e < ((w.len * 8 : Nat) : Int)
  tapset : fr.hdr.pf.on ≠ 0 → tell (w.encAt fr.hdr.opsPf.dropLast) + 2 ≤ ((w.len * 8 : Nat) : Int)
  intensity : (cfg.start : Int) ≤ fr.hdr.allocInp.intensity
  dual : fr.hdr.allocInp.dualStereo = 0 ∨ fr.hdr.allocInp.dualStereo = 1

theorem OwnCoderFrame.rt {w : World} {cfg : Opus.CeltSymsEnc.EncCfg} {s0 : Opus.CeltSymsEnc.St}
    {fr : Opus.CeltBandsEnc.EncFrame} (h : OwnCoderFrame w cfg s0 fr) :
    CeltFrameRT ⟨cfg.start, cfg.end_, cfg.C, cfg.LM⟩ w.bytes.length (decInit w.bytes w.bytes.length) fr.fin.rng :=
  celtFrameRT_own_coder w cfg s0 h.ops0 h.enc0 h.storage0 fr h.run h.notSilent h.inPacket h.cfgOk h.sizeOk h.len h.margin
    h.room h.tapset h.intensity h.dual

open Opus.SilkSyms Opus.SilkSymsEnc Opus.SilkSymsEncProofs in
/-- `opus_frame_lockstep_silk_red_all` with the redundancy frame produced by C17's CELT encoder model: no CELT
    hypothesis is left. -/
theorem opus_frame_lockstep_silk_red_celt_all (buf : List Nat) (maxData bandwidth nCh ms10 spf48 : Nat) (pk : PacketIn)
    (st : SilkSt) (c2s : Nat) (w : World) (ccfg : Opus.CeltSymsEnc.EncCfg) (s0 : Opus.CeltSymsEnc.St)
    (fr : Opus.CeltBandsEnc.EncFrame)
    (hbw : bandwidth = 1101 ∨ bandwidth = 1102 ∨ bandwidth = 1103)
    (hms : ms10 = 100 ∨ ms10 = 200 ∨ ms10 = 400 ∨ ms10 = 600)
    (hs : maxData - 1 ≤ buf.length) (hb : BytesOk buf) (hok : PacketOk (silkCfg bandwidth nCh ms10) pk)
    (hc2s : c2s ≤ 1) (hown : OwnCoderFrame w ccfg s0 fr)
    (hcc : ccfg.start = 0 ∧ ccfg.end_ = Opus.CeltSyms.endBandOf bandwidth ∧ ccfg.C = nCh ∧ ccfg.LM = 1)
    (hn : (encodeAll buf (maxData - 1) (packetOps (silkCfg bandwidth nCh ms10) pk ++ redSigOps false true 1 c2s w.bytes.length)).nbitsTotal < 4294967296)
    (herr : (encodeAll buf (maxData - 1) (packetOps (silkCfg bandwidth nCh ms10) pk ++ redSigOps false true 1 c2s w.bytes.length)).error = 0)
    (hfit : tell (encRun (encInit buf (maxData - 1)) (packetOps (silkCfg bandwidth nCh ms10) pk ++ redSigOps false true 1 c2s w.bytes.length)) ≤
      8 * ((maxData - 1 : Nat) : Int))
    (hgate : tell (encRun (encInit buf (maxData - 1)) (packetOps (silkCfg bandwidth nCh ms10) pk)) + 17 ≤
      8 * (((tell (encRun (encInit buf (maxData - 1)) (packetOps (silkCfg bandwidth nCh ms10) pk ++ redSigOps false true 1 c2s w.bytes.length)) + 7) / 8) +
        (w.bytes.length : Int))) :
    ∃ o, decodeOpusFrame 1000 bandwidth nCh ms10 false st
        (silkRedFrame buf maxData (silkCfg bandwidth nCh ms10) pk c2s w.bytes fr.fin.rng).payload = .ok o ∧
      o.redundancy = 1 ∧ o.celtToSilk = c2s ∧ o.redundancyBytes = w.bytes.length ∧ o.dec.error = 0 ∧
      o.dec.rng = (encRun (encInit buf (maxData - 1)) (packetOps (silkCfg bandwidth nCh ms10) pk ++ redSigOps false true 1 c2s w.bytes.length)).rng ∧
      o.evs = packetEvs (silkCfg bandwidth nCh ms10) pk (fun j =>
        ((encRun (encInit buf (maxData - 1)) (prefixOps (silkCfg bandwidth nCh ms10) pk j)).rng,
         tell (encRun (encInit buf (maxData - 1)) (prefixOps (silkCfg bandwidth nCh ms10) pk j)))) ∧
      decRangeFinal 1000 bandwidth nCh spf48 (silkRedFrame buf maxData (silkCfg bandwidth nCh ms10) pk c2s w.bytes fr.fin.rng).payload o =
        .ok (silkRedFrame buf maxData (silkCfg bandwidth nCh ms10) pk c2s w.bytes fr.fin.rng).rangeFinal := by
  have hrt := hown.rt
  obtain ⟨h1, h2, h3, h4⟩ := hcc
  rw [h1, h2, h3, h4] at hrt
  exact opus_frame_lockstep_silk_red_all buf maxData bandwidth nCh ms10 spf48 pk st c2s w.bytes fr.fin.rng hbw hms hs hb hok
    hc2s (world_bytes w).2 hn herr hfit hgate hrt

end Opus.OpusFrameProofs
